(** Soundness of the executable reading Alg/SemExec.v: if [check_sdef] / [check_pdef] succeed,
    the DENOTATIONS of the loaded tables satisfy the corresponding equation of the abstract
    semantics DSL/Sem.v in the concrete [BlockAlg] of Series/Inst.v, up to total order N
    ([eqN N], i.e. modulo [ord (S N)]).  So the correspondence check k_semeq ties the
    implementation to the semantics the theorems of Alg/ are about, not to a second model. *)
Require Import List ZArith QArith Arith Bool String Ncring Setoid Morphisms.
From PV.Base Require Import Classes AlgLemmas.
From PV.Series Require Import MultiIndex Cauchy Lift Inst ExecIdx Exec SylvInst.
From PV.Block Require Import Mat Masks CoefAlg BlockSel ExecScalar QLemmas QInst.
From PV.DSL Require Import Syntax Sem.
From PV.Alg Require Import SemExec.
Open Scope string_scope.

Section Sound.
Variables D k N : nat.
Variable bl : list nat.
Variable msk : list (list bool).
Variable cb : list bool.
Variable El : list gq.
Variable tb : bool.
Variable sols : list (string * tser gq).

Let blk := mk_blk bl.
Let keep := mk_keep bl msk.
Let cm := mk_cm bl cb.
Let ksym := mk_keep_sym bl msk.
Let kblk := mk_keep_blk bl msk.
Let cblk := mk_cm_blk bl cb.

Local Notation TT := (T D k gq).
Definition BAi : BlockAlg TT :=
  @series_BlockAlg D k gq _ _ _ _ _ _ _ _ gq_Ring gq_CStar blk keep cm ksym kblk cblk.
Local Hint Extern 0 (BlockAlg _) => exact BAi : typeclass_instances.

Definition asol (s : string) : TT := Exec.den D k (tsol sols s).
Definition arflag (n : string) (x : TT) : TT := Rw x.
Definition afenv (f : string) (l : list TT) : TT :=
  match l with
  | cons y nil => sylv (D := D) (k := k) (Efun El) gq_inv0 y
  | _ => Algebra_syntax.zero
  end.

Local Notation E := (eqN D k N).
Local Notation sden := (Sem.den (gflag tb) arflag afenv asol).

Lemma E_refl x : E x x. Proof. apply (eqN_refl (Rg := gq_Ring)). Qed.
Lemma E_trans x y z : E x y -> E y z -> E x z. Proof. apply (eqN_trans (Rg := gq_Ring)). Qed.

Lemma sylv_E x x' : E x x' -> E (sylv (D := D) (k := k) (Efun El) gq_inv0 x) (sylv (Efun El) gq_inv0 x').
Proof.
  intros H n Hn Hd i j Hi Hj. unfold sylv. rewrite (H n Hn Hd i j Hi Hj). reflexivity.
Qed.

Lemma tden_sound : forall e, supported e = true ->
  E (Exec.den D k (tden D k N bl msk cb El tb sols e)) (sden e).
Proof.
  fix IH 1. intros e. destruct e as [s|s| |a|a b|a b|a z|f args|c a b]; cbn [supported tden Sem.den]; intros Hs.
  - apply E_refl.
  - unfold xadj. eapply E_trans. apply tadj_den. apply E_refl.
  - apply eq_eqN. apply tzero_den. Unshelve. all: try exact gq_Ring; try exact gq_Exec.
  - unfold xopp. eapply E_trans. apply topp_den. apply (eqN_opp (Rg := gq_Ring)). apply IH. exact Hs.
  - apply andb_prop in Hs. destruct Hs as [H1 H2].
    unfold xadd. eapply E_trans. apply tadd_den. apply (eqN_add (Rg := gq_Ring)); apply IH; assumption.
  - apply andb_prop in Hs. destruct Hs as [H1 H2].
    unfold xsub. eapply E_trans. apply tsub_den. apply (eqN_sub (Rg := gq_Ring)); apply IH; assumption.
  - apply andb_prop in Hs. destruct Hs as [H1 H2].
    unfold xdivz. eapply E_trans. apply tdivz_den. apply (eqN_divz (Rg := gq_Ring)). apply IH. exact H1.
  - destruct args as [|[s|a] [|x r]]; try discriminate.
    apply andb_prop in Hs. destruct Hs as [H1 H2].
    cbn [map afenv]. unfold xsylv. eapply E_trans. apply den_tab. apply sylv_E. apply IH. exact H2.
  - destruct c as [n|n].
    + apply andb_prop in Hs. destruct Hs as [H1 H2]. destruct (gflag tb n); apply IH; assumption.
    + apply andb_prop in Hs. destruct Hs as [H12 H3]. apply andb_prop in H12. destruct H12 as [H1 H2].
      unfold arflag, xadd, xsub, xRw.
      eapply E_trans. apply tadd_den. apply (eqN_add (Rg := gq_Ring)).
      * eapply E_trans. apply tRw_den. apply (eqN_Rw (Rg := gq_Ring)). apply IH. exact H2.
      * eapply E_trans. apply tsub_den. apply (eqN_sub (Rg := gq_Ring)). apply IH. exact H3.
        eapply E_trans. apply tRw_den. apply (eqN_Rw (Rg := gq_Ring)). apply IH. exact H3.
Qed.

Lemma xRp_sound x y : E (Exec.den D k x) y -> E (Exec.den D k (xRp D k N bl msk cb x)) (Rp y).
Proof.
  intros H. unfold xRp, xsub, xSel, Rp. eapply E_trans. apply tsub_den. apply (eqN_sub (Rg := gq_Ring)). exact H.
  eapply E_trans. apply tSel_den. apply (eqN_Sel (Rg := gq_Ring)). exact H.
Qed.
Lemma xPos_sound x y : E (Exec.den D k x) y -> E (Exec.den D k (xPos D k N bl msk cb x)) (Pos y).
Proof.
  intros H. unfold xPos, xsub, xZc, Pos. eapply E_trans. apply tsub_den. apply (eqN_sub (Rg := gq_Ring)). exact H.
  eapply E_trans. apply tZc_den. apply (eqN_Zc (Rg := gq_Ring)). exact H.
Qed.

Lemma tline_sound c e : supported e = true ->
  E (Exec.den D k (tline D k N bl msk cb El tb sols c e)) (line_den (gflag tb) arflag afenv asol c e).
Proof.
  intros Hs. destruct c; cbn [tline line_den].
  - apply tden_sound. exact Hs.
  - unfold xSel. eapply E_trans. apply tSel_den. apply (eqN_Sel (Rg := gq_Ring)). apply tden_sound. exact Hs.
  - apply xRp_sound. apply tden_sound. exact Hs.
Qed.

Lemma tlines_sound b : lines_supported b = true ->
  E (Exec.den D k (tlines D k N bl msk cb El tb sols b)) (lines_den (gflag tb) arflag afenv asol b).
Proof.
  induction b as [|l b IH]; cbn [lines_supported tlines lines_den]; intros Hs.
  - apply eq_eqN. apply tzero_den. Unshelve. all: try exact gq_Ring; try exact gq_Exec.
  - destruct l as [c e|h].
    + apply andb_prop in Hs. destruct Hs as [H1 H2].
      unfold xadd. eapply E_trans. apply tadd_den. apply (eqN_add (Rg := gq_Ring)). apply tline_sound. exact H1. apply IH. exact H2.
    + apply IH. exact Hs.
Qed.

Lemma split_supported b pre m : SemExec.split_marker b = (pre, m) -> lines_supported b = true ->
  lines_supported pre = true /\ match m with Some (_, post) => lines_supported post = true | None => True end.
Proof.
  revert pre m. induction b as [|l b IH]; cbn [SemExec.split_marker lines_supported]; intros pre m Hsp Hs.
  - inversion Hsp; subst. split; reflexivity.
  - destruct l as [c e|h].
    + destruct (SemExec.split_marker b) as [pre' m'] eqn:Eb. inversion Hsp; subst.
      apply andb_prop in Hs. destruct Hs as [H1 H2].
      destruct (IH pre' m eq_refl H2) as [Ha Hb]. split. cbn [lines_supported]. rewrite H1, Ha. reflexivity. exact Hb.
    + inversion Hsp; subst. split. reflexivity. exact Hs.
Qed.
Lemma split_same b : SemExec.split_marker b = Sem.split_marker b.
Proof. induction b as [|l b IH]. reflexivity. destruct l as [c e|h]; cbn [SemExec.split_marker Sem.split_marker]. rewrite IH. reflexivity. reflexivity. Qed.

Lemma tbody_sound s b : lines_supported b = true ->
  E (Exec.den D k (tbody D k N bl msk cb El tb sols s b)) (body_den (gflag tb) arflag afenv asol s b).
Proof.
  intros Hs. unfold tbody, body_den. pose proof (split_same b) as Es.
  destruct (SemExec.split_marker b) as [pre [[h post]|]] eqn:Eb; rewrite <- Es.
  - destruct (split_supported b _ _ Eb Hs) as [Hp Hq].
    assert (Eall : E (Exec.den D k (xadd D k N (tlines D k N bl msk cb El tb sols pre) (tlines D k N bl msk cb El tb sols post)))
                     (Algebra_syntax.addition (lines_den (gflag tb) arflag afenv asol pre) (lines_den (gflag tb) arflag afenv asol post))).
    { unfold xadd. eapply E_trans. apply tadd_den. apply (eqN_add (Rg := gq_Ring)); apply tlines_sound; assumption. }
    unfold xadd at 1 2 3. eapply E_trans. apply tadd_den. apply (eqN_add (Rg := gq_Ring)).
    + eapply E_trans. apply tadd_den. apply (eqN_add (Rg := gq_Ring)).
      * eapply E_trans. apply tadd_den. apply (eqN_add (Rg := gq_Ring)).
        -- unfold xDg. eapply E_trans. apply tDg_den. apply (eqN_Dg (Rg := gq_Ring)). exact Eall.
        -- unfold xUp. eapply E_trans. apply tUp_den. apply (eqN_Up (Rg := gq_Ring)). exact Eall.
      * unfold xLo. eapply E_trans. apply tLo_den. apply (eqN_Lo (Rg := gq_Ring)). apply tlines_sound. exact Hp.
    + destruct h.
      * unfold xadj, xUp. eapply E_trans. apply tadj_den. apply (eqN_adj (Rg := gq_Ring)). eapply E_trans. apply tUp_den. apply E_refl.
      * unfold xopp, xadj, xUp. eapply E_trans. apply topp_den. apply (eqN_opp (Rg := gq_Ring)).
        eapply E_trans. apply tadj_den. apply (eqN_adj (Rg := gq_Ring)). eapply E_trans. apply tUp_den. apply E_refl.
  - destruct (split_supported b _ _ Eb Hs) as [Hp _]. apply tlines_sound. exact Hp.
Qed.

Lemma twith_start_sound st x y : E (Exec.den D k x) y ->
  E (Exec.den D k (twith_start D k N bl msk cb sols st x)) (with_start asol st y).
Proof.
  intros H. destruct st; cbn [twith_start with_start].
  - exact H.
  - apply xPos_sound. exact H.
  - unfold xadd, xsub, xone, xDg, xZc. eapply E_trans. apply tadd_den. apply (eqN_add (Rg := gq_Ring)). apply tone_den.
    eapply E_trans. apply tsub_den. apply (eqN_sub (Rg := gq_Ring)). exact H.
    eapply E_trans. apply tDg_den. apply (eqN_Dg (Rg := gq_Ring)). eapply E_trans. apply tZc_den. apply (eqN_Zc (Rg := gq_Ring)). exact H.
  - unfold xadd, xZc. eapply E_trans. apply tadd_den. apply (eqN_add (Rg := gq_Ring)).
    eapply E_trans. apply tZc_den. apply E_refl. apply xPos_sound. exact H.
  - exact H.
Qed.

Theorem check_sdef_sound d : check_sdef D k N bl msk cb El tb sols d = true ->
  E (asol (sname d)) (with_start asol (sstart d) (body_den (gflag tb) arflag afenv asol (sname d) (sbody d))).
Proof.
  unfold check_sdef. intros H. apply andb_prop in H. destruct H as [Hs Ht].
  apply teqb_sound in Ht. eapply E_trans. exact Ht.
  apply twith_start_sound. apply tbody_sound. exact Hs.
Qed.

Lemma tprod_sound fs x y : E (Exec.den D k x) y ->
  E (Exec.den D k (tprod D k N sols fs x)) (prod_den asol fs y).
Proof.
  revert x y. induction fs as [|f r IH]; intros x y H; cbn [tprod prod_den]. exact H.
  apply IH. unfold xmul. eapply E_trans. apply tmul_den; try exact gq_Ring. apply (eqN_mul (Rg := gq_Ring)). exact H. apply E_refl.
Qed.

Theorem check_pdef_sound p : check_pdef D k N bl msk cb sols p = true ->
  E (asol (pname p)) (product_den asol p).
Proof.
  unfold check_pdef. intros Ht. apply teqb_sound in Ht. eapply E_trans. exact Ht.
  unfold tproduct, product_den. destruct (pfactors p) as [|f r].
  - apply tone_den.
  - destruct (pherm p).
    + destruct r as [|g [|g2 r2]].
      * unfold xadd, xDg, xUp, xadj. eapply E_trans. apply tadd_den. apply (eqN_add (Rg := gq_Ring)).
        eapply E_trans. apply tadd_den. apply (eqN_add (Rg := gq_Ring)).
        eapply E_trans. apply tDg_den. apply (eqN_Dg (Rg := gq_Ring)). apply (tprod_sound nil). apply E_refl.
        eapply E_trans. apply tUp_den. apply (eqN_Up (Rg := gq_Ring)). apply (tprod_sound nil). apply E_refl.
        eapply E_trans. apply tadj_den. apply (eqN_adj (Rg := gq_Ring)). eapply E_trans. apply tUp_den. apply (eqN_Up (Rg := gq_Ring)). apply (tprod_sound nil). apply E_refl.
      * unfold xadd, xhsum, xUp, xadj. eapply E_trans. apply tadd_den. apply (eqN_add (Rg := gq_Ring)).
        eapply E_trans. apply tadd_den. apply (eqN_add (Rg := gq_Ring)).
        eapply E_trans. apply thsum_den; try exact gq_Ring. apply E_refl.
        eapply E_trans. apply tUp_den. apply (eqN_Up (Rg := gq_Ring)). apply (tprod_sound (cons g nil)). apply E_refl.
        eapply E_trans. apply tadj_den. apply (eqN_adj (Rg := gq_Ring)). eapply E_trans. apply tUp_den. apply (eqN_Up (Rg := gq_Ring)). apply (tprod_sound (cons g nil)). apply E_refl.
      * unfold xadd, xDg, xUp, xadj. eapply E_trans. apply tadd_den. apply (eqN_add (Rg := gq_Ring)).
        eapply E_trans. apply tadd_den. apply (eqN_add (Rg := gq_Ring)).
        eapply E_trans. apply tDg_den. apply (eqN_Dg (Rg := gq_Ring)). apply tprod_sound. apply E_refl.
        eapply E_trans. apply tUp_den. apply (eqN_Up (Rg := gq_Ring)). apply tprod_sound. apply E_refl.
        eapply E_trans. apply tadj_den. apply (eqN_adj (Rg := gq_Ring)). eapply E_trans. apply tUp_den. apply (eqN_Up (Rg := gq_Ring)). apply tprod_sound. apply E_refl.
    + apply tprod_sound. apply E_refl.
Qed.

(** [check_alg] decides every equation of the semantics, up to order N *)
Definition sem_holds_upto (alg : algorithm) : Prop :=
  (forall d, In d (aseries alg) ->
     E (asol (sname d)) (with_start asol (sstart d) (body_den (gflag tb) arflag afenv asol (sname d) (sbody d)))) /\
  (forall p, In p (aproducts alg) -> E (asol (pname p)) (product_den asol p)).
Theorem check_alg_sound alg : check_alg D k N bl msk cb El tb sols alg = true -> sem_holds_upto alg.
Proof.
  unfold check_alg, failing, sem_holds_upto. intros H.
  destruct (List.app (map sname (filter (fun d => negb (check_sdef D k N bl msk cb El tb sols d)) (aseries alg)))
                     (map pname (filter (fun p => negb (check_pdef D k N bl msk cb sols p)) (aproducts alg)))) eqn:Ef; [|discriminate].
  apply app_eq_nil in Ef. destruct Ef as [E1 E2].
  apply map_eq_nil in E1. apply map_eq_nil in E2.
  split.
  - intros d Hd. apply check_sdef_sound.
    destruct (check_sdef D k N bl msk cb El tb sols d) eqn:Ec. reflexivity.
    assert (Hin : In d (filter (fun d => negb (check_sdef D k N bl msk cb El tb sols d)) (aseries alg))).
    { apply filter_In. split. exact Hd. rewrite Ec. reflexivity. }
    rewrite E1 in Hin. destruct Hin.
  - intros p Hp. apply check_pdef_sound.
    destruct (check_pdef D k N bl msk cb sols p) eqn:Ec. reflexivity.
    assert (Hin : In p (filter (fun p => negb (check_pdef D k N bl msk cb sols p)) (aproducts alg))).
    { apply filter_In. split. exact Hp. rewrite Ec. reflexivity. }
    rewrite E2 in Hin. destruct Hin.
Qed.

End Sound.
