(** Equivariance of the outputs of the Hermitian algorithm under structure-preserving maps:
    naturality (DSL/Natural.v) + uniqueness of the least-action unitary (Alg/Unique.v).

    If [phi : T -> T'] is a [BAHom] that intertwines the scopes, [sol] solves [main_alg] in
    [T], [sol'] solves it in [T'], and the inputs correspond ([sol' "H" == phi (sol "H")]),
    then all three outputs correspond.  This is the common core of C06 (embedding of the
    explicit computation into the implicit one), C13 (parameter bookkeeping), C14 (eigenbasis
    change) and C15 (relabelling, rotation, conjugation, direct sums). *)
Require Import Ncring Ncring_tac Setoid Morphisms ZArith String List.
From PV.Base Require Import Classes AlgLemmas.
From PV.DSL Require Import Syntax Sem Natural.
From PV.Gen Require Import Algorithms_gen.
From PV.Alg Require Import MainLift MainCorrect Unique.
Import ListNotations.
Open Scope string_scope.

Section Equivariance.
Context {T : Type} {r0 r1 : T} {add mul sub : T -> T -> T} {opp : T -> T} {req : T -> T -> Prop}
        {Ro : @Ring_ops T r0 r1 add mul sub opp req} {Rg : @Ring T r0 r1 add mul sub opp req Ro}
        {BA : BlockAlg T}.
Context {T' : Type} {r0' r1' : T'} {add' mul' sub' : T' -> T' -> T'} {opp' : T' -> T'} {req' : T' -> T' -> Prop}
        {Ro' : @Ring_ops T' r0' r1' add' mul' sub' opp' req'} {Rg' : @Ring T' r0' r1' add' mul' sub' opp' req' Ro'}
        {BA' : BlockAlg T'}.
Variable phi : T -> T'.
Context {HH : BAHom phi}.
Existing Instance hom_P.

Variable rflag : string -> T -> T.
Variable rflag' : string -> T' -> T'.
Variable fenv : string -> list T -> T.
Variable fenv' : string -> list T' -> T'.
Hypothesis rflag_hom : forall n x x', phi x == x' -> phi (rflag n x) == rflag' n x'.
Hypothesis fenv_hom : forall f l l', Forall2 (fun x y => phi x == y) l l' -> phi (fenv f l) == fenv' f l'.

Variable sol : string -> T.
Variable sol' : string -> T'.
Hypothesis Hsol : solution (gflag_of false) rflag fenv sol main_alg.
Hypothesis Hsol' : solution (gflag_of false) rflag' fenv' sol' main_alg.
Hypothesis Hin : sol' "H" == phi (sol "H").
(* the target scope is wired as block_diagonalize wires it, and its solver is injective *)
Hypothesis Hw' : wiring rflag' fenv' (sol' "H").
Hypothesis sylv_left' : forall x, Rp (MainLift.sylv fenv' (comm (Zc (sol' "H")) (Rp x))) == Rp x.

Lemma la_proper (H1 H2 U1 U2 : T') : H1 == H2 -> U1 == U2 -> least_action H1 U1 -> least_action H2 U2.
Proof.
  intros EH EU (a & b & c & d). unfold least_action. rewrite <- EH, <- EU. repeat split; assumption.
Qed.

Lemma wiring_proper (H1 H2 : T') : H1 == H2 -> wiring rflag' fenv' H1 -> wiring rflag' fenv' H2.
Proof.
  intros E [a b c d e f g h i j]. constructor; try assumption.
  - rewrite <- E. exact a.
  - rewrite <- E. exact h.
  - intros x. rewrite <- E. apply i.
  - intros y. rewrite <- E. apply j.
Qed.

Theorem equivariant_U : sol' "U" == phi (sol "U").
Proof.
  pose proof (natural phi (gflag_of false) rflag rflag' fenv fenv' rflag_hom fenv_hom sol main_alg Hsol) as Hn.
  set (sn := fun s => phi (sol s)) in Hn.
  assert (Wn : wiring rflag' fenv' (sn "H")).
  { apply (wiring_proper (sol' "H")). exact Hin. exact Hw'. }
  pose proof (main_least_action rflag' fenv' sn Hn Wn) as L1.
  pose proof (main_least_action rflag' fenv' sol' Hsol' Hw') as L2.
  assert (L1' : least_action (sol' "H") (sn "U")).
  { apply (la_proper (sn "H") (sol' "H") (sn "U") (sn "U")). symmetry. exact Hin. reflexivity. exact L1. }
  destruct Hw' as [a b c d e f g h i j].
  symmetry.
  exact (@least_action_unique T' _ _ _ _ _ _ _ _ _ BA' (sol' "H") i (MainLift.sylv fenv') f sylv_left' _ _ L1' L2).
Qed.


Hypothesis Hw : wiring rflag fenv (sol "H").

Theorem equivariant_Ud : sol' "U†" == phi (sol "U†").
Proof.
  rewrite <- (adjoint_general rflag' fenv' sol' Hsol' Hw').
  rewrite <- (adjoint_general rflag fenv sol Hsol Hw).
  rewrite equivariant_U. symmetry. destruct HH as [_ _ _ _ _ _ _ hadj _ _ _ _ _ _ _]. apply hadj.
Qed.
Theorem equivariant_Ht : sol' "H_tilde" == phi (sol "H_tilde").
Proof.
  rewrite <- (kept_general rflag' fenv' sol' Hsol' Hw').
  rewrite <- (kept_general rflag fenv sol Hsol Hw).
  pose proof equivariant_U as EU. pose proof equivariant_Ud as EUd.
  destruct HH as [hP _ _ _ _ _ hmul _ _ _ _ _ hsel _ _].
  rewrite hsel, !hmul, EU, EUd, Hin. reflexivity.
Qed.

End Equivariance.

(** * Equivariance without block order: transport of the defining conditions

    [least_action] mentions only the ring structure, the adjoint, the selection, halving and
    the filtration.  A map preserving these ([LAHom]; it may permute the blocks, so it need
    not preserve [Up]/[Lo], and it may change the number of parameters as long as it is
    compatible with the filtration) sends the least-action unitary of [H] to a least-action
    unitary of [phi H]; by uniqueness it is THE one computed in the target algebra. *)
Section Transport.
Context {T : Type} {r0 r1 : T} {add mul sub : T -> T -> T} {opp : T -> T} {req : T -> T -> Prop}
        {Ro : @Ring_ops T r0 r1 add mul sub opp req} {Rg : @Ring T r0 r1 add mul sub opp req Ro}
        {BA : BlockAlg T}.
Context {T' : Type} {r0' r1' : T'} {add' mul' sub' : T' -> T' -> T'} {opp' : T' -> T'} {req' : T' -> T' -> Prop}
        {Ro' : @Ring_ops T' r0' r1' add' mul' sub' opp' req'} {Rg' : @Ring T' r0' r1' add' mul' sub' opp' req' Ro'}
        {BA' : BlockAlg T'}.
Variable phi : T -> T'.

Record LAHom : Prop := {
  la_P : Proper (_==_ ==> _==_) phi;
  la_zero : phi 0 == 0;
  la_one : phi 1 == 1;
  la_sub : forall x y, phi (x - y) == phi x - phi y;
  la_mul : forall x y, phi (x * y) == phi x * phi y;
  la_adj : forall x, phi (adj x) == adj (phi x);
  la_half : forall x, phi (half x) == half (phi x);
  la_Sel : forall x, phi (Sel x) == Sel (phi x);
  la_ord : forall k x, ord k x -> ord k (phi x)
}.
Hypothesis HL : LAHom.

Theorem least_action_transport H U : least_action H U -> least_action (phi H) (phi U).
Proof.
  destruct HL as [hP h0 h1 hsub hmul hadj hhalf hsel hord].
  intros (a & b & c & d). unfold least_action. repeat split.
  - rewrite <- h1, <- hsub. apply hord. exact a.
  - rewrite <- hadj, <- hmul, b. exact h1.
  - unfold Rp. rewrite <- hadj, <- !hmul, <- hsel, <- hsub. unfold Rp in c. rewrite c. exact h0.
  - rewrite <- h1, <- !hsub, <- hadj, <- hsub, <- hhalf, <- hsel, d. exact h0.
Qed.

Variable rflag : string -> T -> T.
Variable rflag' : string -> T' -> T'.
Variable fenv : string -> list T -> T.
Variable fenv' : string -> list T' -> T'.
Variable sol : string -> T.
Variable sol' : string -> T'.
Hypothesis Hsol : solution (gflag_of false) rflag fenv sol main_alg.
Hypothesis Hsol' : solution (gflag_of false) rflag' fenv' sol' main_alg.
Hypothesis Hw : wiring rflag fenv (sol "H").
Hypothesis Hw' : wiring rflag' fenv' (sol' "H").
Hypothesis Hin : sol' "H" == phi (sol "H").
Hypothesis sylv_left' : forall x, Rp (MainLift.sylv fenv' (comm (Zc (sol' "H")) (Rp x))) == Rp x.

Theorem transport_U : sol' "U" == phi (sol "U").
Proof.
  pose proof (main_least_action rflag fenv sol Hsol Hw) as L.
  apply least_action_transport in L.
  pose proof (main_least_action rflag' fenv' sol' Hsol' Hw') as L2.
  assert (L1 : least_action (sol' "H") (phi (sol "U"))).
  { destruct L as (a & b & c & d). unfold least_action. rewrite Hin. repeat split; assumption. }
  destruct Hw' as [a b c d e f g h i j].
  symmetry.
  exact (@least_action_unique T' _ _ _ _ _ _ _ _ _ BA' (sol' "H") i (MainLift.sylv fenv') f sylv_left' _ _ L1 L2).
Qed.
Theorem transport_Ud : sol' "U†" == phi (sol "U†").
Proof.
  destruct HL as [hP _ _ _ _ hadj _ _ _].
  rewrite <- (adjoint_general rflag' fenv' sol' Hsol' Hw').
  rewrite transport_U, <- hadj. apply hP. apply (adjoint_general rflag fenv sol Hsol Hw).
Qed.
Theorem transport_Ht : sol' "H_tilde" == phi (sol "H_tilde").
Proof.
  pose proof transport_U as EU. pose proof transport_Ud as EUd.
  destruct HL as [hP _ _ _ hmul _ _ hsel _].
  rewrite <- (kept_general rflag' fenv' sol' Hsol' Hw').
  rewrite EU, EUd, Hin, <- !hmul, <- hsel. apply hP.
  apply (kept_general rflag fenv sol Hsol Hw).
Qed.
End Transport.

(** * Non-Hermitian mode: transport of the defining conditions [similarity_gauge]

    No adjoint is involved, so the map only has to preserve the ring structure, the selection
    and the filtration ([SGHom]); with Alg/UniqueNH.v the outputs of the non-Hermitian algorithm
    correspond (in the domain of validity of its similarity theorems, [H_0, S x] = 0). *)
From PV.Alg Require Import UniqueNH NonHerm.
Section TransportNH.
Context {T : Type} {r0 r1 : T} {add mul sub : T -> T -> T} {opp : T -> T} {req : T -> T -> Prop}
        {Ro : @Ring_ops T r0 r1 add mul sub opp req} {Rg : @Ring T r0 r1 add mul sub opp req Ro}
        {BA : BlockAlg T}.
Context {T' : Type} {r0' r1' : T'} {add' mul' sub' : T' -> T' -> T'} {opp' : T' -> T'} {req' : T' -> T' -> Prop}
        {Ro' : @Ring_ops T' r0' r1' add' mul' sub' opp' req'} {Rg' : @Ring T' r0' r1' add' mul' sub' opp' req' Ro'}
        {BA' : BlockAlg T'}.
Variable phi : T -> T'.

Record SGHom : Prop := {
  sg_P : Proper (_==_ ==> _==_) phi;
  sg_zero : phi 0 == 0;
  sg_one : phi 1 == 1;
  sg_sub : forall x y, phi (x - y) == phi x - phi y;
  sg_mul : forall x y, phi (x * y) == phi x * phi y;
  sg_Sel : forall x, phi (Sel x) == Sel (phi x);
  sg_ord : forall k x, ord k x -> ord k (phi x)
}.
Hypothesis HS : SGHom.

Theorem similarity_gauge_transport H U Ui :
  similarity_gauge H U Ui -> similarity_gauge (phi H) (phi U) (phi Ui).
Proof.
  destruct HS as [hP h0 h1 hsub hmul hsel hord].
  intros (a & b & c & d & e). unfold similarity_gauge. repeat split.
  - rewrite <- h1, <- hsub. apply hord. exact a.
  - rewrite <- h1, <- hsub. apply hord. exact b.
  - rewrite <- hmul, c. exact h1.
  - unfold Rp. rewrite <- !hmul, <- hsel, <- hsub. unfold Rp in d. rewrite d. exact h0.
  - rewrite <- hsub, <- hsel, e. exact h0.
Qed.

(* uniqueness in the target algebra then identifies the transported pair with the computed one *)
Variable H' : T'.
Hypothesis S_adH0' : forall x, Sel (comm (Zc H') x) == comm (Zc H') (Sel x).
Variable sylv' : T' -> T'.
Hypothesis sylv_ord' : forall k y, ord k y -> ord k (sylv' y).
Hypothesis sylv_left' : forall x, Rp (sylv' (comm (Zc H') (Rp x))) == Rp x.

Theorem transport_nh H U Ui U' Ui' :
  H' == phi H -> similarity_gauge H U Ui -> similarity_gauge H' U' Ui' ->
  U' == phi U /\ Ui' == phi Ui.
Proof.
  intros EH L L'. apply similarity_gauge_transport in L.
  assert (L2 : similarity_gauge H' (phi U) (phi Ui)).
  { destruct L as (a & b & c & d & e). unfold similarity_gauge. rewrite EH. repeat split; assumption. }
  exact (@similarity_unique T' _ _ _ _ _ _ _ _ _ BA' H' S_adH0' sylv' sylv_ord' sylv_left' _ _ _ _ L' L2).
Qed.
End TransportNH.
