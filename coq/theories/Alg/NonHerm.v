(** The shipped non-Hermitian recurrences ([nonhermitian_alg], generated from algorithms.py).

    Proved for every solution in every [BlockAlg]: U_inv is a two-sided inverse of U and the
    gauge S(U - U_inv) = 0.  The similarity statements (kept part of U_inv H U equals H_tilde,
    eliminated part zero) need the EXTRA hypothesis [H0_central_on_S]: every kept matrix
    element connects equal unperturbed energies ([H_0, S x] = 0).  Without it the statement is
    false for the code as it is (known finding C05-kept-distinct-energies: the X_S line omits
    [H_0, U'_S]); the theorems are therefore named _partial in Props/C05.v. *)
Require Import Ncring Ncring_tac Setoid Morphisms ZArith String List.
From PV.Base Require Import Classes AlgLemmas.
From PV.DSL Require Import Syntax Sem.
From PV.Gen Require Import Algorithms_gen.
Import ListNotations.
Open Scope string_scope.

Section NH.
Context {T : Type} `{Rg : Ring T} {BA : BlockAlg T}.
Variables H0 Hs Hr : T.
Hypothesis H0_S : Sel H0 == H0.  Hypothesis Hs_S : Sel Hs == Hs.  Hypothesis Hr_S : Sel Hr == 0.
Hypothesis S_adH0 : forall x, Sel (comm H0 x) == comm H0 (Sel x).
Variable sylv : T -> T.
Context {sylv_P : Proper (_==_ ==> _==_) sylv}.
Hypothesis sylv_spec : forall y, Rp (comm H0 (sylv y)) == Rp y.

Variables U G X B Ht : T.   (* U = U', G = U_inv' *)
Let A := Hr * U.
Hypothesis oU : ord 1 U. Hypothesis oG : ord 1 G.
Hypothesis hU : U == Sel (- half (G * U)) + Rp (sylv (X - Hs * U + U * Hs)).
Hypothesis hG : G == - U - G * U.
Hypothesis hX : X == - Rp (Hr + A + G * B) + Sel (Hs * U - U * Hs).
Hypothesis hB : B == X + Hr + A.
Hypothesis hHt : Ht == H0 + Sel (Hs + B + G * B).

Lemma Rp_adH0 x : Rp (comm H0 x) == comm H0 (Rp x).
Proof. unfold Rp. rewrite S_adH0. unfold comm. non_commutative_ring. Qed.

Theorem inverse_l : (1 + G) * (1 + U) == 1.
Proof. assert (E: (1+G)*(1+U) == 1 + (G + U + G*U)) by non_commutative_ring.
  rewrite E. rewrite hG at 1. non_commutative_ring. Qed.
Theorem gauge : Sel (U - G) == 0.
Proof.
  assert (E: U - G == (U + U) + G * U) by (rewrite hG at 1; non_commutative_ring).
  rewrite E, Sel_add, Sel_add. rewrite hU at 1 2. rewrite !Sel_add, !Sel_idem, !Sel_Rp, !Sel_opp, !Sel_half.
  assert (E2: - half (Sel (G * U)) + 0 + (- half (Sel (G * U)) + 0) == - (half (Sel (G*U)) + half (Sel (G*U)))) by non_commutative_ring.
  rewrite E2, half_dbl. non_commutative_ring. Qed.
Theorem inverse_r : (1 + U) * (1 + G) == 1.
Proof.
  set (N := (1 + U) * (1 + G) - 1).
  assert (oN : ord 1 N).
  { assert (E : N == U + G + U * G) by (unfold N; non_commutative_ring). rewrite E.
    apply ord_add. apply ord_add; assumption. apply (ord_le (k:=2)). auto. apply ord_mul_l; assumption. }
  assert (EN : N == - (N * N)).
  { assert (Eidem : (1 + N) * (1 + N) == 1 + N).
    { assert (E1 : 1 + N == (1 + U) * (1 + G)) by (unfold N; non_commutative_ring).
      rewrite E1.
      assert (E2 : (1 + U) * (1 + G) * ((1 + U) * (1 + G)) == (1 + U) * ((1 + G) * (1 + U)) * (1 + G)) by non_commutative_ring.
      rewrite E2, inverse_l. non_commutative_ring. }
    assert (E3 : N == ((1 + N) * (1 + N) - (1 + N)) - N * N) by non_commutative_ring.
    rewrite E3 at 1. rewrite Eidem. non_commutative_ring. }
  assert (N0 : N == 0).
  { apply ord_eq_zero. intros k Hk. rewrite EN. apply ord_opp. apply ord_mul_l; assumption. }
  assert (E : (1 + U) * (1 + G) == N + 1) by (unfold N; non_commutative_ring).
  rewrite E, N0. non_commutative_ring.
Qed.

(* the extra hypothesis the similarity proof needs *)
Hypothesis H0_central_on_S : forall x, comm H0 (Sel x) == 0.

Let HS := H0 + Hs.
Theorem X_is_commutator : X == comm HS U.
Proof.
  rewrite (split_SR X), (split_SR (comm HS U)).
  assert (ES: Sel X == Sel (comm HS U)).
  { rewrite hX at 1. rewrite Sel_add, Sel_opp, Sel_Rp, Sel_idem.
    assert (E: comm HS U == comm H0 U + (Hs * U - U * Hs)) by (unfold comm, HS; non_commutative_ring).
    rewrite E, Sel_add, S_adH0, H0_central_on_S. non_commutative_ring. }
  assert (ER: Rp X == Rp (comm HS U)).
  { assert (E: comm HS U == comm H0 U + (Hs * U - U * Hs)) by (unfold comm, HS; non_commutative_ring).
    rewrite E, Rp_add, Rp_adH0. rewrite hU at 1.
    rewrite Rp_add, Rp_Sel, Rp_Rp.
    assert (E0: comm H0 (0 + Rp (sylv (X - Hs * U + U * Hs))) == comm H0 (Rp (sylv (X - Hs * U + U * Hs))))
      by (unfold comm; non_commutative_ring).
    rewrite E0, <- Rp_adH0, sylv_spec. rewrite ?Rp_add, ?Rp_sub. non_commutative_ring. }
  rewrite ES, ER. reflexivity.
Qed.
Let Htot := (1 + G) * (HS + Hr) * (1 + U).
Lemma Htot_eq : Htot == HS + B + G * B.
Proof.
  assert (E: Htot == HS + (G + U + G*U) * HS + comm HS U + G * comm HS U + (1+G)*Hr*(1+U))
    by (unfold Htot, comm; non_commutative_ring).
  rewrite E, <- X_is_commutator.
  assert (E1: G + U + G*U == 0) by (rewrite hG at 1; non_commutative_ring).
  rewrite E1. rewrite hB. unfold A. non_commutative_ring.
Qed.
Theorem eliminated : Rp Htot == 0.
Proof.
  rewrite Htot_eq. rewrite hB at 1. rewrite !Rp_add. rewrite hX at 1.
  rewrite Rp_add, Rp_opp, Rp_Rp, Rp_Sel. unfold HS. rewrite Rp_add.
  assert (E: Rp H0 == 0) by (unfold Rp; rewrite H0_S; non_commutative_ring).
  assert (E': Rp Hs == 0) by (unfold Rp; rewrite Hs_S; non_commutative_ring).
  rewrite E, E', !Rp_add. non_commutative_ring.
Qed.
Theorem kept : Sel Htot == Ht.
Proof. rewrite Htot_eq, hHt. unfold HS. rewrite !Sel_add, H0_S, Hs_S. non_commutative_ring. Qed.
End NH.

(** * Lift from the semantics of the generated [nonhermitian_alg] *)
Ltac nh_unfold H :=
  cbv [sdef_holds pdef_holds with_start body_den split_marker lines_den den line_den
       product_den prod_den pfactors pherm List.map sname sstart sbody pname
       String.eqb Ascii.eqb Bool.eqb String.concat String.append] in H.

Section NHLift.
Context {T : Type} `{Rg : Ring T} {BA : BlockAlg T}.
Variable gflag : string -> bool.
Variable rflag : string -> T -> T.
Variable fenv : string -> list T -> T.
Variable sol : string -> T.
Hypothesis Hsol : solution gflag rflag fenv sol nonhermitian_alg.

Definition nsylv (y : T) : T := fenv "solve_sylvester" [y].
Context {sylv_P : Proper (_==_ ==> _==_) nsylv}.
Hypothesis sylv_ord : forall k y, ord k y -> ord k (nsylv y).

Let H := sol "H".   Let Hd := sol "H'_diag".   Let Ho := sol "H'_offdiag".
Let U' := sol "U'". Let G := sol "U_inv'". Let X := sol "X". Let B := sol "B".
Let GU := sol "U_inv' @ U'". Let HdU := sol "H'_diag @ U'". Let UHd := sol "U' @ H'_diag".
Let A := sol "H'_offdiag @ U'". Let GB := sol "U_inv' @ B".

Lemma add0r' (x : T) : x + 0 == x. Proof. non_commutative_ring. Qed.
Ltac getS name H := pose proof (solution_series Hsol name eq_refl) as H; nh_unfold H;
  rewrite ?Lo_zero, ?ring_add_0_l, ?add0r' in H.
Ltac getP name H := pose proof (solution_product Hsol name eq_refl) as H; nh_unfold H.

Lemma eHd : Hd == Pos (Sel H). Proof. getS "H'_diag" E. exact E. Qed.
Lemma eHo : Ho == Pos (Rp H). Proof. getS "H'_offdiag" E. exact E. Qed.
Lemma Hd_alt : Hd == Sel (Pos H).
Proof. rewrite eHd. unfold Pos. rewrite Sel_sub, Zc_Sel. reflexivity. Qed.
Lemma Ho_alt : Ho == Rp (Pos H).
Proof. rewrite eHo. unfold Pos, Rp. rewrite Sel_sub, !Zc_sub, Zc_Sel. non_commutative_ring. Qed.
Lemma H_split : H == Zc H + Hd + Ho.
Proof. rewrite Hd_alt, Ho_alt. unfold Rp, Pos. non_commutative_ring. Qed.
Lemma oHd : ord 1 Hd. Proof. rewrite eHd. apply ord1_Pos. Qed.
Lemma oHo : ord 1 Ho. Proof. rewrite eHo. apply ord1_Pos. Qed.
Lemma Hd_S : Sel Hd == Hd. Proof. rewrite Hd_alt. apply Sel_idem. Qed.
Lemma Ho_S : Sel Ho == 0. Proof. rewrite Ho_alt. apply Sel_Rp. Qed.
Lemma oU' : ord 1 U'. Proof. getS "U'" E. fold U' in E. rewrite E. apply ord1_Pos. Qed.
Lemma oG : ord 1 G. Proof. getS "U_inv'" E. fold G in E. rewrite E. apply ord1_Pos. Qed.
Lemma oX : ord 1 X. Proof. getS "X" E. fold X in E. rewrite E. apply ord1_Pos. Qed.
Lemma oB : ord 1 B. Proof. getS "B" E. fold B in E. rewrite E. apply ord1_Pos. Qed.
Lemma eGU : GU == G * U'. Proof. getP "U_inv' @ U'" E. exact E. Qed.
Lemma eHdU : HdU == Hd * U'. Proof. getP "H'_diag @ U'" E. exact E. Qed.
Lemma eUHd : UHd == U' * Hd. Proof. getP "U' @ H'_diag" E. exact E. Qed.
Lemma eA : A == Ho * U'. Proof. getP "H'_offdiag @ U'" E. exact E. Qed.
Lemma eGB : GB == G * B. Proof. getP "U_inv' @ B" E. exact E. Qed.
Lemma o2 x y : ord 1 x -> ord 1 y -> ord 1 (x * y).
Proof. intros. apply (ord_le (k:=2)). auto. apply ord_mul_l; assumption. Qed.

Lemma hU : U' == Sel (- half (G * U')) + Rp (nsylv (X - Hd * U' + U' * Hd)).
Proof.
  getS "U'" E. fold U' GU X HdU UHd in E.
  change (fenv "solve_sylvester" (cons (X - HdU + UHd) nil)) with (nsylv (X - HdU + UHd)) in E.
  rewrite divz_m2, eGU, eHdU, eUHd in E. rewrite E at 1. apply Pos_of_ord1.
  apply ord_add. apply ord_Sel, ord_opp, ord_half, o2. apply oG. apply oU'.
  apply ord_Rp, sylv_ord. apply ord_add. apply ord_sub. apply oX. apply o2. apply oHd. apply oU'. apply o2. apply oU'. apply oHd.
Qed.
Lemma hG : G == - U' - G * U'.
Proof.
  getS "U_inv'" E. fold G U' GU in E. rewrite eGU in E. rewrite E at 1. apply Pos_of_ord1.
  apply ord_sub. apply ord_opp, oU'. apply o2. apply oG. apply oU'.
Qed.
Lemma hX : X == - Rp (Ho + Ho * U' + G * B) + Sel (Hd * U' - U' * Hd).
Proof.
  getS "X" E. fold X Ho A GB HdU UHd in E. rewrite eA, eGB, eHdU, eUHd in E. rewrite E at 1.
  rewrite Pos_of_ord1. rewrite Rp_opp. reflexivity.
  apply ord_add. apply ord_Rp, ord_opp. apply ord_add. apply ord_add. apply oHo. apply o2. apply oHo. apply oU'.
  apply o2. apply oG. apply oB. apply ord_Sel. apply ord_sub. apply o2. apply oHd. apply oU'. apply o2. apply oU'. apply oHd.
Qed.
Lemma hB : B == X + Ho + Ho * U'.
Proof.
  getS "B" E. fold B X Ho A in E. rewrite eA in E. rewrite E at 1. apply Pos_of_ord1.
  apply ord_add. apply ord_add. apply oX. apply oHo. apply o2. apply oHo. apply oU'.
Qed.
Lemma hHt : sol "H_tilde" == Zc H + Sel (Hd + B + G * B).
Proof.
  getS "H_tilde" E. fold H Hd B GB in E. rewrite eGB in E. rewrite E at 1. rewrite Pos_of_ord1. reflexivity.
  apply ord_Sel. apply ord_add. apply ord_add. apply oHd. apply oB. apply o2. apply oG. apply oB.
Qed.
Lemma eU : sol "U" == 1 + U'.
Proof. getS "U" E. fold U' in E. rewrite E.
  assert (Z0 : Zc U' == 0) by (apply Zc_ord; apply oU').
  rewrite Z0, Dg_zero. non_commutative_ring. Qed.
Lemma eUi : sol "U†" == 1 + G.
Proof. getS "U†" E. fold G in E. rewrite E.
  assert (Z0 : Zc G == 0) by (apply Zc_ord; apply oG).
  rewrite Z0, Dg_zero. non_commutative_ring. Qed.

Theorem nh_inverse_l : sol "U†" * sol "U" == 1.
Proof. rewrite eU, eUi. eapply inverse_l. exact hG. Qed.
Theorem nh_inverse_r : sol "U" * sol "U†" == 1.
Proof. rewrite eU, eUi. eapply inverse_r. exact oU'. exact oG. exact hG. Qed.
Theorem nh_gauge : Sel (sol "U" - sol "U†") == 0.
Proof.
  rewrite eU, eUi.
  assert (E : 1 + U' - (1 + G) == U' - G) by non_commutative_ring.
  rewrite E. eapply gauge. exact hU. exact hG.
Qed.

Hypothesis H0_S : Sel (Zc H) == Zc H.
Hypothesis S_adH0 : forall x, Sel (comm (Zc H) x) == comm (Zc H) (Sel x).
Hypothesis sylv_spec : forall y, Rp (comm (Zc H) (nsylv y)) == Rp y.
Hypothesis H0_central_on_S : forall x, comm (Zc H) (Sel x) == 0.

Ltac nfacts := first [exact H0_S | exact Hd_S | exact Ho_S | exact S_adH0 | exact sylv_spec | exact H0_central_on_S
  | exact hU | exact hG | exact hX | exact hB | exact hHt | exact sylv_P ].
Theorem nh_kept_partial : Sel (sol "U†" * H * sol "U") == sol "H_tilde".
Proof. rewrite eU, eUi. rewrite H_split at 1. eapply kept. all: try nfacts. Qed.
Theorem nh_eliminated_partial : Rp (sol "U†" * H * sol "U") == 0.
Proof. rewrite eU, eUi. rewrite H_split at 1. eapply eliminated. all: try nfacts. Qed.
End NHLift.
