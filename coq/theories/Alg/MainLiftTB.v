(** From the meaning of the GENERATED program [main_alg] (DSL/Sem.v applied to
    Gen/Algorithms_gen.v) to the symmetric equations consumed by Alg/MainAlgebra.v.

    The equations are obtained by computation on the generated term ([sem_unfold]), so an
    edit of algorithms.py changes what the lemmas below have to prove.

    Wiring hypotheses (what block_diagonalize puts in the scope, Front/Wiring):
    - [rflag "commuting_blocks"] is the row projector [Rw];
    - [comm_sound]: on rows flagged commuting, kept x eliminated products have no kept part;
    - the solver [fenv "solve_sylvester"] solves the Sylvester equation on the eliminated
      part, acts order by order, and maps adjoints to minus adjoints (real energies);
    - the input is Hermitian and its order-zero coefficient is kept ([Sel H0 == H0]) and
      [Sel] commutes with [H0, .].
    This file treats the TWO-BLOCK optimisation ([two_block_optimized = True]: exactly two
    blocks, no fully_diagonalize). Its first part (up to the marker) is the same text as the
    first part of Alg/MainLift.v. *)
Require Import Ncring Ncring_tac Setoid Morphisms ZArith String List.
From PV.Base Require Import Classes AlgLemmas.
From PV.DSL Require Import Syntax Sem.
From PV.Gen Require Import Algorithms_gen.
From PV.Alg Require Import MainAlgebra.
Import ListNotations.
Open Scope string_scope.

Definition gflag_of (tb : bool) (n : string) : bool :=
  if String.eqb n "two_block_optimized" then tb else false.

Ltac sem_unfold H :=
  cbv [sdef_holds pdef_holds with_start body_den split_marker lines_den den line_den
       product_den prod_den pfactors pherm List.map sname sstart sbody pname gflag_of
       String.eqb Ascii.eqb Bool.eqb String.concat String.append] in H.

Section Common.
Context {T : Type} `{Rg : Ring T} {BA : BlockAlg T}.
Variable tb : bool.
Variable rflag : string -> T -> T.
Variable fenv : string -> list T -> T.
Variable sol : string -> T.
Hypothesis Hsol : solution (gflag_of tb) rflag fenv sol main_alg.

Definition sylv (y : T) : T := fenv "solve_sylvester" [y].

Let H := sol "H".   Let Hd := sol "H'_diag".   Let Ho := sol "H'_offdiag".
Let V := sol "V".   Let W := sol "W".   Let Y := sol "Yadj".
Let U' := sol "U'". Let Ud' := sol "U'†". Let X := sol "X". Let B := sol "B".
Let P := sol "U'† @ U'". Let A := sol "H'_offdiag @ U'". Let UdB := sol "U'† @ B".
Let VH := sol "V @ H'_diag".

Lemma add0r (x : T) : x + 0 == x. Proof. non_commutative_ring. Qed.

Ltac getS name H := pose proof (solution_series Hsol name eq_refl) as H; sem_unfold H;
  rewrite ?Lo_zero, ?ring_add_0_l, ?add0r in H.
Ltac getP name H := pose proof (solution_product Hsol name eq_refl) as H; sem_unfold H.

Lemma eHd : Hd == Pos (Sel H).
Proof. getS "H'_diag" E. exact E. Qed.
Lemma eHo : Ho == Pos (Rp H).
Proof. getS "H'_offdiag" E. exact E. Qed.
Lemma Hd_alt : Hd == Sel (Pos H).
Proof. rewrite eHd. unfold Pos. rewrite Sel_sub, Zc_Sel. reflexivity. Qed.
Lemma Ho_alt : Ho == Rp (Pos H).
Proof. rewrite eHo. unfold Pos, Rp. rewrite Sel_sub, !Zc_sub, Zc_Sel. non_commutative_ring. Qed.
Lemma H_split : H == Zc H + Hd + Ho.
Proof. rewrite Hd_alt, Ho_alt. unfold Rp, Pos. non_commutative_ring. Qed.
Lemma oHd : ord 1 Hd. Proof. rewrite eHd. apply ord1_Pos. Qed.
Lemma oHo : ord 1 Ho. Proof. rewrite eHo. apply ord1_Pos. Qed.
Lemma Hd_S : Sel Hd == Hd. Proof. rewrite Hd_alt. apply Sel_idem. Qed.
Lemma Ho_S : Sel Ho == 0. Proof. rewrite Ho_alt. apply Sel_Rp. Qed.

Hypothesis H_herm : adj H == H.
Lemma Pos_adj x : adj (Pos x) == Pos (adj x).
Proof. unfold Pos. rewrite adj_sub, Zc_adj. reflexivity. Qed.
Lemma Hd_h : adj Hd == Hd.
Proof. rewrite Hd_alt, <- Sel_adj, Pos_adj, H_herm. reflexivity. Qed.
Lemma Ho_h : adj Ho == Ho.
Proof. rewrite Ho_alt, <- Rp_adj, Pos_adj, H_herm. reflexivity. Qed.
Lemma H0_h : adj (Zc H) == Zc H.
Proof. rewrite <- Zc_adj, H_herm. reflexivity. Qed.

(* orders *)
Lemma oV : ord 1 V. Proof. getS "V" E. fold V in E. rewrite E. apply ord1_Pos. Qed.
Lemma oW : ord 1 W. Proof. getS "W" E. fold W in E. rewrite E. apply ord1_Pos. Qed.
Lemma oY : ord 1 Y. Proof. getS "Yadj" E. fold Y in E. rewrite E. apply ord1_Pos. Qed.
Lemma oX : ord 1 X. Proof. getS "X" E. fold X in E. rewrite E. apply ord1_Pos. Qed.
Lemma oB : ord 1 B. Proof. getS "B" E. fold B in E. rewrite E. apply ord1_Pos. Qed.

Lemma eU' : U' == W + V.
Proof. getS "U'" E. fold U' W V in E. rewrite E. apply Pos_of_ord1. apply ord_add. apply oW. apply oV. Qed.
Lemma eUd' : Ud' == W - V.
Proof. getS "U'†" E. exact E. Qed.
Lemma oU' : ord 1 U'. Proof. rewrite eU'. apply ord_add. apply oW. apply oV. Qed.
Lemma oUd' : ord 1 Ud'. Proof. rewrite eUd'. apply ord_sub. apply oW. apply oV. Qed.
Lemma eU : sol "U" == 1 + U'.
Proof. getS "U" E. fold U' in E. rewrite E.
  assert (Z0 : Zc U' == 0) by (apply Zc_ord; apply oU').
  rewrite Z0, Dg_zero. non_commutative_ring. Qed.
Lemma eUd : sol "U†" == 1 + Ud'.
Proof. getS "U†" E. fold Ud' in E. rewrite E.
  assert (Z0 : Zc Ud' == 0) by (apply Zc_ord; apply oUd').
  rewrite Z0, Dg_zero. non_commutative_ring. Qed.

(* products *)
Lemma eA : A == Ho * U'. Proof. getP "H'_offdiag @ U'" E. exact E. Qed.
Lemma eUdB : UdB == Ud' * B. Proof. getP "U'† @ B" E. exact E. Qed.
Lemma eVH : VH == V * Hd. Proof. getP "V @ H'_diag" E. exact E. Qed.
Lemma eP : P == hsum Ud' U' + Up (Ud' * U') + adj (Up (Ud' * U')).
Proof. getP "U'† @ U'" E. exact E. Qed.
Lemma oA : ord 1 A. Proof. rewrite eA. apply (ord_le (k:=2)). auto. apply ord_mul_l. apply oHo. apply oU'. Qed.
Lemma oUdB : ord 1 UdB. Proof. rewrite eUdB. apply (ord_le (k:=2)). auto. apply ord_mul_l. apply oUd'. apply oB. Qed.
Lemma oVH : ord 1 VH. Proof. rewrite eVH. apply (ord_le (k:=2)). auto. apply ord_mul_l. apply oV. apply oHd. Qed.

Lemma eX : X == B + Ho + A.
Proof. getS "X" E. fold X B Ho A in E. rewrite E. apply Pos_of_ord1.
  apply ord_add. apply ord_add. apply oB. apply oHo. apply oA. Qed.

(* wiring *)
Hypothesis Hrf : forall x, rflag "commuting_blocks" x == Rw x.
Hypothesis comm_sound_l : forall x y, Rw (Sel (Rp x * Sel y)) == 0.
Hypothesis comm_sound_r : forall x y, Rw (Sel (Sel y * Rp x)) == 0.
Context {sylv_P : Proper (_==_ ==> _==_) sylv}.
Hypothesis sylv_ord : forall k y, ord k y -> ord k (sylv y).
Hypothesis sylv_adj : forall y, sylv (adj y) == - adj (sylv y).

Lemma Rw_zero : Rw 0 == 0. Proof. apply am_zero; apply Rw_am. Qed.
Lemma Rw_Sel_herm x : adj x == x -> adj (Rw (Sel x)) == Rw (Sel x).
Proof. intros E. assert (E1 : Sel x == Dg (Sel x)) by (symmetry; apply Dg_Sel).
  rewrite E1 at 1. rewrite <- Rw_adj_Dg, <- Dg_adj, <- Sel_adj, E, Dg_Sel. reflexivity. Qed.

(* Yadj: the part that does not depend on two_block_optimized *)
Let yy := half (adj X + X).
Lemma yy_herm : adj yy == yy.
Proof. unfold yy. rewrite half_adj, adj_add, adj_inv. apply half_P. non_commutative_ring. Qed.

(* B *)
Lemma eB : B == Sel (- half (UdB - adj UdB + A + adj A)) + (Sel (VH + adj VH) - Rw (Sel (VH + adj VH))) - Rp UdB.
Proof.
  getS "B" E. fold B UdB A VH in E. rewrite E.
  rewrite !Hrf, Rw_zero, ring_add_0_l, divz_m2, Rp_opp.
  rewrite Pos_of_ord1.
  - rewrite Sel_sub, Rw_Sel. non_commutative_ring.
  - apply ord_add. apply ord_Sel, ord_opp, ord_half.
    apply ord_add. apply ord_add. apply ord_sub. apply oUdB. apply ord_adj, oUdB. apply oA. apply ord_adj, oA.
    apply ord_add. apply ord_Sel. apply ord_sub. apply ord_add. apply oVH. apply ord_adj, oVH.
    apply ord_Rw. apply ord_add. apply oVH. apply ord_adj, oVH.
    apply ord_opp, ord_Rp, oUdB.
Qed.

(* H_tilde *)
Lemma eHt : sol "H_tilde" == Zc H + Sel (Hd + half (A + adj A) - half (UdB + adj UdB) - Y).
Proof.
  getS "H_tilde" E. fold H Hd A UdB Y in E. rewrite E. rewrite divz_m2.
  rewrite Pos_of_ord1.
  - apply ring_plus_comp. reflexivity. apply am_P. unfold half. non_commutative_ring.
  - apply ord_Sel. apply ord_sub. apply ord_add. apply ord_add. apply oHd.
    apply ord_divz. apply ord_add. apply oA. apply ord_adj, oA.
    apply ord_opp, ord_half. apply ord_add. apply oUdB. apply ord_adj, oUdB. apply oY.
Qed.


(* ------------------------------------------------------------------------------------ *)
(** * Two-block wiring: two_block_optimized = True *)
Hypothesis tb_true : tb = true.
Hypothesis Sel_Dg_all : forall x, Sel x == Dg x.
Hypothesis Rw_Dg_id : forall x, Rw (Dg x) == Dg x.
Hypothesis odd_odd : forall x y, Dg (Od x * Od y) == Od x * Od y.
Hypothesis up_dg_up : forall x y, Up (Dg x * Up y) == Dg x * Up y.
Hypothesis up_up_dg : forall x y, Up (Up x * Dg y) == Up x * Dg y.
Hypothesis lo_dg_lo : forall x y, Lo (Dg x * Lo y) == Dg x * Lo y.
Hypothesis lo_lo_dg : forall x y, Lo (Lo x * Dg y) == Lo x * Dg y.

Ltac getSt name H := pose proof (solution_series Hsol name eq_refl) as H; sem_unfold H;
  rewrite tb_true in H; rewrite ?Lo_zero, ?ring_add_0_l, ?add0r in H.

(** parity calculus *)
Local Notation ev x := (Dg x == x) (only parsing).
Local Notation od x := (Dg x == 0) (only parsing).
Lemma Rp_Od x : Rp x == Od x.
Proof. unfold Rp, Od. rewrite Sel_Dg_all. rewrite (blk_split x) at 1. non_commutative_ring. Qed.
Lemma od_split x : od x -> x == Od x.
Proof. intros H1. unfold Od. rewrite (blk_split x) at 1. rewrite H1. non_commutative_ring. Qed.
Lemma ev_mul x y : ev x -> ev y -> ev (x * y).
Proof. intros Hx Hy. rewrite <- Hx at 1. rewrite Dg_mul_l, Hx, Hy. reflexivity. Qed.
Lemma ev_od x y : ev x -> od y -> od (x * y).
Proof. intros Hx Hy. rewrite <- Hx. rewrite Dg_mul_l, Hy. non_commutative_ring. Qed.
Lemma od_ev x y : od x -> ev y -> od (x * y).
Proof. intros Hx Hy. rewrite <- Hy. rewrite Dg_mul_r, Hx. non_commutative_ring. Qed.
Lemma od_od x y : od x -> od y -> ev (x * y).
Proof. intros Hx Hy. rewrite (od_split _ Hx), (od_split _ Hy). apply odd_odd. Qed.
Lemma ev_add x y : ev x -> ev y -> ev (x + y).
Proof. intros Hx Hy. rewrite am_add, Hx, Hy. reflexivity. Qed.
Lemma ev_opp x : ev x -> ev (- x).
Proof. intros Hx. rewrite am_opp, Hx. reflexivity. Qed.
Lemma ev_sub x y : ev x -> ev y -> ev (x - y).
Proof. intros Hx Hy. rewrite Dg_sub, Hx, Hy. reflexivity. Qed.
Lemma od_add x y : od x -> od y -> od (x + y).
Proof. intros Hx Hy. rewrite am_add, Hx, Hy. non_commutative_ring. Qed.
Lemma od_opp x : od x -> od (- x).
Proof. intros Hx. rewrite am_opp, Hx. non_commutative_ring. Qed.
Lemma od_sub x y : od x -> od y -> od (x - y).
Proof. intros Hx Hy. rewrite Dg_sub, Hx, Hy. non_commutative_ring. Qed.
Lemma ev_half x : ev x -> ev (half x).
Proof. intros Hx. rewrite (half_am (f:=Dg)), Hx. reflexivity. Qed.
Lemma ev_adj x : ev x -> ev (adj x).
Proof. intros Hx. rewrite Dg_adj, Hx. reflexivity. Qed.
Lemma od_adj x : od x -> od (adj x).
Proof. intros Hx. rewrite Dg_adj, Hx. apply adj_zero. Qed.
Lemma ev_Up x : ev x -> Up x == 0.
Proof. intros Hx. rewrite <- Hx. apply Up_Dg. Qed.
Lemma ev_Lo x : ev x -> Lo x == 0.
Proof. intros Hx. rewrite <- Hx. apply Lo_Dg. Qed.
Lemma od_Rp x : od (Rp x).
Proof. rewrite Dg_Rp, Sel_Dg_all. non_commutative_ring. Qed.
Lemma Up_ev_up x y : ev x -> Up y == y -> Up (x * y) == x * y.
Proof. intros Hx Hy. rewrite <- Hx, <- Hy. apply up_dg_up. Qed.
Lemma Up_up_ev x y : Up x == x -> ev y -> Up (x * y) == x * y.
Proof. intros Hx Hy. rewrite <- Hx, <- Hy. apply up_up_dg. Qed.
Lemma Up_lo_ev x y : Lo x == x -> ev y -> Up (x * y) == 0.
Proof. intros Hx Hy. rewrite <- Hx, <- Hy. rewrite <- lo_lo_dg. apply Up_Lo. Qed.
Lemma Up_ev_lo x y : ev x -> Lo y == y -> Up (x * y) == 0.
Proof. intros Hx Hy. rewrite <- Hx, <- Hy. rewrite <- lo_dg_lo. apply Up_Lo. Qed.

(* Yadj *)
Lemma Y_tb : Y == Lo X + adj (Lo X).
Proof.
  getSt "Yadj" E. fold Y X in E. change (divz (adj X + X) 2) with yy in E.
  rewrite !Hrf, Rw_zero, ring_add_0_l in E.
  set (y := Rp (adj X) + Sel (yy - Rw yy)) in E.
  assert (Ey : y == Od (adj X)).
  { unfold y. rewrite Sel_sub, Rw_Sel, !Sel_Dg_all, Rw_Dg_id, Rp_Od. non_commutative_ring. }
  assert (oy : ord 1 y).
  { rewrite Ey. unfold Od. apply ord_add. apply ord_Up, ord_adj, oX. apply ord_Lo, ord_adj, oX. }
  rewrite Pos_of_ord1 in E.
  2:{ apply ord_add. apply ord_add. apply ord_Dg, oy. apply ord_Up, oy. apply ord_adj, ord_Up, oY. }
  apply tri_herm in E. rewrite E, Ey.
  assert (E1 : Dg (Od (adj X)) == 0) by (unfold Od; rewrite am_add, Dg_Up, Dg_Lo; non_commutative_ring).
  assert (E2 : Up (Od (adj X)) == adj (Lo X)) by (unfold Od; rewrite am_add, Up_Up, Up_Lo, Up_adj; non_commutative_ring).
  rewrite E1, E2, adj_inv. non_commutative_ring.
Qed.
Lemma Y_herm : adj Y == Y.
Proof. rewrite Y_tb, adj_add, adj_inv. non_commutative_ring. Qed.
Lemma Y_od : od Y.
Proof. rewrite Y_tb, am_add, Dg_Lo, Dg_adj, Dg_Lo, adj_zero. non_commutative_ring. Qed.

(* V: same derivation as in the general wiring *)
Let arg := Y - VH - adj VH.
Lemma arg_herm : adj arg == arg.
Proof. unfold arg. rewrite !adj_sub, adj_inv, Y_herm. non_commutative_ring. Qed.
Lemma V_general : V == - Rp (sylv arg).
Proof.
  getS "V" E. fold V Y VH in E.
  change (fenv "solve_sylvester" [adj Y - VH - adj VH]) with (sylv (adj Y - VH - adj VH)) in E.
  assert (Ea : adj Y - VH - adj VH == arg) by (unfold arg; rewrite Y_herm; reflexivity).
  rewrite Ea in E.
  set (b := Rp (- sylv arg)) in E.
  assert (oa : ord 1 arg).
  { unfold arg. apply ord_sub. apply ord_sub. apply oY. apply oVH. apply ord_adj, oVH. }
  assert (ob : ord 1 b) by (unfold b; apply ord_Rp, ord_opp, sylv_ord, oa).
  rewrite Pos_of_ord1 in E.
  2:{ apply ord_add. apply ord_add. apply ord_Dg, ob. apply ord_Up, ob. apply ord_opp, ord_adj, ord_Up, oV. }
  apply tri_antiherm in E. rewrite E.
  assert (Eb : adj b == - b).
  { unfold b. rewrite <- Rp_adj, adj_opp.
    assert (Es : adj (sylv arg) == - sylv arg).
    { rewrite <- arg_herm at 2. rewrite sylv_adj. non_commutative_ring. }
    rewrite Es, !Rp_opp. reflexivity. }
  rewrite (full_of_antiherm _ Eb). unfold b. apply Rp_opp.
Qed.
Lemma V_anti : adj V == - V.
Proof.
  rewrite V_general, adj_opp, <- Rp_adj.
  assert (Es : adj (sylv arg) == - sylv arg).
  { rewrite <- arg_herm at 2. rewrite sylv_adj. non_commutative_ring. }
  rewrite Es, Rp_opp. reflexivity.
Qed.
Lemma V_od : od V.
Proof. rewrite V_general, am_opp. rewrite (od_Rp (sylv arg)). non_commutative_ring. Qed.

(* W and the Hermitian-declared product *)
Let F := Ud' * U'.
Let hs := hsum Ud' U'.
Lemma Dg_hs : Dg hs == hs. Proof. apply hsum_Dg. Qed.
Lemma Up_hs : Up hs == 0. Proof. rewrite <- Dg_hs. apply Up_Dg. Qed.
Lemma Lo_hs : Lo hs == 0. Proof. rewrite <- Dg_hs. apply Lo_Dg. Qed.
Lemma eP' : P == hs + Up F + adj (Up F). Proof. exact eP. Qed.
Lemma DgP : Dg P == hs.
Proof. rewrite eP'. rewrite !am_add, Dg_hs, Dg_Up, Dg_adj, Dg_Up, adj_zero. non_commutative_ring. Qed.
Lemma oF : ord 1 F. Proof. unfold F. apply (ord_le (k:=2)). auto. apply ord_mul_l. apply oUd'. apply oU'. Qed.
Lemma ohs : ord 1 hs.
Proof.
  assert (E : hs == (hs - Dg F) + Dg F) by non_commutative_ring. rewrite E. apply ord_add.
  - apply hsum_spec. apply oUd'. apply oU'. apply ord_O.
  - apply ord_Dg, oF.
Qed.
Lemma half_zero : half 0 == 0.
Proof. assert (E : (0:T) == 0 + 0) by non_commutative_ring. rewrite E at 1. apply half_twice. Qed.
Lemma W_form : W == - half hs.
Proof.
  getSt "W" E. fold W P in E. rewrite Rp_zero, add0r in E.
  assert (Ew : Sel (divz P (-2)) == - half hs).
  { rewrite divz_m2, Sel_opp, Sel_half, Sel_Dg_all, DgP. reflexivity. }
  rewrite Ew in E.
  rewrite Pos_of_ord1 in E.
  2:{ apply ord_add. apply ord_add. apply ord_Dg, ord_opp, ord_half, ohs. apply ord_Up, ord_opp, ord_half, ohs.
      apply ord_adj, ord_Up, oW. }
  apply tri_herm in E. rewrite E.
  assert (E1 : Dg (- half hs) == - half hs) by (rewrite am_opp, (half_am (f:=Dg)), Dg_hs; reflexivity).
  assert (E2 : Up (- half hs) == 0) by (rewrite am_opp, (half_am (f:=Up)), Up_hs, half_zero; non_commutative_ring).
  rewrite E1, E2, adj_zero. non_commutative_ring.
Qed.
Lemma W_ev : ev W.
Proof. rewrite W_form, am_opp, (half_am (f:=Dg)), Dg_hs. reflexivity. Qed.

Let EW := adj W - W.
Lemma EW_form : EW == half (hs - adj hs).
Proof. unfold EW. rewrite W_form. rewrite adj_opp, half_adj, half_sub. non_commutative_ring. Qed.
Let dl := U' - adj Ud'.
Lemma dl_EW : dl == - EW.
Proof. unfold dl, EW. rewrite eU', eUd', adj_sub, V_anti. non_commutative_ring. Qed.
Lemma odl : ord 1 dl. Proof. unfold dl. apply ord_sub. apply oU'. apply ord_adj, oUd'. Qed.
Lemma adjF : adj F == F - Ud' * dl + adj dl * U' - adj dl * dl.
Proof.
  unfold F. rewrite adj_mul.
  assert (E1 : adj Ud' == U' - dl) by (unfold dl; non_commutative_ring).
  assert (E2 : adj U' == Ud' + adj dl) by (unfold dl; rewrite adj_sub, adj_inv; non_commutative_ring).
  rewrite E1, E2. non_commutative_ring.
Qed.
Lemma EW_step k : ord k EW -> ord (S k) EW.
Proof.
  intros Hk.
  assert (Hd' : ord k dl) by (rewrite dl_EW; apply ord_opp, Hk).
  assert (H1 : ord (S k) (hs - Dg F)).
  { apply hsum_spec. apply oUd'. apply oU'. exact Hd'. }
  assert (H2 : ord (S k) (adj F - F)).
  { rewrite adjF.
    assert (E : F - Ud' * dl + adj dl * U' - adj dl * dl - F == - (Ud' * dl) + adj dl * U' - adj dl * dl) by non_commutative_ring.
    rewrite E. apply ord_sub. apply ord_add. apply ord_opp. apply ord_mul_l. apply oUd'. exact Hd'.
    apply ord_mul_r. apply ord_adj, Hd'. apply oU'.
    apply ord_mul_l. apply ord_adj, odl. exact Hd'. }
  rewrite EW_form. apply ord_half.
  assert (E : hs - adj hs == (hs - Dg F) - adj (hs - Dg F) - Dg (adj F - F)).
  { rewrite !adj_sub, Dg_sub, Dg_adj. non_commutative_ring. }
  rewrite E. apply ord_sub. apply ord_sub. exact H1. apply ord_adj, H1. apply ord_Dg, H2.
Qed.
Lemma EW_zero : EW == 0.
Proof. apply ord_eq_zero. exact EW_step. Qed.
Lemma W_herm : adj W == W.
Proof. assert (E : adj W == EW + W) by (unfold EW; non_commutative_ring). rewrite E, EW_zero. non_commutative_ring. Qed.
Lemma dl_zero : dl == 0.
Proof. rewrite dl_EW, EW_zero. non_commutative_ring. Qed.
Lemma hs_full : hs == Dg F.
Proof. apply eq_of_ord. intros k. apply (ord_le (k:=S k)). auto.
  apply hsum_spec. apply oUd'. apply oU'. fold dl. rewrite dl_zero. apply ord_zero. Qed.

(* [W, V] = 0 by contraction, hence U'† U' is block diagonal *)
Let C := comm W V.
Lemma F_expand : F == W * W - V * V + C.
Proof. unfold F, C, comm. rewrite eUd', eU'. non_commutative_ring. Qed.
Lemma DgF : Dg F == W * W - V * V.
Proof.
  rewrite F_expand, am_add, Dg_sub.
  rewrite (ev_mul _ _ W_ev W_ev), (od_od _ _ V_od V_od).
  assert (EC : Dg C == 0).
  { unfold C, comm. rewrite Dg_sub, (ev_od _ _ W_ev V_od), (od_ev _ _ V_od W_ev). non_commutative_ring. }
  rewrite EC. non_commutative_ring.
Qed.
Lemma twoW : W + W == - (W * W - V * V).
Proof.
  rewrite W_form at 1 2. rewrite hs_full, DgF.
  assert (E : - half (W * W - V * V) + - half (W * W - V * V) == - (half (W * W - V * V) + half (W * W - V * V))) by non_commutative_ring.
  rewrite E, half_dbl. reflexivity.
Qed.
Lemma C_zero : C == 0.
Proof.
  apply (contraction _ _ _ oW oW).
  apply dbl_inj.
  assert (E1 : C + C == comm (W + W) V) by (unfold C, comm; non_commutative_ring).
  rewrite E1, twoW.
  assert (E2 : - half (W * C + C * W) + - half (W * C + C * W) == - (half (W * C + C * W) + half (W * C + C * W))) by non_commutative_ring.
  rewrite E2, half_dbl. unfold C, comm. non_commutative_ring.
Qed.
Lemma F_ev : F == Dg F.
Proof. rewrite DgF, F_expand, C_zero. non_commutative_ring. Qed.
Lemma W_tb : W == - half ((W - V) * (W + V)).
Proof.
  rewrite W_form at 1. rewrite hs_full, <- F_ev. unfold F. rewrite eUd', eU'. reflexivity.
Qed.

(* ------------------------------------------------------------------------------------ *)
(** * Assembly *)
Hypothesis H0_S : Sel (Zc H) == Zc H.
Hypothesis S_adH0 : forall x, Sel (comm (Zc H) x) == comm (Zc H) (Sel x).
Hypothesis sylv_spec : forall y, Rp (comm (Zc H) (sylv y)) == Rp y.

Lemma Hd_ev : ev Hd.
Proof. rewrite Hd_alt. apply Dg_Sel. Qed.
Lemma H0_ev : ev (Zc H).
Proof. rewrite <- H0_S. apply Dg_Sel. Qed.
Lemma VH_od : od VH.
Proof. rewrite eVH. apply od_ev. apply V_od. apply Hd_ev. Qed.
Lemma S_vh : Sel (VH + adj VH) == 0.
Proof. rewrite Sel_Dg_all. apply od_add. apply VH_od. apply od_adj, VH_od. Qed.
Lemma hSY' : Sel Y == Sel (V * Hd + adj (V * Hd)).
Proof. rewrite <- eVH, S_vh, Sel_Dg_all. apply Y_od. Qed.
Lemma hB' : B == Sel (- half ((W - V) * B - adj ((W - V) * B) + Ho * (W + V) + adj (Ho * (W + V))))
               + Sel (V * Hd + adj (V * Hd)) - Rp ((W - V) * B).
Proof.
  rewrite eB at 1. rewrite S_vh, Rw_zero. rewrite <- eVH, S_vh. rewrite eUdB, eA, eUd', eU'. non_commutative_ring.
Qed.
Lemma hX' : X == B + Ho + Ho * (W + V).
Proof. rewrite eX at 1. rewrite eA, eU'. reflexivity. Qed.
Lemma hV' : V == - Rp (sylv (Y - V * Hd - adj (V * Hd))).
Proof. rewrite V_general at 1. unfold arg. rewrite eVH. reflexivity. Qed.
Lemma hHt' : sol "H_tilde" == Zc H + Sel (Hd + half (Ho * (W + V) + adj (Ho * (W + V)))
                                          - half ((W - V) * B + adj ((W - V) * B)) - Y).
Proof. rewrite eHt. rewrite eA, eUdB, eUd', eU'. reflexivity. Qed.

Ltac facts := first [exact H0_S | exact Hd_S | exact Ho_S | exact H0_h | exact Hd_h | exact Ho_h | exact S_adH0
  | exact sylv_spec | exact oW | exact oV | exact W_herm | exact V_anti | exact W_tb | exact hSY' | exact hV'
  | exact hX' | exact hB' | exact sylv_P ].

Let HS := Zc H + Hd.
Let Xh := comm (W + V) HS.
Let D := X - Xh.
Let G := Dg D.
Let Dl := Up X - adj (Lo X).

Lemma g_Y_is_comm : comm V HS == Y.
Proof. eapply Y_is_comm. all: try facts. Qed.
Lemma g_twoZ : X - adj X == - ((W - V) * X) + adj X * (W + V).
Proof. eapply twoZ with (Hs := Hd) (Hr := Ho) (B := B). all: try facts. Qed.
Lemma g_twoZh : comm (W + W) HS == - ((W - V) * Xh) + adj Xh * (W + V).
Proof. eapply twoZh. all: try facts. Qed.
Lemma g_SXherm : Sel (half (adj X + X)) == Sel (V * Hd + adj (V * Hd)).
Proof. eapply SXherm with (Hr := Ho). all: try facts. Qed.

Lemma HS_ev : ev HS. Proof. apply ev_add. apply H0_ev. apply Hd_ev. Qed.
Lemma HS_herm : adj HS == HS. Proof. unfold HS. rewrite adj_add, H0_h, Hd_h. reflexivity. Qed.
Lemma cW_ev : ev (comm W HS).
Proof. unfold comm. apply ev_sub; apply ev_mul; first [apply W_ev | apply HS_ev]. Qed.
Lemma Xh_split : Xh == comm W HS + Y.
Proof. rewrite <- g_Y_is_comm. unfold Xh, comm. non_commutative_ring. Qed.
Lemma adj_cW : adj (comm W HS) == - comm W HS.
Proof. unfold comm. rewrite adj_sub, !adj_mul, HS_herm, W_herm. non_commutative_ring. Qed.
Lemma Up_Y : Up Y == adj (Lo X).
Proof. rewrite Y_tb, am_add, Up_Lo, Up_adj, Lo_Lo. non_commutative_ring. Qed.
Lemma Lo_Y : Lo Y == Lo X.
Proof. rewrite Y_tb, am_add, Lo_Lo, Lo_adj, Up_Lo, adj_zero. non_commutative_ring. Qed.
Lemma D_split : D == G + Dl.
Proof.
  unfold G, Dl. rewrite (blk_split D) at 1.
  assert (EU : Up D == Up X - adj (Lo X)).
  { unfold D. rewrite Xh_split, Up_sub, am_add, (ev_Up _ cW_ev), Up_Y. non_commutative_ring. }
  assert (EL : Lo D == 0).
  { unfold D. rewrite Xh_split, Lo_sub, am_add, (ev_Lo _ cW_ev), Lo_Y. non_commutative_ring. }
  rewrite EU, EL. non_commutative_ring.
Qed.
Lemma Dl_up : Up Dl == Dl.
Proof. unfold Dl. rewrite Up_sub, Up_Up, Up_adj, Lo_Lo. reflexivity. Qed.
Lemma Dl_od : od Dl.
Proof. unfold Dl. rewrite Dg_sub, Dg_Up, Dg_adj, Dg_Lo, adj_zero. non_commutative_ring. Qed.
Lemma aDl_lo : Lo (adj Dl) == adj Dl.
Proof. rewrite Lo_adj, Dl_up. reflexivity. Qed.
Lemma G_ev : ev G. Proof. unfold G. apply Dg_Dg. Qed.
Lemma DgX_anti : adj (Dg X) == - Dg X.
Proof.
  assert (E : Dg (adj X + X) == 0).
  { apply dbl_inj. rewrite <- (half_dbl (Dg (adj X + X))) at 1.
    assert (E0 : half (Dg (adj X + X)) == 0).
    { rewrite <- (half_am (f:=Dg)), <- Sel_Dg_all, g_SXherm, <- eVH. apply S_vh. }
    rewrite E0. rewrite <- (half_dbl (Dg (adj X + X))), E0. non_commutative_ring. }
  rewrite am_add, Dg_adj in E.
  assert (E' : adj (Dg X) == (adj (Dg X) + Dg X) - Dg X) by non_commutative_ring.
  rewrite E', E. non_commutative_ring.
Qed.
Lemma G_anti : adj G == - G.
Proof.
  unfold G, D. rewrite Xh_split, Dg_sub, am_add, cW_ev, Y_od.
  rewrite !adj_sub, adj_add, DgX_anti, adj_cW, adj_zero. non_commutative_ring.
Qed.
Lemma star : D - adj D == - ((W - V) * D) + adj D * (W + V).
Proof.
  assert (E : D - adj D == (X - adj X) - comm (W + W) HS).
  { unfold D. rewrite adj_sub, Xh_split, adj_add, adj_cW, Y_herm. unfold comm. non_commutative_ring. }
  rewrite E, g_twoZ, g_twoZh. unfold D. rewrite adj_sub. non_commutative_ring.
Qed.
Lemma adjD : adj D == - G + adj Dl.
Proof. rewrite D_split at 1. rewrite adj_add, G_anti. reflexivity. Qed.

Lemma aDl_od : od (adj Dl). Proof. apply od_adj, Dl_od. Qed.
Lemma V_split : V == Up V + Lo V.
Proof. rewrite (blk_split V) at 1. rewrite V_od. non_commutative_ring. Qed.

Lemma E_even : G + G == - (W * G) - G * W + V * Dl + adj Dl * V.
Proof.
  pose proof star as S. rewrite adjD in S. rewrite D_split in S.
  assert (L : Dg (G + Dl - (- G + adj Dl)) == G + G).
  { rewrite Dg_sub, !am_add, am_opp, G_ev, Dl_od, aDl_od. non_commutative_ring. }
  assert (R : Dg (- ((W - V) * (G + Dl)) + (- G + adj Dl) * (W + V)) == - (W * G) - G * W + V * Dl + adj Dl * V).
  { assert (Ex : - ((W - V) * (G + Dl)) + (- G + adj Dl) * (W + V)
                 == (- (W * G) - G * W + V * Dl + adj Dl * V) + (- (W * Dl) + V * G - G * V + adj Dl * W)) by non_commutative_ring.
    rewrite Ex, am_add.
    assert (Ee : ev (- (W * G) - G * W + V * Dl + adj Dl * V)).
    { apply ev_add. apply ev_add. apply ev_sub. apply ev_opp, ev_mul. apply W_ev. apply G_ev.
      apply ev_mul. apply G_ev. apply W_ev. apply od_od. apply V_od. apply Dl_od. apply od_od. apply aDl_od. apply V_od. }
    assert (Eo : od (- (W * Dl) + V * G - G * V + adj Dl * W)).
    { apply od_add. apply od_sub. apply od_add. apply od_opp, ev_od. apply W_ev. apply Dl_od.
      apply od_ev. apply V_od. apply G_ev. apply ev_od. apply G_ev. apply V_od. apply od_ev. apply aDl_od. apply W_ev. }
    rewrite Ee, Eo. non_commutative_ring. }
  etransitivity; [symmetry; exact L|]. etransitivity; [|exact R]. apply am_P. exact S.
Qed.
Lemma E_up : Dl == - (W * Dl) + Up V * G - G * Up V.
Proof.
  pose proof star as S. rewrite adjD in S. rewrite D_split in S.
  assert (L : Up (G + Dl - (- G + adj Dl)) == Dl).
  { rewrite Up_sub, !am_add, am_opp, (ev_Up _ G_ev), Dl_up. rewrite <- aDl_lo, Up_Lo. non_commutative_ring. }
  assert (R : Up (- ((W - V) * (G + Dl)) + (- G + adj Dl) * (W + V)) == - (W * Dl) + Up V * G - G * Up V).
  { assert (Ex0 : - ((W - V) * (G + Dl)) + (- G + adj Dl) * (W + V)
                 == (- (W * G) - G * W + V * Dl + adj Dl * V) + (- (W * Dl) + V * G - G * V + adj Dl * W)) by non_commutative_ring.
    assert (EVG : V * G == Up V * G + Lo V * G) by (rewrite V_split at 1; non_commutative_ring).
    assert (EGV : G * V == G * Up V + G * Lo V) by (rewrite V_split at 1; non_commutative_ring).
    assert (Ex : - ((W - V) * (G + Dl)) + (- G + adj Dl) * (W + V)
                 == (- (W * G) - G * W + V * Dl + adj Dl * V)
                    + (- (W * Dl) + (Up V * G + Lo V * G) - (G * Up V + G * Lo V) + adj Dl * W)).
    { rewrite Ex0, EVG, EGV. reflexivity. }
    rewrite Ex, am_add.
    assert (Ee : ev (- (W * G) - G * W + V * Dl + adj Dl * V)).
    { apply ev_add. apply ev_add. apply ev_sub. apply ev_opp, ev_mul. apply W_ev. apply G_ev.
      apply ev_mul. apply G_ev. apply W_ev. apply od_od. apply V_od. apply Dl_od. apply od_od. apply aDl_od. apply V_od. }
    rewrite (ev_Up _ Ee).
    rewrite !am_add, Up_sub, !am_add, am_opp.
    rewrite (Up_ev_up _ _ W_ev Dl_up), (Up_up_ev _ _ (Up_Up V) G_ev), (Up_lo_ev _ _ (Lo_Lo V) G_ev).
    rewrite (Up_ev_up _ _ G_ev (Up_Up V)), (Up_ev_lo _ _ G_ev (Lo_Lo V)), (Up_lo_ev _ _ aDl_lo W_ev).
    non_commutative_ring. }
  etransitivity; [symmetry; exact L|]. etransitivity; [|exact R]. apply am_P. exact S.
Qed.
Lemma GD_step k : ord k G /\ ord k Dl -> ord (S k) G /\ ord (S k) Dl.
Proof.
  intros [HG HD]. split.
  - rewrite <- (half_twice G). apply ord_half. rewrite E_even.
    apply ord_add. apply ord_add. apply ord_sub. apply ord_opp. apply ord_mul_l. apply oW. exact HG.
    apply ord_mul_r. exact HG. apply oW. apply ord_mul_l. apply oV. exact HD.
    apply ord_mul_r. apply ord_adj, HD. apply oV.
  - assert (Hr : ord (S k) (- (W * Dl) + Up V * G - G * Up V)).
    { apply ord_sub. apply ord_add. apply ord_opp. apply ord_mul_l. apply oW. exact HD.
      apply ord_mul_l. apply ord_Up, oV. exact HG. apply ord_mul_r. exact HG. apply ord_Up, oV. }
    rewrite <- E_up in Hr. exact Hr.
Qed.
Lemma GD_all k : ord k G /\ ord k Dl.
Proof. induction k as [|k IH]. split; apply ord_O. apply GD_step. exact IH. Qed.
Lemma hXc' : X == comm (W + V) HS.
Proof.
  assert (EG : G == 0) by (apply ord_sep; intros k; apply (GD_all k)).
  assert (ED : Dl == 0) by (apply ord_sep; intros k; apply (GD_all k)).
  assert (E : D == 0) by (rewrite D_split, EG, ED; non_commutative_ring).
  assert (E' : X == D + Xh) by (unfold D; non_commutative_ring).
  rewrite E', E. fold Xh. non_commutative_ring.
Qed.

Ltac facts2 := first [exact hXc' | exact hHt' | facts].
Let Ufull := sol "U".  Let Udfull := sol "U†".  Let Htl := sol "H_tilde".

Theorem tb_unitary_l : Udfull * Ufull == 1.
Proof. unfold Udfull, Ufull. rewrite eU, eUd, eU', eUd'. eapply unitary. exact W_tb. Qed.
Theorem tb_unitary_r : Ufull * Udfull == 1.
Proof. unfold Udfull, Ufull. rewrite eU, eUd, eU', eUd'. eapply unitary_r_c. all: try facts2. Qed.
Theorem tb_adjoint : adj Ufull == Udfull.
Proof.
  unfold Udfull, Ufull. rewrite eU, eUd, eU', eUd'.
  rewrite adj_add, adj_one, adj_add, W_herm, V_anti. non_commutative_ring.
Qed.
Theorem tb_kept : Sel (Udfull * H * Ufull) == Htl.
Proof.
  unfold Udfull, Ufull, Htl. rewrite eU, eUd, eU', eUd'. rewrite H_split at 1.
  eapply kept_c. all: try facts2.
Qed.
Theorem tb_eliminated : Rp (Udfull * H * Ufull) == 0.
Proof.
  unfold Udfull, Ufull. rewrite eU, eUd, eU', eUd'. rewrite H_split at 1.
  eapply eliminated_c. all: try facts2.
Qed.
Theorem tb_Ht_herm : adj Htl == Htl.
Proof.
  rewrite <- tb_kept, <- Sel_adj, !adj_mul, H_herm, tb_adjoint.
  rewrite <- tb_adjoint, adj_inv. apply am_P. non_commutative_ring.
Qed.
Theorem tb_gauge : Sel (half ((Ufull - 1) - adj (Ufull - 1))) == 0.
Proof.
  unfold Ufull. rewrite eU, eU'.
  assert (E : 1 + (W + V) - 1 - adj (1 + (W + V) - 1) == V + V).
  { assert (E0 : 1 + (W + V) - 1 == W + V) by non_commutative_ring.
    rewrite E0, adj_add, W_herm, V_anti. non_commutative_ring. }
  rewrite E, half_twice. rewrite hV'. rewrite Sel_opp, Sel_Rp. non_commutative_ring.
Qed.

End Common.
