(** Final form of the correctness theorems of the Hermitian algorithm ([main_alg], generated
    from /repo/pymablock/algorithms.py), general wiring (two_block_optimized = False).

    [wiring] collects what Front-end wiring (block_diagonalize) is responsible for; each field is
    discharged for the concrete algebra of series of block matrices in Series/Inst.v,
    Series/SylvInst.v (fields on Sel/Rw/solver) - see Props/C01.v. *)
Require Import Ncring Ncring_tac Setoid Morphisms ZArith String List.
From PV.Base Require Import Classes AlgLemmas.
From PV.DSL Require Import Syntax Sem.
From PV.Gen Require Import Algorithms_gen.
From PV.Alg Require Import MainAlgebra MainLift Unique.
From PV.Alg Require MainLiftTB.
Import ListNotations.
Open Scope string_scope.

Section Correct.
Context {T : Type} `{Rg : Ring T} {BA : BlockAlg T}.

Record wiring (rflag : string -> T -> T) (fenv : string -> list T -> T) (H : T) : Prop := {
  w_herm : adj H == H;
  w_rflag : forall x, rflag "commuting_blocks" x == Rw x;
  w_comm_l : forall x y, Rw (Sel (Rp x * Sel y)) == 0;
  w_comm_r : forall x y, Rw (Sel (Sel y * Rp x)) == 0;
  w_sylv_P : Proper (_==_ ==> _==_) (sylv fenv);
  w_sylv_ord : forall k y, ord k y -> ord k (sylv fenv y);
  w_sylv_adj : forall y, sylv fenv (adj y) == - adj (sylv fenv y);
  w_H0_kept : Sel (Zc H) == Zc H;
  w_Sel_adH0 : forall x, Sel (comm (Zc H) x) == comm (Zc H) (Sel x);
  w_sylv_spec : forall y, Rp (comm (Zc H) (sylv fenv y)) == Rp y
}.

Variable rflag : string -> T -> T.
Variable fenv : string -> list T -> T.
Variable sol : string -> T.
Hypothesis Hsol : solution (gflag_of false) rflag fenv sol main_alg.
Hypothesis Hw : wiring rflag fenv (sol "H").

Ltac use L := destruct Hw; eapply L; try eassumption; try reflexivity.

Theorem kept_general : Sel (sol "U†" * sol "H" * sol "U") == sol "H_tilde".
Proof. use (@main_kept T _ _ _ _ _ _ _ _ _ _ false rflag fenv sol). Qed.
Theorem eliminated_general : Rp (sol "U†" * sol "H" * sol "U") == 0.
Proof. use (@main_eliminated T _ _ _ _ _ _ _ _ _ _ false rflag fenv sol). Qed.
Theorem unitary_l_general : sol "U†" * sol "U" == 1.
Proof. use (@main_unitary_l T _ _ _ _ _ _ _ _ _ _ false rflag fenv sol). Qed.
Theorem unitary_r_general : sol "U" * sol "U†" == 1.
Proof. use (@main_unitary_r T _ _ _ _ _ _ _ _ _ _ false rflag fenv sol). Qed.
Theorem adjoint_general : adj (sol "U") == sol "U†".
Proof. use (@main_adjoint T _ _ _ _ _ _ _ _ _ _ false rflag fenv sol). Qed.
Theorem Ht_herm_general : adj (sol "H_tilde") == sol "H_tilde".
Proof. use (@main_Ht_herm T _ _ _ _ _ _ _ _ _ _ false rflag fenv sol). Qed.
Theorem gauge_general : Sel (half ((sol "U" - 1) - adj (sol "U" - 1))) == 0.
Proof. use (@main_gauge T _ _ _ _ _ _ _ _ _ _ false rflag fenv sol). Qed.

End Correct.

Section LeastAction.
Context {T : Type} `{Rg : Ring T} {BA : BlockAlg T}.
Variable rflag : string -> T -> T.
Variable fenv : string -> list T -> T.
Variable sol : string -> T.
Hypothesis Hsol : solution (gflag_of false) rflag fenv sol main_alg.
Hypothesis Hw : wiring rflag fenv (sol "H").
Theorem main_least_action : Unique.least_action (sol "H") (sol "U").
Proof.
  unfold Unique.least_action. repeat split.
  - assert (E : sol "U" - 1 == sol "U'").
    { rewrite (@eU T _ _ _ _ _ _ _ _ _ _ false rflag fenv sol Hsol). non_commutative_ring. }
    rewrite E. apply (@oU' T _ _ _ _ _ _ _ _ _ _ false rflag fenv sol Hsol).
  - rewrite (adjoint_general _ _ _ Hsol Hw). apply (unitary_l_general _ _ _ Hsol Hw).
  - rewrite (adjoint_general _ _ _ Hsol Hw). apply (eliminated_general _ _ _ Hsol Hw).
  - apply (gauge_general _ _ _ Hsol Hw).
Qed.
End LeastAction.

(** Two-block optimisation (two_block_optimized = True: exactly two blocks, no
    fully_diagonalize). [wiring_tb] adds what this wiring guarantees: the selection is the
    block-diagonal part, every block is flagged commuting, and the parity laws of a 2x2 block
    structure (proved for the series instance in Series/Wiring.v under [blk p < 2]). *)
Section CorrectTB.
Context {T : Type} `{Rg : Ring T} {BA : BlockAlg T}.

Record wiring_tb (rflag : string -> T -> T) (fenv : string -> list T -> T) (H : T) : Prop := {
  wt_base : wiring rflag fenv H;
  wt_Sel_Dg : forall x, Sel x == Dg x;
  wt_Rw_Dg : forall x, Rw (Dg x) == Dg x;
  wt_odd_odd : forall x y, Dg (Od x * Od y) == Od x * Od y;
  wt_up_dg_up : forall x y, Up (Dg x * Up y) == Dg x * Up y;
  wt_up_up_dg : forall x y, Up (Up x * Dg y) == Up x * Dg y;
  wt_lo_dg_lo : forall x y, Lo (Dg x * Lo y) == Dg x * Lo y;
  wt_lo_lo_dg : forall x y, Lo (Lo x * Dg y) == Lo x * Dg y
}.

Variable rflag : string -> T -> T.
Variable fenv : string -> list T -> T.
Variable sol : string -> T.
Hypothesis Hsol : solution (MainLift.gflag_of true) rflag fenv sol main_alg.
Hypothesis Hw : wiring_tb rflag fenv (sol "H").

Ltac use L := destruct Hw as [Hb ? ? ? ? ? ? ?]; destruct Hb; eapply L; try eassumption; try reflexivity.

Theorem kept_tb : Sel (sol "U†" * sol "H" * sol "U") == sol "H_tilde".
Proof. use (@MainLiftTB.tb_kept T _ _ _ _ _ _ _ _ _ _ true rflag fenv sol). Qed.
Theorem eliminated_tb : Rp (sol "U†" * sol "H" * sol "U") == 0.
Proof. use (@MainLiftTB.tb_eliminated T _ _ _ _ _ _ _ _ _ _ true rflag fenv sol). Qed.
Theorem unitary_l_tb : sol "U†" * sol "U" == 1.
Proof. use (@MainLiftTB.tb_unitary_l T _ _ _ _ _ _ _ _ _ _ true rflag fenv sol). Qed.
Theorem unitary_r_tb : sol "U" * sol "U†" == 1.
Proof. use (@MainLiftTB.tb_unitary_r T _ _ _ _ _ _ _ _ _ _ true rflag fenv sol). Qed.
Theorem adjoint_tb : adj (sol "U") == sol "U†".
Proof. use (@MainLiftTB.tb_adjoint T _ _ _ _ _ _ _ _ _ _ true rflag fenv sol). Qed.
Theorem Ht_herm_tb : adj (sol "H_tilde") == sol "H_tilde".
Proof. use (@MainLiftTB.tb_Ht_herm T _ _ _ _ _ _ _ _ _ _ true rflag fenv sol). Qed.
Theorem gauge_tb : Sel (half ((sol "U" - 1) - adj (sol "U" - 1))) == 0.
Proof. use (@MainLiftTB.tb_gauge T _ _ _ _ _ _ _ _ _ _ true rflag fenv sol). Qed.
End CorrectTB.
