(** End-to-end form of the correspondence k_semeq: if the executable reading accepts the
    implementation's tables ([check_alg = true], decided by vm_compute on every run), then the
    conclusions of C01 / C02 / C03 hold for the DENOTATIONS of those tables up to total order N -
    proved, not re-tested:  check_alg_sound  (equations hold modulo order N+1)  +  the truncated
    algebra (Alg/Trunc.v)  +  the general theorems instantiated there (Alg/TruncMain.v)  +  the
    wiring of the concrete series instance (Alg/MainInst.v). *)
Require Import List ZArith Arith Bool String Ncring Setoid Morphisms.
From PV.Base Require Import Classes AlgLemmas.
From PV.Series Require Import MultiIndex Cauchy Lift Inst ExecIdx Exec SylvInst Wiring SymBase.
From PV.Block Require Import Mat Masks CoefAlg BlockSel ExecScalar QLemmas QInst.
From PV.DSL Require Import Syntax Sem.
From PV.Gen Require Import Algorithms_gen.
From PV.Alg Require Import MainLift MainCorrect MainInst Unique SemExec SemExecSound Trunc TruncMain GqInv.
Open Scope string_scope.

Section Tie.
Variables D k N : nat.
Variable bl : list nat.
Variable msk : list (list bool).
Variable cb : list bool.
Variable El : list gq.
Variable sols : list (string * tser gq).

Let blk := mk_blk bl.
Let keep := mk_keep bl msk.
Let cm := mk_cm bl cb.
Let ksym := mk_keep_sym bl msk.
Let kblk := mk_keep_blk bl msk.
Let cblk := mk_cm_blk bl cb.

Local Notation TT := (T D k gq).
Local Notation BA0 := (BAi D k bl msk cb).
Local Hint Extern 0 (BlockAlg _) => exact BA0 : typeclass_instances.
Local Notation sol := (asol D k sols).
Local Notation rfl := (arflag D k bl msk cb).
Local Notation fen := (afenv D k El).
Local Notation M := (S N).

Lemma teq_eqN (x y : TT) : teq M x y <-> eqN D k N x y.
Proof. unfold teq. symmetry. apply (eqN_ord (Rg := gq_Ring) blk keep cm ksym kblk cblk). Qed.

Lemma hsum_trunc_i : forall a a' b b' : TT, teq M a a' -> teq M b b' -> teq M (hsum a b) (hsum a' b').
Proof.
  intros a a' b b' H1 H2. apply teq_eqN. apply (eqN_hsum (Rg := gq_Ring) blk keep cm ksym kblk cblk); apply teq_eqN; assumption.
Qed.

(** ** decidable side conditions on the loaded input *)
Local Notation Ef := (Efun El).
Definition refl_ok : bool := forallb (fun p => keep p p) (range D).
Definition eucl_ok : bool :=
  forallb (fun p => forallb (fun q => forallb (fun r =>
    implb (cm p && keep p q && keep r q) (keep p r)) (range D)) (range D)) (range D).
Definition distinct_ok : bool :=
  forallb (fun p => forallb (fun q => implb (negb (keep p q)) (negb (gq_eqb (gq_sub (Ef p) (Ef q)) gq0))) (range D)) (range D).
Definition real_ok : bool := forallb (fun e => gq_eqb (gq_conj e) e) El.
Definition herm_ok : bool :=
  teqb D k N (tadj D k blk keep cm ksym kblk cblk N (R0 := gq) (tsol sols "H")) (tsol sols "H").
Definition zero_ok : bool :=
  teqb D k N (tZc D k blk keep cm ksym kblk cblk N (R0 := gq) (tsol sols "H")) (tab D k N (SylvInst.H0 D k Ef)).
Definition inputs_ok : bool := refl_ok && eucl_ok && distinct_ok && real_ok && herm_ok && zero_ok.

Lemma gq_eqb_complete a b : gq_eq a b -> gq_eqb a b = true.
Proof. intros [E1 E2]. unfold gq_eqb. apply andb_true_intro. split; apply QArith_base.Qeq_bool_iff; assumption. Qed.

Hypothesis Hcheck : check_alg D k N bl msk cb El false sols main_alg = true.
Hypothesis Hin : inputs_ok = true.

Lemma Hin_parts : refl_ok = true /\ eucl_ok = true /\ distinct_ok = true /\ real_ok = true /\ herm_ok = true /\ zero_ok = true.
Proof.
  pose proof Hin as H. unfold inputs_ok in H.
  apply andb_prop in H. destruct H as [H H6]. apply andb_prop in H. destruct H as [H H5].
  apply andb_prop in H. destruct H as [H H4]. apply andb_prop in H. destruct H as [H H3].
  apply andb_prop in H. destruct H as [H1 H2]. repeat split; assumption.
Qed.

Lemma keep_refl : forall p, (p < D)%nat -> keep p p = true.
Proof.
  destruct Hin_parts as (H & _). unfold refl_ok in H. rewrite forallb_forall in H.
  intros p Hp. apply H. apply in_range. exact Hp.
Qed.
Lemma keep_eucl : keep_eucl_on D keep cm.
Proof.
  destruct Hin_parts as (_ & H & _). unfold eucl_ok in H. rewrite forallb_forall in H.
  intros p q r Hp Hq Hr Hc H1 H2.
  specialize (H p (proj2 (in_range D p) Hp)). rewrite forallb_forall in H.
  specialize (H q (proj2 (in_range D q) Hq)). rewrite forallb_forall in H.
  specialize (H r (proj2 (in_range D r) Hr)). rewrite Hc, H1, H2 in H. exact H.
Qed.
Lemma distinct : forall p q, (p < D)%nat -> (q < D)%nat -> keep p q = false -> ~ (Ef p - Ef q == 0).
Proof.
  destruct Hin_parts as (_ & _ & H & _). unfold distinct_ok in H. rewrite forallb_forall in H.
  intros p q Hp Hq Hk E.
  specialize (H p (proj2 (in_range D p) Hp)). rewrite forallb_forall in H.
  specialize (H q (proj2 (in_range D q) Hq)). rewrite Hk in H. cbn [negb implb] in H.
  assert (E' : gq_eq (gq_sub (Ef p) (Ef q)) gq0) by exact E.
  rewrite (gq_eqb_complete _ _ E') in H. discriminate.
Qed.
Lemma E_real : forall p, conj (Ef p) == Ef p.
Proof.
  destruct Hin_parts as (_ & _ & _ & H & _). unfold real_ok in H. rewrite forallb_forall in H.
  intros p. unfold Efun. destruct (Nat.lt_ge_cases p (List.length El)) as [L|L].
  - apply gq_eqb_sound. apply H. apply nth_In. exact L.
  - rewrite nth_overflow by exact L. split; reflexivity.
Qed.
Lemma H_herm : eqN D k N (adj (sol "H")) (sol "H").
Proof.
  destruct Hin_parts as (_ & _ & _ & _ & H & _). unfold herm_ok in H.
  apply teqb_sound in H.
  eapply (eqN_trans (Rg := gq_Ring)); [|exact H].
  apply (eqN_sym (Rg := gq_Ring)). apply (tadj_den (Rg := gq_Ring) blk keep cm ksym kblk cblk).
Qed.
Lemma H_zero : eqN D k N (Zc (sol "H")) (SylvInst.H0 D k Ef).
Proof.
  destruct Hin_parts as (_ & _ & _ & _ & _ & H). unfold zero_ok in H.
  apply teqb_sound in H.
  eapply (eqN_trans (Rg := gq_Ring)); [apply (eqN_sym (Rg := gq_Ring)); apply (tZc_den (Rg := gq_Ring) blk keep cm ksym kblk cblk)|].
  eapply (eqN_trans (Rg := gq_Ring)); [exact H|]. apply den_tab.
Qed.

Lemma inv_spec : forall p q, (p < D)%nat -> (q < D)%nat -> keep p q = false ->
  (Ef p - Ef q) * gq_inv0 (Ef p - Ef q) == 1.
Proof. intros p q Hp Hq Hk. apply gq_inv0_spec. exact (distinct p q Hp Hq Hk). Qed.
Lemma inv_P : Proper (_==_ ==> _==_) gq_inv0.
Proof. intros x y E. apply gq_inv0_comp. exact E. Qed.
Lemma inv_opp : forall x, gq_inv0 (- x) == - gq_inv0 x. Proof. exact gq_inv0_opp. Qed.
Lemma inv_conj : forall x, conj (gq_inv0 x) == gq_inv0 (conj x). Proof. exact gq_inv0_conj. Qed.

(* [Sel H0 == H0] needs reflexivity of the mask only on the D basis states *)
Lemma Sel_H0_b : Sel (SylvInst.H0 D k Ef) == SylvInst.H0 D k Ef.
Proof.
  intros n _ p q Hp Hq.
  change (Sel (SylvInst.H0 D k Ef) n p q) with (if keep p q then SylvInst.H0 D k Ef n p q else 0).
  unfold SylvInst.H0.
  destruct (is_zero n).
  - unfold mdiag. destruct (Nat.eqb_spec p q).
    + subst. rewrite (keep_refl q Hq). reflexivity.
    + destruct (keep p q); reflexivity.
  - destruct (keep p q); reflexivity.
Qed.

Lemma sylv_sub_i : forall x y : TT, MainLift.sylv fen (x - y) == MainLift.sylv fen x - MainLift.sylv fen y.
Proof.
  intros x y. unfold MainLift.sylv. cbn [afenv].
  apply AlgLemmas.am_sub. exact (SylvInst.sylv_am D k (Rg := gq_Ring) Ef gq_inv0).
Qed.

Lemma trunc_solution :
  @solution TT _ _ _ _ _ _ (teq M) (trunc_ops M) (BAt M hsum_trunc_i) (gflag_of false) rfl fen sol main_alg.
Proof.
  pose proof (check_alg_sound D k N bl msk cb El false sols main_alg Hcheck) as [Hs Hp].
  split.
  - apply Forall_forall. intros d Hd. specialize (Hs d Hd). apply teq_eqN in Hs. exact Hs.
  - apply Forall_forall. intros p Hp'. specialize (Hp p Hp'). apply teq_eqN in Hp. exact Hp.
Qed.

Local Notation concl L := (L TT _ _ _ _ _ _ _ _ _ BA0 M hsum_trunc_i rfl fen (SylvInst.H0 D k Ef) sol sylv_sub_i
  (fun x => Equivalence_Reflexive (Rw x))
  (fun x y => comm_sound_l (k := k) blk ksym kblk cblk keep_eucl x y)
  (fun x y => comm_sound_r (k := k) blk ksym kblk cblk keep_eucl x y)
  (fun m y Hy => SylvInst.sylv_ord (keep_sym := ksym) (keep_blk := kblk) (cm_blk := cblk) Ef gq_inv0 Hy)
  (fun y => SylvInst.sylv_adj (k := k) blk keep cm ksym kblk cblk Ef E_real inv_P inv_opp inv_conj y)
  Sel_H0_b
  (fun x => SylvInst.Sel_comm_H0 (k := k) blk keep cm ksym kblk cblk Ef x)
  (fun y => SylvInst.sylv_spec (k := k) blk keep cm ksym kblk cblk Ef gq_inv0 inv_spec y)
  (proj2 (teq_eqN _ _) H_herm) (proj2 (teq_eqN _ _) H_zero) trunc_solution) (only parsing).

Theorem tie_conclusions :
  eqN D k N (Sel (sol "U†" * sol "H" * sol "U")) (sol "H_tilde") /\
  eqN D k N (Rp (sol "U†" * sol "H" * sol "U")) 0 /\
  eqN D k N (sol "U†" * sol "U") 1 /\
  eqN D k N (sol "U" * sol "U†") 1 /\
  eqN D k N (adj (sol "U")) (sol "U†") /\
  eqN D k N (adj (sol "H_tilde")) (sol "H_tilde") /\
  eqN D k N (Sel (half ((sol "U" - 1) - adj (sol "U" - 1)))) 0.
Proof.
  refine (Logic.conj _ (Logic.conj _ (Logic.conj _ (Logic.conj _ (Logic.conj _ (Logic.conj _ _)))))); apply teq_eqN.
  - exact (concl (@kept_upto0)).
  - exact (concl (@eliminated_upto0)).
  - exact (concl (@unitary_l_upto0)).
  - exact (concl (@unitary_r_upto0)).
  - exact (concl (@adjoint_upto0)).
  - exact (concl (@Ht_herm_upto0)).
  - exact (concl (@gauge_upto0)).
Qed.

(** ** uniqueness: any U' that satisfies the least-action conditions up to order N for the loaded H
    agrees with the implementation's U up to order N *)
Local Notation H0c := (SylvInst.H0 D k Ef).
Definition Wt := trunc_wiring_H0 M hsum_trunc_i rfl fen sylv_sub_i (sol "H") H0c
  (fun x => Equivalence_Reflexive (Rw x))
  (fun x y => comm_sound_l (k := k) blk ksym kblk cblk keep_eucl x y)
  (fun x y => comm_sound_r (k := k) blk ksym kblk cblk keep_eucl x y)
  (fun m y Hy => SylvInst.sylv_ord (keep_sym := ksym) (keep_blk := kblk) (cm_blk := cblk) Ef gq_inv0 Hy)
  (fun y => SylvInst.sylv_adj (k := k) blk keep cm ksym kblk cblk Ef E_real inv_P inv_opp inv_conj y)
  Sel_H0_b
  (fun x => SylvInst.Sel_comm_H0 (k := k) blk keep cm ksym kblk cblk Ef x)
  (fun y => SylvInst.sylv_spec (k := k) blk keep cm ksym kblk cblk Ef gq_inv0 inv_spec y)
  (proj2 (teq_eqN _ _) H_herm) (proj2 (teq_eqN _ _) H_zero).

Lemma t_sylv_left : forall x : TT,
  teq M (Rp (MainLift.sylv fen (AlgLemmas.comm (Zc (sol "H")) (Rp x)))) (Rp x).
Proof.
  intros x. destruct Wt as [_ _ _ _ sP _ _ _ _ _].
  apply (teq_trans M _ (Rp (MainLift.sylv fen (AlgLemmas.comm H0c (Rp x))))).
  { apply (teq_Rp M). apply sP. apply (teq_comm M). exact (proj2 (teq_eqN _ _) H_zero). apply (teq_refl M). }
  apply lift_teq. unfold MainLift.sylv. cbn [afenv].
  apply (sylv_left_H0 D k blk keep cm ksym kblk cblk Ef gq_inv0 inv_spec).
Qed.

Theorem tie_unique (U' : TT) :
  ord 1 (U' - 1) ->
  eqN D k N (adj U' * U') 1 ->
  eqN D k N (Rp (adj U' * sol "H" * U')) 0 ->
  eqN D k N (Sel (half ((U' - 1) - adj (U' - 1)))) 0 ->
  eqN D k N U' (sol "U").
Proof.
  intros h1 h2 h3 h4. apply teq_eqN.
  pose proof Wt as W.
  assert (L2 : @least_action TT _ _ _ _ _ _ (teq M) (trunc_ops M) (BAt M hsum_trunc_i) (sol "H") (sol "U")).
  { exact (@main_least_action TT _ _ _ _ _ _ (teq M) (trunc_ops M) (Rgt M) (BAt M hsum_trunc_i) rfl fen sol trunc_solution W). }
  assert (L1 : @least_action TT _ _ _ _ _ _ (teq M) (trunc_ops M) (BAt M hsum_trunc_i) (sol "H") U').
  { unfold least_action. refine (Logic.conj _ (Logic.conj _ (Logic.conj _ _))).
    - change (ord (Nat.min 1 M) (U' - 1)). cbn [Nat.min]. exact h1.
    - exact (proj2 (teq_eqN _ _) h2).
    - exact (proj2 (teq_eqN _ _) h3).
    - exact (proj2 (teq_eqN _ _) h4). }
  destruct W as [_ _ _ _ sP sO _ _ sA _].
  eapply (@least_action_unique TT _ _ _ _ _ _ (teq M) (trunc_ops M) (Rgt M) (BAt M hsum_trunc_i) (sol "H") sA (MainLift.sylv fen)).
  - exact sO.
  - exact t_sylv_left.
  - exact L1.
  - exact L2.
Qed.
End Tie.
