(** Non-Hermitian counterpart of Alg/TruncTie.v: if [check_alg] accepts the implementation's
    tables for [nonhermitian_alg], then U_inv U = U U_inv = 1 and the gauge condition hold for the
    denotations of those tables up to total order N (no side condition: these three clauses of C05
    are unconditional). *)
Require Import List ZArith Arith Bool String Ncring Setoid Morphisms.
From PV.Base Require Import Classes AlgLemmas.
From PV.Series Require Import MultiIndex Cauchy Lift Inst ExecIdx Exec SylvInst.
From PV.Block Require Import Mat Masks CoefAlg BlockSel ExecScalar QLemmas QInst.
From PV.DSL Require Import Syntax Sem.
From PV.Gen Require Import Algorithms_gen.
From PV.Alg Require Import NonHerm SemExec SemExecSound Trunc TruncMain TruncTie GqInv.
Require Import Ncring_tac.
Open Scope string_scope.

Section TieNH.
Variables D k N : nat.
Variable bl : list nat.
Variable msk : list (list bool).
Variable cb : list bool.
Variable El : list gq.
Variable tb : bool.
Variable sols : list (string * tser gq).

Let blk := mk_blk bl.
Let keep := mk_keep bl msk.
Let cm := mk_cm bl cb.
Let ksym := mk_keep_sym bl msk.
Let kblk := mk_keep_blk bl msk.
Let cblk := mk_cm_blk bl cb.

Local Notation TT := (T D k gq).
Local Notation BA0 := (BAi D k bl msk cb).
Local Hint Extern 0 (BlockAlg _) => exact BA0 : typeclass_instances.
Local Notation sol := (asol D k sols).
Local Notation rfl := (arflag D k bl msk cb).
Local Notation fen := (afenv D k El).
Local Notation M := (S N).
Local Notation hst := (hsum_trunc_i D k N bl msk cb).
Local Notation Ef := (Efun El).

Hypothesis Hcheck : check_alg D k N bl msk cb El tb sols nonhermitian_alg = true.

Lemma nh_trunc_solution :
  @solution TT _ _ _ _ _ _ (teq M) (trunc_ops M) (BAt M hst) (SemExec.gflag tb) rfl fen sol nonhermitian_alg.
Proof.
  pose proof (check_alg_sound D k N bl msk cb El tb sols nonhermitian_alg Hcheck) as [Hs Hp].
  split.
  - apply Forall_forall. intros d Hd. specialize (Hs d Hd). apply (teq_eqN D k N bl msk cb) in Hs. exact Hs.
  - apply Forall_forall. intros p Hp'. specialize (Hp p Hp'). apply (teq_eqN D k N bl msk cb) in Hp. exact Hp.
Qed.

Lemma nsylv_P_t : Proper (teq M ==> teq M) (nsylv fen).
Proof.
  intros x y E. unfold teq in *. unfold nsylv. cbn [afenv].
  assert (Z : SylvInst.sylv Ef gq_inv0 x - SylvInst.sylv Ef gq_inv0 y == SylvInst.sylv (D := D) (k := k) Ef gq_inv0 (x - y)).
  { symmetry. apply AlgLemmas.am_sub. exact (SylvInst.sylv_am D k (Rg := gq_Ring) Ef gq_inv0). }
  rewrite Z. apply (SylvInst.sylv_ord (keep_sym := ksym) (keep_blk := kblk) (cm_blk := cblk) Ef gq_inv0). exact E.
Qed.
Lemma nsylv_ord_t : forall m y, tord M m y -> tord M m (nsylv fen y).
Proof.
  intros m y Hy. unfold tord in *. unfold nsylv. cbn [afenv].
  apply (SylvInst.sylv_ord (keep_sym := ksym) (keep_blk := kblk) (cm_blk := cblk) Ef gq_inv0). exact Hy.
Qed.

Theorem nh_tie_conclusions :
  eqN D k N (sol "U†" * sol "U") 1 /\
  eqN D k N (sol "U" * sol "U†") 1 /\
  eqN D k N (Sel (sol "U" - sol "U†")) 0.
Proof.
  refine (Logic.conj _ (Logic.conj _ _)); apply (teq_eqN D k N bl msk cb).
  - eapply (@nh_inverse_l TT _ _ _ _ _ _ (teq M) (trunc_ops M) (Rgt M) (BAt M hst)).
    exact nh_trunc_solution. all: first [exact nsylv_P_t | exact nsylv_ord_t].
  - eapply (@nh_inverse_r TT _ _ _ _ _ _ (teq M) (trunc_ops M) (Rgt M) (BAt M hst)).
    exact nh_trunc_solution. all: first [exact nsylv_P_t | exact nsylv_ord_t].
  - eapply (@nh_gauge TT _ _ _ _ _ _ (teq M) (trunc_ops M) (Rgt M) (BAt M hst)).
    exact nh_trunc_solution. all: first [exact nsylv_P_t | exact nsylv_ord_t].
Qed.

(** ** the similarity clauses, inside the class where they hold: every kept matrix element connects
    equal unperturbed energies ([central_ok]; outside it the property is false on the unchanged
    code - known finding C05-kept-distinct-energies) *)
Definition central_ok : bool :=
  forallb (fun p => forallb (fun q => implb (keep p q) (gq_eqb (Ef p) (Ef q))) (range D)) (range D).
Definition nh_inputs_ok : bool :=
  refl_ok D bl msk && distinct_ok D bl msk El && central_ok && zero_ok D k N bl msk cb El sols.

Hypothesis Hin : nh_inputs_ok = true.

Lemma nh_parts : refl_ok D bl msk = true /\ distinct_ok D bl msk El = true /\ central_ok = true /\ zero_ok D k N bl msk cb El sols = true.
Proof.
  pose proof Hin as H. unfold nh_inputs_ok in H.
  apply andb_prop in H. destruct H as [H H4]. apply andb_prop in H. destruct H as [H H3].
  apply andb_prop in H. destruct H as [H1 H2]. repeat split; assumption.
Qed.
Lemma n_keep_refl : forall p, (p < D)%nat -> keep p p = true.
Proof.
  destruct nh_parts as (H & _). unfold refl_ok in H. rewrite forallb_forall in H.
  intros p Hp. apply H. apply in_range. exact Hp.
Qed.
Lemma n_distinct : forall p q, (p < D)%nat -> (q < D)%nat -> keep p q = false -> ~ (Ef p - Ef q == 0).
Proof.
  destruct nh_parts as (_ & H & _). unfold distinct_ok in H. rewrite forallb_forall in H.
  intros p q Hp Hq Hk E.
  specialize (H p (proj2 (in_range D p) Hp)). rewrite forallb_forall in H.
  specialize (H q (proj2 (in_range D q) Hq)). fold keep in H. rewrite Hk in H. cbn [negb implb] in H.
  assert (E' : gq_eq (gq_sub (Ef p) (Ef q)) gq0) by exact E.
  rewrite (gq_eqb_complete _ _ E') in H. discriminate.
Qed.
Lemma n_kept_equal : forall p q, (p < D)%nat -> (q < D)%nat -> keep p q = true -> Ef p == Ef q.
Proof.
  destruct nh_parts as (_ & _ & H & _). unfold central_ok in H. rewrite forallb_forall in H.
  intros p q Hp Hq Hk.
  specialize (H p (proj2 (in_range D p) Hp)). rewrite forallb_forall in H.
  specialize (H q (proj2 (in_range D q) Hq)). rewrite Hk in H. cbn [implb] in H.
  apply gq_eqb_sound. exact H.
Qed.
Lemma n_H_zero : eqN D k N (Zc (sol "H")) (SylvInst.H0 D k Ef).
Proof.
  destruct nh_parts as (_ & _ & _ & H). unfold zero_ok in H.
  apply teqb_sound in H.
  eapply (eqN_trans (Rg := gq_Ring)); [apply (eqN_sym (Rg := gq_Ring)); apply (tZc_den (Rg := gq_Ring) blk keep cm ksym kblk cblk)|].
  eapply (eqN_trans (Rg := gq_Ring)); [exact H|]. apply den_tab.
Qed.
Lemma n_inv_spec : forall p q, (p < D)%nat -> (q < D)%nat -> keep p q = false ->
  (Ef p - Ef q) * gq_inv0 (Ef p - Ef q) == 1.
Proof. intros p q Hp Hq Hk. apply GqInv.gq_inv0_spec. exact (n_distinct p q Hp Hq Hk). Qed.
Lemma n_Sel_H0 : Sel (SylvInst.H0 D k Ef) == SylvInst.H0 D k Ef.
Proof.
  intros n _ p q Hp Hq.
  change (Sel (SylvInst.H0 D k Ef) n p q) with (if keep p q then SylvInst.H0 D k Ef n p q else 0).
  unfold SylvInst.H0.
  destruct (is_zero n).
  - unfold mdiag. destruct (Nat.eqb_spec p q).
    + subst. rewrite (n_keep_refl q Hq). reflexivity.
    + destruct (keep p q); reflexivity.
  - destruct (keep p q); reflexivity.
Qed.
Lemma n_central (x : TT) : AlgLemmas.comm (SylvInst.H0 D k Ef) (Sel x) == 0.
Proof.
  intros n Hn p q Hp Hq. unfold AlgLemmas.comm. rewrite (SylvInst.comm_H0_entry (k := k) Ef (Sel x) n Hp Hq).
  change (Sel x n p q) with (if keep p q then x n p q else 0).
  destruct (keep p q) eqn:K.
  - rewrite (n_kept_equal p q Hp Hq K). change ((0 : TT) n p q) with (0 : gq). non_commutative_ring.
  - change ((0 : TT) n p q) with (0 : gq). non_commutative_ring.
Qed.

Local Notation H0c := (SylvInst.H0 D k Ef).
Local Notation tz := (proj2 (teq_eqN D k N bl msk cb _ _) n_H_zero).

Lemma t_kept : teq M (Sel (Zc (sol "H"))) (Zc (sol "H")).
Proof.
  apply (teq_trans M _ (Sel H0c)). { apply (teq_Sel M). exact tz. }
  apply (teq_trans M _ H0c). { apply lift_teq. exact n_Sel_H0. } apply (teq_sym M). exact tz.
Qed.
Lemma t_Sel_ad : forall x, teq M (Sel (AlgLemmas.comm (Zc (sol "H")) x)) (AlgLemmas.comm (Zc (sol "H")) (Sel x)).
Proof.
  intros x.
  apply (teq_trans M _ (Sel (AlgLemmas.comm H0c x))).
  { apply (teq_Sel M). apply (teq_comm M). exact tz. apply (teq_refl M). }
  apply (teq_trans M _ (AlgLemmas.comm H0c (Sel x))).
  { apply lift_teq. apply (SylvInst.Sel_comm_H0 (k := k) blk keep cm ksym kblk cblk Ef). }
  apply (teq_comm M). apply (teq_sym M). exact tz. apply (teq_refl M).
Qed.
Lemma t_spec : forall y, teq M (Rp (AlgLemmas.comm (Zc (sol "H")) (nsylv fen y))) (Rp y).
Proof.
  intros y.
  apply (teq_trans M _ (Rp (AlgLemmas.comm H0c (nsylv fen y)))).
  { apply (teq_Rp M). apply (teq_comm M). exact tz. apply (teq_refl M). }
  apply lift_teq. unfold nsylv. cbn [afenv].
  apply (SylvInst.sylv_spec (k := k) blk keep cm ksym kblk cblk Ef gq_inv0 n_inv_spec).
Qed.
Lemma t_central : forall x, teq M (AlgLemmas.comm (Zc (sol "H")) (Sel x)) 0.
Proof.
  intros x. apply (teq_trans M _ (AlgLemmas.comm H0c (Sel x))).
  { apply (teq_comm M). exact tz. apply (teq_refl M). }
  apply lift_teq. apply n_central.
Qed.

Theorem nh_tie_similarity :
  eqN D k N (Sel (sol "U†" * sol "H" * sol "U")) (sol "H_tilde") /\
  eqN D k N (Rp (sol "U†" * sol "H" * sol "U")) 0.
Proof.
  refine (Logic.conj _ _); apply (teq_eqN D k N bl msk cb).
  - eapply (@nh_kept_partial TT _ _ _ _ _ _ (teq M) (trunc_ops M) (Rgt M) (BAt M hst)).
    exact nh_trunc_solution.
    all: first [exact nsylv_P_t | exact nsylv_ord_t | exact t_kept | exact t_Sel_ad | exact t_spec | exact t_central].
  - eapply (@nh_eliminated_partial TT _ _ _ _ _ _ (teq M) (trunc_ops M) (Rgt M) (BAt M hst)).
    exact nh_trunc_solution.
    all: first [exact nsylv_P_t | exact nsylv_ord_t | exact t_kept | exact t_Sel_ad | exact t_spec | exact t_central].
Qed.
End TieNH.
