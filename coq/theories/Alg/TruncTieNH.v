(** Non-Hermitian counterpart of Alg/TruncTie.v: if [check_alg] accepts the implementation's
    tables for [nonhermitian_alg], then U_inv U = U U_inv = 1 and the gauge condition hold for the
    denotations of those tables up to total order N (no side condition: these three clauses of C05
    are unconditional). *)
Require Import List ZArith Arith Bool String Ncring Setoid Morphisms.
From PV.Base Require Import Classes AlgLemmas.
From PV.Series Require Import MultiIndex Cauchy Lift Inst ExecIdx Exec SylvInst.
From PV.Block Require Import Mat Masks CoefAlg BlockSel ExecScalar QLemmas QInst.
From PV.DSL Require Import Syntax Sem.
From PV.Gen Require Import Algorithms_gen.
From PV.Alg Require Import NonHerm SemExec SemExecSound Trunc TruncMain TruncTie.
Open Scope string_scope.

Section TieNH.
Variables D k N : nat.
Variable bl : list nat.
Variable msk : list (list bool).
Variable cb : list bool.
Variable El : list gq.
Variable tb : bool.
Variable sols : list (string * tser gq).

Let blk := mk_blk bl.
Let keep := mk_keep bl msk.
Let cm := mk_cm bl cb.
Let ksym := mk_keep_sym bl msk.
Let kblk := mk_keep_blk bl msk.
Let cblk := mk_cm_blk bl cb.

Local Notation TT := (T D k gq).
Local Notation BA0 := (BAi D k bl msk cb).
Local Hint Extern 0 (BlockAlg _) => exact BA0 : typeclass_instances.
Local Notation sol := (asol D k sols).
Local Notation rfl := (arflag D k bl msk cb).
Local Notation fen := (afenv D k El).
Local Notation M := (S N).
Local Notation hst := (hsum_trunc_i D k N bl msk cb).
Local Notation Ef := (Efun El).

Hypothesis Hcheck : check_alg D k N bl msk cb El tb sols nonhermitian_alg = true.

Lemma nh_trunc_solution :
  @solution TT _ _ _ _ _ _ (teq M) (trunc_ops M) (BAt M hst) (SemExec.gflag tb) rfl fen sol nonhermitian_alg.
Proof.
  pose proof (check_alg_sound D k N bl msk cb El tb sols nonhermitian_alg Hcheck) as [Hs Hp].
  split.
  - apply Forall_forall. intros d Hd. specialize (Hs d Hd). apply (teq_eqN D k N bl msk cb) in Hs. exact Hs.
  - apply Forall_forall. intros p Hp'. specialize (Hp p Hp'). apply (teq_eqN D k N bl msk cb) in Hp. exact Hp.
Qed.

Lemma nsylv_P_t : Proper (teq M ==> teq M) (nsylv fen).
Proof.
  intros x y E. unfold teq in *. unfold nsylv. cbn [afenv].
  assert (Z : SylvInst.sylv Ef gq_inv0 x - SylvInst.sylv Ef gq_inv0 y == SylvInst.sylv (D := D) (k := k) Ef gq_inv0 (x - y)).
  { symmetry. apply AlgLemmas.am_sub. exact (SylvInst.sylv_am D k (Rg := gq_Ring) Ef gq_inv0). }
  rewrite Z. apply (SylvInst.sylv_ord (keep_sym := ksym) (keep_blk := kblk) (cm_blk := cblk) Ef gq_inv0). exact E.
Qed.
Lemma nsylv_ord_t : forall m y, tord M m y -> tord M m (nsylv fen y).
Proof.
  intros m y Hy. unfold tord in *. unfold nsylv. cbn [afenv].
  apply (SylvInst.sylv_ord (keep_sym := ksym) (keep_blk := kblk) (cm_blk := cblk) Ef gq_inv0). exact Hy.
Qed.

Theorem nh_tie_conclusions :
  eqN D k N (sol "U†" * sol "U") 1 /\
  eqN D k N (sol "U" * sol "U†") 1 /\
  eqN D k N (Sel (sol "U" - sol "U†")) 0.
Proof.
  refine (Logic.conj _ (Logic.conj _ _)); apply (teq_eqN D k N bl msk cb).
  - eapply (@nh_inverse_l TT _ _ _ _ _ _ (teq M) (trunc_ops M) (Rgt M) (BAt M hst)).
    exact nh_trunc_solution. all: first [exact nsylv_P_t | exact nsylv_ord_t].
  - eapply (@nh_inverse_r TT _ _ _ _ _ _ (teq M) (trunc_ops M) (Rgt M) (BAt M hst)).
    exact nh_trunc_solution. all: first [exact nsylv_P_t | exact nsylv_ord_t].
  - eapply (@nh_gauge TT _ _ _ _ _ _ (teq M) (trunc_ops M) (Rgt M) (BAt M hst)).
    exact nh_trunc_solution. all: first [exact nsylv_P_t | exact nsylv_ord_t].
Qed.
End TieNH.
