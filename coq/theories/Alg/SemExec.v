(** Executable reading of DSL/Sem.v on truncated series of Gaussian-rational block matrices
    (tables of Series/Exec.v), used by the correspondence check k_semeq: the values computed
    by the IMPLEMENTATION for every named series of the shipped algorithms are loaded as
    tables, and [check_alg] decides (by vm_compute) whether they satisfy every equation of the
    semantics of the generated program up to total order N.

    [tden] mirrors [Sem.den] constructor by constructor with the table operations [t*] of
    Series/Exec.v, each of which is proved there to denote the abstract operation of the
    [BlockAlg] instance up to order N ([t*_den] lemmas). *)
Require Import List ZArith QArith Arith Bool String.
From PV.Base Require Import Classes.
From PV.Series Require Import MultiIndex Cauchy Lift Inst ExecIdx Exec SylvInst.
From PV.Block Require Import Mat Masks CoefAlg BlockSel ExecScalar QLemmas QInst.
From PV.DSL Require Import Syntax.
Import ListNotations.
Open Scope string_scope.

(** block structure from tables *)
Definition mk_blk (bl : list nat) (p : nat) : nat := nth p bl 0%nat.
Definition mk_keep (bl : list nat) (m : list (list bool)) (p q : nat) : bool :=
  Nat.eqb (mk_blk bl p) (mk_blk bl q) && (nth2 false m p q && nth2 false m q p).
Definition mk_cm (bl : list nat) (cb : list bool) (p : nat) : bool := nth (mk_blk bl p) cb true.
Lemma mk_keep_sym bl m p q : mk_keep bl m p q = mk_keep bl m q p.
Proof. unfold mk_keep. rewrite Nat.eqb_sym. f_equal. apply andb_comm. Qed.
Lemma mk_keep_blk bl m p q : mk_keep bl m p q = true -> mk_blk bl p = mk_blk bl q.
Proof. unfold mk_keep. intros H. apply andb_prop in H. destruct H as [H _]. apply Nat.eqb_eq. exact H. Qed.
Lemma mk_cm_blk bl cb p q : mk_blk bl p = mk_blk bl q -> mk_cm bl cb p = mk_cm bl cb q.
Proof. unfold mk_cm. intros ->. reflexivity. Qed.

Definition gq_inv0 (x : gq) : gq :=
  let '(a, b) := x in
  let d := (a * a + b * b)%Q in
  if Qeq_bool d 0 then (0, 0)%Q else (a / d, - b / d)%Q.

Section Exec.
Variables D k N : nat.
Variable bl : list nat.
Variable msk : list (list bool).
Variable cb : list bool.
Variable El : list gq.                       (* unperturbed energies *)
Variable tb : bool.                          (* two_block_optimized *)
Variable sols : list (string * (tser gq)).

Let blk := mk_blk bl.
Let keep := mk_keep bl msk.
Let cm := mk_cm bl cb.
Let ksym := mk_keep_sym bl msk.
Let kblk := mk_keep_blk bl msk.
Let cblk := mk_cm_blk bl cb.
Definition Efun (p : nat) : gq := nth p El (0, 0)%Q.

Fixpoint lookup_s (n : string) (l : list (string * (tser gq))) : (tser gq) :=
  match l with
  | [] => []
  | (m, v) :: r => if String.eqb m n then v else lookup_s n r
  end.
Definition tsol (n : string) : (tser gq) := lookup_s n sols.

Definition xadd := tadd D k N (R0 := gq).
Definition xsub := tsub D k N (R0 := gq).
Definition xopp := topp D k N (R0 := gq).
Definition xmul := tmul D k N (R0 := gq).
Definition xadj := tadj D k blk keep cm ksym kblk cblk N (R0 := gq).
Definition xdivz := tdivz D k blk keep cm ksym kblk cblk N (R0 := gq).
Definition xDg := tDg D k blk keep cm ksym kblk cblk N (R0 := gq).
Definition xUp := tUp D k blk keep cm ksym kblk cblk N (R0 := gq).
Definition xLo := tLo D k blk keep cm ksym kblk cblk N (R0 := gq).
Definition xSel := tSel D k blk keep cm ksym kblk cblk N (R0 := gq).
Definition xRw := tRw D k blk keep cm ksym kblk cblk N (R0 := gq).
Definition xZc := tZc D k blk keep cm ksym kblk cblk N (R0 := gq).
Definition xhsum := thsum D k blk N (R0 := gq).
Definition xone := tone D k N (R0 := gq).
Definition xsylv (a : (tser gq)) : (tser gq) :=
  tab D k N (sylv (D := D) (k := k) Efun gq_inv0 (den D k a)).
Definition xRp a := xsub a (xSel a).
Definition xPos a := xsub a (xZc a).

Definition gflag (n : string) : bool := if String.eqb n "two_block_optimized" then tb else false.

Fixpoint supported (e : expr) : bool :=
  match e with
  | Lit _ | Adj _ | EZero => true
  | Neg a => supported a
  | Add a b | Sub a b => supported a && supported b
  | DivInt a z => supported a && negb (Z.eqb z 0)
  | Call f args =>
      match args with
      | [ArgExpr a] => String.eqb f "solve_sylvester" && supported a
      | _ => false
      end
  | IfFlag (FlagGlobal _) a b => supported a && supported b
  | IfFlag (FlagRow n) a b => String.eqb n "commuting_blocks" && supported a && supported b
  end.

Fixpoint tden (e : expr) : (tser gq) :=
  match e with
  | Lit s => tsol s
  | Adj s => xadj (tsol s)
  | EZero => []
  | Neg a => xopp (tden a)
  | Add a b => xadd (tden a) (tden b)
  | Sub a b => xsub (tden a) (tden b)
  | DivInt a z => xdivz (tden a) z
  | Call f args =>
      match args with
      | [ArgExpr a] => xsylv (tden a)
      | _ => []
      end
  | IfFlag (FlagGlobal n) a b => if gflag n then tden a else tden b
  | IfFlag (FlagRow n) a b => xadd (xRw (tden a)) (xsub (tden b) (xRw (tden b)))
  end.

Definition tline (c : cond) (e : expr) : (tser gq) :=
  match c with
  | Default => tden e
  | Diagonal => xSel (tden e)
  | Offdiagonal => xRp (tden e)
  end.
Fixpoint tlines (b : list line) : (tser gq) :=
  match b with
  | [] => []
  | Line c e :: r => xadd (tline c e) (tlines r)
  | Marker _ :: r => tlines r
  end.
Fixpoint lines_supported (b : list line) : bool :=
  match b with
  | [] => true
  | Line _ e :: r => supported e && lines_supported r
  | Marker _ :: r => lines_supported r
  end.
Fixpoint split_marker (b : list line) : list line * option (herm * list line) :=
  match b with
  | [] => ([], None)
  | Marker h :: r => ([], Some (h, r))
  | l :: r => let '(pre, m) := split_marker r in (l :: pre, m)
  end.
Definition tbody (s : string) (b : list line) : (tser gq) :=
  match split_marker b with
  | (pre, None) => tlines pre
  | (pre, Some (h, post)) =>
      let all := xadd (tlines pre) (tlines post) in
      xadd (xadd (xadd (xDg all) (xUp all)) (xLo (tlines pre)))
           (match h with Herm => xadj (xUp (tsol s)) | AntiHerm => xopp (xadj (xUp (tsol s))) end)
  end.
Definition twith_start (st : start) (rhs : (tser gq)) : (tser gq) :=
  match st with
  | NoStart | StartOther _ => rhs
  | StartZero => xPos rhs
  | StartOne => xadd xone (xsub rhs (xDg (xZc rhs)))
  | StartInput x => xadd (xZc (tsol x)) (xPos rhs)
  end.
Definition check_sdef (d : sdef) : bool :=
  lines_supported (sbody d)
  && teqb D k N (tsol (sname d)) (twith_start (sstart d) (tbody (sname d) (sbody d))).

Fixpoint tprod (fs : list string) (acc : (tser gq)) : (tser gq) :=
  match fs with
  | [] => acc
  | f :: r => tprod r (xmul acc (tsol f))
  end.
Definition tproduct (p : pdef) : (tser gq) :=
  match pfactors p with
  | [] => xone
  | f :: r =>
      let full := tprod r (tsol f) in
      if pherm p then
        match r with
        | [g] => xadd (xadd (xhsum (tsol f) (tsol g)) (xUp full)) (xadj (xUp full))
        | _ => xadd (xadd (xDg full) (xUp full)) (xadj (xUp full))
        end
      else full
  end.
Definition check_pdef (p : pdef) : bool := teqb D k N (tsol (pname p)) (tproduct p).

(* names of the definitions whose equation fails (empty = the implementation's values solve the system) *)
Definition failing (alg : algorithm) : list string :=
  map sname (filter (fun d => negb (check_sdef d)) (aseries alg))
  ++ map pname (filter (fun p => negb (check_pdef p)) (aproducts alg)).
Definition check_alg (alg : algorithm) : bool :=
  match failing alg with [] => true | _ => false end.

(* property-level executable checks on the loaded values (used for refuted witnesses) *)
Definition kept_ok : bool :=
  teqb D k N (xSel (xmul (xmul (tsol "U†") (tsol "H")) (tsol "U"))) (tsol "H_tilde").
Definition elim_ok : bool :=
  teqb D k N (xRp (xmul (xmul (tsol "U†") (tsol "H")) (tsol "U"))) [].
End Exec.
