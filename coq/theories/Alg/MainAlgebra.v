(** Correctness of the Hermitian recurrences in an arbitrary [BlockAlg], from the SYMMETRIC
    form of the defining equations (hypotheses hW ... hHt).  Alg/MainLift.v derives these
    hypotheses from the semantics of the generated term [main_alg]. *)
Require Import Ncring Ncring_tac Setoid Morphisms ZArith.
From PV.Base Require Import Classes AlgLemmas.
Set Implicit Arguments.

Section Main.
Context {T : Type} `{Rg : Ring T} {BA : BlockAlg T}.

Variables H0 Hs Hr : T.
Hypothesis H0_S : Sel H0 == H0.  Hypothesis Hs_S : Sel Hs == Hs.  Hypothesis Hr_S : Sel Hr == 0.
Hypothesis H0_h : adj H0 == H0. Hypothesis Hs_h : adj Hs == Hs. Hypothesis Hr_h : adj Hr == Hr.
Hypothesis S_adH0 : forall x, Sel (comm H0 x) == comm H0 (Sel x).
Variable sylv : T -> T.
Context {sylv_P : Proper (_==_ ==> _==_) sylv}.
Hypothesis sylv_spec : forall y, Rp (comm H0 (sylv y)) == Rp y.

Variables W V X B Yadj Ht : T.
Let U := W + V.  Let Ud := W - V.
Let A := Hr * U. Let UdB := Ud * B. Let VH := V * Hs.
Hypothesis oW : ord 1 W. Hypothesis oV : ord 1 V.
Hypothesis hWh : adj W == W. Hypothesis hVa : adj V == - V.
Hypothesis hW : W == - half (Ud * U).
Hypothesis hV : V == - Rp (sylv (Yadj - VH - adj VH)).
Hypothesis hX : X == B + Hr + A.
Hypothesis hB : B == Sel (- half (UdB - adj UdB + A + adj A)) + Sel (VH + adj VH) - Rp UdB.
Hypothesis hHt : Ht == H0 + Sel (Hs + half (A + adj A) - half (UdB + adj UdB) - Yadj).

Lemma oU : ord 1 U. Proof. apply ord_add; assumption. Qed.
Lemma oUd : ord 1 Ud. Proof. apply ord_sub; assumption. Qed.
Lemma contr : forall D, D == - half (Ud * D + D * U) -> D == 0.
Proof. intros D. apply contraction. apply oUd. apply oU. Qed.

Lemma Ud_adj : adj U == Ud.
Proof. unfold U, Ud. rewrite adj_add, hWh, hVa. non_commutative_ring. Qed.

(* G1: unitarity *)
Lemma unitary : (1 + Ud) * (1 + U) == 1.
Proof.
  assert (E : (1+Ud)*(1+U) == 1 + (W + W) + Ud*U) by (unfold U, Ud; non_commutative_ring).
  rewrite E. rewrite <- (half_dbl (Ud*U)).
  assert (E2: W + W == - half (Ud*U) + - half (Ud*U)) by (rewrite <- hW; reflexivity).
  rewrite E2. non_commutative_ring.
Qed.

(* ---- helper facts ---- *)
Lemma Rp_adH0 x : Rp (comm H0 x) == comm H0 (Rp x).
Proof. unfold Rp. rewrite S_adH0. unfold comm. non_commutative_ring. Qed.
Lemma adj_U : adj Ud == U.
Proof. rewrite <- Ud_adj. apply adj_inv. Qed.
Lemma adj_A : adj A == Ud * Hr.
Proof. unfold A. rewrite adj_mul, Hr_h, Ud_adj. reflexivity. Qed.
Lemma adj_UdB : adj UdB == adj B * U.
Proof. unfold UdB. rewrite adj_mul, adj_U. reflexivity. Qed.
Lemma adj_VH : adj VH == - (Hs * V).
Proof. unfold VH. rewrite adj_mul, Hs_h, hVa. non_commutative_ring. Qed.
Lemma VH_comm : VH + adj VH == comm V Hs.
Proof. rewrite adj_VH. unfold VH, comm. non_commutative_ring. Qed.

Let HS := H0 + Hs.
Lemma HS_h : adj HS == HS. Proof. unfold HS. rewrite adj_add, H0_h, Hs_h. reflexivity. Qed.

Lemma SV : Sel V == 0.
Proof. rewrite hV, Sel_opp, Sel_Rp. non_commutative_ring. Qed.

(* S-part of B and of Yadj *)
Let P := Sel UdB. Let Q := Sel A.
Lemma SB : Sel B == - half (P - adj P + Q + adj Q) + Sel (VH + adj VH).
Proof.
  rewrite hB at 1. rewrite Sel_sub, Sel_add, !Sel_idem, Sel_Rp, Sel_opp, Sel_half.
  rewrite !Sel_add, Sel_sub, !Sel_adj. fold P Q. non_commutative_ring.
Qed.
Lemma RB : Rp B == - Rp UdB.
Proof.
  rewrite hB at 1. rewrite Rp_sub, Rp_add, !Rp_Sel, Rp_Rp. non_commutative_ring.
Qed.
Lemma herm_VH : adj (VH + adj VH) == VH + adj VH.
Proof. rewrite adj_add, adj_inv. non_commutative_ring. Qed.

Lemma SX : Sel X == Sel B + Q.
Proof. rewrite hX at 1. rewrite !Sel_add, Hr_S. fold Q. non_commutative_ring. Qed.

Lemma SXherm : Sel (half (adj X + X)) == Sel (VH + adj VH).
Proof.
  rewrite Sel_half, Sel_add, Sel_adj, SX, SB.
  rewrite !adj_add, adj_opp, half_adj, !adj_add, adj_sub, !adj_inv.
  rewrite <- Sel_adj, herm_VH.
  set (K := Sel (VH + adj VH)).
  assert (E: - half (adj P - P + adj Q + Q) + K + adj Q + (- half (P - adj P + Q + adj Q) + K + Q)
             == (K + K) + (Q + adj Q) - (half (adj P - P + adj Q + Q) + half (P - adj P + Q + adj Q)))
    by non_commutative_ring.
  rewrite E. rewrite <- half_add.
  assert (E2: adj P - P + adj Q + Q + (P - adj P + Q + adj Q) == (Q + adj Q) + (Q + adj Q)) by non_commutative_ring.
  rewrite E2, half_twice.
  assert (E3: K + K + (Q + adj Q) - (Q + adj Q) == K + K) by non_commutative_ring.
  rewrite E3. apply half_twice.
Qed.
(* first of the two facts about Yadj that depend on the wiring (general / two-block) *)
Hypothesis hSY : Sel Yadj == Sel (VH + adj VH).
Lemma SYadj : Sel Yadj == Sel (VH + adj VH).
Proof. exact hSY. Qed.

(* Step 1: hermitian part *)
Lemma commVH0 : comm V H0 == Rp Yadj - Rp (comm V Hs).
Proof.
  assert (E: comm V H0 == - comm H0 V) by (unfold comm; non_commutative_ring).
  rewrite E. rewrite hV at 1.
  assert (E1: comm H0 (- Rp (sylv (Yadj - VH - adj VH))) == - comm H0 (Rp (sylv (Yadj - VH - adj VH))))
    by (unfold comm; non_commutative_ring).
  rewrite E1, <- Rp_adH0, sylv_spec.
  assert (E2: Yadj - VH - adj VH == Yadj - (VH + adj VH)) by non_commutative_ring.
  rewrite E2, VH_comm. unfold Rp. rewrite !Sel_sub. non_commutative_ring.
Qed.
Lemma Y_is_comm : comm V HS == Yadj.
Proof.
  assert (E: comm V HS == comm V H0 + comm V Hs) by (unfold comm, HS; non_commutative_ring).
  rewrite E, commVH0. rewrite (split_SR Yadj) at 2. rewrite SYadj, VH_comm.
  unfold Rp. non_commutative_ring.
Qed.

(* Step 2: antihermitian part and contraction *)
Lemma BmadjB : B - adj B == - (UdB - adj UdB).
Proof.
  rewrite (split_SR B) at 1. rewrite (split_SR (adj B)).
  rewrite Sel_adj, Rp_adj, SB, RB.
  rewrite !adj_add, !adj_opp, half_adj, !adj_add, adj_sub, !adj_inv, <- Sel_adj, herm_VH, <- Rp_adj.
  set (K := Sel (VH + adj VH)).
  assert (E : - half (P - adj P + Q + adj Q) + K + - Rp UdB - (- half (adj P - P + adj Q + Q) + K + - Rp (adj UdB))
          == (half (adj P - P + adj Q + Q) - half (P - adj P + Q + adj Q)) - (Rp UdB - Rp (adj UdB))) by non_commutative_ring.
  rewrite E, <- half_sub.
  assert (E2: adj P - P + adj Q + Q - (P - adj P + Q + adj Q) == (adj P - P) + (adj P - P)) by non_commutative_ring.
  rewrite E2, half_twice. unfold P. rewrite <- Sel_adj. unfold Rp. non_commutative_ring.
Qed.

Let Xh := comm U HS.
Lemma adj_Xh : adj Xh == - comm Ud HS.
Proof. unfold Xh, comm. rewrite adj_sub, !adj_mul, HS_h, Ud_adj. non_commutative_ring. Qed.

Lemma twoZ : X - adj X == - (Ud * X) + adj X * U.
Proof.
  rewrite hX. rewrite !adj_add, Hr_h.
  assert (E: B + Hr + A - (adj B + Hr + adj A) == (B - adj B) + (A - adj A)) by non_commutative_ring.
  rewrite E, BmadjB, adj_UdB, adj_A. unfold UdB, A. non_commutative_ring.
Qed.
Lemma unit' : Ud + U + Ud * U == 0.
Proof.
  assert (E: Ud + U + Ud*U == (1+Ud)*(1+U) - 1) by non_commutative_ring.
  rewrite E, unitary. non_commutative_ring.
Qed.
Lemma twoZh : comm (W+W) HS == - (Ud * Xh) + adj Xh * U.
Proof.
  assert (E: W + W == - (Ud * U)).
  { assert (E0: W + W == Ud + U) by (unfold U, Ud; non_commutative_ring).
    rewrite E0. assert (E1: Ud + U == (Ud + U + Ud*U) - Ud*U) by non_commutative_ring.
    rewrite E1, unit'. non_commutative_ring. }
  rewrite E, adj_Xh. unfold Xh, comm. non_commutative_ring.
Qed.
(* second fact: the claim X = [U', H_0 + H'_S], proved per wiring *)
Hypothesis hXc : X == comm U HS.

(* Step 3: similarity *)
Let Htot := (1 + Ud) * (HS + Hr) * (1 + U).
Lemma Htot_eq : Htot == HS - B - UdB.
Proof.
  assert (E: Htot == HS + (Ud + U + Ud*U) * HS - comm U HS - Ud * comm U HS + (1+Ud)*Hr*(1+U))
    by (unfold Htot, comm; non_commutative_ring).
  rewrite E, unit', <- hXc. rewrite hX at 1 2.
  assert (E2: (1 + Ud) * Hr * (1 + U) == Hr + A + Ud*Hr + Ud * A) by (unfold A; non_commutative_ring).
  rewrite E2. unfold UdB, A. non_commutative_ring.
Qed.
Theorem eliminated_c : Rp Htot == 0.
Proof.
  rewrite Htot_eq. unfold Rp at 1. rewrite !Sel_sub. 
  assert (E: HS - B - UdB - (Sel HS - Sel B - Sel UdB) == (HS - Sel HS) - Rp B - Rp UdB) by (unfold Rp; non_commutative_ring).
  rewrite E, RB. unfold HS. rewrite Sel_add, H0_S, Hs_S. non_commutative_ring.
Qed.
Theorem kept_c : Sel Htot == Ht.
Proof.
  rewrite Htot_eq, hHt, !Sel_sub, SB. unfold HS. rewrite !Sel_add, H0_S, Hs_S.
  rewrite ?Sel_sub, ?Sel_half, ?Sel_add, ?Sel_adj, SYadj, ?Hs_S. fold P Q.
  set (K := Sel (VH + adj VH)).
  rewrite ?half_add, ?half_sub.
  assert (EK : K == Sel VH + adj (Sel VH)) by (unfold K; rewrite Sel_add, Sel_adj; reflexivity).
  rewrite EK. rewrite <- (half_dbl P) at 3. non_commutative_ring.
Qed.

(* U U† = 1 as well: [W,V] = 0 by contraction *)
Lemma WV_comm : comm W V == 0.
Proof.
  apply contr.
  assert (E2 : W + W == - (Ud * U)).
  { rewrite hW at 1 2.
    assert (E : - half (Ud * U) + - half (Ud * U) == - (half (Ud * U) + half (Ud * U))) by non_commutative_ring.
    rewrite E, half_dbl. reflexivity. }
  assert (E3 : comm W V + comm W V == comm (W + W) V) by (unfold comm; non_commutative_ring).
  apply dbl_inj. rewrite E3, E2.
  assert (E4 : - half (Ud * comm W V + comm W V * U) + - half (Ud * comm W V + comm W V * U)
               == - (half (Ud * comm W V + comm W V * U) + half (Ud * comm W V + comm W V * U))) by non_commutative_ring.
  rewrite E4, half_dbl. unfold comm, Ud, U. non_commutative_ring.
Qed.
Theorem unitary_r_c : (1 + U) * (1 + Ud) == 1.
Proof.
  assert (E : (1 + U) * (1 + Ud) == (1 + Ud) * (1 + U) - (comm W V + comm W V)) by (unfold comm, U, Ud; non_commutative_ring).
  rewrite E, unitary, WV_comm. non_commutative_ring.
Qed.
Theorem gauge_c : Sel V == 0.
Proof. exact SV. Qed.
Theorem Htot_herm_c : adj Htot == Htot.
Proof.
  unfold Htot. rewrite !adj_mul, !adj_add, adj_one, Ud_adj, adj_U, HS_h, Hr_h. non_commutative_ring.
Qed.
Theorem Ht_herm_c : adj Ht == Ht.
Proof. rewrite <- kept_c, <- Sel_adj, Htot_herm_c. reflexivity. Qed.
End Main.

(** General wiring: Yadj is the Hermitian part of X. *)
Section GeneralY.
Context {T : Type} `{Rg : Ring T} {BA : BlockAlg T}.
Variables H0 Hs Hr : T.
Hypothesis H0_S : Sel H0 == H0.  Hypothesis Hs_S : Sel Hs == Hs.  Hypothesis Hr_S : Sel Hr == 0.
Hypothesis H0_h : adj H0 == H0. Hypothesis Hs_h : adj Hs == Hs. Hypothesis Hr_h : adj Hr == Hr.
Hypothesis S_adH0 : forall x, Sel (comm H0 x) == comm H0 (Sel x).
Variable sylv : T -> T.
Context {sylv_P : Proper (_==_ ==> _==_) sylv}.
Hypothesis sylv_spec : forall y, Rp (comm H0 (sylv y)) == Rp y.
Variables W V X B Yadj Ht : T.
Let U := W + V.  Let Ud := W - V.
Let A := Hr * U. Let UdB := Ud * B. Let VH := V * Hs.
Hypothesis oW : ord 1 W. Hypothesis oV : ord 1 V.
Hypothesis hWh : adj W == W. Hypothesis hVa : adj V == - V.
Hypothesis hW : W == - half (Ud * U).
Hypothesis hYadj : Yadj == half (adj X + X).
Hypothesis hV : V == - Rp (sylv (Yadj - VH - adj VH)).
Hypothesis hX : X == B + Hr + A.
Hypothesis hB : B == Sel (- half (UdB - adj UdB + A + adj A)) + Sel (VH + adj VH) - Rp UdB.
Hypothesis hHt : Ht == H0 + Sel (Hs + half (A + adj A) - half (UdB + adj UdB) - Yadj).
Let HS := H0 + Hs.

Lemma gen_hSY : Sel Yadj == Sel (VH + adj VH).
Proof. rewrite hYadj. eapply SXherm; [exact Hr_S | exact hX | exact hB]. Qed.

Ltac gfacts := first [exact H0_S | exact Hs_S | exact Hr_S | exact H0_h | exact Hs_h | exact Hr_h | exact S_adH0
  | exact sylv_spec | exact oW | exact oV | exact hWh | exact hVa | exact hW | exact hV | exact hX | exact hB
  | exact gen_hSY | exact sylv_P ].

Let Xh := comm U HS.
Let D := X - Xh.
Lemma g_Y_is_comm : comm V HS == Yadj. Proof. eapply Y_is_comm. all: try gfacts. Qed.
Lemma g_twoZ : X - adj X == - (Ud * X) + adj X * U. Proof. eapply twoZ with (Hs:=Hs) (Hr:=Hr) (B:=B). all: try gfacts. Qed.
Lemma g_twoZh : comm (W + W) HS == - (Ud * Xh) + adj Xh * U. Proof. eapply twoZh. all: try gfacts. Qed.
Lemma g_HS_h : adj HS == HS. Proof. unfold HS. rewrite adj_add, H0_h, Hs_h. reflexivity. Qed.
Lemma X_split : X + X == (adj X + X) + (X - adj X). Proof. non_commutative_ring. Qed.
Lemma DD : D + D == (X - adj X) - comm (W + W) HS.
Proof.
  unfold D. assert (E0: Xh + Xh == comm (W+W) HS + (Yadj + Yadj)).
  { rewrite <- g_Y_is_comm. unfold Xh, comm, U. non_commutative_ring. }
  assert (E1: X - Xh + (X - Xh) == (X + X) - (Xh + Xh)) by non_commutative_ring.
  rewrite E1, E0, X_split. rewrite hYadj at 1 2. rewrite half_dbl. non_commutative_ring.
Qed.
Lemma D_anti : adj D == - D.
Proof.
  assert (Ea: adj (D + D) == - (D + D)).
  { rewrite DD, adj_sub, adj_sub, adj_inv.
    assert (Ec: adj (comm (W+W) HS) == - comm (W+W) HS).
    { unfold comm. rewrite adj_sub, !adj_mul, g_HS_h, adj_add, hWh. non_commutative_ring. }
    rewrite Ec. non_commutative_ring. }
  rewrite <- (half_twice D) at 1. rewrite half_adj, Ea, half_opp, half_twice. reflexivity.
Qed.
Theorem X_is_commutator : X == comm U HS.
Proof.
  assert (E: D + D == - (Ud * D) + adj D * U).
  { rewrite DD, g_twoZ, g_twoZh. unfold D. rewrite adj_sub. non_commutative_ring. }
  assert (D0: D == 0).
  { assert (o1 : ord 1 Ud) by (apply ord_sub; assumption).
    assert (o2 : ord 1 U) by (apply ord_add; assumption).
    assert (Eq : D == - half (Ud * D + D * U)).
    { rewrite D_anti in E.
      rewrite <- (half_twice D) at 1. rewrite E.
      assert (E2: - (Ud * D) + - D * U == - (Ud * D + D * U)) by non_commutative_ring.
      rewrite E2, half_opp. reflexivity. }
    exact (contraction _ _ _ o1 o2 Eq). }
  assert (E3: X == D + Xh) by (unfold D; non_commutative_ring).
  rewrite E3, D0. fold Xh. non_commutative_ring.
Qed.

Ltac gfacts2 := first [exact X_is_commutator | exact hHt | gfacts].
Theorem eliminated : Rp ((1 + Ud) * (HS + Hr) * (1 + U)) == 0.
Proof. eapply eliminated_c. all: try gfacts2. Qed.
Theorem kept : Sel ((1 + Ud) * (HS + Hr) * (1 + U)) == Ht.
Proof. eapply kept_c. all: try gfacts2. Qed.
Theorem unitary_r : (1 + U) * (1 + Ud) == 1.
Proof. eapply unitary_r_c. all: try gfacts2. Qed.
Theorem Ht_herm : adj Ht == Ht.
Proof. rewrite <- kept, <- Sel_adj. apply am_P. eapply Htot_herm_c. all: try gfacts2. Qed.
End GeneralY.
