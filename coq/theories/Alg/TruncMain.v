(** The correctness theorems of the Hermitian algorithm "up to order M - 1": for a valuation that
    satisfies the equations of [main_alg] only modulo [ord M] (a solution in the truncated algebra
    of Alg/Trunc.v), the conclusions hold modulo [ord M].  This is what connects the correspondence
    check k_semeq (equations checked up to order N on the implementation's values) to the theorems. *)
Require Import Ncring Ncring_tac Setoid Morphisms ZArith String List.
From PV.Base Require Import Classes AlgLemmas.
From PV.DSL Require Import Syntax Sem.
From PV.Gen Require Import Algorithms_gen.
From PV.Alg Require Import MainLift MainCorrect Trunc.
Open Scope string_scope.

Section TruncMain.
Context {T : Type} {r0 r1 : T} {add mul sub : T -> T -> T} {opp : T -> T} {req : T -> T -> Prop}
        {Ro : @Ring_ops T r0 r1 add mul sub opp req} {Rg : @Ring T r0 r1 add mul sub opp req Ro}
        {BA : BlockAlg T}.
Variable M : nat.
Hypothesis hsum_trunc : forall a a' b b', teq M a a' -> teq M b b' -> teq M (hsum a b) (hsum a' b').

Definition BAt : @BlockAlg T r0 r1 add mul sub opp (teq M) (trunc_ops M) := trunc_BlockAlg M hsum_trunc.
Definition Rgt : @Ring T r0 r1 add mul sub opp (teq M) (trunc_ops M) := trunc_ring M.

Variable rflag : string -> T -> T.
Variable fenv : string -> list T -> T.
Variable H : T.
Hypothesis Hw : wiring rflag fenv H.
Hypothesis sylv_sub : forall x y, sylv fenv (x - y) == sylv fenv x - sylv fenv y.

Lemma trunc_wiring : @wiring T r0 r1 add mul sub opp (teq M) (trunc_ops M) BAt rflag fenv H.
Proof.
  destruct Hw as [a b c d e f g h i j].
  refine (@Build_wiring T r0 r1 add mul sub opp (teq M) (trunc_ops M) BAt rflag fenv H _ _ _ _ _ _ _ _ _ _).
  - apply lift_teq. exact a.
  - intros x. apply lift_teq. apply b.
  - intros x y. apply lift_teq. apply c.
  - intros x y. apply lift_teq. apply d.
  - intros x y E. change (teq M x y) in E. change (teq M (sylv fenv x) (sylv fenv y)).
    unfold teq in *. rewrite <- sylv_sub. apply f. exact E.
  - intros k y Hy. change (ord (Nat.min k M) y) in Hy. change (ord (Nat.min k M) (sylv fenv y)). apply f. exact Hy.
  - intros y. apply lift_teq. apply g.
  - apply lift_teq. exact h.
  - intros x. apply lift_teq. apply i.
  - intros y. apply lift_teq. apply j.
Qed.

(** Variant: the facts about H itself are only known modulo [ord M] (as established by the
    executable checks on the loaded table), everything else exactly. *)
Section FromH0.
Variable H' H0 : T.
Hypothesis f_rflag : forall x, rflag "commuting_blocks" x == Rw x.
Hypothesis f_comm_l : forall x y, Rw (Sel (Rp x * Sel y)) == 0.
Hypothesis f_comm_r : forall x y, Rw (Sel (Sel y * Rp x)) == 0.
Hypothesis f_sylv_ord : forall k y, ord k y -> ord k (sylv fenv y).
Hypothesis f_sylv_adj : forall y, sylv fenv (adj y) == - adj (sylv fenv y).
Hypothesis f_H0_kept : Sel H0 == H0.
Hypothesis f_Sel_adH0 : forall x, Sel (comm H0 x) == comm H0 (Sel x).
Hypothesis f_sylv_spec : forall y, Rp (comm H0 (sylv fenv y)) == Rp y.
Hypothesis t_herm : teq M (adj H') H'.
Hypothesis t_zero : teq M (Zc H') H0.

Let tE := @teq_equiv T r0 r1 add mul sub opp req Ro Rg BA M.
Lemma teq_trans x y z : teq M x y -> teq M y z -> teq M x z.
Proof. destruct tE as [_ _ Tr]. apply Tr. Qed.
Lemma teq_sym x y : teq M x y -> teq M y x.
Proof. destruct tE as [_ Sy _]. apply Sy. Qed.
Lemma teq_comm a a' x x' : teq M a a' -> teq M x x' -> teq M (comm a x) (comm a' x').
Proof. intros Ha Hx. unfold comm. apply t_sub_P; apply t_mul_P; assumption. Qed.
Lemma teq_Sel x y : teq M x y -> teq M (Sel x) (Sel y).
Proof. intros E. apply (t_am_P M (f := Sel)); [intros k z; apply ord_Sel | exact E]. Qed.
Lemma teq_Rp x y : teq M x y -> teq M (Rp x) (Rp y).
Proof. intros E. unfold Rp. apply t_sub_P. exact E. apply teq_Sel. exact E. Qed.
Lemma teq_refl x : teq M x x. Proof. apply lift_teq. reflexivity. Qed.

Lemma trunc_wiring_H0 : @wiring T r0 r1 add mul sub opp (teq M) (trunc_ops M) BAt rflag fenv H'.
Proof.
  refine (@Build_wiring T r0 r1 add mul sub opp (teq M) (trunc_ops M) BAt rflag fenv H' _ _ _ _ _ _ _ _ _ _).
  - exact t_herm.
  - intros x. apply lift_teq. apply f_rflag.
  - intros x y. apply lift_teq. apply f_comm_l.
  - intros x y. apply lift_teq. apply f_comm_r.
  - intros x y E. change (teq M x y) in E. change (teq M (sylv fenv x) (sylv fenv y)).
    unfold teq in *. rewrite <- sylv_sub. apply f_sylv_ord. exact E.
  - intros k y Hy. change (ord (Nat.min k M) y) in Hy. change (ord (Nat.min k M) (sylv fenv y)). apply f_sylv_ord. exact Hy.
  - intros y. apply lift_teq. apply f_sylv_adj.
  - change (teq M (Sel (Zc H')) (Zc H')).
    eapply teq_trans. apply teq_Sel. exact t_zero.
    eapply teq_trans. apply lift_teq. exact f_H0_kept. apply teq_sym. exact t_zero.
  - intros x. change (teq M (Sel (comm (Zc H') x)) (comm (Zc H') (Sel x))).
    eapply teq_trans. apply teq_Sel. apply teq_comm. exact t_zero. apply teq_refl.
    eapply teq_trans. apply lift_teq. apply f_Sel_adH0.
    apply teq_comm. apply teq_sym. exact t_zero. apply teq_refl.
  - intros y. change (teq M (Rp (comm (Zc H') (sylv fenv y))) (Rp y)).
    eapply teq_trans. apply teq_Rp. apply teq_comm. exact t_zero. apply teq_refl.
    apply lift_teq. apply f_sylv_spec.
Qed.
End FromH0.

Variable sol : string -> T.
Hypothesis HH : sol "H" == H.
Hypothesis Hsol : @solution T r0 r1 add mul sub opp (teq M) (trunc_ops M) BAt (gflag_of false) rflag fenv sol main_alg.

Lemma trunc_wiring_sol : @wiring T r0 r1 add mul sub opp (teq M) (trunc_ops M) BAt rflag fenv (sol "H").
Proof.
  assert (W : wiring rflag fenv (sol "H")).
  { destruct Hw as [a b c d e f g h i j]. constructor; try assumption.
    - rewrite HH. exact a.
    - rewrite HH. exact h.
    - intros x. rewrite HH. apply i.
    - intros y. rewrite HH. apply j. }
  clear Hw. revert W. intros W.
  destruct W as [a b c d e f g h i j].
  refine (@Build_wiring T r0 r1 add mul sub opp (teq M) (trunc_ops M) BAt rflag fenv (sol "H") _ _ _ _ _ _ _ _ _ _).
  - apply lift_teq. exact a.
  - intros x. apply lift_teq. apply b.
  - intros x y. apply lift_teq. apply c.
  - intros x y. apply lift_teq. apply d.
  - intros x y E. change (teq M x y) in E. change (teq M (sylv fenv x) (sylv fenv y)).
    unfold teq in *. rewrite <- sylv_sub. apply f. exact E.
  - intros k y Hy. change (ord (Nat.min k M) y) in Hy. change (ord (Nat.min k M) (sylv fenv y)). apply f. exact Hy.
  - intros y. apply lift_teq. apply g.
  - apply lift_teq. exact h.
  - intros x. apply lift_teq. apply i.
  - intros y. apply lift_teq. apply j.
Qed.

Theorem kept_upto : teq M (Sel (sol "U†" * sol "H" * sol "U")) (sol "H_tilde").
Proof. exact (@kept_general T r0 r1 add mul sub opp (teq M) (trunc_ops M) Rgt BAt rflag fenv sol Hsol trunc_wiring_sol). Qed.
Theorem eliminated_upto : teq M (Rp (sol "U†" * sol "H" * sol "U")) 0.
Proof. exact (@eliminated_general T r0 r1 add mul sub opp (teq M) (trunc_ops M) Rgt BAt rflag fenv sol Hsol trunc_wiring_sol). Qed.
Theorem unitary_l_upto : teq M (sol "U†" * sol "U") 1.
Proof. exact (@unitary_l_general T r0 r1 add mul sub opp (teq M) (trunc_ops M) Rgt BAt rflag fenv sol Hsol trunc_wiring_sol). Qed.
Theorem unitary_r_upto : teq M (sol "U" * sol "U†") 1.
Proof. exact (@unitary_r_general T r0 r1 add mul sub opp (teq M) (trunc_ops M) Rgt BAt rflag fenv sol Hsol trunc_wiring_sol). Qed.
Theorem adjoint_upto : teq M (adj (sol "U")) (sol "U†").
Proof. exact (@adjoint_general T r0 r1 add mul sub opp (teq M) (trunc_ops M) Rgt BAt rflag fenv sol Hsol trunc_wiring_sol). Qed.
Theorem Ht_herm_upto : teq M (adj (sol "H_tilde")) (sol "H_tilde").
Proof. exact (@Ht_herm_general T r0 r1 add mul sub opp (teq M) (trunc_ops M) Rgt BAt rflag fenv sol Hsol trunc_wiring_sol). Qed.
Theorem gauge_upto : teq M (Sel (half ((sol "U" - 1) - adj (sol "U" - 1)))) 0.
Proof. exact (@gauge_general T r0 r1 add mul sub opp (teq M) (trunc_ops M) Rgt BAt rflag fenv sol Hsol trunc_wiring_sol). Qed.
End TruncMain.

Section TruncMain0.
Context {T : Type} {r0 r1 : T} {add mul sub : T -> T -> T} {opp : T -> T} {req : T -> T -> Prop}
        {Ro : @Ring_ops T r0 r1 add mul sub opp req} {Rg : @Ring T r0 r1 add mul sub opp req Ro}
        {BA : BlockAlg T}.
Variable M : nat.
Hypothesis hsum_trunc : forall a a' b b', teq M a a' -> teq M b b' -> teq M (hsum a b) (hsum a' b').
Variable rflag : string -> T -> T.
Variable fenv : string -> list T -> T.
Variable H0 : T.
Variable sol : string -> T.
Hypothesis sylv_sub : forall x y, sylv fenv (x - y) == sylv fenv x - sylv fenv y.
Hypothesis f_rflag : forall x, rflag "commuting_blocks" x == Rw x.
Hypothesis f_comm_l : forall x y, Rw (Sel (Rp x * Sel y)) == 0.
Hypothesis f_comm_r : forall x y, Rw (Sel (Sel y * Rp x)) == 0.
Hypothesis f_sylv_ord : forall k y, ord k y -> ord k (sylv fenv y).
Hypothesis f_sylv_adj : forall y, sylv fenv (adj y) == - adj (sylv fenv y).
Hypothesis f_H0_kept : Sel H0 == H0.
Hypothesis f_Sel_adH0 : forall x, Sel (comm H0 x) == comm H0 (Sel x).
Hypothesis f_sylv_spec : forall y, Rp (comm H0 (sylv fenv y)) == Rp y.
Hypothesis t_herm : teq M (adj (sol "H")) (sol "H").
Hypothesis t_zero : teq M (Zc (sol "H")) H0.
Hypothesis Hsol : @solution T r0 r1 add mul sub opp (teq M) (trunc_ops M) (BAt M hsum_trunc) (gflag_of false) rflag fenv sol main_alg.

Let W := trunc_wiring_H0 M hsum_trunc rflag fenv sylv_sub (sol "H") H0 f_rflag f_comm_l f_comm_r f_sylv_ord f_sylv_adj
           f_H0_kept f_Sel_adH0 f_sylv_spec t_herm t_zero.

Theorem kept_upto0 : teq M (Sel (sol "U†" * sol "H" * sol "U")) (sol "H_tilde").
Proof. exact (@kept_general T r0 r1 add mul sub opp (teq M) (trunc_ops M) (Rgt M) (BAt M hsum_trunc) rflag fenv sol Hsol W). Qed.
Theorem eliminated_upto0 : teq M (Rp (sol "U†" * sol "H" * sol "U")) 0.
Proof. exact (@eliminated_general T r0 r1 add mul sub opp (teq M) (trunc_ops M) (Rgt M) (BAt M hsum_trunc) rflag fenv sol Hsol W). Qed.
Theorem unitary_l_upto0 : teq M (sol "U†" * sol "U") 1.
Proof. exact (@unitary_l_general T r0 r1 add mul sub opp (teq M) (trunc_ops M) (Rgt M) (BAt M hsum_trunc) rflag fenv sol Hsol W). Qed.
Theorem unitary_r_upto0 : teq M (sol "U" * sol "U†") 1.
Proof. exact (@unitary_r_general T r0 r1 add mul sub opp (teq M) (trunc_ops M) (Rgt M) (BAt M hsum_trunc) rflag fenv sol Hsol W). Qed.
Theorem adjoint_upto0 : teq M (adj (sol "U")) (sol "U†").
Proof. exact (@adjoint_general T r0 r1 add mul sub opp (teq M) (trunc_ops M) (Rgt M) (BAt M hsum_trunc) rflag fenv sol Hsol W). Qed.
Theorem Ht_herm_upto0 : teq M (adj (sol "H_tilde")) (sol "H_tilde").
Proof. exact (@Ht_herm_general T r0 r1 add mul sub opp (teq M) (trunc_ops M) (Rgt M) (BAt M hsum_trunc) rflag fenv sol Hsol W). Qed.
Theorem gauge_upto0 : teq M (Sel (half ((sol "U" - 1) - adj (sol "U" - 1)))) 0.
Proof. exact (@gauge_general T r0 r1 add mul sub opp (teq M) (trunc_ops M) (Rgt M) (BAt M hsum_trunc) rflag fenv sol Hsol W). Qed.
End TruncMain0.

(** Two-block optimisation: the same, with the parity laws of [wiring_tb] (exact) added. *)
Section TruncMainTB0.
Context {T : Type} {r0 r1 : T} {add mul sub : T -> T -> T} {opp : T -> T} {req : T -> T -> Prop}
        {Ro : @Ring_ops T r0 r1 add mul sub opp req} {Rg : @Ring T r0 r1 add mul sub opp req Ro}
        {BA : BlockAlg T}.
Variable M : nat.
Hypothesis hsum_trunc : forall a a' b b', teq M a a' -> teq M b b' -> teq M (hsum a b) (hsum a' b').
Variable rflag : string -> T -> T.
Variable fenv : string -> list T -> T.
Variable H0 : T.
Variable sol : string -> T.
Hypothesis sylv_sub : forall x y, sylv fenv (x - y) == sylv fenv x - sylv fenv y.
Hypothesis f_rflag : forall x, rflag "commuting_blocks" x == Rw x.
Hypothesis f_comm_l : forall x y, Rw (Sel (Rp x * Sel y)) == 0.
Hypothesis f_comm_r : forall x y, Rw (Sel (Sel y * Rp x)) == 0.
Hypothesis f_sylv_ord : forall k y, ord k y -> ord k (sylv fenv y).
Hypothesis f_sylv_adj : forall y, sylv fenv (adj y) == - adj (sylv fenv y).
Hypothesis f_H0_kept : Sel H0 == H0.
Hypothesis f_Sel_adH0 : forall x, Sel (comm H0 x) == comm H0 (Sel x).
Hypothesis f_sylv_spec : forall y, Rp (comm H0 (sylv fenv y)) == Rp y.
Hypothesis t_herm : teq M (adj (sol "H")) (sol "H").
Hypothesis t_zero : teq M (Zc (sol "H")) H0.
Hypothesis b_Sel_Dg : forall x, Sel x == Dg x.
Hypothesis b_Rw_Dg : forall x, Rw (Dg x) == Dg x.
Hypothesis b_odd_odd : forall x y, Dg (Od x * Od y) == Od x * Od y.
Hypothesis b_up_dg_up : forall x y, Up (Dg x * Up y) == Dg x * Up y.
Hypothesis b_up_up_dg : forall x y, Up (Up x * Dg y) == Up x * Dg y.
Hypothesis b_lo_dg_lo : forall x y, Lo (Dg x * Lo y) == Dg x * Lo y.
Hypothesis b_lo_lo_dg : forall x y, Lo (Lo x * Dg y) == Lo x * Dg y.
Hypothesis Hsol : @solution T r0 r1 add mul sub opp (teq M) (trunc_ops M) (BAt M hsum_trunc) (gflag_of true) rflag fenv sol main_alg.

Let W := trunc_wiring_H0 M hsum_trunc rflag fenv sylv_sub (sol "H") H0 f_rflag f_comm_l f_comm_r f_sylv_ord f_sylv_adj
           f_H0_kept f_Sel_adH0 f_sylv_spec t_herm t_zero.
Lemma Wtb : @wiring_tb T r0 r1 add mul sub opp (teq M) (trunc_ops M) (BAt M hsum_trunc) rflag fenv (sol "H").
Proof.
  refine (@Build_wiring_tb T r0 r1 add mul sub opp (teq M) (trunc_ops M) (BAt M hsum_trunc) rflag fenv (sol "H") W _ _ _ _ _ _ _).
  - intros x. apply lift_teq. apply b_Sel_Dg.
  - intros x. apply lift_teq. apply b_Rw_Dg.
  - intros x y. apply lift_teq. apply b_odd_odd.
  - intros x y. apply lift_teq. apply b_up_dg_up.
  - intros x y. apply lift_teq. apply b_up_up_dg.
  - intros x y. apply lift_teq. apply b_lo_dg_lo.
  - intros x y. apply lift_teq. apply b_lo_lo_dg.
Qed.

Theorem kept_tb_upto0 : teq M (Sel (sol "U†" * sol "H" * sol "U")) (sol "H_tilde").
Proof. exact (@kept_tb T r0 r1 add mul sub opp (teq M) (trunc_ops M) (Rgt M) (BAt M hsum_trunc) rflag fenv sol Hsol Wtb). Qed.
Theorem eliminated_tb_upto0 : teq M (Rp (sol "U†" * sol "H" * sol "U")) 0.
Proof. exact (@eliminated_tb T r0 r1 add mul sub opp (teq M) (trunc_ops M) (Rgt M) (BAt M hsum_trunc) rflag fenv sol Hsol Wtb). Qed.
Theorem unitary_l_tb_upto0 : teq M (sol "U†" * sol "U") 1.
Proof. exact (@unitary_l_tb T r0 r1 add mul sub opp (teq M) (trunc_ops M) (Rgt M) (BAt M hsum_trunc) rflag fenv sol Hsol Wtb). Qed.
Theorem unitary_r_tb_upto0 : teq M (sol "U" * sol "U†") 1.
Proof. exact (@unitary_r_tb T r0 r1 add mul sub opp (teq M) (trunc_ops M) (Rgt M) (BAt M hsum_trunc) rflag fenv sol Hsol Wtb). Qed.
Theorem adjoint_tb_upto0 : teq M (adj (sol "U")) (sol "U†").
Proof. exact (@adjoint_tb T r0 r1 add mul sub opp (teq M) (trunc_ops M) (Rgt M) (BAt M hsum_trunc) rflag fenv sol Hsol Wtb). Qed.
Theorem Ht_herm_tb_upto0 : teq M (adj (sol "H_tilde")) (sol "H_tilde").
Proof. exact (@Ht_herm_tb T r0 r1 add mul sub opp (teq M) (trunc_ops M) (Rgt M) (BAt M hsum_trunc) rflag fenv sol Hsol Wtb). Qed.
Theorem gauge_tb_upto0 : teq M (Sel (half ((sol "U" - 1) - adj (sol "U" - 1)))) 0.
Proof. exact (@gauge_tb T r0 r1 add mul sub opp (teq M) (trunc_ops M) (Rgt M) (BAt M hsum_trunc) rflag fenv sol Hsol Wtb). Qed.
End TruncMainTB0.
