(** Discharge of the wiring hypotheses of Alg/MainCorrect.v for the concrete algebra of
    multi-index series of D x D block matrices (Series/Inst.v) with the entry-wise diagonal
    Sylvester solver (Series/SylvInst.v): what block_diagonalize provides -
    real unperturbed energies on the diagonal of H_0, a symmetric reflexive kept-mask inside
    the diagonal blocks that is an equivalence on the blocks flagged commuting, eliminated
    pairs with invertible energy difference, a Hermitian input - implies [wiring].  Hence the
    theorems of Props/C01-C03 apply to every such series of matrices, for every number of
    blocks, block sizes, parameters and all orders. *)
Require Import Ncring Ncring_tac Setoid Morphisms List ZArith String.
From PV.Base Require Import Classes BigSum AlgLemmas.
From PV.Series Require Import MultiIndex Cauchy Lift Inst SylvInst Wiring.
From PV.Block Require Import Mat Masks CoefAlg BlockSel.
From PV.DSL Require Import Syntax Sem.
From PV.Gen Require Import Algorithms_gen.
From PV.Alg Require Import MainLift MainCorrect.
Open Scope string_scope.

Section Inst.
Variables D k : nat.
Context {R0 : Type} `{Rg : Ring R0} {CS : CStar R0}.
Variable blk : nat -> nat.
Variable keep : nat -> nat -> bool.
Variable cm : nat -> bool.
Hypothesis keep_sym : forall p q, keep p q = keep q p.
Hypothesis keep_refl : forall p, keep p p = true.
Hypothesis keep_blk : forall p q, keep p q = true -> blk p = blk q.
Hypothesis cm_blk : forall p q, blk p = blk q -> cm p = cm q.
Hypothesis keep_eucl : keep_eucl_on D keep cm.
Variable E : nat -> R0.
Variable inv : R0 -> R0.
Hypothesis inv_spec : forall p q, (p < D)%nat -> (q < D)%nat -> keep p q = false ->
                                  (E p - E q) * inv (E p - E q) == 1.
Hypothesis E_real : forall p, conj (E p) == E p.
Hypothesis inv_P : Proper (_==_ ==> _==_) inv.
Hypothesis inv_opp : forall x, inv (- x) == - inv x.
Hypothesis inv_conj : forall x, conj (inv x) == inv (conj x).

Local Notation T := (T D k R0).
Local Hint Extern 0 (BlockAlg _) =>
  exact (series_BlockAlg D k blk keep cm keep_sym keep_blk cm_blk) : typeclass_instances.

Variable rflag : string -> T -> T.
Variable fenv : string -> list T -> T.
Hypothesis rflag_spec : forall x, rflag "commuting_blocks" x == Rw x.
Hypothesis fenv_spec : forall y, fenv "solve_sylvester" (cons y nil) == SylvInst.sylv E inv y.
Variable H : T.
Hypothesis H_herm : adj H == H.
Hypothesis H_zero : Zc H == SylvInst.H0 D k E.

Theorem inst_wiring : wiring rflag fenv H.
Proof.
  constructor.
  - exact H_herm.
  - exact rflag_spec.
  - intros x y. apply (comm_sound_l (k := k) blk keep_sym keep_blk cm_blk keep_eucl).
  - intros x y. apply (comm_sound_r (k := k) blk keep_sym keep_blk cm_blk keep_eucl).
  - intros y y' Ey. unfold MainLift.sylv. rewrite !fenv_spec.
    apply (SylvInst.sylv_P (k := k) (D := D) E inv). exact Ey.
  - intros m y Hy. unfold MainLift.sylv. rewrite fenv_spec.
    apply (SylvInst.sylv_ord (keep_sym := keep_sym) (keep_blk := keep_blk) (cm_blk := cm_blk) E inv). exact Hy.
  - intros y. unfold MainLift.sylv. rewrite !fenv_spec.
    apply (SylvInst.sylv_adj (k := k) blk keep cm keep_sym keep_blk cm_blk E E_real inv_P inv_opp inv_conj).
  - rewrite H_zero. apply (SylvInst.Sel_H0 (k := k) blk keep cm keep_sym keep_refl keep_blk cm_blk E).
  - intros x. unfold comm. rewrite H_zero. apply (SylvInst.Sel_comm_H0 (k := k) blk keep cm keep_sym keep_blk cm_blk E).
  - intros y. unfold MainLift.sylv, comm. rewrite H_zero, fenv_spec.
    apply (SylvInst.sylv_spec (k := k) blk keep cm keep_sym keep_blk cm_blk E inv inv_spec).
Qed.
End Inst.
