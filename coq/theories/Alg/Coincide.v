(** On Hermitian input the non-Hermitian algorithm returns the outputs of the Hermitian one
    (last clause of C05), in the domain of validity of the non-Hermitian similarity theorems
    ([H_0, S x] = 0): both output pairs satisfy the defining conditions [similarity_gauge] and
    Alg/UniqueNH.v makes those unique. *)
Require Import Ncring Ncring_tac Setoid Morphisms ZArith String List.
From PV.Base Require Import Classes AlgLemmas.
From PV.DSL Require Import Syntax Sem.
From PV.Gen Require Import Algorithms_gen.
From PV.Alg Require Import MainLift MainCorrect Unique UniqueNH NonHerm.
Import ListNotations.
Open Scope string_scope.

Section Coincide.
Context {T : Type} `{Rg : Ring T} {BA : BlockAlg T}.
Variable gflag : string -> bool.
Variable rflag : string -> T -> T.
Variable fenv : string -> list T -> T.
Variables solh soln : string -> T.
Hypothesis Hh : solution (gflag_of false) rflag fenv solh main_alg.
Hypothesis Hn : solution gflag rflag fenv soln nonhermitian_alg.
Hypothesis Hw : wiring rflag fenv (solh "H").
Hypothesis Hin : soln "H" == solh "H".
Hypothesis H0_central_on_S : forall x, comm (Zc (solh "H")) (Sel x) == 0.
Hypothesis sylv_left : forall x, Rp (MainLift.sylv fenv (comm (Zc (solh "H")) (Rp x))) == Rp x.

Lemma sg_main : similarity_gauge (solh "H") (solh "U") (solh "U†").
Proof.
  pose proof (main_least_action rflag fenv solh Hh Hw) as (a & b & c & d).
  pose proof (adjoint_general rflag fenv solh Hh Hw) as Ea.
  unfold similarity_gauge. repeat split.
  - exact a.
  - rewrite <- Ea. assert (E : adj (solh "U") - 1 == adj (solh "U" - 1)) by (rewrite adj_sub, adj_one; reflexivity).
    rewrite E. apply ord_adj. exact a.
  - rewrite <- Ea. exact b.
  - rewrite <- Ea. exact c.
  - rewrite <- Ea.
    assert (E : solh "U" - adj (solh "U") == (solh "U" - 1) - adj (solh "U" - 1)) by (rewrite adj_sub, adj_one; non_commutative_ring).
    rewrite E. rewrite <- (half_dbl (Sel (solh "U" - 1 - adj (solh "U" - 1)))), <- Sel_half, d. non_commutative_ring.
Qed.

Lemma sg_nh : similarity_gauge (solh "H") (soln "U") (soln "U†").
Proof.
  destruct Hw as [a b c d e f g h i j].
  assert (sP : Proper (_==_ ==> _==_) (nsylv fenv)) by exact e.
  assert (Z : Zc (soln "H") == Zc (solh "H")) by (rewrite Hin; reflexivity).
  unfold similarity_gauge. repeat split.
  - assert (E : soln "U" - 1 == soln "U'") by (rewrite (eU gflag rflag fenv soln Hn); non_commutative_ring).
    rewrite E. apply (oU' gflag rflag fenv soln Hn).
  - assert (E : soln "U†" - 1 == soln "U_inv'") by (rewrite (eUi gflag rflag fenv soln Hn); non_commutative_ring).
    rewrite E. apply (oG gflag rflag fenv soln Hn).
  - apply (nh_inverse_l gflag rflag fenv soln Hn); try exact f; try exact sP.
  - rewrite <- Hin. apply (nh_eliminated_partial gflag rflag fenv soln Hn); try assumption.
    + rewrite Z. exact h.
    + intros x. rewrite Z. apply i.
    + intros y. rewrite Z. apply j.
    + intros x. rewrite Z. apply H0_central_on_S.
  - apply (nh_gauge gflag rflag fenv soln Hn); try exact f; try exact sP.
Qed.

Theorem nh_coincides_U : soln "U" == solh "U" /\ soln "U†" == solh "U†".
Proof.
  destruct Hw as [a b c d e f g h i j].
  exact (@similarity_unique T _ _ _ _ _ _ _ _ _ BA (solh "H") i (MainLift.sylv fenv) f sylv_left _ _ _ _ sg_nh sg_main).
Qed.
Theorem nh_coincides_Ht : soln "H_tilde" == solh "H_tilde".
Proof.
  destruct nh_coincides_U as [EU EUd].
  destruct Hw as [a b c d e f g h i j].
  assert (sP : Proper (_==_ ==> _==_) (nsylv fenv)) by exact e.
  assert (Z : Zc (soln "H") == Zc (solh "H")) by (rewrite Hin; reflexivity).
  rewrite <- (kept_general rflag fenv solh Hh Hw).
  rewrite <- EU, <- EUd, <- Hin. symmetry.
  apply (nh_kept_partial gflag rflag fenv soln Hn); try assumption.
  - rewrite Z. exact h.
  - intros x. rewrite Z. apply i.
  - intros y. rewrite Z. apply j.
  - intros x. rewrite Z. apply H0_central_on_S.
Qed.
End Coincide.
