(** Uniqueness of the similarity transformation of the non-Hermitian problem: a pair (U, Ui)
    with Ui U = 1, eliminated part of Ui H U zero and no kept element in U - Ui is unique (given
    a left inverse of x |-> [H0, x] on eliminated elements).  Consequence: on Hermitian input
    the non-Hermitian algorithm returns the outputs of the Hermitian one (C05, last clause). *)
Require Import Ncring Ncring_tac Setoid Morphisms ZArith.
From PV.Base Require Import Classes AlgLemmas.
Set Implicit Arguments.

Section UniqueNH.
Context {T : Type} `{Rg : Ring T} {BA : BlockAlg T}.
Variable H : T.
Let H0 := Zc H.
Hypothesis S_adH0 : forall x, Sel (comm H0 x) == comm H0 (Sel x).
Variable sylv : T -> T.
Hypothesis sylv_ord : forall k y, ord k y -> ord k (sylv y).
Hypothesis sylv_left : forall x, Rp (sylv (comm H0 (Rp x))) == Rp x.

Definition similarity_gauge (U Ui : T) : Prop :=
  ord 1 (U - 1) /\ ord 1 (Ui - 1) /\ Ui * U == 1 /\ Rp (Ui * H * U) == 0 /\ Sel (U - Ui) == 0.

Variables U1 G1 U2 G2 : T.      (* G = the inverse *)
Hypothesis L1 : similarity_gauge U1 G1.
Hypothesis L2 : similarity_gauge U2 G2.

Let A1 := U1 - 1. Let B1 := G1 - 1. Let A2 := U2 - 1. Let B2 := G2 - 1.
Let D := A1 - A2.   Let E := B1 - B2.
Let H' := Pos H.

Lemma oA1 : ord 1 A1. Proof. destruct L1 as (h & _). exact h. Qed.
Lemma oB1 : ord 1 B1. Proof. destruct L1 as (_ & h & _). exact h. Qed.
Lemma oA2 : ord 1 A2. Proof. destruct L2 as (h & _). exact h. Qed.
Lemma oB2 : ord 1 B2. Proof. destruct L2 as (_ & h & _). exact h. Qed.
Lemma oH' : ord 1 H'. Proof. apply ord1_Pos. Qed.
Lemma H_split : H == H0 + H'. Proof. unfold H', Pos, H0. non_commutative_ring. Qed.

Lemma inv1 : B1 + A1 + B1 * A1 == 0.
Proof. destruct L1 as (_ & _ & h & _).
  assert (E0 : B1 + A1 + B1 * A1 == G1 * U1 - 1) by (unfold A1, B1; non_commutative_ring).
  rewrite E0, h. non_commutative_ring. Qed.
Lemma inv2 : B2 + A2 + B2 * A2 == 0.
Proof. destruct L2 as (_ & _ & h & _).
  assert (E0 : B2 + A2 + B2 * A2 == G2 * U2 - 1) by (unfold A2, B2; non_commutative_ring).
  rewrite E0, h. non_commutative_ring. Qed.

Section Step.
Variable k : nat.
Hypothesis HD : ord k D.
Hypothesis HE : ord k E.

Lemma step_sum : ord (S k) (E + D).
Proof.
  assert (Eq : E + D == - (B1 * D + E * A2)).
  { assert (E0 : E + D + (B1 * D + E * A2) == (B1 + A1 + B1 * A1) - (B2 + A2 + B2 * A2)) by (unfold D, E; non_commutative_ring).
    rewrite inv1, inv2 in E0.
    assert (E1 : E + D == (E + D + (B1 * D + E * A2)) - (B1 * D + E * A2)) by non_commutative_ring.
    rewrite E1, E0. non_commutative_ring. }
  rewrite Eq. apply ord_opp, ord_add.
  apply ord_mul_l. apply oB1. exact HD. apply ord_mul_r. exact HE. apply oA2.
Qed.

Lemma elim1 : Rp (H + B1 * H + H * A1 + B1 * H * A1) == 0.
Proof. destruct L1 as (_ & _ & _ & h & _).
  assert (E0 : H + B1 * H + H * A1 + B1 * H * A1 == G1 * H * U1) by (unfold A1, B1; non_commutative_ring).
  rewrite E0. exact h. Qed.
Lemma elim2 : Rp (H + B2 * H + H * A2 + B2 * H * A2) == 0.
Proof. destruct L2 as (_ & _ & _ & h & _).
  assert (E0 : H + B2 * H + H * A2 + B2 * H * A2 == G2 * H * U2) by (unfold A2, B2; non_commutative_ring).
  rewrite E0. exact h. Qed.

Lemma diff_id (h h0 h' b1 b2 a1 a2 : T) : h == h0 + h' ->
  (h + b1 * h + h * a1 + b1 * h * a1) - (h + b2 * h + h * a2 + b2 * h * a2)
  == comm h0 (a1 - a2) + ((b1 - b2) * h' + h' * (a1 - a2) + b1 * h * (a1 - a2) + (b1 - b2) * h * a2
                          + ((a1 - a2) + (b1 - b2)) * h0).
Proof.
  intros E0.
  assert (E1 : (h + b1 * h + h * a1 + b1 * h * a1) - (h + b2 * h + h * a2 + b2 * h * a2)
               == ((b1 - b2) * h + h * (a1 - a2)) + (b1 * h * (a1 - a2) + (b1 - b2) * h * a2)) by non_commutative_ring.
  assert (E2 : (b1 - b2) * h + h * (a1 - a2) == (b1 - b2) * (h0 + h') + (h0 + h') * (a1 - a2)) by (rewrite E0; reflexivity).
  rewrite E1, E2. unfold comm. non_commutative_ring.
Qed.

Lemma step_comm : ord (S k) (Rp (comm H0 D)).
Proof.
  assert (E0 : Rp ((H + B1 * H + H * A1 + B1 * H * A1) - (H + B2 * H + H * A2 + B2 * H * A2)) == 0).
  { rewrite Rp_sub, elim1, elim2. non_commutative_ring. }
  set (rest := E * H' + H' * D + B1 * H * D + E * H * A2 + (D + E) * H0).
  assert (E1 : (H + B1 * H + H * A1 + B1 * H * A1) - (H + B2 * H + H * A2 + B2 * H * A2) == comm H0 D + rest).
  { unfold rest, D, E. apply diff_id. apply H_split. }
  rewrite E1, Rp_add in E0.
  assert (E2 : Rp (comm H0 D) == - Rp rest).
  { assert (E3 : Rp (comm H0 D) == (Rp (comm H0 D) + Rp rest) - Rp rest) by non_commutative_ring.
    rewrite E3, E0. non_commutative_ring. }
  rewrite E2. apply ord_opp, ord_Rp. unfold rest.
  apply ord_add. apply ord_add. apply ord_add. apply ord_add.
  - apply ord_mul_r. exact HE. apply oH'.
  - apply ord_mul_l. apply oH'. exact HD.
  - assert (Ex : B1 * H * D == B1 * (H * D)) by non_commutative_ring. rewrite Ex.
    apply ord_mul_l. apply oB1.
    replace k with (Nat.add O k) by reflexivity. apply ord_mul. apply ord_O. exact HD.
  - apply ord_mul_r. 2: apply oA2.
    replace k with (Nat.add k O) by (symmetry; apply plus_n_O). apply ord_mul. exact HE. apply ord_O.
  - replace (S k) with (Nat.add (S k) O) by (symmetry; apply plus_n_O). apply ord_mul.
    assert (Ec : D + E == E + D) by non_commutative_ring. rewrite Ec. apply step_sum. apply ord_O.
Qed.

Lemma Rp_adH0 x : Rp (comm H0 x) == comm H0 (Rp x).
Proof. unfold Rp. rewrite S_adH0. unfold comm. non_commutative_ring. Qed.

Lemma step_Rp : ord (S k) (Rp D).
Proof. rewrite <- sylv_left. apply ord_Rp, sylv_ord. rewrite <- Rp_adH0. apply step_comm. Qed.

Lemma step_Sel : ord (S k) (Sel D).
Proof.
  assert (E0 : Sel (D - E) == 0).
  { destruct L1 as (_ & _ & _ & _ & g1). destruct L2 as (_ & _ & _ & _ & g2).
    assert (Ex : D - E == (U1 - G1) - (U2 - G2)) by (unfold D, E, A1, A2, B1, B2; non_commutative_ring).
    rewrite Ex, Sel_sub, g1, g2. non_commutative_ring. }
  assert (E1 : Sel D == half (Sel (E + D))).
  { rewrite <- (half_twice (Sel D)). apply half_P.
    assert (Ex : Sel D + Sel D == Sel (E + D) + Sel (D - E)).
    { rewrite <- !Sel_add. apply am_P. non_commutative_ring. }
    rewrite Ex, E0. non_commutative_ring. }
  rewrite E1. apply ord_half, ord_Sel, step_sum.
Qed.

Lemma stepD : ord (S k) D.
Proof. rewrite (split_SR D). apply ord_add. apply step_Sel. apply step_Rp. Qed.
Lemma stepE : ord (S k) E.
Proof.
  assert (Ex : E == (E + D) - D) by non_commutative_ring. rewrite Ex.
  apply ord_sub. apply step_sum. apply stepD.
Qed.
End Step.

Lemma both k : ord k D /\ ord k E.
Proof. induction k as [|k [a b]]. split; apply ord_O. split. apply stepD; assumption. apply stepE; assumption. Qed.

Theorem similarity_unique : U1 == U2 /\ G1 == G2.
Proof.
  assert (ED : D == 0) by (apply ord_sep; intros k; apply (both k)).
  assert (EE : E == 0) by (apply ord_sep; intros k; apply (both k)).
  split.
  - assert (Ex : U1 == D + U2) by (unfold D, A1, A2; non_commutative_ring). rewrite Ex, ED. non_commutative_ring.
  - assert (Ex : G1 == E + G2) by (unfold E, B1, B2; non_commutative_ring). rewrite Ex, EE. non_commutative_ring.
Qed.

End UniqueNH.
