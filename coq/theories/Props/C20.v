(* C20: "When the unperturbed Hamiltonian is not block diagonal, coupled blocks (or elements
   selected for elimination) share an unperturbed energy, supplied eigenvectors are not
   (bi)orthonormal, a Hermitian-mode mask is asymmetric, a Hermitian-mode symbolic input is not
   Hermitian, or mutually exclusive options are combined, block_diagonalize raises a
   ValueError/TypeError/NotImplementedError no later than the first evaluation that would need
   the ill-defined quantity. For every accepted well-posed numeric input all returned elements
   are finite."

   Model: Front/Validate.v.  [validate c] is the first definition-time test that fires (tests
   in their order of execution), [on_first_use c u] the lazily executed tests, [life c sched]
   the whole life of a call under a schedule of uses per order.

   Every rejection theorem holds for ANY call record having the defect, whatever the other
   fields say.  The conclusion allows one exception class outside the property's list:
   UnboundLocalError, which the code (as it is now) can only raise for a custom solve_sylvester
   combined with a bare one-element all-False array as fully_diagonalize on a single block
   ([diagonal] is unbound); it is kept visible as the second disjunct.

   Class definitions follow the code: "H_0 not block diagonal" = a scanned zeroth-order block
   that is a numeric array not allclose to zero or a sympy object that is decidably non-zero
   (a block sympy cannot decide only warns: [BUndecided]); "symbolic input not Hermitian" = a
   sympy-expression input one of whose Taylor coefficients has is_hermitian False (dict inputs
   and numeric terms are not tested by the code: hermitian=True is a promise there). *)

Require Import List Bool Arith ZArith.
Require Import PV.Front.Validate PV.Front.ValidateProofs.
Require PV.Front.GaussQc PV.Front.SylvDiag.
Import ListNotations.

Theorem C20_rejects_h0_offdiag :
  forall c, defect_h0_offdiag c ->
  exists e, validate c = Reject e AtDefinition /\
            (listed e \/ (e = UnboundLocalError /\ custom c = true)).
Proof. exact rejects_h0_offdiag. Qed.
Print Assumptions C20_rejects_h0_offdiag.

(* coupled blocks share an unperturbed energy: rejected at definition for another reason, or
   accepted at definition and rejected with ValueError at the first use of that pair *)
Theorem C20_rejects_shared_energy :
  forall c i j, diag_pair c i j = true -> i <> j -> c_pair_shares c i j = true ->
  (exists e, validate c = Reject e AtDefinition /\ listed e) \/
  (validate c = Accept /\ on_first_use c (UsePair i j) = Reject ValueError AtFirstUse).
Proof. exact rejects_shared. Qed.
Print Assumptions C20_rejects_shared_energy.

Theorem C20_rejects_mask_equal :
  forall c, defect_mask_equal c ->
  exists e, validate c = Reject e AtDefinition /\
            (listed e \/ (e = UnboundLocalError /\ custom c = true)).
Proof. exact rejects_mask_equal. Qed.
Print Assumptions C20_rejects_mask_equal.

Theorem C20_rejects_biorth :
  forall c, defect_biorth c ->
  exists e, validate c = Reject e AtDefinition /\
            (listed e \/ (e = UnboundLocalError /\ custom c = true)).
Proof. exact rejects_biorth. Qed.
Print Assumptions C20_rejects_biorth.

(* all subspaces orthonormal within themselves ([ev_overlap_within] arbitrary, e.g. Yes) but
   vectors of two DIFFERENT subspaces overlap: _check_biorthonormality compares the stacked
   overlap matrix with the identity, so the call is rejected at definition *)
Theorem C20_rejects_cross_overlap :
  forall c, defect_cross_overlap c ->
  exists e, validate c = Reject e AtDefinition /\
            (listed e \/ (e = UnboundLocalError /\ custom c = true)).
Proof. exact rejects_cross_overlap. Qed.
Print Assumptions C20_rejects_cross_overlap.

Theorem C20_rejects_mask_asym :
  forall c, defect_mask_asym c ->
  exists e, validate c = Reject e AtDefinition /\
            (listed e \/ (e = UnboundLocalError /\ custom c = true)).
Proof. exact rejects_mask_asym. Qed.
Print Assumptions C20_rejects_mask_asym.

Theorem C20_rejects_nonhermitian_term :
  forall c n, c_format c = FSympyExpr -> c_hermitian c = true -> c_term_herm c n = No ->
  (exists e, validate c = Reject e AtDefinition /\
             (listed e \/ (e = UnboundLocalError /\ custom c = true))) \/
  (validate c = Accept /\ on_first_use c (UseTerm n) = Reject ValueError AtFirstUse).
Proof. exact rejects_nonhermitian_term. Qed.
Print Assumptions C20_rejects_nonhermitian_term.

Theorem C20_rejects_nonhermitian_term0 :
  forall c, c_format c = FSympyExpr -> c_hermitian c = true ->
  c_term_herm c (zero_order c) = No ->
  exists e, validate c = Reject e AtDefinition /\
            (listed e \/ (e = UnboundLocalError /\ custom c = true)).
Proof. exact rejects_nonhermitian_term0. Qed.
Print Assumptions C20_rejects_nonhermitian_term0.

Theorem C20_rejects_exclusive :
  forall c, defect_exclusive c ->
  exists e, validate c = Reject e AtDefinition /\
            (listed e \/ (e = UnboundLocalError /\ custom c = true)).
Proof. exact rejects_exclusive. Qed.
Print Assumptions C20_rejects_exclusive.

(* Further rejection classes of the validation code covered by the model (beyond the property's
   list): unsupported container type (TypeError); perturbative symbol absent from a sympy
   expression; non-commutative symbols / non-monomial keys of a monomial-key dict; non-square
   block series; ragged nested block lists (zeroth order: at definition, later orders: at their
   first evaluation, C20_rejects_ragged_term); H_0 blocks that are not operators; all-zero
   diagonal of H_0; a mask that is not an ndarray. *)
Theorem C20_rejects_container :
  forall c, defect_container c ->
  exists e, validate c = Reject e AtDefinition /\
            (listed e \/ (e = UnboundLocalError /\ custom c = true)).
Proof. exact rejects_container. Qed.
Print Assumptions C20_rejects_container.

(* malformed (right, left) entries (length, shapes) and the implicit-mode restrictions: input
   already separated into blocks, symbolic H_0, ambient dimension mismatch (ValueError), subspace
   vectors that are not numpy arrays (TypeError).  (Non-Hermitian implicit KPM and an implicit
   block in fully_diagonalize are in C20_rejects_exclusive.) *)
Theorem C20_rejects_vectors :
  forall c ev, c_eigvecs c = Some ev -> defect_vectors c ev ->
  exists e, validate c = Reject e AtDefinition /\
            (listed e \/ (e = UnboundLocalError /\ custom c = true)).
Proof. exact rejects_vectors. Qed.
Print Assumptions C20_rejects_vectors.

Theorem C20_rejects_ragged_term :
  forall c n, c_preblocked c = true -> c_ragged c n = true ->
  (exists e, validate c = Reject e AtDefinition /\
             (listed e \/ (e = UnboundLocalError /\ custom c = true))) \/
  (validate c = Accept /\ exists e, on_first_use c (UseTerm n) = Reject e AtFirstUse /\ e = ValueError).
Proof. exact rejects_ragged_term. Qed.
Print Assumptions C20_rejects_ragged_term.

(* dead code: the NotImplementedError of the implicit KPM path for (right, left) pairs is always
   preceded by the Hermitian-pairs ValueError or the non-Hermitian-KPM NotImplementedError *)
Theorem C20_kpm_pairs_shadowed :
  forall c,
  (implicit c && negb (custom c) && negb (c_direct_solver c) && evb c ev_has_pair)%bool = true ->
  evb c (fun ev => (c_hermitian c && ev_has_pair ev)%bool) = true \/
  (implicit c && negb (c_hermitian c) && negb (custom c) && negb (c_direct_solver c))%bool = true.
Proof. exact kpm_pairs_shadowed. Qed.
Print Assumptions C20_kpm_pairs_shadowed.

Theorem C20_rejects_solver_fd_exact :
  forall c, custom c = true -> fd_truth (c_fd c) = Some true ->
  validate c = Reject NotImplementedError AtDefinition.
Proof. exact rejects_solver_fd_exact. Qed.
Print Assumptions C20_rejects_solver_fd_exact.

(* "no later than the first evaluation that would need the ill-defined quantity": if a use u
   that is rejected belongs to the uses triggered at order n, the life of the call ends in a
   rejection at an order scheduled no later than n *)
Theorem C20_no_later :
  forall c pre n us post u e s,
  validate c = Accept -> In u us -> on_first_use c u = Reject e s ->
  exists e' n', life c (pre ++ (n, us) :: post) = (Reject e' AtFirstUse, Some n') /\
                In n' (map fst pre ++ [n]).
Proof. exact life_no_later. Qed.
Print Assumptions C20_no_later.

Theorem C20_accepts_wellposed :
  forall c sched, Wellposed c ->
  (forall n us u, In (n, us) sched -> In u us -> Wellposed_lazy c u) ->
  validate c = Accept /\ life c sched = (Accept, None).
Proof.
  intros c sched W L. split; [apply accepts_wellposed, W|apply accepts_wellposed_life; assumption].
Qed.
Print Assumptions C20_accepts_wellposed.

(* with C16_diagonal_nodiv: for an accepted call that installs the diagonal solver (explicit
   numeric/symbolic matrices) or the direct solver (explicit part), the closure never divides
   by a quantity within tolerance, for any eigenvalue data and any sequence of requests - all
   model values lie in the field, i.e. are finite *)
Theorem C20_finite :
  forall (c : call) (F : GaussQc.Fld) (E : list (SylvDiag.eigs F))
         (reqs : list (SylvDiag.rhs F * (nat * nat))),
  validate c = Accept ->
  closure_without_vecs_implicit (solver_of c) = true ->
  ~ In SylvDiag.ODivTol (fst (SylvDiag.run F E None [] reqs)).
Proof. exact finite_accepted. Qed.
Print Assumptions C20_finite.

(* ---------------- non-vacuity ---------------- *)

(* a well-posed call: tuple-key dict, Hermitian, subspace_indices, three blocks, a symmetric
   mask on block 1 that eliminates no degenerate pair *)
Definition good_mask : mask := mkMask true true false.
Definition wp_call : call :=
  mkCall FDictTuple 2 false KeysOk true None true (FdDict [(1, good_mask)]) false true None true
         false 3 (fun _ _ => BZero) (fun i => Nat.eqb i 2) false (fun _ _ => false) (fun _ => Unknown)
         false (fun _ => false).

Example C20_wellposed_ex : Wellposed wp_call /\ validate wp_call = Accept.
Proof.
  split; [|reflexivity].
  constructor; cbn; try discriminate; try tauto; try congruence.
  - exists 0. split; [auto with arith|reflexivity].
  - intros _ m [<-|[]]. cbn. auto.
Qed.

(* the same call with one defect each *)
Definition with_off (c : call) : call :=
  mkCall (c_format c) (c_nparams c) (c_symbols_missing c) (c_keys c) (c_hermitian c) (c_solver_arity c)
         (c_direct_solver c) (c_fd c) (c_preblocked c) (c_blocks_square c) (c_eigvecs c) (c_indices c)
         (c_h0_symbolic c) (c_nblocks c)
         (fun i j => if (Nat.eqb i 1 && Nat.eqb j 2)%bool then BNonzero else BZero)
         (c_h0_diag_zero c) (c_second_quant c) (c_pair_shares c) (c_term_herm c)
         (c_invalid_operator c) (c_ragged c).
Definition with_fd (c : call) (f : fdform) : call :=
  mkCall (c_format c) (c_nparams c) (c_symbols_missing c) (c_keys c) (c_hermitian c) (c_solver_arity c)
         (c_direct_solver c) f (c_preblocked c) (c_blocks_square c) (c_eigvecs c) (c_indices c)
         (c_h0_symbolic c) (c_nblocks c) (c_h0_off c)
         (c_h0_diag_zero c) (c_second_quant c) (c_pair_shares c) (c_term_herm c)
         (c_invalid_operator c) (c_ragged c).
Definition with_shares (c : call) : call :=
  mkCall (c_format c) (c_nparams c) (c_symbols_missing c) (c_keys c) (c_hermitian c) (c_solver_arity c)
         (c_direct_solver c) (c_fd c) (c_preblocked c) (c_blocks_square c) (c_eigvecs c) (c_indices c)
         (c_h0_symbolic c) (c_nblocks c) (c_h0_off c)
         (c_h0_diag_zero c) (c_second_quant c) (fun i j => (Nat.eqb i 0 && Nat.eqb j 2)%bool) (c_term_herm c)
         (c_invalid_operator c) (c_ragged c).

(* eigenvector designation, every subspace orthonormal within itself, two subspaces overlapping *)
Definition with_vecs (c : call) (ev : eigvecs) : call :=
  mkCall (c_format c) (c_nparams c) (c_symbols_missing c) (c_keys c) (c_hermitian c) (c_solver_arity c)
         (c_direct_solver c) (c_fd c) (c_preblocked c) (c_blocks_square c) (Some ev) false
         (c_h0_symbolic c) (c_nblocks c) (c_h0_off c)
         (c_h0_diag_zero c) (c_second_quant c) (c_pair_shares c) (c_term_herm c)
         (c_invalid_operator c) (c_ragged c).
Definition cross_vecs : eigvecs := mkEigvecs false true true VecNumpy Yes No true true true.
Definition fine_vecs : eigvecs := mkEigvecs false true true VecNumpy Yes Yes true true true.

Example C20_cross_overlap_ex :
  defect_cross_overlap (with_vecs wp_call cross_vecs) /\
  validate (with_vecs wp_call cross_vecs) = Reject ValueError AtDefinition /\
  validate (with_vecs wp_call fine_vecs) = Accept.
Proof.
  repeat split; try reflexivity. exists cross_vecs. repeat split; try reflexivity. discriminate.
Qed.

Example C20_rejects_ex :
  defect_h0_offdiag (with_off wp_call) /\
  validate (with_off wp_call) = Reject ValueError AtDefinition /\
  defect_mask_asym (with_fd wp_call (FdDict [(1, mkMask true false false)])) /\
  validate (with_fd wp_call (FdDict [(1, mkMask true false false)])) = Reject ValueError AtDefinition /\
  defect_mask_equal (with_fd wp_call (FdDict [(1, mkMask true true true)])) /\
  validate (with_fd wp_call (FdDict [(1, mkMask true true true)])) = Reject ValueError AtDefinition /\
  life (with_shares wp_call) [(1, [UsePair 0 1]); (2, [UsePair 0 2; UsePair 1 2])]
    = (Reject ValueError AtFirstUse, Some 2).
Proof.
  repeat split; try reflexivity.
  - exists 1, 2. cbn. repeat split; auto with arith.
  - exists (mkMask true false false). split; [left; reflexivity|reflexivity].
  - exists (mkMask true true true). split; [left; reflexivity|reflexivity].
Qed.
