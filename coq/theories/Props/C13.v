(** C13 - "Multiplying perturbation k by c_k multiplies every output at multi-order n by the
    product of c_k^(n_k); giving two perturbations the same parameter yields at order n the sum
    of the two-parameter results over n1+n2=n; permuting parameters permutes the order indices;
    adding a vanishing perturbation or substituting lambda -> lambda^p only relabels orders.
    These hold for H_tilde, U and U† at every order."

    Statements are about the concrete algebra T D k R0 of k-parameter formal power series of
    D x D matrices (Series/Inst.v) and ANY valuations [sol], [sol'] satisfying the equations of
    the generated Hermitian program [main_alg] for the original / the re-parametrised input,
    with the scope wired as block_diagonalize wires it (same quantification as Props/C15.v).
    Each re-parametrisation is an [LAHom] (Alg/Equivariance.v) between the algebras with k and
    k' parameters that fixes H_0; it maps the least-action transformation to one of the
    transformed problem, which is unique (Alg/Unique.v).  The conclusion relates the complete
    series, i.e. every multi-order at once. *)
Require Import Ncring String List Morphisms.
From PV.Base Require Import Classes AlgLemmas.
From PV.DSL Require Import Syntax Sem.
From PV.Gen Require Import Algorithms_gen.
From PV.Alg Require Import MainLift MainCorrect Unique Equivariance.
From PV.Series Require Import MultiIndex Inst SylvInst SymBase SymIdx SymScale SymParam SymPush SymExamples SymWitness ExecExample.
From PV.Block Require Import Mat Masks QInst.
From PV.Alg Require Import MainWitness.
Open Scope string_scope.

(** scaling: (pscale c x) n = (prod_i c_i^(n_i)) * x n  for real central scalars c_1 .. c_k *)
Theorem C13_scale :
  forall (D k : nat) (R0 : Type) (r0 r1 : R0) (add mul sub : R0 -> R0 -> R0) (opp : R0 -> R0) (req : R0 -> R0 -> Prop)
         (Ro : @Ring_ops R0 r0 r1 add mul sub opp req) (Rg : @Ring R0 r0 r1 add mul sub opp req Ro) (CS : CStar R0)
         (blk : nat -> nat) (keep : nat -> nat -> bool) (cm : nat -> bool)
         (keep_sym : forall p q, keep p q = keep q p) (keep_refl : forall p, keep p p = true)
         (keep_blk : forall p q, keep p q = true -> blk p = blk q) (cm_blk : forall p q, blk p = blk q -> cm p = cm q)
         (keep_eucl : keep_eucl_on D keep cm) (E : nat -> R0) (inv : R0 -> R0),
    (forall p q, (p < D)%nat -> (q < D)%nat -> keep p q = false -> (E p - E q) * inv (E p - E q) == 1) ->
    (forall p, conj (E p) == E p) -> Proper (_==_ ==> _==_) inv ->
    (forall x, inv (- x) == - inv x) -> (forall x, conj (inv x) == inv (conj x)) ->
    forall c : list R0, Forall (fun x => conj x == x) c ->
    let BA := series_BlockAlg D k blk keep cm keep_sym keep_blk cm_blk in
    forall (rflag rflag' : string -> T D k R0 -> T D k R0) (fenv fenv' : string -> list (T D k R0) -> T D k R0)
           (sol sol' : string -> T D k R0),
    (forall x, rflag "commuting_blocks" x == Rw x) ->
    (forall y, fenv "solve_sylvester" (cons y nil) == SylvInst.sylv E inv y) ->
    (forall x, rflag' "commuting_blocks" x == Rw x) ->
    (forall y, fenv' "solve_sylvester" (cons y nil) == SylvInst.sylv E inv y) ->
    solution (gflag_of false) rflag fenv sol main_alg ->
    solution (gflag_of false) rflag' fenv' sol' main_alg ->
    adj (sol "H") == sol "H" -> Zc (sol "H") == SylvInst.H0 D k E ->
    sol' "H" == pscale D k c (sol "H") ->
    sol' "U" == pscale D k c (sol "U") /\ sol' "U†" == pscale D k c (sol "U†")
    /\ sol' "H_tilde" == pscale D k c (sol "H_tilde").
Proof.
  intros D k R0 r0 r1 add mul sub opp req Ro Rg CS blk keep cm keep_sym keep_refl keep_blk cm_blk keep_eucl E inv
         Hinv Hreal HinvP Hopp Hconj c c_real BA rflag rflag' fenv fenv' sol sol' Hrf Hfe Hrf' Hfe' Hsol Hsol' Hh Hz Hin.
  exact (scale_covariant D k blk keep cm keep_sym keep_refl keep_blk cm_blk c c_real E Hreal keep_eucl inv Hinv HinvP Hopp Hconj
           rflag rflag' fenv fenv' Hrf Hfe Hrf' Hfe' sol sol' Hsol Hsol' Hh Hz Hin).
Qed.
Print Assumptions C13_scale.

Example C13_scale_applies :
  LAHom (BA := ex_BA) (BA' := ex_BA) (pscale 3 2 (cons (QArith_base.Qmake 2 1) (cons (QArith_base.Qmake 1 2) nil)))
  /\ cpow (cons (QArith_base.Qmake 2 1) (cons (QArith_base.Qmake 1 2) nil)) (cons 3%nat (cons 1%nat nil)) == (QArith_base.Qmake 4 1).
Proof.
  split.
  - exact (pscale_LAHom 3 2 ex_blk ex_keep ex_cm ex_keep_sym ex_keep_blk ex_cm_blk _ ex_c_real).
  - vm_compute. reflexivity.
Qed.


(** permutation of the parameters: [sg] lists, for every new position, the old position it reads
    ([sg'] is the inverse permutation); (pull (pm sg) x) n = x (pm sg n), pm sg n = [n_(sg 0); n_(sg 1); ..] *)
Theorem C13_permute :
  forall (D k : nat) (R0 : Type) (r0 r1 : R0) (add mul sub : R0 -> R0 -> R0) (opp : R0 -> R0) (req : R0 -> R0 -> Prop)
         (Ro : @Ring_ops R0 r0 r1 add mul sub opp req) (Rg : @Ring R0 r0 r1 add mul sub opp req Ro) (CS : CStar R0)
         (blk : nat -> nat) (keep : nat -> nat -> bool) (cm : nat -> bool)
         (keep_sym : forall p q, keep p q = keep q p) (keep_refl : forall p, keep p p = true)
         (keep_blk : forall p q, keep p q = true -> blk p = blk q) (cm_blk : forall p q, blk p = blk q -> cm p = cm q)
         (keep_eucl : keep_eucl_on D keep cm) (E : nat -> R0) (inv : R0 -> R0),
    (forall p q, (p < D)%nat -> (q < D)%nat -> keep p q = false -> (E p - E q) * inv (E p - E q) == 1) ->
    (forall p, conj (E p) == E p) -> Proper (_==_ ==> _==_) inv ->
    (forall x, inv (- x) == - inv x) -> (forall x, conj (inv x) == inv (conj x)) ->
    forall (sg sg' : list nat) (sg_len : List.length sg = k) (sg_len' : List.length sg' = k)
           (sg_inv : List.map (fun j => List.nth j sg k) sg' = List.seq 0 k)
           (sg_inv' : List.map (fun j => List.nth j sg' k) sg = List.seq 0 k),
    let BA := series_BlockAlg D k blk keep cm keep_sym keep_blk cm_blk in
    forall (rflag rflag' : string -> T D k R0 -> T D k R0) (fenv fenv' : string -> list (T D k R0) -> T D k R0)
           (sol sol' : string -> T D k R0),
    (forall x, rflag "commuting_blocks" x == Rw x) ->
    (forall y, fenv "solve_sylvester" (cons y nil) == SylvInst.sylv E inv y) ->
    (forall x, rflag' "commuting_blocks" x == Rw x) ->
    (forall y, fenv' "solve_sylvester" (cons y nil) == SylvInst.sylv E inv y) ->
    solution (gflag_of false) rflag fenv sol main_alg ->
    solution (gflag_of false) rflag' fenv' sol' main_alg ->
    adj (sol "H") == sol "H" -> Zc (sol "H") == SylvInst.H0 D k E ->
    sol' "H" == pull D k (pm sg) (sol "H") ->
    sol' "U" == pull D k (pm sg) (sol "U") /\ sol' "U†" == pull D k (pm sg) (sol "U†")
    /\ sol' "H_tilde" == pull D k (pm sg) (sol "H_tilde").
Proof.
  intros D k R0 r0 r1 add mul sub opp req Ro Rg CS blk keep cm keep_sym keep_refl keep_blk cm_blk keep_eucl E inv
         Hinv Hreal HinvP Hopp Hconj sg sg' sg_len sg_len' sg_inv sg_inv' BA rflag rflag' fenv fenv' sol sol' Hrf Hfe Hrf' Hfe' Hsol Hsol' Hh Hz Hin.
  exact (pull_covariant D k blk keep cm keep_sym keep_refl keep_blk cm_blk (pm sg) (pm sg')
           (pm_len k sg sg_len) (pm_len' k sg' sg_len') (pm_gf k sg sg' sg_len sg_inv) (pm_fg k sg sg' sg_len' sg_inv')
           (pm_padd k sg) (pm_deg k sg sg' sg_len sg_len' sg_inv')
           E Hreal keep_eucl inv Hinv HinvP Hopp Hconj
           rflag rflag' fenv fenv' Hrf Hfe Hrf' Hfe' sol sol' Hsol Hsol' Hh Hz Hin).
Qed.
Print Assumptions C13_permute.

Example C13_permute_applies :
  pm (cons 1%nat (cons 0%nat nil)) (cons 3%nat (cons 5%nat nil)) = cons 5%nat (cons 3%nat nil)
  /\ LAHom (BA := ex_BA) (BA' := ex_BA) (pull 3 2 (pm (cons 1%nat (cons 0%nat nil)))).
Proof.
  split. reflexivity.
  exact (pull_LAHom 3 2 ex_blk ex_keep ex_cm ex_keep_sym ex_keep_blk ex_cm_blk
           (pm (cons 1%nat (cons 0%nat nil))) (pm (cons 1%nat (cons 0%nat nil)))
           (pm_len 2 (cons 1%nat (cons 0%nat nil)) eq_refl) (pm_len' 2 (cons 1%nat (cons 0%nat nil)) eq_refl) (pm_gf 2 (cons 1%nat (cons 0%nat nil)) (cons 1%nat (cons 0%nat nil)) eq_refl eq_refl) (pm_fg 2 (cons 1%nat (cons 0%nat nil)) (cons 1%nat (cons 0%nat nil)) eq_refl eq_refl)
           (pm_padd 2 (cons 1%nat (cons 0%nat nil))) (pm_deg 2 (cons 1%nat (cons 0%nat nil)) (cons 1%nat (cons 0%nat nil)) eq_refl eq_refl eq_refl)).
Qed.

(** a perturbation that does not occur, added as a new first parameter (k -> S k parameters):
    (vanish x) (m :: n) = x n if m = 0, and 0 otherwise - the outputs do not depend on it *)
Theorem C13_vanishing :
  forall (D k : nat) (R0 : Type) (r0 r1 : R0) (add mul sub : R0 -> R0 -> R0) (opp : R0 -> R0) (req : R0 -> R0 -> Prop)
         (Ro : @Ring_ops R0 r0 r1 add mul sub opp req) (Rg : @Ring R0 r0 r1 add mul sub opp req Ro) (CS : CStar R0)
         (blk : nat -> nat) (keep : nat -> nat -> bool) (cm : nat -> bool)
         (keep_sym : forall p q, keep p q = keep q p) (keep_refl : forall p, keep p p = true)
         (keep_blk : forall p q, keep p q = true -> blk p = blk q) (cm_blk : forall p q, blk p = blk q -> cm p = cm q)
         (keep_eucl : keep_eucl_on D keep cm) (E : nat -> R0) (inv : R0 -> R0),
    (forall p q, (p < D)%nat -> (q < D)%nat -> keep p q = false -> (E p - E q) * inv (E p - E q) == 1) ->
    (forall p, conj (E p) == E p) -> Proper (_==_ ==> _==_) inv ->
    (forall x, inv (- x) == - inv x) -> (forall x, conj (inv x) == inv (conj x)) ->
    let BAs := series_BlockAlg D k blk keep cm keep_sym keep_blk cm_blk in
    let BAt := series_BlockAlg D (S k) blk keep cm keep_sym keep_blk cm_blk in
    forall (rflag : string -> T D k R0 -> T D k R0) (fenv : string -> list (T D k R0) -> T D k R0)
           (rflag' : string -> T D (S k) R0 -> T D (S k) R0) (fenv' : string -> list (T D (S k) R0) -> T D (S k) R0)
           (sol : string -> T D k R0) (sol' : string -> T D (S k) R0),
    (forall x, rflag "commuting_blocks" x == Rw (BlockAlg := BAs) x) ->
    (forall y, fenv "solve_sylvester" (cons y nil) == SylvInst.sylv E inv y) ->
    (forall x, rflag' "commuting_blocks" x == Rw (BlockAlg := BAt) x) ->
    (forall y, fenv' "solve_sylvester" (cons y nil) == SylvInst.sylv E inv y) ->
    solution (BA := BAs) (gflag_of false) rflag fenv sol main_alg ->
    solution (BA := BAt) (gflag_of false) rflag' fenv' sol' main_alg ->
    adj (BlockAlg := BAs) (sol "H") == sol "H" -> Zc (BlockAlg := BAs) (sol "H") == SylvInst.H0 D k E ->
    sol' "H" == vanish D k (sol "H") ->
    sol' "U" == vanish D k (sol "U") /\ sol' "U†" == vanish D k (sol "U†")
    /\ sol' "H_tilde" == vanish D k (sol "H_tilde").
Proof.
  intros D k R0 r0 r1 add mul sub opp req Ro Rg CS blk keep cm keep_sym keep_refl keep_blk cm_blk keep_eucl E inv
         Hinv Hreal HinvP Hopp Hconj BAs BAt rflag fenv rflag' fenv' sol sol' Hrf Hfe Hrf' Hfe' Hsol Hsol' Hh Hz Hin.
  exact (vanish_covariant D k blk keep cm keep_sym keep_refl keep_blk cm_blk E Hreal keep_eucl inv Hinv HinvP Hopp Hconj
           rflag fenv rflag' fenv' Hrf Hfe Hrf' Hfe' sol sol' Hsol Hsol' Hh Hz Hin).
Qed.
Print Assumptions C13_vanishing.

Example C13_vanishing_applies :
  LAHom (BA := ex_BA) (BA' := series_BlockAlg 3 3 ex_blk ex_keep ex_cm ex_keep_sym ex_keep_blk ex_cm_blk) (vanish 3 2).
Proof. exact (vanish_LAHom 3 2 ex_blk ex_keep ex_cm ex_keep_sym ex_keep_blk ex_cm_blk). Qed.


(** two perturbations given the same parameter (the first two of k+2 parameters are merged):
    (push mrg_fib x) (m :: rest) = sum over n1 + n2 = m of x (n1 :: n2 :: rest) *)
Theorem C13_merge :
  forall (D k : nat) (R0 : Type) (r0 r1 : R0) (add mul sub : R0 -> R0 -> R0) (opp : R0 -> R0) (req : R0 -> R0 -> Prop)
         (Ro : @Ring_ops R0 r0 r1 add mul sub opp req) (Rg : @Ring R0 r0 r1 add mul sub opp req Ro) (CS : CStar R0)
         (blk : nat -> nat) (keep : nat -> nat -> bool) (cm : nat -> bool)
         (keep_sym : forall p q, keep p q = keep q p) (keep_refl : forall p, keep p p = true)
         (keep_blk : forall p q, keep p q = true -> blk p = blk q) (cm_blk : forall p q, blk p = blk q -> cm p = cm q)
         (keep_eucl : keep_eucl_on D keep cm) (E : nat -> R0) (inv : R0 -> R0),
    (forall p q, (p < D)%nat -> (q < D)%nat -> keep p q = false -> (E p - E q) * inv (E p - E q) == 1) ->
    (forall p, conj (E p) == E p) -> Proper (_==_ ==> _==_) inv ->
    (forall x, inv (- x) == - inv x) -> (forall x, conj (inv x) == inv (conj x)) ->
    let BAs := series_BlockAlg D (S (S k)) blk keep cm keep_sym keep_blk cm_blk in
    let BAt := series_BlockAlg D (S k) blk keep cm keep_sym keep_blk cm_blk in
    forall (rflag : string -> T D (S (S k)) R0 -> T D (S (S k)) R0) (fenv : string -> list (T D (S (S k)) R0) -> T D (S (S k)) R0)
           (rflag' : string -> T D (S k) R0 -> T D (S k) R0) (fenv' : string -> list (T D (S k) R0) -> T D (S k) R0)
           (sol : string -> T D (S (S k)) R0) (sol' : string -> T D (S k) R0),
    (forall x, rflag "commuting_blocks" x == Rw (BlockAlg := BAs) x) ->
    (forall y, fenv "solve_sylvester" (cons y nil) == SylvInst.sylv E inv y) ->
    (forall x, rflag' "commuting_blocks" x == Rw (BlockAlg := BAt) x) ->
    (forall y, fenv' "solve_sylvester" (cons y nil) == SylvInst.sylv E inv y) ->
    solution (BA := BAs) (gflag_of false) rflag fenv sol main_alg ->
    solution (BA := BAt) (gflag_of false) rflag' fenv' sol' main_alg ->
    adj (BlockAlg := BAs) (sol "H") == sol "H" -> Zc (BlockAlg := BAs) (sol "H") == SylvInst.H0 D (S (S k)) E ->
    sol' "H" == push D (S k) (S (S k)) mrg_fib (sol "H") ->
    sol' "U" == push D (S k) (S (S k)) mrg_fib (sol "U") /\ sol' "U†" == push D (S k) (S (S k)) mrg_fib (sol "U†")
    /\ sol' "H_tilde" == push D (S k) (S (S k)) mrg_fib (sol "H_tilde").
Proof.
  intros D k R0 r0 r1 add mul sub opp req Ro Rg CS blk keep cm keep_sym keep_refl keep_blk cm_blk keep_eucl E inv
         Hinv Hreal HinvP Hopp Hconj BAs BAt rflag fenv rflag' fenv' sol sol' Hrf Hfe Hrf' Hfe' Hsol Hsol' Hh Hz Hin.
  exact (push_covariant D (S k) (S (S k)) blk keep cm keep_sym keep_refl keep_blk cm_blk mrg mrg_fib
           (fun n a L => mrg_fib_spec k n a L) (fun n _ => mrg_fib_nodup n) (mrg_len k) (mrg_padd k) (mrg_zero k) (mrg_deg k)
           E Hreal keep_eucl inv Hinv HinvP Hopp Hconj
           rflag fenv rflag' fenv' Hrf Hfe Hrf' Hfe' sol sol' Hsol Hsol' Hh Hz Hin).
Qed.
Print Assumptions C13_merge.

Example C13_merge_applies :
  mrg_fib (cons 2%nat (cons 7%nat nil))
  = cons (cons O (cons 2%nat (cons 7%nat nil))) (cons (cons 1%nat (cons 1%nat (cons 7%nat nil))) (cons (cons 2%nat (cons O (cons 7%nat nil))) nil))
  /\ LAHom (BA := series_BlockAlg 3 2 ex_blk ex_keep ex_cm ex_keep_sym ex_keep_blk ex_cm_blk)
           (BA' := series_BlockAlg 3 1 ex_blk ex_keep ex_cm ex_keep_sym ex_keep_blk ex_cm_blk) (push 3 1 2 mrg_fib).
Proof.
  split. reflexivity.
  exact (push_LAHom 3 1 2 ex_blk ex_keep ex_cm ex_keep_sym ex_keep_blk ex_cm_blk mrg mrg_fib
           (fun n a L => mrg_fib_spec 0 n a L) (fun n _ => mrg_fib_nodup n) (mrg_len 0) (mrg_padd 0) (mrg_zero 0) (mrg_deg 0)).
Qed.

(** substitution lambda -> lambda^p (p >= 1) in the first parameter: the term of order n moves to
    order p * n:  (push (pw_fib p) x) (m :: rest) = x (m / p :: rest) if p divides m, and 0 otherwise *)
Theorem C13_power :
  forall (D k : nat) (R0 : Type) (r0 r1 : R0) (add mul sub : R0 -> R0 -> R0) (opp : R0 -> R0) (req : R0 -> R0 -> Prop)
         (Ro : @Ring_ops R0 r0 r1 add mul sub opp req) (Rg : @Ring R0 r0 r1 add mul sub opp req Ro) (CS : CStar R0)
         (blk : nat -> nat) (keep : nat -> nat -> bool) (cm : nat -> bool)
         (keep_sym : forall p q, keep p q = keep q p) (keep_refl : forall p, keep p p = true)
         (keep_blk : forall p q, keep p q = true -> blk p = blk q) (cm_blk : forall p q, blk p = blk q -> cm p = cm q)
         (keep_eucl : keep_eucl_on D keep cm) (E : nat -> R0) (inv : R0 -> R0),
    (forall p q, (p < D)%nat -> (q < D)%nat -> keep p q = false -> (E p - E q) * inv (E p - E q) == 1) ->
    (forall p, conj (E p) == E p) -> Proper (_==_ ==> _==_) inv ->
    (forall x, inv (- x) == - inv x) -> (forall x, conj (inv x) == inv (conj x)) ->
    forall (p : nat) (p_pos : (0 < p)%nat),
    let BA := series_BlockAlg D k blk keep cm keep_sym keep_blk cm_blk in
    forall (rflag rflag' : string -> T D k R0 -> T D k R0) (fenv fenv' : string -> list (T D k R0) -> T D k R0)
           (sol sol' : string -> T D k R0),
    (forall x, rflag "commuting_blocks" x == Rw x) ->
    (forall y, fenv "solve_sylvester" (cons y nil) == SylvInst.sylv E inv y) ->
    (forall x, rflag' "commuting_blocks" x == Rw x) ->
    (forall y, fenv' "solve_sylvester" (cons y nil) == SylvInst.sylv E inv y) ->
    solution (gflag_of false) rflag fenv sol main_alg ->
    solution (gflag_of false) rflag' fenv' sol' main_alg ->
    adj (sol "H") == sol "H" -> Zc (sol "H") == SylvInst.H0 D k E ->
    sol' "H" == push D k k (pw_fib p) (sol "H") ->
    sol' "U" == push D k k (pw_fib p) (sol "U") /\ sol' "U†" == push D k k (pw_fib p) (sol "U†")
    /\ sol' "H_tilde" == push D k k (pw_fib p) (sol "H_tilde").
Proof.
  intros D k R0 r0 r1 add mul sub opp req Ro Rg CS blk keep cm keep_sym keep_refl keep_blk cm_blk keep_eucl E inv
         Hinv Hreal HinvP Hopp Hconj p p_pos BA rflag rflag' fenv fenv' sol sol' Hrf Hfe Hrf' Hfe' Hsol Hsol' Hh Hz Hin.
  exact (push_covariant D k k blk keep cm keep_sym keep_refl keep_blk cm_blk (pw p) (pw_fib p)
           (fun n a L => pw_fib_spec p p_pos k n a L) (fun n _ => pw_fib_nodup p n) (pw_len p k)
           (fun a b La Lb => pw_padd p p_pos a b (eq_trans La (eq_sym Lb))) (pw_zero p p_pos k) (fun a _ => pw_deg p p_pos a)
           E Hreal keep_eucl inv Hinv HinvP Hopp Hconj
           rflag fenv rflag' fenv' Hrf Hfe Hrf' Hfe' sol sol' Hsol Hsol' Hh Hz Hin).
Qed.
Print Assumptions C13_power.

Example C13_power_applies :
  pw_fib 2 (cons 4%nat (cons 1%nat nil)) = cons (cons 2%nat (cons 1%nat nil)) nil
  /\ pw_fib 2 (cons 3%nat (cons 1%nat nil)) = nil.
Proof. split; reflexivity. Qed.

(** the structural hypotheses hold for the example instance (3 states, blocks {0,1} | {2},
    energies 0, 1, 2 over Q, solver = field inverse) *)
Example C13_instance_hypotheses :
  (forall p q, (p < 3)%nat -> (q < 3)%nat -> ex_keep p q = false ->
               (ex_E p - ex_E q) * ex_inv (ex_E p - ex_E q) == 1)
  /\ (forall p, conj (ex_E p) == ex_E p) /\ Proper (_==_ ==> _==_) ex_inv
  /\ (forall x, ex_inv (- x) == - ex_inv x) /\ (forall x, conj (ex_inv x) == ex_inv (conj x))
  /\ keep_eucl_on 3 ex_keep ex_cm.
Proof.
  exact (Logic.conj ex_inv_spec (Logic.conj ex_E_real (Logic.conj ex_inv_P (Logic.conj ex_inv_opp
           (Logic.conj ex_inv_conj ex_eucl))))).
Qed.

(** computational confirmation on the implementation's values (Alg/MainWitness.v, 4 states, 3 blocks,
    2 parameters, order <= 2): the tables rescaled with c = (2, -1/2), and the tables with the two
    parameters exchanged, again satisfy every equation of [main_alg] *)
Example C13_witness :
  wit_check main_wit_sols = true
  /\ wit_check (smap (fun n z => QLemmas.gq_mul (cpow wit_c n) z) main_wit_sols) = true
  /\ wit_check (skey (fun n => match n with cons a (cons b nil) => cons b (cons a nil) | _ => n end) main_wit_sols) = true.
Proof. exact (Logic.conj wit_base (Logic.conj wit_scale wit_swap)). Qed.

(** * Non-Hermitian mode (hermitian=False, program [nonhermitian_alg])

    The same relations for ANY solutions [sol], [sol'] of the generated non-Hermitian program.  They
    are named _partial because of ONE extra hypothesis, needed on both sides: kept matrix elements
    connect equal unperturbed energies ([kept_equal]; for the re-parametrisations the two sides share
    the mask and the energies, so it is stated once).  Outside this class the non-Hermitian program
    does not satisfy its own defining conditions (known finding C05-kept-distinct-energies), so
    uniqueness cannot be applied; the oracle tests the relations there as well.  Not assumed: real
    energies, Hermitian input, real scalars.  [U†] names the third output (U_inv). *)
From PV.Alg Require Import UniqueNH NonHerm.
From PV.Series Require Import SymNH SymNHInst.

(** scaling by arbitrary (complex) scalars c_1 .. c_k *)
Theorem C13_scale_nh_partial :
  forall (D k : nat) (R0 : Type) (r0 r1 : R0) (add mul sub : R0 -> R0 -> R0) (opp : R0 -> R0) (req : R0 -> R0 -> Prop)
         (Ro : @Ring_ops R0 r0 r1 add mul sub opp req) (Rg : @Ring R0 r0 r1 add mul sub opp req Ro) (CS : CStar R0)
         (blk : nat -> nat) (keep : nat -> nat -> bool) (cm : nat -> bool)
         (keep_sym : forall p q, keep p q = keep q p) (keep_refl : forall p, keep p p = true)
         (keep_blk : forall p q, keep p q = true -> blk p = blk q) (cm_blk : forall p q, blk p = blk q -> cm p = cm q)
         (E : nat -> R0) (inv : R0 -> R0)
         (inv_spec : forall p q, (p < D)%nat -> (q < D)%nat -> keep p q = false -> (E p - E q) * inv (E p - E q) == 1)
         (kept_equal : forall p q, (p < D)%nat -> (q < D)%nat -> keep p q = true -> E p == E q)
         (c : list R0),
    let BAs := series_BlockAlg D k blk keep cm keep_sym keep_blk cm_blk in
    let BAt := series_BlockAlg D k blk keep cm keep_sym keep_blk cm_blk in
    forall (gflag gflag' : string -> bool)
           (rflag : string -> T D k R0 -> T D k R0) (fenv : string -> list (T D k R0) -> T D k R0)
           (rflag' : string -> T D k R0 -> T D k R0) (fenv' : string -> list (T D k R0) -> T D k R0)
           (sol : string -> T D k R0) (sol' : string -> T D k R0),
    (forall y, fenv "solve_sylvester" (cons y nil) == SylvInst.sylv E inv y) ->
    (forall y, fenv' "solve_sylvester" (cons y nil) == SylvInst.sylv E inv y) ->
    solution (BA := BAs) gflag rflag fenv sol nonhermitian_alg ->
    solution (BA := BAt) gflag' rflag' fenv' sol' nonhermitian_alg ->
    Zc (BlockAlg := BAs) (sol "H") == SylvInst.H0 D k E ->
    sol' "H" == pscale D k c (sol "H") ->
    sol' "U" == pscale D k c (sol "U") /\ sol' "U†" == pscale D k c (sol "U†")
    /\ sol' "H_tilde" == pscale D k c (sol "H_tilde").
Proof.
  intros D k R0 r0 r1 add mul sub opp req Ro Rg CS blk keep cm keep_sym keep_refl keep_blk cm_blk E inv inv_spec kept_equal c BAs BAt gflag gflag' rflag fenv rflag' fenv' sol sol' Hfe Hfe' Hsol Hsol' Hz Hin.
  exact (scale_nh D k blk keep cm keep_sym keep_refl keep_blk cm_blk E inv inv_spec kept_equal c gflag gflag' rflag fenv rflag' fenv' Hfe Hfe' sol sol' Hsol Hsol' Hz Hin).
Qed.
Print Assumptions C13_scale_nh_partial.

(** permutation of the parameters *)
Theorem C13_permute_nh_partial :
  forall (D k : nat) (R0 : Type) (r0 r1 : R0) (add mul sub : R0 -> R0 -> R0) (opp : R0 -> R0) (req : R0 -> R0 -> Prop)
         (Ro : @Ring_ops R0 r0 r1 add mul sub opp req) (Rg : @Ring R0 r0 r1 add mul sub opp req Ro) (CS : CStar R0)
         (blk : nat -> nat) (keep : nat -> nat -> bool) (cm : nat -> bool)
         (keep_sym : forall p q, keep p q = keep q p) (keep_refl : forall p, keep p p = true)
         (keep_blk : forall p q, keep p q = true -> blk p = blk q) (cm_blk : forall p q, blk p = blk q -> cm p = cm q)
         (E : nat -> R0) (inv : R0 -> R0)
         (inv_spec : forall p q, (p < D)%nat -> (q < D)%nat -> keep p q = false -> (E p - E q) * inv (E p - E q) == 1)
         (kept_equal : forall p q, (p < D)%nat -> (q < D)%nat -> keep p q = true -> E p == E q)
         (sg sg' : list nat) (sg_len : List.length sg = k) (sg_len' : List.length sg' = k)
         (sg_inv : List.map (fun j => List.nth j sg k) sg' = List.seq 0 k)
         (sg_inv' : List.map (fun j => List.nth j sg' k) sg = List.seq 0 k),
    let BAs := series_BlockAlg D k blk keep cm keep_sym keep_blk cm_blk in
    let BAt := series_BlockAlg D k blk keep cm keep_sym keep_blk cm_blk in
    forall (gflag gflag' : string -> bool)
           (rflag : string -> T D k R0 -> T D k R0) (fenv : string -> list (T D k R0) -> T D k R0)
           (rflag' : string -> T D k R0 -> T D k R0) (fenv' : string -> list (T D k R0) -> T D k R0)
           (sol : string -> T D k R0) (sol' : string -> T D k R0),
    (forall y, fenv "solve_sylvester" (cons y nil) == SylvInst.sylv E inv y) ->
    (forall y, fenv' "solve_sylvester" (cons y nil) == SylvInst.sylv E inv y) ->
    solution (BA := BAs) gflag rflag fenv sol nonhermitian_alg ->
    solution (BA := BAt) gflag' rflag' fenv' sol' nonhermitian_alg ->
    Zc (BlockAlg := BAs) (sol "H") == SylvInst.H0 D k E ->
    sol' "H" == pull D k (pm sg) (sol "H") ->
    sol' "U" == pull D k (pm sg) (sol "U") /\ sol' "U†" == pull D k (pm sg) (sol "U†")
    /\ sol' "H_tilde" == pull D k (pm sg) (sol "H_tilde").
Proof.
  intros D k R0 r0 r1 add mul sub opp req Ro Rg CS blk keep cm keep_sym keep_refl keep_blk cm_blk E inv inv_spec kept_equal sg sg' sg_len sg_len' sg_inv sg_inv' BAs BAt gflag gflag' rflag fenv rflag' fenv' sol sol' Hfe Hfe' Hsol Hsol' Hz Hin.
  exact (pull_nh D k blk keep cm keep_sym keep_refl keep_blk cm_blk E inv inv_spec kept_equal (pm sg) (pm sg') (pm_len k sg sg_len) (pm_len' k sg' sg_len') (pm_gf k sg sg' sg_len sg_inv) (pm_fg k sg sg' sg_len' sg_inv') (pm_padd k sg) (pm_deg k sg sg' sg_len sg_len' sg_inv') gflag gflag' rflag fenv rflag' fenv' Hfe Hfe' sol sol' Hsol Hsol' Hz Hin).
Qed.
Print Assumptions C13_permute_nh_partial.

(** a vanishing perturbation added as new first parameter *)
Theorem C13_vanishing_nh_partial :
  forall (D k : nat) (R0 : Type) (r0 r1 : R0) (add mul sub : R0 -> R0 -> R0) (opp : R0 -> R0) (req : R0 -> R0 -> Prop)
         (Ro : @Ring_ops R0 r0 r1 add mul sub opp req) (Rg : @Ring R0 r0 r1 add mul sub opp req Ro) (CS : CStar R0)
         (blk : nat -> nat) (keep : nat -> nat -> bool) (cm : nat -> bool)
         (keep_sym : forall p q, keep p q = keep q p) (keep_refl : forall p, keep p p = true)
         (keep_blk : forall p q, keep p q = true -> blk p = blk q) (cm_blk : forall p q, blk p = blk q -> cm p = cm q)
         (E : nat -> R0) (inv : R0 -> R0)
         (inv_spec : forall p q, (p < D)%nat -> (q < D)%nat -> keep p q = false -> (E p - E q) * inv (E p - E q) == 1)
         (kept_equal : forall p q, (p < D)%nat -> (q < D)%nat -> keep p q = true -> E p == E q),
    let BAs := series_BlockAlg D k blk keep cm keep_sym keep_blk cm_blk in
    let BAt := series_BlockAlg D (S k) blk keep cm keep_sym keep_blk cm_blk in
    forall (gflag gflag' : string -> bool)
           (rflag : string -> T D k R0 -> T D k R0) (fenv : string -> list (T D k R0) -> T D k R0)
           (rflag' : string -> T D (S k) R0 -> T D (S k) R0) (fenv' : string -> list (T D (S k) R0) -> T D (S k) R0)
           (sol : string -> T D k R0) (sol' : string -> T D (S k) R0),
    (forall y, fenv "solve_sylvester" (cons y nil) == SylvInst.sylv E inv y) ->
    (forall y, fenv' "solve_sylvester" (cons y nil) == SylvInst.sylv E inv y) ->
    solution (BA := BAs) gflag rflag fenv sol nonhermitian_alg ->
    solution (BA := BAt) gflag' rflag' fenv' sol' nonhermitian_alg ->
    Zc (BlockAlg := BAs) (sol "H") == SylvInst.H0 D k E ->
    sol' "H" == vanish D k (sol "H") ->
    sol' "U" == vanish D k (sol "U") /\ sol' "U†" == vanish D k (sol "U†")
    /\ sol' "H_tilde" == vanish D k (sol "H_tilde").
Proof.
  intros D k R0 r0 r1 add mul sub opp req Ro Rg CS blk keep cm keep_sym keep_refl keep_blk cm_blk E inv inv_spec kept_equal BAs BAt gflag gflag' rflag fenv rflag' fenv' sol sol' Hfe Hfe' Hsol Hsol' Hz Hin.
  exact (vanish_nh D k blk keep cm keep_sym keep_refl keep_blk cm_blk E inv inv_spec kept_equal gflag gflag' rflag fenv rflag' fenv' Hfe Hfe' sol sol' Hsol Hsol' Hz Hin).
Qed.
Print Assumptions C13_vanishing_nh_partial.

(** the first two of k+2 parameters given the same name *)
Theorem C13_merge_nh_partial :
  forall (D k : nat) (R0 : Type) (r0 r1 : R0) (add mul sub : R0 -> R0 -> R0) (opp : R0 -> R0) (req : R0 -> R0 -> Prop)
         (Ro : @Ring_ops R0 r0 r1 add mul sub opp req) (Rg : @Ring R0 r0 r1 add mul sub opp req Ro) (CS : CStar R0)
         (blk : nat -> nat) (keep : nat -> nat -> bool) (cm : nat -> bool)
         (keep_sym : forall p q, keep p q = keep q p) (keep_refl : forall p, keep p p = true)
         (keep_blk : forall p q, keep p q = true -> blk p = blk q) (cm_blk : forall p q, blk p = blk q -> cm p = cm q)
         (E : nat -> R0) (inv : R0 -> R0)
         (inv_spec : forall p q, (p < D)%nat -> (q < D)%nat -> keep p q = false -> (E p - E q) * inv (E p - E q) == 1)
         (kept_equal : forall p q, (p < D)%nat -> (q < D)%nat -> keep p q = true -> E p == E q),
    let BAs := series_BlockAlg D (S (S k)) blk keep cm keep_sym keep_blk cm_blk in
    let BAt := series_BlockAlg D (S k) blk keep cm keep_sym keep_blk cm_blk in
    forall (gflag gflag' : string -> bool)
           (rflag : string -> T D (S (S k)) R0 -> T D (S (S k)) R0) (fenv : string -> list (T D (S (S k)) R0) -> T D (S (S k)) R0)
           (rflag' : string -> T D (S k) R0 -> T D (S k) R0) (fenv' : string -> list (T D (S k) R0) -> T D (S k) R0)
           (sol : string -> T D (S (S k)) R0) (sol' : string -> T D (S k) R0),
    (forall y, fenv "solve_sylvester" (cons y nil) == SylvInst.sylv E inv y) ->
    (forall y, fenv' "solve_sylvester" (cons y nil) == SylvInst.sylv E inv y) ->
    solution (BA := BAs) gflag rflag fenv sol nonhermitian_alg ->
    solution (BA := BAt) gflag' rflag' fenv' sol' nonhermitian_alg ->
    Zc (BlockAlg := BAs) (sol "H") == SylvInst.H0 D (S (S k)) E ->
    sol' "H" == push D (S k) (S (S k)) mrg_fib (sol "H") ->
    sol' "U" == push D (S k) (S (S k)) mrg_fib (sol "U") /\ sol' "U†" == push D (S k) (S (S k)) mrg_fib (sol "U†")
    /\ sol' "H_tilde" == push D (S k) (S (S k)) mrg_fib (sol "H_tilde").
Proof.
  intros D k R0 r0 r1 add mul sub opp req Ro Rg CS blk keep cm keep_sym keep_refl keep_blk cm_blk E inv inv_spec kept_equal BAs BAt gflag gflag' rflag fenv rflag' fenv' sol sol' Hfe Hfe' Hsol Hsol' Hz Hin.
  exact (push_nh (S (S k)) D (S k) blk keep cm keep_sym keep_refl keep_blk cm_blk E inv inv_spec kept_equal mrg mrg_fib (fun n a L => mrg_fib_spec k n a L) (fun n _ => mrg_fib_nodup n) (mrg_len k) (mrg_padd k) (mrg_zero k) (mrg_deg k) gflag gflag' rflag fenv rflag' fenv' Hfe Hfe' sol sol' Hsol Hsol' Hz Hin).
Qed.
Print Assumptions C13_merge_nh_partial.

(** lambda -> lambda^p in the first parameter *)
Theorem C13_power_nh_partial :
  forall (D k : nat) (R0 : Type) (r0 r1 : R0) (add mul sub : R0 -> R0 -> R0) (opp : R0 -> R0) (req : R0 -> R0 -> Prop)
         (Ro : @Ring_ops R0 r0 r1 add mul sub opp req) (Rg : @Ring R0 r0 r1 add mul sub opp req Ro) (CS : CStar R0)
         (blk : nat -> nat) (keep : nat -> nat -> bool) (cm : nat -> bool)
         (keep_sym : forall p q, keep p q = keep q p) (keep_refl : forall p, keep p p = true)
         (keep_blk : forall p q, keep p q = true -> blk p = blk q) (cm_blk : forall p q, blk p = blk q -> cm p = cm q)
         (E : nat -> R0) (inv : R0 -> R0)
         (inv_spec : forall p q, (p < D)%nat -> (q < D)%nat -> keep p q = false -> (E p - E q) * inv (E p - E q) == 1)
         (kept_equal : forall p q, (p < D)%nat -> (q < D)%nat -> keep p q = true -> E p == E q)
         (p : nat) (p_pos : (0 < p)%nat),
    let BAs := series_BlockAlg D k blk keep cm keep_sym keep_blk cm_blk in
    let BAt := series_BlockAlg D k blk keep cm keep_sym keep_blk cm_blk in
    forall (gflag gflag' : string -> bool)
           (rflag : string -> T D k R0 -> T D k R0) (fenv : string -> list (T D k R0) -> T D k R0)
           (rflag' : string -> T D k R0 -> T D k R0) (fenv' : string -> list (T D k R0) -> T D k R0)
           (sol : string -> T D k R0) (sol' : string -> T D k R0),
    (forall y, fenv "solve_sylvester" (cons y nil) == SylvInst.sylv E inv y) ->
    (forall y, fenv' "solve_sylvester" (cons y nil) == SylvInst.sylv E inv y) ->
    solution (BA := BAs) gflag rflag fenv sol nonhermitian_alg ->
    solution (BA := BAt) gflag' rflag' fenv' sol' nonhermitian_alg ->
    Zc (BlockAlg := BAs) (sol "H") == SylvInst.H0 D k E ->
    sol' "H" == push D k k (pw_fib p) (sol "H") ->
    sol' "U" == push D k k (pw_fib p) (sol "U") /\ sol' "U†" == push D k k (pw_fib p) (sol "U†")
    /\ sol' "H_tilde" == push D k k (pw_fib p) (sol "H_tilde").
Proof.
  intros D k R0 r0 r1 add mul sub opp req Ro Rg CS blk keep cm keep_sym keep_refl keep_blk cm_blk E inv inv_spec kept_equal p p_pos BAs BAt gflag gflag' rflag fenv rflag' fenv' sol sol' Hfe Hfe' Hsol Hsol' Hz Hin.
  exact (push_nh k D k blk keep cm keep_sym keep_refl keep_blk cm_blk E inv inv_spec kept_equal (pw p) (pw_fib p) (fun n a L => pw_fib_spec p p_pos k n a L) (fun n _ => pw_fib_nodup p n) (pw_len p k) (fun a b La Lb => pw_padd p p_pos a b (eq_trans La (eq_sym Lb))) (pw_zero p p_pos k) (fun a _ => pw_deg p p_pos a) gflag gflag' rflag fenv rflag' fenv' Hfe Hfe' sol sol' Hsol Hsol' Hz Hin).
Qed.
Print Assumptions C13_power_nh_partial.

(** non-vacuity: the maps are [SGHom]s on the example instance; the scalars may be non-real only over a
    ring with non-trivial conjugation, here the rational example with c = (2, 1/2) *)
Example C13_nh_applies :
  SGHom (BA := ex_BA) (BA' := ex_BA) (pscale 3 2 (cons (QArith_base.Qmake 2 1) (cons (QArith_base.Qmake 1 2) nil)))
  /\ SGHom (BA := series_BlockAlg 3 2 ex_blk ex_keep ex_cm ex_keep_sym ex_keep_blk ex_cm_blk)
           (BA' := series_BlockAlg 3 1 ex_blk ex_keep ex_cm ex_keep_sym ex_keep_blk ex_cm_blk) (push 3 1 2 mrg_fib).
Proof.
  split.
  - exact (pscale_SGHom 3 2 ex_blk ex_keep ex_cm ex_keep_sym ex_keep_blk ex_cm_blk _).
  - apply LAHom_SGHom.
    exact (push_LAHom 3 1 2 ex_blk ex_keep ex_cm ex_keep_sym ex_keep_blk ex_cm_blk mrg mrg_fib
             (fun n a L => mrg_fib_spec 0 n a L) (fun n _ => mrg_fib_nodup n) (mrg_len 0) (mrg_padd 0) (mrg_zero 0) (mrg_deg 0)).
Qed.
