(** * C07, mask laws of apply_mask_to_operator (NOF-dependent piece of C07)

  Property text (properties.jsonl, id C07): "... each order of the operator-valued H_tilde and U
  returned by block_diagonalize has the same matrix elements ... including operator-valued
  elimination masks and matrix-valued Hamiltonians. ..."  The generic theorems C01-C03 need the
  selection map to be additive and idempotent, to split every operator into a kept and an
  eliminated part, and to commute with the adjoint (for masks closed under negation of powers) and
  with multiplication by functions of number operators.

  Model: PV.NOF.Mask.apply_mask (one matrix element of apply_mask_to_operator =
  NumberOrderedForm.filter_terms with the keys of the mask element as conditions; condition entries
  are integers or symbolic powers k + n / k - n, n a positive integer symbol), tied to the code by
  tools/harness/k_nof.tie_mask. *)
Require Import List ZArith QArith Bool.
Require Import PV.NOF.Gauss PV.NOF.Coeff PV.NOF.Fock PV.NOF.FockLemmas PV.NOF.LinComb PV.NOF.Model
  PV.NOF.NofProof PV.NOF.Mask PV.NOF.C08Lemmas PV.NOF.C16C07Lemmas.
Import ListNotations.
Local Open Scope Z_scope.

Theorem C07_mask_additive : forall x y conds keep,
  apply_mask (add x y) conds keep = add (apply_mask x conds keep) (apply_mask y conds keep).
Proof. exact mask_additive. Qed.
Print Assumptions C07_mask_additive.

Theorem C07_mask_idempotent : forall x conds keep,
  apply_mask (apply_mask x conds keep) conds keep = apply_mask x conds keep.
Proof. exact mask_idempotent. Qed.
Print Assumptions C07_mask_idempotent.

(** keep=True and keep=False parts sum to the operator (as Fock-space operators, and term by term) *)
Theorem C07_mask_partition : forall ks x conds n,
  lc_eq (den ks (apply_mask x conds true) n ++ den ks (apply_mask x conds false) n) (den ks x n).
Proof. exact mask_partition. Qed.
Print Assumptions C07_mask_partition.
Theorem C07_mask_partition_terms : forall x conds t,
  In t x <-> In t (apply_mask x conds true) \/ In t (apply_mask x conds false).
Proof. exact mask_partition_keys. Qed.
Print Assumptions C07_mask_partition_terms.

Theorem C07_mask_adjoint : forall x conds keep,
  (forall p, matches conds (map Z.opp p) = matches conds p) ->
  apply_mask (adj x) conds keep = adj (apply_mask x conds keep).
Proof. exact mask_adjoint. Qed.
Print Assumptions C07_mask_adjoint.

(** selection commutes with multiplication by a function of number operators (hence with [H_0, .]) *)
Theorem C07_mask_number : forall ks x e conds keep,
  NoDup (map fst x) ->
  apply_mask (mulexpr ks x e) conds keep = mulexpr ks (apply_mask x conds keep) e.
Proof. exact mask_mulexpr. Qed.
Print Assumptions C07_mask_number.

Example C07_mask_nonvacuous :
  (forall p, matches ex_conds (map Z.opp p) = matches ex_conds p) /\
  apply_mask ex_x ex_conds true <> [] /\ apply_mask ex_x ex_conds false <> [].
Proof. exact c07_ex_nonvacuous. Qed.
