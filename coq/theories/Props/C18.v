(* Props/C18.v

   C18  "cauchy_dot_product is the multivariate Cauchy product"

   For any number of block series with compatible shapes, element (i,j,n) of
   cauchy_dot_product equals the sum over intermediate blocks and over all
   splittings of the multi-order n of the products of the factors' elements, with
   the zero and one sentinels acting as absent term and identity.  Declaring
   hermitian=True for a product that is Hermitian does not change any value, and an
   order of a factor is requested only if the complementary orders of the other
   factors are present.

   Models: PySeries/Sentinel.v, Cache.v, ProductByOrder.v, CauchyDot.v (tied to
   /repo/pymablock/series.py by tools/harness/k_cauchydot.py).
   Value ring: any Ncring.Ring T with an additive involution `adj`; tadd/tmul are
   its + and *;  sden : sval T -> T  is the denotation of values and sentinels
   (zero -> 0, one -> 1).
   Non-vacuity examples: PySeries/C18Examples.v, PySeries/C18Refuted.v.

   All value theorems have the form "IF a value is returned THEN it denotes the sum".
   The model (like the code) can instead raise: exceptions of the factors' evals, and
   TypeError / SympifyError of the sentinel arithmetic when `one` is not the only
   non-zero term of an element (`one + x`, `x + one`, `Dagger(one)` in the half-sum).
   The latter is the KNOWN FINDING C18-one-plus-term (known_findings.json); the invalid
   half-sum for non-adjoint factors is the KNOWN FINDING C18-halfsum-nonadjoint
   (C18_herm_halfsum_refuted below).
*)

Require Import Ncring Setoid Morphisms List Bool.
Import ListNotations.
Require Import PV.PySeries.Sentinel PV.PySeries.Cache PV.PySeries.ProductByOrder
        PV.PySeries.CauchyDot PV.PySeries.MultiIndex PV.PySeries.RSum PV.PySeries.PBOProofs
        PV.PySeries.PBOLazy PV.PySeries.CauchyProofs PV.PySeries.AssocProofs
        PV.PySeries.C18Refuted.

(* The enumeration of product_by_order is "all splittings, each once":
   a ranges over the multi-orders with a <= n pointwise, b = msub n a is the
   complement (a + b = n), the middle index over range(mid). *)
Theorem C18_splittings :
  forall (mid : nat) (n : mi),
    NoDup (enumeration mid n) /\
    (forall k a, In (k, a) (enumeration mid n) <-> k < mid /\ Forall2 le a n) /\
    (forall a, Forall2 le a n -> madd a (msub n a) = n).
Proof.
  intros mid n. split. apply NoDup_enumeration. split. apply enumeration_in. apply madd_msub.
Qed.
Print Assumptions C18_splittings.

(* product_by_order with hermitian=False, for all shapes (mid), numbers of
   perturbations (length of orders) and sentinel patterns.  The factor accessors are
   arbitrary stateful operations (caches, evaluation on demand, exceptions) that,
   while an invariant Inv of the state holds, return values denoting F1 / F2 and
   whose `in` test is False only for elements denoting 0.  If a value is returned it
   denotes the full Cauchy sum
       sum_{k < mid} sum_{a <= orders} F1(start,k,a) * F2(k,end,orders-a).
   (Other outcomes: an exception of a factor, TypeError from `one + x`, out of fuel.) *)
Theorem C18_pbo :
  forall (T : Type) (ring0 ring1 : T) (add mul sub : T -> T -> T) (opp : T -> T)
         (ring_eq : T -> T -> Prop) (Ro : Ring_ops) (Rg : @Ring T ring0 ring1 add mul sub opp ring_eq Ro)
         (adj : T -> T),
    Proper (_==_ ==> _==_) adj ->
    (forall x y, adj (x + y) == adj x + adj y) ->
    forall (St : Type) (has1 has2 : index -> St -> bool)
           (get1 get2 : index -> St -> res pyerr (sval T) * St)
           (Inv : St -> Prop) (F1 F2 : index -> T),
      get_ok Inv get1 F1 -> get_ok Inv get2 F2 -> has_ok Inv has1 F1 -> has_ok Inv has2 F2 ->
      forall (mid start end_ : nat) (orders : mi) (st : St),
        Inv st ->
        let r := product_by_order tadd tmul adj has1 has2 get1 get2 false mid start end_ orders st in
        Inv (snd r) /\
        forall v, fst r = Ok v -> sden v == cauchy_sum F1 F2 mid start end_ orders.
Proof. intros. eapply pbo_full_sum; eauto. Qed.
Print Assumptions C18_pbo.

(* The whole model: any world of base series and products built by
   cauchy_dot_product (any nesting, any request history, any cache contents
   satisfying the invariant, any fuel): a returned element of a product series
   denotes the Cauchy sum of the specifications of its two factors.  The Hermitian
   modes are included under their hypotheses (prod_ok: product Hermitian for the
   wrapper, factors mutually adjoint for the half-sum). *)
Theorem C18_world_sound :
  forall (T : Type) (ring0 ring1 : T) (add mul sub : T -> T -> T) (opp : T -> T)
         (ring_eq : T -> T -> Prop) (Ro : Ring_ops) (Rg : @Ring T ring0 ring1 add mul sub opp ring_eq Ro)
         (adj : T -> T),
    Proper (_==_ ==> _==_) adj ->
    (forall x y, adj (x + y) == adj x + adj y) ->
    (forall x y, adj (x * y) == adj y * adj x) ->
    (forall x, adj (adj x) == x) ->
    forall (descs : list (sdesc T)) (spec : sid -> index -> T),
      base_ok descs spec -> prod_ok adj descs spec ->
      forall (fuel : nat) (s : sid) (i : index) (w : world (sval T)),
        winv spec w ->
        let r := cdp_getitem tadd tmul adj descs fuel s i w in
        winv spec (snd r) /\ forall v, fst r = Ok v -> sden v == spec s i.
Proof. intros. eapply cdp_sound; eauto. Qed.
Print Assumptions C18_world_sound.

(* More than two factors: the left-associated product cdp(cdp(f0,g1),g2,...) is the
   sum, over EVERY duplicate-free enumeration L of all chains of intermediate block
   indices ks (bounded by the shapes) and all splittings ps of n into one part per
   factor (path_ok), of the products of the factors' elements (termR).  Lists are in
   reversed order (last factor first). *)
Theorem C18_assoc :
  forall (T : Type) (ring0 ring1 : T) (add mul sub : T -> T -> T) (opp : T -> T)
         (ring_eq : T -> T -> Prop) (Ro : Ring_ops) (Rg : @Ring T ring0 ring1 add mul sub opp ring_eq Ro)
         (f0 : fac) (rest : list (nat * fac)) (i j : nat) (n : mi)
         (L : list (list nat * list mi)),
    NoDup L ->
    (forall ks ps, In (ks, ps) L <-> path_ok (map fst (rev rest)) n ks ps) ->
    lprod f0 rest i j n == bigsum (fun kp => termR f0 (rev rest) i j (fst kp) (snd kp)) L.
Proof. intros. eapply lprod_all_splittings; eauto. Qed.
Print Assumptions C18_assoc.

(* Laziness (factors = pure tables V1, V2 with `in` tests K1, K2; the state is the
   access log): every element requested by product_by_order comes from a pair
   (k, a) of the enumeration not skipped by the Hermitian rule, whose two
   complementary elements are both `in` their series, and if it was requested second
   (cost rule) the element requested first was not the sentinel zero. *)
Theorem C18_lazy :
  forall (R : Type) (radd rmul : R -> R -> R) (radj : R -> R)
         (V1 V2 : index -> sval R) (K1 K2 : index -> bool)
         (hermitian : bool) (mid s e : nat) (n : mi) (l0 : alog),
  exists l,
    snd (lpbo radd rmul radj V1 V2 K1 K2 hermitian mid s e n l0) = l0 ++ l /\
    Forall (justified V1 V2 K1 K2 (hermitian && Nat.eqb s e) s e n (enumeration mid n)) l.
Proof. intros. apply pbo_lazy. Qed.
Print Assumptions C18_lazy.

(* hermitian=True, index transposition (two-factor and many-factor wrapper): valid
   for every Hermitian product P. *)
Theorem C18_herm_transpose :
  forall (T : Type) (ring0 ring1 : T) (add mul sub : T -> T -> T) (opp : T -> T)
         (ring_eq : T -> T -> Prop) (Ro : Ring_ops) (Rg : @Ring T ring0 ring1 add mul sub opp ring_eq Ro)
         (adj : T -> T),
    Proper (_==_ ==> _==_) adj ->
    (forall x y, adj (x + y) == adj x + adj y) ->
    forall (descs : list (sdesc T)) (P : index -> T) s h m a b
           (g : callback (sval T) pyerr) start end_ orders w,
      nth_error descs s = Some (SProd h m a b) ->
      mode_wraps m = true ->
      Nat.ltb end_ start = true ->
      (forall i j n, P (i :: j :: n) == adj (P (j :: i :: n))) ->
      (forall v, fst (g s (end_ :: start :: orders) w) = Ok v -> sden v == P (end_ :: start :: orders)) ->
      forall d, fst (cdp_eval tadd tmul adj descs s g (start :: end_ :: orders) w) = Ok d ->
                sden d == P (start :: end_ :: orders).
Proof. intros. eapply herm_transpose; eauto. Qed.
Print Assumptions C18_herm_transpose.

(* hermitian=True, half-sum on a diagonal block: PARTIAL - proved under the
   hypothesis that the factors are mutual adjoints, second(k,i,a) = adj first(i,k,a),
   which is narrower than the property ("a product that is Hermitian"); see the
   refuted instance below. *)
Theorem C18_herm_halfsum_partial :
  forall (T : Type) (ring0 ring1 : T) (add mul sub : T -> T -> T) (opp : T -> T)
         (ring_eq : T -> T -> Prop) (Ro : Ring_ops) (Rg : @Ring T ring0 ring1 add mul sub opp ring_eq Ro)
         (adj : T -> T),
    Proper (_==_ ==> _==_) adj ->
    (forall x y, adj (x + y) == adj x + adj y) ->
    (forall x y, adj (x * y) == adj y * adj x) ->
    (forall x, adj (adj x) == x) ->
    forall (St : Type) (has1 has2 : index -> St -> bool)
           (get1 get2 : index -> St -> res pyerr (sval T) * St)
           (Inv : St -> Prop) (F1 F2 : index -> T),
      get_ok Inv get1 F1 -> get_ok Inv get2 F2 -> has_ok Inv has1 F1 -> has_ok Inv has2 F2 ->
      forall (mid i : nat) (orders : mi) (st : St),
        (forall k a, F2 (k :: i :: a) == adj (F1 (i :: k :: a))) ->
        Inv st ->
        forall v, fst (product_by_order tadd tmul adj has1 has2 get1 get2 true mid i i orders st) = Ok v ->
                  sden v == cauchy_sum F1 F2 mid i i orders.
Proof. intros. eapply pbo_halfsum_adjoint; eauto. Qed.
Print Assumptions C18_herm_halfsum_partial.

(* REFUTED on the faithful model (and on the implementation: known finding
   C18-halfsum-nonadjoint): A = 1 + 2 lambda, B = 1 + lambda, 1x1 blocks of integers.
   The exact product is Hermitian and its element (0,0,1) is 3; hermitian=False
   returns 3, hermitian=True returns 2. *)
Theorem C18_herm_halfsum_refuted :
  exists A B : index -> sval BinNums.Z,
    (forall n, exact_prod A B n = zadj (exact_prod A B n)) /\
    exact_prod A B (S O) = BinNums.Zpos (BinNums.xI BinNums.xH) /\
    model_element A B false [O; O; S O] = Some (Ok (SVal (BinNums.Zpos (BinNums.xI BinNums.xH)))) /\
    model_element A B true [O; O; S O] = Some (Ok (SVal (BinNums.Zpos (BinNums.xO BinNums.xH)))).
Proof. exact halfsum_refuted. Qed.
Print Assumptions C18_herm_halfsum_refuted.
