(** C03 - Result is the unique least-action (Schrieffer-Wolff) transformation.

    [C03_gauge]: at every order the anti-Hermitian part of U - 1 has no kept matrix element.
    [C03_is_least_action]: the computed U satisfies the four defining conditions (no order-zero
    correction, unitarity, elimination, gauge) - stated with the plain products, never read
    off H_tilde.  [C03_unique]: any two transformations satisfying them for the same H
    coincide, provided x |-> [H_0, x] is injective on eliminated elements, witnessed by a left
    inverse (true for the built-in solvers whenever eliminated elements connect distinct
    energies, which is what the library validates).  Hence H_tilde, U, U† coincide with the
    output of ANY procedure that solves the defining equations (the independent reference
    solver of the oracle o_reference is one).  Same quantification as C01. *)
Require Import Ncring String List Morphisms.
From PV.Base Require Import Classes AlgLemmas.
From PV.DSL Require Import Syntax Sem.
From PV.Gen Require Import Algorithms_gen.
From PV.Alg Require Import MainLift MainCorrect Unique.
Open Scope string_scope.

Theorem C03_gauge :
  forall (T : Type) (r0 r1 : T) (add mul sub : T -> T -> T) (opp : T -> T) (req : T -> T -> Prop)
         (Ro : @Ring_ops T r0 r1 add mul sub opp req) (Rg : @Ring T r0 r1 add mul sub opp req Ro)
         (BA : BlockAlg T) (rflag : string -> T -> T) (fenv : string -> list T -> T) (sol : string -> T),
    solution (gflag_of false) rflag fenv sol main_alg -> wiring rflag fenv (sol "H") ->
    Sel (half ((sol "U" - 1) - adj (sol "U" - 1))) == 0.
Proof. intros. eapply gauge_general; eassumption. Qed.
Print Assumptions C03_gauge.

Theorem C03_is_least_action :
  forall (T : Type) (r0 r1 : T) (add mul sub : T -> T -> T) (opp : T -> T) (req : T -> T -> Prop)
         (Ro : @Ring_ops T r0 r1 add mul sub opp req) (Rg : @Ring T r0 r1 add mul sub opp req Ro)
         (BA : BlockAlg T) (rflag : string -> T -> T) (fenv : string -> list T -> T) (sol : string -> T),
    solution (gflag_of false) rflag fenv sol main_alg -> wiring rflag fenv (sol "H") ->
    least_action (sol "H") (sol "U").
Proof. intros. eapply main_least_action; eassumption. Qed.
Print Assumptions C03_is_least_action.

Theorem C03_unique :
  forall (T : Type) (r0 r1 : T) (add mul sub : T -> T -> T) (opp : T -> T) (req : T -> T -> Prop)
         (Ro : @Ring_ops T r0 r1 add mul sub opp req) (Rg : @Ring T r0 r1 add mul sub opp req Ro)
         (BA : BlockAlg T) (H : T) (sylv : T -> T),
    (forall x, Sel (comm (Zc H) x) == comm (Zc H) (Sel x)) ->
    Proper (_==_ ==> _==_) sylv ->
    (forall k y, ord k y -> ord k (sylv y)) ->
    (forall x, Rp (sylv (comm (Zc H) (Rp x))) == Rp x) ->
    forall U1 U2, least_action H U1 -> least_action H U2 -> U1 == U2.
Proof. intros. eapply least_action_unique; eassumption. Qed.
Print Assumptions C03_unique.

(** Two-block optimisation (two_block_optimized = True): same conclusions under [wiring_tb]. *)

Theorem C03_gauge_two_block :
  forall (T : Type) (r0 r1 : T) (add mul sub : T -> T -> T) (opp : T -> T) (req : T -> T -> Prop)
         (Ro : @Ring_ops T r0 r1 add mul sub opp req) (Rg : @Ring T r0 r1 add mul sub opp req Ro)
         (BA : BlockAlg T) (rflag : string -> T -> T) (fenv : string -> list T -> T) (sol : string -> T),
    solution (gflag_of true) rflag fenv sol main_alg ->
    wiring_tb rflag fenv (sol "H") ->
    Sel (half ((sol "U" - 1) - adj (sol "U" - 1))) == 0.
Proof. intros. eapply gauge_tb; eassumption. Qed.
Print Assumptions C03_gauge_two_block.

(** End-to-end form of the tie (see Props/C01.v, [C01_tie_conclusions]): for every k_semeq case
    where [check_alg] and [inputs_ok] evaluate to true, the least-action gauge condition holds for
    the implementation's tables up to total order N. *)
From PV.Alg Require Import SemExec SemExecSound TruncTie.
From PV.Series Require Import Exec.
From PV.Block Require Import QLemmas QInst.
Theorem C03_tie_gauge :
  forall (D k N : nat) (bl : list nat) (msk : list (list bool)) (cb : list bool) (El : list gq)
         (sols : list (string * tser gq)),
    check_alg D k N bl msk cb El false sols main_alg = true ->
    inputs_ok D k N bl msk cb El sols = true ->
    let BA := BAi D k bl msk cb in
    let sol := asol D k sols in
    eqN D k N (Sel (half ((sol "U" - 1) - adj (sol "U" - 1)))) 0.
Proof.
  intros D k N bl msk cb El sols H1 H2 BA sol.
  destruct (tie_conclusions D k N bl msk cb El sols H1 H2) as (_ & _ & _ & _ & _ & _ & g). exact g.
Qed.
Print Assumptions C03_tie_gauge.

(** ... and uniqueness: ANY U' satisfying the least-action conditions for the loaded H up to order
    N agrees with the implementation's U up to order N (uniqueness theorem of Alg/Unique.v in the
    truncated algebra; the left-inverse property of the diagonal solver is proved for the concrete
    instance, Series/SymBase.v). *)
Theorem C03_tie_unique :
  forall (D k N : nat) (bl : list nat) (msk : list (list bool)) (cb : list bool) (El : list gq)
         (sols : list (string * tser gq)),
    check_alg D k N bl msk cb El false sols main_alg = true ->
    inputs_ok D k N bl msk cb El sols = true ->
    let BA := BAi D k bl msk cb in
    let sol := asol D k sols in
    forall U' : Inst.T D k gq,
    ord 1 (U' - 1) ->
    eqN D k N (adj U' * U') 1 ->
    eqN D k N (Rp (adj U' * sol "H" * U')) 0 ->
    eqN D k N (Sel (half ((U' - 1) - adj (U' - 1)))) 0 ->
    eqN D k N U' (sol "U").
Proof.
  intros D k N bl msk cb El sols H1 H2 BA sol U' a b c d.
  exact (tie_unique D k N bl msk cb El sols H1 H2 U' a b c d).
Qed.
Print Assumptions C03_tie_unique.
