(** C07 (Fock-space part) - the theorems of C01/C02/C03 instantiated at operators on a
    countable Fock basis.

    Property text (properties.jsonl, id C07): "... each order of the operator-valued H_tilde
    and U returned by block_diagonalize has the same matrix elements ..." - the correctness
    statements of the Hermitian algorithm hold for operator-valued (second-quantised)
    Hamiltonians, not only for finite matrices.

    Algebra (Series/InstRCF.v, [rcf_BlockAlg]): multi-index formal power series in k
    parameters whose coefficients are INFINITE matrices indexed by nat x nat over a
    commutative star-ring R0 that are row-finite and column-finite (Block/RCF.v) - every
    polynomial in creation / annihilation operators acting on a countable Fock basis is one -
    with the Cauchy product, entry-wise conjugate transpose, a block labelling [blk] of the
    basis, a symmetric reflexive kept mask [keep] inside the blocks that is "euclidean" on
    the rows flagged commuting, a diagonal unperturbed Hamiltonian diag(E) with real
    energies and an inverse [inv] of the energy differences of all eliminated pairs
    (keep p q = false), used by the entry-wise solver [sylvF].  [solution ... main_alg] is
    the meaning (DSL/Sem.v) of the program GENERATED from /repo/pymablock/algorithms.py.
    All orders, all basis states at once; two_block_optimized = False. *)
Require Import Ncring String List Morphisms.
From PV.Base Require Import Classes AlgLemmas.
From PV.DSL Require Import Syntax Sem.
From PV.Gen Require Import Algorithms_gen.
From PV.Alg Require Import MainLift MainCorrect Unique.
From PV.Block Require Import Mat RCF.
From PV.Series Require Import InstRCF.
Open Scope string_scope.

(** C01: the kept matrix elements of U† H U are those of H_tilde *)
Theorem C07_fock_kept :
  forall (k : nat) (R0 : Type) (r0 r1 : R0) (add mul sub : R0 -> R0 -> R0) (opp : R0 -> R0)
         (req : R0 -> R0 -> Prop) (Ro : @Ring_ops R0 r0 r1 add mul sub opp req)
         (Rg : @Ring R0 r0 r1 add mul sub opp req Ro) (CS : CStar R0)
         (blk : nat -> nat) (keep : nat -> nat -> bool) (cm : nat -> bool)
         (keep_sym : forall p q, keep p q = keep q p) (keep_refl : forall p, keep p p = true)
         (keep_blk : forall p q, keep p q = true -> blk p = blk q)
         (cm_blk : forall p q, blk p = blk q -> cm p = cm q)
         (keep_eucl : forall p q r, cm p = true -> keep p q = true -> keep r q = true -> keep p r = true)
         (E : nat -> R0) (inv : R0 -> R0),
    (forall p q, keep p q = false -> (E p - E q) * inv (E p - E q) == 1) ->
    (forall p, conj (E p) == E p) -> Proper (_==_ ==> _==_) inv ->
    (forall x, inv (- x) == - inv x) -> (forall x, conj (inv x) == inv (conj x)) ->
    let BA := rcf_BlockAlg k blk keep cm keep_sym keep_blk cm_blk in
    forall (rflag : string -> TF k R0 -> TF k R0) (fenv : string -> list (TF k R0) -> TF k R0)
           (sol : string -> TF k R0),
    (forall x, rflag "commuting_blocks" x == Rw x) ->
    (forall y, fenv "solve_sylvester" (cons y nil) == sylvF E inv y) ->
    adj (sol "H") == sol "H" -> Zc (sol "H") == H0F k E ->
    solution (gflag_of false) rflag fenv sol main_alg ->
    Sel (sol "U†" * sol "H" * sol "U") == sol "H_tilde".
Proof.
  intros k R0 r0 r1 add mul sub opp req Ro Rg CS blk keep cm keep_sym keep_refl keep_blk cm_blk
         keep_eucl E inv Hinv Hreal HinvP Hopp Hconj BA rflag fenv sol Hrf Hfe Hh Hz Hsol.
  pose proof (rcf_wiring (keep_sym := keep_sym) keep_refl (keep_blk := keep_blk) (cm_blk := cm_blk)
              Hinv Hreal HinvP Hopp Hconj keep_eucl rflag fenv Hrf Hfe Hh Hz) as W.
  exact (kept_general (BA := BA) rflag fenv sol Hsol W).
Qed.
Print Assumptions C07_fock_kept.

(** C01: the matrix elements selected for elimination vanish in U† H U *)
Theorem C07_fock_eliminated :
  forall (k : nat) (R0 : Type) (r0 r1 : R0) (add mul sub : R0 -> R0 -> R0) (opp : R0 -> R0)
         (req : R0 -> R0 -> Prop) (Ro : @Ring_ops R0 r0 r1 add mul sub opp req)
         (Rg : @Ring R0 r0 r1 add mul sub opp req Ro) (CS : CStar R0)
         (blk : nat -> nat) (keep : nat -> nat -> bool) (cm : nat -> bool)
         (keep_sym : forall p q, keep p q = keep q p) (keep_refl : forall p, keep p p = true)
         (keep_blk : forall p q, keep p q = true -> blk p = blk q)
         (cm_blk : forall p q, blk p = blk q -> cm p = cm q)
         (keep_eucl : forall p q r, cm p = true -> keep p q = true -> keep r q = true -> keep p r = true)
         (E : nat -> R0) (inv : R0 -> R0),
    (forall p q, keep p q = false -> (E p - E q) * inv (E p - E q) == 1) ->
    (forall p, conj (E p) == E p) -> Proper (_==_ ==> _==_) inv ->
    (forall x, inv (- x) == - inv x) -> (forall x, conj (inv x) == inv (conj x)) ->
    let BA := rcf_BlockAlg k blk keep cm keep_sym keep_blk cm_blk in
    forall (rflag : string -> TF k R0 -> TF k R0) (fenv : string -> list (TF k R0) -> TF k R0)
           (sol : string -> TF k R0),
    (forall x, rflag "commuting_blocks" x == Rw x) ->
    (forall y, fenv "solve_sylvester" (cons y nil) == sylvF E inv y) ->
    adj (sol "H") == sol "H" -> Zc (sol "H") == H0F k E ->
    solution (gflag_of false) rflag fenv sol main_alg ->
    Rp (sol "U†" * sol "H" * sol "U") == 0.
Proof.
  intros k R0 r0 r1 add mul sub opp req Ro Rg CS blk keep cm keep_sym keep_refl keep_blk cm_blk
         keep_eucl E inv Hinv Hreal HinvP Hopp Hconj BA rflag fenv sol Hrf Hfe Hh Hz Hsol.
  pose proof (rcf_wiring (keep_sym := keep_sym) keep_refl (keep_blk := keep_blk) (cm_blk := cm_blk)
              Hinv Hreal HinvP Hopp Hconj keep_eucl rflag fenv Hrf Hfe Hh Hz) as W.
  exact (eliminated_general (BA := BA) rflag fenv sol Hsol W).
Qed.
Print Assumptions C07_fock_eliminated.

(** C02: U is unitary at every order (both products) *)
Theorem C07_fock_unitary :
  forall (k : nat) (R0 : Type) (r0 r1 : R0) (add mul sub : R0 -> R0 -> R0) (opp : R0 -> R0)
         (req : R0 -> R0 -> Prop) (Ro : @Ring_ops R0 r0 r1 add mul sub opp req)
         (Rg : @Ring R0 r0 r1 add mul sub opp req Ro) (CS : CStar R0)
         (blk : nat -> nat) (keep : nat -> nat -> bool) (cm : nat -> bool)
         (keep_sym : forall p q, keep p q = keep q p) (keep_refl : forall p, keep p p = true)
         (keep_blk : forall p q, keep p q = true -> blk p = blk q)
         (cm_blk : forall p q, blk p = blk q -> cm p = cm q)
         (keep_eucl : forall p q r, cm p = true -> keep p q = true -> keep r q = true -> keep p r = true)
         (E : nat -> R0) (inv : R0 -> R0),
    (forall p q, keep p q = false -> (E p - E q) * inv (E p - E q) == 1) ->
    (forall p, conj (E p) == E p) -> Proper (_==_ ==> _==_) inv ->
    (forall x, inv (- x) == - inv x) -> (forall x, conj (inv x) == inv (conj x)) ->
    let BA := rcf_BlockAlg k blk keep cm keep_sym keep_blk cm_blk in
    forall (rflag : string -> TF k R0 -> TF k R0) (fenv : string -> list (TF k R0) -> TF k R0)
           (sol : string -> TF k R0),
    (forall x, rflag "commuting_blocks" x == Rw x) ->
    (forall y, fenv "solve_sylvester" (cons y nil) == sylvF E inv y) ->
    adj (sol "H") == sol "H" -> Zc (sol "H") == H0F k E ->
    solution (gflag_of false) rflag fenv sol main_alg ->
    sol "U†" * sol "U" == 1 /\ sol "U" * sol "U†" == 1.
Proof.
  intros k R0 r0 r1 add mul sub opp req Ro Rg CS blk keep cm keep_sym keep_refl keep_blk cm_blk
         keep_eucl E inv Hinv Hreal HinvP Hopp Hconj BA rflag fenv sol Hrf Hfe Hh Hz Hsol.
  pose proof (rcf_wiring (keep_sym := keep_sym) keep_refl (keep_blk := keep_blk) (cm_blk := cm_blk)
              Hinv Hreal HinvP Hopp Hconj keep_eucl rflag fenv Hrf Hfe Hh Hz) as W.
  exact (Logic.conj (unitary_l_general (BA := BA) rflag fenv sol Hsol W)
              (unitary_r_general (BA := BA) rflag fenv sol Hsol W)).
Qed.
Print Assumptions C07_fock_unitary.

(** C02: U† is the adjoint of U and H_tilde is Hermitian *)
Theorem C07_fock_adjoint :
  forall (k : nat) (R0 : Type) (r0 r1 : R0) (add mul sub : R0 -> R0 -> R0) (opp : R0 -> R0)
         (req : R0 -> R0 -> Prop) (Ro : @Ring_ops R0 r0 r1 add mul sub opp req)
         (Rg : @Ring R0 r0 r1 add mul sub opp req Ro) (CS : CStar R0)
         (blk : nat -> nat) (keep : nat -> nat -> bool) (cm : nat -> bool)
         (keep_sym : forall p q, keep p q = keep q p) (keep_refl : forall p, keep p p = true)
         (keep_blk : forall p q, keep p q = true -> blk p = blk q)
         (cm_blk : forall p q, blk p = blk q -> cm p = cm q)
         (keep_eucl : forall p q r, cm p = true -> keep p q = true -> keep r q = true -> keep p r = true)
         (E : nat -> R0) (inv : R0 -> R0),
    (forall p q, keep p q = false -> (E p - E q) * inv (E p - E q) == 1) ->
    (forall p, conj (E p) == E p) -> Proper (_==_ ==> _==_) inv ->
    (forall x, inv (- x) == - inv x) -> (forall x, conj (inv x) == inv (conj x)) ->
    let BA := rcf_BlockAlg k blk keep cm keep_sym keep_blk cm_blk in
    forall (rflag : string -> TF k R0 -> TF k R0) (fenv : string -> list (TF k R0) -> TF k R0)
           (sol : string -> TF k R0),
    (forall x, rflag "commuting_blocks" x == Rw x) ->
    (forall y, fenv "solve_sylvester" (cons y nil) == sylvF E inv y) ->
    adj (sol "H") == sol "H" -> Zc (sol "H") == H0F k E ->
    solution (gflag_of false) rflag fenv sol main_alg ->
    adj (sol "U") == sol "U†" /\ adj (sol "H_tilde") == sol "H_tilde".
Proof.
  intros k R0 r0 r1 add mul sub opp req Ro Rg CS blk keep cm keep_sym keep_refl keep_blk cm_blk
         keep_eucl E inv Hinv Hreal HinvP Hopp Hconj BA rflag fenv sol Hrf Hfe Hh Hz Hsol.
  pose proof (rcf_wiring (keep_sym := keep_sym) keep_refl (keep_blk := keep_blk) (cm_blk := cm_blk)
              Hinv Hreal HinvP Hopp Hconj keep_eucl rflag fenv Hrf Hfe Hh Hz) as W.
  exact (Logic.conj (adjoint_general (BA := BA) rflag fenv sol Hsol W)
              (Ht_herm_general (BA := BA) rflag fenv sol Hsol W)).
Qed.
Print Assumptions C07_fock_adjoint.

(** C03: the anti-Hermitian part of U - 1 has no kept element; U satisfies the four
    defining conditions of the least-action transformation *)
Theorem C07_fock_gauge :
  forall (k : nat) (R0 : Type) (r0 r1 : R0) (add mul sub : R0 -> R0 -> R0) (opp : R0 -> R0)
         (req : R0 -> R0 -> Prop) (Ro : @Ring_ops R0 r0 r1 add mul sub opp req)
         (Rg : @Ring R0 r0 r1 add mul sub opp req Ro) (CS : CStar R0)
         (blk : nat -> nat) (keep : nat -> nat -> bool) (cm : nat -> bool)
         (keep_sym : forall p q, keep p q = keep q p) (keep_refl : forall p, keep p p = true)
         (keep_blk : forall p q, keep p q = true -> blk p = blk q)
         (cm_blk : forall p q, blk p = blk q -> cm p = cm q)
         (keep_eucl : forall p q r, cm p = true -> keep p q = true -> keep r q = true -> keep p r = true)
         (E : nat -> R0) (inv : R0 -> R0),
    (forall p q, keep p q = false -> (E p - E q) * inv (E p - E q) == 1) ->
    (forall p, conj (E p) == E p) -> Proper (_==_ ==> _==_) inv ->
    (forall x, inv (- x) == - inv x) -> (forall x, conj (inv x) == inv (conj x)) ->
    let BA := rcf_BlockAlg k blk keep cm keep_sym keep_blk cm_blk in
    forall (rflag : string -> TF k R0 -> TF k R0) (fenv : string -> list (TF k R0) -> TF k R0)
           (sol : string -> TF k R0),
    (forall x, rflag "commuting_blocks" x == Rw x) ->
    (forall y, fenv "solve_sylvester" (cons y nil) == sylvF E inv y) ->
    adj (sol "H") == sol "H" -> Zc (sol "H") == H0F k E ->
    solution (gflag_of false) rflag fenv sol main_alg ->
    Sel (half ((sol "U" - 1) - adj (sol "U" - 1))) == 0 /\ least_action (sol "H") (sol "U").
Proof.
  intros k R0 r0 r1 add mul sub opp req Ro Rg CS blk keep cm keep_sym keep_refl keep_blk cm_blk
         keep_eucl E inv Hinv Hreal HinvP Hopp Hconj BA rflag fenv sol Hrf Hfe Hh Hz Hsol.
  pose proof (rcf_wiring (keep_sym := keep_sym) keep_refl (keep_blk := keep_blk) (cm_blk := cm_blk)
              Hinv Hreal HinvP Hopp Hconj keep_eucl rflag fenv Hrf Hfe Hh Hz) as W.
  exact (Logic.conj (gauge_general (BA := BA) rflag fenv sol Hsol W)
              (main_least_action (BA := BA) rflag fenv sol Hsol W)).
Qed.
Print Assumptions C07_fock_gauge.

(** Non-vacuity (Series/FockExample.v): over Q, one parameter, H = N + lambda (a + a†) with N
    the number operator diag(0,1,2,...) and a the annihilator in the unnormalised basis
    (entry (i,i+1) = i+1, an infinite matrix with one entry per row); one block, fully
    diagonalising mask, field inverse.  Every wiring hypothesis of the theorems above holds
    for it ([wiring] is the record of Alg/MainCorrect.v that they are used through), and H is
    not trivial. *)
From PV.Series Require Import FockExample.
Example C07_fock_hypotheses_satisfiable :
  wiring (BA := fx_BA) fx_rflag fx_fenv fx_H
  /\ ~ (ent (fx_H (cons 1%nat nil)) O (S O) == 0).
Proof. split. exact fx_wiring. exact (proj2 (proj2 fx_nontrivial)). Qed.
