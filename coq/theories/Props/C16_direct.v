(* C16 (clauses C16_direct, C16_group) - "... the direct solver for both orientations of
   the implicit block, degenerate and biorthogonal explicit levels and mixed real/complex
   data ... direct_greens_function returns the solution of (E - H) x = P v that lies in
   the range of the kernel-complement projector P."

   Model: LinAlg/Greens.v (direct_greens_function as repaired by e113059:
   equations dropped according to the LEFT kernel, variables constrained according to
   the RIGHT kernel; the sparse LU solve is an oracle returning any solution of the
   constrained system) and LinAlg/GroupEnergies.v (real branch of
   _group_close_energies).  Trusted: scipy factorized/SuperLU solves the system it is
   given; pivoted QR returns pivots whose minors are invertible (checked per case by
   k_greens). *)
From Coq Require Import ZArith List Sorting.Permutation Relations.
From mathcomp Require Import all_ssreflect all_algebra.
From PV Require Import LinAlg.Greens LinAlg.GroupEnergies.
Set Implicit Arguments. Unset Strict Implicit. Unset Printing Implicit Defensive.
Import GRing.Theory.
Local Open Scope ring_scope.
Delimit Scope Z_scope with ZZ.

(* direct_greens_function: P z solves (E - H) x = P b and lies in the range of P.
   Hypotheses: kernel relations, biorthogonality, D a 0/1 diagonal (idempotent), C
   supported on the dropped rows (D C = 0), and the dropped equations are recoverable
   from the left kernel. *)
Theorem C16_direct (F : ringType) (n k : nat) (A D C : 'M[F]_n)
    (Phi : 'M[F]_(n,k)) (PhiLd : 'M[F]_(k,n)) (b z : 'cV[F]_n) :
  A *m Phi = 0 -> PhiLd *m A = 0 -> PhiLd *m Phi = 1%:M ->
  D *m D = D -> D *m C = 0 ->
  (forall r : 'cV[F]_n, D *m r = 0 -> PhiLd *m r = 0 -> r = 0) ->
  Mt A D C *m z = D *m (Pk Phi PhiLd *m b) ->
  A *m (Pk Phi PhiLd *m z) = Pk Phi PhiLd *m b /\
  Pk Phi PhiLd *m (Pk Phi PhiLd *m z) = Pk Phi PhiLd *m z.
Proof. by move=> H1 H2 H3 H4 H5 H6; apply: greens_solution. Qed.
Print Assumptions C16_direct.

(* the same with the D and C that _constrain_matrix builds from pivot_rows/pivot_cols,
   under the condition the pivoted QR is meant to ensure: PhiL restricted to the
   dropped rows is an invertible k x k matrix *)
Theorem C16_direct_pivots (F : fieldType) (n k : nat) (rows cols : 'I_k -> 'I_n)
    (A : 'M[F]_n) (Phi : 'M[F]_(n,k)) (PhiLd : 'M[F]_(k,n)) (b z : 'cV[F]_n) :
  injective rows ->
  A *m Phi = 0 -> PhiLd *m A = 0 -> PhiLd *m Phi = 1%:M ->
  (\matrix_(s, t) PhiLd s (rows t)) \in unitmx ->
  Mt A (Dm F rows) (Cm F rows cols) *m z = Dm F rows *m (Pk Phi PhiLd *m b) ->
  A *m (Pk Phi PhiLd *m z) = Pk Phi PhiLd *m b /\
  Pk Phi PhiLd *m (Pk Phi PhiLd *m z) = Pk Phi PhiLd *m z.
Proof.
move=> ri AP LA bi U; apply: greens_solution => //.
- exact: Dm_idem.
- exact: Dm_Cm.
- exact: left_regular_of_minor.
Qed.
Print Assumptions C16_direct_pivots.

(* the constrained system has a unique solution (the LU factorisation exists) when
   moreover Phi restricted to pivot_cols is invertible and Phi spans the kernel of A *)
Theorem C16_direct_regular (F : fieldType) (n k : nat) (rows cols : 'I_k -> 'I_n)
    (A : 'M[F]_n) (Phi : 'M[F]_(n,k)) (PhiLd : 'M[F]_(k,n)) (z : 'cV[F]_n) :
  injective rows ->
  PhiLd *m A = 0 ->
  (\matrix_(s, t) PhiLd s (rows t)) \in unitmx ->
  (\matrix_(t, s) Phi (cols t) s) \in unitmx ->
  (forall z : 'cV[F]_n, A *m z = 0 -> exists c, z = Phi *m c) ->
  Mt A (Dm F rows) (Cm F rows cols) *m z = 0 -> z = 0.
Proof.
move=> ri LA U1 U2 sp; apply: (@Mt_injective _ _ _ A _ _ Phi PhiLd) => //.
- exact: Dm_idem.
- exact: Dm_Cm.
- exact: left_regular_of_minor.
- exact: col_regular_of_minor.
Qed.
Print Assumptions C16_direct_regular.

(* solve_sylvester_direct, left-implicit orientation (index[0] is the implicit block,
   nonhermitian=True): for a column y of Y and the explicit level E of its column,
   v = Pf (-(greens_function_left (Pf y))) satisfies  h0 v - v E = Pf y  and  Pf v = v,
   i.e. the Sylvester equation H0_BB V - V H0_jj = Y on the complement (Pf commutes
   with h0).  Pf: projector on the complement of all explicit vectors. *)
Theorem C16_direct_left (F : comRingType) (n k : nat) (h0 : 'M[F]_n) (E : F)
    (Phi : 'M[F]_(n,k)) (PhiLd : 'M[F]_(k,n)) (Pf D C : 'M[F]_n) (y z : 'cV[F]_n) :
  let A := E%:M - h0 in
  A *m Phi = 0 -> PhiLd *m A = 0 -> PhiLd *m Phi = 1%:M ->
  Pf *m Pf = Pf -> Pf *m h0 = h0 *m Pf -> PhiLd *m Pf = 0 ->
  D *m D = D -> D *m C = 0 ->
  (forall r : 'cV[F]_n, D *m r = 0 -> PhiLd *m r = 0 -> r = 0) ->
  Mt A D C *m z = D *m (Pk Phi PhiLd *m (Pf *m y)) ->
  let v := Pf *m (- (Pk Phi PhiLd *m z)) in
  h0 *m v - E *: v = Pf *m y /\ Pf *m v = v.
Proof. by move=> A H1 H2 H3 H4 H5 H6 H7 H8 H9; apply: sylvester_left. Qed.
Print Assumptions C16_direct_left.

(* right-implicit orientation (index[1] is the implicit block; used by Hermitian and
   non-Hermitian problems): the solver is built for h0^T with the conjugated kernels,
   i.e. for the transposed system with kernel PhiLd^T and dual Phi^T; for a row y^T of Y
   v = (greens_function_right (Pf^T y))^T Pf satisfies  E v - v h0 = y^T Pf,  v Pf = v:
   the Sylvester equation H0_ii V - V H0_BB = Y on the complement. *)
Theorem C16_direct_right (F : comRingType) (n k : nat) (h0 : 'M[F]_n) (E : F)
    (Phi : 'M[F]_(n,k)) (PhiLd : 'M[F]_(k,n)) (Pf D C : 'M[F]_n) (y z : 'cV[F]_n) :
  let A := E%:M - h0 in
  A *m Phi = 0 -> PhiLd *m A = 0 -> PhiLd *m Phi = 1%:M ->
  Pf *m Pf = Pf -> Pf *m h0 = h0 *m Pf -> Pf *m Phi = 0 ->
  D *m D = D -> D *m C = 0 ->
  (forall r : 'cV[F]_n, D *m r = 0 -> Phi^T *m r = 0 -> r = 0) ->
  Mt A^T D C *m z = D *m (Pk PhiLd^T Phi^T *m (Pf^T *m y)) ->
  let v : 'rV[F]_n := (Pk PhiLd^T Phi^T *m z)^T *m Pf in
  E *: v - v *m h0 = y^T *m Pf /\ v *m Pf = v.
Proof. by move=> A H1 H2 H3 H4 H5 H6 H7 H8 H9; apply: sylvester_right. Qed.
Print Assumptions C16_direct_right.

(* _group_close_energies (real branch): the groups are the connected components of the
   graph "|E_a - E_b| <= atol":  they partition the indices, each carries its energies,
   consecutive members of a group are within atol, members of different groups are more
   than atol apart, no group is empty. *)
Theorem C16_group (es : list Z) (atol : Z) :
  let gs := group_pairs es atol in
  Permutation (List.map snd (List.concat gs)) (List.seq 0 (List.length es)) /\
  (forall e j, List.In (e, j) (List.concat gs) -> List.nth_error es j = Some e) /\
  List.Forall (chained atol) gs /\ separated atol gs /\
  List.Forall (fun g => g <> nil) gs.
Proof. exact: group_pairs_spec. Qed.
Print Assumptions C16_group.

(* every group is connected inside itself ... *)
Theorem C16_group_connected (atol : Z) (g : list item) :
  chained atol g ->
  forall a b, List.In a g -> List.In b g ->
  clos_refl_sym_trans _ (fun x y => List.In x g /\ List.In y g /\ close atol x y) a b.
Proof. exact: chained_connected. Qed.
Print Assumptions C16_group_connected.

(* ... and there is no edge between two different groups *)
Theorem C16_group_no_edge (atol : Z) (gs : list (list item)) :
  (0 <= atol)%ZZ -> separated atol gs ->
  forall pre g1 mid g2 post,
    gs = (pre ++ g1 :: mid ++ g2 :: post)%list ->
  forall a b, List.In a g1 -> List.In b g2 -> ~ close atol a b.
Proof. exact: separated_no_edge. Qed.
Print Assumptions C16_group_no_edge.

(* ---- non-vacuity ---- *)
(* the grouping model on a concrete spectrum, and the hypotheses of C16_direct on the
   smallest instance (A = 0 on a one-dimensional space, kernel = everything, no equation
   kept: D = 0).  Larger instances (biorthogonal 2x2 of finding D10, degenerate groups of
   size up to 3, n <= 8) have their hypotheses checked exactly by k_greens.tie_greens. *)
Example C16_ex_group :
  group_close_energies (5 :: 0 :: 6 :: 20 :: 1 :: nil)%ZZ 1%ZZ
  = ((1 :: 4 :: nil) :: (0 :: 2 :: nil) :: (3 :: nil) :: nil)%nat.
Proof. by vm_compute. Qed.
Example C16_ex_abstract :
  let A : 'M[rat]_1 := 0 in let Phi : 'M[rat]_1 := 1%:M in
  [/\ A *m Phi = 0, Phi *m A = 0, Phi *m Phi = 1%:M
    & forall r : 'cV[rat]_1, (0 : 'M[rat]_1) *m r = 0 -> Phi *m r = 0 -> r = 0].
Proof.
by move=> A Phi; split; rewrite ?mul0mx ?mulmx0 ?mulmx1 // => r _; rewrite mul1mx.
Qed.
