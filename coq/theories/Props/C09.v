(** C09 - Compiling a series mini-language algorithm preserves its meaning.

    "For every well-founded algorithm written in the documented mini-language (series with
    start values, hermitian/antihermitian markers, diagonal/offdiagonal/lower conditions,
    sums, integer division, adjoints, scope functions, declared Cauchy products), every
    element of every series returned by series_computation equals the value given by a
    direct, unoptimised interpretation of that definition. The automatic deletion of
    once-used intermediate terms, the Hermiticity shortcuts, the two-block and
    commuting-block flags and the linear-operator mode never change any value."

    Model: DSL/Compile.v (what _parse_algorithm generates), DSL/Exec.v (series.py run-time
    executing it), specification DSL/Interp.v.  [world_ok] collects the hypotheses: input
    names contain no "@"; the evaluator's scope functions compute the specification's
    functions; for products declared [hermitian] the two shortcuts are valid in the sense of
    the specification ([herm_low], [herm_diag]: explicit hypotheses - the half-sum of
    product_by_order is only valid for adjoint pairs, known finding D9 of C18).
    For the shipped Hermitian algorithm these two hypotheses are PROVED ([C09_sound_main]).
    [C09_sound] is stated for runs in which no outcome is the model-internal OutOfFuel; this
    premise is discharged by [C09_terminates]: for a program carrying the decidable
    stratification certificate (DSL/Stratified.v; both shipped algorithms carry it) a request at
    index ix run with fuel >= fuel_bound alg ix never ends with OutOfFuel.
    [C09_sound_main_total] / [C09_sound_nh_total] are the resulting statements for the shipped
    algorithms without that premise.  (That a request returns a VALUE rather than a Python
    exception - no TypeError from the sentinel [one], no RuntimeError - is not proved.) *)
From Coq Require Import String List ZArith Bool Arith.
From PV.DSL Require Import Syntax Values Target Compile Interp Exec Laws Sound Main Regular Examples HermMain Stratified Terminate PropsLemmas.
From PV.Gen Require Import Algorithms_gen.
Import ListNotations.
Open Scope string_scope.

(** Every value returned for ANY series name (output or not, deleted or not, either table),
    at any point of any request schedule, denotes the value of the direct interpretation
    (whenever that is defined), for every program, every coefficient structure satisfying
    the ring-with-involution laws, every input, scope and flag assignment, every fault plan. *)
Theorem C09_sound :
  forall (V : Type) (O : vops V) (eqv : V -> V -> Prop), vlaws O eqv ->
  forall (alg : algorithm) (W : xworld V) (sfn : string -> list V -> index -> V),
  world_ok O eqv alg W sfn ->
  forall fuel calls0 rs os s' i tb name ix v,
    run_all O alg (compile alg) W fuel (init_state alg W calls0) rs = (os, s') ->
    Forall (fun o => o <> OutOfFuel) os ->
    nth_error rs i = Some (tb, name, ix) -> nth_error os i = Some (Ok v) ->
    forall f w, interp O alg (SW O W sfn) f (KN name) ix = Some w -> eqv (den O v) w.
Proof. intros V O eqv L alg W sfn WO. exact (schedule_value L WO). Qed.
Print Assumptions C09_sound.

(** Multi-element requests (slices, list indices) on ANY series name, after any history: the elements are
    evaluated one after the other and each value is taken when it is evaluated ([run_multi]); every value
    of the returned array denotes the interpretation of its element - also when the cache entry of an
    earlier element of the same request is deleted while a later element is evaluated. *)
Theorem C09_sound_slices :
  forall (V : Type) (O : vops V) (eqv : V -> V -> Prop), vlaws O eqv ->
  forall (alg : algorithm) (W : xworld V) (sfn : string -> list V -> index -> V),
  world_ok O eqv alg W sfn ->
  forall fuel calls0 rs os s1 fuel' tb name ixs vs s2,
    run_all O alg (compile alg) W fuel (init_state alg W calls0) rs = (os, s1) ->
    Forall (fun o => o <> OutOfFuel) os ->
    run_multi O alg (compile alg) W fuel' s1 tb name ixs = (Ok vs, s2) ->
    Forall2 (fun ix v => forall f w, interp O alg (SW O W sfn) f (KN name) ix = Some w -> eqv (den O v) w) ixs vs.
Proof. exact L_C09_sound_slices. Qed.
Print Assumptions C09_sound_slices.

(** a slice of the deletable intermediate X of the non-Hermitian algorithm: all three orders are returned *)
Example C09_sound_slices_example :
  exists a b c, fst (run_multi z_ops nonhermitian_alg (compile nonhermitian_alg) (z_world no_faults) 60
                       (init_state nonhermitian_alg (z_world no_faults) 0) TTab "X" [(0, 1, [0]); (0, 1, [1]); (0, 1, [2])])
                = Ok [a; b; c].
Proof. do 3 eexists. vm_compute. reflexivity. Qed.

(** non-vacuity: the shipped non-Hermitian algorithm on an integer Hamiltonian; the request
    at second order terminates, the specification is defined and both give the same value *)
Example C09_sound_example :
  exists v, fst (run z_ops nonhermitian_alg (compile nonhermitian_alg) (z_world no_faults) 60
                     (init_state nonhermitian_alg (z_world no_faults) 0) (TTab, "H_tilde", (0, 0, [2])))
            = Ok (SVal v)
         /\ interp z_ops nonhermitian_alg (SW z_ops (z_world no_faults) z_sfn) 40 (KN "H_tilde") (0, 0, [2]) = Some v.
Proof. eexists. split; vm_compute; reflexivity. Qed.

Example C09_world_ok_example : world_ok z_ops eq nonhermitian_alg (z_world no_faults) z_sfn.
Proof. apply z_world_ok_nh. Qed.

(** the shipped Hermitian algorithm (with its hermitian-declared product) likewise runs and
    agrees with the specification on this input *)
Example C09_main_example :
  exists v, fst (run z_ops main_alg (compile main_alg) (z_world no_faults) 80
                     (init_state main_alg (z_world no_faults) 0) (TTab, "H_tilde", (0, 0, [2])))
            = Ok (SVal v)
         /\ interp z_ops main_alg (SW z_ops (z_world no_faults) z_sfn) 60 (KN "H_tilde") (0, 0, [2]) = Some v.
Proof. eexists. split; vm_compute; reflexivity. Qed.

(** The shipped Hermitian algorithm WITHOUT the hypotheses about the Hermitian shortcuts: the
    product "U'† @ U'" is declared hermitian, and U'† = W - V is the adjoint partner of
    U' = W + V (W marked hermitian, V antihermitian, start = 0) - proved by induction on the
    total order (DSL/HermMain.v, using the general lemma of DSL/HermValid.v).  Remaining
    hypotheses on the scope: no [offdiag] (plain block diagonalization), [diag] commutes with
    the adjoint on diagonal blocks, and the zero test of the structure is complete. *)
Theorem C09_sound_main :
  forall (V : Type) (O : vops V) (eqv : V -> V -> Prop), vlaws O eqv ->
  forall (W : xworld V) (sfn : string -> list V -> index -> V),
  (forall x, In x (xw_inputs W) -> has_at x = false) ->
  (forall f l l' ix, Forall2 eqv l l' -> eqv (sfn f l ix) (sfn f l' ix)) ->
  (forall f args ix r, xw_fn W f args ix = Ok r -> eqv (den O r) (sfn f (map (den O) args) ix)) ->
  (forall a, eqv a (v0 O) -> vis0 O a = true) ->
  xw_hasoff W = false ->
  (forall x i n, eqv (vadj O (sfn "diag" [x] (i, i, n))) (sfn "diag" [vadj O x] (i, i, n))) ->
  forall fuel calls0 rs os s' i tb name ix v,
    run_all O main_alg (compile main_alg) W fuel (init_state main_alg W calls0) rs = (os, s') ->
    Forall (fun o => o <> OutOfFuel) os ->
    nth_error rs i = Some (tb, name, ix) -> nth_error os i = Some (Ok v) ->
    forall f w, interp O main_alg (SW O W sfn) f (KN name) ix = Some w -> eqv (den O v) w.
Proof. exact L_C09_sound_main. Qed.
Print Assumptions C09_sound_main.

Example C09_sound_main_example : world_ok z_ops eq main_alg (z_world no_faults) z_sfn.
Proof.
  apply (@main_world_ok Z z_ops eq z_laws).
  - intros x [<-|[]]. reflexivity.
  - intros f l l' ix F. assert (l = l') as -> by (induction F; subst; auto). reflexivity.
  - apply z_tie.
  - intros a ->. reflexivity.
  - reflexivity.
  - reflexivity.
Qed.

(** the shipped algorithms are in the fragment on which the model is claimed faithful *)
Theorem C09_main_regular : regular main_alg ["H"] = true.
Proof. vm_compute. reflexivity. Qed.
Print Assumptions C09_main_regular.

Theorem C09_nh_regular : regular nonhermitian_alg ["H"] = true.
Proof. vm_compute. reflexivity. Qed.
Print Assumptions C09_nh_regular.

(** TERMINATION.  For every stratified program, every world whose scope functions return (a
    value or an exception) and which provides the inputs named by the "X_0" start values,
    every fault plan inside the world, every schedule from the initial state: with fuel at
    least [fuel_bound alg ix] = 4 * (total order of ix + 1) * R(alg) + 8 for each request, no
    outcome is OutOfFuel. *)
Theorem C09_terminates :
  forall (V : Type) (O : vops V) (alg : algorithm) (W : xworld V),
  stratified alg = true -> fn_total W -> start_inputs_ok alg W ->
  forall fuel c rs os s',
    fuel_ok alg fuel rs ->
    run_all O alg (compile alg) W fuel (init_state alg W c) rs = (os, s') ->
    Forall (fun o => o <> OutOfFuel) os.
Proof. exact L_C09_terminates. Qed.
Print Assumptions C09_terminates.

Theorem C09_terminates_main :
  forall (V : Type) (O : vops V) (W : xworld V),
  fn_total W -> mem_string "H" (xw_inputs W) = true ->
  forall fuel c rs os s',
    fuel_ok main_alg fuel rs ->
    run_all O main_alg (compile main_alg) W fuel (init_state main_alg W c) rs = (os, s') ->
    Forall (fun o => o <> OutOfFuel) os.
Proof. exact L_C09_terminates_main. Qed.
Print Assumptions C09_terminates_main.

Theorem C09_terminates_nh :
  forall (V : Type) (O : vops V) (W : xworld V),
  fn_total W -> mem_string "H" (xw_inputs W) = true ->
  forall fuel c rs os s',
    fuel_ok nonhermitian_alg fuel rs ->
    run_all O nonhermitian_alg (compile nonhermitian_alg) W fuel (init_state nonhermitian_alg W c) rs = (os, s') ->
    Forall (fun o => o <> OutOfFuel) os.
Proof. exact L_C09_terminates_nh. Qed.
Print Assumptions C09_terminates_nh.

Example C09_terminates_example :
  stratified main_alg = true /\ stratified nonhermitian_alg = true
  /\ fn_total (z_world no_faults) /\ mem_string "H" (xw_inputs (z_world no_faults)) = true
  /\ fuel_bound main_alg (0, 0, [2]) = 92.
Proof.
  repeat split; try (vm_compute; reflexivity).
  intros f args ix. cbn [xw_fn z_world]. unfold z_fn. destruct args as [|[| |x] [|b r]]; discriminate.
Qed.

(** the two shipped algorithms, without the premise about OutOfFuel *)
Theorem C09_sound_main_total :
  forall (V : Type) (O : vops V) (eqv : V -> V -> Prop), vlaws O eqv ->
  forall (W : xworld V) (sfn : string -> list V -> index -> V),
  (forall x, In x (xw_inputs W) -> has_at x = false) ->
  (forall f l l' ix, Forall2 eqv l l' -> eqv (sfn f l ix) (sfn f l' ix)) ->
  (forall f args ix r, xw_fn W f args ix = Ok r -> eqv (den O r) (sfn f (map (den O) args) ix)) ->
  (forall a, eqv a (v0 O) -> vis0 O a = true) ->
  xw_hasoff W = false ->
  (forall x i n, eqv (vadj O (sfn "diag" [x] (i, i, n))) (sfn "diag" [vadj O x] (i, i, n))) ->
  fn_total W -> mem_string "H" (xw_inputs W) = true ->
  forall fuel calls0 rs os s' i tb name ix v,
    fuel_ok main_alg fuel rs ->
    run_all O main_alg (compile main_alg) W fuel (init_state main_alg W calls0) rs = (os, s') ->
    nth_error rs i = Some (tb, name, ix) -> nth_error os i = Some (Ok v) ->
    forall f w, interp O main_alg (SW O W sfn) f (KN name) ix = Some w -> eqv (den O v) w.
Proof. exact L_C09_sound_main_total. Qed.
Print Assumptions C09_sound_main_total.

Theorem C09_sound_nh_total :
  forall (V : Type) (O : vops V) (eqv : V -> V -> Prop), vlaws O eqv ->
  forall (W : xworld V) (sfn : string -> list V -> index -> V),
  (forall x, In x (xw_inputs W) -> has_at x = false) ->
  (forall f l l' ix, Forall2 eqv l l' -> eqv (sfn f l ix) (sfn f l' ix)) ->
  (forall f args ix r, xw_fn W f args ix = Ok r -> eqv (den O r) (sfn f (map (den O) args) ix)) ->
  fn_total W -> mem_string "H" (xw_inputs W) = true ->
  forall fuel calls0 rs os s' i tb name ix v,
    fuel_ok nonhermitian_alg fuel rs ->
    run_all O nonhermitian_alg (compile nonhermitian_alg) W fuel (init_state nonhermitian_alg W calls0) rs = (os, s') ->
    nth_error rs i = Some (tb, name, ix) -> nth_error os i = Some (Ok v) ->
    forall f w, interp O nonhermitian_alg (SW O W sfn) f (KN name) ix = Some w -> eqv (den O v) w.
Proof. exact L_C09_sound_nh_total. Qed.
Print Assumptions C09_sound_nh_total.
