(** C12 - Lazy and causal: order n uses only Hamiltonian terms of order <= n.

    "Defining a block diagonalization evaluates at most the unperturbed (zeroth-order) terms
    of the Hamiltonian. Requesting any output at multi-order n evaluates Hamiltonian terms only
    at orders m <= n componentwise, each at most once, and the returned value does not change
    when any other Hamiltonian term is altered."

    [C12_causal] and [C12_once] hold for EVERY program of the language (they do not depend on
    values: the soundness proof is instantiated with the trivial equality).  The clause about
    definition time (block_diagonalize touching only zeroth-order terms before it returns) is
    about the front end, not the mini-language: it is covered by the harness k_calllog only
    (the model starts from [init_state], in which exactly the zeroth-order input elements are
    evaluated).  Non-interference is stated on the specification ([C12_noninterference]) and
    transfers to the evaluator through C09_sound. *)
From Coq Require Import String List ZArith Bool Arith.
From PV.DSL Require Import Syntax Values Target Compile Interp Exec Laws Sound CompileProps Main Faults Causal Regular Examples PropsLemmas.
From PV.Gen Require Import Algorithms_gen.
Import ListNotations.
Open Scope string_scope.
Open Scope list_scope.

(** every callback event (in particular every evaluation of an input element) logged while
    serving a request at multi-order n, at any point of any history, has orders <= n *)
Theorem C12_causal :
  forall (V : Type) (O : vops V) (alg : algorithm) (W : xworld V),
  (forall x, In x (xw_inputs W) -> has_at x = false) ->
  forall fuel c rs os s1,
    run_all O alg (compile alg) W fuel (init_state alg W c) rs = (os, s1) ->
    Forall (fun o => o <> OutOfFuel) os ->
    forall fuel' tb name ix r s2,
      run O alg (compile alg) W fuel' s1 (tb, name, ix) = (r, s2) -> r <> OutOfFuel ->
      exists l, log s2 = l ++ log s1 /\
                forall e, In e l -> ole (idx_n (ev_idx e)) (idx_n ix).
Proof. exact L_C12_causal. Qed.
Print Assumptions C12_causal.

Example C12_causal_example :
  let W := z_world no_faults in
  forallb (fun e => match e with EvInput _ (_, _, [n]) => Nat.leb n 2 | _ => true end)
          (log (snd (run z_ops main_alg (compile main_alg) W 80 (init_state main_alg W 0) (TTab, "H_tilde", (0, 0, [2])))))
  = true
  /\ existsb (fun e => match e with EvInput _ (_, _, [2]) => true | _ => false end)
          (log (snd (run z_ops main_alg (compile main_alg) W 80 (init_state main_alg W 0) (TTab, "H_tilde", (0, 0, [2])))))
  = true.
Proof. vm_compute. split; reflexivity. Qed.

(** in a fault-free world no input element is evaluated twice, whatever the history (inputs
    are never deleted) *)
Theorem C12_once :
  forall (V : Type) (O : vops V) (alg : algorithm) (W : xworld V),
  (forall x, In x (xw_inputs W) -> has_at x = false) ->
  (forall k, xw_fault W k = None) ->
  forall fuel c rs os s1,
    run_all O alg (compile alg) W fuel (init_state alg W c) rs = (os, s1) ->
    Forall (fun o => o <> OutOfFuel) os ->
    NoDup (input_evs (log s1)).
Proof. exact L_C12_once. Qed.
Print Assumptions C12_once.

(** two input families that agree on the cone of orders <= n give the same value at n *)
Theorem C12_noninterference :
  forall (V : Type) (O : vops V) (alg : algorithm) (W : sworld V) (env' : string -> index -> V) ix,
  (forall x ix', ole (idx_n ix') (idx_n ix) -> sw_env W x ix' = env' x ix') ->
  forall fuel k, interp O alg W fuel k ix = interp O alg (set_env W env') fuel k ix.
Proof. exact interp_cone. Qed.
Print Assumptions C12_noninterference.

Example C12_noninterference_example :
  let W := SW z_ops (z_world no_faults) z_sfn in
  let env' := fun s ix => match ix with (_, _, [3]) => 77%Z | _ => sw_env W s ix end in
  interp z_ops main_alg W 60 (KN "H_tilde") (0, 0, [2]) = interp z_ops main_alg (set_env W env') 60 (KN "H_tilde") (0, 0, [2])
  /\ interp z_ops main_alg W 60 (KN "H_tilde") (0, 0, [2]) <> None.
Proof. vm_compute. split; [reflexivity | discriminate]. Qed.
