(** C11 - An exception during evaluation leaves the computation consistent, reusable.

    "If a user-supplied callback (evaluation of a Hamiltonian term, the Sylvester solver, or
    the multiplication of elements) raises any exception, including KeyboardInterrupt, at any
    point of any evaluation, the exception reaches the caller and every later request on the
    same series returns exactly the value of an undisturbed computation. No partially
    computed, stale or in-flight marker is ever returned or left behind."

    The fault plan [xw_fault : nat -> option exn] of the world says which callback invocation
    raises which exception class (RuntimeError, or UserExn c: Exception, KeyboardInterrupt-like
    BaseException, ...); it is universally quantified: single, repeated and permanent faults.
    Proved: after any schedule with any faults no Pending entry is left and the cache
    invariant holds, so every value returned later (and every value returned by an undisturbed
    computation) denotes the same interp value.  [C11_later_requests_terminate]: for stratified
    programs (both shipped algorithms) the runs and every later request, under any fault plan,
    end with a value or an exception when given fuel >= fuel_bound - never OutOfFuel.  That a
    later request returns a VALUE (rather than raising again) is covered by the harness
    k_faults only. *)
From Coq Require Import String List ZArith Bool Arith.
From PV.DSL Require Import Syntax Values Target Compile Interp Exec Laws Sound CompileProps Main Faults Regular Examples Stratified Terminate PropsLemmas.
From PV.Gen Require Import Algorithms_gen.
Import ListNotations.
Open Scope string_scope.

Theorem C11_exn_safe :
  forall (V : Type) (O : vops V) (eqv : V -> V -> Prop), vlaws O eqv ->
  forall (alg : algorithm) (W : xworld V) (sfn : string -> list V -> index -> V),
  world_ok O eqv alg W sfn ->
  (* any fault plan: it is indexed by the global count of callback invocations, so it also
     describes the faults that hit the later requests *)
  forall (fp : nat -> option exn) fuel c rs os s1,
    (* any schedule with any outcomes *)
    run_all O alg (compile alg) (with_faults W fp) fuel (init_state alg W c) rs = (os, s1) ->
    Forall (fun o => o <> OutOfFuel) os ->
    (* leaves no in-flight marker behind *)
    no_pending s1 /\
    (* and every later request *)
    forall fuel' tb name ix r s2,
      run O alg (compile alg) (with_faults W fp) fuel' s1 (tb, name, ix) = (r, s2) -> r <> OutOfFuel ->
      no_pending s2 /\
      forall v, r = Ok v ->
        (* returns the value of the direct interpretation, which is also what an undisturbed
           fresh computation returns *)
        forall f w, interp O alg (SW O W sfn) f (KN name) ix = Some w ->
          eqv (den O v) w /\
          forall fuel0 c0 tb0 v0 s0,
            run O alg (compile alg) (with_faults W (fun _ => None)) fuel0 (init_state alg W c0) (tb0, name, ix) = (Ok v0, s0) ->
            eqv (den O v0) w.
Proof. exact L_C11_exn_safe. Qed.
Print Assumptions C11_exn_safe.

(** non-vacuity: a KeyboardInterrupt-like fault at the 7th callback invocation of the shipped
    non-Hermitian algorithm reaches the caller, leaves no marker, and the repeated request
    returns the undisturbed value *)
Example C11_exn_safe_example :
  let Wf := z_world (fun k => if Nat.eqb k 6 then Some (UserExn 1) else None) in
  let W0 := z_world no_faults in
  let req := (TTab, "H_tilde", (0, 0, [2])) in
  let '(o1, s1) := run z_ops nonhermitian_alg (compile nonhermitian_alg) Wf 60 (init_state nonhermitian_alg Wf 0) req in
  let '(o2, s2) := run z_ops nonhermitian_alg (compile nonhermitian_alg) Wf 60 s1 req in
  o1 = Raise (UserExn 1)
  /\ existsb (fun x => match lookup (cache s1) (fst x) with Some Pending => true | _ => false end) (cache s1) = false
  /\ o2 = fst (run z_ops nonhermitian_alg (compile nonhermitian_alg) W0 60 (init_state nonhermitian_alg W0 0) req)
  /\ exists v, o2 = Ok (SVal v).
Proof. vm_compute. repeat split; eauto. Qed.

(** the in-flight marker is never a result: a value is returned only from (or stored as) a
    Done entry *)
Theorem C11_no_pending_returned :
  forall V (O : vops V) alg prog (W : xworld V) rec tb k ix (s s' : state V) v,
    getitem_step O alg prog W rec tb k ix s = (Ok v, s') ->
    st_lookup s' (tb, k, ix) = Some (Done v).
Proof. exact returned_is_stored. Qed.
Print Assumptions C11_no_pending_returned.

(** reaching one's own in-flight marker raises RuntimeError at once (no divergence) and
    leaves the state unchanged *)
Theorem C11_recursion :
  forall V (O : vops V) alg prog (W : xworld V) rec tb k ix (s : state V),
    wf_index W ix = true ->
    st_lookup s (tb, k, ix) = Some Pending ->
    getitem_step O alg prog W rec tb k ix s = (Raise RuntimeError, s).
Proof. exact recursion_detected. Qed.
Print Assumptions C11_recursion.

Example C11_recursion_example :
  (* with "S": "S"  (a series defined as itself) the request raises RuntimeError *)
  let alg := {| aseries := [{| sname := "S"; sstart := NoStart; sbody := [Line Default (Lit "S")] |}];
                aproducts := []; aoutputs := ["S"] |} in
  fst (run z_ops alg (compile alg) (z_world no_faults) 10 (init_state alg (z_world no_faults) 0) (TTab, "S", (0, 0, [1])))
  = Raise RuntimeError.
Proof. vm_compute. reflexivity. Qed.

(** after any faults the computation is still usable: for a stratified program the faulty runs
    and every later request terminate (value or exception), the premise about OutOfFuel of
    [C11_exn_safe] is discharged *)
Theorem C11_later_requests_terminate :
  forall (V : Type) (O : vops V) (alg : algorithm) (W : xworld V),
  stratified alg = true -> fn_total W -> start_inputs_ok alg W ->
  forall (fp : nat -> option exn) fuel c rs os s1,
    fuel_ok alg fuel rs ->
    run_all O alg (compile alg) (with_faults W fp) fuel (init_state alg W c) rs = (os, s1) ->
    Forall (fun o => o <> OutOfFuel) os /\
    forall fuel' tb name ix r s2,
      fuel_bound alg ix <= fuel' ->
      run O alg (compile alg) (with_faults W fp) fuel' s1 (tb, name, ix) = (r, s2) ->
      r <> OutOfFuel.
Proof. exact L_C11_later_requests_terminate. Qed.
Print Assumptions C11_later_requests_terminate.

Example C11_later_requests_terminate_example :
  stratified nonhermitian_alg = true /\ start_inputs_ok nonhermitian_alg (z_world no_faults)
  /\ fuel_bound nonhermitian_alg (0, 0, [2]) <= 200.
Proof.
  split; [vm_compute; reflexivity|]. split; [apply nh_start_inputs; reflexivity|].
  apply Nat.leb_le. vm_compute. reflexivity.
Qed.
