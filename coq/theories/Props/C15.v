(** C15 - "Relabelling blocks or permuting basis states, rotating the basis inside a degenerate
    level of H_0, complex-conjugating the Hamiltonian, adding a multiple of the identity to H_0,
    or scaling the whole Hamiltonian by a positive constant transforms H_tilde, U and U† in the
    corresponding way (permuted, rotated, conjugated, shifted only at order zero, scaled /
    unchanged). The result for a direct sum of decoupled Hamiltonians is the direct sum of the
    results."

    Statements are about the concrete algebra T D k R0 of k-parameter formal power series of
    D x D matrices over a commutative star ring R0 (Series/Inst.v), for every D, k, block
    labelling [blk], symmetric reflexive kept mask [keep] inside the diagonal blocks (euclidean
    on the blocks flagged [cm], as block_diagonalize wires it), real unperturbed energies [E]
    and solver [inv] inverting the eliminated energy differences.  [sol] / [sol'] are ANY
    valuations satisfying all equations of the generated Hermitian program [main_alg]
    (translated from /repo/pymablock/algorithms.py on every run) for the original / the
    transformed input; the conclusion relates all three outputs at all orders at once.
    Proof pattern: the symmetry is an [LAHom] (Alg/Equivariance.v) between the two instances, it
    maps the least-action transformation of H to one of the transformed H, and the
    least-action transformation is unique (Alg/Unique.v).  Shift, scale and direct sum are not
    homomorphisms and are proved directly from the least-action conditions + uniqueness.

    Assumed, as everywhere: exact arithmetic; the transformed problem is wired like the
    original one, i.e. no tolerance comparison of block_diagonalize flips (shift: only energy
    differences enter the solver; scale: [inv'] inverts the scaled differences - for the real
    code this is where positivity / not-too-small s matters). *)
Require Import Ncring String List Morphisms.
From PV.Base Require Import Classes AlgLemmas.
From PV.DSL Require Import Syntax Sem.
From PV.Gen Require Import Algorithms_gen.
From PV.Alg Require Import MainLift MainCorrect Unique Equivariance.
From PV.Series Require Import Inst SylvInst SymBase SymIdx SymConj SymPerm SymShift SymRot SymSum SymExamples SymWitness ExecExample.
From PV.Block Require Import Mat Masks QInst.
From PV.Alg Require Import MainWitness.
Open Scope string_scope.

(** complex conjugation: (cconj x) n p q = conj (x n p q) *)
Theorem C15_conjugation :
  forall (D k : nat) (R0 : Type) (r0 r1 : R0) (add mul sub : R0 -> R0 -> R0) (opp : R0 -> R0) (req : R0 -> R0 -> Prop)
         (Ro : @Ring_ops R0 r0 r1 add mul sub opp req) (Rg : @Ring R0 r0 r1 add mul sub opp req Ro) (CS : CStar R0)
         (blk : nat -> nat) (keep : nat -> nat -> bool) (cm : nat -> bool)
         (keep_sym : forall p q, keep p q = keep q p) (keep_refl : forall p, keep p p = true)
         (keep_blk : forall p q, keep p q = true -> blk p = blk q) (cm_blk : forall p q, blk p = blk q -> cm p = cm q)
         (keep_eucl : keep_eucl_on D keep cm) (E : nat -> R0) (inv : R0 -> R0),
    (forall p q, (p < D)%nat -> (q < D)%nat -> keep p q = false -> (E p - E q) * inv (E p - E q) == 1) ->
    (forall p, conj (E p) == E p) -> Proper (_==_ ==> _==_) inv ->
    (forall x, inv (- x) == - inv x) -> (forall x, conj (inv x) == inv (conj x)) ->
    let BA := series_BlockAlg D k blk keep cm keep_sym keep_blk cm_blk in
    forall (rflag rflag' : string -> T D k R0 -> T D k R0) (fenv fenv' : string -> list (T D k R0) -> T D k R0)
           (sol sol' : string -> T D k R0),
    (forall x, rflag "commuting_blocks" x == Rw x) ->
    (forall y, fenv "solve_sylvester" (cons y nil) == SylvInst.sylv E inv y) ->
    (forall x, rflag' "commuting_blocks" x == Rw x) ->
    (forall y, fenv' "solve_sylvester" (cons y nil) == SylvInst.sylv E inv y) ->
    solution (gflag_of false) rflag fenv sol main_alg ->
    solution (gflag_of false) rflag' fenv' sol' main_alg ->
    adj (sol "H") == sol "H" -> Zc (sol "H") == SylvInst.H0 D k E ->
    sol' "H" == cconj D k (sol "H") ->
    sol' "U" == cconj D k (sol "U") /\ sol' "U†" == cconj D k (sol "U†")
    /\ sol' "H_tilde" == cconj D k (sol "H_tilde").
Proof.
  intros D k R0 r0 r1 add mul sub opp req Ro Rg CS blk keep cm keep_sym keep_refl keep_blk cm_blk keep_eucl E inv
         Hinv Hreal HinvP Hopp Hconj BA rflag rflag' fenv fenv' sol sol' Hrf Hfe Hrf' Hfe' Hsol Hsol' Hh Hz Hin.
  exact (conj_covariant D k blk keep cm keep_sym keep_refl keep_blk cm_blk E Hreal keep_eucl inv Hinv HinvP Hopp Hconj
           rflag rflag' fenv fenv' Hrf Hfe Hrf' Hfe' sol sol' Hsol Hsol' Hh Hz Hin).
Qed.
Print Assumptions C15_conjugation.

Example C15_conjugation_applies :
  LAHom (BA := ex_BA) (BA' := ex_BA) (cconj 3 2).
Proof. exact (cconj_LAHom 3 2 ex_blk ex_keep ex_cm ex_keep_sym ex_keep_blk ex_cm_blk). Qed.

(** permutation of the basis states by a bijection pi of {0..D-1}: (sperm x) n p q = x n (pi p) (pi q);
    the transformed problem has the transported kept mask keep (pi p) (pi q), energies E (pi p) and ANY
    block labelling blk' / row flag cm' compatible with that mask *)
Theorem C15_basis_perm_general :
  forall (D k : nat) (R0 : Type) (r0 r1 : R0) (add mul sub : R0 -> R0 -> R0) (opp : R0 -> R0) (req : R0 -> R0 -> Prop)
         (Ro : @Ring_ops R0 r0 r1 add mul sub opp req) (Rg : @Ring R0 r0 r1 add mul sub opp req Ro) (CS : CStar R0)
         (blk : nat -> nat) (keep : nat -> nat -> bool) (cm : nat -> bool)
         (keep_sym : forall p q, keep p q = keep q p) (keep_refl : forall p, keep p p = true)
         (keep_blk : forall p q, keep p q = true -> blk p = blk q) (cm_blk : forall p q, blk p = blk q -> cm p = cm q)
         (keep_eucl : keep_eucl_on D keep cm) (E : nat -> R0) (inv : R0 -> R0),
    (forall p q, (p < D)%nat -> (q < D)%nat -> keep p q = false -> (E p - E q) * inv (E p - E q) == 1) ->
    (forall p, conj (E p) == E p) -> Proper (_==_ ==> _==_) inv ->
    (forall x, inv (- x) == - inv x) -> (forall x, conj (inv x) == inv (conj x)) ->
    forall (pi pinv : nat -> nat),
    (forall p, (p < D)%nat -> (pi p < D)%nat) -> (forall p, (p < D)%nat -> (pinv p < D)%nat) ->
    (forall p, (p < D)%nat -> pinv (pi p) = p) -> (forall p, (p < D)%nat -> pi (pinv p) = p) ->
    forall (blk' : nat -> nat) (cm' : nat -> bool)
           (keep_blk' : forall p q, keep_pi keep pi p q = true -> blk' p = blk' q)
           (cm_blk' : forall p q, blk' p = blk' q -> cm' p = cm' q),
    keep_eucl_on D (keep_pi keep pi) cm' ->
    let BAs := series_BlockAlg D k blk keep cm keep_sym keep_blk cm_blk in
    let BAt := series_BlockAlg D k blk' (keep_pi keep pi) cm' (keep_pi_sym keep keep_sym pi) keep_blk' cm_blk' in
    forall (rflag rflag' : string -> T D k R0 -> T D k R0) (fenv fenv' : string -> list (T D k R0) -> T D k R0)
           (sol sol' : string -> T D k R0),
    (forall x, rflag "commuting_blocks" x == Rw (BlockAlg := BAs) x) ->
    (forall y, fenv "solve_sylvester" (cons y nil) == SylvInst.sylv E inv y) ->
    (forall x, rflag' "commuting_blocks" x == Rw (BlockAlg := BAt) x) ->
    (forall y, fenv' "solve_sylvester" (cons y nil) == SylvInst.sylv (E_pi pi E) inv y) ->
    solution (BA := BAs) (gflag_of false) rflag fenv sol main_alg ->
    solution (BA := BAt) (gflag_of false) rflag' fenv' sol' main_alg ->
    adj (BlockAlg := BAs) (sol "H") == sol "H" -> Zc (BlockAlg := BAs) (sol "H") == SylvInst.H0 D k E ->
    sol' "H" == sperm D k pi (sol "H") ->
    sol' "U" == sperm D k pi (sol "U") /\ sol' "U†" == sperm D k pi (sol "U†")
    /\ sol' "H_tilde" == sperm D k pi (sol "H_tilde").
Proof.
  intros D k R0 r0 r1 add mul sub opp req Ro Rg CS blk keep cm keep_sym keep_refl keep_blk cm_blk keep_eucl E inv
         Hinv Hreal HinvP Hopp Hconj pi pinv pi_lt pinv_lt pinv_pi pi_pinv blk' cm' keep_blk' cm_blk' keep_eucl' BAs BAt rflag rflag' fenv fenv' sol sol' Hrf Hfe Hrf' Hfe' Hsol Hsol' Hh Hz Hin.
  exact (perm_covariant D k blk keep cm keep_sym keep_refl keep_blk cm_blk pi pinv pi_lt pinv_lt pinv_pi pi_pinv
           blk' cm' keep_blk' cm_blk' E Hreal keep_eucl keep_eucl' inv Hinv HinvP Hopp Hconj
           rflag rflag' fenv fenv' Hrf Hfe Hrf' Hfe' sol sol' Hsol Hsol' Hh Hz Hin).
Qed.
Print Assumptions C15_basis_perm_general.

(** the same blocks in the permuted basis: blk' = blk o pi, cm' = cm o pi *)
Theorem C15_basis_perm :
  forall (D k : nat) (R0 : Type) (r0 r1 : R0) (add mul sub : R0 -> R0 -> R0) (opp : R0 -> R0) (req : R0 -> R0 -> Prop)
         (Ro : @Ring_ops R0 r0 r1 add mul sub opp req) (Rg : @Ring R0 r0 r1 add mul sub opp req Ro) (CS : CStar R0)
         (blk : nat -> nat) (keep : nat -> nat -> bool) (cm : nat -> bool)
         (keep_sym : forall p q, keep p q = keep q p) (keep_refl : forall p, keep p p = true)
         (keep_blk : forall p q, keep p q = true -> blk p = blk q) (cm_blk : forall p q, blk p = blk q -> cm p = cm q)
         (keep_eucl : keep_eucl_on D keep cm) (E : nat -> R0) (inv : R0 -> R0),
    (forall p q, (p < D)%nat -> (q < D)%nat -> keep p q = false -> (E p - E q) * inv (E p - E q) == 1) ->
    (forall p, conj (E p) == E p) -> Proper (_==_ ==> _==_) inv ->
    (forall x, inv (- x) == - inv x) -> (forall x, conj (inv x) == inv (conj x)) ->
    forall (pi pinv : nat -> nat) (pi_lt : forall p, (p < D)%nat -> (pi p < D)%nat),
    (forall p, (p < D)%nat -> (pinv p < D)%nat) ->
    (forall p, (p < D)%nat -> pinv (pi p) = p) -> (forall p, (p < D)%nat -> pi (pinv p) = p) ->
    let BAs := series_BlockAlg D k blk keep cm keep_sym keep_blk cm_blk in
    let BAt := series_BlockAlg D k (fun p => blk (pi p)) (keep_pi keep pi) (fun p => cm (pi p)) (keep_pi_sym keep keep_sym pi)
                               (basis_keep_blk blk keep keep_blk pi) (basis_cm_blk blk cm cm_blk pi) in
    forall (rflag rflag' : string -> T D k R0 -> T D k R0) (fenv fenv' : string -> list (T D k R0) -> T D k R0)
           (sol sol' : string -> T D k R0),
    (forall x, rflag "commuting_blocks" x == Rw (BlockAlg := BAs) x) ->
    (forall y, fenv "solve_sylvester" (cons y nil) == SylvInst.sylv E inv y) ->
    (forall x, rflag' "commuting_blocks" x == Rw (BlockAlg := BAt) x) ->
    (forall y, fenv' "solve_sylvester" (cons y nil) == SylvInst.sylv (E_pi pi E) inv y) ->
    solution (BA := BAs) (gflag_of false) rflag fenv sol main_alg ->
    solution (BA := BAt) (gflag_of false) rflag' fenv' sol' main_alg ->
    adj (BlockAlg := BAs) (sol "H") == sol "H" -> Zc (BlockAlg := BAs) (sol "H") == SylvInst.H0 D k E ->
    sol' "H" == sperm D k pi (sol "H") ->
    sol' "U" == sperm D k pi (sol "U") /\ sol' "U†" == sperm D k pi (sol "U†")
    /\ sol' "H_tilde" == sperm D k pi (sol "H_tilde").
Proof.
  intros D k R0 r0 r1 add mul sub opp req Ro Rg CS blk keep cm keep_sym keep_refl keep_blk cm_blk keep_eucl E inv
         Hinv Hreal HinvP Hopp Hconj pi pinv pi_lt pinv_lt pinv_pi pi_pinv BAs BAt rflag rflag' fenv fenv' sol sol' Hrf Hfe Hrf' Hfe' Hsol Hsol' Hh Hz Hin.
  exact (perm_covariant D k blk keep cm keep_sym keep_refl keep_blk cm_blk pi pinv pi_lt pinv_lt pinv_pi pi_pinv
           (fun p => blk (pi p)) (fun p => cm (pi p)) (basis_keep_blk blk keep keep_blk pi) (basis_cm_blk blk cm cm_blk pi)
           E Hreal keep_eucl (basis_keep_eucl D keep cm keep_eucl pi pi_lt) inv Hinv HinvP Hopp Hconj
           rflag rflag' fenv fenv' Hrf Hfe Hrf' Hfe' sol sol' Hsol Hsol' Hh Hz Hin).
Qed.
Print Assumptions C15_basis_perm.

Example C15_basis_perm_applies :
  LAHom (BA := ex_BA)
        (BA' := series_BlockAlg 3 2 (fun p => ex_blk (ex_pi p)) (keep_pi ex_keep ex_pi) (fun p => ex_cm (ex_pi p))
                  (keep_pi_sym ex_keep ex_keep_sym ex_pi) (basis_keep_blk ex_blk ex_keep ex_keep_blk ex_pi)
                  (basis_cm_blk ex_blk ex_cm ex_cm_blk ex_pi))
        (sperm 3 2 ex_pi).
Proof.
  exact (sperm_LAHom 3 2 ex_blk ex_keep ex_cm ex_keep_sym ex_keep_blk ex_cm_blk ex_pi ex_pi ex_pi_lt ex_pi_lt
           ex_pi_pi ex_pi_pi _ _ _ _).
Qed.

(** relabelling of the blocks by an injective map sigma of the labels (basis unchanged): all three
    outputs are literally the same series *)
Theorem C15_relabel :
  forall (D k : nat) (R0 : Type) (r0 r1 : R0) (add mul sub : R0 -> R0 -> R0) (opp : R0 -> R0) (req : R0 -> R0 -> Prop)
         (Ro : @Ring_ops R0 r0 r1 add mul sub opp req) (Rg : @Ring R0 r0 r1 add mul sub opp req Ro) (CS : CStar R0)
         (blk : nat -> nat) (keep : nat -> nat -> bool) (cm : nat -> bool)
         (keep_sym : forall p q, keep p q = keep q p) (keep_refl : forall p, keep p p = true)
         (keep_blk : forall p q, keep p q = true -> blk p = blk q) (cm_blk : forall p q, blk p = blk q -> cm p = cm q)
         (keep_eucl : keep_eucl_on D keep cm) (E : nat -> R0) (inv : R0 -> R0),
    (forall p q, (p < D)%nat -> (q < D)%nat -> keep p q = false -> (E p - E q) * inv (E p - E q) == 1) ->
    (forall p, conj (E p) == E p) -> Proper (_==_ ==> _==_) inv ->
    (forall x, inv (- x) == - inv x) -> (forall x, conj (inv x) == inv (conj x)) ->
    forall (sigma : nat -> nat) (sigma_inj : forall a b, sigma a = sigma b -> a = b),
    let BAs := series_BlockAlg D k blk keep cm keep_sym keep_blk cm_blk in
    let BAt := series_BlockAlg D k (fun p => sigma (blk p)) (keep_pi keep (fun p => p)) cm (keep_pi_sym keep keep_sym (fun p => p))
                               (relabel_keep_blk blk keep keep_blk sigma) (relabel_cm_blk blk cm cm_blk sigma sigma_inj) in
    forall (rflag rflag' : string -> T D k R0 -> T D k R0) (fenv fenv' : string -> list (T D k R0) -> T D k R0)
           (sol sol' : string -> T D k R0),
    (forall x, rflag "commuting_blocks" x == Rw (BlockAlg := BAs) x) ->
    (forall y, fenv "solve_sylvester" (cons y nil) == SylvInst.sylv E inv y) ->
    (forall x, rflag' "commuting_blocks" x == Rw (BlockAlg := BAt) x) ->
    (forall y, fenv' "solve_sylvester" (cons y nil) == SylvInst.sylv E inv y) ->
    solution (BA := BAs) (gflag_of false) rflag fenv sol main_alg ->
    solution (BA := BAt) (gflag_of false) rflag' fenv' sol' main_alg ->
    adj (BlockAlg := BAs) (sol "H") == sol "H" -> Zc (BlockAlg := BAs) (sol "H") == SylvInst.H0 D k E ->
    sol' "H" == sol "H" ->
    sol' "U" == sol "U" /\ sol' "U†" == sol "U†" /\ sol' "H_tilde" == sol "H_tilde".
Proof.
  intros D k R0 r0 r1 add mul sub opp req Ro Rg CS blk keep cm keep_sym keep_refl keep_blk cm_blk keep_eucl E inv
         Hinv Hreal HinvP Hopp Hconj sigma sigma_inj BAs BAt rflag rflag' fenv fenv' sol sol' Hrf Hfe Hrf' Hfe' Hsol Hsol' Hh Hz Hin.
  exact (perm_covariant D k blk keep cm keep_sym keep_refl keep_blk cm_blk (fun p => p) (fun p => p)
           (fun p H => H) (fun p H => H) (fun p _ => eq_refl) (fun p _ => eq_refl)
           (fun p => sigma (blk p)) cm (relabel_keep_blk blk keep keep_blk sigma) (relabel_cm_blk blk cm cm_blk sigma sigma_inj)
           E Hreal keep_eucl (relabel_keep_eucl D keep cm keep_eucl) inv Hinv HinvP Hopp Hconj
           rflag rflag' fenv fenv' Hrf Hfe Hrf' Hfe' sol sol' Hsol Hsol' Hh Hz Hin).
Qed.
Print Assumptions C15_relabel.

Example C15_relabel_applies :
  (forall a b : nat, S a = S b -> a = b) /\ keep_eucl_on 3 (keep_pi ex_keep (fun p => p)) ex_cm.
Proof. split. intros a b H; injection H; auto. exact (relabel_keep_eucl 3 ex_keep ex_cm ex_eucl). Qed.

(** shift of H_0 by c * 1 (c real, central): the energies become E + c, the same solver applies;
    U and U† are unchanged, H_tilde changes by c * 1 at order zero only
    ([cst D k c] is the series whose only coefficient, at order zero, is c times the identity) *)
Theorem C15_shift :
  forall (D k : nat) (R0 : Type) (r0 r1 : R0) (add mul sub : R0 -> R0 -> R0) (opp : R0 -> R0) (req : R0 -> R0 -> Prop)
         (Ro : @Ring_ops R0 r0 r1 add mul sub opp req) (Rg : @Ring R0 r0 r1 add mul sub opp req Ro) (CS : CStar R0)
         (blk : nat -> nat) (keep : nat -> nat -> bool) (cm : nat -> bool)
         (keep_sym : forall p q, keep p q = keep q p) (keep_refl : forall p, keep p p = true)
         (keep_blk : forall p q, keep p q = true -> blk p = blk q) (cm_blk : forall p q, blk p = blk q -> cm p = cm q)
         (keep_eucl : keep_eucl_on D keep cm) (E : nat -> R0) (inv : R0 -> R0),
    (forall p q, (p < D)%nat -> (q < D)%nat -> keep p q = false -> (E p - E q) * inv (E p - E q) == 1) ->
    (forall p, conj (E p) == E p) -> Proper (_==_ ==> _==_) inv ->
    (forall x, inv (- x) == - inv x) -> (forall x, conj (inv x) == inv (conj x)) ->
    forall c : R0, conj c == c ->
    let BA := series_BlockAlg D k blk keep cm keep_sym keep_blk cm_blk in
    forall (rflag rflag' : string -> T D k R0 -> T D k R0) (fenv fenv' : string -> list (T D k R0) -> T D k R0)
           (sol sol' : string -> T D k R0),
    (forall x, rflag "commuting_blocks" x == Rw x) ->
    (forall y, fenv "solve_sylvester" (cons y nil) == SylvInst.sylv E inv y) ->
    (forall x, rflag' "commuting_blocks" x == Rw x) ->
    (forall y, fenv' "solve_sylvester" (cons y nil) == SylvInst.sylv (fun p => E p + c) inv y) ->
    solution (gflag_of false) rflag fenv sol main_alg ->
    solution (gflag_of false) rflag' fenv' sol' main_alg ->
    adj (sol "H") == sol "H" -> Zc (sol "H") == SylvInst.H0 D k E ->
    sol' "H" == sol "H" + cst D k c ->
    sol' "U" == sol "U" /\ sol' "U†" == sol "U†" /\ sol' "H_tilde" == sol "H_tilde" + cst D k c.
Proof.
  intros D k R0 r0 r1 add mul sub opp req Ro Rg CS blk keep cm keep_sym keep_refl keep_blk cm_blk keep_eucl E inv
         Hinv Hreal HinvP Hopp Hconj c c_real BA rflag rflag' fenv fenv' sol sol' Hrf Hfe Hrf' Hfe' Hsol Hsol' Hh Hz Hin.
  exact (shift_covariant D k blk keep cm keep_sym keep_refl keep_blk cm_blk keep_eucl E Hreal inv Hinv HinvP Hopp Hconj
           rflag rflag' fenv fenv' Hrf Hrf' Hfe sol sol' Hsol Hsol' Hh Hz c c_real Hfe' Hin).
Qed.
Print Assumptions C15_shift.

(** scaling of the whole Hamiltonian by a real central scalar s (for the code: positive): the
    energies become s * E and [inv'] is any solver inverting the scaled eliminated differences;
    U and U† are unchanged, H_tilde is scaled *)
Theorem C15_scale :
  forall (D k : nat) (R0 : Type) (r0 r1 : R0) (add mul sub : R0 -> R0 -> R0) (opp : R0 -> R0) (req : R0 -> R0 -> Prop)
         (Ro : @Ring_ops R0 r0 r1 add mul sub opp req) (Rg : @Ring R0 r0 r1 add mul sub opp req Ro) (CS : CStar R0)
         (blk : nat -> nat) (keep : nat -> nat -> bool) (cm : nat -> bool)
         (keep_sym : forall p q, keep p q = keep q p) (keep_refl : forall p, keep p p = true)
         (keep_blk : forall p q, keep p q = true -> blk p = blk q) (cm_blk : forall p q, blk p = blk q -> cm p = cm q)
         (keep_eucl : keep_eucl_on D keep cm) (E : nat -> R0) (inv : R0 -> R0),
    (forall p q, (p < D)%nat -> (q < D)%nat -> keep p q = false -> (E p - E q) * inv (E p - E q) == 1) ->
    (forall p, conj (E p) == E p) -> Proper (_==_ ==> _==_) inv ->
    (forall x, inv (- x) == - inv x) -> (forall x, conj (inv x) == inv (conj x)) ->
    forall (s : R0) (inv' : R0 -> R0), conj s == s ->
    (forall p q, (p < D)%nat -> (q < D)%nat -> keep p q = false -> (s * E p - s * E q) * inv' (s * E p - s * E q) == 1) ->
    Proper (_==_ ==> _==_) inv' -> (forall x, inv' (- x) == - inv' x) -> (forall x, conj (inv' x) == inv' (conj x)) ->
    let BA := series_BlockAlg D k blk keep cm keep_sym keep_blk cm_blk in
    forall (rflag rflag' : string -> T D k R0 -> T D k R0) (fenv fenv' : string -> list (T D k R0) -> T D k R0)
           (sol sol' : string -> T D k R0),
    (forall x, rflag "commuting_blocks" x == Rw x) ->
    (forall y, fenv "solve_sylvester" (cons y nil) == SylvInst.sylv E inv y) ->
    (forall x, rflag' "commuting_blocks" x == Rw x) ->
    (forall y, fenv' "solve_sylvester" (cons y nil) == SylvInst.sylv (fun p => s * E p) inv' y) ->
    solution (gflag_of false) rflag fenv sol main_alg ->
    solution (gflag_of false) rflag' fenv' sol' main_alg ->
    adj (sol "H") == sol "H" -> Zc (sol "H") == SylvInst.H0 D k E ->
    sol' "H" == cst D k s * sol "H" ->
    sol' "U" == sol "U" /\ sol' "U†" == sol "U†" /\ sol' "H_tilde" == cst D k s * sol "H_tilde".
Proof.
  intros D k R0 r0 r1 add mul sub opp req Ro Rg CS blk keep cm keep_sym keep_refl keep_blk cm_blk keep_eucl E inv
         Hinv Hreal HinvP Hopp Hconj s inv' s_real Hinv' HinvP' Hopp' Hconj' BA rflag rflag' fenv fenv' sol sol' Hrf Hfe Hrf' Hfe' Hsol Hsol' Hh Hz Hin.
  exact (hscale_covariant D k blk keep cm keep_sym keep_refl keep_blk cm_blk keep_eucl E Hreal inv Hinv HinvP Hopp Hconj
           rflag rflag' fenv fenv' Hrf Hrf' Hfe sol sol' Hsol Hsol' Hh Hz s s_real inv' Hinv' HinvP' Hopp' Hconj' Hfe' Hin).
Qed.
Print Assumptions C15_scale.


(** rotation inside degenerate levels (also the eigenbasis-change clause of C14): R is unitary,
    commutes with the kept mask and with H_0 = diag(E); (rot R x) n = R† * x n * R *)
Theorem C15_degenerate_rotation :
  forall (D k : nat) (R0 : Type) (r0 r1 : R0) (add mul sub : R0 -> R0 -> R0) (opp : R0 -> R0) (req : R0 -> R0 -> Prop)
         (Ro : @Ring_ops R0 r0 r1 add mul sub opp req) (Rg : @Ring R0 r0 r1 add mul sub opp req Ro) (CS : CStar R0)
         (blk : nat -> nat) (keep : nat -> nat -> bool) (cm : nat -> bool)
         (keep_sym : forall p q, keep p q = keep q p) (keep_refl : forall p, keep p p = true)
         (keep_blk : forall p q, keep p q = true -> blk p = blk q) (cm_blk : forall p q, blk p = blk q -> cm p = cm q)
         (keep_eucl : keep_eucl_on D keep cm) (E : nat -> R0) (inv : R0 -> R0),
    (forall p q, (p < D)%nat -> (q < D)%nat -> keep p q = false -> (E p - E q) * inv (E p - E q) == 1) ->
    (forall p, conj (E p) == E p) -> Proper (_==_ ==> _==_) inv ->
    (forall x, inv (- x) == - inv x) -> (forall x, conj (inv x) == inv (conj x)) ->
    forall R : mat D R0,
    madj R * R == 1 -> R * madj R == 1 ->
    (forall y : mat D R0, mmask keep (madj R * y * R) == madj R * mmask keep y * R) ->
    madj R * mdiag D E * R == mdiag D E ->
    let BA := series_BlockAlg D k blk keep cm keep_sym keep_blk cm_blk in
    forall (rflag rflag' : string -> T D k R0 -> T D k R0) (fenv fenv' : string -> list (T D k R0) -> T D k R0)
           (sol sol' : string -> T D k R0),
    (forall x, rflag "commuting_blocks" x == Rw x) ->
    (forall y, fenv "solve_sylvester" (cons y nil) == SylvInst.sylv E inv y) ->
    (forall x, rflag' "commuting_blocks" x == Rw x) ->
    (forall y, fenv' "solve_sylvester" (cons y nil) == SylvInst.sylv E inv y) ->
    solution (gflag_of false) rflag fenv sol main_alg ->
    solution (gflag_of false) rflag' fenv' sol' main_alg ->
    adj (sol "H") == sol "H" -> Zc (sol "H") == SylvInst.H0 D k E ->
    sol' "H" == rot D k R (sol "H") ->
    sol' "U" == rot D k R (sol "U") /\ sol' "U†" == rot D k R (sol "U†")
    /\ sol' "H_tilde" == rot D k R (sol "H_tilde").
Proof.
  intros D k R0 r0 r1 add mul sub opp req Ro Rg CS blk keep cm keep_sym keep_refl keep_blk cm_blk keep_eucl E inv
         Hinv Hreal HinvP Hopp Hconj R RdR RRd Rmask RH0 BA rflag rflag' fenv fenv' sol sol' Hrf Hfe Hrf' Hfe' Hsol Hsol' Hh Hz Hin.
  exact (rot_covariant D k blk keep cm keep_sym keep_refl keep_blk cm_blk R RdR RRd Rmask E RH0 Hreal keep_eucl
           inv Hinv HinvP Hopp Hconj rflag rflag' fenv fenv' Hrf Hfe Hrf' Hfe' sol sol' Hsol Hsol' Hh Hz Hin).
Qed.
Print Assumptions C15_degenerate_rotation.

(** the mask hypothesis holds when R vanishes outside a support m and states connected by m have
    equal rows of the kept mask (e.g. R mixes only states p, q of one degenerate level whose
    rows/columns in the mask coincide) *)
Theorem C15_rotation_mask_condition :
  forall (D : nat) (R0 : Type) (r0 r1 : R0) (add mul sub : R0 -> R0 -> R0) (opp : R0 -> R0) (req : R0 -> R0 -> Prop)
         (Ro : @Ring_ops R0 r0 r1 add mul sub opp req) (Rg : @Ring R0 r0 r1 add mul sub opp req Ro) (CS : CStar R0)
         (keep : nat -> nat -> bool) (keep_sym : forall p q, keep p q = keep q p) (R : mat D R0) (m : nat -> nat -> bool),
    (forall a p, (a < D)%nat -> (p < D)%nat -> m a p = false -> R a p == 0) ->
    (forall a p r, (a < D)%nat -> (p < D)%nat -> (r < D)%nat -> m a p = true -> keep a r = keep p r) ->
    forall y : mat D R0, mmask keep (madj R * y * R) == madj R * mmask keep y * R.
Proof. intros. eapply mask_compatible; eassumption. Qed.
Print Assumptions C15_rotation_mask_condition.

Example C15_rotation_applies :
  (* the swap of the states 0 and 1 of the block {0,1} *)
  let R : mat 3 QArith_base.Q := fun a p => if Nat.eqb a (ex_sw p) then QArith_base.Qmake 1 1 else QArith_base.Qmake 0 1 in
  forall y : mat 3 QArith_base.Q, mmask ex_keep (madj R * y * R) == madj R * mmask ex_keep y * R.
Proof.
  intros R. apply (mask_compatible 3 ex_keep ex_keep_sym R (fun a p => Nat.eqb a (ex_sw p))).
  - intros a p _ _ H. unfold R. rewrite H. reflexivity.
  - exact ex_sw_rows.
Qed.

(** direct sum of two decoupled problems with D1 and D2 states (same parameters): the block sum
    (osum x1 x2) n = x1 n (+) x2 n;  kept mask keep1 (+) keep2, energies E1 (+) E2, block labels
    2 * blk1 and 2 * blk2 + 1, and a solver that inverts every eliminated difference of the sum,
    in particular E1 p - E2 q ("disjoint energy pools") *)
Theorem C15_direct_sum :
  forall (D1 D2 k : nat) (R0 : Type) (r0 r1 : R0) (add mul sub : R0 -> R0 -> R0) (opp : R0 -> R0) (req : R0 -> R0 -> Prop)
         (Ro : @Ring_ops R0 r0 r1 add mul sub opp req) (Rg : @Ring R0 r0 r1 add mul sub opp req Ro) (CS : CStar R0)
         (blk1 blk2 : nat -> nat) (keep1 keep2 : nat -> nat -> bool) (cm1 cm2 : nat -> bool)
         (keep_sym1 : forall p q, keep1 p q = keep1 q p) (keep_sym2 : forall p q, keep2 p q = keep2 q p)
         (keep_refl1 : forall p, keep1 p p = true) (keep_refl2 : forall p, keep2 p p = true)
         (keep_blk1 : forall p q, keep1 p q = true -> blk1 p = blk1 q) (keep_blk2 : forall p q, keep2 p q = true -> blk2 p = blk2 q)
         (cm_blk1 : forall p q, blk1 p = blk1 q -> cm1 p = cm1 q) (cm_blk2 : forall p q, blk2 p = blk2 q -> cm2 p = cm2 q)
         (E1 E2 : nat -> R0) (inv : R0 -> R0),
    (forall p, conj (E1 p) == E1 p) -> (forall p, conj (E2 p) == E2 p) ->
    keep_eucl_on D1 keep1 cm1 -> keep_eucl_on D2 keep2 cm2 ->
    (forall p q, (p < D1 + D2)%nat -> (q < D1 + D2)%nat -> keepS D1 keep1 keep2 p q = false ->
                 (ES D1 E1 E2 p - ES D1 E1 E2 q) * inv (ES D1 E1 E2 p - ES D1 E1 E2 q) == 1) ->
    Proper (_==_ ==> _==_) inv -> (forall x, inv (- x) == - inv x) -> (forall x, conj (inv x) == inv (conj x)) ->
    let B1 := series_BlockAlg D1 k blk1 keep1 cm1 keep_sym1 keep_blk1 cm_blk1 in
    let B2 := series_BlockAlg D2 k blk2 keep2 cm2 keep_sym2 keep_blk2 cm_blk2 in
    let BS := series_BlockAlg (D1 + D2) k (blkS D1 blk1 blk2) (keepS D1 keep1 keep2) (cmS D1 cm1 cm2)
                (keepS_sym D1 keep1 keep2 keep_sym1 keep_sym2) (keepS_blk D1 blk1 blk2 keep1 keep2 keep_blk1 keep_blk2)
                (cmS_blk D1 blk1 blk2 cm1 cm2 cm_blk1 cm_blk2) in
    forall (rflag1 : string -> T D1 k R0 -> T D1 k R0) (fenv1 : string -> list (T D1 k R0) -> T D1 k R0)
           (rflag2 : string -> T D2 k R0 -> T D2 k R0) (fenv2 : string -> list (T D2 k R0) -> T D2 k R0)
           (rflagS : string -> T (D1 + D2) k R0 -> T (D1 + D2) k R0) (fenvS : string -> list (T (D1 + D2) k R0) -> T (D1 + D2) k R0),
    (forall x, rflag1 "commuting_blocks" x == Rw (BlockAlg := B1) x) ->
    (forall x, rflag2 "commuting_blocks" x == Rw (BlockAlg := B2) x) ->
    (forall x, rflagS "commuting_blocks" x == Rw (BlockAlg := BS) x) ->
    (forall y, fenv1 "solve_sylvester" (cons y nil) == SylvInst.sylv E1 inv y) ->
    (forall y, fenv2 "solve_sylvester" (cons y nil) == SylvInst.sylv E2 inv y) ->
    (forall y, fenvS "solve_sylvester" (cons y nil) == SylvInst.sylv (ES D1 E1 E2) inv y) ->
    forall (sol1 : string -> T D1 k R0) (sol2 : string -> T D2 k R0) (solS : string -> T (D1 + D2) k R0),
    solution (BA := B1) (gflag_of false) rflag1 fenv1 sol1 main_alg ->
    solution (BA := B2) (gflag_of false) rflag2 fenv2 sol2 main_alg ->
    solution (BA := BS) (gflag_of false) rflagS fenvS solS main_alg ->
    adj (BlockAlg := B1) (sol1 "H") == sol1 "H" -> adj (BlockAlg := B2) (sol2 "H") == sol2 "H" ->
    Zc (BlockAlg := B1) (sol1 "H") == SylvInst.H0 D1 k E1 -> Zc (BlockAlg := B2) (sol2 "H") == SylvInst.H0 D2 k E2 ->
    solS "H" == osum D1 D2 k (sol1 "H") (sol2 "H") ->
    solS "U" == osum D1 D2 k (sol1 "U") (sol2 "U") /\ solS "U†" == osum D1 D2 k (sol1 "U†") (sol2 "U†")
    /\ solS "H_tilde" == osum D1 D2 k (sol1 "H_tilde") (sol2 "H_tilde").
Proof.
  intros D1 D2 k R0 r0 r1 add mul sub opp req Ro Rg CS blk1 blk2 keep1 keep2 cm1 cm2 keep_sym1 keep_sym2 keep_refl1 keep_refl2
         keep_blk1 keep_blk2 cm_blk1 cm_blk2 E1 E2 inv Er1 Er2 ke1 ke2 HinvS HinvP Hopp Hconj B1 B2 BS
         rflag1 fenv1 rflag2 fenv2 rflagS fenvS Hr1 Hr2 HrS Hf1 Hf2 HfS sol1 sol2 solS Hs1 Hs2 HsS Hh1 Hh2 Hz1 Hz2 Hin.
  exact (direct_sum_outputs D1 D2 k blk1 blk2 keep1 keep2 cm1 cm2 keep_sym1 keep_sym2 keep_refl1 keep_refl2
           keep_blk1 keep_blk2 cm_blk1 cm_blk2 E1 E2 Er1 Er2 ke1 ke2 inv HinvS HinvP Hopp Hconj
           rflag1 fenv1 rflag2 fenv2 rflagS fenvS Hr1 Hr2 HrS Hf1 Hf2 HfS sol1 sol2 solS Hs1 Hs2 HsS Hh1 Hh2 Hz1 Hz2 Hin).
Qed.
Print Assumptions C15_direct_sum.

(** the block sum of least-action transformations is a least-action transformation of the sum
    (the algebraic core of the direct-sum clause, no solver involved) *)
Theorem C15_direct_sum_least_action :
  forall (D1 D2 k : nat) (R0 : Type) (r0 r1 : R0) (add mul sub : R0 -> R0 -> R0) (opp : R0 -> R0) (req : R0 -> R0 -> Prop)
         (Ro : @Ring_ops R0 r0 r1 add mul sub opp req) (Rg : @Ring R0 r0 r1 add mul sub opp req Ro) (CS : CStar R0)
         (blk1 blk2 : nat -> nat) (keep1 keep2 : nat -> nat -> bool) (cm1 cm2 : nat -> bool)
         (keep_sym1 : forall p q, keep1 p q = keep1 q p) (keep_sym2 : forall p q, keep2 p q = keep2 q p)
         (keep_blk1 : forall p q, keep1 p q = true -> blk1 p = blk1 q) (keep_blk2 : forall p q, keep2 p q = true -> blk2 p = blk2 q)
         (cm_blk1 : forall p q, blk1 p = blk1 q -> cm1 p = cm1 q) (cm_blk2 : forall p q, blk2 p = blk2 q -> cm2 p = cm2 q)
         (H1 U1 : T D1 k R0) (H2 U2 : T D2 k R0),
    least_action (BA := series_BlockAlg D1 k blk1 keep1 cm1 keep_sym1 keep_blk1 cm_blk1) H1 U1 ->
    least_action (BA := series_BlockAlg D2 k blk2 keep2 cm2 keep_sym2 keep_blk2 cm_blk2) H2 U2 ->
    least_action (BA := series_BlockAlg (D1 + D2) k (blkS D1 blk1 blk2) (keepS D1 keep1 keep2) (cmS D1 cm1 cm2)
                          (keepS_sym D1 keep1 keep2 keep_sym1 keep_sym2) (keepS_blk D1 blk1 blk2 keep1 keep2 keep_blk1 keep_blk2)
                          (cmS_blk D1 blk1 blk2 cm1 cm2 cm_blk1 cm_blk2))
                 (osum D1 D2 k H1 H2) (osum D1 D2 k U1 U2).
Proof. intros. apply la_osum; assumption. Qed.
Print Assumptions C15_direct_sum_least_action.

Example C15_direct_sum_applies :
  keep_eucl_on (3 + 3) (keepS 3 ex_keep ex_keep) (cmS 3 ex_cm ex_cm)
  /\ keepS 3 ex_keep ex_keep 0 4 = false /\ keepS 3 ex_keep ex_keep 3 4 = true.
Proof.
  split. exact (keepS_eucl 3 3 ex_keep ex_keep ex_cm ex_cm ex_eucl ex_eucl). split; reflexivity.
Qed.

(** the structural hypotheses of all statements above hold for the example instance
    (3 states, blocks {0,1} | {2}, energies 0, 1, 2 over Q, solver = field inverse) *)
Example C15_instance_hypotheses :
  (forall p q, (p < 3)%nat -> (q < 3)%nat -> ex_keep p q = false ->
               (ex_E p - ex_E q) * ex_inv (ex_E p - ex_E q) == 1)
  /\ (forall p, conj (ex_E p) == ex_E p) /\ Proper (_==_ ==> _==_) ex_inv
  /\ (forall x, ex_inv (- x) == - ex_inv x) /\ (forall x, conj (ex_inv x) == ex_inv (conj x))
  /\ keep_eucl_on 3 ex_keep ex_cm.
Proof.
  exact (Logic.conj ex_inv_spec (Logic.conj ex_E_real (Logic.conj ex_inv_P (Logic.conj ex_inv_opp
           (Logic.conj ex_inv_conj ex_eucl))))).
Qed.

(** computational confirmation on the implementation's values (Alg/MainWitness.v): the entry-wise
    conjugated tables of all series again satisfy every equation of [main_alg], and differ from
    the original ones *)
Example C15_witness :
  wit_check (smap (fun _ => QLemmas.gq_conj) main_wit_sols) = true
  /\ negb (Exec.teqb 4 2 2 (SemExec.tsol (smap (fun _ => QLemmas.gq_conj) main_wit_sols) "U") (SemExec.tsol main_wit_sols "U")) = true.
Proof. exact (Logic.conj wit_conj wit_changed). Qed.

(** * Non-Hermitian mode (hermitian=False, program [nonhermitian_alg])

    The covariance relations for ANY solutions of the generated non-Hermitian program.  Named _partial
    because of one extra hypothesis on both sides: kept matrix elements connect equal unperturbed
    energies ([kept_equal]; the hypothesis for the transformed problem follows from it in every case
    below).  Outside this class the non-Hermitian program does not satisfy its own defining
    conditions (known finding C05-kept-distinct-energies) and uniqueness cannot be applied; the
    oracle tests the relations there as well.  Not assumed: real energies, Hermitian input, a
    unitary rotation (R only has to be invertible), real shift / scale.  [U†] names the third
    output (U_inv).  Conjugation maps the problem for H to the problem for conj H, whose
    unperturbed energies are conj E. *)
From PV.Alg Require Import UniqueNH NonHerm.
From PV.Series Require Import SymNH SymNHInst.

(** entry-wise conjugation: energies conj E, same solver (assumed compatible with conj) *)
Theorem C15_conjugation_nh_partial :
  forall (D k : nat) (R0 : Type) (r0 r1 : R0) (add mul sub : R0 -> R0 -> R0) (opp : R0 -> R0) (req : R0 -> R0 -> Prop)
         (Ro : @Ring_ops R0 r0 r1 add mul sub opp req) (Rg : @Ring R0 r0 r1 add mul sub opp req Ro) (CS : CStar R0)
         (blk : nat -> nat) (keep : nat -> nat -> bool) (cm : nat -> bool)
         (keep_sym : forall p q, keep p q = keep q p) (keep_refl : forall p, keep p p = true)
         (keep_blk : forall p q, keep p q = true -> blk p = blk q) (cm_blk : forall p q, blk p = blk q -> cm p = cm q)
         (E : nat -> R0) (inv : R0 -> R0)
         (inv_spec : forall p q, (p < D)%nat -> (q < D)%nat -> keep p q = false -> (E p - E q) * inv (E p - E q) == 1)
         (kept_equal : forall p q, (p < D)%nat -> (q < D)%nat -> keep p q = true -> E p == E q)
         (inv_P : Proper (_==_ ==> _==_) inv) (inv_conj : forall x, conj (inv x) == inv (conj x)),
    let BAs := series_BlockAlg D k blk keep cm keep_sym keep_blk cm_blk in
    let BAt := series_BlockAlg D k blk keep cm keep_sym keep_blk cm_blk in
    forall (gflag gflag' : string -> bool)
           (rflag : string -> T D k R0 -> T D k R0) (fenv : string -> list (T D k R0) -> T D k R0)
           (rflag' : string -> T D k R0 -> T D k R0) (fenv' : string -> list (T D k R0) -> T D k R0)
           (sol : string -> T D k R0) (sol' : string -> T D k R0),
    (forall y, fenv "solve_sylvester" (cons y nil) == SylvInst.sylv E inv y) ->
    (forall y, fenv' "solve_sylvester" (cons y nil) == SylvInst.sylv (E_conj E) inv y) ->
    solution (BA := BAs) gflag rflag fenv sol nonhermitian_alg ->
    solution (BA := BAt) gflag' rflag' fenv' sol' nonhermitian_alg ->
    Zc (BlockAlg := BAs) (sol "H") == SylvInst.H0 D k E ->
    sol' "H" == cconj D k (sol "H") ->
    sol' "U" == cconj D k (sol "U") /\ sol' "U†" == cconj D k (sol "U†")
    /\ sol' "H_tilde" == cconj D k (sol "H_tilde").
Proof.
  intros D k R0 r0 r1 add mul sub opp req Ro Rg CS blk keep cm keep_sym keep_refl keep_blk cm_blk E inv inv_spec kept_equal inv_P inv_conj BAs BAt gflag gflag' rflag fenv rflag' fenv' sol sol' Hfe Hfe' Hsol Hsol' Hz Hin.
  exact (conj_nh D k blk keep cm keep_sym keep_refl keep_blk cm_blk E inv inv_spec kept_equal inv_P inv_conj gflag gflag' rflag fenv rflag' fenv' Hfe Hfe' sol sol' Hsol Hsol' Hz Hin).
Qed.
Print Assumptions C15_conjugation_nh_partial.

(** basis permutation, target labels blk' / cm' arbitrary but compatible with the transported mask (pi = id: block relabelling) *)
Theorem C15_basis_perm_nh_partial :
  forall (D k : nat) (R0 : Type) (r0 r1 : R0) (add mul sub : R0 -> R0 -> R0) (opp : R0 -> R0) (req : R0 -> R0 -> Prop)
         (Ro : @Ring_ops R0 r0 r1 add mul sub opp req) (Rg : @Ring R0 r0 r1 add mul sub opp req Ro) (CS : CStar R0)
         (blk : nat -> nat) (keep : nat -> nat -> bool) (cm : nat -> bool)
         (keep_sym : forall p q, keep p q = keep q p) (keep_refl : forall p, keep p p = true)
         (keep_blk : forall p q, keep p q = true -> blk p = blk q) (cm_blk : forall p q, blk p = blk q -> cm p = cm q)
         (E : nat -> R0) (inv : R0 -> R0)
         (inv_spec : forall p q, (p < D)%nat -> (q < D)%nat -> keep p q = false -> (E p - E q) * inv (E p - E q) == 1)
         (kept_equal : forall p q, (p < D)%nat -> (q < D)%nat -> keep p q = true -> E p == E q)
         (pi pinv : nat -> nat) (pi_lt : forall p, (p < D)%nat -> (pi p < D)%nat) (pinv_lt : forall p, (p < D)%nat -> (pinv p < D)%nat)
         (pinv_pi : forall p, (p < D)%nat -> pinv (pi p) = p) (pi_pinv : forall p, (p < D)%nat -> pi (pinv p) = p)
         (blk' : nat -> nat) (cm' : nat -> bool)
         (keep_blk' : forall p q, keep_pi keep pi p q = true -> blk' p = blk' q)
         (cm_blk' : forall p q, blk' p = blk' q -> cm' p = cm' q),
    let BAs := series_BlockAlg D k blk keep cm keep_sym keep_blk cm_blk in
    let BAt := series_BlockAlg D k blk' (keep_pi keep pi) cm' (keep_pi_sym keep keep_sym pi) keep_blk' cm_blk' in
    forall (gflag gflag' : string -> bool)
           (rflag : string -> T D k R0 -> T D k R0) (fenv : string -> list (T D k R0) -> T D k R0)
           (rflag' : string -> T D k R0 -> T D k R0) (fenv' : string -> list (T D k R0) -> T D k R0)
           (sol : string -> T D k R0) (sol' : string -> T D k R0),
    (forall y, fenv "solve_sylvester" (cons y nil) == SylvInst.sylv E inv y) ->
    (forall y, fenv' "solve_sylvester" (cons y nil) == SylvInst.sylv (E_pi pi E) inv y) ->
    solution (BA := BAs) gflag rflag fenv sol nonhermitian_alg ->
    solution (BA := BAt) gflag' rflag' fenv' sol' nonhermitian_alg ->
    Zc (BlockAlg := BAs) (sol "H") == SylvInst.H0 D k E ->
    sol' "H" == sperm D k pi (sol "H") ->
    sol' "U" == sperm D k pi (sol "U") /\ sol' "U†" == sperm D k pi (sol "U†")
    /\ sol' "H_tilde" == sperm D k pi (sol "H_tilde").
Proof.
  intros D k R0 r0 r1 add mul sub opp req Ro Rg CS blk keep cm keep_sym keep_refl keep_blk cm_blk E inv inv_spec kept_equal pi pinv pi_lt pinv_lt pinv_pi pi_pinv blk' cm' keep_blk' cm_blk' BAs BAt gflag gflag' rflag fenv rflag' fenv' sol sol' Hfe Hfe' Hsol Hsol' Hz Hin.
  exact (perm_nh D k blk keep cm keep_sym keep_refl keep_blk cm_blk E inv inv_spec kept_equal pi pinv pi_lt pinv_lt pinv_pi pi_pinv blk' cm' keep_blk' cm_blk' gflag gflag' rflag fenv rflag' fenv' Hfe Hfe' sol sol' Hsol Hsol' Hz Hin).
Qed.
Print Assumptions C15_basis_perm_nh_partial.

(** rotation by an invertible R (inverse Ri) commuting with the kept mask and with H_0: (rotg R Ri x) n = Ri * x n * R *)
Theorem C15_degenerate_rotation_nh_partial :
  forall (D k : nat) (R0 : Type) (r0 r1 : R0) (add mul sub : R0 -> R0 -> R0) (opp : R0 -> R0) (req : R0 -> R0 -> Prop)
         (Ro : @Ring_ops R0 r0 r1 add mul sub opp req) (Rg : @Ring R0 r0 r1 add mul sub opp req Ro) (CS : CStar R0)
         (blk : nat -> nat) (keep : nat -> nat -> bool) (cm : nat -> bool)
         (keep_sym : forall p q, keep p q = keep q p) (keep_refl : forall p, keep p p = true)
         (keep_blk : forall p q, keep p q = true -> blk p = blk q) (cm_blk : forall p q, blk p = blk q -> cm p = cm q)
         (E : nat -> R0) (inv : R0 -> R0)
         (inv_spec : forall p q, (p < D)%nat -> (q < D)%nat -> keep p q = false -> (E p - E q) * inv (E p - E q) == 1)
         (kept_equal : forall p q, (p < D)%nat -> (q < D)%nat -> keep p q = true -> E p == E q)
         (R Ri : mat D R0) (RiR : Ri * R == 1) (RRi : R * Ri == 1)
         (R_mask : forall y : mat D R0, mmask keep (Ri * y * R) == Ri * mmask keep y * R)
         (R_H0 : Ri * mdiag D E * R == mdiag D E),
    let BAs := series_BlockAlg D k blk keep cm keep_sym keep_blk cm_blk in
    let BAt := series_BlockAlg D k blk keep cm keep_sym keep_blk cm_blk in
    forall (gflag gflag' : string -> bool)
           (rflag : string -> T D k R0 -> T D k R0) (fenv : string -> list (T D k R0) -> T D k R0)
           (rflag' : string -> T D k R0 -> T D k R0) (fenv' : string -> list (T D k R0) -> T D k R0)
           (sol : string -> T D k R0) (sol' : string -> T D k R0),
    (forall y, fenv "solve_sylvester" (cons y nil) == SylvInst.sylv E inv y) ->
    (forall y, fenv' "solve_sylvester" (cons y nil) == SylvInst.sylv E inv y) ->
    solution (BA := BAs) gflag rflag fenv sol nonhermitian_alg ->
    solution (BA := BAt) gflag' rflag' fenv' sol' nonhermitian_alg ->
    Zc (BlockAlg := BAs) (sol "H") == SylvInst.H0 D k E ->
    sol' "H" == rotg D k R Ri (sol "H") ->
    sol' "U" == rotg D k R Ri (sol "U") /\ sol' "U†" == rotg D k R Ri (sol "U†")
    /\ sol' "H_tilde" == rotg D k R Ri (sol "H_tilde").
Proof.
  intros D k R0 r0 r1 add mul sub opp req Ro Rg CS blk keep cm keep_sym keep_refl keep_blk cm_blk E inv inv_spec kept_equal R Ri RiR RRi R_mask R_H0 BAs BAt gflag gflag' rflag fenv rflag' fenv' sol sol' Hfe Hfe' Hsol Hsol' Hz Hin.
  exact (rot_nh D k blk keep cm keep_sym keep_refl keep_blk cm_blk E inv inv_spec kept_equal R Ri RiR RRi R_mask R_H0 gflag gflag' rflag rflag' fenv fenv' Hfe Hfe' sol sol' Hsol Hsol' Hz Hin).
Qed.
Print Assumptions C15_degenerate_rotation_nh_partial.

(** shift of H_0 by c * 1, c arbitrary *)
Theorem C15_shift_nh_partial :
  forall (D k : nat) (R0 : Type) (r0 r1 : R0) (add mul sub : R0 -> R0 -> R0) (opp : R0 -> R0) (req : R0 -> R0 -> Prop)
         (Ro : @Ring_ops R0 r0 r1 add mul sub opp req) (Rg : @Ring R0 r0 r1 add mul sub opp req Ro) (CS : CStar R0)
         (blk : nat -> nat) (keep : nat -> nat -> bool) (cm : nat -> bool)
         (keep_sym : forall p q, keep p q = keep q p) (keep_refl : forall p, keep p p = true)
         (keep_blk : forall p q, keep p q = true -> blk p = blk q) (cm_blk : forall p q, blk p = blk q -> cm p = cm q)
         (E : nat -> R0) (inv : R0 -> R0)
         (inv_spec : forall p q, (p < D)%nat -> (q < D)%nat -> keep p q = false -> (E p - E q) * inv (E p - E q) == 1)
         (kept_equal : forall p q, (p < D)%nat -> (q < D)%nat -> keep p q = true -> E p == E q)
         (c : R0) (inv_P : Proper (_==_ ==> _==_) inv),
    let BAs := series_BlockAlg D k blk keep cm keep_sym keep_blk cm_blk in
    let BAt := series_BlockAlg D k blk keep cm keep_sym keep_blk cm_blk in
    forall (gflag gflag' : string -> bool)
           (rflag : string -> T D k R0 -> T D k R0) (fenv : string -> list (T D k R0) -> T D k R0)
           (rflag' : string -> T D k R0 -> T D k R0) (fenv' : string -> list (T D k R0) -> T D k R0)
           (sol : string -> T D k R0) (sol' : string -> T D k R0),
    (forall y, fenv "solve_sylvester" (cons y nil) == SylvInst.sylv E inv y) ->
    (forall y, fenv' "solve_sylvester" (cons y nil) == SylvInst.sylv (fun p => E p + c) inv y) ->
    solution (BA := BAs) gflag rflag fenv sol nonhermitian_alg ->
    solution (BA := BAt) gflag' rflag' fenv' sol' nonhermitian_alg ->
    Zc (BlockAlg := BAs) (sol "H") == SylvInst.H0 D k E ->
    sol' "H" == sol "H" + cst D k c ->
    sol' "U" == sol "U" /\ sol' "U†" == sol "U†" /\ sol' "H_tilde" == sol "H_tilde" + cst D k c.
Proof.
  intros D k R0 r0 r1 add mul sub opp req Ro Rg CS blk keep cm keep_sym keep_refl keep_blk cm_blk E inv inv_spec kept_equal c inv_P BAs BAt gflag gflag' rflag fenv rflag' fenv' sol sol' Hfe Hfe' Hsol Hsol' Hz Hin.
  exact (shift_nh D k blk keep cm keep_sym keep_refl keep_blk cm_blk E inv inv_spec kept_equal gflag gflag' rflag rflag' fenv fenv' Hfe sol sol' Hsol Hsol' Hz c inv_P Hfe' Hin).
Qed.
Print Assumptions C15_shift_nh_partial.

(** scaling of the whole Hamiltonian by a central scalar s; inv' inverts the scaled eliminated differences *)
Theorem C15_scale_nh_partial :
  forall (D k : nat) (R0 : Type) (r0 r1 : R0) (add mul sub : R0 -> R0 -> R0) (opp : R0 -> R0) (req : R0 -> R0 -> Prop)
         (Ro : @Ring_ops R0 r0 r1 add mul sub opp req) (Rg : @Ring R0 r0 r1 add mul sub opp req Ro) (CS : CStar R0)
         (blk : nat -> nat) (keep : nat -> nat -> bool) (cm : nat -> bool)
         (keep_sym : forall p q, keep p q = keep q p) (keep_refl : forall p, keep p p = true)
         (keep_blk : forall p q, keep p q = true -> blk p = blk q) (cm_blk : forall p q, blk p = blk q -> cm p = cm q)
         (E : nat -> R0) (inv : R0 -> R0)
         (inv_spec : forall p q, (p < D)%nat -> (q < D)%nat -> keep p q = false -> (E p - E q) * inv (E p - E q) == 1)
         (kept_equal : forall p q, (p < D)%nat -> (q < D)%nat -> keep p q = true -> E p == E q)
         (s : R0) (inv' : R0 -> R0)
         (inv_spec' : forall p q, (p < D)%nat -> (q < D)%nat -> keep p q = false -> (s * E p - s * E q) * inv' (s * E p - s * E q) == 1),
    let BAs := series_BlockAlg D k blk keep cm keep_sym keep_blk cm_blk in
    let BAt := series_BlockAlg D k blk keep cm keep_sym keep_blk cm_blk in
    forall (gflag gflag' : string -> bool)
           (rflag : string -> T D k R0 -> T D k R0) (fenv : string -> list (T D k R0) -> T D k R0)
           (rflag' : string -> T D k R0 -> T D k R0) (fenv' : string -> list (T D k R0) -> T D k R0)
           (sol : string -> T D k R0) (sol' : string -> T D k R0),
    (forall y, fenv "solve_sylvester" (cons y nil) == SylvInst.sylv E inv y) ->
    (forall y, fenv' "solve_sylvester" (cons y nil) == SylvInst.sylv (fun p => s * E p) inv' y) ->
    solution (BA := BAs) gflag rflag fenv sol nonhermitian_alg ->
    solution (BA := BAt) gflag' rflag' fenv' sol' nonhermitian_alg ->
    Zc (BlockAlg := BAs) (sol "H") == SylvInst.H0 D k E ->
    sol' "H" == cst D k s * sol "H" ->
    sol' "U" == sol "U" /\ sol' "U†" == sol "U†" /\ sol' "H_tilde" == cst D k s * sol "H_tilde".
Proof.
  intros D k R0 r0 r1 add mul sub opp req Ro Rg CS blk keep cm keep_sym keep_refl keep_blk cm_blk E inv inv_spec kept_equal s inv' inv_spec' BAs BAt gflag gflag' rflag fenv rflag' fenv' sol sol' Hfe Hfe' Hsol Hsol' Hz Hin.
  exact (hscale_nh D k blk keep cm keep_sym keep_refl keep_blk cm_blk E inv inv_spec kept_equal gflag gflag' rflag rflag' fenv fenv' Hfe sol sol' Hsol Hsol' Hz s inv' inv_spec' Hfe' Hin).
Qed.
Print Assumptions C15_scale_nh_partial.

(** direct sum of two decoupled non-Hermitian problems *)
Theorem C15_direct_sum_nh_partial :
  forall (D1 D2 k : nat) (R0 : Type) (r0 r1 : R0) (add mul sub : R0 -> R0 -> R0) (opp : R0 -> R0) (req : R0 -> R0 -> Prop)
         (Ro : @Ring_ops R0 r0 r1 add mul sub opp req) (Rg : @Ring R0 r0 r1 add mul sub opp req Ro) (CS : CStar R0)
         (blk1 blk2 : nat -> nat) (keep1 keep2 : nat -> nat -> bool) (cm1 cm2 : nat -> bool)
         (keep_sym1 : forall p q, keep1 p q = keep1 q p) (keep_sym2 : forall p q, keep2 p q = keep2 q p)
         (keep_refl1 : forall p, keep1 p p = true) (keep_refl2 : forall p, keep2 p p = true)
         (keep_blk1 : forall p q, keep1 p q = true -> blk1 p = blk1 q) (keep_blk2 : forall p q, keep2 p q = true -> blk2 p = blk2 q)
         (cm_blk1 : forall p q, blk1 p = blk1 q -> cm1 p = cm1 q) (cm_blk2 : forall p q, blk2 p = blk2 q -> cm2 p = cm2 q)
         (E1 E2 : nat -> R0) (inv : R0 -> R0)
         (inv_specS : forall p q, (p < D1 + D2)%nat -> (q < D1 + D2)%nat -> keepS D1 keep1 keep2 p q = false ->
                        (ES D1 E1 E2 p - ES D1 E1 E2 q) * inv (ES D1 E1 E2 p - ES D1 E1 E2 q) == 1)
         (kept_equal1 : forall p q, (p < D1)%nat -> (q < D1)%nat -> keep1 p q = true -> E1 p == E1 q)
         (kept_equal2 : forall p q, (p < D2)%nat -> (q < D2)%nat -> keep2 p q = true -> E2 p == E2 q),
    let B1 := series_BlockAlg D1 k blk1 keep1 cm1 keep_sym1 keep_blk1 cm_blk1 in
    let B2 := series_BlockAlg D2 k blk2 keep2 cm2 keep_sym2 keep_blk2 cm_blk2 in
    let BS := series_BlockAlg (D1 + D2) k (blkS D1 blk1 blk2) (keepS D1 keep1 keep2) (cmS D1 cm1 cm2)
                (keepS_sym D1 keep1 keep2 keep_sym1 keep_sym2) (keepS_blk D1 blk1 blk2 keep1 keep2 keep_blk1 keep_blk2)
                (cmS_blk D1 blk1 blk2 cm1 cm2 cm_blk1 cm_blk2) in
    forall (gflag1 gflag2 gflagS : string -> bool)
           (rflag1 : string -> T D1 k R0 -> T D1 k R0) (fenv1 : string -> list (T D1 k R0) -> T D1 k R0)
           (rflag2 : string -> T D2 k R0 -> T D2 k R0) (fenv2 : string -> list (T D2 k R0) -> T D2 k R0)
           (rflagS : string -> T (D1 + D2) k R0 -> T (D1 + D2) k R0) (fenvS : string -> list (T (D1 + D2) k R0) -> T (D1 + D2) k R0),
    (forall y, fenv1 "solve_sylvester" (cons y nil) == SylvInst.sylv E1 inv y) ->
    (forall y, fenv2 "solve_sylvester" (cons y nil) == SylvInst.sylv E2 inv y) ->
    (forall y, fenvS "solve_sylvester" (cons y nil) == SylvInst.sylv (ES D1 E1 E2) inv y) ->
    forall (sol1 : string -> T D1 k R0) (sol2 : string -> T D2 k R0) (solS : string -> T (D1 + D2) k R0),
    solution (BA := B1) gflag1 rflag1 fenv1 sol1 nonhermitian_alg ->
    solution (BA := B2) gflag2 rflag2 fenv2 sol2 nonhermitian_alg ->
    solution (BA := BS) gflagS rflagS fenvS solS nonhermitian_alg ->
    Zc (BlockAlg := B1) (sol1 "H") == SylvInst.H0 D1 k E1 -> Zc (BlockAlg := B2) (sol2 "H") == SylvInst.H0 D2 k E2 ->
    solS "H" == osum D1 D2 k (sol1 "H") (sol2 "H") ->
    solS "U" == osum D1 D2 k (sol1 "U") (sol2 "U") /\ solS "U†" == osum D1 D2 k (sol1 "U†") (sol2 "U†")
    /\ solS "H_tilde" == osum D1 D2 k (sol1 "H_tilde") (sol2 "H_tilde").
Proof.
  intros D1 D2 k R0 r0 r1 add mul sub opp req Ro Rg CS blk1 blk2 keep1 keep2 cm1 cm2 keep_sym1 keep_sym2 keep_refl1 keep_refl2
         keep_blk1 keep_blk2 cm_blk1 cm_blk2 E1 E2 inv inv_specS ke1 ke2 B1 B2 BS gflag1 gflag2 gflagS
         rflag1 fenv1 rflag2 fenv2 rflagS fenvS Hf1 Hf2 HfS sol1 sol2 solS Hs1 Hs2 HsS Hz1 Hz2 Hin.
  exact (direct_sum_nh D1 D2 k blk1 blk2 keep1 keep2 cm1 cm2 keep_sym1 keep_sym2 keep_refl1 keep_refl2
           keep_blk1 keep_blk2 cm_blk1 cm_blk2 E1 E2 inv inv_specS ke1 ke2 gflag1 gflag2 gflagS
           rflag1 fenv1 rflag2 fenv2 rflagS fenvS Hf1 Hf2 HfS sol1 sol2 solS Hs1 Hs2 HsS Hz1 Hz2 Hin).
Qed.
Print Assumptions C15_direct_sum_nh_partial.

(** non-vacuity: [kept_equal] holds for a degenerate example (3 states, blocks {0,1} | {2}, energies
    1, 1, 2, everything inside the blocks kept), where the swap of the states 0 and 1 is an invertible R
    with the mask property, and the conjugation / basis-permutation maps are [SGHom]s *)
Example C15_nh_applies :
  (forall p q, (p < 3)%nat -> (q < 3)%nat -> ex_keep p q = true -> ex_Ed p == ex_Ed q)
  /\ (forall p q, (p < 3)%nat -> (q < 3)%nat -> ex_keep p q = false ->
                  (ex_Ed p - ex_Ed q) * ex_inv (ex_Ed p - ex_Ed q) == 1)
  /\ SGHom (BA := ex_BA) (BA' := ex_BA) (cconj 3 2).
Proof.
  split. exact ex_Ed_kept_equal. split. exact ex_Ed_inv_spec.
  apply LAHom_SGHom. exact (cconj_LAHom 3 2 ex_blk ex_keep ex_cm ex_keep_sym ex_keep_blk ex_cm_blk).
Qed.
