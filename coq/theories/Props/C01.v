(** C01 - Hermitian: U†HU equals H_tilde on kept elements, zero on eliminated ones.

    "For every Hermitian perturbative Hamiltonian accepted by block_diagonalize ... the Cauchy
    product U†·H·U of the returned series equals the returned H_tilde on every matrix element
    that is kept and is zero on every matrix element selected for elimination, at every
    perturbative order ... established from U and H, not read off H_tilde."

    Statements: for EVERY algebra [T] with the laws of [BlockAlg] (instance: multi-index series
    of block matrices with Cauchy product, Series/Inst.v: any number of blocks, block sizes,
    parameters, all orders at once), every valuation [sol] of the series names that satisfies
    the definitions of the GENERATED program [main_alg] (translated from
    /repo/pymablock/algorithms.py on every run), and every scope wired as block_diagonalize
    wires it ([wiring]).  The product  sol "U†" * sol "H" * sol "U"  is the plain triple
    (Cauchy) product; [Sel] selects the kept matrix elements, [Rp x = x - Sel x] the
    eliminated ones.  These are the clauses for two_block_optimized = False (any number of
    blocks, masks, fully_diagonalize); the two-block optimisation is [C01_*_two_block] below.
    Floating-point rounding is not modelled (exact arithmetic); see DESIGN.md. *)
Require Import Ncring String List.
From PV.Base Require Import Classes AlgLemmas.
From PV.DSL Require Import Syntax Sem.
From PV.Gen Require Import Algorithms_gen.
From PV.Alg Require Import MainLift MainCorrect.
Open Scope string_scope.

Theorem C01_kept :
  forall (T : Type) (r0 r1 : T) (add mul sub : T -> T -> T) (opp : T -> T) (req : T -> T -> Prop)
         (Ro : @Ring_ops T r0 r1 add mul sub opp req) (Rg : @Ring T r0 r1 add mul sub opp req Ro)
         (BA : BlockAlg T) (rflag : string -> T -> T) (fenv : string -> list T -> T) (sol : string -> T),
    solution (gflag_of false) rflag fenv sol main_alg ->
    wiring rflag fenv (sol "H") ->
    Sel (sol "U†" * sol "H" * sol "U") == sol "H_tilde".
Proof. intros. eapply kept_general; eassumption. Qed.
Print Assumptions C01_kept.

Theorem C01_eliminated :
  forall (T : Type) (r0 r1 : T) (add mul sub : T -> T -> T) (opp : T -> T) (req : T -> T -> Prop)
         (Ro : @Ring_ops T r0 r1 add mul sub opp req) (Rg : @Ring T r0 r1 add mul sub opp req Ro)
         (BA : BlockAlg T) (rflag : string -> T -> T) (fenv : string -> list T -> T) (sol : string -> T),
    solution (gflag_of false) rflag fenv sol main_alg ->
    wiring rflag fenv (sol "H") ->
    Rp (sol "U†" * sol "H" * sol "U") == 0.
Proof. intros. eapply eliminated_general; eassumption. Qed.
Print Assumptions C01_eliminated.

(** Two-block optimisation (two_block_optimized = True): same conclusions under [wiring_tb]. *)

Theorem C01_kept_two_block :
  forall (T : Type) (r0 r1 : T) (add mul sub : T -> T -> T) (opp : T -> T) (req : T -> T -> Prop)
         (Ro : @Ring_ops T r0 r1 add mul sub opp req) (Rg : @Ring T r0 r1 add mul sub opp req Ro)
         (BA : BlockAlg T) (rflag : string -> T -> T) (fenv : string -> list T -> T) (sol : string -> T),
    solution (gflag_of true) rflag fenv sol main_alg ->
    wiring_tb rflag fenv (sol "H") ->
    Sel (sol "U†" * sol "H" * sol "U") == sol "H_tilde".
Proof. intros. eapply kept_tb; eassumption. Qed.
Print Assumptions C01_kept_two_block.

Theorem C01_eliminated_two_block :
  forall (T : Type) (r0 r1 : T) (add mul sub : T -> T -> T) (opp : T -> T) (req : T -> T -> Prop)
         (Ro : @Ring_ops T r0 r1 add mul sub opp req) (Rg : @Ring T r0 r1 add mul sub opp req Ro)
         (BA : BlockAlg T) (rflag : string -> T -> T) (fenv : string -> list T -> T) (sol : string -> T),
    solution (gflag_of true) rflag fenv sol main_alg ->
    wiring_tb rflag fenv (sol "H") ->
    Rp (sol "U†" * sol "H" * sol "U") == 0.
Proof. intros. eapply eliminated_tb; eassumption. Qed.
Print Assumptions C01_eliminated_two_block.
