(** C01 - Hermitian: U†HU equals H_tilde on kept elements, zero on eliminated ones.

    "For every Hermitian perturbative Hamiltonian accepted by block_diagonalize ... the Cauchy
    product U†·H·U of the returned series equals the returned H_tilde on every matrix element
    that is kept and is zero on every matrix element selected for elimination, at every
    perturbative order ... established from U and H, not read off H_tilde."

    Statements: for EVERY algebra [T] with the laws of [BlockAlg] (instance: multi-index series
    of block matrices with Cauchy product, Series/Inst.v: any number of blocks, block sizes,
    parameters, all orders at once), every valuation [sol] of the series names that satisfies
    the definitions of the GENERATED program [main_alg] (translated from
    /repo/pymablock/algorithms.py on every run), and every scope wired as block_diagonalize
    wires it ([wiring]).  The product  sol "U†" * sol "H" * sol "U"  is the plain triple
    (Cauchy) product; [Sel] selects the kept matrix elements, [Rp x = x - Sel x] the
    eliminated ones.  These are the clauses for two_block_optimized = False (any number of
    blocks, masks, fully_diagonalize); the two-block optimisation is [C01_*_two_block] below.
    Floating-point rounding is not modelled (exact arithmetic); see DESIGN.md. *)
Require Import Ncring String List.
From PV.Base Require Import Classes AlgLemmas.
From PV.DSL Require Import Syntax Sem.
From PV.Gen Require Import Algorithms_gen.
From PV.Alg Require Import MainLift MainCorrect.
Open Scope string_scope.

Theorem C01_kept :
  forall (T : Type) (r0 r1 : T) (add mul sub : T -> T -> T) (opp : T -> T) (req : T -> T -> Prop)
         (Ro : @Ring_ops T r0 r1 add mul sub opp req) (Rg : @Ring T r0 r1 add mul sub opp req Ro)
         (BA : BlockAlg T) (rflag : string -> T -> T) (fenv : string -> list T -> T) (sol : string -> T),
    solution (gflag_of false) rflag fenv sol main_alg ->
    wiring rflag fenv (sol "H") ->
    Sel (sol "U†" * sol "H" * sol "U") == sol "H_tilde".
Proof. intros. eapply kept_general; eassumption. Qed.
Print Assumptions C01_kept.

Theorem C01_eliminated :
  forall (T : Type) (r0 r1 : T) (add mul sub : T -> T -> T) (opp : T -> T) (req : T -> T -> Prop)
         (Ro : @Ring_ops T r0 r1 add mul sub opp req) (Rg : @Ring T r0 r1 add mul sub opp req Ro)
         (BA : BlockAlg T) (rflag : string -> T -> T) (fenv : string -> list T -> T) (sol : string -> T),
    solution (gflag_of false) rflag fenv sol main_alg ->
    wiring rflag fenv (sol "H") ->
    Rp (sol "U†" * sol "H" * sol "U") == 0.
Proof. intros. eapply eliminated_general; eassumption. Qed.
Print Assumptions C01_eliminated.

(** Two-block optimisation (two_block_optimized = True): same conclusions under [wiring_tb]. *)

Theorem C01_kept_two_block :
  forall (T : Type) (r0 r1 : T) (add mul sub : T -> T -> T) (opp : T -> T) (req : T -> T -> Prop)
         (Ro : @Ring_ops T r0 r1 add mul sub opp req) (Rg : @Ring T r0 r1 add mul sub opp req Ro)
         (BA : BlockAlg T) (rflag : string -> T -> T) (fenv : string -> list T -> T) (sol : string -> T),
    solution (gflag_of true) rflag fenv sol main_alg ->
    wiring_tb rflag fenv (sol "H") ->
    Sel (sol "U†" * sol "H" * sol "U") == sol "H_tilde".
Proof. intros. eapply kept_tb; eassumption. Qed.
Print Assumptions C01_kept_two_block.

Theorem C01_eliminated_two_block :
  forall (T : Type) (r0 r1 : T) (add mul sub : T -> T -> T) (opp : T -> T) (req : T -> T -> Prop)
         (Ro : @Ring_ops T r0 r1 add mul sub opp req) (Rg : @Ring T r0 r1 add mul sub opp req Ro)
         (BA : BlockAlg T) (rflag : string -> T -> T) (fenv : string -> list T -> T) (sol : string -> T),
    solution (gflag_of true) rflag fenv sol main_alg ->
    wiring_tb rflag fenv (sol "H") ->
    Rp (sol "U†" * sol "H" * sol "U") == 0.
Proof. intros. eapply eliminated_tb; eassumption. Qed.
Print Assumptions C01_eliminated_two_block.

(** The wiring hypotheses hold for the concrete algebra of multi-index series of block matrices
    with the diagonal solver ([inst_wiring], Alg/MainInst.v), so C01 applies to it: *)
Require Import Morphisms.
From PV.Series Require Import Inst SylvInst.
From PV.Block Require Import Mat Masks.
From PV.Alg Require Import MainInst MainWitness.

Theorem C01_kept_series_instance :
  forall (D k : nat) (R0 : Type) (r0 r1 : R0) (add mul sub : R0 -> R0 -> R0) (opp : R0 -> R0) (req : R0 -> R0 -> Prop)
         (Ro : @Ring_ops R0 r0 r1 add mul sub opp req) (Rg : @Ring R0 r0 r1 add mul sub opp req Ro) (CS : CStar R0)
         (blk : nat -> nat) (keep : nat -> nat -> bool) (cm : nat -> bool)
         (keep_sym : forall p q, keep p q = keep q p) (keep_refl : forall p, keep p p = true)
         (keep_blk : forall p q, keep p q = true -> blk p = blk q) (cm_blk : forall p q, blk p = blk q -> cm p = cm q)
         (keep_eucl : keep_eucl_on D keep cm) (E : nat -> R0) (inv : R0 -> R0),
    (forall p q, (p < D)%nat -> (q < D)%nat -> keep p q = false -> (E p - E q) * inv (E p - E q) == 1) ->
    (forall p, conj (E p) == E p) -> Proper (_==_ ==> _==_) inv ->
    (forall x, inv (- x) == - inv x) -> (forall x, conj (inv x) == inv (conj x)) ->
    let BA := series_BlockAlg D k blk keep cm keep_sym keep_blk cm_blk in
    forall (rflag : string -> T D k R0 -> T D k R0) (fenv : string -> list (T D k R0) -> T D k R0) (sol : string -> T D k R0),
    (forall x, rflag "commuting_blocks" x == Rw x) ->
    (forall y, fenv "solve_sylvester" (cons y nil) == SylvInst.sylv E inv y) ->
    adj (sol "H") == sol "H" -> Zc (sol "H") == SylvInst.H0 D k E ->
    solution (gflag_of false) rflag fenv sol main_alg ->
    Sel (sol "U†" * sol "H" * sol "U") == sol "H_tilde".
Proof.
  intros D k R0 r0 r1 add mul sub opp req Ro Rg CS blk keep cm keep_sym keep_refl keep_blk cm_blk keep_eucl E inv
         Hinv Hreal HinvP Hopp Hconj BA rflag fenv sol Hrf Hfe Hh Hz Hsol.
  apply (@C01_kept (T D k R0) _ _ _ _ _ _ _ _ _ BA rflag fenv sol Hsol).
  exact (@inst_wiring D k R0 _ _ _ _ _ _ _ _ Rg CS blk keep cm keep_sym keep_refl keep_blk cm_blk keep_eucl E inv
           Hinv Hreal HinvP Hopp Hconj rflag fenv Hrf Hfe (sol "H") Hh Hz).
Qed.
Print Assumptions C01_kept_series_instance.

(** Non-vacuity (Alg/MainWitness.v): a concrete valuation satisfying every equation of
    [main_alg] up to total order 2, on which the two conclusions are confirmed by computation. *)
Example C01_hypotheses_satisfiable : main_wit_check = true /\ main_wit_kept = true /\ main_wit_elim = true.
Proof. exact main_witness. Qed.

(** Soundness of the correspondence check k_semeq (Alg/SemExecSound.v): when the executable
    reading accepts the implementation's tables, their denotations satisfy every equation of
    the semantics of the program in the concrete [BlockAlg] of Series/Inst.v, up to total
    order N ([sem_holds_upto] is that conjunction, see its definition). *)
From PV.Alg Require Import SemExec SemExecSound.
From PV.Series Require Import Exec.
From PV.Block Require Import QLemmas QInst.
Theorem C01_tie_sound :
  forall (D k N : nat) (bl : list nat) (msk : list (list bool)) (cb : list bool) (El : list gq) (tb : bool)
         (sols : list (string * tser gq)) (alg : algorithm),
    check_alg D k N bl msk cb El tb sols alg = true -> sem_holds_upto D k N bl msk cb El tb sols alg.
Proof. exact check_alg_sound. Qed.
Print Assumptions C01_tie_sound.

(** End-to-end form of the tie (Alg/Trunc.v, TruncMain.v, TruncTie.v): the truncation of a
    [BlockAlg] at order N+1 is again a [BlockAlg]; a valuation passing [check_alg] is a solution of
    [main_alg] there; hence the conclusions of C01 (and C02, C03) hold for the implementation's
    tables themselves up to total order N.  Both hypotheses are booleans evaluated by vm_compute
    in the correspondence check k_semeq for every loaded case: [check_alg] (every equation of the
    semantics) and [inputs_ok] (mask reflexive on the D basis states and euclidean, eliminated
    pairs have distinct real energies, the loaded H is Hermitian with order-zero part diag(E)). *)
From PV.Alg Require Import TruncTie.
Theorem C01_tie_conclusions :
  forall (D k N : nat) (bl : list nat) (msk : list (list bool)) (cb : list bool) (El : list gq)
         (sols : list (string * tser gq)),
    check_alg D k N bl msk cb El false sols main_alg = true ->
    inputs_ok D k N bl msk cb El sols = true ->
    let BA := BAi D k bl msk cb in
    let sol := asol D k sols in
    eqN D k N (Sel (sol "U†" * sol "H" * sol "U")) (sol "H_tilde") /\
    eqN D k N (Rp (sol "U†" * sol "H" * sol "U")) 0 /\
    eqN D k N (sol "U†" * sol "U") 1 /\
    eqN D k N (sol "U" * sol "U†") 1 /\
    eqN D k N (adj (sol "U")) (sol "U†") /\
    eqN D k N (adj (sol "H_tilde")) (sol "H_tilde") /\
    eqN D k N (Sel (half ((sol "U" - 1) - adj (sol "U" - 1)))) 0.
Proof. intros. eapply tie_conclusions; eassumption. Qed.
Print Assumptions C01_tie_conclusions.

(** The same for the two-block optimisation (two_block_optimized = True): [tb_ok] says that there
    are exactly two blocks, nothing inside them is eliminated and both carry the commuting flag. *)
From PV.Alg Require Import TruncTieTB.
Theorem C01_tie_conclusions_two_block :
  forall (D k N : nat) (bl : list nat) (msk : list (list bool)) (cb : list bool) (El : list gq)
         (sols : list (string * tser gq)),
    check_alg D k N bl msk cb El true sols main_alg = true ->
    inputs_ok D k N bl msk cb El sols = true ->
    tb_ok D bl msk cb = true ->
    let BA := BAi D k bl msk cb in
    let sol := asol D k sols in
    eqN D k N (Sel (sol "U†" * sol "H" * sol "U")) (sol "H_tilde") /\
    eqN D k N (Rp (sol "U†" * sol "H" * sol "U")) 0 /\
    eqN D k N (sol "U†" * sol "U") 1 /\
    eqN D k N (sol "U" * sol "U†") 1 /\
    eqN D k N (adj (sol "U")) (sol "U†") /\
    eqN D k N (adj (sol "H_tilde")) (sol "H_tilde") /\
    eqN D k N (Sel (half ((sol "U" - 1) - adj (sol "U" - 1)))) 0.
Proof. intros. eapply tie_conclusions_tb; eassumption. Qed.
Print Assumptions C01_tie_conclusions_two_block.

Import ListNotations.
Require Import QArith.
Example C01_tie_conclusions_applies :
  check_alg 4 2 2 [0;1;1;2]%nat [[true;false;false;false];[false;true;true;false];[false;true;true;false];[false;false;false;true]]
            [true;true;true] [((0#1),(0#1));((2#1),(0#1));((2#1),(0#1));((5#1),(0#1))]%Q false main_wit_sols main_alg = true /\
  inputs_ok 4 2 2 [0;1;1;2]%nat [[true;false;false;false];[false;true;true;false];[false;true;true;false];[false;false;false;true]]
            [true;true;true] [((0#1),(0#1));((2#1),(0#1));((2#1),(0#1));((5#1),(0#1))]%Q main_wit_sols = true.
Proof. split; vm_compute; reflexivity. Qed.

