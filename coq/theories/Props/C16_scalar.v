(** * C16, clause C16_scalar - the second-quantised Sylvester solver

  Property text (properties.jsonl, id C16): "Each built-in solver returns V with
  H_0^(i) V - V H_0^(j) = Y on the subspace where it is defined: ... and the
  second-quantized solver as an operator identity. ..."  (quantifier: "all number-conserving
  operator-valued H_0 for the second-quantized solver")

  Model: PV.NOF.SolveScalar.solve_scalar (second_quantization.py l. 27-127), tied to the code by
  tools/harness/k_scalar.py.  [hnof ks h] is the number-conserving form with coefficient h(N);
  [denom_ok] says: for every term of Y that acts non-trivially on e_n, the shifted energy
  denominator the code divides by is non-zero at the occupation where it is evaluated. *)
Require Import List ZArith QArith Bool.
Require Import PV.NOF.Gauss PV.NOF.Coeff PV.NOF.Fock PV.NOF.FockLemmas PV.NOF.LinComb PV.NOF.Model
  PV.NOF.NofProof PV.NOF.NofProof2 PV.NOF.SolveScalar PV.NOF.ScalarProof PV.NOF.C08Lemmas PV.NOF.C16C07Lemmas.
Import ListNotations.
Local Open Scope Z_scope.

(** off-diagonal elements ([diagonal=False]):  H_ii X - X H_jj = Y  on every Fock basis state
    (all occupation numbers) where the shifted denominators do not vanish *)
Theorem C16_scalar : forall ks y hi hj n,
  sig_ok ks = true -> wf_nof ks y -> bok ks n -> denom_ok ks hi hj y n ->
  let x := solve_scalar ks y hi hj false in
  lc_eq (lc_bind (den ks x n) (den ks (hnof ks hi))
         ++ lc_scale (gopp g1) (lc_bind (den ks (hnof ks hj) n) (den ks x)))
        (den ks y n)
  /\ wf_nof ks x.
Proof. exact solve_scalar_offdiag_correct. Qed.
Print Assumptions C16_scalar.

Example C16_scalar_nonvacuous :
  sig_ok ex_ks = true /\ wf_nof ex_ks ex_x /\ bok ex_ks ex_n2 /\ denom_ok ex_ks ex_hi ex_hj ex_x ex_n2 /\
  ~ lc_eq (den ex_ks (solve_scalar ex_ks ex_x ex_hi ex_hj false) ex_n2) [].
Proof. exact c16_ex_nonvacuous. Qed.
