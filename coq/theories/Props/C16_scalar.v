(** * C16, clause C16_scalar - the second-quantised Sylvester solver

  Property text (properties.jsonl, id C16): "Each built-in solver returns V with
  H_0^(i) V - V H_0^(j) = Y on the subspace where it is defined: ... and the
  second-quantized solver as an operator identity. ..."  (quantifier: "all number-conserving
  operator-valued H_0 for the second-quantized solver")

  Model: PV.NOF.SolveScalar.solve_scalar (second_quantization.py l. 27-127), tied to the code by
  tools/harness/k_scalar.py.  [hnof ks h] is the number-conserving form with coefficient h(N);
  [denom_ok] says: for every term of Y that acts non-trivially on e_n, the shifted energy
  denominator the code divides by is non-zero at the occupation where it is evaluated. *)
Require Import List ZArith QArith Bool.
Require Import PV.NOF.Gauss PV.NOF.Coeff PV.NOF.Fock PV.NOF.FockLemmas PV.NOF.LinComb PV.NOF.Model
  PV.NOF.NofProof PV.NOF.NofProof2 PV.NOF.SolveScalar PV.NOF.ScalarProof PV.NOF.ScalarDiag PV.NOF.C08Lemmas PV.NOF.C16C07Lemmas.
Import ListNotations.
Local Open Scope Z_scope.

(** off-diagonal elements ([diagonal=False]):  H_ii X - X H_jj = Y  on every Fock basis state
    (all occupation numbers) where the shifted denominators do not vanish *)
Theorem C16_scalar : forall ks y hi hj n,
  sig_ok ks = true -> wf_nof ks y -> bok ks n -> denom_ok ks hi hj y n ->
  let x := solve_scalar ks y hi hj false in
  lc_eq (lc_bind (den ks x n) (den ks (hnof ks hi))
         ++ lc_scale (gopp g1) (lc_bind (den ks (hnof ks hj) n) (den ks x)))
        (den ks y n)
  /\ wf_nof ks x.
Proof. exact solve_scalar_offdiag_correct. Qed.
Print Assumptions C16_scalar.

Example C16_scalar_nonvacuous :
  sig_ok ex_ks = true /\ wf_nof ex_ks ex_x /\ bok ex_ks ex_n2 /\ denom_ok ex_ks ex_hi ex_hj ex_x ex_n2 /\
  ~ lc_eq (den ex_ks (solve_scalar ex_ks ex_x ex_hi ex_hj false) ex_n2) [].
Proof. exact c16_ex_nonvacuous. Qed.

(** diagonal elements ([diagonal=True], H_ii = H_jj = H with real coefficients): the code solves only
    the terms of Y with lexicographically negative powers ([yneg y]) and returns X0 - X0†.  Then
    [H, X] = Y_neg + Y_neg†  ([comm ks h x n] = H X e_n - X H e_n), i.e. for a Hermitian Y all of Y
    except its zero-shift term (which no solution can produce: [H, X] has none).  [denom_ok_adj] is
    the non-vanishing of the same denominators at the occupations met by the adjoint terms. *)
Theorem C16_scalar_diagonal : forall ks y h n,
  sig_ok ks = true -> wf_nof ks y -> bok ks n -> creal h ->
  denom_ok ks h h (yneg y) n -> denom_ok_adj ks h (yneg y) n ->
  let x := solve_scalar ks y h h true in
  lc_eq (comm ks h x n) (den ks (yneg y) n ++ den ks (adj (yneg y)) n).
Proof. exact solve_scalar_diag_correct. Qed.
Print Assumptions C16_scalar_diagonal.

Example C16_scalar_diagonal_nonvacuous :
  creal ex_hi /\ denom_ok ex_ks ex_hi ex_hi (yneg ex_x) ex_n2 /\ denom_ok_adj ex_ks ex_hi (yneg ex_x) ex_n2 /\
  ~ lc_eq (den ex_ks (yneg ex_x) ex_n2) [].
Proof. exact c16_ex_diag_nonvacuous. Qed.
