(* C16 (clause C16_kpm_contract) - "... the KPM solver within its requested accuracy or
   with a convergence warning ..."

   Model: LinAlg/KPMLoop.v, the while loop of pymablock.kpm.greens_function over an
   abstract residual oracle (the floating-point Chebyshev expansion is not modelled:
   convergence of the expansion is outside the theorem, see DESIGN section 9; the oracle
   o_kpm monitors it).  `res m` is the residual norm((H sol - E sol) + v) of the solution
   computed with m moments, `gtb` is the float comparison `>`. *)
From Coq Require Import ZArith Lia.
From PV Require Import LinAlg.KPMLoop.
Local Open Scope Z_scope.

(* On exit with a bound solution: the recorded residual is the one of the returned
   solution and either it is <= atol (not > atol) or the RuntimeWarning was emitted. *)
Theorem C16_kpm_contract (T : Type) (gtb : T -> T -> bool) (res : Z -> T) (atol : T)
    (max_moments : Z) (fuel : nat) m r w it :
  greens_function_loop T gtb res atol max_moments fuel = Return T m r w it ->
  r = res m /\ (gtb r atol = false \/ w = true).
Proof. apply kpm_contract. Qed.
Print Assumptions C16_kpm_contract.

(* the loop always terminates (fuel max_moments + 3 suffices): OutOfFuel is not an
   outcome of the real function *)
Theorem C16_kpm_terminates (T : Type) (gtb : T -> T -> bool) (res : Z -> T) (atol : T)
    (max_moments : Z) (fuel : nat) :
  (Z.to_nat (max_moments + 2) < fuel)%nat ->
  greens_function_loop T gtb res atol max_moments fuel <> OutOfFuel T.
Proof. apply kpm_terminates. Qed.
Print Assumptions C16_kpm_terminates.

(* for max_moments >= 10 a solution is always bound on exit *)
Theorem C16_kpm_bound (T : Type) (gtb : T -> T -> bool) (res : Z -> T) (atol : T)
    (max_moments : Z) (fuel : nat) w :
  10 <= max_moments ->
  greens_function_loop T gtb res atol max_moments fuel <> RaiseUnboundLocalError T w.
Proof. apply kpm_bound. Qed.
Print Assumptions C16_kpm_bound.

(* max_moments < 10 (excluded above): the body never runs; the function warns and then
   fails with UnboundLocalError at `return sol` - reported, k_greens.tie_kpm observes the
   same on /repo *)
Theorem C16_kpm_small_max_moments (T : Type) (gtb : T -> T -> bool) (res : Z -> T) (atol : T)
    (max_moments : Z) (fuel : nat) :
  max_moments < 10 ->
  greens_function_loop T gtb res atol max_moments (S fuel) = RaiseUnboundLocalError T true.
Proof. apply kpm_small_max_moments. Qed.
Print Assumptions C16_kpm_small_max_moments.

(* the solution returned after `it` iterations was computed with 10 * 4^(it-1) moments *)
Theorem C16_kpm_moments (T : Type) (gtb : T -> T -> bool) (res : Z -> T) (atol : T)
    (max_moments : Z) (fuel : nat) m r w it :
  greens_function_loop T gtb res atol max_moments fuel = Return T m r w it ->
  4 * m = 10 * 4 ^ Z.of_nat it.
Proof.
intros H. apply loop_moments in H; [|discriminate].
rewrite Nat.sub_0_r in H. tauto.
Qed.
Print Assumptions C16_kpm_moments.

(* ---- non-vacuity: residuals 5, 3, 1 for 10, 40, 160 moments, atol = 2 ---- *)
Example C16_kpm_ex :
  greens_function_loop Z Z.gtb (fun m => if m <? 20 then 5 else if m <? 100 then 3 else 1) 2 1000 50
  = Return Z 160 1 false 3.
Proof. reflexivity. Qed.
Example C16_kpm_ex_warn :
  greens_function_loop Z Z.gtb (fun m => 5) 2 100 50 = Return Z 40 5 true 2.
Proof. reflexivity. Qed.
