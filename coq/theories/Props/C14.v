(* C14: "A given Hamiltonian series yields the same H_tilde, U and U† whether it is passed as a
   list, a dict with order tuples or monomial keys, a sympy matrix with symbols (analytic
   dependence Taylor-expanded), nested block lists or a BlockSeries, with dense, sparse or
   symbolic values, and whether the blocks are designated by subspace_indices or by the
   corresponding eigenvector matrices. Passing any unitary (or biorthogonal) eigenbasis of H_0
   is equivalent to rotating the Hamiltonian into that basis first, and
   operator_to_BlockSeries returns exactly the blocks L_i† A R_j."

   Models: Front/Normalize.v (containers: _list_to_dict, _dict_to_BlockSeries,
   _symbolic_keys_to_tuples, _sympy_to_BlockSeries, _unpack_blocks, passthrough),
   Front/Project.v (operator_to_BlockSeries, _subspaces_from_indices).  block_diagonalize
   consumes only the normalised series, so inputs with the same normal form give the same
   H_tilde, U, U† (determinism; tied by k_formats).  Dense / sparse / symbolic values are one
   model: their equivalence is the correspondence of the three implementations with it.
   "Passing an eigenbasis = rotating first" is an instance of the naturality theorem proved
   elsewhere (Alg); here: C14_projection.

   Partial: C14_taylor_partial covers POLYNOMIAL dependence on the symbols; for non-polynomial
   analytic dependence the code relies on sympy's diff, which is not modelled. *)

Require Import List Bool Arith ZArith Lia Sorted.
Require Import PV.Front.Normalize PV.Front.NormalizeProofs PV.Front.NormalizeInst.
Require Import PV.Front.GaussQc PV.Front.SylvDiagProofs PV.Front.Project.
Import ListNotations.

(* All container formats that denote the same family {order -> matrix} normalise to the same
   series: same coefficient at every order, absent = zero.  [den] says what each container
   denotes (list: h_0 at order 0 and h_i at the i-th unit order; tuple-key dict: its items;
   monomial-key dict: the value stored under prod_s s^(n_s), symbols in name order; polynomial
   sympy matrix: its coefficient function; BlockSeries: itself). *)
Theorem C14_formats :
  forall (W : Vals) (c1 c2 : container W) s1 s2,
  to_scalar_series W c1 = Ok s1 -> to_scalar_series W c2 = Ok s2 ->
  (forall n, den W c1 n = den W c2 n) ->
  forall n, coeff_of W (s1 n) = coeff_of W (s2 n).
Proof. exact formats_agree. Qed.
Print Assumptions C14_formats.

Theorem C14_normal_form :
  forall (W : Vals) (c : container W) s n,
  to_scalar_series W c = Ok s -> coeff_of W (s n) = den W c n.
Proof. exact nf_den. Qed.
Print Assumptions C14_normal_form.

(* _list_to_dict: [h_0; h_1; ..; h_k] has h_0 at order (0,..,0), h_i at the unit order e_i and
   nothing else *)
Theorem C14_list_orders :
  forall (W : Vals) h0 ps d,
  list_to_dict W (h0 :: ps) = Some d ->
  lookup W d (repeat 0 (length ps)) = Some h0 /\
  (forall i, i < length ps -> lookup W d (unit_vec (length ps) i) = nth_error ps i) /\
  (forall n, n <> repeat 0 (length ps) ->
             (forall i, i < length ps -> n <> unit_vec (length ps) i) -> lookup W d n = None).
Proof.
  intros W h0 ps d H. split; [eapply list_to_dict_zero; eauto|split].
  - intros i Hi. eapply list_to_dict_unit; eauto.
  - intros n H1 H2. eapply list_to_dict_other; eauto.
Qed.
Print Assumptions C14_list_orders.

(* _symbolic_keys_to_tuples: the symbol tuple is strictly increasing in the name order and
   consists exactly of the symbols occurring in the keys *)
Theorem C14_symbols_sorted :
  forall keys : list monomial,
  StronglySorted lt (symbols_of keys) /\
  forall s, In s (symbols_of keys) <-> exists m p, In m keys /\ In (s, p) m.
Proof. exact symbols_of_spec. Qed.
Print Assumptions C14_symbols_sorted.

(* _sympy_to_BlockSeries, polynomial dependence: the derivative / factorial chain evaluated at
   zero is the Taylor coefficient, and the element is that coefficient times the monomial *)
Theorem C14_taylor_partial :
  forall (W : Vals) (P : poly W) n,
  taylor W P n = P n /\
  sympy_to_series W P n = if vzerob W (P n) then None else Some (EV n (P n)).
Proof. intros W P n. split; [apply taylor_coeff|apply sympy_to_series_spec]. Qed.
Print Assumptions C14_taylor_partial.

(* An explicit [symbols] list of a sympy Matrix / Expr input is used in the USER'S order, whatever
   the names: index i of an order tuple counts the i-th symbol of the list (the name-sorted order
   of C14_symbols_sorted concerns monomial-key dicts only).  Element n is the coefficient of
   prod_i given_i ^ n_i times that monomial. *)
Theorem C14_explicit_symbols :
  forall (W : Vals) (given free_order : list nat) (Q : npoly W) n,
  given <> [] -> NoDup given ->
  resolve_symbols given free_order = given /\
  sympy_named_series W given free_order Q n =
    (if vzerob W (Q (powers_of given n)) then None else Some (EV n (Q (powers_of given n)))) /\
  forall i, i < length given -> powers_of given n (nth i given 0) = nth i n 0.
Proof. exact explicit_symbols_preserved. Qed.
Print Assumptions C14_explicit_symbols.

(* symbols=None (all free symbols perturbative): the order is the iteration order of a Python set,
   a fact of the call ([free_order]); index i counts the i-th symbol of that order.  (A single
   Symbol passed as [symbols] is the one-element list of C14_explicit_symbols.) *)
Theorem C14_default_symbols :
  forall (W : Vals) (free_order : list nat) (Q : npoly W) n,
  NoDup free_order ->
  sympy_named_series W [] free_order Q n =
    (if vzerob W (Q (powers_of free_order n)) then None else Some (EV n (Q (powers_of free_order n)))) /\
  forall i, i < length free_order -> powers_of free_order n (nth i free_order 0) = nth i n 0.
Proof. exact default_symbols_order. Qed.
Print Assumptions C14_default_symbols.

(* _unpack_blocks: element (i, j, n) is grid_n[i][j]; absent orders stay absent *)
Theorem C14_blocks :
  forall (W : Vals) (s : order -> option (grid W)) i j n,
  (forall g row v, s n = Some g -> nth_error g i = Some row -> nth_error row j = Some v ->
                   vz W (unpack_blocks W s i j n) = v) /\
  (s n = None -> unpack_blocks W s i j n = None).
Proof.
  intros W s i j n. split.
  - intros g row v. apply unpack_blocks_spec.
  - apply unpack_blocks_absent.
Qed.
Print Assumptions C14_blocks.

(* operator_to_BlockSeries: element (i, j, n) is L_i† A_n R_j (entry formula with genuine sums),
   the sentinel zero when A_n is absent *)
Theorem C14_projection :
  forall (F : Fld) (S : setup F) (M : fmat F) i j a b,
  a < s_size F S i -> b < s_size F S j ->
  oget F (direct F S (Some M) i j) a b =
  fsum F (s_N F S) (fun l =>
    kmul F (fsum F (s_N F S) (fun k => kmul F (kconj F (s_L F S i k a)) (M k l))) (s_R F S j l b)).
Proof.
  intros F S M i j a b Ha Hb.
  rewrite (op_eval_direct F S (Some M) M i j a b eq_refl Ha Hb). apply project_entry.
Qed.
Print Assumptions C14_projection.

(* with subspace_indices it is the sub-matrix rows(i) x cols(j) *)
Theorem C14_projection_indices :
  forall (F : Fld) (sub : list nat) (M : fmat F) i j a b,
  a < length (positions sub i) -> b < length (positions sub j) ->
  oget F (direct F (setup_of_indices F sub) (Some M) i j) a b =
  M (nth a (positions sub i) (length sub)) (nth b (positions sub j) (length sub)).
Proof. exact op_eval_indices. Qed.
Print Assumptions C14_projection_indices.

(* hermitian=True: for i > j the code returns Dagger of element (j, i); for a Hermitian A_n and a
   single basis per block this agrees with the direct projection *)
Theorem C14_hermitian_fill :
  forall (F : Fld) (S : setup F) (M : fmat F) i j a b,
  (forall b, s_L F S b = s_R F S b) ->
  (forall k l, k < s_N F S -> l < s_N F S -> M l k = kconj F (M k l)) ->
  j < i -> a < s_size F S i -> b < s_size F S j ->
  oget F (op_eval F S true (Some M) i j) a b = oget F (direct F S (Some M) i j) a b.
Proof. exact hermitian_fill. Qed.
Print Assumptions C14_hermitian_fill.

(* ---------------- non-vacuity ---------------- *)

(* 3 + 5 x y^2 + 7 x^2 : the chain returns the coefficients; the list [3; 4; 9], the dict and
   the monomial-key dict {1: 3, y: 9, x: 4} (x < y in name order) denote the same family *)
Example C14_taylor_ex :
  let P : poly ZVals := fun e => if order_eqb e [0; 0] then 3%Z else if order_eqb e [1; 2] then 5%Z
                                 else if order_eqb e [2; 0] then 7%Z else 0%Z in
  taylor ZVals P [1; 2] = 5%Z /\ taylor ZVals P [2; 0] = 7%Z /\ taylor ZVals P [1; 1] = 0%Z.
Proof. vm_compute. auto. Qed.

(* 3 + 5 x y^2 with symbols = [y; x] (ranks: x = 0, y = 1): index (2, 1) is y^2 x *)
Example C14_explicit_symbols_ex :
  let Q : npoly ZVals := fun pw => if (pw 0 =? 1) && (pw 1 =? 2) then 5%Z
                                   else if (pw 0 =? 0) && (pw 1 =? 0) then 3%Z else 0%Z in
  sympy_named_series ZVals [1; 0] [0; 1] Q [2; 1] = Some (@EV ZVals [2; 1] 5%Z) /\
  sympy_named_series ZVals [1; 0] [0; 1] Q [1; 2] = None /\
  sympy_named_series ZVals [] [0; 1] Q [1; 2] = Some (@EV ZVals [1; 2] 5%Z).
Proof. vm_compute. auto. Qed.

Example C14_formats_ex :
  let cl : container ZVals := @CList ZVals ([3%Z; 4%Z; 9%Z] : list (V ZVals)) in
  let cd : container ZVals := @CDict ZVals ([([0; 1], 9%Z); ([0; 0], 3%Z); ([1; 0], 4%Z)] : fam ZVals) in
  let cm : container ZVals := @CMono ZVals ([([], 3%Z); ([(1, 1)], 9%Z); ([(0, 1)], 4%Z)] : list (monomial * V ZVals)) in
  forall n, In n [[0; 0]; [1; 0]; [0; 1]; [1; 1]] ->
  den ZVals cl n = den ZVals cd n /\ den ZVals cd n = den ZVals cm n.
Proof. intros cl cd cm n H. cbn in H. destruct H as [<-|[<-|[<-|[<-|[]]]]]; vm_compute; auto. Qed.

Definition Fx : Fld := GF (qc 0 1) eq_refl.
Example C14_projection_ex :
  let sub := [0; 1; 0] in
  let M : fmat Fx := fun k l => gz (Z.of_nat (10 * k + l)) in
  keqb Fx (oget Fx (direct Fx (setup_of_indices Fx sub) (Some M) 0 1) 1 0) (gz 21) = true /\
  keqb Fx (oget Fx (direct Fx (setup_of_indices Fx sub) (Some M) 0 0) 1 0) (gz 20) = true.
Proof. vm_compute. auto. Qed.
