(* Props/C19.v

   C19  "BlockSeries indexing follows numpy semantics with exactly-once evaluation"

   For every index expression made of integers, lists and forward slices, indexing a
   BlockSeries returns what the same expression returns on the dense array of its
   element values, with absent (zero) elements masked; finite-dimension-only indices
   give a view with the same elements.  Each element is evaluated at most once while
   cached, infinite or negative order requests raise IndexError, and self-referential
   definitions raise RuntimeError instead of recursing forever.

   Models: PySeries/Cache.v (element cache, PENDING, except arms, pop, __contains__),
   PySeries/Index.v (np_index: SPECIFICATION of NumPy indexing, tied to NumPy by
   k_npindex), PySeries/GetItem.v (BlockSeries.__getitem__, views), tied to
   /repo/pymablock/series.py by k_getitem.
   Empty lists on an order dimension are outside the documented subset (TypeError).
   Non-vacuity: Cache.ex_run / ex_eval_respects, PySeries/C19Examples.v.
*)

Require Import List ZArith Arith Bool.
Import ListNotations.
Require Import PV.PySeries.Sentinel PV.PySeries.Cache PV.PySeries.Index PV.PySeries.GetItem
        PV.PySeries.IndexProofs PV.PySeries.ViewProofs PV.PySeries.ViewArrProofs
        PV.PySeries.C19Cache.

(* NumPy semantics.  A successful request series[item] (after the view branch) with
   result r: for EVERY extent ext' of a dense array that is at least the trial extent
   in the order dimensions, np_index applied to that array shape yields the same
   result shape and positions, every selected position was evaluated through the
   element cache (in np.where order, each once), and r consists of exactly these
   values (a scalar iff all indices are integers). *)
Theorem C19_numpy :
  forall (X : Type) (xdefault : X) (g : bcallback X) (hd : bshead) (s : sid)
         (item : list ix) (w w' : bworld X) (r : bsres X),
    bs_getitem_full xdefault g hd s item w = (Ok r, w') ->
    exists ext evald,
      extents (skipn (length (fshape hd)) item) = IOk ext /\
      forall ext', Forall2 le ext ext' ->
        exists shp poss,
          np_index (fshape hd ++ ext') item = IOk (shp, poss) /\
          eval_positions g s (sort_uniq poss) w = (Ok evald, w') /\
          (forall p, In p poss -> exists v, lookup_eval evald p = Some v) /\
          r = (if np_scalar (fshape hd ++ ext') item
               then RScalar (hd_default xdefault (map (value_at xdefault evald) poss))
               else RArray shp (map (value_at xdefault evald) poss)).
Proof. intros. eapply (getitem_numpy (fun _ => false)); eauto. Qed.
Print Assumptions C19_numpy.

(* Dense-array form with the mask: D is any dense array (of any sufficient extent)
   holding the element values; the result is D[item] and exactly the entries that are
   the sentinel zero are masked. *)
Theorem C19_numpy_dense :
  forall (X : Type) (xzero : X -> bool) (xdefault : X) (g : bcallback X) (hd : bshead) (s : sid)
         (item : list ix) (w w' : bworld X) (shp : list nat) (vals : list (bval X)),
    bs_getitem_full xdefault g hd s item w = (Ok (RArray shp vals), w') ->
    exists ext evald,
      extents (skipn (length (fshape hd)) item) = IOk ext /\
      forall ext' (D : index -> bval X),
        Forall2 le ext ext' ->
        (forall p v, lookup_eval evald p = Some v -> D p = v) ->
        exists poss,
          np_index (fshape hd ++ ext') item = IOk (shp, poss) /\
          vals = map D poss /\
          result_mask xzero (RArray shp vals) = map (fun p => bzero xzero (D p)) poss.
Proof. intros. eapply getitem_dense; eauto. Qed.
Print Assumptions C19_numpy_dense.

(* The EVALUATED SET.  A request that passes the checks makes element requests (calls of the
   element cache, hence possibly of eval) for exactly the positions NumPy selects - for paired
   lists on several axes the pairs, NOT the Cartesian box of the per-axis selections -, each
   once (NoDup), in np.where (sorted) order, stopping at the first exception; the positions
   may be computed on a dense array of any sufficient extent.  In particular an element
   outside the selected set is never requested, so an eval that would raise there cannot
   make the request fail, and nothing outside the set gets cached by the request itself.
   (C19_numpy states the same list for successful requests only.) *)
Theorem C19_evaluated_set :
  forall (X : Type) (xdefault : X) (g : bcallback X) (hd : bshead) (s : sid) (item : list ix)
         (w : bworld X) (ext ext' shp : list nat) (poss : list (list nat)),
    existsb order_bad (skipn (length (fshape hd)) item) = false ->
    length item = length (fshape hd) + bninf hd ->
    extents (skipn (length (fshape hd)) item) = IOk ext ->
    Forall2 le ext ext' ->
    np_index (fshape hd ++ ext') item = IOk (shp, poss) ->
    bs_getitem_full xdefault g hd s item w =
      match eval_positions g s (sort_uniq poss) w with
      | (Ok evald, w') =>
          (Ok (if np_scalar (fshape hd ++ ext') item
               then RScalar (hd_default xdefault (map (value_at xdefault evald) poss))
               else RArray shp (map (value_at xdefault evald) poss)), w')
      | (Raise x, w') => (Raise x, w')
      | (OutOfFuel, w') => (OutOfFuel, w')
      end /\
    NoDup (sort_uniq poss) /\
    (forall p, In p (sort_uniq poss) <-> In p poss) /\
    (* the cache is asked for a prefix of that list, all of it iff no exception occurs *)
    (exists rest, sort_uniq poss = requested g s (sort_uniq poss) w ++ rest) /\
    (forall l w', eval_positions g s (sort_uniq poss) w = (Ok l, w') ->
                  requested g s (sort_uniq poss) w = sort_uniq poss).
Proof.
  intros. split; [eapply getitem_evaluated_set; eauto|].
  split; [apply sort_uniq_NoDup|]. split; [intros; apply in_sort_uniq|].
  split; [apply requested_prefix|]. intros. eapply requested_all; eauto.
Qed.
Print Assumptions C19_evaluated_set.

(* The independence of the extent by itself. *)
Theorem C19_extent_independent :
  forall (fs : list nat) (item : list ix) (ext ext' : list nat),
    length fs <= length item ->
    existsb order_bad (skipn (length fs) item) = false ->
    extents (skipn (length fs) item) = IOk ext ->
    Forall2 le ext ext' ->
    np_index (fs ++ ext') item = np_index (fs ++ ext) item /\
    np_scalar (fs ++ ext') item = np_scalar (fs ++ ext) item.
Proof. intros. eapply np_index_extent; eauto. Qed.
Print Assumptions C19_extent_independent.

(* IndexError: a slice without stop, a negative slice start or stop, a negative integer
   or list entry on an order dimension (order_bad, characterised below), or a wrong
   number of indices: IndexError, nothing evaluated, nothing changed. *)
Theorem C19_indexerror :
  forall (X : Type) (xdefault : X) (g : bcallback X) (hd : bshead) (s : sid)
         (item : list ix) (w : bworld X),
    (exists o, In o (skipn (length (fshape hd)) item) /\ order_bad o = true) \/
    length item <> length (fshape hd) + bninf hd ->
    bs_getitem_full xdefault g hd s item w = (Raise IndexError, w).
Proof. intros. eapply getitem_indexerror; eauto. Qed.
Print Assumptions C19_indexerror.

Theorem C19_indexerror_classes :
  forall o : ix,
    order_bad o = true <->
    (exists start step, o = ISlice start None step) \/
    (exists st stop step, o = ISlice (Some st) stop step /\ (st < 0)%Z) \/
    (exists start sp step, o = ISlice start (Some sp) step /\ (sp < 0)%Z) \/
    (exists z, o = IInt z /\ (z < 0)%Z) \/
    (exists l z, o = IList l /\ In z l /\ (z < 0)%Z).
Proof. exact order_bad_spec. Qed.
Print Assumptions C19_indexerror_classes.

(* Views, all-integer item: created without evaluation; its element idx is exactly one
   element request (normalised item ++ idx) on the original - same value or exception,
   same effect on the caches. *)
Theorem C19_view :
  forall (X : Type) (xzero : X -> bool) (xdefault : X),
    (forall fuel (descs : list (bdesc X)) s (zs : list Z) (w : bworld X),
        length zs = length (fshape (bhead_at descs s)) -> 0 < bninf (bhead_at descs s) ->
        bs_request xzero xdefault fuel descs (QGet s (map IInt zs)) w =
        (OView (length descs) [],
         descs ++ [BViewInt (mkBS [] (bninf (bhead_at descs s))) s zs], w)) /\
    (forall (descs : list (bdesc X)) v h p (zs : list Z) fpos (g : bcallback X) (idx : index)
            (w : bworld X),
        nth_error descs v = Some (BViewInt h p zs) ->
        length zs = length (fshape (bhead_at descs p)) ->
        length idx = bninf (bhead_at descs p) ->
        Forall2 (fun dz n => norm_int (fst dz) (snd dz) = Some n)
                (combine (fshape (bhead_at descs p)) zs) fpos ->
        bs_eval xdefault descs v g idx w = g p (fpos ++ idx) w).
Proof.
  intros. split.
  - intros. now apply view_int_created.
  - intros. eapply view_int_element; eauto.
Qed.
Print Assumptions C19_view.

(* Views, item with lists / slices (code as repaired by 8db8abe): the view has the shape
   of np.empty(shape)[item]; with (vshape, poss) = np_index shape item, the hidden packed
   series holds at orders o the array, of shape vshape, of the elements (poss[k] ++ o) of
   the original (evaluated in np.where order through the cache), and the element
   (f ++ o) of the view is entry offset(f) of that array: numpy semantics on the finite
   dimensions at every order. *)
Theorem C19_view_lists_slices :
  forall (X : Type) (xzero : X -> bool) (xdefault : X),
    (forall fuel (descs : list (bdesc X)) s item vshape poss (w : bworld X),
        length item = length (fshape (bhead_at descs s)) -> 0 < bninf (bhead_at descs s) ->
        forallb is_int item = false ->
        np_index (fshape (bhead_at descs s)) item = IOk (vshape, poss) ->
        bs_request xzero xdefault fuel descs (QGet s item) w =
        (OView (S (length descs)) vshape,
         descs ++ [BPacked (mkBS [] (bninf (bhead_at descs s))) s item;
                   BViewArr (mkBS vshape (bninf (bhead_at descs s))) (length descs)], w)) /\
    (forall (descs : list (bdesc X)) q h p item vshape poss (g : bcallback X) (oidx : index)
            (w : bworld X),
        nth_error descs q = Some (BPacked h p item) ->
        length item = length (fshape (bhead_at descs p)) ->
        length oidx = bninf (bhead_at descs p) -> 0 < bninf (bhead_at descs p) ->
        np_index (fshape (bhead_at descs p)) item = IOk (vshape, poss) ->
        bs_eval xdefault descs q g oidx w =
        match eval_positions g p (sort_uniq (map (fun f => f ++ oidx) poss)) w with
        | (Ok evald, w') =>
            match elems_of (map (value_at xdefault evald) (map (fun f => f ++ oidx) poss)) with
            | Some xs => (Ok (BArr vshape xs), w')
            | None => (Raise (Other TypeError), w')
            end
        | (Raise x, w') => (Raise x, w')
        | (OutOfFuel, w') => (OutOfFuel, w')
        end) /\
    (forall (descs : list (bdesc X)) v h q (g : bcallback X) (fidx oidx : index) (w : bworld X),
        nth_error descs v = Some (BViewArr h q) ->
        length oidx = bninf h ->
        bs_eval xdefault descs v g (fidx ++ oidx) w =
        match g q oidx w with
        | (Ok (BArr shp xs), w') => (Ok (BElem (nth (offset shp fidx 0) xs xdefault)), w')
        | (Ok (BElem _), w') => (Raise (Other TypeError), w')
        | (Raise x, w') => (Raise x, w')
        | (OutOfFuel, w') => (OutOfFuel, w')
        end).
Proof.
  intros. split; [|split].
  - intros. eapply view_arr_created; eauto.
  - intros. eapply packed_element; eauto.
  - intros. eapply view_arr_element; eauto.
Qed.
Print Assumptions C19_view_lists_slices.

(* Exactly-once.  (1) A cached element is returned with no effect at all: no eval call
   (the event log is part of the world).  (2) eval is called only for an absent key, with
   the key marked PENDING.  (3) For every eval that acts on the caches only through element
   requests and pop (eval_respects), e.g. all evals of the BlockSeries model, any script of
   user requests (indexing, `in`, pop) from a world with an empty log keeps: for every
   element, #eval calls <= #removals of its key (pop or exception clean-up) + 1. *)
Theorem C19_once :
  (forall (V E : Type) (eval : evalT V E) fuel s i (w : world V) v,
      wlookup w s i = Some (Done v) -> getitem eval (S fuel) s i w = (Ok v, w)) /\
  (forall (V E : Type) (eval : evalT V E) fuel s i (w : world V),
      wlookup w s i = None ->
      let w1 := log_event (EvEval s i) (set_entry s i Pending w) in
      wlookup w1 s i = Some Pending /\
      getitem eval (S fuel) s i w =
      match eval s (getitem eval fuel) i w1 with
      | (Ok v, w2) => (Ok v, set_entry s i (Done v) w2)
      | (Raise x, w2) => (Raise x, drop_entry s i w2)
      | (OutOfFuel, w2) => (OutOfFuel, drop_entry s i w2)
      end) /\
  (forall (V E : Type) (eval : evalT V E) (pops : bool),
      eval_respects pops eval ->
      forall fuel s i (w : world V), wf_world w -> once_inv w ->
        wf_world (snd (getitem eval fuel s i w)) /\ once_inv (snd (getitem eval fuel s i w))) /\
  (forall (X : Type) (xzero : X -> bool) (xdefault : X) fuel qs descs (w : bworld X),
      wf_world w -> once_inv w ->
      let '(_, _, w') := bs_script xzero xdefault fuel descs qs w in
      forall s i, n_evals s i w' <= n_removals s i w' + 1).
Proof.
  split; [|split; [|split]].
  - intros. now apply getitem_hit.
  - intros. now apply getitem_miss.
  - intros. eapply getitem_once; eauto.
  - intros X xzero xdefault fuel qs descs w W I.
    pose proof (@bs_script_once X xzero xdefault fuel qs descs w (conj W I)) as H.
    destruct (bs_script xzero xdefault fuel descs qs w) as [[os d] w']. apply H.
Qed.
Print Assumptions C19_once.

(* Recursion.  A request for an element whose evaluation is in progress raises
   RuntimeError at once (no fuel is consumed by the loop); an eval that requests its own
   element therefore yields RuntimeError (re-raised by the `except RuntimeError` arm) and
   its key does not stay behind. *)
Theorem C19_recursion :
  (forall (V E : Type) (eval : evalT V E) fuel s i (w : world V),
      wlookup w s i = Some Pending -> getitem eval (S fuel) s i w = (Raise RuntimeError, w)) /\
  (forall (V E : Type) (eval : evalT V E) fuel s i (w : world V),
      wf_world w -> wlookup w s i = None ->
      (forall g w1, eval s g i w1 = g s i w1) ->
      fst (getitem eval (S (S fuel)) s i w) = Raise RuntimeError /\
      wlookup (snd (getitem eval (S (S fuel)) s i w)) s i = None).
Proof.
  split.
  - intros. now apply getitem_pending.
  - intros. now apply getitem_self_reference.
Qed.
Print Assumptions C19_recursion.

(* Clean-up after exceptions.  For evals acting only through element requests: whatever a
   request returns (value, any exception class, out of fuel), the set of PENDING keys is
   as before and all evaluated entries present before are unchanged; if it did not return
   a value, the requested key itself is as before (no PENDING marker left). *)
Theorem C19_exn_cleanup :
  (forall (V E : Type) (eval : evalT V E),
      eval_respects false eval ->
      forall fuel s i (w : world V),
        wf_world w ->
        let w' := snd (getitem eval fuel s i w) in
        wf_world w' /\
        (forall s' i', wlookup w' s' i' = Some Pending <-> wlookup w s' i' = Some Pending) /\
        (forall s' i' v, wlookup w s' i' = Some (Done v) -> wlookup w' s' i' = Some (Done v))) /\
  (forall (V E : Type) (eval : evalT V E) fuel s i (w : world V),
      wf_world w -> eval_respects false eval ->
      (forall v, fst (getitem eval fuel s i w) <> Ok v) ->
      wlookup (snd (getitem eval fuel s i w)) s i = wlookup w s i) /\
  (forall (X : Type) (xdefault : X) (descs : list (bdesc X)),
      eval_respects false (bs_eval xdefault descs)).
Proof.
  split; [|split].
  - intros V E eval He fuel s i w W. exact (getitem_frame He fuel s i W).
  - intros. now apply getitem_raise_key.
  - intros. apply bs_eval_respects.
Qed.
Print Assumptions C19_exn_cleanup.
