(** C02 - Hermitian: U unitary at every order, U† its adjoint, H_tilde Hermitian.

    Same quantification as C01 (every [BlockAlg], every solution of the generated [main_alg],
    every scope wired as block_diagonalize wires it). [*] is the Cauchy product of series of
    block matrices, so "== 1" means identity at order zero and zero at all other orders, for
    every block pair including the off-diagonal blocks of U†U.  [adj] is the conjugate
    transpose of the whole block matrix at every order, i.e. element (i,j,n) of U† is the
    conjugate transpose of element (j,i,n) of U. *)
Require Import Ncring String List.
From PV.Base Require Import Classes AlgLemmas.
From PV.DSL Require Import Syntax Sem.
From PV.Gen Require Import Algorithms_gen.
From PV.Alg Require Import MainLift MainCorrect.
Open Scope string_scope.

Theorem C02_UdU :
  forall (T : Type) (r0 r1 : T) (add mul sub : T -> T -> T) (opp : T -> T) (req : T -> T -> Prop)
         (Ro : @Ring_ops T r0 r1 add mul sub opp req) (Rg : @Ring T r0 r1 add mul sub opp req Ro)
         (BA : BlockAlg T) (rflag : string -> T -> T) (fenv : string -> list T -> T) (sol : string -> T),
    solution (gflag_of false) rflag fenv sol main_alg -> wiring rflag fenv (sol "H") ->
    sol "U†" * sol "U" == 1.
Proof. intros. eapply unitary_l_general; eassumption. Qed.
Print Assumptions C02_UdU.

Theorem C02_UUd :
  forall (T : Type) (r0 r1 : T) (add mul sub : T -> T -> T) (opp : T -> T) (req : T -> T -> Prop)
         (Ro : @Ring_ops T r0 r1 add mul sub opp req) (Rg : @Ring T r0 r1 add mul sub opp req Ro)
         (BA : BlockAlg T) (rflag : string -> T -> T) (fenv : string -> list T -> T) (sol : string -> T),
    solution (gflag_of false) rflag fenv sol main_alg -> wiring rflag fenv (sol "H") ->
    sol "U" * sol "U†" == 1.
Proof. intros. eapply unitary_r_general; eassumption. Qed.
Print Assumptions C02_UUd.

Theorem C02_adjoint :
  forall (T : Type) (r0 r1 : T) (add mul sub : T -> T -> T) (opp : T -> T) (req : T -> T -> Prop)
         (Ro : @Ring_ops T r0 r1 add mul sub opp req) (Rg : @Ring T r0 r1 add mul sub opp req Ro)
         (BA : BlockAlg T) (rflag : string -> T -> T) (fenv : string -> list T -> T) (sol : string -> T),
    solution (gflag_of false) rflag fenv sol main_alg -> wiring rflag fenv (sol "H") ->
    adj (sol "U") == sol "U†".
Proof. intros. eapply adjoint_general; eassumption. Qed.
Print Assumptions C02_adjoint.

Theorem C02_Ht_hermitian :
  forall (T : Type) (r0 r1 : T) (add mul sub : T -> T -> T) (opp : T -> T) (req : T -> T -> Prop)
         (Ro : @Ring_ops T r0 r1 add mul sub opp req) (Rg : @Ring T r0 r1 add mul sub opp req Ro)
         (BA : BlockAlg T) (rflag : string -> T -> T) (fenv : string -> list T -> T) (sol : string -> T),
    solution (gflag_of false) rflag fenv sol main_alg -> wiring rflag fenv (sol "H") ->
    adj (sol "H_tilde") == sol "H_tilde".
Proof. intros. eapply Ht_herm_general; eassumption. Qed.
Print Assumptions C02_Ht_hermitian.

(** Two-block optimisation (two_block_optimized = True): same conclusions under [wiring_tb]. *)

Theorem C02_UdU_two_block :
  forall (T : Type) (r0 r1 : T) (add mul sub : T -> T -> T) (opp : T -> T) (req : T -> T -> Prop)
         (Ro : @Ring_ops T r0 r1 add mul sub opp req) (Rg : @Ring T r0 r1 add mul sub opp req Ro)
         (BA : BlockAlg T) (rflag : string -> T -> T) (fenv : string -> list T -> T) (sol : string -> T),
    solution (gflag_of true) rflag fenv sol main_alg ->
    wiring_tb rflag fenv (sol "H") ->
    sol "U†" * sol "U" == 1.
Proof. intros. eapply unitary_l_tb; eassumption. Qed.
Print Assumptions C02_UdU_two_block.

Theorem C02_UUd_two_block :
  forall (T : Type) (r0 r1 : T) (add mul sub : T -> T -> T) (opp : T -> T) (req : T -> T -> Prop)
         (Ro : @Ring_ops T r0 r1 add mul sub opp req) (Rg : @Ring T r0 r1 add mul sub opp req Ro)
         (BA : BlockAlg T) (rflag : string -> T -> T) (fenv : string -> list T -> T) (sol : string -> T),
    solution (gflag_of true) rflag fenv sol main_alg ->
    wiring_tb rflag fenv (sol "H") ->
    sol "U" * sol "U†" == 1.
Proof. intros. eapply unitary_r_tb; eassumption. Qed.
Print Assumptions C02_UUd_two_block.

Theorem C02_adjoint_two_block :
  forall (T : Type) (r0 r1 : T) (add mul sub : T -> T -> T) (opp : T -> T) (req : T -> T -> Prop)
         (Ro : @Ring_ops T r0 r1 add mul sub opp req) (Rg : @Ring T r0 r1 add mul sub opp req Ro)
         (BA : BlockAlg T) (rflag : string -> T -> T) (fenv : string -> list T -> T) (sol : string -> T),
    solution (gflag_of true) rflag fenv sol main_alg ->
    wiring_tb rflag fenv (sol "H") ->
    adj (sol "U") == sol "U†".
Proof. intros. eapply adjoint_tb; eassumption. Qed.
Print Assumptions C02_adjoint_two_block.

Theorem C02_Ht_hermitian_two_block :
  forall (T : Type) (r0 r1 : T) (add mul sub : T -> T -> T) (opp : T -> T) (req : T -> T -> Prop)
         (Ro : @Ring_ops T r0 r1 add mul sub opp req) (Rg : @Ring T r0 r1 add mul sub opp req Ro)
         (BA : BlockAlg T) (rflag : string -> T -> T) (fenv : string -> list T -> T) (sol : string -> T),
    solution (gflag_of true) rflag fenv sol main_alg ->
    wiring_tb rflag fenv (sol "H") ->
    adj (sol "H_tilde") == sol "H_tilde".
Proof. intros. eapply Ht_herm_tb; eassumption. Qed.
Print Assumptions C02_Ht_hermitian_two_block.

(** End-to-end form of the tie (see Props/C01.v, [C01_tie_conclusions]): for every k_semeq case
    where [check_alg] and [inputs_ok] evaluate to true, the unitarity, adjoint and Hermiticity
    clauses hold for the implementation's tables up to total order N. *)
From PV.Alg Require Import SemExec SemExecSound TruncTie.
From PV.Series Require Import Exec.
From PV.Block Require Import QLemmas QInst.
Theorem C02_tie_conclusions :
  forall (D k N : nat) (bl : list nat) (msk : list (list bool)) (cb : list bool) (El : list gq)
         (sols : list (string * tser gq)),
    check_alg D k N bl msk cb El false sols main_alg = true ->
    inputs_ok D k N bl msk cb El sols = true ->
    let BA := BAi D k bl msk cb in
    let sol := asol D k sols in
    eqN D k N (sol "U†" * sol "U") 1 /\ eqN D k N (sol "U" * sol "U†") 1 /\
    eqN D k N (adj (sol "U")) (sol "U†") /\ eqN D k N (adj (sol "H_tilde")) (sol "H_tilde").
Proof.
  intros D k N bl msk cb El sols H1 H2 BA sol.
  destruct (tie_conclusions D k N bl msk cb El sols H1 H2) as (_ & _ & a & b & c & d & _).
  exact (Logic.conj a (Logic.conj b (Logic.conj c d))).
Qed.
Print Assumptions C02_tie_conclusions.
