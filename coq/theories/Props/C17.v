(* C17 - Complement projector equals the matrix 1 - R L^dagger under every operator
   operation.

   "For all right/left vector sets, applying the projector from the left or right to
   vectors and matrices, taking its transpose, adjoint or conjugate, and composing it
   with other linear operators (including adjoint and right-multiplication of the
   composites) gives the same results as the dense matrix 1 - R L^dagger.  It is
   idempotent when L^dagger R = 1 and reports a consistent shape and dtype."

   Model: LinAlg/Projector.v (MathComp, any commutative ring R with an involutive ring
   morphism conj), LinAlg/Heap.v (object graph of the cached links, generic in the
   array type), LinAlg/ProjectorExec.v + ProjectorZ.v (executable list model run by the
   correspondence harness), LinAlg/ProjectorRefine.v (the executable model computes the
   MathComp model).  Vectors are the case m = 1 of n x m matrices. *)
From Coq Require Import ZArith.
From mathcomp Require Import all_ssreflect all_algebra.
From PV Require Import LinAlg.Heap LinAlg.Projector LinAlg.ProjectorExec
  LinAlg.ProjectorRefine LinAlg.ProjectorZ.
Set Implicit Arguments. Unset Strict Implicit. Unset Printing Implicit Defensive.
Import GRing.Theory.
Local Open Scope ring_scope.
Delimit Scope Z_scope with ZZ.

(* P @ v, P.matvec(v), P.matmat(v): _apply computes (1 - R L^H) v *)
Theorem C17_matvec (R : comRingType) (conj : {rmorphism R -> R}) n k
    (d : 'M[R]_(n,k) * 'M[R]_(n,k)) m (v : 'M[R]_(n,m)) :
  apply conj d v = den conj d *m v.
Proof. exact: apply_den. Qed.
Print Assumptions C17_matvec.

(* P.rmatvec(v), P.rmatmat(v): _apply_left computes (1 - R L^H)^H v *)
Theorem C17_rmatvec (R : comRingType) (conj : {rmorphism R -> R}) n k
    (d : 'M[R]_(n,k) * 'M[R]_(n,k)) m (v : 'M[R]_(n,m)) :
  involutive conj ->
  apply_left conj d v = adjm conj (den conj d) *m v.
Proof. by move=> cK; apply: apply_left_den. Qed.
Print Assumptions C17_rmatvec.

(* data built by _adjoint / conjugate / _transpose denote the transformed matrix *)
Theorem C17_adjoint (R : comRingType) (conj : {rmorphism R -> R}) n k
    (d : 'M[R]_(n,k) * 'M[R]_(n,k)) : involutive conj ->
  den conj (gact (@vconj R conj n k) FH d) = adjm conj (den conj d).
Proof. by move=> cK; rewrite (den_gact cK FH). Qed.
Print Assumptions C17_adjoint.

Theorem C17_conjugate (R : comRingType) (conj : {rmorphism R -> R}) n k
    (d : 'M[R]_(n,k) * 'M[R]_(n,k)) : involutive conj ->
  den conj (gact (@vconj R conj n k) FC d) = conjm conj (den conj d).
Proof. by move=> cK; rewrite (den_gact cK FC). Qed.
Print Assumptions C17_conjugate.

Theorem C17_transpose (R : comRingType) (conj : {rmorphism R -> R}) n k
    (d : 'M[R]_(n,k) * 'M[R]_(n,k)) : involutive conj ->
  den conj (gact (@vconj R conj n k) FT d) = (den conj d)^T.
Proof. by move=> cK; rewrite (den_gact cK FT). Qed.
Print Assumptions C17_transpose.

(* After any sequence of .T / .H / .conjugate() starting from any object of any heap
   satisfying the invariant (e.g. a freshly constructed projector), the object
   reached denotes the corresponding transform of the original dense matrix, the
   invariant is kept and all previously existing objects denote what they did. *)
Theorem C17_links (R : comRingType) (conj : {rmorphism R -> R}) n k
    (h : heap (matrix_eqType R n k)) (a : nat) (w : seq op) :
  involutive conj -> wf (@vconj R conj n k) h -> (a < next h)%N ->
  let r := run (@vconj R conj n k) h a w in
  [/\ wf (@vconj R conj n k) r.1, (r.2 < next r.1)%N,
      forall x, (x < next h)%N -> den_at conj r.1 x = den_at conj h x
    & den_at conj r.1 r.2 = foldl (@tr_op R conj n) (den_at conj h a) w].
Proof. by move=> cK; apply: links_den. Qed.
Print Assumptions C17_links.

(* the constructor establishes the invariant *)
Theorem C17_links_init (V : eqType) (vconj : V -> V) (h : heap V) vs ls :
  involutive vconj -> wf vconj h -> wf vconj (alloc h vs ls).1.
Proof. by move=> vK; apply: wf_alloc. Qed.
Print Assumptions C17_links_init.

(* object identity (Python `is`): .H.H and .conjugate().conjugate() return the
   original object; stated for any array type, hence also for the executable model *)
Theorem C17_links_HH (V : eqType) (vconj : V -> V) (h : heap V) a :
  involutive vconj -> wf vconj h -> (a < next h)%N ->
  let r := adjoint h a in adjoint r.1 r.2 = (r.1, a).
Proof. by move=> vK; apply: adjoint_twice. Qed.
Print Assumptions C17_links_HH.

Theorem C17_links_CC (V : eqType) (vconj : V -> V) (h : heap V) a :
  involutive vconj -> wf vconj h -> (a < next h)%N ->
  let r := conjugate vconj h a in conjugate vconj r.1 r.2 = (r.1, a).
Proof. by move=> vK; apply: conjugate_twice. Qed.
Print Assumptions C17_links_CC.

(* .T.T returns the original object when the transpose was not cached before the
   first .T, or when the object is Hermitian (partial: see the next two statements) *)
Theorem C17_links_TT_partial (V : eqType) (vconj : V -> V) (h : heap V) a :
  involutive vconj -> wf vconj h -> (a < next h)%N ->
  lnk (cell h a) FT = None \/ herm (cell h a) ->
  let r := transpose vconj h a in transpose vconj r.1 r.2 = (r.1, a).
Proof. by move=> vK; apply: transpose_twice_fresh. Qed.
Print Assumptions C17_links_TT_partial.

(* in general .T.T returns an object holding the same data (so the same matrix) *)
Theorem C17_links_TT_data (V : eqType) (vconj : V -> V) (h : heap V) a :
  involutive vconj -> wf vconj h -> (a < next h)%N ->
  let r := transpose vconj h a in
  let r2 := transpose vconj r.1 r.2 in dat (cell r2.1 r2.2) = dat (cell h a).
Proof. by move=> vK; apply: transpose_twice_dat. Qed.
Print Assumptions C17_links_TT_data.

(* ... but not always the same object: a cached transpose link of a non-Hermitian
   projector can be re-pointed by a later .T of another object holding the same data.
   Witness (replayed on /repo by k_projector): R = (1, 2i, 0), L = (1, 0, i),
   x = P.conjugate().H.T.T.H.conjugate().T.conjugate().H ; x.T.T is not x. *)
Definition C17_TT_R : zmat := [:: [:: (1,0)%ZZ]; [:: (0,2)%ZZ]; [:: (0,0)%ZZ]].
Definition C17_TT_L : zmat := [:: [:: (1,0)%ZZ]; [:: (0,0)%ZZ]; [:: (0,1)%ZZ]].
Definition C17_TT_w : seq op := [:: OpC; OpH; OpT; OpT; OpH; OpC; OpT; OpC; OpH].
Lemma C17_TT_witness :
  let r := zrun C17_TT_R (Some C17_TT_L) C17_TT_w in
  let r1 := transpose zconj r.1 r.2 in
  ((transpose zconj r1.1 r1.2).2 == r.2) = false.
Proof. by vm_compute. Qed.
Theorem C17_links_TT_identity_refuted :
  exists (R L : zmat) (w : seq op),
    let r := zrun R (Some L) w in
    let r1 := transpose zconj r.1 r.2 in
    (transpose zconj r1.1 r1.2).2 <> r.2.
Proof.
exists C17_TT_R, C17_TT_L, C17_TT_w; move=> r r1; apply/eqP.
exact: (negbT C17_TT_witness).
Qed.
Print Assumptions C17_links_TT_identity_refuted.

Theorem C17_idempotent (R : comRingType) (conj : {rmorphism R -> R}) n k
    (d : 'M[R]_(n,k) * 'M[R]_(n,k)) :
  adjm conj d.2 *m d.1 = 1%:M -> den conj d *m den conj d = den conj d.
Proof. exact: den_idem. Qed.
Print Assumptions C17_idempotent.

(* an object whose Hermitian flag is set denotes a Hermitian matrix *)
Theorem C17_hermitian_flag (R : comRingType) (conj : {rmorphism R -> R}) n k
    (h : heap (matrix_eqType R n k)) a :
  involutive conj -> wf (@vconj R conj n k) h -> (a < next h)%N ->
  herm (cell h a) -> adjm conj (den_at conj h a) = den_at conj h a.
Proof. by move=> cK; apply: herm_flag_den. Qed.
Print Assumptions C17_hermitian_flag.

(* P A P, (P A P).H (generic wrapper and the product SciPy builds from the adjoint
   objects), (P A P).T and x @ (P A P) equal the dense results; derived from the
   LinearOperator contract of SciPy (trusted base) and the four theorems above *)
Theorem C17_composites (R : comRingType) (conj : {rmorphism R -> R}) n k
    (d : 'M[R]_(n,k) * 'M[R]_(n,k)) (A : 'M[R]_n) :
  involutive conj ->
  let P := of_projector conj d in
  let PH := of_projector conj (gact (@vconj R conj n k) FH d) in
  let PAP := prod_op (prod_op P (of_dense conj A)) P in
  let M := den conj d *m A *m den conj d in
  [/\ denotes conj PAP M,
      denotes conj (adj_op PAP) (adjm conj M),
      denotes conj (prod_op PH (prod_op (of_dense conj (adjm conj A)) PH)) (adjm conj M),
      denotes conj (tr_lop conj PAP) M^T
    & forall p (x : 'M[R]_(p,n)), rdot (tr_lop conj PAP) x = x *m M].
Proof. by move=> cK; apply: composites. Qed.
Print Assumptions C17_composites.

(* shape is (n, n); dtype is the join of the dtypes of the two stored arrays and is
   the same for the adjoint, conjugate and transpose objects *)
Theorem C17_shape_dtype (f : fld) (vdt ldt : dtype) (hm : bool) (vshape : nat * nat) :
  (proj_shape vshape).1 = (proj_shape vshape).2 /\
  (proj_shape vshape).1 = vshape.1 /\
  let d := transform_dtypes f vdt ldt hm in
  proj_dtype d.1 d.2 hm = proj_dtype vdt ldt hm.
Proof. by split=> //; split=> //; apply: proj_dtype_transform. Qed.
Print Assumptions C17_shape_dtype.

(* the executable model evaluated by the harness computes the MathComp model *)
Theorem C17_exec_refines (R : comRingType) (conj : {rmorphism R -> R}) n k m
    (Rv Lv v : seq (seq R)) :
  [/\ mxl n m (lapply 0 +%R (fun x y => x - y) *%R conj n k m Rv Lv v) =
        apply conj (mxl n k Rv, mxl n k Lv) (mxl n m v),
      mxl n m (lapply_left 0 +%R (fun x y => x - y) *%R conj n k m Rv Lv v) =
        apply_left conj (mxl n k Rv, mxl n k Lv) (mxl n m v)
    & mxl n n (lden 0 1 +%R (fun x y => x - y) *%R conj n k Rv Lv) =
        den conj (mxl n k Rv, mxl n k Lv)].
Proof. by split; [apply: mxl_apply | apply: mxl_apply_left | apply: mxl_den]. Qed.
Print Assumptions C17_exec_refines.

(* ---- non-vacuity ---- *)
(* an involutive ring morphism and a non-trivial biorthogonal pair over int *)
Example C17_ex_conj : involutive (idfun : int -> int). Proof. by []. Qed.
Example C17_ex_biorth :
  adjm [rmorphism of idfun] (const_mx 1 : 'M[int]_(1,1)) *m (const_mx 1 : 'M[int]_(1,1)) = 1%:M.
Proof. by apply/matrixP=> i j; rewrite !mxE big_ord1 !mxE mulr1 !ord1. Qed.
(* a heap satisfying the invariant with a live non-Hermitian object in it *)
Example C17_ex_heap :
  let h := (alloc (empty (0 : 'M[int]_(2,1))) (const_mx 1) (Some (const_mx 2))).1 in
  wf (@vconj _ [rmorphism of idfun] 2 1) h /\ (0 < next h)%N /\ herm (cell h 0) = false.
Proof.
move=> h; split; first by apply: wf_alloc; apply: wf_empty.
split; first by [].
rewrite /h /alloc /= /init_obj /=.
by apply/negbTE/eqP => /matrixP /(_ ord0 ord0); rewrite !mxE.
Qed.
(* the executable instance: a word on a complex non-Hermitian projector *)
Example C17_ex_exec :
  zword_apply 3 1 1 C17_TT_R (Some C17_TT_L) [:: OpT; OpH] [:: [:: (1,1)%ZZ]; [:: (2,0)%ZZ]; [:: (3,-1)%ZZ]]
  = [:: [:: (-1, -3)%ZZ]; [:: (-6, 4)%ZZ]; [:: (3, -1)%ZZ]].
Proof. by vm_compute. Qed.
