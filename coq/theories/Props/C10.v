(** C10 - Results independent of evaluation order/history; returned values not mutated.

    "The value of any element of H_tilde, U or U† is the same whatever elements of any of the
    series (single, sliced, repeated, interleaved between several computations built from the
    same input objects) were requested before it, and equals the value from a fresh
    computation. Values already handed to the caller and the contents of the caller's input
    arrays, dictionaries and series elements are never modified by later evaluations."

    In the model values are immutable, so the clause about in-place modification of NumPy
    buffers is NOT covered by a theorem: it is enforced by the harness k_schedules (every
    input array and every returned array is made read-only and deep-copied, and compared at
    the end).  What is proved: history independence of every returned value (a slice request
    is the sequence of its element requests), and that the evaluator never pops or changes
    an evaluated element of an input series. *)
From Coq Require Import String List ZArith Bool Arith.
From PV.DSL Require Import Syntax Values Target Compile Interp Exec Laws Sound CompileProps Main Regular Examples PropsLemmas.
From PV.Gen Require Import Algorithms_gen.
Import ListNotations.
Open Scope string_scope.

(** Two arbitrary request schedules on two computations built from the same program and
    inputs (with any fault plans inside the world): an element that both return has the same
    value, the value of the direct interpretation.  A fresh computation is the special case
    rs2 = [request]. *)
Theorem C10_history :
  forall (V : Type) (O : vops V) (eqv : V -> V -> Prop), vlaws O eqv ->
  forall (alg : algorithm) (W : xworld V) (sfn : string -> list V -> index -> V),
  world_ok O eqv alg W sfn ->
  forall fuel1 fuel2 c1 c2 rs1 rs2 os1 os2 s1 s2 i1 i2 tb1 tb2 name ix v1 v2,
    run_all O alg (compile alg) W fuel1 (init_state alg W c1) rs1 = (os1, s1) ->
    run_all O alg (compile alg) W fuel2 (init_state alg W c2) rs2 = (os2, s2) ->
    Forall (fun o => o <> OutOfFuel) os1 -> Forall (fun o => o <> OutOfFuel) os2 ->
    nth_error rs1 i1 = Some (tb1, name, ix) -> nth_error os1 i1 = Some (Ok v1) ->
    nth_error rs2 i2 = Some (tb2, name, ix) -> nth_error os2 i2 = Some (Ok v2) ->
    forall f w, interp O alg (SW O W sfn) f (KN name) ix = Some w ->
      eqv (den O v1) w /\ eqv (den O v2) w.
Proof. exact L_C10_history. Qed.
Print Assumptions C10_history.

Example C10_history_example :
  let W := z_world no_faults in
  let run2 := run_all z_ops nonhermitian_alg (compile nonhermitian_alg) W 60 (init_state nonhermitian_alg W 0) in
  nth_error (fst (run2 [(TTab, "U", (0, 1, [2])); (TTab, "X", (0, 1, [1])); (TTab, "H_tilde", (1, 1, [2]))])) 2
  = nth_error (fst (run2 [(TTab, "H_tilde", (1, 1, [2]))])) 0.
Proof. vm_compute. reflexivity. Qed.

(** The generated code never deletes an element of an input series, and no request changes
    or removes an evaluated input element (physical non-mutation of the arrays: harness). *)
Theorem C10_inputs_untouched :
  forall (alg : algorithm) (inputs : list string),
  (forall x, In x inputs -> has_at x = false) ->
  (forall name body s tr,
     In (name, body) (compile alg) ->
     (In (TS (TDel s tr)) body \/ exists t b, In (TIf t b) body /\ In (TDel s tr) b) ->
     kind_of alg inputs s <> KInput)
  /\
  (forall (V : Type) (O : vops V) (eqv : V -> V -> Prop), vlaws O eqv ->
   forall (W : xworld V) (sfn : string -> list V -> index -> V),
   xw_inputs W = inputs -> world_ok O eqv alg W sfn ->
   forall fuel s tb name ix r s' x ix' v,
     reachable_inv O eqv alg W sfn s ->
     run O alg (compile alg) W fuel s (tb, name, ix) = (r, s') -> r <> OutOfFuel ->
     kind_of alg (xw_inputs W) x = KInput ->
     st_lookup s (TTab, KN x, ix') = Some (Done v) -> st_lookup s' (TTab, KN x, ix') = Some (Done v)).
Proof. exact L_C10_inputs_untouched. Qed.
Print Assumptions C10_inputs_untouched.

Example C10_inputs_untouched_example :
  regular main_alg ["H"] = true /\ (forall x, In x ["H"] -> has_at x = false).
Proof. split; [vm_compute; reflexivity | intros x [<-|[]]; reflexivity]. Qed.
