(** C06 - Implicit (incomplete eigenvectors) mode equals the explicit computation.

    The claim decomposes into three machine-checked parts and one identification that is
    exercised by the correspondence harness k_implicit but not formalised:

    (a) [C06_embedding] (this file): ANY structure-preserving map [phi] between two [BlockAlg]s
        that intertwines the scopes sends every solution of a program of the mini-language
        (in particular of the generated [main_alg] and [nonhermitian_alg]) to a solution of
        the same program in the target algebra.  The embedding of the explicit eigenbasis
        computation into the implicit one, iota(X)_ij = X_ij, iota(X)_iB = X_iB Psi_B^dagger,
        iota(X)_Bj = Psi_B X_Bj, iota(X)_BB = Psi_B X_BB Psi_B^dagger, is such a map into the
        corner algebra with unit diag(1, P) (P the complement projector);
        [C06_outputs_correspond]: together with uniqueness of the least-action unitary the
        three outputs correspond (Hermitian mode);
    (b) Props/C16_direct.v: the direct solver returns the solution in the range of the
        projector that the embedding needs;
    (c) Props/C17.v: the projector object denotes 1 - R L^dagger under every operation used.

    Not formalised (hence the suffix): that the implicit block algebra used by the code is the
    corner of a [BlockAlg] by the idempotent diag(1, P).  KPM accuracy is monitored only. *)
Require Import Ncring String List Morphisms.
From PV.Base Require Import Classes AlgLemmas.
From PV.DSL Require Import Syntax Sem Natural.
From PV.Gen Require Import Algorithms_gen.
From PV.Alg Require Import MainLift MainCorrect Equivariance.
Open Scope string_scope.

Theorem C06_embedding_partial :
  forall (T : Type) (r0 r1 : T) (add mul sub : T -> T -> T) (opp : T -> T) (req : T -> T -> Prop)
         (Ro : @Ring_ops T r0 r1 add mul sub opp req) (Rg : @Ring T r0 r1 add mul sub opp req Ro) (BA : BlockAlg T)
         (T' : Type) (r0' r1' : T') (add' mul' sub' : T' -> T' -> T') (opp' : T' -> T') (req' : T' -> T' -> Prop)
         (Ro' : @Ring_ops T' r0' r1' add' mul' sub' opp' req') (Rg' : @Ring T' r0' r1' add' mul' sub' opp' req' Ro')
         (BA' : BlockAlg T') (phi : T -> T'),
    BAHom phi ->
    forall (gflag : string -> bool) (rflag : string -> T -> T) (rflag' : string -> T' -> T')
           (fenv : string -> list T -> T) (fenv' : string -> list T' -> T'),
    (forall n x x', phi x == x' -> phi (rflag n x) == rflag' n x') ->
    (forall f l l', Forall2 (fun x y => phi x == y) l l' -> phi (fenv f l) == fenv' f l') ->
    forall (sol : string -> T) (alg : algorithm),
    solution gflag rflag fenv sol alg -> solution gflag rflag' fenv' (fun s => phi (sol s)) alg.
Proof. intros. eapply natural; eassumption. Qed.
Print Assumptions C06_embedding_partial.

Theorem C06_outputs_correspond_partial :
  forall (T : Type) (r0 r1 : T) (add mul sub : T -> T -> T) (opp : T -> T) (req : T -> T -> Prop)
         (Ro : @Ring_ops T r0 r1 add mul sub opp req) (Rg : @Ring T r0 r1 add mul sub opp req Ro) (BA : BlockAlg T)
         (T' : Type) (r0' r1' : T') (add' mul' sub' : T' -> T' -> T') (opp' : T' -> T') (req' : T' -> T' -> Prop)
         (Ro' : @Ring_ops T' r0' r1' add' mul' sub' opp' req') (Rg' : @Ring T' r0' r1' add' mul' sub' opp' req' Ro')
         (BA' : BlockAlg T') (phi : T -> T'),
    BAHom phi ->
    forall (rflag : string -> T -> T) (rflag' : string -> T' -> T')
           (fenv : string -> list T -> T) (fenv' : string -> list T' -> T'),
    (forall n x x', phi x == x' -> phi (rflag n x) == rflag' n x') ->
    (forall f l l', Forall2 (fun x y => phi x == y) l l' -> phi (fenv f l) == fenv' f l') ->
    forall (sol : string -> T) (sol' : string -> T'),
    solution (gflag_of false) rflag fenv sol main_alg ->
    solution (gflag_of false) rflag' fenv' sol' main_alg ->
    sol' "H" == phi (sol "H") ->
    wiring rflag fenv (sol "H") ->
    wiring rflag' fenv' (sol' "H") ->
    (forall x, Rp (MainLift.sylv fenv' (comm (Zc (sol' "H")) (Rp x))) == Rp x) ->
    sol' "U" == phi (sol "U") /\ sol' "U†" == phi (sol "U†") /\ sol' "H_tilde" == phi (sol "H_tilde").
Proof.
  intros. repeat split.
  - eapply equivariant_U; eassumption.
  - eapply equivariant_Ud; eassumption.
  - eapply equivariant_Ht; eassumption.
Qed.
Print Assumptions C06_outputs_correspond_partial.
