(** C06 - Implicit (incomplete eigenvectors) mode equals the explicit computation.

    The claim decomposes into three machine-checked parts and one identification that is
    exercised by the correspondence harness k_implicit but not formalised:

    (a) [C06_embedding] (this file): ANY structure-preserving map [phi] between two [BlockAlg]s
        that intertwines the scopes sends every solution of a program of the mini-language
        (in particular of the generated [main_alg] and [nonhermitian_alg]) to a solution of
        the same program in the target algebra.  The embedding of the explicit eigenbasis
        computation into the implicit one, iota(X)_ij = X_ij, iota(X)_iB = X_iB Psi_B^dagger,
        iota(X)_Bj = Psi_B X_Bj, iota(X)_BB = Psi_B X_BB Psi_B^dagger, is such a map into the
        corner algebra with unit diag(1, P) (P the complement projector);
        [C06_outputs_correspond]: together with uniqueness of the least-action unitary the
        three outputs correspond (Hermitian mode);
    (b) Props/C16_direct.v: the direct solver returns the solution in the range of the
        projector that the embedding needs;
    (c) Props/C17.v: the projector object denotes 1 - R L^dagger under every operation used.

    (d) [C06_implicit_algebra], [C06_implicit_similarity], [C06_corner_outputs_correspond]
        (Alg/Corner.v, Alg/CornerEmbed.v): the corner  e T e  of a [BlockAlg] by a self-adjoint,
        block-diagonal, order-zero idempotent e (= diag(1, P)) is again a [BlockAlg] with the same
        structure maps, product  x e y  and unit e - so the Hermitian theorems (C01, C02) hold for
        the implicit computation itself - and  phi x = J x J^dagger  for a partial isometry J
        (= diag(1, Psi_B): J^dagger J = f, J J^dagger = e) is a least-action morphism between the
        explicit corner (by f) and the implicit one, hence the three outputs correspond.

    What remains an assumption about the concrete matrices (checked numerically by k_implicit, not
    formalised): that diag(1, P) and diag(1, Psi_B) satisfy the listed equations in the algebra of
    series of matrices (they commute with the block triangles and the kept-element selection because
    the implicit block carries no mask).  KPM accuracy is monitored only. *)
Require Import Ncring String List Morphisms.
From PV.Base Require Import Classes AlgLemmas.
From PV.DSL Require Import Syntax Sem Natural.
From PV.Gen Require Import Algorithms_gen.
From PV.Alg Require Import MainLift MainCorrect Equivariance Corner CornerEmbed.
Open Scope string_scope.

Theorem C06_embedding_partial :
  forall (T : Type) (r0 r1 : T) (add mul sub : T -> T -> T) (opp : T -> T) (req : T -> T -> Prop)
         (Ro : @Ring_ops T r0 r1 add mul sub opp req) (Rg : @Ring T r0 r1 add mul sub opp req Ro) (BA : BlockAlg T)
         (T' : Type) (r0' r1' : T') (add' mul' sub' : T' -> T' -> T') (opp' : T' -> T') (req' : T' -> T' -> Prop)
         (Ro' : @Ring_ops T' r0' r1' add' mul' sub' opp' req') (Rg' : @Ring T' r0' r1' add' mul' sub' opp' req' Ro')
         (BA' : BlockAlg T') (phi : T -> T'),
    BAHom phi ->
    forall (gflag : string -> bool) (rflag : string -> T -> T) (rflag' : string -> T' -> T')
           (fenv : string -> list T -> T) (fenv' : string -> list T' -> T'),
    (forall n x x', phi x == x' -> phi (rflag n x) == rflag' n x') ->
    (forall f l l', Forall2 (fun x y => phi x == y) l l' -> phi (fenv f l) == fenv' f l') ->
    forall (sol : string -> T) (alg : algorithm),
    solution gflag rflag fenv sol alg -> solution gflag rflag' fenv' (fun s => phi (sol s)) alg.
Proof. intros. eapply natural; eassumption. Qed.
Print Assumptions C06_embedding_partial.

Theorem C06_outputs_correspond_partial :
  forall (T : Type) (r0 r1 : T) (add mul sub : T -> T -> T) (opp : T -> T) (req : T -> T -> Prop)
         (Ro : @Ring_ops T r0 r1 add mul sub opp req) (Rg : @Ring T r0 r1 add mul sub opp req Ro) (BA : BlockAlg T)
         (T' : Type) (r0' r1' : T') (add' mul' sub' : T' -> T' -> T') (opp' : T' -> T') (req' : T' -> T' -> Prop)
         (Ro' : @Ring_ops T' r0' r1' add' mul' sub' opp' req') (Rg' : @Ring T' r0' r1' add' mul' sub' opp' req' Ro')
         (BA' : BlockAlg T') (phi : T -> T'),
    BAHom phi ->
    forall (rflag : string -> T -> T) (rflag' : string -> T' -> T')
           (fenv : string -> list T -> T) (fenv' : string -> list T' -> T'),
    (forall n x x', phi x == x' -> phi (rflag n x) == rflag' n x') ->
    (forall f l l', Forall2 (fun x y => phi x == y) l l' -> phi (fenv f l) == fenv' f l') ->
    forall (sol : string -> T) (sol' : string -> T'),
    solution (gflag_of false) rflag fenv sol main_alg ->
    solution (gflag_of false) rflag' fenv' sol' main_alg ->
    sol' "H" == phi (sol "H") ->
    wiring rflag fenv (sol "H") ->
    wiring rflag' fenv' (sol' "H") ->
    (forall x, Rp (MainLift.sylv fenv' (comm (Zc (sol' "H")) (Rp x))) == Rp x) ->
    sol' "U" == phi (sol "U") /\ sol' "U†" == phi (sol "U†") /\ sol' "H_tilde" == phi (sol "H_tilde").
Proof.
  intros. repeat split.
  - eapply equivariant_U; eassumption.
  - eapply equivariant_Ud; eassumption.
  - eapply equivariant_Ht; eassumption.
Qed.
Print Assumptions C06_outputs_correspond_partial.

(** The implicit block algebra: corner by e = diag(1, P).  Same carrier and structure maps,
    product x e y, unit e, equality "equal after compression by e". *)
Theorem C06_implicit_algebra :
  forall (T : Type) (r0 r1 : T) (add mul sub : T -> T -> T) (opp : T -> T) (req : T -> T -> Prop)
         (Ro : @Ring_ops T r0 r1 add mul sub opp req) (Rg : @Ring T r0 r1 add mul sub opp req Ro) (BA : BlockAlg T)
         (e : T),
    e * e == e -> adj e == e -> Dg e == e -> Zc e == e ->
    (forall x, Up (c e x) == c e (Up x)) -> (forall x, Lo (c e x) == c e (Lo x)) ->
    (forall x, Sel (c e x) == c e (Sel x)) -> (forall x, Rw (c e x) == c e (Rw x)) ->
    exists (Rg' : @Ring T r0 e add (cmul e) sub opp (ceq e) (corner_ops e))
           (BA' : @BlockAlg T r0 e add (cmul e) sub opp (ceq e) (corner_ops e)),
      @adj _ _ _ _ _ _ _ _ _ BA' = adj /\ @Dg _ _ _ _ _ _ _ _ _ BA' = Dg /\ @Up _ _ _ _ _ _ _ _ _ BA' = Up /\
      @Lo _ _ _ _ _ _ _ _ _ BA' = Lo /\ @Sel _ _ _ _ _ _ _ _ _ BA' = Sel /\ @Zc _ _ _ _ _ _ _ _ _ BA' = Zc /\
      (forall k x, @ord _ _ _ _ _ _ _ _ _ BA' k x <-> ord k (c e x)).
Proof.
  intros T r0 r1 add mul sub opp req Ro Rg BA e h1 h2 h3 h4 h5 h6 h7 h8.
  exists (corner_ring e h1), (corner_BlockAlg e h1 h2 h3 h4 h5 h6 h7 h8).
  repeat split; auto.
Qed.
Print Assumptions C06_implicit_algebra.

(** Consequently C01 holds for the implicit computation itself: any solution of the shipped
    program in the corner satisfies the similarity statements there (products  x e y, equality
    after compression). *)
Theorem C06_implicit_similarity :
  forall (T : Type) (r0 r1 : T) (add mul sub : T -> T -> T) (opp : T -> T) (req : T -> T -> Prop)
         (Ro : @Ring_ops T r0 r1 add mul sub opp req) (Rg : @Ring T r0 r1 add mul sub opp req Ro) (BA : BlockAlg T)
         (e : T) (h1 : e * e == e) (h2 : adj e == e) (h3 : Dg e == e) (h4 : Zc e == e)
         (h5 : forall x, Up (c e x) == c e (Up x)) (h6 : forall x, Lo (c e x) == c e (Lo x))
         (h7 : forall x, Sel (c e x) == c e (Sel x)) (h8 : forall x, Rw (c e x) == c e (Rw x))
         (rflag : string -> T -> T) (fenv : string -> list T -> T) (sol : string -> T),
    @solution T r0 e add (cmul e) sub opp (ceq e) (corner_ops e) (corner_BlockAlg e h1 h2 h3 h4 h5 h6 h7 h8)
              (gflag_of false) rflag fenv sol main_alg ->
    @wiring T r0 e add (cmul e) sub opp (ceq e) (corner_ops e) (corner_BlockAlg e h1 h2 h3 h4 h5 h6 h7 h8) rflag fenv (sol "H") ->
    ceq e (Sel (cmul e (cmul e (sol "U†") (sol "H")) (sol "U"))) (sol "H_tilde") /\
    ceq e (Rp (cmul e (cmul e (sol "U†") (sol "H")) (sol "U"))) 0 /\
    ceq e (cmul e (sol "U†") (sol "U")) e /\
    ceq e (adj (sol "U")) (sol "U†").
Proof.
  intros T r0 r1 add mul sub opp req Ro Rg BA e h1 h2 h3 h4 h5 h6 h7 h8 rflag fenv sol Hs Hw.
  pose (Rg' := corner_ring e h1). pose (BA' := corner_BlockAlg e h1 h2 h3 h4 h5 h6 h7 h8).
  repeat split.
  - exact (@kept_general T r0 e add (cmul e) sub opp (ceq e) (corner_ops e) Rg' BA' rflag fenv sol Hs Hw).
  - exact (@eliminated_general T r0 e add (cmul e) sub opp (ceq e) (corner_ops e) Rg' BA' rflag fenv sol Hs Hw).
  - exact (@unitary_l_general T r0 e add (cmul e) sub opp (ceq e) (corner_ops e) Rg' BA' rflag fenv sol Hs Hw).
  - exact (@adjoint_general T r0 e add (cmul e) sub opp (ceq e) (corner_ops e) Rg' BA' rflag fenv sol Hs Hw).
Qed.
Print Assumptions C06_implicit_similarity.

(** Explicit (corner by f) versus implicit (corner by e) computation: the outputs correspond under
    phi x = J x J^dagger. *)
Theorem C06_corner_outputs_correspond :
  forall (T : Type) (r0 r1 : T) (add mul sub : T -> T -> T) (opp : T -> T) (req : T -> T -> Prop)
         (Ro : @Ring_ops T r0 r1 add mul sub opp req) (Rg : @Ring T r0 r1 add mul sub opp req Ro) (BA : BlockAlg T)
         (f e : T)
         (f1 : f * f == f) (f2 : adj f == f) (f3 : Dg f == f) (f4 : Zc f == f)
         (f5 : forall x, Up (c f x) == c f (Up x)) (f6 : forall x, Lo (c f x) == c f (Lo x))
         (f7 : forall x, Sel (c f x) == c f (Sel x)) (f8 : forall x, Rw (c f x) == c f (Rw x))
         (e1 : e * e == e) (e2 : adj e == e) (e3 : Dg e == e) (e4 : Zc e == e)
         (e5 : forall x, Up (c e x) == c e (Up x)) (e6 : forall x, Lo (c e x) == c e (Lo x))
         (e7 : forall x, Sel (c e x) == c e (Sel x)) (e8 : forall x, Rw (c e x) == c e (Rw x))
         (J : T),
    adj J * J == f -> J * adj J == e -> e * J == J -> J * f == J ->
    (forall x, Sel (phi J x) == phi J (Sel x)) ->
    forall (rflag rflag' : string -> T -> T) (fenv fenv' : string -> list T -> T) (sol sol' : string -> T),
    @solution T r0 f add (cmul f) sub opp (ceq f) (corner_ops f) (corner_BlockAlg f f1 f2 f3 f4 f5 f6 f7 f8)
              (gflag_of false) rflag fenv sol main_alg ->
    @solution T r0 e add (cmul e) sub opp (ceq e) (corner_ops e) (corner_BlockAlg e e1 e2 e3 e4 e5 e6 e7 e8)
              (gflag_of false) rflag' fenv' sol' main_alg ->
    @wiring T r0 f add (cmul f) sub opp (ceq f) (corner_ops f) (corner_BlockAlg f f1 f2 f3 f4 f5 f6 f7 f8) rflag fenv (sol "H") ->
    @wiring T r0 e add (cmul e) sub opp (ceq e) (corner_ops e) (corner_BlockAlg e e1 e2 e3 e4 e5 e6 e7 e8) rflag' fenv' (sol' "H") ->
    ceq e (sol' "H") (phi J (sol "H")) ->
    (forall x,
      ceq e (sylv fenv' ((Zc (sol' "H")) * e * (x - Sel x) - (x - Sel x) * e * (Zc (sol' "H")))
             - Sel (sylv fenv' ((Zc (sol' "H")) * e * (x - Sel x) - (x - Sel x) * e * (Zc (sol' "H")))))
            (x - Sel x)) ->
    ceq e (sol' "U") (phi J (sol "U")) /\ ceq e (sol' "U†") (phi J (sol "U†")) /\
    ceq e (sol' "H_tilde") (phi J (sol "H_tilde")).
Proof. intros. eapply corner_outputs_correspond; eassumption. Qed.
Print Assumptions C06_corner_outputs_correspond.

(** Non-vacuity of the corner hypotheses: in every [BlockAlg] they hold for e = 1 (the corner is
    then the algebra itself); the intended instance is e = diag(1, P) in an algebra of series of
    matrices, where the equations are matrix identities checked numerically by k_implicit. *)
Example C06_corner_hypotheses_satisfiable :
  forall (T : Type) (r0 r1 : T) (add mul sub : T -> T -> T) (opp : T -> T) (req : T -> T -> Prop)
         (Ro : @Ring_ops T r0 r1 add mul sub opp req) (Rg : @Ring T r0 r1 add mul sub opp req Ro) (BA : BlockAlg T),
    (1:T) * 1 == 1 /\ adj (1:T) == 1 /\ Dg (1:T) == 1 /\ Zc (1:T) == 1 /\
    (forall x, Up (c 1 x) == c 1 (Up x)) /\ (forall x, Sel (c 1 x) == c 1 (Sel x)).
Proof.
  intros. assert (C : forall x : T, c 1 x == x) by (intros x; unfold c; rewrite ring_mul_1_l, ring_mul_1_r; reflexivity).
  repeat split.
  - apply ring_mul_1_l.
  - apply adj_one.
  - apply Dg_one.
  - apply Zc_one.
  - intros x. rewrite (C (Up x)). apply am_P. apply C.
  - intros x. rewrite (C (Sel x)). apply am_P. apply C.
Qed.
