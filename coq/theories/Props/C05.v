(** C05 - Non-Hermitian: U_inv inverts U, U_inv H U = H_tilde, eliminated part zero.

    For every [BlockAlg] and every solution of the GENERATED program [nonhermitian_alg]
    (translated from /repo/pymablock/algorithms.py on every run), for symmetric and asymmetric
    masks alike ([Sel] is arbitrary):
    - [C05_inverse_l], [C05_inverse_r]: U_inv U = U U_inv = 1 as Cauchy products;
    - [C05_gauge]: U - U_inv has no kept element;
    - [C05_kept_partial], [C05_eliminated_partial]: the similarity statements, under the EXTRA
      hypothesis (last premise) that every kept matrix element connects equal unperturbed
      energies, [H_0, S x] = 0.  This hypothesis is narrower than the property: for inputs
      with a kept element connecting different energies the property is FALSE on the unchanged
      code (the X_S line of the algorithm omits [H_0, U'_S]) - known finding
      C05-kept-distinct-energies, replayed on the implementation by the check.
    The clause "on Hermitian input the outputs coincide with the Hermitian mode" is
    [C05_hermitian_coincide_partial] (same extra hypothesis), and checked by the oracle. *)
Require Import Ncring String List Morphisms.
From PV.Base Require Import Classes AlgLemmas.
From PV.DSL Require Import Syntax Sem.
From PV.Gen Require Import Algorithms_gen.
From PV.Alg Require Import NonHerm.
Open Scope string_scope.

Theorem C05_inverse_l :
  forall (T : Type) (r0 r1 : T) (add mul sub : T -> T -> T) (opp : T -> T) (req : T -> T -> Prop)
         (Ro : @Ring_ops T r0 r1 add mul sub opp req) (Rg : @Ring T r0 r1 add mul sub opp req Ro)
         (BA : BlockAlg T) (gflag : string -> bool) (rflag : string -> T -> T) (fenv : string -> list T -> T)
         (sol : string -> T),
    solution gflag rflag fenv sol nonhermitian_alg ->
    Proper (_==_ ==> _==_) (nsylv fenv) ->
    (forall k y, ord k y -> ord k (nsylv fenv y)) ->
    sol "U†" * sol "U" == 1.
Proof. intros. eapply nh_inverse_l; eassumption. Qed.
Print Assumptions C05_inverse_l.

Theorem C05_inverse_r :
  forall (T : Type) (r0 r1 : T) (add mul sub : T -> T -> T) (opp : T -> T) (req : T -> T -> Prop)
         (Ro : @Ring_ops T r0 r1 add mul sub opp req) (Rg : @Ring T r0 r1 add mul sub opp req Ro)
         (BA : BlockAlg T) (gflag : string -> bool) (rflag : string -> T -> T) (fenv : string -> list T -> T)
         (sol : string -> T),
    solution gflag rflag fenv sol nonhermitian_alg ->
    Proper (_==_ ==> _==_) (nsylv fenv) ->
    (forall k y, ord k y -> ord k (nsylv fenv y)) ->
    sol "U" * sol "U†" == 1.
Proof. intros. eapply nh_inverse_r; eassumption. Qed.
Print Assumptions C05_inverse_r.

Theorem C05_gauge :
  forall (T : Type) (r0 r1 : T) (add mul sub : T -> T -> T) (opp : T -> T) (req : T -> T -> Prop)
         (Ro : @Ring_ops T r0 r1 add mul sub opp req) (Rg : @Ring T r0 r1 add mul sub opp req Ro)
         (BA : BlockAlg T) (gflag : string -> bool) (rflag : string -> T -> T) (fenv : string -> list T -> T)
         (sol : string -> T),
    solution gflag rflag fenv sol nonhermitian_alg ->
    Proper (_==_ ==> _==_) (nsylv fenv) ->
    (forall k y, ord k y -> ord k (nsylv fenv y)) ->
    Sel (sol "U" - sol "U†") == 0.
Proof. intros. eapply nh_gauge; eassumption. Qed.
Print Assumptions C05_gauge.

Theorem C05_kept_partial :
  forall (T : Type) (r0 r1 : T) (add mul sub : T -> T -> T) (opp : T -> T) (req : T -> T -> Prop)
         (Ro : @Ring_ops T r0 r1 add mul sub opp req) (Rg : @Ring T r0 r1 add mul sub opp req Ro)
         (BA : BlockAlg T) (gflag : string -> bool) (rflag : string -> T -> T) (fenv : string -> list T -> T)
         (sol : string -> T),
    solution gflag rflag fenv sol nonhermitian_alg ->
    Proper (_==_ ==> _==_) (nsylv fenv) ->
    (forall k y, ord k y -> ord k (nsylv fenv y)) ->
    Sel (Zc (sol "H")) == Zc (sol "H") ->
    (forall x, Sel (comm (Zc (sol "H")) x) == comm (Zc (sol "H")) (Sel x)) ->
    (forall y, Rp (comm (Zc (sol "H")) (nsylv fenv y)) == Rp y) ->
    (forall x, comm (Zc (sol "H")) (Sel x) == 0) ->
    Sel (sol "U†" * sol "H" * sol "U") == sol "H_tilde".
Proof. intros. eapply nh_kept_partial; eassumption. Qed.
Print Assumptions C05_kept_partial.

Theorem C05_eliminated_partial :
  forall (T : Type) (r0 r1 : T) (add mul sub : T -> T -> T) (opp : T -> T) (req : T -> T -> Prop)
         (Ro : @Ring_ops T r0 r1 add mul sub opp req) (Rg : @Ring T r0 r1 add mul sub opp req Ro)
         (BA : BlockAlg T) (gflag : string -> bool) (rflag : string -> T -> T) (fenv : string -> list T -> T)
         (sol : string -> T),
    solution gflag rflag fenv sol nonhermitian_alg ->
    Proper (_==_ ==> _==_) (nsylv fenv) ->
    (forall k y, ord k y -> ord k (nsylv fenv y)) ->
    Sel (Zc (sol "H")) == Zc (sol "H") ->
    (forall x, Sel (comm (Zc (sol "H")) x) == comm (Zc (sol "H")) (Sel x)) ->
    (forall y, Rp (comm (Zc (sol "H")) (nsylv fenv y)) == Rp y) ->
    (forall x, comm (Zc (sol "H")) (Sel x) == 0) ->
    Rp (sol "U†" * sol "H" * sol "U") == 0.
Proof. intros. eapply nh_eliminated_partial; eassumption. Qed.
Print Assumptions C05_eliminated_partial.

(** The similarity clause is FALSE on the faithful model without the extra hypothesis: the
    tables [nh_wit_sols] (3 states, blocks {0,1} | {2}, H_0 = diag(0,1,3), order <= 2) satisfy
    every equation of the semantics of [nonhermitian_alg] ([nh_wit_check], decided by
    vm_compute on the executable reading Alg/SemExec.v) while the kept part of U_inv H U
    differs from H_tilde.  The same input fails on the implementation (known finding). *)
From PV.Alg Require Import NHRefuted.
Theorem C05_similarity_refuted : nh_wit_check = true /\ nh_wit_kept = false.
Proof. exact nh_witness. Qed.
Print Assumptions C05_similarity_refuted.

(** Last clause: on Hermitian input the three outputs coincide with those of the Hermitian mode
    - proved in the domain of validity of the similarity theorems ([H_0, S x] = 0), by
    uniqueness of the similarity transformation with this gauge (Alg/UniqueNH.v). *)
From PV.Alg Require Import MainLift MainCorrect Coincide.
Theorem C05_hermitian_coincide_partial :
  forall (T : Type) (r0 r1 : T) (add mul sub : T -> T -> T) (opp : T -> T) (req : T -> T -> Prop)
         (Ro : @Ring_ops T r0 r1 add mul sub opp req) (Rg : @Ring T r0 r1 add mul sub opp req Ro)
         (BA : BlockAlg T) (gflag : string -> bool) (rflag : string -> T -> T) (fenv : string -> list T -> T)
         (solh soln : string -> T),
    solution (gflag_of false) rflag fenv solh main_alg ->
    solution gflag rflag fenv soln nonhermitian_alg ->
    wiring rflag fenv (solh "H") ->
    soln "H" == solh "H" ->
    (forall x, comm (Zc (solh "H")) (Sel x) == 0) ->
    (forall x, Rp (MainLift.sylv fenv (comm (Zc (solh "H")) (Rp x))) == Rp x) ->
    soln "U" == solh "U" /\ soln "U†" == solh "U†" /\ soln "H_tilde" == solh "H_tilde".
Proof.
  intros. split; [|split].
  - eapply nh_coincides_U; eassumption.
  - eapply nh_coincides_U; eassumption.
  - eapply nh_coincides_Ht; eassumption.
Qed.
Print Assumptions C05_hermitian_coincide_partial.

(** End-to-end form of the tie for the unconditional clauses (Alg/Trunc.v, Alg/TruncTieNH.v): when
    the executable reading accepts the implementation's tables for [nonhermitian_alg] ([check_alg],
    evaluated by vm_compute for every k_semeq case), U_inv U = U U_inv = 1 and the gauge condition
    hold for those tables up to total order N - as a theorem. *)
From PV.Alg Require Import SemExec SemExecSound TruncTieNH.
From PV.Series Require Import Exec.
From PV.Block Require Import QLemmas QInst.
Theorem C05_tie_conclusions :
  forall (D k N : nat) (bl : list nat) (msk : list (list bool)) (cb : list bool) (El : list gq) (tb : bool)
         (sols : list (string * tser gq)),
    check_alg D k N bl msk cb El tb sols nonhermitian_alg = true ->
    let BA := BAi D k bl msk cb in
    let sol := asol D k sols in
    eqN D k N (sol "U†" * sol "U") 1 /\
    eqN D k N (sol "U" * sol "U†") 1 /\
    eqN D k N (Sel (sol "U" - sol "U†")) 0.
Proof. intros. eapply nh_tie_conclusions; eassumption. Qed.
Print Assumptions C05_tie_conclusions.

(** the hypothesis is satisfiable: the witness of [C05_similarity_refuted] passes [check_alg] *)
Example C05_tie_conclusions_applies : nh_wit_check = true.
Proof. exact (proj1 nh_witness). Qed.

(** ... and the similarity clauses inside the class where they hold: [nh_inputs_ok] (a boolean,
    evaluated by vm_compute for the k_semeq cases) says that the mask is reflexive on the basis
    states, eliminated pairs have distinct energies, the loaded H has order-zero part diag(E) and
    every KEPT pair has EQUAL energies (outside this class the property is false on the unchanged
    code: known finding C05-kept-distinct-energies). *)
Theorem C05_tie_similarity_partial :
  forall (D k N : nat) (bl : list nat) (msk : list (list bool)) (cb : list bool) (El : list gq) (tb : bool)
         (sols : list (string * tser gq)),
    check_alg D k N bl msk cb El tb sols nonhermitian_alg = true ->
    nh_inputs_ok D k N bl msk cb El sols = true ->
    let BA := BAi D k bl msk cb in
    let sol := asol D k sols in
    eqN D k N (Sel (sol "U†" * sol "H" * sol "U")) (sol "H_tilde") /\
    eqN D k N (Rp (sol "U†" * sol "H" * sol "U")) 0.
Proof. intros. eapply nh_tie_similarity; eassumption. Qed.
Print Assumptions C05_tie_similarity_partial.
