(* C16, clause "diagonal":
   "Each built-in solver returns V with H_0^(i) V - V H_0^(j) = Y on the subspace where it is
    defined: the diagonal solver for dense, sparse and symbolic right-hand sides (zero where
    energies coincide within tolerance) ..."

   Model: Front/SylvDiag.v ([sylv_diag], one function for the three branches; the closure
   [solve] with its state index_checked).  [F : Fld] is any field with conjugation and the two
   tolerance tests ([far d] = "|d| > atol", [close a b] = numpy.isclose(a, b, atol=atol), i.e.
   |a - b| <= atol + 1e-5 |b|, the shared-eigenvalue test since fix e4d96a1); Front/GaussQc.v gives
   the executable instance (Gaussian rationals) used by the correspondence harness.
   [guard F k] is the guard of branch k: [far] for Dense and Sparse, "not exactly zero" for
   Symbolic. *)

Require Import List Bool Arith ZArith.
Require Import PV.Front.GaussQc PV.Front.SylvDiag PV.Front.SylvDiagProofs.
Import ListNotations.

(* (E_a - E_b) V_ab = Y_ab where the guard holds, V_ab = 0 elsewhere; shapes preserved. *)
Theorem C16_diagonal :
  forall (F : Fld) (k : kind) (eA eB : eigs F) (Y V : mat F),
  sylv_diag F (guard F k) eA eB Y = Some V ->
  length V = length Y /\
  forall a, a < length Y ->
    length (nth a V []) = length (nth a Y []) /\
    forall b, b < length (nth a Y []) ->
      let d := ksub F (eig_at F eA a) (eig_at F eB b) in
      (guard F k d = true -> kmul F d (mget F V a b) = mget F Y a b) /\
      (guard F k d = false -> mget F V a b = k0 F).
Proof. intros F k eA eB Y V. apply sylv_diag_spec. apply guard_nz. Qed.
Print Assumptions C16_diagonal.

(* hence H0_i V - V H0_j = Y on the non-degenerate support, with H0_i = diag(E^i) and genuine
   matrix products ([fmul n] sums over n indices; nA, nB are the block sizes) *)
Theorem C16_diagonal_residual :
  forall (F : Fld) (k : kind) (eA eB : eigs F) (Y V : mat F) (nA nB : nat),
  sylv_diag F (guard F k) eA eB Y = Some V ->
  forall a b, a < length Y -> b < length (nth a Y []) -> a < nA -> b < nB ->
    guard F k (ksub F (eig_at F eA a) (eig_at F eB b)) = true ->
    ksub F (fmul F nA (fdiag F (eig_at F eA)) (mget F V) a b)
           (fmul F nB (mget F V) (fdiag F (eig_at F eB)) a b)
    = mget F Y a b.
Proof. intros F k eA eB Y V nA nB. apply sylv_diag_residual. apply guard_nz. Qed.
Print Assumptions C16_diagonal_residual.

(* V(Y^dagger) = - V(Y)^dagger for real energies, blocks i and j swapped *)
Theorem C16_diagonal_antiherm :
  forall (F : Fld) (k : kind) (eA eB : eigs F) (Y Y' V V' : mat F),
  real_eigs F eA -> real_eigs F eB ->
  length Y' = length (hd [] Y) ->
  (forall a, a < length Y -> length (nth a Y []) = length Y') ->
  (forall b, b < length Y' -> length (nth b Y' []) = length Y) ->
  (forall a b, a < length Y -> b < length Y' -> mget F Y' b a = kconj F (mget F Y a b)) ->
  sylv_diag F (guard F k) eA eB Y = Some V ->
  sylv_diag F (guard F k) eB eA Y' = Some V' ->
  forall a b, a < length Y -> b < length Y' ->
    mget F V' b a = kopp F (kconj F (mget F V a b)).
Proof. exact sylv_diag_antiherm. Qed.
Print Assumptions C16_diagonal_antiherm.

(* No division by a quantity failing the safety test (|d| <= atol; exactly 0 in the symbolic
   branch): [pdiv] would return None / the closure ODivTol.  (i) the guarded function is total;
   (ii) a closure without vecs_implicit never reports ODivTol, for any sequence of calls;
   (iii) with vecs_implicit (KPM) only a diagonal index i = j could, which is never requested. *)
Theorem C16_diagonal_nodiv :
  forall (F : Fld),
  (forall g eA eB Y, sylv_diag F g eA eB Y <> None) /\
  (forall E reqs, ~ In ODivTol (fst (run F E None [] reqs))) /\
  (forall E vimp st Y i j, Inv F E st ->
     fst (solve F E vimp st Y i j) = ODivTol -> vimp <> None /\ i = j).
Proof.
  intro F. split; [apply sylv_diag_nodiv|split].
  - intros E reqs. apply run_nodiv; [apply Inv_nil|reflexivity].
  - intros E vimp. apply solve_nodiv.
Qed.
Print Assumptions C16_diagonal_nodiv.

(* The lazily executed check "The subspaces must not share eigenvalues": in any state reached
   from a fresh closure, a call for two different blocks that share an eigenvalue with a
   right-hand side other than the sentinel zero raises ValueError and leaves the state
   unchanged (so every later use raises again). *)
Theorem C16_diagonal_shared_rejected :
  forall (F : Fld) E vimp reqs Y i j eA eB,
  let st := snd (run F E vimp [] reqs) in
  i <> j -> Y <> YZero ->
  nth_error E i = Some eA -> nth_error E j = Some eB ->
  (exists a, In a (vals F eA) /\ In a (vals F eB)) ->
  solve F E vimp st Y i j = (ORaise ValueError, st).
Proof.
  intros F E vimp reqs Y i j eA eB st. apply solve_rejects_shared.
  apply run_inv, Inv_nil.
Qed.
Print Assumptions C16_diagonal_shared_rejected.

(* ---- non-vacuity: a concrete instance (atol = 1/2, energies (0,1,1) against (1,3)) ---- *)

Definition Fx : Fld := GF (qc 1 2) eq_refl.
Definition evx (l : list G) : eigs Fx := @EVec Fx l.
Definition mx (M : list (list G)) : mat Fx := M.
Definition eAx : eigs Fx := evx [gz 0; gz 1; gz 1].
Definition eBx : eigs Fx := evx [gz 1; gz 3].
Definition Yx : mat Fx := mx [[gq 1 1 2 1; gz 3]; [gz 5; gq 0 1 1 1]; [gz 7; gz 4]].
Definition Yx' : mat Fx := mx [[gq 1 1 (-2) 1; gz 5; gz 7]; [gz 3; gq 0 1 (-1) 1; gz 4]].

Example C16_diagonal_ex :
  exists V V',
    sylv_diag Fx (guard Fx Dense) eAx eBx Yx = Some V /\
    sylv_diag Fx (guard Fx Dense) eBx eAx Yx' = Some V' /\
    mat_eqb Fx V (mx [[gq (-1) 1 (-2) 1; gz (-1)]; [gz 0; gq 0 1 (-1) 2]; [gz 0; gz (-2)]]) = true /\
    mat_eqb Fx V' (mx [[gq 1 1 (-2) 1; gz 0; gz 0]; [gz 1; gq 0 1 (-1) 2; gz 2]]) = true /\
    real_eigs Fx eAx /\ real_eigs Fx eBx.
Proof.
  destruct (sylv_diag Fx (guard Fx Dense) eAx eBx Yx) as [V|] eqn:EV;
    [|exfalso; eapply sylv_diag_nodiv; eauto].
  destruct (sylv_diag Fx (guard Fx Dense) eBx eAx Yx') as [V'|] eqn:EV';
    [|exfalso; eapply sylv_diag_nodiv; eauto].
  exists V, V'. repeat split.
  - revert EV. vm_compute. intro H; inversion H; reflexivity.
  - revert EV'. vm_compute. intro H; inversion H; reflexivity.
  - intros [|[|[|[|a]]]]; apply G_ext; vm_compute; reflexivity.
  - intros [|[|[|a]]]; apply G_ext; vm_compute; reflexivity.
Qed.

(* the closure: first use of the coupled pair (0,1) sharing the energy 1 raises, the pair
   (0,2) works, a zero right-hand side never triggers the test *)
Example C16_diagonal_closure_ex :
  let E := [eAx; eBx; evx [gz 5]] in
  outcomes_eqb Fx
    (fst (run Fx E None []
       [(YZero, (0, 1)); (YMat Dense Yx, (0, 1)); (YMat Sparse (mx [[gz 2]; [gz 4]; [gz 8]]), (0, 2));
        (YMat Symbolic Yx, (0, 1))]))
    [OZero; ORaise ValueError; OVal (mx [[gq (-2) 5 0 1]; [gz (-1)]; [gz (-2)]]); ORaise ValueError]
  = true.
Proof. vm_compute. reflexivity. Qed.
