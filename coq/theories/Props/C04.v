(* Property C04 - "Truncated effective Hamiltonian has the exact spectrum to requested order"

   For every Hermitian input and every truncation order N, the characteristic polynomial
   of the sum of lambda^n H_tilde_n over |n| <= N agrees with that of H(lambda) in all
   coefficients of total order <= N, so the eigenvalues of the effective block
   Hamiltonians agree with the exact eigenvalues of H(lambda) up to O(lambda^(N+1)).  For
   a fully diagonalized block without degeneracies the diagonal of H_tilde is the
   Rayleigh-Schrodinger eigenvalue series.

   NOT FORMALISED (recorded in the trusted base, DESIGN.md section 8): the premises of
   [C04_charpoly_trunc] - Uinv * U == 1 and Uinv * H * U == H_tilde modulo x^(N+1),
   entry-wise, for matrices whose entries are polynomials in the formal parameter - are the
   conclusions of properties C01/C02, which are proved in another development (stdlib
   Ncring, "power series whose coefficients are matrices").  The identification of a
   series of matrices with a matrix of series, which carries C01/C02 over to the premises
   used here, is not formalised.  It is exercised on the implementation by the tie
   tools/harness/k_charpoly.py (the premises are checked inside Coq on the U, U†, H_tilde
   returned by the implementation) and by the oracle tools/oracles/o_charpoly.py.

   Several perturbation parameters ("total order <= N"): all statements are over an
   arbitrary commutative ring F of coefficients; the multi-parameter clause is the instance
   F = K[c_1..c_k] with lambda_j := c_j * x (see the header of Spectrum/CharPoly.v).  No
   hypothesis narrower than the property is used, hence no _partial suffix.

   Rayleigh-Schrodinger clause: the RS eigenvalue series of a level E_i that is
   non-degenerate in H_0 is characterised as the formal power series root e(x) of
   char_poly H(x) with e(0) = E_i ([C04_rs_unique]: there is at most one modulo x^(N+1),
   for every N; [C04_rs_diag_block]: the diagonal entry of a fully diagonalised block is
   one).  That the textbook RS recursion computes this root is tested by the oracle, not
   proved. *)

From mathcomp Require Import all_ssreflect all_algebra.
From PV Require Import Spectrum.CharPoly Spectrum.CharPolyEx.
From PV Require Import Spectrum.CharPolyExec Spectrum.CharPolyExecCorrect.
Import GRing.Theory.
Local Open Scope ring_scope.

(* exact similarity, any commutative ring *)
Theorem C04_charpoly_similar (F : comRingType) (n : nat) (U Ui H : 'M[F]_n) :
  Ui *m U = 1%:M -> char_poly (Ui *m H *m U) = char_poly H.
Proof. exact: charpoly_similar. Qed.
Print Assumptions C04_charpoly_similar.

Example C04_charpoly_similar_ex :
  (exUi *m exU = 1%:M /\ exU <> 1%:M)
  /\ char_poly (exUi *m exH *m exU) = char_poly exH.
Proof.
by split; [exact: ex_similar_hyp | apply: C04_charpoly_similar; case: ex_similar_hyp].
Qed.

(* similarity modulo an arbitrary ring congruence (= modulo an ideal) *)
Theorem C04_charpoly_cong (R : comRingType) (E : ring_cong R) (n : nat)
    (U Ui H Ht : 'M[R]_n) :
  (forall i j, E ((Ui *m U) i j) ((1%:M : 'M_n) i j)) ->
  (forall i j, E ((Ui *m H *m U) i j) (Ht i j)) ->
  forall k, E (char_poly Ht)`_k (char_poly H)`_k.
Proof. exact: charpoly_cong. Qed.
Print Assumptions C04_charpoly_cong.

(* the C04 statement: one formal parameter x, everything modulo x^(N+1);
   eqN N p q := forall i <= N, p`_i = q`_i *)
Theorem C04_charpoly_trunc (F : comRingType) (N n : nat) (U Ui H Ht : 'M[{poly F}]_n) :
  (forall i j, eqN N ((Ui *m U) i j) ((1%:M : 'M_n) i j)) ->
  (forall i j, eqN N ((Ui *m H *m U) i j) (Ht i j)) ->
  forall k, eqN N (char_poly Ht)`_k (char_poly H)`_k.
Proof. exact: charpoly_trunc. Qed.
Print Assumptions C04_charpoly_trunc.

Theorem C04_charpoly_trunc_coef (F : comRingType) (N n : nat)
    (U Ui H Ht : 'M[{poly F}]_n) :
  (forall i j m, (m <= N)%N ->
     ((Ui *m U) i j)`_m = ((1%:M : 'M[{poly F}]_n) i j)`_m) ->
  (forall i j m, (m <= N)%N -> ((Ui *m H *m U) i j)`_m = (Ht i j)`_m) ->
  forall k m, (m <= N)%N -> (char_poly Ht)`_k`_m = (char_poly H)`_k`_m.
Proof. exact: charpoly_trunc_coef. Qed.
Print Assumptions C04_charpoly_trunc_coef.

(* the congruence is divisibility of the difference by 'X^(N+1) *)
Theorem C04_eqN_divisibility (F : comRingType) (N : nat) (p q : {poly F}) :
  eqN N p q <-> exists r, p = q + r * 'X^N.+1.
Proof. exact: eqNP. Qed.
Print Assumptions C04_eqN_divisibility.

(* first-order Schrieffer-Wolff of [[0,x],[x,1]] over {poly int}, N = 1: the premises hold,
   and only modulo x^2 *)
Example C04_charpoly_trunc_ex :
  [/\ forall i j, eqN 1 ((swUi *m swU) i j) ((1%:M : 'M_2) i j),
      forall i j, eqN 1 ((swUi *m swH *m swU) i j) (swHt i j),
      swUi *m swU <> 1%:M
    & forall k, eqN 1 (char_poly swHt)`_k (char_poly swH)`_k].
Proof.
split; [exact: sw_unitary | exact: sw_similar | exact: sw_not_exact |].
exact: (C04_charpoly_trunc _ _ _ _ _ _ _ sw_unitary sw_similar).
Qed.

(* block-diagonal matrices: two blocks, and any sequence of blocks *)
Theorem C04_blockdiag (R : comRingType) (n1 n2 : nat) (A : 'M[R]_n1) (B : 'M[R]_n2) :
  char_poly (block_mx A 0 0 B) = char_poly A * char_poly B.
Proof. exact: charpoly_blockdiag. Qed.
Print Assumptions C04_blockdiag.

Theorem C04_blockdiag_seq (R : comRingType) (s : seq (sqmx R)) :
  char_poly (bd_mx s) = \prod_(b <- s) char_poly (tagged b).
Proof. exact: charpoly_blockdiag_seq. Qed.
Print Assumptions C04_blockdiag_seq.

Example C04_blockdiag_ex :
  char_poly (block_mx exH 0 0 exU) = char_poly exH * char_poly exU
  /\ char_poly (bd_mx [:: Tagged _ exH; Tagged _ exU; Tagged _ exUi])
     = char_poly exH * (char_poly exU * (char_poly exUi * 1)).
Proof.
by split; [exact: C04_blockdiag | rewrite C04_blockdiag_seq !big_cons big_nil].
Qed.

(* Rayleigh-Schroedinger clause.  p ==[N] q below is coefficient-wise congruence modulo
   x^(N+1) of polynomials (in the eigenvalue variable) with coefficients in {poly F}. *)
Theorem C04_rs_roots (F : idomainType) (N n : nat) (d : 'I_n -> {poly F})
    (p : {poly {poly F}}) (i : 'I_n) :
  poly_rel (eqN_cong F N) p (\prod_j ('X - (d j)%:P)) -> eqN N p.[d i] 0.
Proof. exact: rs_roots. Qed.
Print Assumptions C04_rs_roots.

Theorem C04_rs_unique (F : idomainType) (N n : nat) (d : 'I_n -> {poly F})
    (p : {poly {poly F}}) (i : 'I_n) (e : {poly F}) :
  poly_rel (eqN_cong F N) p (\prod_j ('X - (d j)%:P)) ->
  (forall j, j != i -> (d j)`_0 != (d i)`_0) ->
  eqN N p.[e] 0 -> e`_0 = (d i)`_0 -> eqN N e (d i).
Proof. exact: rs_unique. Qed.
Print Assumptions C04_rs_unique.

Example C04_rs_unique_ex :
  [/\ poly_rel (eqN_cong _ 1) rsp (\prod_j ('X - (rsd j)%:P)),
      forall j : 'I_2, j != 0 -> (rsd j)`_0 != (rsd 0)`_0,
      eqN 1 rsp.[rse] 0, rse`_0 = (rsd 0)`_0 & rse <> rsd 0]
  /\ eqN 1 rse (rsd 0).
Proof.
have h : poly_rel (eqN_cong _ 1) rsp (\prod_j ('X - (rsd j)%:P)) by move=> k m _.
split; last exact: (C04_rs_unique _ _ _ _ _ _ _ h rs_ex_distinct rs_ex_root rs_ex_e0).
by split; [| exact: rs_ex_distinct | exact: rs_ex_root | exact: rs_ex_e0
          | exact: rs_ex_nontrivial].
Qed.

(* one simple factor split off: the general form of uniqueness *)
Theorem C04_rs_unique_factor (F : idomainType) (N : nat) (p q : {poly {poly F}})
    (d e : {poly F}) :
  poly_rel (eqN_cong F N) p (('X - d%:P) * q) ->
  eqN N p.[e] 0 -> (q.[e])`_0 != 0 -> eqN N e d.
Proof. exact: rs_unique_factor. Qed.
Print Assumptions C04_rs_unique_factor.

(* End to end: if H is similar modulo x^(N+1) to diag(d) (+) B - a fully diagonalised
   block beside an arbitrary rest - then each d_i is a root of char_poly H modulo
   x^(N+1), and the only one with constant term d_i(0) when that level is non-degenerate
   at order 0. *)
Theorem C04_rs_diag_block (F : idomainType) (N n1 n2 : nat)
    (U Ui H : 'M[{poly F}]_(n1 + n2)) (d : 'rV[{poly F}]_n1) (B : 'M[{poly F}]_n2) :
  (forall i j, eqN N ((Ui *m U) i j) ((1%:M : 'M_(n1 + n2)) i j)) ->
  (forall i j, eqN N ((Ui *m H *m U) i j) ((block_mx (diag_mx d) 0 0 B) i j)) ->
  forall i : 'I_n1,
    eqN N (char_poly H).[d 0 i] 0
    /\ forall e, eqN N (char_poly H).[e] 0 -> e`_0 = (d 0 i)`_0 ->
         (forall j, j != i -> (d 0 j)`_0 != (d 0 i)`_0) ->
         ((char_poly B).[e])`_0 != 0 ->
         eqN N e (d 0 i).
Proof. exact: rs_diag_block. Qed.
Print Assumptions C04_rs_diag_block.

Example C04_rs_diag_block_ex :
  (forall i j, eqN 1 ((swUi *m swU) i j) ((1%:M : 'M_(1 + 1)) i j))
  /\ (forall i j, eqN 1 ((swUi *m swH *m swU) i j)
        ((block_mx (diag_mx (0 : 'rV_1)) 0 0 ((1 : {poly int})%:M : 'M_1)) i j)).
Proof. by split; [exact: sw_unitary | rewrite -swHt_block; exact: sw_similar]. Qed.

(* Tie lemmas (not clauses of the property): the list-based executable definitions of
   Spectrum/CharPolyExec.v, which tools/harness/k_charpoly.py evaluates on the
   implementation's output, are correct with respect to MathComp when run with the
   operations [ROps F] of any comRingType F: [charpoly] computes [char_poly], and the
   premise checks imply the premises of [C04_charpoly_trunc] for the matrices [MX n _] of
   polynomials denoted by the lists.  The tie runs the same Gallina terms with the
   operations [Qops] of stdlib Q; that Q with Qred/Qeq_bool is such a ring is not proved. *)
Theorem C04_tie_charpoly_correct (F : comRingType) (n : nat) (M : list (list (list F))) :
  wf n M ->
  Poly (map (fun l => Poly l) (charpoly (poly_ops (ROps F)) n M)) = char_poly (MX n M).
Proof. exact: charpoly_exec_correct. Qed.
Print Assumptions C04_tie_charpoly_correct.

Theorem C04_tie_premises_sound (F : comRingType) (N n : nat)
    (U Ui H Ht : list (list (list F))) :
  wf n U -> wf n Ui -> wf n H ->
  g_prem_unitary (ROps F) N n U Ui = true ->
  g_prem_similar (ROps F) N U Ui H Ht = true ->
  (forall i j, eqN N ((MX n Ui *m MX n U) i j) ((1%:M : 'M_n) i j))
  /\ (forall i j, eqN N ((MX n Ui *m MX n H *m MX n U) i j) (MX n Ht i j)).
Proof. exact: exec_premises_sound. Qed.
Print Assumptions C04_tie_premises_sound.

Example C04_tie_ex :
  let U  : list (list (list int)) := [:: [:: [:: 1]; [:: 0; 1]]; [:: [:: 0; -1]; [:: 1]]] in
  let Ui : list (list (list int)) := [:: [:: [:: 1]; [:: 0; -1]]; [:: [:: 0; 1]; [:: 1]]] in
  let H  : list (list (list int)) := [:: [:: [::]; [:: 0; 1]]; [:: [:: 0; 1]; [:: 1]]] in
  let Ht : list (list (list int)) := [:: [:: [::]; [::]]; [:: [::]; [:: 1]]] in
  [/\ wf 2 U, wf 2 Ui & wf 2 H]
  /\ [/\ g_prem_unitary (ROps _) 1 2 U Ui = true, g_prem_similar (ROps _) 1 U Ui H Ht = true
        & g_prem_unitary (ROps _) 2 2 U Ui = false].
Proof. by split; split; vm_compute. Qed.
