(** * C08 - NumberOrderedForm arithmetic faithfully represents the operator algebra

  Property text (properties.jsonl, id C08): "For all expressions built from boson,
  fermion, spin-1/2 and ladder operators, number operators, scalars and functions of
  number operators, conversion to number-ordered form and its sum, difference,
  product, integer power, adjoint and conversion back denote the same operator as the
  original expression under the canonical (anti)commutation relations. In particular
  multiplication is associative and distributive and the adjoint reverses products."

  Model: PV.NOF.Model (executable transcription of number_ordered_form.py, tied to the
  code by tools/harness/k_nof.py).  Semantics: PV.NOF.Fock ([den ks x n] = x e_n as a
  formal linear combination of Fock basis states; [opact ks i q] = the elementary
  operator power; [lc_bind l F] = apply F to every state of l; [lc_eq] = equality of
  normalised linear combinations).

  Preconditions that appear below:
   - [sig_ok ks]   : operators ordered bosons, ladders, spins, fermions (what
                     [_validate_operators] / [find_operators] enforce);
   - [wf_nof ks x] : the term keys are distinct (Python dict), aligned with the operator
                     list, and spin/fermion powers lie in {-1,0,1}; every operation is
                     proved to preserve it, [from_expr] establishes it;
   - [bok ks n]    : spin/fermion occupations of the basis state are 0 or 1 (boson and
                     ladder occupations are arbitrary integers: all statements hold for
                     every occupation number and every power, no bound). *)
Require Import List ZArith QArith Bool.
Require Import PV.NOF.Gauss PV.NOF.Coeff PV.NOF.Fock PV.NOF.FockLemmas PV.NOF.LinComb PV.NOF.Model
  PV.NOF.NofProof PV.NOF.NofProof2 PV.NOF.C08Lemmas PV.NOF.SolveScalar PV.NOF.DaggerMul PV.NOF.FromExpr
  PV.NOF.FromExprProof PV.NOF.PowNeg PV.NOF.C08Lemmas2.
Import ListNotations.
Local Open Scope Z_scope.

(** the action of a stored term, closed form: weight * coefficient(N at the middle) and
    target state n - p (used by all proofs; shows what a term means) *)
Theorem C08_term_closed_form : forall ks t n,
  length (fst t) = length ks -> length n = length ks ->
  peq (den_term ks t n)
      (gmul (ws ks (fst t) n) (cval (snd t) (omid n (fst t))), osub n (fst t)).
Proof. exact c08_term_closed_form. Qed.
Print Assumptions C08_term_closed_form.

(** _multiply_op : [[x._multiply_op(i,q)]] = [[x]] o [[op_i^q]], all four branches *)
Theorem C08_mulop : forall ks x i q n x',
  sig_ok ks = true -> wf_nof ks x -> bok ks n ->
  multiply_op ks x i q = Ok x' ->
  lc_eq (den ks x' n) (lc_bind [opact ks i q n] (den ks x)) /\ wf_nof ks x'.
Proof. exact c08_mulop. Qed.
Print Assumptions C08_mulop.

Example C08_mulop_nonvacuous :
  exists x', multiply_op ex_ks ex_x 0 1 = Ok x' /\ ~ lc_eq (den ex_ks x' [3; -2; 1; 1; 1]) [].
Proof. exact c08_ex_mulop_nonvacuous. Qed.

(** _multiply_expr : multiplication by a function of the number operators *)
Theorem C08_mulexpr : forall ks x e n,
  sig_ok ks = true -> wf_nof ks x -> length n = length ks ->
  lc_eq (den ks (mulexpr ks x e) n) (lc_bind [fact e n] (den ks x)) /\ wf_nof ks (mulexpr ks x e).
Proof. exact c08_mulexpr. Qed.
Print Assumptions C08_mulexpr.

(** __mul__ : [[x*y]] = [[x]] o [[y]] *)
Theorem C08_mul : forall ks x y n,
  sig_ok ks = true -> wf_nof ks x -> wf_nof ks y -> bok ks n ->
  lc_eq (den ks (mul ks x y) n) (lc_bind (den ks y n) (den ks x)) /\ wf_nof ks (mul ks x y).
Proof. exact c08_mul. Qed.
Print Assumptions C08_mul.

Example C08_mul_nonvacuous :
  sig_ok ex_ks = true /\ wf_nof ex_ks ex_x /\ wf_nof ex_ks ex_y /\ bok ex_ks ex_n /\
  ~ lc_eq (den ex_ks (mul ex_ks ex_x ex_y) ex_n) [].
Proof. exact c08_ex_mul_nonvacuous. Qed.

(** __add__, __neg__ (hence __sub__) *)
Theorem C08_add : forall ks x y n,
  lc_eq (den ks (add x y) n) (den ks x n ++ den ks y n)
  /\ (wf_nof ks x -> wf_nof ks y -> wf_nof ks (add x y)).
Proof. exact c08_add. Qed.
Print Assumptions C08_add.

Theorem C08_neg : forall ks x n,
  lc_eq (den ks (neg x) n) (lc_scale (gopp g1) (den ks x n)) /\ (wf_nof ks x -> wf_nof ks (neg x)).
Proof. exact c08_neg. Qed.
Print Assumptions C08_neg.

Theorem C08_sub : forall ks x y n,
  lc_eq (den ks (sub x y) n) (den ks x n ++ lc_scale (gopp g1) (den ks y n)).
Proof. exact c08_sub. Qed.
Print Assumptions C08_sub.

(** _eval_adjoint : <x e_n, e_m> = <e_n, x† e_m> for the inner product <e_n,e_n> = prod n_boson!
    on physical states (boson occupations >= 0, spin/fermion occupations in {0,1}) *)
Theorem C08_adjoint : forall ks x n m,
  wf_nof ks x -> phys ks n -> phys ks m ->
  geq (gmul (gconj (melt ks x n m)) (mu ks m)) (gmul (melt ks (adj x) m n) (mu ks n))
  /\ wf_nof ks (adj x).
Proof. exact c08_adjoint. Qed.
Print Assumptions C08_adjoint.

Example C08_adjoint_nonvacuous :
  phys ex_ks [4; -2; 1; 1; 1] /\ phys ex_ks [5; -2; 1; 0; 1] /\
  ~ geq (melt ex_ks ex_x [4; -2; 1; 1; 1] [5; -2; 1; 0; 1]) g0 .
Proof. exact c08_ex_adjoint_nonvacuous. Qed.

(** __pow__ with a non-negative integer exponent: x**0 = 1 and x**(e+1) = x**e * x *)
Theorem C08_pow : forall ks x e n,
  sig_ok ks = true -> wf_nof ks x -> bok ks n -> 0 <= e ->
  (exists y0, pow ks x 0 = Ok y0 /\ lc_eq (den ks y0 n) [(g1, n)]) /\
  exists y y', pow ks x e = Ok y /\ pow ks x (e + 1) = Ok y' /\ wf_nof ks y /\ wf_nof ks y' /\
               lc_eq (den ks y' n) (lc_bind (den ks x n) (den ks y)).
Proof. exact c08_pow. Qed.
Print Assumptions C08_pow.

(** corollaries: associativity and distributivity of the product as operator identities *)
Theorem C08_assoc : forall ks x y z,
  sig_ok ks = true -> wf_nof ks x -> wf_nof ks y -> wf_nof ks z ->
  forall n, bok ks n -> lc_eq (den ks (mul ks (mul ks x y) z) n) (den ks (mul ks x (mul ks y z)) n).
Proof. exact c08_assoc. Qed.
Print Assumptions C08_assoc.

Theorem C08_distr_l : forall ks x y z,
  sig_ok ks = true -> wf_nof ks x -> wf_nof ks y -> wf_nof ks z ->
  forall n, bok ks n -> lc_eq (den ks (mul ks x (add y z)) n) (den ks (add (mul ks x y) (mul ks x z)) n).
Proof. exact c08_distr_l. Qed.
Print Assumptions C08_distr_l.

Theorem C08_distr_r : forall ks x y z,
  sig_ok ks = true -> wf_nof ks x -> wf_nof ks y -> wf_nof ks z ->
  forall n, bok ks n -> lc_eq (den ks (mul ks (add x y) z) n) (den ks (add (mul ks x z) (mul ks y z)) n).
Proof. exact c08_distr_r. Qed.
Print Assumptions C08_distr_r.


(** the adjoint reverses products: (x*y)† and y† * x† have the same matrix elements between all
    physical Fock states (boson occupations >= 0, spin/fermion occupations in {0,1}) *)
Theorem C08_dagger_mul : forall ks x y n m,
  sig_ok ks = true -> wf_nof ks x -> wf_nof ks y -> phys ks n -> phys ks m ->
  geq (melt ks (adj (mul ks x y)) n m) (melt ks (mul ks (adj y) (adj x)) n m).
Proof. exact dagger_mul_correct. Qed.
Print Assumptions C08_dagger_mul.
Example C08_dagger_mul_nonvacuous :
  phys ex_ks [4; -2; 1; 0; 0] /\ phys ex_ks ex_n /\
  ~ geq (melt ex_ks (adj (mul ex_ks ex_x ex_y)) [4; -2; 1; 0; 0] ex_n) g0.
Proof. exact c08_ex_dagger_mul. Qed.

(** conversion to number-ordered form: from_expr (model PV.NOF.FromExpr, sums, products, non-negative
    integer powers, Dagger, scalars, number operators, generators of the four kinds) denotes the same
    operator as the expression itself; [eden ks e] is the direct meaning of e built from the
    elementary Fock-space actions (PV.NOF.FromExpr.eden_f) *)
Theorem C08_from_expr : forall ks e x,
  sig_ok ks = true -> from_expr ks e = Ok x ->
  wf_nof ks x /\ forall n, bok ks n -> lc_eq (den ks x n) (eden ks e n).
Proof. exact from_expr_correct. Qed.
Print Assumptions C08_from_expr.
Example C08_from_expr_nonvacuous :
  exists x, from_expr ex_ks ex_e = Ok x /\ ~ lc_eq (den ex_ks x [3; -2; 1; 1; 1]) [].
Proof. exact c08_ex_from_expr. Qed.

(** conversion back: as_expr x denotes the same operator as x (every state, no well-formedness
    needed), for coefficients without reciprocals ([cpoly_nof]: the expression AST has no division) *)
Theorem C08_as_expr : forall ks x n,
  cpoly_nof x -> lc_eq (eden ks (as_expr x) n) (den ks x n).
Proof. exact as_expr_correct. Qed.
Print Assumptions C08_as_expr.

(** round trip: from_expr (as_expr x) never raises and denotes the same operator as x *)
Theorem C08_roundtrip : forall ks x,
  sig_ok ks = true -> wf_nof ks x -> cpoly_nof x ->
  exists x', from_expr ks (as_expr x) = Ok x' /\ wf_nof ks x' /\
             forall n, bok ks n -> lc_eq (den ks x' n) (den ks x n).
Proof. exact roundtrip_correct. Qed.
Print Assumptions C08_roundtrip.
Example C08_roundtrip_nonvacuous :
  wf_nof ex_ks ex_x /\ cpoly_nof ex_x /\ ~ lc_eq (den ex_ks ex_x [3; -2; 1; 1; 1]) [].
Proof. exact c08_ex_roundtrip. Qed.

(** negative integer powers: the code supports them only for particle-conserving forms (it raises
    the coefficient to the power); for a number-only form f(N) the result is the inverse of the
    positive power on every state where f does not vanish.  Other forms: ValueError / outside the
    property. *)
Theorem C08_pow_neg : forall ks f e n,
  e < 0 -> ~ geq (cval f n) g0 ->
  exists y, pow ks (hnof ks f) e = Ok y /\
            lc_eq (lc_bind (lc_pow (den ks (hnof ks f)) (Z.abs_nat e) n) (den ks y)) [(g1, n)].
Proof. exact pow_neg_correct. Qed.
Print Assumptions C08_pow_neg.
