(** The structure required of the COEFFICIENT ring of a series so that the series form a
    [BlockAlg] (Series/Lift.v): exactly the laws of [BlockAlg] that do not mention the
    filtration [ord], the order-zero coefficient [Zc] or the half-sum [hsum].
    Block/BlockSel.v proves it for D x D matrices with a block labelling and a mask. *)
Require Import Ncring Ncring_tac Setoid Morphisms ZArith.
From PV.Base Require Import Classes.
Set Implicit Arguments.

Section Defs.
Context {R : Type} `{Rg : Ring R}.

Class CoefAlg := {
  cadj : R -> R;
  cadj_am :> AddMap cadj;
  cadj_mul : forall x y, cadj (x * y) == cadj y * cadj x;
  cadj_inv : forall x, cadj (cadj x) == x;
  cadj_one : cadj 1 == 1;
  cdivz : R -> Z -> R;
  cdivz_P :> forall k, Proper (_==_ ==> _==_) (fun x => cdivz x k);
  cdivz_add : forall k x y, cdivz (x + y) k == cdivz x k + cdivz y k;
  cdivz_opp : forall k x, cdivz (- x) k == - cdivz x k;
  cdivz_spec : forall k x, k <> 0%Z -> zmul k (cdivz x k) == x;
  cDg : R -> R;  cUp : R -> R;  cLo : R -> R;
  cDg_am :> AddMap cDg;  cUp_am :> AddMap cUp;  cLo_am :> AddMap cLo;
  cblk_split : forall x, x == cDg x + cUp x + cLo x;
  cDg_Dg : forall x, cDg (cDg x) == cDg x;
  cUp_Up : forall x, cUp (cUp x) == cUp x;
  cLo_Lo : forall x, cLo (cLo x) == cLo x;
  cDg_Up : forall x, cDg (cUp x) == 0;  cDg_Lo : forall x, cDg (cLo x) == 0;
  cUp_Dg : forall x, cUp (cDg x) == 0;  cUp_Lo : forall x, cUp (cLo x) == 0;
  cLo_Dg : forall x, cLo (cDg x) == 0;  cLo_Up : forall x, cLo (cUp x) == 0;
  cDg_adj : forall x, cDg (cadj x) == cadj (cDg x);
  cUp_adj : forall x, cUp (cadj x) == cadj (cLo x);
  cLo_adj : forall x, cLo (cadj x) == cadj (cUp x);
  cDg_mul_l : forall x y, cDg (cDg x * y) == cDg x * cDg y;
  cDg_mul_r : forall x y, cDg (x * cDg y) == cDg x * cDg y;
  cDg_one : cDg 1 == 1;
  cSel : R -> R;
  cSel_am :> AddMap cSel;
  cSel_idem : forall x, cSel (cSel x) == cSel x;
  cSel_adj : forall x, cSel (cadj x) == cadj (cSel x);
  cSel_Dg : forall x, cSel (cDg x) == cSel x;
  cDg_Sel : forall x, cDg (cSel x) == cSel x;
  cRw : R -> R;
  cRw_am :> AddMap cRw;
  cRw_idem : forall x, cRw (cRw x) == cRw x;
  cRw_Dg : forall x, cDg (cRw x) == cRw (cDg x);
  cRw_Sel : forall x, cSel (cRw x) == cRw (cSel x);
  cRw_adj_Dg : forall x, cRw (cadj (cDg x)) == cadj (cRw (cDg x))
}.

End Defs.

Arguments CoefAlg R {_ _ _ _ _ _ _ _}.
