(** Executable coefficient rings: the rationals [Q] (trivial conjugation) and the Gaussian
    rationals [gq = Q * Q], as [Ncring] rings with [CStar] and [ExecScalar] structure. *)
Require Import Ncring Ncring_tac Setoid Morphisms ZArith QArith Rings_Q.
From PV.Base Require Import Classes.
From PV.Block Require Import Mat QLemmas ExecScalar.
Set Implicit Arguments.

(** * Q *)
Lemma nmul_Q n (y : Q) : nmul n y == inject_Z (Z.of_nat n) * y.
Proof.
  induction n as [|n IH].
  - symmetry. exact (q_inj_0 y).
  - cbn [nmul]. rewrite IH. symmetry. exact (q_inj_S n y).
Qed.

Lemma Q_divz_spec k (x : Q) : k <> 0%Z -> zmul k (qdivz x k) == x.
Proof.
  destruct k as [|p|p]; intros Hk; cbn [zmul].
  - now elim Hk.
  - rewrite nmul_Q. exact (qdivz_pos p x).
  - rewrite nmul_Q. exact (qdivz_neg p x).
Qed.

Global Instance Q_CStar : CStar Q := {|
  cs_comm := Qmult_comm;
  conj := fun x : Q => x;
  conj_P := fun x y H => H;
  conj_add := fun x y => Qeq_refl _;
  conj_opp := fun x => Qeq_refl _;
  conj_mul := fun x y => Qeq_refl _;
  conj_inv := fun x => Qeq_refl _;
  divz0 := qdivz;
  divz0_P := fun k x y H => @qdivz_comp k x y H;
  divz0_add := qdivz_add;
  divz0_opp := qdivz_opp;
  divz0_spec := Q_divz_spec
|}.

Global Instance Q_Exec : ExecScalar Q := {|
  eqb0 := Qeq_bool;
  eqb0_sound := Qeq_bool_sound;
  norm0 := Qred;
  norm0_eq := Qred_correct
|}.

(** * Gaussian rationals *)
Global Instance gq_ops : @Ring_ops gq gq0 gq1 gq_add gq_mul gq_sub gq_opp gq_eq := {}.

Global Instance gq_Ring : Ring (Ro := gq_ops).
Proof.
  constructor.
  - split. exact gq_eq_refl. exact gq_eq_sym. exact gq_eq_trans.
  - intros a a' Ha b b' Hb. now apply gq_add_comp.
  - intros a a' Ha b b' Hb. now apply gq_mul_comp.
  - intros a a' Ha b b' Hb. now apply gq_sub_comp.
  - intros a a' Ha. now apply gq_opp_comp.
  - exact gq_add_0_l.
  - exact gq_add_comm.
  - exact gq_add_assoc.
  - exact gq_mul_1_l.
  - exact gq_mul_1_r.
  - exact gq_mul_assoc.
  - exact gq_distr_l.
  - exact gq_distr_r.
  - exact gq_sub_def.
  - exact gq_opp_def.
Qed.

Lemma nmul_gq n (a : gq) : gq_eq (nmul (Ro := gq_ops) n a) (nmul n (fst a), nmul n (snd a)).
Proof.
  induction n as [|n IH]. split; reflexivity.
  destruct IH as [H1 H2]. cbn [fst snd] in H1, H2. cbn [nmul]. split.
  - change (Qeq (Qplus (fst a) (fst (nmul n a))) (Qplus (fst a) (nmul n (fst a)))).
    now rewrite H1.
  - change (Qeq (Qplus (snd a) (snd (nmul n a))) (Qplus (snd a) (nmul n (snd a)))).
    now rewrite H2.
Qed.

Lemma gq_divz_spec k (a : gq) : k <> 0%Z -> gq_eq (zmul (Ro := gq_ops) k (gq_divz a k)) a.
Proof.
  intros Hk. destruct a as [x y].
  assert (Hx := Q_divz_spec x Hk). assert (Hy := Q_divz_spec y Hk).
  destruct k as [|p|p]; cbn [zmul] in *.
  - now elim Hk.
  - eapply gq_eq_trans. apply nmul_gq. split; assumption.
  - eapply gq_eq_trans. apply gq_opp_comp. apply nmul_gq. split; assumption.
Qed.

Global Instance gq_CStar : CStar gq := {|
  cs_comm := gq_mul_comm;
  conj := gq_conj;
  conj_P := gq_conj_comp;
  conj_add := gq_conj_add;
  conj_opp := gq_conj_opp;
  conj_mul := gq_conj_mul;
  conj_inv := gq_conj_inv;
  divz0 := gq_divz;
  divz0_P := fun k x y H => @gq_divz_comp k x y H;
  divz0_add := gq_divz_add;
  divz0_opp := gq_divz_opp;
  divz0_spec := gq_divz_spec
|}.

Global Instance gq_Exec : ExecScalar gq := {|
  eqb0 := gq_eqb;
  eqb0_sound := gq_eqb_sound;
  norm0 := gq_norm;
  norm0_eq := gq_norm_eq
|}.
