(** Facts about rationals used by the executable scalar instances (no Ncring here). *)
Require Import QArith Lia.
Open Scope Q_scope.

Definition qdivz (x : Q) (z : Z) : Q := x / inject_Z z.

Lemma q_inj_S n y :
  inject_Z (Z.of_nat (S n)) * y == y + inject_Z (Z.of_nat n) * y.
Proof. rewrite Nat2Z.inj_succ. unfold Z.succ. rewrite inject_Z_plus. ring. Qed.

Lemma q_inj_0 y : inject_Z (Z.of_nat 0) * y == 0.
Proof. cbn. ring. Qed.

Lemma qdivz_add z x y : qdivz (x + y) z == qdivz x z + qdivz y z.
Proof. unfold qdivz, Qdiv. ring. Qed.

Lemma qdivz_opp z x : qdivz (- x) z == - qdivz x z.
Proof. unfold qdivz, Qdiv. ring. Qed.

Lemma qdivz_comp z x y : x == y -> qdivz x z == qdivz y z.
Proof. intros H. unfold qdivz. now rewrite H. Qed.

Lemma qdivz_mul z x : z <> 0%Z -> inject_Z z * qdivz x z == x.
Proof.
  intros Hz. unfold qdivz. field. intros H.
  apply Hz. unfold Qeq in H. cbn in H. lia.
Qed.

Lemma qdivz_pos p x : inject_Z (Z.of_nat (Pos.to_nat p)) * qdivz x (Zpos p) == x.
Proof. rewrite positive_nat_Z. apply qdivz_mul. discriminate. Qed.

Lemma qdivz_neg p x : - (inject_Z (Z.of_nat (Pos.to_nat p)) * qdivz x (Zneg p)) == x.
Proof.
  rewrite positive_nat_Z.
  transitivity (inject_Z (Zneg p) * qdivz x (Zneg p)).
  - change (Zneg p) with (- Zpos p)%Z. rewrite inject_Z_opp. ring.
  - apply qdivz_mul. discriminate.
Qed.

Lemma Qeq_bool_sound x y : Qeq_bool x y = true -> x == y.
Proof. apply Qeq_bool_eq. Qed.

(** Gaussian rationals as pairs (re, im) *)
Definition gq := (Q * Q)%type.
Definition gq_eq (a b : gq) : Prop := fst a == fst b /\ snd a == snd b.
Definition gq0 : gq := (0, 0).
Definition gq1 : gq := (1, 0).
Definition gq_add (a b : gq) : gq := (fst a + fst b, snd a + snd b).
Definition gq_sub (a b : gq) : gq := (fst a - fst b, snd a - snd b).
Definition gq_opp (a : gq) : gq := (- fst a, - snd a).
Definition gq_mul (a b : gq) : gq :=
  (fst a * fst b - snd a * snd b, fst a * snd b + snd a * fst b).
Definition gq_conj (a : gq) : gq := (fst a, - snd a).
Definition gq_divz (a : gq) (z : Z) : gq := (qdivz (fst a) z, qdivz (snd a) z).
Definition gq_eqb (a b : gq) : bool := Qeq_bool (fst a) (fst b) && Qeq_bool (snd a) (snd b).
Definition gq_norm (a : gq) : gq := (Qred (fst a), Qred (snd a)).

Lemma gq_eq_refl a : gq_eq a a. Proof. split; reflexivity. Qed.
Lemma gq_eq_sym a b : gq_eq a b -> gq_eq b a. Proof. intros [? ?]; split; now symmetry. Qed.
Lemma gq_eq_trans a b c : gq_eq a b -> gq_eq b c -> gq_eq a c.
Proof. intros [? ?] [? ?]; split; etransitivity; eauto. Qed.

Ltac gq_tac := unfold gq_eq, gq_add, gq_sub, gq_opp, gq_mul, gq_conj, gq0, gq1 in *;
               cbn [fst snd] in *.

Lemma gq_add_comp a a' b b' : gq_eq a a' -> gq_eq b b' -> gq_eq (gq_add a b) (gq_add a' b').
Proof. gq_tac. intros [H1 H2] [H3 H4]. rewrite H1, H2, H3, H4. split; reflexivity. Qed.
Lemma gq_sub_comp a a' b b' : gq_eq a a' -> gq_eq b b' -> gq_eq (gq_sub a b) (gq_sub a' b').
Proof. gq_tac. intros [H1 H2] [H3 H4]. rewrite H1, H2, H3, H4. split; reflexivity. Qed.
Lemma gq_mul_comp a a' b b' : gq_eq a a' -> gq_eq b b' -> gq_eq (gq_mul a b) (gq_mul a' b').
Proof. gq_tac. intros [H1 H2] [H3 H4]. rewrite H1, H2, H3, H4. split; reflexivity. Qed.
Lemma gq_opp_comp a a' : gq_eq a a' -> gq_eq (gq_opp a) (gq_opp a').
Proof. gq_tac. intros [H1 H2]. rewrite H1, H2. split; reflexivity. Qed.
Lemma gq_conj_comp a a' : gq_eq a a' -> gq_eq (gq_conj a) (gq_conj a').
Proof. gq_tac. intros [H1 H2]. rewrite H1, H2. split; reflexivity. Qed.

Lemma gq_add_0_l a : gq_eq (gq_add gq0 a) a. Proof. gq_tac. split; ring. Qed.
Lemma gq_add_comm a b : gq_eq (gq_add a b) (gq_add b a). Proof. gq_tac. split; ring. Qed.
Lemma gq_add_assoc a b c : gq_eq (gq_add a (gq_add b c)) (gq_add (gq_add a b) c).
Proof. gq_tac. split; ring. Qed.
Lemma gq_mul_1_l a : gq_eq (gq_mul gq1 a) a. Proof. gq_tac. split; ring. Qed.
Lemma gq_mul_1_r a : gq_eq (gq_mul a gq1) a. Proof. gq_tac. split; ring. Qed.
Lemma gq_mul_assoc a b c : gq_eq (gq_mul a (gq_mul b c)) (gq_mul (gq_mul a b) c).
Proof. gq_tac. split; ring. Qed.
Lemma gq_distr_l a b c : gq_eq (gq_mul (gq_add a b) c) (gq_add (gq_mul a c) (gq_mul b c)).
Proof. gq_tac. split; ring. Qed.
Lemma gq_distr_r a b c : gq_eq (gq_mul c (gq_add a b)) (gq_add (gq_mul c a) (gq_mul c b)).
Proof. gq_tac. split; ring. Qed.
Lemma gq_sub_def a b : gq_eq (gq_sub a b) (gq_add a (gq_opp b)). Proof. gq_tac. split; ring. Qed.
Lemma gq_opp_def a : gq_eq (gq_add a (gq_opp a)) gq0. Proof. gq_tac. split; ring. Qed.
Lemma gq_mul_comm a b : gq_eq (gq_mul a b) (gq_mul b a). Proof. gq_tac. split; ring. Qed.

Lemma gq_conj_add a b : gq_eq (gq_conj (gq_add a b)) (gq_add (gq_conj a) (gq_conj b)).
Proof. gq_tac. split; ring. Qed.
Lemma gq_conj_opp a : gq_eq (gq_conj (gq_opp a)) (gq_opp (gq_conj a)).
Proof. gq_tac. split; ring. Qed.
Lemma gq_conj_mul a b : gq_eq (gq_conj (gq_mul a b)) (gq_mul (gq_conj a) (gq_conj b)).
Proof. gq_tac. split; ring. Qed.
Lemma gq_conj_inv a : gq_eq (gq_conj (gq_conj a)) a. Proof. gq_tac. split; ring. Qed.

Lemma gq_divz_comp z a b : gq_eq a b -> gq_eq (gq_divz a z) (gq_divz b z).
Proof. intros [H1 H2]. split; cbn [gq_divz fst snd]; now apply qdivz_comp. Qed.
Lemma gq_divz_add z a b : gq_eq (gq_divz (gq_add a b) z) (gq_add (gq_divz a z) (gq_divz b z)).
Proof. split; cbn [gq_divz gq_add fst snd]; apply qdivz_add. Qed.
Lemma gq_divz_opp z a : gq_eq (gq_divz (gq_opp a) z) (gq_opp (gq_divz a z)).
Proof. split; cbn [gq_divz gq_opp fst snd]; apply qdivz_opp. Qed.

Lemma gq_eqb_sound a b : gq_eqb a b = true -> gq_eq a b.
Proof.
  unfold gq_eqb. intros H. apply andb_prop in H. destruct H as [H1 H2].
  split; now apply Qeq_bool_eq.
Qed.
Lemma gq_norm_eq a : gq_eq (gq_norm a) a.
Proof. split; cbn [gq_norm fst snd]; apply Qred_correct. Qed.

(** facts about the field inverse used by the Fock-space example (Series/FockExample.v) *)
Lemma q_diff_inv p q :
  p <> q ->
  (inject_Z (Z.of_nat p) - inject_Z (Z.of_nat q))
  * / (inject_Z (Z.of_nat p) - inject_Z (Z.of_nat q)) == 1.
Proof.
  intros H. apply Qmult_inv_r. intros E.
  apply H. apply Nat2Z.inj. apply (proj1 (inject_Z_injective _ _)).
  rewrite <- (Qplus_0_l (inject_Z (Z.of_nat q))), <- E. ring.
Qed.

Lemma q_inv_opp x : / (- x) == - / x.
Proof.
  destruct (Qeq_dec x 0) as [E|E].
  - rewrite E. reflexivity.
  - field. exact E.
Qed.
