(** The block / selection structure on row- and column-finite infinite matrices
    (Block/RCF.v): labelling [blk] of the countable basis by blocks, symmetric mask [keep]
    inside the diagonal blocks, per-block flag [cm].  [rcf_CoefAlg : CoefAlg (rcf R0)]. *)
Require Import Ncring Ncring_tac Setoid Morphisms List ZArith.
From PV.Base Require Import Classes BigSum.
From PV.Series Require Import MultiIndex.
From PV.Block Require Import Mat Masks CoefAlg RCFIdx RCF.
Set Implicit Arguments.

Section RCFSel.
Context {R0 : Type} `{Rg : Ring R0} {CS : CStar R0}.
Variable blk : nat -> nat.
Variable keep : nat -> nat -> bool.
Variable cm : nat -> bool.
Hypothesis keep_sym : forall p q, keep p q = keep q p.
Hypothesis keep_blk : forall p q, keep p q = true -> blk p = blk q.
Hypothesis cm_blk : forall p q, blk p = blk q -> cm p = cm q.

Notation M := (rcf R0).
Notation "A =r B" := (req A B) (at level 70).

Definition rDg : M -> M := rmask (dgm blk).
Definition rUp : M -> M := rmask (upm blk).
Definition rLo : M -> M := rmask (lom blk).
Definition rSel : M -> M := rmask keep.
Definition rRw : M -> M := rmask (rwm cm).

Ltac entry i j := intros i j; unfold rDg, rUp, rLo, rSel, rRw;
                  cbn [ent rmask radj radd rzero].

Ltac tri i j :=
  let E1 := fresh "E" in let E2 := fresh "E" in let E3 := fresh "E" in
  destruct (blk_tricho blk i j) as [(E1 & E2 & E3)|[(E1 & E2 & E3)|(E1 & E2 & E3)]];
  rewrite ?E1, ?E2, ?E3.

Lemma r_blk_split (x : M) : x =r radd (radd (rDg x) (rUp x)) (rLo x).
Proof. entry i j. tri i j; non_commutative_ring. Qed.

Lemma r_Dg_Up (x : M) : rDg (rUp x) =r rzero. Proof. entry i j. tri i j; reflexivity. Qed.
Lemma r_Dg_Lo (x : M) : rDg (rLo x) =r rzero. Proof. entry i j. tri i j; reflexivity. Qed.
Lemma r_Up_Dg (x : M) : rUp (rDg x) =r rzero. Proof. entry i j. tri i j; reflexivity. Qed.
Lemma r_Up_Lo (x : M) : rUp (rLo x) =r rzero. Proof. entry i j. tri i j; reflexivity. Qed.
Lemma r_Lo_Dg (x : M) : rLo (rDg x) =r rzero. Proof. entry i j. tri i j; reflexivity. Qed.
Lemma r_Lo_Up (x : M) : rLo (rUp x) =r rzero. Proof. entry i j. tri i j; reflexivity. Qed.

Lemma r_Dg_adj (x : M) : rDg (radj x) =r radj (rDg x).
Proof.
  entry i j. rewrite (dgm_sym blk j i). destruct (dgm blk i j). reflexivity.
  symmetry. apply conj_zero.
Qed.
Lemma r_Up_adj (x : M) : rUp (radj x) =r radj (rLo x).
Proof.
  entry i j. rewrite (upm_lom blk i j). destruct (lom blk j i). reflexivity.
  symmetry. apply conj_zero.
Qed.
Lemma r_Lo_adj (x : M) : rLo (radj x) =r radj (rUp x).
Proof.
  entry i j. rewrite (upm_lom blk j i). destruct (lom blk i j). reflexivity.
  symmetry. apply conj_zero.
Qed.

Lemma r_Dg_mul_l (x y : M) : rDg (rmul (rDg x) y) =r rmul (rDg x) (rDg y).
Proof.
  intros i j. unfold rDg. unfold rmask at 1. cbn [ent rmul]. unfold pent. cbn [rb rmask].
  destruct (dgm blk i j) eqn:E.
  - apply bigsum_ext. intros r _. cbn [ent rmask]. destruct (dgm blk i r) eqn:E1.
    + rewrite (dgm_trans_l blk i r j E1), E. reflexivity.
    + non_commutative_ring.
  - symmetry. apply bigsum_zero. intros r _. cbn [ent rmask]. destruct (dgm blk i r) eqn:E1.
    + rewrite (dgm_trans_l blk i r j E1), E. non_commutative_ring.
    + non_commutative_ring.
Qed.

Lemma r_Dg_mul_r (x y : M) : rDg (rmul x (rDg y)) =r rmul (rDg x) (rDg y).
Proof.
  intros i j. unfold rDg. unfold rmask at 1. cbn [ent rmul]. unfold pent. cbn [rb rmask].
  destruct (dgm blk i j) eqn:E.
  - apply bigsum_ext. intros r _. cbn [ent rmask]. destruct (dgm blk r j) eqn:E1.
    + rewrite (dgm_trans_r blk i r j E1), E. reflexivity.
    + non_commutative_ring.
  - symmetry. apply bigsum_zero. intros r _. cbn [ent rmask]. destruct (dgm blk r j) eqn:E1.
    + rewrite (dgm_trans_r blk i r j E1), E. non_commutative_ring.
    + non_commutative_ring.
Qed.

Lemma r_Dg_one : rDg rone =r rone.
Proof.
  entry i j. cbn [ent rone rdiag]. destruct (Nat.eqb_spec i j).
  - subst. rewrite dgm_refl. reflexivity.
  - destruct (dgm blk i j); reflexivity.
Qed.

Lemma r_Sel_adj (x : M) : rSel (radj x) =r radj (rSel x).
Proof.
  entry i j. rewrite (keep_sym j i). destruct (keep i j). reflexivity.
  symmetry. apply conj_zero.
Qed.
Lemma r_Sel_Dg (x : M) : rSel (rDg x) =r rSel x.
Proof.
  entry i j. destruct (keep i j) eqn:E; [|reflexivity].
  rewrite (keep_dgm blk keep keep_blk _ _ E). reflexivity.
Qed.
Lemma r_Dg_Sel (x : M) : rDg (rSel x) =r rSel x.
Proof.
  entry i j. destruct (keep i j) eqn:E.
  - rewrite (keep_dgm blk keep keep_blk _ _ E). reflexivity.
  - destruct (dgm blk i j); reflexivity.
Qed.

Lemma r_Rw_Dg (x : M) : rDg (rRw x) =r rRw (rDg x).
Proof. entry i j. unfold rwm. destruct (dgm blk i j), (cm i); reflexivity. Qed.
Lemma r_Rw_Sel (x : M) : rSel (rRw x) =r rRw (rSel x).
Proof. entry i j. unfold rwm. destruct (keep i j), (cm i); reflexivity. Qed.
Lemma r_Rw_adj_Dg (x : M) : rRw (radj (rDg x)) =r radj (rRw (rDg x)).
Proof.
  entry i j. unfold rwm. destruct (dgm blk j i) eqn:E.
  - rewrite (dgm_cm blk cm cm_blk _ _ E). destruct (cm i). reflexivity.
    symmetry. apply conj_zero.
  - destruct (cm i), (cm j); rewrite ?conj_zero; reflexivity.
Qed.

Global Instance rcf_CoefAlg : CoefAlg M := {|
  cadj := radj;
  cadj_am := radj_am;
  cadj_mul := radj_mul;
  cadj_inv := radj_inv;
  cadj_one := radj_one;
  cdivz := rdivz;
  cdivz_P := rdivz_P;
  cdivz_add := rdivz_add;
  cdivz_opp := rdivz_opp;
  cdivz_spec := rdivz_spec;
  cDg := rDg; cUp := rUp; cLo := rLo;
  cDg_am := rmask_am (dgm blk);
  cUp_am := rmask_am (upm blk);
  cLo_am := rmask_am (lom blk);
  cblk_split := r_blk_split;
  cDg_Dg := rmask_idem (dgm blk);
  cUp_Up := rmask_idem (upm blk);
  cLo_Lo := rmask_idem (lom blk);
  cDg_Up := r_Dg_Up; cDg_Lo := r_Dg_Lo;
  cUp_Dg := r_Up_Dg; cUp_Lo := r_Up_Lo;
  cLo_Dg := r_Lo_Dg; cLo_Up := r_Lo_Up;
  cDg_adj := r_Dg_adj; cUp_adj := r_Up_adj; cLo_adj := r_Lo_adj;
  cDg_mul_l := r_Dg_mul_l;
  cDg_mul_r := r_Dg_mul_r;
  cDg_one := r_Dg_one;
  cSel := rSel;
  cSel_am := rmask_am keep;
  cSel_idem := rmask_idem keep;
  cSel_adj := r_Sel_adj;
  cSel_Dg := r_Sel_Dg;
  cDg_Sel := r_Dg_Sel;
  cRw := rRw;
  cRw_am := rmask_am (rwm cm);
  cRw_idem := rmask_idem (rwm cm);
  cRw_Dg := r_Rw_Dg;
  cRw_Sel := r_Rw_Sel;
  cRw_adj_Dg := r_Rw_adj_Dg
|}.

End RCFSel.
