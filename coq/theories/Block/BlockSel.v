(** The block / selection structure of block_diagonalize on D x D matrices:
    a labelling [blk] of the basis states by blocks, a symmetric 0/1 mask [keep] of the
    kept matrix elements inside the diagonal blocks, and the per-block flag [cm]
    (commuting_blocks).  All projections are entry-wise masks; this file proves that the
    matrices then form a [CoefAlg]. *)
Require Import Ncring Ncring_tac Setoid Morphisms List ZArith.
From PV.Base Require Import Classes BigSum.
From PV.Series Require Import MultiIndex.
From PV.Block Require Import Mat Masks CoefAlg.
Set Implicit Arguments.

Section BlockSel.
Variable D : nat.
Context {R0 : Type} `{Rg : Ring R0} {CS : CStar R0}.
Variable blk : nat -> nat.
Variable keep : nat -> nat -> bool.
Variable cm : nat -> bool.
Hypothesis keep_sym : forall p q, keep p q = keep q p.
Hypothesis keep_refl : forall p, keep p p = true.
Hypothesis keep_blk : forall p q, keep p q = true -> blk p = blk q.
Hypothesis cm_blk : forall p q, blk p = blk q -> cm p = cm q.

Notation M := (mat D R0).
Notation "A =m B" := (meq (D := D) A B) (at level 70).

Definition mDg : M -> M := mmask (dgm blk).
Definition mUp : M -> M := mmask (upm blk).
Definition mLo : M -> M := mmask (lom blk).
Definition mSel : M -> M := mmask keep.
Definition mRw : M -> M := mmask (rwm cm).

Ltac entry i j := intros i j _ _; unfold mDg, mUp, mLo, mSel, mRw, mmask, madj, madd, mzero.

Ltac tri i j :=
  let E1 := fresh "E" in let E2 := fresh "E" in let E3 := fresh "E" in
  destruct (blk_tricho blk i j) as [(E1 & E2 & E3)|[(E1 & E2 & E3)|(E1 & E2 & E3)]];
  rewrite ?E1, ?E2, ?E3.

Lemma m_blk_split (x : M) : x =m madd (madd (mDg x) (mUp x)) (mLo x).
Proof.
  entry i j.
  tri i j; non_commutative_ring.
Qed.

Lemma m_idem m (x : M) : mmask m (mmask m x) =m mmask m x.
Proof. intros i j _ _. unfold mmask. destruct (m i j); reflexivity. Qed.

Lemma m_Dg_Up (x : M) : mDg (mUp x) =m mzero D.
Proof.
  entry i j.
  tri i j; reflexivity.
Qed.
Lemma m_Dg_Lo (x : M) : mDg (mLo x) =m mzero D.
Proof.
  entry i j.
  tri i j; reflexivity.
Qed.
Lemma m_Up_Dg (x : M) : mUp (mDg x) =m mzero D.
Proof.
  entry i j.
  tri i j; reflexivity.
Qed.
Lemma m_Up_Lo (x : M) : mUp (mLo x) =m mzero D.
Proof.
  entry i j.
  tri i j; reflexivity.
Qed.
Lemma m_Lo_Dg (x : M) : mLo (mDg x) =m mzero D.
Proof.
  entry i j.
  tri i j; reflexivity.
Qed.
Lemma m_Lo_Up (x : M) : mLo (mUp x) =m mzero D.
Proof.
  entry i j.
  tri i j; reflexivity.
Qed.

Lemma m_Dg_adj (x : M) : mDg (madj x) =m madj (mDg x).
Proof.
  entry i j. rewrite (dgm_sym blk j i). destruct (dgm blk i j). reflexivity.
  symmetry. apply conj_zero.
Qed.
Lemma m_Up_adj (x : M) : mUp (madj x) =m madj (mLo x).
Proof.
  entry i j. rewrite (upm_lom blk i j). destruct (lom blk j i). reflexivity.
  symmetry. apply conj_zero.
Qed.
Lemma m_Lo_adj (x : M) : mLo (madj x) =m madj (mUp x).
Proof.
  entry i j. rewrite (upm_lom blk j i). destruct (lom blk i j). reflexivity.
  symmetry. apply conj_zero.
Qed.

Lemma m_Dg_mul_l (x y : M) : mDg (mmul (D := D) (mDg x) y) =m mmul (D := D) (mDg x) (mDg y).
Proof.
  intros i j _ _. unfold mDg, mmask at 1. unfold mmul.
  destruct (dgm blk i j) eqn:E.
  - apply bigsum_ext. intros r _. unfold mmask. destruct (dgm blk i r) eqn:E1.
    + rewrite (dgm_trans_l blk i r j E1), E. reflexivity.
    + non_commutative_ring.
  - symmetry. apply bigsum_zero. intros r _. unfold mmask. destruct (dgm blk i r) eqn:E1.
    + rewrite (dgm_trans_l blk i r j E1), E. non_commutative_ring.
    + non_commutative_ring.
Qed.

Lemma m_Dg_mul_r (x y : M) : mDg (mmul (D := D) x (mDg y)) =m mmul (D := D) (mDg x) (mDg y).
Proof.
  intros i j _ _. unfold mDg, mmask at 1. unfold mmul.
  destruct (dgm blk i j) eqn:E.
  - apply bigsum_ext. intros r _. unfold mmask. destruct (dgm blk r j) eqn:E1.
    + rewrite (dgm_trans_r blk i r j E1), E. reflexivity.
    + non_commutative_ring.
  - symmetry. apply bigsum_zero. intros r _. unfold mmask. destruct (dgm blk r j) eqn:E1.
    + rewrite (dgm_trans_r blk i r j E1), E. non_commutative_ring.
    + non_commutative_ring.
Qed.

Lemma m_Dg_one : mDg (mone D) =m mone D.
Proof.
  entry i j. unfold mone. destruct (Nat.eqb_spec i j).
  - subst. rewrite dgm_refl. reflexivity.
  - destruct (dgm blk i j); reflexivity.
Qed.

Lemma m_Sel_adj (x : M) : mSel (madj x) =m madj (mSel x).
Proof.
  entry i j. rewrite (keep_sym j i). destruct (keep i j). reflexivity.
  symmetry. apply conj_zero.
Qed.
Lemma m_Sel_Dg (x : M) : mSel (mDg x) =m mSel x.
Proof.
  entry i j. destruct (keep i j) eqn:E; [|reflexivity].
  rewrite (keep_dgm blk keep keep_blk _ _ E). reflexivity.
Qed.
Lemma m_Dg_Sel (x : M) : mDg (mSel x) =m mSel x.
Proof.
  entry i j. destruct (keep i j) eqn:E.
  - rewrite (keep_dgm blk keep keep_blk _ _ E). reflexivity.
  - destruct (dgm blk i j); reflexivity.
Qed.

Lemma m_Rw_Dg (x : M) : mDg (mRw x) =m mRw (mDg x).
Proof. entry i j. unfold rwm. destruct (dgm blk i j), (cm i); reflexivity. Qed.
Lemma m_Rw_Sel (x : M) : mSel (mRw x) =m mRw (mSel x).
Proof. entry i j. unfold rwm. destruct (keep i j), (cm i); reflexivity. Qed.
Lemma m_Rw_adj_Dg (x : M) : mRw (madj (mDg x)) =m madj (mRw (mDg x)).
Proof.
  entry i j. unfold rwm. destruct (dgm blk j i) eqn:E.
  - rewrite (dgm_cm blk cm cm_blk _ _ E). destruct (cm i). reflexivity.
    symmetry. apply conj_zero.
  - destruct (cm i), (cm j); rewrite ?conj_zero; reflexivity.
Qed.

Global Instance mat_CoefAlg : CoefAlg M := {|
  cadj := madj (D := D);
  cadj_am := madj_am D;
  cadj_mul := madj_mul (D := D);
  cadj_inv := madj_inv (D := D);
  cadj_one := madj_one (D := D);
  cdivz := mdivz (D := D);
  cdivz_P := mdivz_P (D := D);
  cdivz_add := mdivz_add (D := D);
  cdivz_opp := mdivz_opp (D := D);
  cdivz_spec := mdivz_spec (D := D);
  cDg := mDg; cUp := mUp; cLo := mLo;
  cDg_am := mmask_am D (dgm blk);
  cUp_am := mmask_am D (upm blk);
  cLo_am := mmask_am D (lom blk);
  cblk_split := m_blk_split;
  cDg_Dg := m_idem (dgm blk);
  cUp_Up := m_idem (upm blk);
  cLo_Lo := m_idem (lom blk);
  cDg_Up := m_Dg_Up; cDg_Lo := m_Dg_Lo;
  cUp_Dg := m_Up_Dg; cUp_Lo := m_Up_Lo;
  cLo_Dg := m_Lo_Dg; cLo_Up := m_Lo_Up;
  cDg_adj := m_Dg_adj; cUp_adj := m_Up_adj; cLo_adj := m_Lo_adj;
  cDg_mul_l := m_Dg_mul_l;
  cDg_mul_r := m_Dg_mul_r;
  cDg_one := m_Dg_one;
  cSel := mSel;
  cSel_am := mmask_am D keep;
  cSel_idem := m_idem keep;
  cSel_adj := m_Sel_adj;
  cSel_Dg := m_Sel_Dg;
  cDg_Sel := m_Dg_Sel;
  cRw := mRw;
  cRw_am := mmask_am D (rwm cm);
  cRw_idem := m_idem (rwm cm);
  cRw_Dg := m_Rw_Dg;
  cRw_Sel := m_Rw_Sel;
  cRw_adj_Dg := m_Rw_adj_Dg
|}.

End BlockSel.
