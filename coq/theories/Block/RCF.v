(** Row- and column-finite infinite matrices over a ring: operators on a countable basis
    (Fock space) every row and every column of which has finitely many non-zero entries -
    every polynomial in creation / annihilation operators is one.

    [rcf R]: entries [ent : nat -> nat -> R] with a row bound [rb i] (ent i k == 0 for
    k > rb i) and a column bound [cb j].  Equality is entry-wise ==; the bounds are
    irrelevant to it.  Product: (A*B) i j = sum_{k <= rb A i} A i k * B k j.
    - functor Ring R -> Ring (rcf R);
    - conjugate transpose [radj] (swaps the bounds), entry-wise [rdivz], masks [rmask],
      diagonal operators [rdiag]. *)
Require Import Ncring Ncring_tac Setoid Morphisms List ZArith.
From PV.Base Require Import Classes BigSum.
From PV.Series Require Import MultiIndex.
From PV.Block Require Import Mat RCFIdx.
Set Implicit Arguments.

Section RCF.
Context {R : Type} `{Rg : Ring R}.

Unset Implicit Arguments.
Record rcf : Type := mk_rcf {
  ent : nat -> nat -> R;
  rb : nat -> nat;
  cb : nat -> nat;
  rb_ok : forall i k, (rb i < k)%nat -> ent i k == 0;
  cb_ok : forall j k, (cb j < k)%nat -> ent k j == 0
}.
Set Implicit Arguments.

Definition req (A B : rcf) : Prop := forall i j, ent A i j == ent B i j.

Lemma req_Equivalence : Equivalence req.
Proof.
  split.
  - intros A i j. reflexivity.
  - intros A B H i j. symmetry. apply H.
  - intros A B C H1 H2 i j. rewrite (H1 i j). apply H2.
Qed.

(** a sum over 0..m-1 whose terms vanish from n on *)
Lemma bigsum_range_extend (f : nat -> R) n m :
  (n <= m)%nat -> (forall k, (n <= k)%nat -> f k == 0) ->
  bigsum f (range m) == bigsum f (range n).
Proof.
  intros Hle Hz. rewrite (range_split Hle), bigsum_app.
  rewrite (bigsum_zero f (seq n (Nat.sub m n))).
  - non_commutative_ring.
  - intros k Hk. apply Hz. eapply in_seq_ge; eauto.
Qed.

(** ** zero, sum, opposite *)
Definition rzero : rcf.
Proof. refine (@mk_rcf (fun _ _ => 0) (fun _ => O) (fun _ => O) _ _); intros; reflexivity. Defined.

Lemma radd_rb_ok A B i k :
  (Nat.max (rb A i) (rb B i) < k)%nat -> ent A i k + ent B i k == 0.
Proof.
  intros H. rewrite (rb_ok A i k), (rb_ok B i k). non_commutative_ring.
  eapply max_lt_r; eauto. eapply max_lt_l; eauto.
Qed.
Lemma radd_cb_ok A B j k :
  (Nat.max (cb A j) (cb B j) < k)%nat -> ent A k j + ent B k j == 0.
Proof.
  intros H. rewrite (cb_ok A j k), (cb_ok B j k). non_commutative_ring.
  eapply max_lt_r; eauto. eapply max_lt_l; eauto.
Qed.
Definition radd (A B : rcf) : rcf :=
  @mk_rcf (fun i j => ent A i j + ent B i j)
          (fun i => Nat.max (rb A i) (rb B i)) (fun j => Nat.max (cb A j) (cb B j))
          (radd_rb_ok A B) (radd_cb_ok A B).

Lemma ropp_rb_ok A i k : (rb A i < k)%nat -> - ent A i k == 0.
Proof. intros H. rewrite (rb_ok A i k H). non_commutative_ring. Qed.
Lemma ropp_cb_ok A j k : (cb A j < k)%nat -> - ent A k j == 0.
Proof. intros H. rewrite (cb_ok A j k H). non_commutative_ring. Qed.
Definition ropp (A : rcf) : rcf :=
  @mk_rcf (fun i j => - ent A i j) (rb A) (cb A) (ropp_rb_ok A) (ropp_cb_ok A).

Lemma rsub_rb_ok A B i k :
  (Nat.max (rb A i) (rb B i) < k)%nat -> ent A i k - ent B i k == 0.
Proof.
  intros H. rewrite (rb_ok A i k), (rb_ok B i k). non_commutative_ring.
  eapply max_lt_r; eauto. eapply max_lt_l; eauto.
Qed.
Lemma rsub_cb_ok A B j k :
  (Nat.max (cb A j) (cb B j) < k)%nat -> ent A k j - ent B k j == 0.
Proof.
  intros H. rewrite (cb_ok A j k), (cb_ok B j k). non_commutative_ring.
  eapply max_lt_r; eauto. eapply max_lt_l; eauto.
Qed.
Definition rsub (A B : rcf) : rcf :=
  @mk_rcf (fun i j => ent A i j - ent B i j)
          (fun i => Nat.max (rb A i) (rb B i)) (fun j => Nat.max (cb A j) (cb B j))
          (rsub_rb_ok A B) (rsub_cb_ok A B).

(** ** product *)
Definition pent (A B : rcf) (i j : nat) : R :=
  bigsum (fun k => ent A i k * ent B k j) (range (S (rb A i))).

(** the sum may be taken up to any bound above the row bound of A ... *)
Lemma pent_bound A B i j N :
  (rb A i <= N)%nat ->
  bigsum (fun k => ent A i k * ent B k j) (range (S N)) == pent A B i j.
Proof.
  intros H. unfold pent. apply bigsum_range_extend. now apply S_le_S.
  intros k Hk. rewrite (rb_ok A i k). non_commutative_ring. now apply S_le_lt.
Qed.

(** ... or above the column bound of B *)
Lemma pent_bound_c A B i j N :
  (cb B j <= N)%nat ->
  bigsum (fun k => ent A i k * ent B k j) (range (S N)) == pent A B i j.
Proof.
  intros H. rewrite <- (pent_bound A B i j (le_max_r' N (rb A i))).
  symmetry. apply bigsum_range_extend. apply S_le_S, le_max_l'.
  intros k Hk. rewrite (cb_ok B j k). non_commutative_ring.
  eapply le_lt_trans'. exact H. now apply S_le_lt.
Qed.

Lemma rmul_rb_ok A B i k : (maxf (rb B) (rb A i) < k)%nat -> pent A B i k == 0.
Proof.
  intros H. unfold pent. apply bigsum_zero. intros l Hl. apply in_rangeS in Hl.
  rewrite (rb_ok B l k). non_commutative_ring. eapply maxf_lt; eauto.
Qed.
Lemma rmul_cb_ok A B j k : (maxf (cb A) (cb B j) < k)%nat -> pent A B k j == 0.
Proof.
  intros H. unfold pent. apply bigsum_zero. intros l _.
  destruct (le_or_gt l (cb B j)) as [Hl|Hl].
  - rewrite (cb_ok A l k). non_commutative_ring. eapply maxf_lt; eauto.
  - rewrite (cb_ok B j l Hl). non_commutative_ring.
Qed.
Definition rmul (A B : rcf) : rcf :=
  @mk_rcf (pent A B) (fun i => maxf (rb B) (rb A i)) (fun j => maxf (cb A) (cb B j))
          (rmul_rb_ok A B) (rmul_cb_ok A B).

(** ** diagonal operators, identity *)
Lemma rdiag_rb_ok (E : nat -> R) i k : (i < k)%nat -> (if Nat.eqb i k then E i else 0) == 0.
Proof. intros H. rewrite (lt_neqb H). reflexivity. Qed.
Lemma rdiag_cb_ok (E : nat -> R) j k : (j < k)%nat -> (if Nat.eqb k j then E k else 0) == 0.
Proof. intros H. rewrite (gt_neqb H). reflexivity. Qed.
Definition rdiag (E : nat -> R) : rcf :=
  @mk_rcf (fun i j => if Nat.eqb i j then E i else 0) (fun i => i) (fun j => j)
          (rdiag_rb_ok E) (rdiag_cb_ok E).
Definition rone : rcf := rdiag (fun _ => 1).

Lemma rmul_diag_l E A i j : ent (rmul (rdiag E) A) i j == E i * ent A i j.
Proof.
  cbn [ent rmul]. unfold pent. cbn [ent rb rdiag].
  rewrite (@bigsum_single _ _ _ _ _ _ _ _ _ _ _
             (fun k => (if Nat.eqb i k then E i else 0) * ent A k j) i).
  - rewrite Nat.eqb_refl. reflexivity.
  - apply nodup_range.
  - apply in_rangeS. apply le_n.
  - intros r _ Hne. destruct (Nat.eqb_spec i r). congruence. non_commutative_ring.
Qed.

Lemma rmul_diag_r E A i j : ent (rmul A (rdiag E)) i j == ent A i j * E j.
Proof.
  cbn [ent rmul]. unfold pent. cbn [ent rdiag].
  destruct (le_or_gt j (rb A i)) as [Hj|Hj].
  - rewrite (@bigsum_single _ _ _ _ _ _ _ _ _ _ _
               (fun k => ent A i k * (if Nat.eqb k j then E k else 0)) j).
    + rewrite Nat.eqb_refl. reflexivity.
    + apply nodup_range.
    + now apply in_rangeS.
    + intros r _ Hne. destruct (Nat.eqb_spec r j). congruence. non_commutative_ring.
  - rewrite (rb_ok A i j Hj). rewrite bigsum_zero. non_commutative_ring.
    intros k Hk. apply in_rangeS in Hk. destruct (Nat.eqb_spec k j).
    + subst. elim (lt_not_le Hj Hk).
    + non_commutative_ring.
Qed.

(** ** ring laws *)
Lemma radd_P : Proper (req ==> req ==> req) radd.
Proof. intros A A' HA B B' HB i j. cbn [ent radd]. rewrite (HA i j), (HB i j). reflexivity. Qed.
Lemma rsub_P : Proper (req ==> req ==> req) rsub.
Proof. intros A A' HA B B' HB i j. cbn [ent rsub]. rewrite (HA i j), (HB i j). reflexivity. Qed.
Lemma ropp_P : Proper (req ==> req) ropp.
Proof. intros A A' HA i j. cbn [ent ropp]. rewrite (HA i j). reflexivity. Qed.

Lemma rmul_P : Proper (req ==> req ==> req) rmul.
Proof.
  intros A A' HA B B' HB i j. cbn [ent rmul].
  rewrite <- (pent_bound A B i j (le_max_l' (rb A i) (rb A' i))).
  rewrite <- (pent_bound A' B' i j (le_max_r' (rb A i) (rb A' i))).
  apply bigsum_ext. intros k _. rewrite (HA i k), (HB k j). reflexivity.
Qed.

Lemma radd_0_l A : req (radd rzero A) A.
Proof. intros i j. cbn. non_commutative_ring. Qed.
Lemma radd_comm A B : req (radd A B) (radd B A).
Proof. intros i j. cbn [ent radd]. non_commutative_ring. Qed.
Lemma radd_assoc A B C : req (radd A (radd B C)) (radd (radd A B) C).
Proof. intros i j. cbn [ent radd]. non_commutative_ring. Qed.
Lemma rsub_def A B : req (rsub A B) (radd A (ropp B)).
Proof. intros i j. cbn [ent radd rsub ropp]. non_commutative_ring. Qed.
Lemma ropp_def A : req (radd A (ropp A)) rzero.
Proof. intros i j. cbn. non_commutative_ring. Qed.

Lemma rmul_1_l A : req (rmul rone A) A.
Proof. intros i j. unfold rone. rewrite rmul_diag_l. non_commutative_ring. Qed.
Lemma rmul_1_r A : req (rmul A rone) A.
Proof. intros i j. unfold rone. rewrite rmul_diag_r. non_commutative_ring. Qed.

Lemma rmul_assoc A B C : req (rmul A (rmul B C)) (rmul (rmul A B) C).
Proof.
  intros i j. cbn [ent rmul]. unfold pent at 1 2. cbn [ent rb rmul].
  set (M := maxf (rb B) (rb A i)).
  transitivity (bigsum (fun k => bigsum (fun l => ent A i k * ent B k l * ent C l j)
                                        (range (S M))) (range (S (rb A i)))).
  - apply bigsum_ext. intros k Hk. apply in_rangeS in Hk.
    rewrite <- (pent_bound B C k j (maxf_le (rb B) Hk)). fold M.
    rewrite bigsum_mul_l. apply bigsum_ext. intros l _. non_commutative_ring.
  - rewrite bigsum_exchange. apply bigsum_ext. intros l _. unfold pent.
    rewrite bigsum_mul_r. reflexivity.
Qed.

Lemma rmul_distr_l A B C : req (rmul (radd A B) C) (radd (rmul A C) (rmul B C)).
Proof.
  intros i j. cbn [ent rmul radd]. unfold pent at 1. cbn [ent rb radd].
  rewrite <- (pent_bound A C i j (le_max_l' (rb A i) (rb B i))).
  rewrite <- (pent_bound B C i j (le_max_r' (rb A i) (rb B i))).
  rewrite <- bigsum_add. apply bigsum_ext. intros k _. non_commutative_ring.
Qed.

Lemma rmul_distr_r A B C : req (rmul C (radd A B)) (radd (rmul C A) (rmul C B)).
Proof.
  intros i j. cbn [ent rmul radd]. unfold pent. cbn [ent radd].
  rewrite <- bigsum_add. apply bigsum_ext. intros k _. non_commutative_ring.
Qed.

Global Instance rcf_ops : @Ring_ops rcf rzero rone radd rmul rsub ropp req := {}.

Global Instance rcf_Ring : Ring (Ro := rcf_ops).
Proof.
  constructor.
  - exact req_Equivalence.
  - exact radd_P.
  - exact rmul_P.
  - exact rsub_P.
  - exact ropp_P.
  - exact radd_0_l.
  - exact radd_comm.
  - exact radd_assoc.
  - exact rmul_1_l.
  - exact rmul_1_r.
  - exact rmul_assoc.
  - exact rmul_distr_l.
  - exact rmul_distr_r.
  - exact rsub_def.
  - exact ropp_def.
Qed.

(** entries of n-fold sums and finite sums *)
Lemma rnmul_entry n (A : rcf) i j : ent (nmul n A) i j == nmul n (ent A i j).
Proof.
  induction n as [|n IH]; cbn [nmul]. reflexivity.
  change (ent (A + nmul n A) i j) with (ent A i j + ent (nmul n A) i j).
  rewrite IH. reflexivity.
Qed.

Lemma rzmul_entry k (A : rcf) i j : ent (zmul k A) i j == zmul k (ent A i j).
Proof.
  destruct k; cbn [zmul]. reflexivity. apply rnmul_entry.
  change (ent (- nmul (Pos.to_nat p) A) i j) with (- ent (nmul (Pos.to_nat p) A) i j).
  rewrite rnmul_entry. reflexivity.
Qed.

Lemma rbigsum_entry {X} (F : X -> rcf) l i j :
  ent (bigsum F l) i j == bigsum (fun a => ent (F a) i j) l.
Proof.
  induction l as [|a l IH]. reflexivity.
  rewrite !bigsum_cons.
  change (ent (F a + bigsum F l) i j) with (ent (F a) i j + ent (bigsum F l) i j).
  rewrite IH. reflexivity.
Qed.

(** ** masks *)
Lemma rmask_rb_ok (m : nat -> nat -> bool) A i k :
  (rb A i < k)%nat -> (if m i k then ent A i k else 0) == 0.
Proof. intros H. destruct (m i k). now apply rb_ok. reflexivity. Qed.
Lemma rmask_cb_ok (m : nat -> nat -> bool) A j k :
  (cb A j < k)%nat -> (if m k j then ent A k j else 0) == 0.
Proof. intros H. destruct (m k j). now apply cb_ok. reflexivity. Qed.
Definition rmask (m : nat -> nat -> bool) (A : rcf) : rcf :=
  @mk_rcf (fun i j => if m i j then ent A i j else 0) (rb A) (cb A)
          (rmask_rb_ok m A) (rmask_cb_ok m A).

Lemma rmask_P m : Proper (req ==> req) (rmask m).
Proof. intros A B H i j. cbn [ent rmask]. destruct (m i j). apply H. reflexivity. Qed.
Lemma rmask_add m A B : req (rmask m (radd A B)) (radd (rmask m A) (rmask m B)).
Proof. intros i j. cbn [ent rmask radd]. destruct (m i j); non_commutative_ring. Qed.
Lemma rmask_opp m A : req (rmask m (ropp A)) (ropp (rmask m A)).
Proof. intros i j. cbn [ent rmask ropp]. destruct (m i j); non_commutative_ring. Qed.
Global Instance rmask_am m : AddMap (rmask m).
Proof. split. exact (rmask_P m). exact (rmask_add m). exact (rmask_opp m). Qed.

Lemma rmask_idem m A : req (rmask m (rmask m A)) (rmask m A).
Proof. intros i j. cbn [ent rmask]. destruct (m i j); reflexivity. Qed.

Lemma rmask_mul_closed m1 m2 m3 A B :
  (forall i r j, m1 i r = true -> m2 r j = true -> m3 i j = true) ->
  req (rmask m3 (rmul (rmask m1 A) (rmask m2 B))) (rmul (rmask m1 A) (rmask m2 B)).
Proof.
  intros H i j. unfold rmask at 1. cbn [ent]. destruct (m3 i j) eqn:E3. reflexivity.
  symmetry. cbn [ent rmul]. unfold pent. apply bigsum_zero. intros r _.
  cbn [ent rmask]. destruct (m1 i r) eqn:E1, (m2 r j) eqn:E2; try non_commutative_ring.
  rewrite (H i r j E1 E2) in E3. discriminate.
Qed.

Lemma rmask_mul_zero m1 m2 A B :
  (forall i r j, m1 i r = true -> m2 r j = true -> False) ->
  req (rmul (rmask m1 A) (rmask m2 B)) rzero.
Proof.
  intros H i j. cbn [ent rmul]. unfold pent. apply bigsum_zero. intros r _.
  cbn [ent rmask]. destruct (m1 i r) eqn:E1, (m2 r j) eqn:E2; try non_commutative_ring.
  elim (H i r j E1 E2).
Qed.

(** ** conjugate transpose, entry-wise division *)
Context {CS : CStar R}.

Lemma radj_rb_ok A i k : (cb A i < k)%nat -> conj (ent A k i) == 0.
Proof. intros H. rewrite (cb_ok A i k H). apply conj_zero. Qed.
Lemma radj_cb_ok A j k : (rb A j < k)%nat -> conj (ent A j k) == 0.
Proof. intros H. rewrite (rb_ok A j k H). apply conj_zero. Qed.
Definition radj (A : rcf) : rcf :=
  @mk_rcf (fun i j => conj (ent A j i)) (cb A) (rb A) (radj_rb_ok A) (radj_cb_ok A).

Lemma rdivz_rb_ok A z i k : (rb A i < k)%nat -> divz0 (ent A i k) z == 0.
Proof.
  intros H. transitivity (divz0 0 z). apply divz0_P. now apply rb_ok. apply divz0_zero.
Qed.
Lemma rdivz_cb_ok A z j k : (cb A j < k)%nat -> divz0 (ent A k j) z == 0.
Proof.
  intros H. transitivity (divz0 0 z). apply divz0_P. now apply cb_ok. apply divz0_zero.
Qed.
Definition rdivz (A : rcf) (z : Z) : rcf :=
  @mk_rcf (fun i j => divz0 (ent A i j) z) (rb A) (cb A) (rdivz_rb_ok A z) (rdivz_cb_ok A z).

Lemma radj_P : Proper (req ==> req) radj.
Proof. intros A B H i j. cbn [ent radj]. rewrite (H j i). reflexivity. Qed.
Lemma radj_add A B : req (radj (radd A B)) (radd (radj A) (radj B)).
Proof. intros i j. cbn [ent radj radd]. apply conj_add. Qed.
Lemma radj_opp A : req (radj (ropp A)) (ropp (radj A)).
Proof. intros i j. cbn [ent radj ropp]. apply conj_opp. Qed.
Global Instance radj_am : AddMap radj.
Proof. split. exact radj_P. exact radj_add. exact radj_opp. Qed.

Lemma radj_mul A B : req (radj (rmul A B)) (rmul (radj B) (radj A)).
Proof.
  intros i j. cbn [ent radj rmul].
  set (N := Nat.max (rb A j) (cb B i)).
  rewrite <- (pent_bound A B j i (le_max_l' (rb A j) (cb B i))).
  assert (HB : (rb (radj B) i <= N)%nat) by (cbn [rb radj]; apply le_max_r').
  rewrite <- (pent_bound (radj B) (radj A) i j HB). fold N.
  rewrite (bigsum_morph (phi := conj) _ _ conj_zero conj_add conj_P).
  apply bigsum_ext. intros r _. cbn [ent radj]. rewrite conj_mul. apply cs_comm.
Qed.

Lemma radj_inv A : req (radj (radj A)) A.
Proof. intros i j. cbn [ent radj]. apply conj_inv. Qed.

Lemma radj_one : req (radj rone) rone.
Proof.
  intros i j. cbn [ent radj rone rdiag]. rewrite (Nat.eqb_sym j i).
  destruct (Nat.eqb i j). apply conj_one. apply conj_zero.
Qed.

Lemma rdivz_P k : Proper (req ==> req) (fun A => rdivz A k).
Proof. intros A B H i j. cbn [ent rdivz]. apply divz0_P. apply H. Qed.
Lemma rdivz_add k A B : req (rdivz (radd A B) k) (radd (rdivz A k) (rdivz B k)).
Proof. intros i j. cbn [ent rdivz radd]. apply divz0_add. Qed.
Lemma rdivz_opp k A : req (rdivz (ropp A) k) (ropp (rdivz A k)).
Proof. intros i j. cbn [ent rdivz ropp]. apply divz0_opp. Qed.
Lemma rdivz_spec k A : k <> 0%Z -> req (zmul k (rdivz A k)) A.
Proof. intros Hk i j. rewrite rzmul_entry. cbn [ent rdivz]. now apply divz0_spec. Qed.

End RCF.

Arguments rcf R {_ _ _ _ _ _ _ _}.
