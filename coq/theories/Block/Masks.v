(** Boolean masks on pairs of basis states derived from the block labelling [blk],
    the kept-elements mask [keep] and the row flag [cm].  No Ncring here. *)
Require Import Arith Bool Lia.
Set Implicit Arguments.

Section Masks.
Variable blk : nat -> nat.          (* block label of basis state p *)
Variable keep : nat -> nat -> bool. (* kept matrix elements (inside diagonal blocks) *)
Variable cm : nat -> bool.          (* commuting_blocks flag of the block of p *)

Definition dgm (p q : nat) : bool := Nat.eqb (blk p) (blk q).
Definition upm (p q : nat) : bool := Nat.ltb (blk p) (blk q).
Definition lom (p q : nat) : bool := Nat.ltb (blk q) (blk p).
Definition rwm (p q : nat) : bool := cm p.

Lemma blk_tricho p q :
  (dgm p q = true /\ upm p q = false /\ lom p q = false) \/
  (dgm p q = false /\ upm p q = true /\ lom p q = false) \/
  (dgm p q = false /\ upm p q = false /\ lom p q = true).
Proof.
  unfold dgm, upm, lom.
  destruct (Nat.eqb_spec (blk p) (blk q)), (Nat.ltb_spec (blk p) (blk q)),
    (Nat.ltb_spec (blk q) (blk p)); try lia; tauto.
Qed.

Lemma dgm_refl p : dgm p p = true.
Proof. apply Nat.eqb_refl. Qed.

Lemma dgm_sym p q : dgm p q = dgm q p.
Proof. apply Nat.eqb_sym. Qed.

Lemma dgm_trans_l p r q : dgm p r = true -> dgm r q = dgm p q.
Proof. unfold dgm. intros H. apply Nat.eqb_eq in H. now rewrite H. Qed.

Lemma dgm_trans_r p r q : dgm r q = true -> dgm p r = dgm p q.
Proof. unfold dgm. intros H. apply Nat.eqb_eq in H. now rewrite H. Qed.

Lemma upm_lom p q : upm p q = lom q p.
Proof. reflexivity. Qed.

(** composition of the block masks (products of block-triangular parts) *)
Lemma dgm_dgm p r q : dgm p r = true -> dgm r q = true -> dgm p q = true.
Proof. unfold dgm. rewrite !Nat.eqb_eq. congruence. Qed.
Lemma dgm_upm p r q : dgm p r = true -> upm r q = true -> upm p q = true.
Proof. unfold dgm, upm. rewrite Nat.eqb_eq, !Nat.ltb_lt. lia. Qed.
Lemma upm_dgm p r q : upm p r = true -> dgm r q = true -> upm p q = true.
Proof. unfold dgm, upm. rewrite Nat.eqb_eq, !Nat.ltb_lt. lia. Qed.
Lemma dgm_lom p r q : dgm p r = true -> lom r q = true -> lom p q = true.
Proof. unfold dgm, lom. rewrite Nat.eqb_eq, !Nat.ltb_lt. lia. Qed.
Lemma lom_dgm p r q : lom p r = true -> dgm r q = true -> lom p q = true.
Proof. unfold dgm, lom. rewrite Nat.eqb_eq, !Nat.ltb_lt. lia. Qed.

(** with exactly two blocks *)
Section TwoBlocks.
Variable D : nat.
Hypothesis two_blocks : forall p, p < D -> blk p < 2.
Lemma upm_upm2 p r q : p < D -> r < D -> q < D -> upm p r = true -> upm r q = true -> False.
Proof.
  intros Hp Hr Hq. unfold upm. rewrite !Nat.ltb_lt.
  pose proof (two_blocks Hp). pose proof (two_blocks Hr). pose proof (two_blocks Hq). lia.
Qed.
Lemma lom_lom2 p r q : p < D -> r < D -> q < D -> lom p r = true -> lom r q = true -> False.
Proof.
  intros Hp Hr Hq. unfold lom. rewrite !Nat.ltb_lt.
  pose proof (two_blocks Hp). pose proof (two_blocks Hr). pose proof (two_blocks Hq). lia.
Qed.
Lemma upm_lom2 p r q :
  p < D -> r < D -> q < D -> upm p r = true -> lom r q = true -> dgm p q = true.
Proof.
  intros Hp Hr Hq. unfold upm, lom, dgm. rewrite !Nat.ltb_lt, Nat.eqb_eq.
  pose proof (two_blocks Hp). pose proof (two_blocks Hr). pose proof (two_blocks Hq). lia.
Qed.
Lemma lom_upm2 p r q :
  p < D -> r < D -> q < D -> lom p r = true -> upm r q = true -> dgm p q = true.
Proof.
  intros Hp Hr Hq. unfold upm, lom, dgm. rewrite !Nat.ltb_lt, Nat.eqb_eq.
  pose proof (two_blocks Hp). pose proof (two_blocks Hr). pose proof (two_blocks Hq). lia.
Qed.
End TwoBlocks.

Hypothesis keep_sym : forall p q, keep p q = keep q p.
Hypothesis keep_refl : forall p, keep p p = true.
Hypothesis keep_blk : forall p q, keep p q = true -> blk p = blk q.
Hypothesis cm_blk : forall p q, blk p = blk q -> cm p = cm q.

Lemma keep_dgm p q : keep p q = true -> dgm p q = true.
Proof. intros H. apply Nat.eqb_eq. now apply keep_blk. Qed.

Lemma keep_and_dgm p q : keep p q && dgm p q = keep p q.
Proof. destruct (keep p q) eqn:E; auto. now rewrite (@keep_dgm p q E). Qed.

Lemma dgm_cm p q : dgm p q = true -> cm p = cm q.
Proof. intros H. apply cm_blk. now apply Nat.eqb_eq. Qed.

End Masks.

(** * The "euclidean" condition on the kept mask on commuting rows, and the three wirings
      of block_diagonalize under which it holds *)
Definition keep_eucl_on (D : nat) (keep : nat -> nat -> bool) (cm : nat -> bool) : Prop :=
  forall p q r, p < D -> q < D -> r < D ->
                cm p = true -> keep p q = true -> keep r q = true -> keep p r = true.

(** (a) no scope function: everything inside the diagonal blocks is kept *)
Lemma keep_eucl_blocks D (blk : nat -> nat) cm :
  keep_eucl_on D (fun p q => Nat.eqb (blk p) (blk q)) cm.
Proof.
  intros p q r _ _ _ _. rewrite !Nat.eqb_eq. congruence.
Qed.

(** (b) the kept mask is an equivalence relation (symmetric and transitive) *)
Lemma keep_eucl_equiv D (keep : nat -> nat -> bool) cm :
  (forall p q, keep p q = keep q p) ->
  (forall p q r, keep p q = true -> keep q r = true -> keep p r = true) ->
  keep_eucl_on D keep cm.
Proof.
  intros Hs Ht p q r _ _ _ _ H1 H2. apply (Ht p q r H1). now rewrite Hs.
Qed.

(** (c) arbitrary mask on the blocks whose flag is off, whole block kept where it is on *)
Lemma keep_eucl_flagged D (blk : nat -> nat) (keep : nat -> nat -> bool) cm :
  (forall p q, keep p q = true -> blk p = blk q) ->
  (forall p q, cm p = true -> keep p q = Nat.eqb (blk p) (blk q)) ->
  keep_eucl_on D keep cm.
Proof.
  intros Hb Hc p q r _ _ _ C H1 H2. rewrite (Hc p r C). apply Nat.eqb_eq.
  rewrite (Hb _ _ H1), (Hb _ _ H2). reflexivity.
Qed.
