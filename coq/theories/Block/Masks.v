(** Boolean masks on pairs of basis states derived from the block labelling [blk],
    the kept-elements mask [keep] and the row flag [cm].  No Ncring here. *)
Require Import Arith Bool Lia.
Set Implicit Arguments.

Section Masks.
Variable blk : nat -> nat.          (* block label of basis state p *)
Variable keep : nat -> nat -> bool. (* kept matrix elements (inside diagonal blocks) *)
Variable cm : nat -> bool.          (* commuting_blocks flag of the block of p *)

Definition dgm (p q : nat) : bool := Nat.eqb (blk p) (blk q).
Definition upm (p q : nat) : bool := Nat.ltb (blk p) (blk q).
Definition lom (p q : nat) : bool := Nat.ltb (blk q) (blk p).
Definition rwm (p q : nat) : bool := cm p.

Lemma blk_tricho p q :
  (dgm p q = true /\ upm p q = false /\ lom p q = false) \/
  (dgm p q = false /\ upm p q = true /\ lom p q = false) \/
  (dgm p q = false /\ upm p q = false /\ lom p q = true).
Proof.
  unfold dgm, upm, lom.
  destruct (Nat.eqb_spec (blk p) (blk q)), (Nat.ltb_spec (blk p) (blk q)),
    (Nat.ltb_spec (blk q) (blk p)); try lia; tauto.
Qed.

Lemma dgm_refl p : dgm p p = true.
Proof. apply Nat.eqb_refl. Qed.

Lemma dgm_sym p q : dgm p q = dgm q p.
Proof. apply Nat.eqb_sym. Qed.

Lemma dgm_trans_l p r q : dgm p r = true -> dgm r q = dgm p q.
Proof. unfold dgm. intros H. apply Nat.eqb_eq in H. now rewrite H. Qed.

Lemma dgm_trans_r p r q : dgm r q = true -> dgm p r = dgm p q.
Proof. unfold dgm. intros H. apply Nat.eqb_eq in H. now rewrite H. Qed.

Lemma upm_lom p q : upm p q = lom q p.
Proof. reflexivity. Qed.

Hypothesis keep_sym : forall p q, keep p q = keep q p.
Hypothesis keep_refl : forall p, keep p p = true.
Hypothesis keep_blk : forall p q, keep p q = true -> blk p = blk q.
Hypothesis cm_blk : forall p q, blk p = blk q -> cm p = cm q.

Lemma keep_dgm p q : keep p q = true -> dgm p q = true.
Proof. intros H. apply Nat.eqb_eq. now apply keep_blk. Qed.

Lemma keep_and_dgm p q : keep p q && dgm p q = keep p q.
Proof. destruct (keep p q) eqn:E; auto. now rewrite (@keep_dgm p q E). Qed.

Lemma dgm_cm p q : dgm p q = true -> cm p = cm q.
Proof. intros H. apply cm_blk. now apply Nat.eqb_eq. Qed.

End Masks.
