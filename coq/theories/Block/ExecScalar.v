(** Executable scalars: a [CStar] ring with a sound boolean equality test and a
    normalisation function (identity up to ==), used by Series/Exec.v. *)
Require Import Ncring Ncring_tac Setoid Morphisms ZArith.
From PV.Base Require Import Classes.
From PV.Block Require Import Mat.
Set Implicit Arguments.

Section Defs.
Context {R : Type} `{Rg : Ring R} {CS : CStar R}.
Class ExecScalar := {
  eqb0 : R -> R -> bool;
  eqb0_sound : forall x y, eqb0 x y = true -> x == y;
  norm0 : R -> R;
  norm0_eq : forall x, norm0 x == x
}.
End Defs.
Arguments ExecScalar R {_ _ _ _ _ _ _ _}.
