(** Index arithmetic for row- and column-finite infinite matrices (Block/RCF.v).
    No Ncring here. *)
Require Import List Arith Lia Bool.
From PV.Series Require Import MultiIndex.
Import ListNotations.
Set Implicit Arguments.

(** max of f over 0..n *)
Fixpoint maxf (f : nat -> nat) (n : nat) : nat :=
  match n with 0 => f 0 | S n' => Nat.max (f (S n')) (maxf f n') end.

Lemma maxf_le f n k : k <= n -> f k <= maxf f n.
Proof.
  induction n as [|n IH]; intros H; cbn [maxf].
  - assert (k = 0) by lia. subst. lia.
  - destruct (Nat.eq_dec k (S n)) as [->|Hne]. lia.
    assert (f k <= maxf f n) by (apply IH; lia). lia.
Qed.

Lemma maxf_lt f n k l : l <= n -> maxf f n < k -> f l < k.
Proof. intros H1 H2. pose proof (maxf_le f H1). lia. Qed.

Lemma in_rangeS n k : In k (range (S n)) <-> k <= n.
Proof. rewrite in_range. lia. Qed.

Lemma range_split n m : n <= m -> range m = range n ++ seq n (m - n).
Proof.
  intros H. unfold range. replace m with (n + (m - n)) at 1 by lia.
  rewrite seq_app. reflexivity.
Qed.

Lemma in_seq_ge n l k : In k (seq n l) -> n <= k.
Proof. rewrite in_seq. lia. Qed.

Lemma lt_neqb i k : i < k -> Nat.eqb i k = false.
Proof. intros H. apply Nat.eqb_neq. lia. Qed.
Lemma gt_neqb i k : i < k -> Nat.eqb k i = false.
Proof. intros H. apply Nat.eqb_neq. lia. Qed.

Lemma max_lt_l a b k : Nat.max a b < k -> a < k. Proof. lia. Qed.
Lemma max_lt_r a b k : Nat.max a b < k -> b < k. Proof. lia. Qed.
Lemma le_max_l' a b : a <= Nat.max a b. Proof. lia. Qed.
Lemma le_max_r' a b : b <= Nat.max a b. Proof. lia. Qed.
Lemma S_le_S a b : a <= b -> S a <= S b. Proof. lia. Qed.
Lemma S_le_lt a k : S a <= k -> a < k. Proof. lia. Qed.
Lemma le_or_gt a b : a <= b \/ b < a. Proof. lia. Qed.
Lemma le_lt_trans' a b c : a <= b -> b < c -> a < c. Proof. lia. Qed.
Lemma lt_not_le a b : a < b -> b <= a -> False. Proof. lia. Qed.
