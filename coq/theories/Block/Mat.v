(** D x D matrices over a ring, as functions [nat -> nat -> R] compared on indices < D.

    - [CStar]: the coefficient ring of the matrices: a commutative [Ncring] ring with a
      star (involutive ring automorphism [conj]) and division by non-zero integer literals.
    - functor  Ring R -> Ring (mat D R);
    - conjugate transpose [madj] and its laws (needs [CStar]);
    - entry-wise division by integer literals. *)
Require Import Ncring Ncring_tac Setoid Morphisms List ZArith.
From PV.Base Require Import Classes BigSum.
From PV.Series Require Import MultiIndex.
Set Implicit Arguments.

(** * coefficient rings *)
Section StarRing.
Context {R : Type} `{Rg : Ring R}.

Class CStar := {
  cs_comm : forall x y : R, x * y == y * x;
  conj : R -> R;
  conj_P :> Proper (_==_ ==> _==_) conj;
  conj_add : forall x y, conj (x + y) == conj x + conj y;
  conj_opp : forall x, conj (- x) == - conj x;
  conj_mul : forall x y, conj (x * y) == conj x * conj y;
  conj_inv : forall x, conj (conj x) == x;
  divz0 : R -> Z -> R;
  divz0_P :> forall k, Proper (_==_ ==> _==_) (fun x => divz0 x k);
  divz0_add : forall k x y, divz0 (x + y) k == divz0 x k + divz0 y k;
  divz0_opp : forall k x, divz0 (- x) k == - divz0 x k;
  divz0_spec : forall k x, k <> 0%Z -> zmul k (divz0 x k) == x
}.

Context {CS : CStar}.

Lemma conj_zero : conj 0 == 0.
Proof. apply additive_zero. exact conj_add. exact conj_P. Qed.

Lemma conj_one : conj 1 == 1.
Proof.
  transitivity (conj (1 * conj 1)).
  - rewrite conj_mul, conj_inv. non_commutative_ring.
  - transitivity (conj (conj 1)). apply conj_P. non_commutative_ring. apply conj_inv.
Qed.

Lemma conj_sub x y : conj (x - y) == conj x - conj y.
Proof.
  transitivity (conj (x + - y)). apply conj_P; non_commutative_ring.
  rewrite conj_add, conj_opp. non_commutative_ring.
Qed.

Lemma divz0_zero k : divz0 0 k == 0.
Proof.
  apply (additive_zero (phi := fun x => divz0 x k)). exact (divz0_add k). exact (divz0_P k).
Qed.

End StarRing.

Arguments CStar R {_ _ _ _ _ _ _ _}.

(** * matrices *)
Definition mat (D : nat) (R : Type) : Type := nat -> nat -> R.

Section Mat.
Variable D : nat.
Context {R : Type} `{Rg : Ring R}.
Notation M := (mat D R).

Definition meq (A B : M) : Prop :=
  forall i j, (i < D)%nat -> (j < D)%nat -> A i j == B i j.
Definition mzero : M := fun _ _ => 0.
Definition mone : M := fun i j => if Nat.eqb i j then 1 else 0.
Definition madd (A B : M) : M := fun i j => A i j + B i j.
Definition msub (A B : M) : M := fun i j => A i j - B i j.
Definition mopp (A : M) : M := fun i j => - A i j.
Definition mmul (A B : M) : M :=
  fun i j => bigsum (fun r => A i r * B r j) (range D).

Lemma meq_refl A : meq A A.
Proof. intros i j _ _. reflexivity. Qed.
Lemma meq_sym A B : meq A B -> meq B A.
Proof. intros H i j Hi Hj. symmetry. auto. Qed.
Lemma meq_trans A B C : meq A B -> meq B C -> meq A C.
Proof. intros H1 H2 i j Hi Hj. rewrite (H1 i j Hi Hj), (H2 i j Hi Hj). reflexivity. Qed.

Lemma meq_Equivalence : Equivalence meq.
Proof. split. exact meq_refl. exact meq_sym. exact meq_trans. Qed.

Lemma madd_P : Proper (meq ==> meq ==> meq) madd.
Proof. intros A A' HA B B' HB i j Hi Hj. unfold madd. rewrite (HA i j Hi Hj), (HB i j Hi Hj). reflexivity. Qed.
Lemma msub_P : Proper (meq ==> meq ==> meq) msub.
Proof. intros A A' HA B B' HB i j Hi Hj. unfold msub. rewrite (HA i j Hi Hj), (HB i j Hi Hj). reflexivity. Qed.
Lemma mopp_P : Proper (meq ==> meq) mopp.
Proof. intros A A' HA i j Hi Hj. unfold mopp. rewrite (HA i j Hi Hj). reflexivity. Qed.
Lemma mmul_P : Proper (meq ==> meq ==> meq) mmul.
Proof.
  intros A A' HA B B' HB i j Hi Hj. unfold mmul. apply bigsum_ext.
  intros r Hr. apply in_range in Hr. rewrite (HA i r Hi Hr), (HB r j Hr Hj). reflexivity.
Qed.

Lemma madd_0_l A : meq (madd mzero A) A.
Proof. intros i j _ _. unfold madd, mzero. non_commutative_ring. Qed.
Lemma madd_comm A B : meq (madd A B) (madd B A).
Proof. intros i j _ _. unfold madd. non_commutative_ring. Qed.
Lemma madd_assoc A B C : meq (madd A (madd B C)) (madd (madd A B) C).
Proof. intros i j _ _. unfold madd. non_commutative_ring. Qed.
Lemma msub_def A B : meq (msub A B) (madd A (mopp B)).
Proof. intros i j _ _. unfold madd, msub, mopp. non_commutative_ring. Qed.
Lemma mopp_def A : meq (madd A (mopp A)) mzero.
Proof. intros i j _ _. unfold madd, mzero, mopp. non_commutative_ring. Qed.

Lemma mmul_1_l A : meq (mmul mone A) A.
Proof.
  intros i j Hi Hj. unfold mmul, mone.
  rewrite (@bigsum_single _ _ _ _ _ _ _ _ _ _ _ (fun r => (if Nat.eqb i r then 1 else 0) * A r j) i).
  - rewrite Nat.eqb_refl. non_commutative_ring.
  - apply nodup_range.
  - now apply in_range.
  - intros r _ Hne. destruct (Nat.eqb_spec i r). congruence. non_commutative_ring.
Qed.

Lemma mmul_1_r A : meq (mmul A mone) A.
Proof.
  intros i j Hi Hj. unfold mmul, mone.
  rewrite (@bigsum_single _ _ _ _ _ _ _ _ _ _ _ (fun r => A i r * (if Nat.eqb r j then 1 else 0)) j).
  - rewrite Nat.eqb_refl. non_commutative_ring.
  - apply nodup_range.
  - now apply in_range.
  - intros r _ Hne. destruct (Nat.eqb_spec r j). congruence. non_commutative_ring.
Qed.

Lemma mmul_assoc A B C : meq (mmul A (mmul B C)) (mmul (mmul A B) C).
Proof.
  intros i j Hi Hj. unfold mmul.
  transitivity (bigsum (fun r => bigsum (fun s => A i r * B r s * C s j) (range D)) (range D)).
  - apply bigsum_ext. intros r _. rewrite bigsum_mul_l. apply bigsum_ext.
    intros s _. non_commutative_ring.
  - rewrite bigsum_exchange. apply bigsum_ext. intros s _.
    rewrite bigsum_mul_r. reflexivity.
Qed.

Lemma mmul_distr_l A B C : meq (mmul (madd A B) C) (madd (mmul A C) (mmul B C)).
Proof.
  intros i j _ _. unfold mmul, madd. rewrite <- bigsum_add. apply bigsum_ext.
  intros r _. non_commutative_ring.
Qed.

Lemma mmul_distr_r A B C : meq (mmul C (madd A B)) (madd (mmul C A) (mmul C B)).
Proof.
  intros i j _ _. unfold mmul, madd. rewrite <- bigsum_add. apply bigsum_ext.
  intros r _. non_commutative_ring.
Qed.

Global Instance mat_ops : @Ring_ops M mzero mone madd mmul msub mopp meq := {}.

Global Instance mat_Ring : Ring (Ro := mat_ops).
Proof.
  constructor.
  - exact meq_Equivalence.
  - exact madd_P.
  - exact mmul_P.
  - exact msub_P.
  - exact mopp_P.
  - exact madd_0_l.
  - exact madd_comm.
  - exact madd_assoc.
  - exact mmul_1_l.
  - exact mmul_1_r.
  - exact mmul_assoc.
  - exact mmul_distr_l.
  - exact mmul_distr_r.
  - exact msub_def.
  - exact mopp_def.
Qed.

(** entries of n-fold sums *)
Lemma nmul_entry n (A : M) i j : nmul n A i j == nmul n (A i j).
Proof.
  induction n as [|n IH]; cbn [nmul]. reflexivity.
  change ((A + nmul n A) i j) with (A i j + nmul n A i j). rewrite IH. reflexivity.
Qed.

Lemma zmul_entry k (A : M) i j : zmul k A i j == zmul k (A i j).
Proof.
  destruct k; cbn [zmul]. reflexivity. apply nmul_entry.
  change ((- nmul (Pos.to_nat p) A) i j) with (- nmul (Pos.to_nat p) A i j).
  rewrite nmul_entry. reflexivity.
Qed.

(** diagonal matrices *)
Definition mdiag (E : nat -> R) : M := fun i j => if Nat.eqb i j then E i else 0.

Lemma mmul_diag_l E (A : M) i j :
  (i < D)%nat -> mmul (mdiag E) A i j == E i * A i j.
Proof.
  intros Hi. unfold mmul, mdiag.
  rewrite (@bigsum_single _ _ _ _ _ _ _ _ _ _ _
             (fun r => (if Nat.eqb i r then E i else 0) * A r j) i).
  - rewrite Nat.eqb_refl. reflexivity.
  - apply nodup_range.
  - now apply in_range.
  - intros r _ Hne. destruct (Nat.eqb_spec i r). congruence. non_commutative_ring.
Qed.

Lemma mmul_diag_r E (A : M) i j :
  (j < D)%nat -> mmul A (mdiag E) i j == A i j * E j.
Proof.
  intros Hj. unfold mmul, mdiag.
  rewrite (@bigsum_single _ _ _ _ _ _ _ _ _ _ _
             (fun r => A i r * (if Nat.eqb r j then E r else 0)) j).
  - rewrite Nat.eqb_refl. reflexivity.
  - apply nodup_range.
  - now apply in_range.
  - intros r _ Hne. destruct (Nat.eqb_spec r j). congruence. non_commutative_ring.
Qed.

(** entries of finite sums of matrices *)
Lemma bigsum_entry {A} (F : A -> M) l i j :
  bigsum F l i j == bigsum (fun a => F a i j) l.
Proof.
  induction l as [|a l IH]. reflexivity.
  rewrite !bigsum_cons. change ((F a + bigsum F l) i j) with (F a i j + bigsum F l i j).
  rewrite IH. reflexivity.
Qed.

(** * masks: keep the entries (i,j) with [m i j = true] *)
Definition mmask (m : nat -> nat -> bool) (A : M) : M :=
  fun i j => if m i j then A i j else 0.

Lemma mmask_P m : Proper (meq ==> meq) (mmask m).
Proof. intros A B H i j Hi Hj. unfold mmask. destruct (m i j). auto. reflexivity. Qed.

Lemma mmask_add m A B : meq (mmask m (madd A B)) (madd (mmask m A) (mmask m B)).
Proof. intros i j _ _. unfold mmask, madd. destruct (m i j); non_commutative_ring. Qed.

Lemma mmask_opp m A : meq (mmask m (mopp A)) (mopp (mmask m A)).
Proof. intros i j _ _. unfold mmask, mopp. destruct (m i j); non_commutative_ring. Qed.

Lemma mmask_mmask m1 m2 A :
  meq (mmask m1 (mmask m2 A)) (mmask (fun i j => andb (m1 i j) (m2 i j)) A).
Proof.
  intros i j _ _. unfold mmask. destruct (m1 i j), (m2 i j); reflexivity.
Qed.

Lemma mmask_ext m1 m2 A :
  (forall i j, (i < D)%nat -> (j < D)%nat -> m1 i j = m2 i j) ->
  meq (mmask m1 A) (mmask m2 A).
Proof. intros H i j Hi Hj. unfold mmask. rewrite H; auto. reflexivity. Qed.

Lemma mmask_false m A :
  (forall i j, (i < D)%nat -> (j < D)%nat -> m i j = false) -> meq (mmask m A) mzero.
Proof. intros H i j Hi Hj. unfold mmask, mzero. rewrite H; auto. reflexivity. Qed.

(** products of masked matrices *)
Lemma mmask_mul_closed m1 m2 m3 (A B : M) :
  (forall i r j, (i < D)%nat -> (r < D)%nat -> (j < D)%nat ->
                 m1 i r = true -> m2 r j = true -> m3 i j = true) ->
  meq (mmask m3 (mmul (mmask m1 A) (mmask m2 B))) (mmul (mmask m1 A) (mmask m2 B)).
Proof.
  intros H i j Hi Hj. unfold mmask at 1. destruct (m3 i j) eqn:E3. reflexivity.
  symmetry. unfold mmul. apply bigsum_zero. intros r Hr. apply in_range in Hr.
  unfold mmask. destruct (m1 i r) eqn:E1, (m2 r j) eqn:E2; try non_commutative_ring.
  rewrite (H i r j Hi Hr Hj E1 E2) in E3. discriminate.
Qed.

Lemma mmask_mul_zero m1 m2 (A B : M) :
  (forall i r j, (i < D)%nat -> (r < D)%nat -> (j < D)%nat ->
                 m1 i r = true -> m2 r j = true -> False) ->
  meq (mmul (mmask m1 A) (mmask m2 B)) mzero.
Proof.
  intros H i j Hi Hj. unfold mmul, mzero. apply bigsum_zero. intros r Hr.
  apply in_range in Hr.
  unfold mmask. destruct (m1 i r) eqn:E1, (m2 r j) eqn:E2; try non_commutative_ring.
  elim (H i r j Hi Hr Hj E1 E2).
Qed.

Global Instance mmask_am m : AddMap (mmask m).
Proof.
  split. exact (mmask_P m). exact (mmask_add m). exact (mmask_opp m).
Qed.

(** * conjugate transpose and entry-wise division *)
Context {CS : CStar R}.

Definition madj (A : M) : M := fun i j => conj (A j i).
Definition mdivz (A : M) (k : Z) : M := fun i j => divz0 (A i j) k.

Lemma madj_P : Proper (meq ==> meq) madj.
Proof. intros A B H i j Hi Hj. unfold madj. rewrite (H j i Hj Hi). reflexivity. Qed.

Lemma madj_add A B : meq (madj (madd A B)) (madd (madj A) (madj B)).
Proof. intros i j _ _. unfold madj, madd. apply conj_add. Qed.

Lemma madj_opp A : meq (madj (mopp A)) (mopp (madj A)).
Proof. intros i j _ _. unfold madj, mopp. apply conj_opp. Qed.

Global Instance madj_am : AddMap madj.
Proof. split. exact madj_P. exact madj_add. exact madj_opp. Qed.

Lemma madj_mul A B : meq (madj (mmul A B)) (mmul (madj B) (madj A)).
Proof.
  intros i j _ _. unfold madj, mmul.
  rewrite (bigsum_morph (phi := conj) _ _ conj_zero conj_add conj_P).
  apply bigsum_ext. intros r _. rewrite conj_mul. apply cs_comm.
Qed.

Lemma madj_inv A : meq (madj (madj A)) A.
Proof. intros i j _ _. unfold madj. apply conj_inv. Qed.

Lemma madj_one : meq (madj mone) mone.
Proof.
  intros i j _ _. unfold madj, mone. rewrite (Nat.eqb_sym j i).
  destruct (Nat.eqb i j). apply conj_one. apply conj_zero.
Qed.

Lemma madj_mask m A : meq (madj (mmask m A)) (mmask (fun i j => m j i) (madj A)).
Proof.
  intros i j _ _. unfold madj, mmask. destruct (m j i). reflexivity. apply conj_zero.
Qed.

Lemma mdivz_P k : Proper (meq ==> meq) (fun A => mdivz A k).
Proof. intros A B H i j Hi Hj. unfold mdivz. apply divz0_P. auto. Qed.

Lemma mdivz_add k A B : meq (mdivz (madd A B) k) (madd (mdivz A k) (mdivz B k)).
Proof. intros i j _ _. unfold mdivz, madd. apply divz0_add. Qed.

Lemma mdivz_opp k A : meq (mdivz (mopp A) k) (mopp (mdivz A k)).
Proof. intros i j _ _. unfold mdivz, mopp. apply divz0_opp. Qed.

Lemma mdivz_spec k A : k <> 0%Z -> meq (zmul k (mdivz A k)) A.
Proof.
  intros Hk i j _ _. rewrite zmul_entry. unfold mdivz. now apply divz0_spec.
Qed.

End Mat.
