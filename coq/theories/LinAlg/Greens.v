(* Model of pymablock.linalg.direct_greens_function (as repaired by commit e113059)
   and of its use in block_diagonalization.solve_sylvester_direct.

   A = E - H (n x n), Phi (n x k) a basis of the right kernel that is used,
   PhiLd = PhiL^H (k x n) the dual left kernel vectors, P = 1 - Phi PhiLd the kernel
   projector (ComplementProjector(kernel_vectors, left_kernel_vectors), see C17).
   _constrain_matrix drops the equations `pivot_rows` and adds the constraints
   x[pivot_cols] = 0:   Mt = D A + C,  D the 0/1 diagonal that zeroes the dropped rows,
   C = sum_t e_{rows t} e_{cols t}^T.
   greens_function(b):  b1 = P b; b1[pivot_rows] = 0 (= D P b); z = solve(Mt, b1);
   return P z.   The sparse LU / MUMPS solve is an oracle: any z with Mt z = D P b. *)
From mathcomp Require Import all_ssreflect all_algebra.
Set Implicit Arguments. Unset Strict Implicit. Unset Printing Implicit Defensive.
Import GRing.Theory.
Local Open Scope ring_scope.

Section Abstract.
Variable (F : ringType) (n k : nat).
Variables (A D C : 'M[F]_n) (Phi : 'M[F]_(n,k)) (PhiLd : 'M[F]_(k,n)).
Hypothesis APhi : A *m Phi = 0.
Hypothesis PhiLA : PhiLd *m A = 0.
Hypothesis biorth : PhiLd *m Phi = 1%:M.
Hypothesis Didem : D *m D = D.
Hypothesis DC : D *m C = 0.
(* the dropped equations are recoverable from the left kernel:
   PhiL restricted to the dropped rows is invertible (see Section Pivots) *)
Hypothesis left_regular : forall r : 'cV[F]_n, D *m r = 0 -> PhiLd *m r = 0 -> r = 0.

Definition Pk : 'M[F]_n := 1%:M - Phi *m PhiLd.
Definition Mt : 'M[F]_n := D *m A + C.

Lemma PkPk : Pk *m Pk = Pk.
Proof.
by rewrite /Pk mulmxBr mulmx1 mulmxBl mul1mx mulmxA -[Phi *m PhiLd *m Phi]mulmxA
           biorth mulmx1 subrr subr0.
Qed.
Lemma PhiL_Pk : PhiLd *m Pk = 0.
Proof. by rewrite /Pk mulmxBr mulmx1 mulmxA biorth mul1mx subrr. Qed.
Lemma Pk_Phi : Pk *m Phi = 0.
Proof. by rewrite /Pk mulmxBl mul1mx -mulmxA biorth mulmx1 subrr. Qed.
Lemma A_Pk : A *m Pk = A.
Proof. by rewrite /Pk mulmxBr mulmx1 mulmxA APhi mul0mx subr0. Qed.
Lemma Pk_A : Pk *m A = A.
Proof. by rewrite /Pk mulmxBl mul1mx -mulmxA PhiLA mulmx0 subr0. Qed.

(* any solution of the constrained system solves the original one *)
Lemma constrained_solves (b z : 'cV[F]_n) :
  Mt *m z = D *m (Pk *m b) -> A *m z = Pk *m b.
Proof.
move=> Hz.
have HD : D *m (A *m z - Pk *m b) = 0.
  have := congr1 (mulmx D) Hz.
  rewrite /Mt mulmxDl mulmxDr !mulmxA Didem DC mul0mx addr0 => E.
  by rewrite mulmxBr !mulmxA E subrr.
have HL : PhiLd *m (A *m z - Pk *m b) = 0.
  by rewrite mulmxBr !mulmxA PhiLA PhiL_Pk !mul0mx subrr.
by move/subr0_eq: (left_regular HD HL).
Qed.

Theorem greens_solution (b z : 'cV[F]_n) :
  Mt *m z = D *m (Pk *m b) ->
  A *m (Pk *m z) = Pk *m b /\ Pk *m (Pk *m z) = Pk *m z.
Proof.
move=> Hz; split; last by rewrite mulmxA PkPk.
by rewrite mulmxA A_Pk; apply: constrained_solves.
Qed.

(* well-posedness of the constrained system: if the constrained variables fix the
   gauge (Phi restricted to pivot_cols invertible, see Section Pivots) and Phi spans the
   whole right kernel, Mt is injective, so the LU solve returns THE solution *)
Hypothesis col_regular : forall c : 'cV[F]_k, C *m (Phi *m c) = 0 -> c = 0.
Hypothesis kernel_spanned : forall z : 'cV[F]_n, A *m z = 0 -> exists c, z = Phi *m c.

Theorem Mt_injective (z : 'cV[F]_n) : Mt *m z = 0 -> z = 0.
Proof.
move=> Hz.
have HDA : D *m (A *m z) = 0.
  have := congr1 (mulmx D) Hz.
  by rewrite /Mt mulmxDl mulmxDr !mulmxA Didem DC mul0mx addr0 mulmx0 -mulmxA.
have HC : C *m z = 0.
  by move: Hz; rewrite /Mt mulmxDl -mulmxA HDA add0r.
have HA : A *m z = 0.
  by apply: left_regular => //; rewrite mulmxA PhiLA mul0mx.
case: (kernel_spanned HA) => c zc.
by rewrite zc (col_regular (c := c)) ?mulmx0 // -zc.
Qed.

End Abstract.

(* ------------------------------------------------------------------ *)
(* The concrete D and C built by _constrain_matrix from the pivots    *)
Section Pivots.
Variable (F : fieldType) (n k : nat).
Variables (rows cols : 'I_k -> 'I_n).
Hypothesis rows_inj : injective rows.
Hypothesis cols_inj : injective cols.

Definition dropped (i : 'I_n) : bool := [exists t, rows t == i].
Definition Dm : 'M[F]_n := \matrix_(i, j) ((i == j) && ~~ dropped i)%:R.
Definition Cm : 'M[F]_n := \sum_t delta_mx (rows t) (cols t).

Lemma Dm_mul m (X : 'M[F]_(n,m)) i j :
  (Dm *m X) i j = if dropped i then 0 else X i j.
Proof.
rewrite !mxE (bigD1 i) //= big1 ?addr0 => [|l ne]; last first.
  by rewrite !mxE eq_sym (negbTE ne) mul0r.
by rewrite !mxE eqxx /=; case: (dropped i); rewrite ?mul0r ?mul1r.
Qed.

Lemma Dm_idem : Dm *m Dm = Dm.
Proof.
apply/matrixP=> i j; rewrite Dm_mul !mxE.
by case: (dropped i); rewrite ?andbF.
Qed.

Lemma Cm_mul m (X : 'M[F]_(n,m)) i j :
  (Cm *m X) i j = \sum_t (if rows t == i then X (cols t) j else 0).
Proof.
rewrite /Cm mulmx_suml summxE; apply: eq_bigr => t _.
rewrite !mxE (bigD1 (cols t)) //= big1 ?addr0 => [|l ne]; last first.
  by rewrite !mxE (negbTE ne) andbF mul0r.
by rewrite !mxE eqxx andbT eq_sym; case: eqP; rewrite ?mul0r ?mul1r.
Qed.

Lemma Dm_Cm : Dm *m Cm = 0.
Proof.
apply/matrixP=> i j; rewrite Dm_mul mxE.
case dr: (dropped i) => //.
rewrite /Cm summxE big1 // => t _; rewrite !mxE.
case: eqP => //= e; move/negbT: dr; rewrite negb_exists => /forallP /(_ t).
by rewrite e eqxx.
Qed.

(* PhiL restricted to the dropped rows invertible => left_regular *)
Lemma left_regular_of_minor (PhiLd : 'M[F]_(k,n)) :
  (\matrix_(s, t) PhiLd s (rows t)) \in unitmx ->
  forall r : 'cV[F]_n, Dm *m r = 0 -> PhiLd *m r = 0 -> r = 0.
Proof.
move=> U r Dr Lr.
have r0 i : ~~ dropped i -> r i ord0 = 0.
  by move=> nd; move/matrixP/(_ i ord0): Dr; rewrite Dm_mul (negbTE nd) mxE.
pose rr : 'cV[F]_k := \col_t r (rows t) ord0.
have E : (\matrix_(s, t) PhiLd s (rows t)) *m rr = 0.
  rewrite -Lr; apply/matrixP=> s j; rewrite !mxE.
  rewrite [in RHS](bigID dropped) /= [X in _ + X]big1 ?addr0; last first.
    by move=> i nd; rewrite [j]ord1 (r0 i nd) mulr0.
  rewrite (reindex_onto rows (fun i => odflt s [pick t | rows t == i])) /=.
    apply: eq_big => [t|t _]; last by rewrite !mxE [j]ord1.
    have -> : dropped (rows t) by apply/existsP; exists t.
    by case: pickP => [t' /eqP/rows_inj->|/(_ t)]; rewrite /= eqxx.
  move=> i /existsP[t /eqP<-].
  by case: pickP => [t' /eqP|/(_ t)] //=; rewrite eqxx.
have rr0 : rr = 0 by rewrite -[rr](mulKmx U) E mulmx0.
apply/matrixP=> i j; rewrite ord1 mxE.
case dr: (dropped i); last by apply: r0; rewrite dr.
case/existsP: dr => t /eqP<-.
by move/matrixP/(_ t ord0): rr0; rewrite !mxE.
Qed.

(* Phi restricted to pivot_cols invertible => col_regular *)
Lemma col_regular_of_minor (Phi : 'M[F]_(n,k)) :
  (\matrix_(t, s) Phi (cols t) s) \in unitmx ->
  forall c : 'cV[F]_k, Cm *m (Phi *m c) = 0 -> c = 0.
Proof.
move=> U c Cc.
have E : (\matrix_(t, s) Phi (cols t) s) *m c = 0.
  apply/matrixP=> t j; rewrite [RHS]mxE.
  move/matrixP/(_ (rows t) j): Cc; rewrite Cm_mul [in X in X -> _]mxE.
  rewrite (bigD1 t) //= eqxx big1 ?addr0 => [|t' ne]; last first.
    by rewrite (inj_eq rows_inj) (negbTE ne).
  by move<-; rewrite !mxE; apply: eq_bigr => s _; rewrite !mxE.
by rewrite -[c](mulKmx U) E mulmx0.
Qed.

End Pivots.

(* ------------------------------------------------------------------ *)
(* The two orientations used by solve_sylvester_direct                 *)
Section Sylvester.
Variable (F : comRingType) (n k : nat).
Variables (h0 : 'M[F]_n) (E : F).
Variables (Phi : 'M[F]_(n,k)) (PhiLd : 'M[F]_(k,n)).
Let A : 'M[F]_n := E%:M - h0.
Hypothesis APhi : A *m Phi = 0.
Hypothesis PhiLA : PhiLd *m A = 0.
Hypothesis biorth : PhiLd *m Phi = 1%:M.
(* the projector on the complement of ALL explicit vectors (solve_sylvester_direct's
   `projector`): idempotent, commutes with h0, and kills this group's kernel vectors *)
Variable Pf : 'M[F]_n.
Hypothesis PfPf : Pf *m Pf = Pf.
Hypothesis Pf_h0 : Pf *m h0 = h0 *m Pf.
Hypothesis PhiL_Pf : PhiLd *m Pf = 0.
Hypothesis Pf_Phi : Pf *m Phi = 0.

Lemma Pf_A : Pf *m A = A *m Pf.
Proof. by rewrite /A mulmxBr mulmxBl Pf_h0 scalar_mxC. Qed.

(* left-implicit block (index[0] = implicit): Y = Pf Y; column y of Y;
   x = greens_function_left(y); column of the result is Pf (-x):
   H0_BB v - v E = y  on the complement *)
Section Left.
Variables D C : 'M[F]_n.
Hypothesis Didem : D *m D = D.
Hypothesis DC : D *m C = 0.
Hypothesis left_regular : forall r : 'cV[F]_n, D *m r = 0 -> PhiLd *m r = 0 -> r = 0.

Theorem sylvester_left (y z : 'cV[F]_n) :
  Mt A D C *m z = D *m (Pk Phi PhiLd *m (Pf *m y)) ->
  let v := Pf *m (- (Pk Phi PhiLd *m z)) in
  h0 *m v - E *: v = Pf *m y /\ Pf *m v = v.
Proof.
move=> Hz v.
case: (greens_solution APhi PhiLA biorth Didem DC left_regular Hz) => Hx _.
have PkPf : Pk Phi PhiLd *m (Pf *m y) = Pf *m y.
  by rewrite /Pk mulmxBl mul1mx -!mulmxA (mulmxA PhiLd) PhiL_Pf mul0mx mulmx0 subr0.
split; last by rewrite /v mulmxA PfPf.
have -> : h0 *m v - E *: v = A *m (Pf *m (Pk Phi PhiLd *m z)).
  rewrite /v mulmxN; set X := Pf *m _.
  by rewrite /A mulmxN scalerN opprK mulmxBl mul_scalar_mx addrC.
by rewrite mulmxA -Pf_A -mulmxA Hx PkPf mulmxA PfPf.
Qed.
End Left.

(* right-implicit block (index[1] = implicit): Y = Y Pf; row y^T of Y; the solver is
   built for h0^T with kernel conj(PhiL) and left kernel conj(Phi), i.e. the transposed
   system; x = greens_function_right(y); the row of the result is x^T Pf:
   E v - v H0_BB = y^T  on the complement *)
Section Right.
Variables D C : 'M[F]_n.
Hypothesis Didem : D *m D = D.
Hypothesis DC : D *m C = 0.
Hypothesis left_regular : forall r : 'cV[F]_n, D *m r = 0 -> Phi^T *m r = 0 -> r = 0.

Theorem sylvester_right (y z : 'cV[F]_n) :
  Mt A^T D C *m z = D *m (Pk PhiLd^T Phi^T *m (Pf^T *m y)) ->
  let v : 'rV[F]_n := (Pk PhiLd^T Phi^T *m z)^T *m Pf in
  E *: v - v *m h0 = y^T *m Pf /\ v *m Pf = v.
Proof.
move=> Hz v.
have APhi' : A^T *m PhiLd^T = 0 by rewrite -trmx_mul PhiLA trmx0.
have PhiLA' : Phi^T *m A^T = 0 by rewrite -trmx_mul APhi trmx0.
have biorth' : Phi^T *m PhiLd^T = 1%:M by rewrite -trmx_mul biorth trmx1.
case: (greens_solution APhi' PhiLA' biorth' Didem DC left_regular Hz) => Hx _.
have PkPf : Pk PhiLd^T Phi^T *m (Pf^T *m y) = Pf^T *m y.
  rewrite /Pk mulmxBl mul1mx -!mulmxA (mulmxA Phi^T) -trmx_mul Pf_Phi trmx0.
  by rewrite mul0mx mulmx0 subr0.
split; last by rewrite /v -mulmxA PfPf.
have -> : E *: v - v *m h0 = v *m A.
  by rewrite /A mulmxBr mul_mx_scalar.
rewrite /v -mulmxA Pf_A mulmxA.
have -> : (Pk PhiLd^T Phi^T *m z)^T *m A = (A^T *m (Pk PhiLd^T Phi^T *m z))^T.
  by rewrite [RHS]trmx_mul trmxK.
by rewrite Hx PkPf trmx_mul trmxK -mulmxA PfPf.
Qed.
End Right.

End Sylvester.
