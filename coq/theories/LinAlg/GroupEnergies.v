(* Model of the real branch of block_diagonalization._group_close_energies:
     order = argsort(energies); split where diff(energies[order]) > atol.
   Energies are integers (any common unit: the harness scales dyadic floats).
   Theorem: the groups are exactly the connected components of the graph
   "|E_a - E_b| <= atol" on the indices. *)
From Coq Require Import ZArith List Lia Sorting.Permutation Sorting.Sorted Relations.
Import ListNotations.
Local Open Scope Z_scope.

Definition item := (Z * nat)%type.   (* (energy, index) *)

Fixpoint insert (x : item) (l : list item) : list item :=
  match l with
  | [] => [x]
  | y :: r => if fst x <=? fst y then x :: y :: r else y :: insert x r
  end.
Fixpoint isort (l : list item) : list item :=
  match l with [] => [] | x :: r => insert x (isort r) end.

(* np.split(order, nonzero(diff > atol) + 1) on the sorted list *)
Fixpoint split_sorted (atol : Z) (l : list item) {struct l} : list (list item) :=
  match l with
  | [] => []
  | x :: r =>
      match split_sorted atol r with
      | g :: gs =>
          match r with
          | y :: _ => if fst y - fst x >? atol then [x] :: g :: gs else (x :: g) :: gs
          | [] => [[x]]
          end
      | [] => [[x]]
      end
  end.

Fixpoint index_from (i : nat) (es : list Z) : list item :=
  match es with [] => [] | e :: r => (e, i) :: index_from (S i) r end.

Definition group_pairs (es : list Z) (atol : Z) : list (list item) :=
  split_sorted atol (isort (index_from 0 es)).
(* what the Python function returns: lists of indices *)
Definition group_close_energies (es : list Z) (atol : Z) : list (list nat) :=
  map (map snd) (group_pairs es atol).

(* ---------------------------------------------------------------- *)
Definition le_item (a b : item) : Prop := fst a <= fst b.

Lemma insert_perm x l : Permutation (insert x l) (x :: l).
Proof.
induction l as [|y r IH]; simpl; auto.
destruct (fst x <=? fst y); auto.
rewrite IH. apply perm_swap.
Qed.

Lemma isort_perm l : Permutation (isort l) l.
Proof. induction l; simpl; auto. rewrite insert_perm. auto. Qed.

Lemma insert_sorted x l : StronglySorted le_item l -> StronglySorted le_item (insert x l).
Proof.
induction 1 as [|y r Hr IH Hy]; simpl.
- repeat constructor.
- destruct (Z.leb_spec (fst x) (fst y)).
  + constructor. constructor; auto. constructor; auto.
    rewrite Forall_forall in *. intros z Hz. specialize (Hy z Hz). unfold le_item in *. lia.
  + constructor; auto.
    rewrite Forall_forall in *. intros z Hz.
    apply (Permutation_in _ (insert_perm x r)) in Hz. destruct Hz as [<-|Hz].
    * unfold le_item. lia.
    * auto.
Qed.

Lemma isort_sorted l : StronglySorted le_item (isort l).
Proof. induction l; simpl. constructor. apply insert_sorted; auto. Qed.

(* ---------------------------------------------------------------- *)
(* specification of the split *)
Fixpoint chained (atol : Z) (g : list item) : Prop :=
  match g with
  | a :: (b :: _) as t => 0 <= fst b - fst a <= atol /\ chained atol t
  | _ => True
  end.
Fixpoint separated (atol : Z) (gs : list (list item)) : Prop :=
  match gs with
  | [] => True
  | g :: rest =>
      (forall a b, In a g -> In b (concat rest) -> fst b - fst a > atol) /\ separated atol rest
  end.

Lemma split_concat atol l : concat (split_sorted atol l) = l.
Proof.
induction l as [|x r IH]; simpl; auto.
destruct r as [|y r']; auto.
destruct (split_sorted atol (y :: r')) as [|g gs] eqn:E; [discriminate IH|].
destruct (fst y - fst x >? atol); simpl in *; rewrite IH; auto.
Qed.

Lemma split_head atol y r g gs :
  split_sorted atol (y :: r) = g :: gs -> exists g', g = y :: g'.
Proof.
simpl. destruct r as [|z r'].
- intros [= <- <-]. eauto.
- destruct (split_sorted atol (z :: r')) as [|g1 gs1].
  + intros [= <- <-]. eauto.
  + destruct (fst z - fst y >? atol); intros [= <- <-]; eauto.
Qed.

Theorem split_spec atol l :
  StronglySorted le_item l ->
  let gs := split_sorted atol l in
  concat gs = l /\ Forall (chained atol) gs /\ separated atol gs /\ Forall (fun g => g <> []) gs.
Proof.
intros Hs. split; [apply split_concat|]. revert Hs.
induction l as [|x r IH]; intros Hs; simpl.
- repeat split; constructor.
- inversion Hs as [|? ? Hr Hx]; subst. specialize (IH Hr). destruct IH as (C & S & N).
  destruct r as [|y r'].
  + simpl. repeat split; repeat constructor; simpl; auto; try discriminate. intros ? ? _ [].
  + destruct (split_sorted atol (y :: r')) as [|g gs] eqn:E.
    * repeat split; repeat constructor; simpl; auto; try discriminate. intros ? ? _ [].
    * pose proof (split_concat atol (y :: r')) as Hc. rewrite E in Hc. simpl in Hc.
      destruct (split_head _ _ _ _ _ E) as [g' ->].
      rewrite Forall_forall in Hx.
      destruct (Z.gtb_spec (fst y - fst x) atol) as [Hgap|Hgap].
      -- split; [|split].
         ++ constructor; simpl; auto.
         ++ split; [|exact S]. intros a b [<-|[]] Hb. simpl in Hb. injection Hc as Hc.
            assert (Hy : le_item x y) by (apply Hx; left; auto).
            inversion Hr as [|? ? _ Hyr]; subst. rewrite Forall_forall in Hyr.
            destruct Hb as [<-|Hb]; [lia|]. specialize (Hyr b Hb). unfold le_item in *. lia.
         ++ constructor; auto. discriminate.
      -- inversion C as [|? ? Cg Cgs]; subst. inversion N as [|? ? _ Ngs]; subst.
         destruct S as [S1 S2].
         assert (Hy : le_item x y) by (apply Hx; left; auto). unfold le_item in Hy.
         split; [|split].
         ++ constructor; auto. simpl. split; auto. lia.
         ++ split; [|exact S2]. intros a b [<-|Ha] Hb.
            ** specialize (S1 y b (or_introl eq_refl) Hb). lia.
            ** apply S1; auto.
         ++ constructor; auto. discriminate.
Qed.

(* ---------------------------------------------------------------- *)
(* the pairs carry the energies of their indices *)
Lemma index_from_nth i es e j : In (e, j) (index_from i es) ->
  (i <= j)%nat /\ nth_error es (j - i) = Some e.
Proof.
revert i; induction es as [|e0 r IH]; simpl; intros i; [intros []|].
intros [[= <- <-]|H].
- split; auto. replace (i - i)%nat with 0%nat by lia. reflexivity.
- destruct (IH _ H) as [Hle Hn]. split; [lia|].
  replace (j - i)%nat with (S (j - S i)) by lia. exact Hn.
Qed.

Lemma index_from_snd i es : map snd (index_from i es) = seq i (length es).
Proof. revert i; induction es; simpl; intros; auto. f_equal; auto. Qed.

(* Main theorem: (1) the groups partition the indices 0..n-1; every member carries its
   energy; (2) inside a group, walking in the returned order, consecutive members are
   within atol (so the group is connected in the "within atol" graph); (3) members of
   different groups differ by more than atol (no edge between groups); (4) no group is
   empty.  (1)-(4) say that the groups are the connected components. *)
Theorem group_pairs_spec es atol :
  let gs := group_pairs es atol in
  Permutation (map snd (concat gs)) (seq 0 (length es)) /\
  (forall e j, In (e, j) (concat gs) -> nth_error es j = Some e) /\
  Forall (chained atol) gs /\ separated atol gs /\ Forall (fun g => g <> []) gs.
Proof.
unfold group_pairs.
destruct (split_spec atol _ (isort_sorted (index_from 0 es))) as (C & Ch & Se & Ne).
repeat split; auto.
- rewrite C, <- index_from_snd. apply Permutation_map, isort_perm.
- intros e j H. rewrite C in H. apply (Permutation_in _ (isort_perm _)) in H.
  destruct (index_from_nth _ _ _ _ H) as [_ Hn]. now rewrite Nat.sub_0_r in Hn.
Qed.

(* ---------------------------------------------------------------- *)
(* Connected components, stated with the reflexive-symmetric-transitive closure *)
Definition close (atol : Z) (a b : item) : Prop := Z.abs (fst a - fst b) <= atol.

Definition same_group (gs : list (list item)) (a b : item) : Prop :=
  exists g, In g gs /\ In a g /\ In b g.

Lemma rst_mono {A} (R1 R2 : relation A) :
  (forall x y, R1 x y -> R2 x y) ->
  forall x y, clos_refl_sym_trans _ R1 x y -> clos_refl_sym_trans _ R2 x y.
Proof.
intros M x y H. induction H.
- apply rst_step; auto.
- apply rst_refl.
- apply rst_sym; auto.
- eapply rst_trans; eauto.
Qed.

Lemma chained_connected atol g : chained atol g ->
  forall a b, In a g -> In b g ->
  clos_refl_sym_trans _ (fun x y => In x g /\ In y g /\ close atol x y) a b.
Proof.
induction g as [|x t IH]; [intros _ ? ? []|].
intros Hc.
assert (Ht : chained atol t) by (destruct t; simpl in *; tauto).
assert (lift : forall a b, In a t -> In b t ->
   clos_refl_sym_trans _ (fun u v => In u (x :: t) /\ In v (x :: t) /\ close atol u v) a b).
{ intros a b Ha Hb. eapply rst_mono; [|apply (IH Ht a b Ha Hb)].
  intros u v (?&?&?). repeat split; simpl; auto. }
assert (step : forall b, In b t ->
   clos_refl_sym_trans _ (fun u v => In u (x :: t) /\ In v (x :: t) /\ close atol u v) x b).
{ destruct t as [|y t']; [intros ? []|]. destruct Hc as [Hxy _].
  intros b Hb.
  apply rst_trans with y.
  - apply rst_step. repeat split; simpl; auto. unfold close. lia.
  - apply lift; simpl; auto. }
intros a b [<-|Ha] [<-|Hb].
- apply rst_refl.
- apply step; auto.
- apply rst_sym, step; auto.
- apply lift; auto.
Qed.

Lemma separated_no_edge atol gs : 0 <= atol -> separated atol gs ->
  forall pre g1 mid g2 post, gs = pre ++ g1 :: mid ++ g2 :: post ->
  forall a b, In a g1 -> In b g2 -> ~ close atol a b.
Proof.
intros Hat Hs pre. revert gs Hs. induction pre as [|p pre IH]; intros gs Hs g1 mid g2 post -> a b Ha Hb.
- simpl in Hs. destruct Hs as [S1 _].
  assert (In b (concat (mid ++ g2 :: post))).
  { rewrite concat_app. apply in_or_app. right. simpl. apply in_or_app. auto. }
  specialize (S1 a b Ha H). unfold close. lia.
- simpl in Hs. destruct Hs as [_ S2]. eapply IH; eauto.
Qed.

(* ---------------------------------------------------------------- *)
(* comparison of two groupings as sets of sets (used by the correspondence harness) *)
Fixpoint ninsert (x : nat) (l : list nat) : list nat :=
  match l with [] => [x] | y :: r => if (x <=? y)%nat then x :: y :: r else y :: ninsert x r end.
Definition nsort (l : list nat) : list nat := fold_right ninsert [] l.
Definition head_of (l : list nat) : nat := match l with [] => O | x :: _ => x end.
Fixpoint ginsert (g : list nat) (l : list (list nat)) : list (list nat) :=
  match l with
  | [] => [g]
  | h :: r => if (head_of g <=? head_of h)%nat then g :: h :: r else h :: ginsert g r
  end.
Definition canon_groups (gs : list (list nat)) : list (list nat) :=
  fold_right ginsert [] (map nsort gs).
Fixpoint nlist_eqb (a b : list nat) : bool :=
  match a, b with
  | [], [] => true
  | x :: a', y :: b' => (x =? y)%nat && nlist_eqb a' b'
  | _, _ => false
  end.
Fixpoint groups_eqb_aux (a b : list (list nat)) : bool :=
  match a, b with
  | [], [] => true
  | x :: a', y :: b' => nlist_eqb x y && groups_eqb_aux a' b'
  | _, _ => false
  end.
Definition groups_eqb (a b : list (list nat)) : bool :=
  groups_eqb_aux (canon_groups a) (canon_groups b).
