(* The executable list model (ProjectorExec.v), instantiated at a commutative ring
   with an involution, computes the MathComp model (Projector.v). *)
From mathcomp Require Import all_ssreflect all_algebra.
From PV Require Import LinAlg.Heap LinAlg.Projector LinAlg.ProjectorExec.
Set Implicit Arguments. Unset Strict Implicit. Unset Printing Implicit Defensive.
Import GRing.Theory.
Local Open Scope ring_scope.

Section Refine.
Variable R : comRingType.
Variable conj : {rmorphism R -> R}.

Notation lmat := (seq (seq R)).
Notation nthm := (@nthm R 0).
Notation lmul := (@lmul R 0 +%R *%R).
Notation lsub := (@lsub R 0 (fun x y => x - y)).
Notation lctr := (@lctr R 0 conj).
Notation lid := (@lid R 0 1).

Definition mxl n m (A : lmat) : 'M[R]_(n,m) := \matrix_(i, j) nthm A i j.

Lemma nthm_mkseq (f : nat -> nat -> R) n m i j : (i < n)%N -> (j < m)%N ->
  nthm (mkseq (fun i => mkseq (f i) m) n) i j = f i j.
Proof.
by move=> lt_i lt_j; rewrite /nthm (nth_mkseq _ _ lt_i) (nth_mkseq _ _ lt_j).
Qed.

Lemma dotnE m (f g : nat -> R) :
  dotn 0 +%R *%R m f g = \sum_(k < m) f k * g k.
Proof. by rewrite /dotn -(big_mkord xpredT (fun k => f k * g k)) unlock /= /index_iota subn0. Qed.

Lemma mxl_mul n m p A B : mxl n p (lmul n m p A B) = mxl n m A *m mxl m p B.
Proof.
apply/matrixP=> i j; rewrite !mxE nthm_mkseq // dotnE.
by apply: eq_bigr => k _; rewrite !mxE.
Qed.

Lemma mxl_sub n m A B : mxl n m (lsub n m A B) = mxl n m A - mxl n m B.
Proof. by apply/matrixP=> i j; rewrite !mxE nthm_mkseq. Qed.

Lemma mxl_ctr n m A : mxl m n (lctr n m A) = adjm conj (mxl n m A).
Proof. by apply/matrixP=> i j; rewrite !mxE nthm_mkseq. Qed.

Lemma mxl_id n : mxl n n (lid n) = 1%:M.
Proof.
apply/matrixP=> i j; rewrite !mxE nthm_mkseq //.
by rewrite -(inj_eq val_inj) /=; case: eqP.
Qed.

Lemma mxl_conj n m A : mxl n m (lconj conj A) = conjm conj (mxl n m A).
Proof.
apply/matrixP=> i j; rewrite !mxE /lconj /ProjectorExec.nthm.
have -> : nth [::] (map (map conj) A) i = map conj (nth [::] A i).
  by elim: A (i : nat) => [|r A IH] [|i'] //=; rewrite ?nth_nil.
move: (nth [::] A i) => s.
case: (ltnP j (size s)) => [lt|ge]; first by rewrite (nth_map 0).
by rewrite !nth_default ?size_map // rmorph0.
Qed.

Theorem mxl_apply n k m Rv Lv v :
  mxl n m (lapply 0 +%R (fun x y => x - y) *%R conj n k m Rv Lv v) =
  apply conj (mxl n k Rv, mxl n k Lv) (mxl n m v).
Proof. by rewrite /lapply /apply mxl_sub !mxl_mul mxl_ctr. Qed.

Theorem mxl_apply_left n k m Rv Lv v :
  mxl n m (lapply_left 0 +%R (fun x y => x - y) *%R conj n k m Rv Lv v) =
  apply_left conj (mxl n k Rv, mxl n k Lv) (mxl n m v).
Proof. by rewrite /lapply_left /apply_left mxl_sub !mxl_mul mxl_ctr. Qed.

Theorem mxl_den n k Rv Lv :
  mxl n n (lden 0 1 +%R (fun x y => x - y) *%R conj n k Rv Lv) =
  den conj (mxl n k Rv, mxl n k Lv).
Proof. by rewrite /lden /den mxl_sub mxl_id mxl_mul mxl_ctr. Qed.

End Refine.
