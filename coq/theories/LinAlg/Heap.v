(* Object-graph model of the caching links of pymablock.linalg.ComplementProjector
   (/repo/pymablock/linalg.py, class ComplementProjector: __init__, _adjoint, conjugate,
   _transpose).  Generic in the type V of arrays, so that the same code is run on
   lists of Gaussian integers (correspondence harness) and on MathComp matrices
   (theorems).  Objects live in a heap; addresses are natural numbers; Python's `is`
   is equality of addresses. *)
From mathcomp Require Import all_ssreflect.
Set Implicit Arguments. Unset Strict Implicit. Unset Printing Implicit Defensive.

(* the three cached links: _adjoint_operator, _conjugate_operator, _transpose_operator *)
Inductive fld := FH | FC | FT.
Definition fld_eqb (f g : fld) :=
  match f, g with FH, FH | FC, FC | FT, FT => true | _, _ => false end.
Lemma fld_eqP : Equality.axiom fld_eqb.
Proof. by do 2!case; constructor. Qed.
Canonical fld_eqMixin := EqMixin fld_eqP.
Canonical fld_eqType := Eval hnf in EqType fld fld_eqMixin.

(* operations of the public interface: .T, .H, .conjugate() *)
Inductive op := OpT | OpH | OpC.

Section Heap.
Variable V : eqType.
Variable vconj : V -> V.

Record obj := Obj { vecs : V; left_vecs : V; herm : bool; lnk : fld -> option nat }.
Record heap := Heap { next : nat; cell : nat -> obj }.

Definition with_lnk (o : obj) (f : fld) (b : option nat) : obj :=
  Obj (vecs o) (left_vecs o) (herm o) (fun g => if g == f then b else lnk o g).

Definition upd (h : heap) (a : nat) (o : obj) : heap :=
  Heap (next h) (fun x => if x == a then o else cell h x).

Definition setl (h : heap) (a : nat) (f : fld) (b : nat) : heap :=
  upd h a (with_lnk (cell h a) f (Some b)).

(* __init__(self, vecs, left_vecs=None):
     self._hermitian = left_vecs is None or left_vecs is vecs or array_equal(left_vecs, vecs)
     self._left_vecs = vecs if self._hermitian else left_vecs
     self._adjoint_operator = self if self._hermitian else None; the other two None *)
Definition init_obj (self : nat) (vs : V) (ls : option V) : obj :=
  let hm := if ls is Some l then l == vs else true in
  Obj vs (if hm then vs else odflt vs ls) hm
      (fun g => if (g == FH) && hm then Some self else None).

Definition alloc (h : heap) (vs : V) (ls : option V) : heap * nat :=
  (Heap (next h).+1
        (fun x => if x == next h then init_obj (next h) vs ls else cell h x),
   next h).

Definition empty (v0 : V) : heap :=
  Heap 0 (fun _ => Obj v0 v0 true (fun _ => None)).

(* _adjoint *)
Definition adjoint (h : heap) (a : nat) : heap * nat :=
  match lnk (cell h a) FH with
  | Some b => (h, b)
  | None =>
      let o := cell h a in
      let: (h1, b) := alloc h (left_vecs o) (Some (vecs o)) in
      (setl (setl h1 a FH b) b FH a, b)
  end.

(* conjugate *)
Definition conjugate (h : heap) (a : nat) : heap * nat :=
  match lnk (cell h a) FC with
  | Some b => (h, b)
  | None =>
      let o := cell h a in
      let vs := vconj (vecs o) in
      let ls := if herm o then vs else vconj (left_vecs o) in
      let: (h1, b) := alloc h vs (Some ls) in
      let h3 := setl (setl h1 a FC b) b FC a in
      ((if herm o then setl (setl h3 a FT b) b FT a else h3), b)
  end.

(* _transpose *)
Definition transpose (h : heap) (a : nat) : heap * nat :=
  match lnk (cell h a) FT with
  | Some b => (h, b)
  | None =>
      let: (h1, t) :=
        if herm (cell h a) then conjugate h a
        else let: (h', c) := conjugate h a in adjoint h' c in
      (setl (setl h1 a FT t) t FT a, t)
  end.

Definition run_op (h : heap) (a : nat) (o : op) : heap * nat :=
  match o with OpT => transpose h a | OpH => adjoint h a | OpC => conjugate h a end.

Fixpoint run (h : heap) (a : nat) (w : seq op) : heap * nat :=
  match w with
  | [::] => (h, a)
  | o :: w' => let: (h1, b) := run_op h a o in run h1 b w'
  end.

(* run recording every visited address (for the identity comparison of the harness) *)
Fixpoint trace (h : heap) (a : nat) (w : seq op) : seq nat :=
  match w with
  | [::] => [:: a]
  | o :: w' => let: (h1, b) := run_op h a o in a :: trace h1 b w'
  end.

(* ------------------------------------------------------------------ *)
(* Denotation of the stored data and its transforms                   *)

Definition dat (o : obj) : V * V := (vecs o, left_vecs o).

Definition gact (f : fld) (d : V * V) : V * V :=
  match f with
  | FH => (d.2, d.1)
  | FC => (vconj d.1, vconj d.2)
  | FT => (vconj d.2, vconj d.1)
  end.

Definition fld_of (o : op) : fld := match o with OpT => FT | OpH => FH | OpC => FC end.

Definition act (d : V * V) (o : op) : V * V := gact (fld_of o) d.

(* ------------------------------------------------------------------ *)
(* Invariant                                                          *)

Hypothesis vconjK : involutive vconj.

Lemma gactK f : involutive (gact f).
Proof. by case: f => -[x y]; rewrite /gact /= ?vconjK. Qed.

Definition wf (h : heap) : Prop :=
  forall a, a < next h ->
    let o := cell h a in
    [/\ herm o = (left_vecs o == vecs o),
        (* adjoint and conjugate links are symmetric and denote the transform *)
        forall f b, f != FT -> lnk o f = Some b ->
           [/\ b < next h, dat (cell h b) = gact f (dat o) & lnk (cell h b) f = Some a],
        (* transpose links denote the transform (they are NOT symmetric in general) *)
        forall b, lnk o FT = Some b -> b < next h /\ dat (cell h b) = gact FT (dat o) &
        herm o -> lnk o FH = Some a /\ lnk o FT = lnk o FC].

Lemma wf_empty v0 : wf (empty v0).
Proof. by move=> a; rewrite ltn0. Qed.

Lemma wf_lnk h a f b : wf h -> a < next h -> lnk (cell h a) f = Some b ->
  b < next h /\ dat (cell h b) = gact f (dat (cell h a)).
Proof.
move=> W lt_a; case: (W a lt_a) => _ H2 H3 _; case: f => E.
- by case: (H2 FH b isT E).
- by case: (H2 FC b isT E).
- exact: H3.
Qed.

(* the constructor *)
Lemma wf_alloc h vs ls : wf h -> wf (alloc h vs ls).1.
Proof.
move=> W a; rewrite /alloc /= ltnS leq_eqVlt; case/orP=> [/eqP->|lt_a].
  rewrite eqxx /init_obj; case: ls => [l|] /=; last first.
    split=> //; rewrite ?eqxx //.
    - by move=> f b; case: f.
    - by [].
  case E: (l == vs) => /=.
    split=> //; rewrite ?eqxx //.
    - move=> f b; case: f => //= _ [<-]; rewrite eqxx /init_obj /= E /=; split=> //.
    - by [].
  split=> //.
  - by rewrite E.
  - by move=> f b; rewrite andbF.
  - by [].
have ne : (a == next h) = false by apply/negbTE; rewrite neq_ltn lt_a.
rewrite ne; case: (W a lt_a) => H1 H2 H3 H4; split=> //.
- move=> f b nT E; case: (H2 f b nT E) => lt_b D S.
  have neb : (b == next h) = false by apply/negbTE; rewrite neq_ltn lt_b.
  by rewrite neb; split=> //; apply: ltnW.
- move=> b E; case: (H3 b E) => lt_b D.
  have neb : (b == next h) = false by apply/negbTE; rewrite neq_ltn lt_b.
  by rewrite neb; split=> //; apply: ltnW.
Qed.

Lemma alloc_fresh h vs ls :
  let: (h1, b) := alloc h vs ls in
  [/\ b = next h, next h1 = (next h).+1, cell h1 b = init_obj b vs ls
    & forall x, x != b -> cell h1 x = cell h x].
Proof. by rewrite /alloc /= eqxx; split=> // x /negbTE->. Qed.

(* Setting a pair of mutually inverse links f between a and b. *)
Lemma wf_link2 h a b f :
  wf h -> a < next h -> b < next h ->
  dat (cell h b) = gact f (dat (cell h a)) ->
  (* no third object is left with a dangling symmetric link *)
  (f != FT -> (lnk (cell h a) f = None \/ lnk (cell h a) f = Some b) /\
              (lnk (cell h b) f = None \/ lnk (cell h b) f = Some a)) ->
  (* hermitian objects keep FH = self and FT = FC *)
  (herm (cell h a) -> f = FT /\ lnk (cell h a) FC = Some b) ->
  (herm (cell h b) -> f = FT /\ lnk (cell h b) FC = Some a) ->
  wf (setl (setl h a f b) b f a).
Proof.
move=> W lt_a lt_b D Hsym Ha Hb x lt_x.
have D' : dat (cell h a) = gact f (dat (cell h b)) by rewrite D gactK.
have cellE y : cell (setl (setl h a f b) b f a) y =
   if y == b then with_lnk (if b == a then with_lnk (cell h a) f (Some b) else cell h b) f (Some a)
   else if y == a then with_lnk (cell h a) f (Some b) else cell h y.
  by rewrite /setl /upd /=.
have datE y : dat (cell (setl (setl h a f b) b f a) y) = dat (cell h y).
  rewrite cellE; case: (y =P b) => [->|_]; first by case: (b =P a) => [->|].
  by case: (y =P a) => [->|].
have hermE y : herm (cell (setl (setl h a f b) b f a) y) = herm (cell h y).
  rewrite cellE; case: (y =P b) => [->|_]; first by case: (b =P a) => [->|].
  by case: (y =P a) => [->|].
have lnkE y g : lnk (cell (setl (setl h a f b) b f a) y) g =
   if g == f then (if y == b then Some a else if y == a then Some b else lnk (cell h y) g)
   else lnk (cell h y) g.
  rewrite cellE; case: (y =P b) => [->|_] /=.
    by case: (g == f) => //; case: (b =P a) => [->|] //=; case: (g == f).
  by case: (y =P a) => [->|] //=; case: (g == f).
rewrite /= hermE !lnkE.
have := datE x; rewrite /dat => -[-> ->].
case: (W x lt_x) => H1 H2 H3 H4; split=> //.
- move=> g y nT; rewrite lnkE datE.
  case: (g =P f) => [->{g} in nT *|ne_gf]; last first.
    move=> E; case: (H2 g y nT E) => lt_y Dy Sy; split=> //.
    by rewrite lnkE; move/eqP/negbTE: ne_gf => ->.
  case: (Hsym nT) => Sa Sb.
  case: (x =P b) => [->|ne_xb].
    case=> <-; split=> //; rewrite lnkE eqxx.
    by case: (a =P b) => // ->.
  case: (x =P a) => [->|ne_xa].
    by case=> <-; split=> //; rewrite lnkE !eqxx.
  move=> E; case: (H2 f y nT E) => lt_y Dy Sy; split=> //.
  rewrite lnkE eqxx.
  case: (y =P b) => [ey|_].
    by move: Sy; rewrite ey; case: Sb => ->// [ex]; case: ne_xa.
  case: (y =P a) => [ey|_] //.
  by move: Sy; rewrite ey; case: Sa => ->// [ex]; case: ne_xb.
- move=> y; rewrite datE.
  case: (FT =P f) => [<-|ne_f]; last by apply: H3.
  case: (x =P b) => [->|ne_xb]; first by case=> <-; split=> //; rewrite D' -?ef.
  case: (x =P a) => [->|ne_xa]; first by case=> <-.
  exact: H3.
- move=> hx; case: (H4 hx) => S1 S2.
  case: (x =P b) => [ex|ne_xb].
    move: hx; rewrite ex => /Hb [-> ->] /=; split=> //.
    by move: S1; rewrite ex.
  case: (x =P a) => [ex|ne_xa].
    move: hx; rewrite ex => /Ha [-> ->] /=; split=> //.
    by move: S1; rewrite ex.
  split.
    case: (FH =P f) => // ef.
    by [].
  by case: (FT =P f) => [ef|_]; case: (FC =P f) => [ef'|_] //;
     [move: ef'; rewrite -ef | |].
Qed.

End Heap.
