(* Object-graph model of the caching links of pymablock.linalg.ComplementProjector
   (/repo/pymablock/linalg.py, class ComplementProjector: __init__, _adjoint, conjugate,
   _transpose).  Generic in the type V of arrays, so that the same code is run on
   lists of Gaussian integers (correspondence harness) and on MathComp matrices
   (theorems).  Objects live in a heap; addresses are natural numbers; Python's `is`
   is equality of addresses. *)
From mathcomp Require Import all_ssreflect.
Set Implicit Arguments. Unset Strict Implicit. Unset Printing Implicit Defensive.

(* the three cached links: _adjoint_operator, _conjugate_operator, _transpose_operator *)
Inductive fld := FH | FC | FT.
Definition fld_eqb (f g : fld) :=
  match f, g with FH, FH | FC, FC | FT, FT => true | _, _ => false end.
Lemma fld_eqP : Equality.axiom fld_eqb.
Proof. by do 2!case; constructor. Qed.
Canonical fld_eqMixin := EqMixin fld_eqP.
Canonical fld_eqType := Eval hnf in EqType fld fld_eqMixin.

(* operations of the public interface: .T, .H, .conjugate() *)
Inductive op := OpT | OpH | OpC.

Section Heap.
Variable V : eqType.
Variable vconj : V -> V.

Record obj := Obj { vecs : V; left_vecs : V; herm : bool; lnk : fld -> option nat }.
Record heap := Heap { next : nat; cell : nat -> obj }.

Definition with_lnk (o : obj) (f : fld) (b : option nat) : obj :=
  Obj (vecs o) (left_vecs o) (herm o) (fun g => if g == f then b else lnk o g).

Definition upd (h : heap) (a : nat) (o : obj) : heap :=
  Heap (next h) (fun x => if x == a then o else cell h x).

Definition setl (h : heap) (a : nat) (f : fld) (b : nat) : heap :=
  upd h a (with_lnk (cell h a) f (Some b)).

(* __init__(self, vecs, left_vecs=None):
     self._hermitian = left_vecs is None or left_vecs is vecs or array_equal(left_vecs, vecs)
     self._left_vecs = vecs if self._hermitian else left_vecs
     self._adjoint_operator = self if self._hermitian else None; the other two None *)
Definition init_obj (self : nat) (vs : V) (ls : option V) : obj :=
  let hm := if ls is Some l then l == vs else true in
  Obj vs (if hm then vs else odflt vs ls) hm
      (fun g => if (g == FH) && hm then Some self else None).

Definition alloc (h : heap) (vs : V) (ls : option V) : heap * nat :=
  (Heap (next h).+1
        (fun x => if x == next h then init_obj (next h) vs ls else cell h x),
   next h).

Arguments setl : simpl never.
Arguments alloc : simpl never.

Definition empty (v0 : V) : heap :=
  Heap 0 (fun _ => Obj v0 v0 true (fun _ => None)).

(* _adjoint *)
Definition adjoint (h : heap) (a : nat) : heap * nat :=
  match lnk (cell h a) FH with
  | Some b => (h, b)
  | None =>
      let o := cell h a in
      let r := alloc h (left_vecs o) (Some (vecs o)) in
      (setl (setl r.1 a FH r.2) r.2 FH a, r.2)
  end.

(* conjugate *)
Definition conjugate (h : heap) (a : nat) : heap * nat :=
  match lnk (cell h a) FC with
  | Some b => (h, b)
  | None =>
      let o := cell h a in
      let vs := vconj (vecs o) in
      let ls := if herm o then vs else vconj (left_vecs o) in
      let r := alloc h vs (Some ls) in
      let h3 := setl (setl r.1 a FC r.2) r.2 FC a in
      ((if herm o then setl (setl h3 a FT r.2) r.2 FT a else h3), r.2)
  end.

(* _transpose *)
Definition transpose (h : heap) (a : nat) : heap * nat :=
  match lnk (cell h a) FT with
  | Some b => (h, b)
  | None =>
      let r :=
        if herm (cell h a) then conjugate h a
        else let c := conjugate h a in adjoint c.1 c.2 in
      (setl (setl r.1 a FT r.2) r.2 FT a, r.2)
  end.

Definition run_op (h : heap) (a : nat) (o : op) : heap * nat :=
  match o with OpT => transpose h a | OpH => adjoint h a | OpC => conjugate h a end.

Fixpoint run (h : heap) (a : nat) (w : seq op) : heap * nat :=
  match w with
  | [::] => (h, a)
  | o :: w' => let r := run_op h a o in run r.1 r.2 w'
  end.

(* run recording every visited address (for the identity comparison of the harness) *)
Fixpoint trace (h : heap) (a : nat) (w : seq op) : seq nat :=
  match w with
  | [::] => [:: a]
  | o :: w' => let r := run_op h a o in a :: trace r.1 r.2 w'
  end.

(* ------------------------------------------------------------------ *)
(* Denotation of the stored data and its transforms                   *)

Definition dat (o : obj) : V * V := (vecs o, left_vecs o).

Definition gact (f : fld) (d : V * V) : V * V :=
  match f with
  | FH => (d.2, d.1)
  | FC => (vconj d.1, vconj d.2)
  | FT => (vconj d.2, vconj d.1)
  end.

Definition fld_of (o : op) : fld := match o with OpT => FT | OpH => FH | OpC => FC end.

Definition act (d : V * V) (o : op) : V * V := gact (fld_of o) d.

(* ------------------------------------------------------------------ *)
(* Invariant                                                          *)

Hypothesis vconjK : involutive vconj.

Lemma gactK f : involutive (gact f).
Proof. by case: f => -[x y]; rewrite /gact /= ?vconjK. Qed.

Definition wf (h : heap) : Prop :=
  forall a, a < next h ->
    let o := cell h a in
    [/\ herm o = (left_vecs o == vecs o),
        (* adjoint and conjugate links are symmetric and denote the transform *)
        forall f b, f != FT -> lnk o f = Some b ->
           [/\ b < next h, dat (cell h b) = gact f (dat o) & lnk (cell h b) f = Some a],
        (* transpose links denote the transform (they are NOT symmetric in general) *)
        forall b, lnk o FT = Some b -> b < next h /\ dat (cell h b) = gact FT (dat o) &
        herm o -> lnk o FH = Some a /\ lnk o FT = lnk o FC].

Lemma wf_empty v0 : wf (empty v0).
Proof. by move=> a; rewrite ltn0. Qed.

Lemma wf_lnk h a f b : wf h -> a < next h -> lnk (cell h a) f = Some b ->
  b < next h /\ dat (cell h b) = gact f (dat (cell h a)).
Proof.
move=> W lt_a; case: (W a lt_a) => _ H2 H3 _; case: f => E.
- by case: (H2 FH b isT E).
- by case: (H2 FC b isT E).
- exact: H3.
Qed.

(* the constructor *)
Lemma init_herm self vs ls :
  let o := init_obj self vs ls in
  [/\ herm o = (left_vecs o == vecs o), vecs o = vs,
      forall g, lnk o g = if (g == FH) && herm o then Some self else None
    & herm o -> left_vecs o = vs].
Proof.
rewrite /init_obj; case: ls => [l|] /=; last by rewrite eqxx.
by case E: (l == vs) => /=; rewrite ?eqxx ?E.
Qed.

Lemma alloc_fresh h vs ls :
  [/\ (alloc h vs ls).2 = next h, next (alloc h vs ls).1 = (next h).+1,
      cell (alloc h vs ls).1 (next h) = init_obj (next h) vs ls
    & forall x, x != next h -> cell (alloc h vs ls).1 x = cell h x].
Proof. by rewrite /alloc /= eqxx; split=> // x /negbTE->. Qed.

Lemma wf_alloc h vs ls : wf h -> wf (alloc h vs ls).1.
Proof.
move=> W a; case: (alloc_fresh h vs ls) => _ -> cN cO.
rewrite ltnS leq_eqVlt; case/orP=> [/eqP->|lt_a].
  rewrite cN; case: (init_herm (next h) vs ls) => I1 I2 I3 I4; split=> //.
  - move=> f b nT; rewrite I3; case: ifP => // /andP[/eqP-> hm] [<-].
    rewrite cN I3 eqxx hm /dat (I4 hm) I2 /=; split=> //.
  - by move=> hm; rewrite !I3 hm.
have ne : a != next h by rewrite neq_ltn lt_a.
rewrite (cO _ ne); case: (W a lt_a) => H1 H2 H3 H4; split=> //.
- move=> f b nT E; case: (H2 f b nT E) => lt_b D S.
  have neb : b != next h by rewrite neq_ltn lt_b.
  by rewrite (cO _ neb); split=> //; apply: ltnW.
- move=> b E; case: (H3 b E) => lt_b D.
  have neb : b != next h by rewrite neq_ltn lt_b.
  by rewrite (cO _ neb); split=> //; apply: ltnW.
Qed.

(* Setting pairs of mutually inverse links (all fields in fs) between a and b. *)
Lemma wf_link2_abs h h' a b (fs : pred fld) :
  wf h -> a < next h -> b < next h ->
  (forall g, fs g -> dat (cell h b) = gact g (dat (cell h a))) ->
  (* no third object is left with a dangling symmetric link *)
  (forall g, fs g -> g != FT ->
      (lnk (cell h a) g = None \/ lnk (cell h a) g = Some b) /\
      (lnk (cell h b) g = None \/ lnk (cell h b) g = Some a)) ->
  (* hermitian objects keep FH = self and FT = FC *)
  (herm (cell h a) -> [/\ ~~ fs FH, fs FT & fs FC \/ lnk (cell h a) FC = Some b]) ->
  (herm (cell h b) -> [/\ ~~ fs FH, fs FT & fs FC \/ lnk (cell h b) FC = Some a]) ->
  next h' = next h ->
  (forall y, vecs (cell h' y) = vecs (cell h y)) ->
  (forall y, left_vecs (cell h' y) = left_vecs (cell h y)) ->
  (forall y, herm (cell h' y) = herm (cell h y)) ->
  (forall y g, lnk (cell h' y) g =
     if fs g then (if y == b then Some a else if y == a then Some b else lnk (cell h y) g)
     else lnk (cell h y) g) ->
  wf h'.
Proof.
move=> W lt_a lt_b D Hsym Ha Hb nextE vE lE hermE lnkE x; rewrite nextE => lt_x.
have D' g : fs g -> dat (cell h a) = gact g (dat (cell h b)) by move/D->; rewrite gactK.
have datE y : dat (cell h' y) = dat (cell h y) by rewrite /dat vE lE.
case: (W x lt_x) => H1 H2 H3 H4; split.
- by rewrite hermE vE lE.
- move=> g y nT; rewrite lnkE !datE.
  case fg: (fs g); last first.
    by move=> E; case: (H2 g y nT E) => lt_y Dy Sy; split; rewrite ?datE // lnkE fg.
  case: (Hsym g fg nT) => Sa Sb.
  case: (x =P b) => [->|ne_xb].
    case=> <-; split=> //; rewrite ?(D' g fg) // lnkE fg eqxx.
    by case: (a =P b) => [->|_] //; rewrite eqxx.
  case: (x =P a) => [->|ne_xa].
    by case=> <-; split; rewrite ?(D g fg) // lnkE fg !eqxx.
  move=> E; case: (H2 g y nT E) => lt_y Dy Sy; split; rewrite ?datE //.
  rewrite lnkE fg.
  case: (y =P b) => [ey|_].
    by move: Sy; rewrite ey; case: Sb => ->// [ex]; case: ne_xa.
  case: (y =P a) => [ey|_] //.
  by move: Sy; rewrite ey; case: Sa => ->// [ex]; case: ne_xb.
- move=> y; rewrite lnkE !datE.
  case fg: (fs FT); last by apply: H3.
  case: (x =P b) => [->|ne_xb]; first by case=> <-; rewrite (D' FT fg).
  case: (x =P a) => [->|ne_xa]; first by case=> <-; rewrite (D FT fg).
  exact: H3.
- rewrite hermE !lnkE => hx; case: (H4 hx) => S1 S2.
  case: (x =P b) => [ex|ne_xb].
    move: hx S1; rewrite ex => /Hb [/negbTE-> -> C] ->; split=> //.
    by case: ifP C => // _ [].
  case: (x =P a) => [ex|ne_xa].
    move: hx S1; rewrite ex => /Ha [/negbTE-> -> C] ->; split=> //.
    by case: ifP C => // _ [].
  by rewrite S1 S2; do 3!case: ifP => _ //.
Qed.

Lemma setl_next h a f b : next (setl h a f b) = next h. Proof. by []. Qed.
Lemma setl_vecs h a f b y : vecs (cell (setl h a f b) y) = vecs (cell h y).
Proof. by rewrite /setl /upd /=; case: (y =P a) => [->|]. Qed.
Lemma setl_left h a f b y : left_vecs (cell (setl h a f b) y) = left_vecs (cell h y).
Proof. by rewrite /setl /upd /=; case: (y =P a) => [->|]. Qed.
Lemma setl_herm h a f b y : herm (cell (setl h a f b) y) = herm (cell h y).
Proof. by rewrite /setl /upd /=; case: (y =P a) => [->|]. Qed.
Lemma setl_dat h a f b y : dat (cell (setl h a f b) y) = dat (cell h y).
Proof. by rewrite /dat setl_vecs setl_left. Qed.
Lemma setl_lnk h a f b y g :
  lnk (cell (setl h a f b) y) g = if (y == a) && (g == f) then Some b else lnk (cell h y) g.
Proof. by rewrite /setl /upd /=; case: (y =P a) => [->|] //=; case: (g == f). Qed.

Definition setlE := (setl_next, setl_vecs, setl_left, setl_herm, setl_dat, setl_lnk).

Lemma wf_link2 h a b f :
  wf h -> a < next h -> b < next h ->
  dat (cell h b) = gact f (dat (cell h a)) ->
  (f != FT -> (lnk (cell h a) f = None \/ lnk (cell h a) f = Some b) /\
              (lnk (cell h b) f = None \/ lnk (cell h b) f = Some a)) ->
  (herm (cell h a) -> f = FT /\ lnk (cell h a) FC = Some b) ->
  (herm (cell h b) -> f = FT /\ lnk (cell h b) FC = Some a) ->
  wf (setl (setl h a f b) b f a).
Proof.
move=> W lt_a lt_b D Hsym Ha Hb.
apply: (@wf_link2_abs h _ a b (pred1 f) W lt_a lt_b).
- by move=> g /eqP->.
- by move=> g /eqP->.
- by case/Ha=> -> ->; split=> //; right.
- by case/Hb=> -> ->; split=> //; right.
- by [].
- by move=> y; rewrite !setlE.
- by move=> y; rewrite !setlE.
- by move=> y; rewrite !setlE.
move=> y g; rewrite !setlE /=.
by case: (g == f); rewrite ?andbF ?andbT.
Qed.

(* the Hermitian branch of conjugate sets the conjugate and the transpose links at once *)
Lemma wf_link4 h a b :
  wf h -> a < next h -> b < next h -> a != b ->
  dat (cell h b) = gact FC (dat (cell h a)) ->
  herm (cell h a) -> herm (cell h b) ->
  lnk (cell h a) FC = None -> lnk (cell h b) FC = None ->
  wf (setl (setl (setl (setl h a FC b) b FC a) a FT b) b FT a).
Proof.
move=> W lt_a lt_b ne_ab D ha hb Ca Cb.
have eqa : left_vecs (cell h a) = vecs (cell h a).
  by case: (W a lt_a) => H1 _ _ _; move: ha; rewrite H1 => /eqP.
apply: (@wf_link2_abs h _ a b (predU (pred1 FC) (pred1 FT)) W lt_a lt_b).
- by case=> // _; rewrite D /gact /= eqa.
- by case=> // _ _; rewrite Ca Cb; split; left.
- by move=> _; split=> //; left.
- by move=> _; split=> //; left.
- by [].
- by move=> y; rewrite !setlE.
- by move=> y; rewrite !setlE.
- by move=> y; rewrite !setlE.
move=> y g; rewrite !setlE /=.
case: g; rewrite /= ?andbF ?andbT //.
Qed.

Lemma init_dat self vs l : dat (init_obj self vs (Some l)) = (vs, l).
Proof. by rewrite /init_obj /dat /=; case: (l =P vs) => [->|]. Qed.

Lemma init_hermE self vs l : herm (init_obj self vs (Some l)) = (l == vs).
Proof. by []. Qed.

Lemma init_lnk self vs l g :
  lnk (init_obj self vs (Some l)) g = if (g == FH) && (l == vs) then Some self else None.
Proof. by []. Qed.

(* What one operation guarantees *)
Definition step_ok_c (f : fld) (h : heap) (a : nat) (h' : heap) (b : nat) : Prop :=
  [/\ wf h', b < next h', next h <= next h',
      forall x, x < next h ->
        dat (cell h' x) = dat (cell h x) /\ herm (cell h' x) = herm (cell h x) &
      dat (cell h' b) = gact f (dat (cell h a)) /\ lnk (cell h' a) f = Some b].
Definition step_ok f h a (r : heap * nat) : Prop := step_ok_c f h a r.1 r.2.
Ltac curry_step :=
  match goal with |- step_ok ?f ?h ?a (?x, ?y) => change (step_ok_c f h a x y) end.

Lemma vconj_inj : injective vconj. Proof. exact: inv_inj. Qed.

Lemma adjoint_ok h a : wf h -> a < next h -> step_ok FH h a (adjoint h a).
Proof.
move=> W lt_a; rewrite /adjoint; case E: (lnk (cell h a) FH) => [b|].
  by curry_step; case: (wf_lnk W lt_a E) => lt_b D; split.
set o := cell h a; set r := alloc _ _ _.
case: (alloc_fresh h (left_vecs o) (Some (vecs o))); rewrite -/r => r2 nx cN cO.
have W1 : wf r.1 := @wf_alloc _ _ _ W.
clearbody r.
move: (W a lt_a); rewrite -/o => -[H1 _ _ H4].
have nh : herm o = false by apply/negP=> /H4 []; rewrite E.
have ne_a : a != next h by rewrite neq_ltn lt_a.
have lt_a1 : a < next r.1 by rewrite nx ltnS ltnW.
have lt_n1 : r.2 < next r.1 by rewrite nx r2.
curry_step; rewrite r2; split; rewrite ?setlE //.
- apply: wf_link2 => //; rewrite ?(cO _ ne_a) ?cN -?r2 //.
  + by rewrite init_dat.
  + by move=> _; rewrite -/o E init_lnk /= eq_sym -H1 nh; split; left.
  + by rewrite -/o nh.
  + by rewrite init_hermE eq_sym -H1 nh.
- by rewrite nx.
- by rewrite nx.
- move=> x lt_x; have ne_x : x != next h by rewrite neq_ltn lt_x.
  by rewrite !setlE (cO _ ne_x).
- rewrite cN init_dat; split=> //.
  by rewrite (negbTE ne_a) !eqxx.
Qed.

Lemma conjugate_ok h a : wf h -> a < next h -> step_ok FC h a (conjugate h a).
Proof.
move=> W lt_a; rewrite /conjugate; case E: (lnk (cell h a) FC) => [b|].
  by curry_step; case: (wf_lnk W lt_a E) => lt_b D; split.
set o := cell h a; set vs := vconj (vecs o).
set ls := if herm o then vs else vconj (left_vecs o); set r := alloc _ _ _.
case: (alloc_fresh h vs (Some ls)); rewrite -/r => r2 nx cN cO.
have W1 : wf r.1 := @wf_alloc _ _ _ W.
clearbody r.
move: (W a lt_a); rewrite -/o => -[H1 _ _ H4].
have ne_a : a != next h by rewrite neq_ltn lt_a.
have lt_a1 : a < next r.1 by rewrite nx ltnS ltnW.
have lt_n1 : r.2 < next r.1 by rewrite nx r2.
have lsE : ls = vconj (left_vecs o).
  by rewrite /ls; case: ifP => //; rewrite H1 => /eqP->.
have hn : herm (cell r.1 (next h)) = herm o.
  by rewrite cN init_hermE lsE /vs (inj_eq vconj_inj).
have Dn : dat (cell r.1 (next h)) = gact FC (dat o) by rewrite cN init_dat lsE.
have nea : (a == next h) = false by apply/negbTE.
have keep x : x < next h -> cell r.1 x = cell h x.
  by move=> lt_x; apply: cO; rewrite neq_ltn lt_x.
rewrite r2; case ho: (herm o) hn => hn; curry_step.
  split; rewrite ?setlE ?nx //.
  - apply: wf_link4 => //; rewrite ?(cO _ ne_a) ?hn ?nx //.
    by rewrite cN init_lnk.
  - by move=> x lt_x; rewrite !setlE (keep x lt_x).
  - by rewrite !eqxx nea.
split; rewrite ?setlE ?nx //.
- apply: wf_link2 => //; rewrite ?(cO _ ne_a) ?hn -/o ?ho ?nx //.
  by move=> _; rewrite E cN init_lnk; split; left.
- by move=> x lt_x; rewrite !setlE (keep x lt_x).
- by rewrite !eqxx nea.
Qed.

Lemma transpose_ok h a : wf h -> a < next h -> step_ok FT h a (transpose h a).
Proof.
move=> W lt_a; rewrite /transpose; case E: (lnk (cell h a) FT) => [b|].
  by curry_step; case: (wf_lnk W lt_a E) => lt_b D; split.
set o := cell h a; move: (W a lt_a); rewrite -/o => -[H1 _ _ H4].
case: (conjugate_ok W lt_a); set c := conjugate h a => Wc lt_c le_c keep_c [Dc Lc].
have lt_ac : a < next c.1 := leq_trans lt_a le_c.
case: (keep_c a lt_a) => Da ha.
case ho: (herm o).
  (* Hermitian: the transpose is the conjugate *)
  have eqa : left_vecs o = vecs o by move: ho; rewrite H1 => /eqP.
  have Dt : dat (cell c.1 c.2) = gact FT (dat (cell c.1 a)).
    by rewrite Dc Da /gact /= eqa.
  case: (Wc a lt_ac) => _ H2a _ _; case: (H2a FC c.2 isT Lc) => _ _ Lc'.
  curry_step; split; rewrite ?setlE //.
  - apply: wf_link2 => //.
  - by move=> x /keep_c; rewrite !setlE.
  - split; first by rewrite Dt Da.
    by rewrite !eqxx andbT /=; case: eqP => // ->.
(* general case: the adjoint of the conjugate *)
case: (adjoint_ok Wc lt_c); set t := adjoint c.1 c.2 => Wt lt_t le_t keep_t [Dt Lt].
have lt_at : a < next t.1 := leq_trans lt_ac le_t.
case: (keep_t a lt_ac) => Da' ha'.
have Dt' : dat (cell t.1 t.2) = gact FT (dat (cell t.1 a)).
  by rewrite Dt Dc Da' Da.
have nht : herm (cell t.1 t.2) = false.
  case: (Wt _ lt_t) => -> _ _ _; move: Dt'; rewrite Da' Da /dat /= => -[-> ->].
  by rewrite (inj_eq vconj_inj) eq_sym -H1.
curry_step; split; rewrite ?setlE //.
- apply: wf_link2 => //.
  + by rewrite ha' ha -/o ho.
  + by rewrite nht.
- exact: leq_trans le_c le_t.
- move=> x lt_x; rewrite !setlE; case: (keep_c x lt_x) => <- <-.
  exact: keep_t (leq_trans lt_x le_c).
- split; first by rewrite Dt' Da' Da.
  by rewrite !eqxx andbT /=; case: eqP => // ->.
Qed.

Lemma run_op_ok h a o : wf h -> a < next h -> step_ok (fld_of o) h a (run_op h a o).
Proof. by case: o => /=; [apply: transpose_ok | apply: adjoint_ok | apply: conjugate_ok]. Qed.

(* Main link theorem: any word of operations reaches an object holding the
   corresponding transform of the original data; old objects keep their data. *)
Theorem run_ok h a w : wf h -> a < next h ->
  let r := run h a w in
  [/\ wf r.1, r.2 < next r.1, next h <= next r.1,
      forall x, x < next h -> dat (cell r.1 x) = dat (cell h x)
    & dat (cell r.1 r.2) = foldl act (dat (cell h a)) w].
Proof.
elim: w h a => [|o w IH] h a W lt_a /=; first by split.
case: (run_op_ok o W lt_a); set s := run_op h a o => Ws lt_s le_s keep [Ds Ls].
case: (IH s.1 s.2 Ws lt_s) => W' lt' le' keep' D'; split=> //.
- exact: leq_trans le_s le'.
- by move=> x lt_x; rewrite keep' ?(leq_trans lt_x le_s) //; case: (keep x lt_x).
- by rewrite D' Ds.
Qed.

(* Involutions return the original object *)
Theorem adjoint_twice h a : wf h -> a < next h ->
  let r := adjoint h a in (adjoint r.1 r.2) = (r.1, a).
Proof.
move=> W lt_a /=; case: (adjoint_ok W lt_a) => W' _ le _ [_ L].
case: (W' a (leq_trans lt_a le)) => _ H2 _ _; case: (H2 FH _ isT L) => _ _ L'.
by rewrite {1}/adjoint L'.
Qed.

Theorem conjugate_twice h a : wf h -> a < next h ->
  let r := conjugate h a in (conjugate r.1 r.2) = (r.1, a).
Proof.
move=> W lt_a /=; case: (conjugate_ok W lt_a) => W' _ le _ [_ L].
case: (W' a (leq_trans lt_a le)) => _ H2 _ _; case: (H2 FC _ isT L) => _ _ L'.
by rewrite {1}/conjugate L'.
Qed.

(* .T.T returns the original object if the transpose was not cached before, or if
   the object is Hermitian; in general the object reached holds the same data. *)
Theorem transpose_twice_fresh h a : wf h -> a < next h ->
  lnk (cell h a) FT = None \/ herm (cell h a) ->
  let r := transpose h a in (transpose r.1 r.2) = (r.1, a).
Proof.
move=> W lt_a C /=.
suff L' : lnk (cell (transpose h a).1 (transpose h a).2) FT = Some a.
  by rewrite {1}/transpose L'.
case: C => [E|ha].
  rewrite /transpose E; set r := (if _ then _ else _).
  change (lnk (cell (setl (setl r.1 a FT r.2) r.2 FT a) r.2) FT = Some a).
  by rewrite !setlE !eqxx.
case: (transpose_ok W lt_a) => W' lt' le keep [D L].
have lt_a' := leq_trans lt_a le.
case: (W' a lt_a') => _ H2 _ H4; case: (keep a lt_a) => Da ha'.
rewrite ha' in H4; case: (H4 ha) => _ eTC.
rewrite L in eTC; case: (H2 FC _ isT (esym eTC)) => _ Db Lb.
case: (W' _ lt') => H1b _ _ H4b.
have hb : herm (cell (transpose h a).1 (transpose h a).2).
  case: (W a lt_a) => H1 _ _ _; move: ha; rewrite H1 => /eqP ea.
  by rewrite H1b; move: Db; rewrite Da /dat /= ea => -[-> ->].
by case: (H4b hb) => _ ->.
Qed.

Theorem transpose_twice_dat h a : wf h -> a < next h ->
  let r := transpose h a in
  let r2 := transpose r.1 r.2 in dat (cell r2.1 r2.2) = dat (cell h a).
Proof.
move=> W lt_a /=; case: (transpose_ok W lt_a) => W' lt' le keep [D L].
case: (transpose_ok W' lt') => _ _ _ _ [-> _].
by rewrite D gactK.
Qed.

End Heap.
