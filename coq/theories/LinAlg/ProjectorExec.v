(* Executable list model of the numeric part of ComplementProjector, parametric in
   the scalar type and its operations.  Instantiated (a) at Gaussian integers over Z
   for the correspondence harness, (b) at an arbitrary commutative ring with an
   involution for the refinement lemmas of ProjectorRefine.v, which identify it with
   the MathComp model of Projector.v. *)
From mathcomp Require Import all_ssreflect.
Set Implicit Arguments. Unset Strict Implicit. Unset Printing Implicit Defensive.

Section Exec.
Variable T : Type.
Variables (t0 t1 : T) (tadd tsub tmul : T -> T -> T) (tconj : T -> T).

Definition lmat := seq (seq T).
Definition nthm (A : lmat) (i j : nat) : T := nth t0 (nth [::] A i) j.

Definition dotn (m : nat) (f g : nat -> T) : T :=
  foldr (fun k acc => tadd (tmul (f k) (g k)) acc) t0 (iota 0 m).

(* A : n x m, B : m x p *)
Definition lmul (n m p : nat) (A B : lmat) : lmat :=
  mkseq (fun i => mkseq (fun j => dotn m (fun k => nthm A i k) (fun k => nthm B k j)) p) n.
Definition lsub (n m : nat) (A B : lmat) : lmat :=
  mkseq (fun i => mkseq (fun j => tsub (nthm A i j) (nthm B i j)) m) n.
(* conjugate transpose of A : n x m *)
Definition lctr (n m : nat) (A : lmat) : lmat :=
  mkseq (fun i => mkseq (fun j => tconj (nthm A j i)) n) m.
Definition ltr (n m : nat) (A : lmat) : lmat :=
  mkseq (fun i => mkseq (fun j => nthm A j i) n) m.
Definition lconj (A : lmat) : lmat := map (map tconj) A.
Definition lid (n : nat) : lmat :=
  mkseq (fun i => mkseq (fun j => if i == j then t1 else t0) n) n.

(* _apply / _apply_left / the dense matrix; R, L : n x k, v : n x m *)
Definition lapply (n k m : nat) (R L v : lmat) : lmat :=
  lsub n m v (lmul n k m R (lmul k n m (lctr n k L) v)).
Definition lapply_left (n k m : nat) (R L v : lmat) : lmat :=
  lsub n m v (lmul n k m L (lmul k n m (lctr n k R) v)).
Definition lden (n k : nat) (R L : lmat) : lmat :=
  lsub n n (lid n) (lmul n k n R (lctr n k L)).

End Exec.
