(* Instance of the executable projector model and of the object graph at Gaussian
   integers (pairs of Z): this is what the correspondence harness k_projector.py
   evaluates with vm_compute and compares with /repo. *)
From Coq Require Import ZArith.
From mathcomp Require Import all_ssreflect.
From PV Require Import LinAlg.Heap LinAlg.ProjectorExec LinAlg.Projector.
Set Implicit Arguments. Unset Strict Implicit. Unset Printing Implicit Defensive.

Lemma Z_eqP : Equality.axiom Z.eqb.
Proof. by move=> x y; apply: (iffP idP) => /Z.eqb_eq. Qed.
Canonical Z_eqMixin := EqMixin Z_eqP.
Canonical Z_eqType := Eval hnf in EqType Z Z_eqMixin.

Definition GZ := (Z * Z)%type.
Definition g0 : GZ := (0%Z, 0%Z).
Definition g1 : GZ := (1%Z, 0%Z).
Definition gadd (x y : GZ) : GZ := ((x.1 + y.1)%Z, (x.2 + y.2)%Z).
Definition gsub (x y : GZ) : GZ := ((x.1 - y.1)%Z, (x.2 - y.2)%Z).
Definition gmul (x y : GZ) : GZ :=
  ((x.1 * y.1 - x.2 * y.2)%Z, (x.1 * y.2 + x.2 * y.1)%Z).
Definition gconj (x : GZ) : GZ := (x.1, (- x.2)%Z).

Definition zmat := seq (seq GZ).
Definition zV := [eqType of seq (seq (Z * Z))].

Definition zmul := lmul g0 gadd gmul.
Definition zctr := lctr g0 gconj.
Definition ztr := @ltr GZ g0.
Definition zconj : zmat -> zmat := lconj gconj.
Definition zapply := lapply g0 gadd gsub gmul gconj.
Definition zapply_left := lapply_left g0 gadd gsub gmul gconj.
Definition zden := lden g0 g1 gadd gsub gmul gconj.

(* ---- object graph ---- *)
Definition zheap := heap zV.
Definition zempty : zheap := empty ([::] : zV).
Definition znew (R : zmat) (L : option zmat) : zheap * nat := alloc zempty (R : zV) L.
Definition zrun (R : zmat) (L : option zmat) (w : seq op) : zheap * nat :=
  let r := znew R L in run (zconj : zV -> zV) r.1 r.2 w.
Definition ztrace (R : zmat) (L : option zmat) (w : seq op) : seq nat :=
  let r := znew R L in trace (zconj : zV -> zV) r.1 r.2 w.
(* canonical identity pattern: every visited object is replaced by the position of
   its first visit (Python side: the same with `is`) *)
Definition canon (s : seq nat) : seq nat := [seq index x s | x <- s].

(* the object reached by a word, applied from the left to x (n x m) *)
Definition zword_apply (n k m : nat) (R : zmat) (L : option zmat) (w : seq op) (x : zmat) : zmat :=
  let r := zrun R L w in
  let o := cell r.1 r.2 in zapply n k m (vecs o) (left_vecs o) x.
Definition zword_apply_left (n k m : nat) (R : zmat) (L : option zmat) (w : seq op) (x : zmat) : zmat :=
  let r := zrun R L w in
  let o := cell r.1 r.2 in zapply_left n k m (vecs o) (left_vecs o) x.
Definition zword_herm (R : zmat) (L : option zmat) (w : seq op) : bool :=
  let r := zrun R L w in herm (cell r.1 r.2).

(* ---- LinearOperator contract in list form (mirrors Projector.linop) ---- *)
Record zop := ZOp { zmatmat : nat -> zmat -> zmat; zrmatmat : nat -> zmat -> zmat }.
(* all operators are n x n here; the nat argument is the number of columns of X *)
Definition zop_projector (n k : nat) (R L : zmat) : zop :=
  ZOp (fun p X => zapply n k p R L X) (fun p X => zapply_left n k p R L X).
Definition zop_dense (n : nat) (A : zmat) : zop :=
  ZOp (fun p X => zmul n n p A X) (fun p X => zmul n n p (zctr n n A) X).
Definition zop_prod (a b : zop) : zop :=
  ZOp (fun p X => zmatmat a p (zmatmat b p X)) (fun p X => zrmatmat b p (zrmatmat a p X)).
Definition zop_adj (a : zop) : zop := ZOp (zrmatmat a) (zmatmat a).
Definition zop_tr (a : zop) : zop :=
  ZOp (fun p X => zconj (zrmatmat a p (zconj X))) (fun p X => zconj (zmatmat a p (zconj X))).
(* x : p x n *)
Definition zrdot (n : nat) (aT : zop) (p : nat) (x : zmat) : zmat :=
  ztr n p (zmatmat aT p (ztr p n x)).

Definition zPAP (n k : nat) (R L A : zmat) : zop :=
  zop_prod (zop_prod (zop_projector n k R L) (zop_dense n A)) (zop_projector n k R L).
(* (P A P).H as SciPy builds it: P.H @ (A.H @ P.H), with P.H the adjoint object *)
Definition zPAP_H (n k : nat) (R L A : zmat) : zop :=
  zop_prod (zop_projector n k L R)
           (zop_prod (zop_dense n (zctr n n A)) (zop_projector n k L R)).

Definition dtype_eqb (a b : dtype) : bool :=
  match a, b with DReal, DReal | DComplex, DComplex => true | _, _ => false end.

Definition zeq (A B : zmat) : bool := (A : zV) == (B : zV).
Definition nats_eqb (a b : seq nat) : bool := a == b.
Definition bool_eqb (a b : bool) : bool := a == b.

(* ---- operands scaled by a power of two (left vectors L = L' / s with L' integer) ----
   For data (R, L'/s) the operator s * (1 - R (L'/s)^H) acts as  v |-> (s-1) v + (v - R (L'^H v)),
   i.e. (s-1) v + apply (R, L') v  (Projector.apply_scaled); the same holds for every transform
   of the object because exactly one of the two stored arrays carries the factor 1/s. *)
Definition gscale (c : Z) (x : GZ) : GZ := ((c * x.1)%Z, (c * x.2)%Z).
Definition zaxpy (c : Z) (X Y : zmat) : zmat :=
  [seq [seq gadd (gscale c p.1) p.2 | p <- zip r.1 r.2] | r <- zip X Y].
Definition zop_projector_scaled (s : Z) (n k : nat) (R L : zmat) : zop :=
  ZOp (fun p X => zaxpy (s - 1) X (zapply n k p R L X))
      (fun p X => zaxpy (s - 1) X (zapply_left n k p R L X)).
(* s^2 * (P A P) and s^2 * (P A P)^H built as SciPy builds them *)
Definition zPAPs (s : Z) (n k : nat) (R L A : zmat) : zop :=
  zop_prod (zop_prod (zop_projector_scaled s n k R L) (zop_dense n A)) (zop_projector_scaled s n k R L).
Definition zPAPs_H (s : Z) (n k : nat) (R L A : zmat) : zop :=
  zop_prod (zop_projector_scaled s n k L R)
           (zop_prod (zop_dense n (zctr n n A)) (zop_projector_scaled s n k L R)).
