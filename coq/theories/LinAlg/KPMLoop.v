(* Model of the while loop of pymablock.kpm.greens_function:

     residue = inf; num_moments = 10
     while residue > atol:
         if num_moments > max_moments: warn(RuntimeWarning); break
         sol = <KPM expansion with num_moments moments>
         residue = norm((H @ sol - energy * sol) + vector)
         num_moments *= 4
     return sol                      # UnboundLocalError if the body never ran

   The numerical content (Chebyshev expansion, Jackson kernel, norm) is an abstract
   oracle `res : Z -> T` giving the residual obtained with a number of moments; the
   solution returned is identified with the number of moments that produced it. *)
From Coq Require Import ZArith Lia Bool.
Local Open Scope Z_scope.
Local Arguments Z.mul : simpl never.

Section Loop.
Variable T : Type.                 (* residual values (floats) *)
Variable gtb : T -> T -> bool.     (* residue > atol *)
Variable res : Z -> T.             (* residual of the expansion with that many moments *)
Variable atol : T.
Variable max_moments : Z.

Inductive result :=
| Return (moments : Z) (residue : T) (warned : bool) (iterations : nat)
| RaiseUnboundLocalError (warned : bool)
| OutOfFuel.

(* last = None encodes residue = inf with sol unbound *)
Definition finish (last : option (Z * T)) (warned : bool) (iters : nat) : result :=
  match last with
  | None => RaiseUnboundLocalError warned
  | Some (m, r) => Return m r warned iters
  end.

Fixpoint loop (fuel : nat) (nm : Z) (last : option (Z * T)) (iters : nat) : result :=
  match fuel with
  | O => OutOfFuel
  | S f =>
      if (match last with None => true | Some (_, r) => gtb r atol end) then
        if max_moments <? nm then finish last true iters
        else loop f (4 * nm) (Some (nm, res nm)) (S iters)
      else finish last false iters
  end.

Definition greens_function_loop (fuel : nat) : result := loop fuel 10 None O.

(* loop invariant: whatever is recorded in `last` was produced by the oracle *)
Lemma loop_contract fuel nm last iters m r w it :
  (forall m0 r0, last = Some (m0, r0) -> r0 = res m0) ->
  loop fuel nm last iters = Return m r w it ->
  r = res m /\ (gtb r atol = false \/ w = true).
Proof.
revert nm last iters; induction fuel as [|f IH]; intros nm last iters Hl; simpl; [discriminate|].
destruct last as [[m0 r0]|].
- destruct (gtb r0 atol) eqn:G.
  + destruct (max_moments <? nm).
    * simpl. intros [= <- <- <- <-]. split; auto.
    * apply IH. intros ? ? [= <- <-]. reflexivity.
  + simpl. intros [= <- <- <- <-]. split; auto.
- destruct (max_moments <? nm).
  + simpl. discriminate.
  + apply IH. intros ? ? [= <- <-]. reflexivity.
Qed.

(* On exit either the recorded residual is <= atol or the warning was emitted;
   the residual recorded is the one of the returned solution. *)
Theorem kpm_contract fuel m r w it :
  greens_function_loop fuel = Return m r w it ->
  r = res m /\ (gtb r atol = false \/ w = true).
Proof. apply loop_contract. discriminate. Qed.

(* max_moments < 10: the body never runs, the warning is emitted and `return sol`
   raises UnboundLocalError *)
Theorem kpm_small_max_moments fuel :
  max_moments < 10 -> greens_function_loop (S fuel) = RaiseUnboundLocalError true.
Proof.
intros H. unfold greens_function_loop. simpl.
destruct (Z.ltb_spec max_moments 10); [reflexivity|lia].
Qed.

(* 10 <= max_moments: a solution is bound whenever the loop exits *)
Lemma loop_bound fuel nm last iters w :
  last <> None -> loop fuel nm last iters <> RaiseUnboundLocalError w.
Proof.
revert nm last iters; induction fuel as [|f IH]; intros nm last iters Hl; simpl; [discriminate|].
destruct last as [[m0 r0]|]; [|congruence].
destruct (gtb r0 atol); [destruct (max_moments <? nm)|]; simpl; try discriminate.
apply IH. discriminate.
Qed.

Theorem kpm_bound fuel w :
  10 <= max_moments -> greens_function_loop fuel <> RaiseUnboundLocalError w.
Proof.
intros H. unfold greens_function_loop. destruct fuel as [|f]; simpl; [discriminate|].
destruct (Z.ltb_spec max_moments 10); [lia|].
apply loop_bound. discriminate.
Qed.

(* termination: the number of moments quadruples, so max_moments + 2 units of fuel
   are always enough *)
Lemma loop_terminates fuel nm last iters :
  0 < nm -> (Z.to_nat (max_moments + 1 - nm) < fuel)%nat ->
  loop fuel nm last iters <> OutOfFuel.
Proof.
revert nm last iters; induction fuel as [|f IH]; intros nm last iters Hp Hf; [lia|].
simpl.
assert (F : forall l w i, finish l w i <> OutOfFuel) by (intros [[? ?]|] ? ?; discriminate).
destruct (match last with None => true | Some (_, r) => gtb r atol end); [|apply F].
destruct (Z.ltb_spec max_moments nm); [apply F|].
apply IH; lia.
Qed.

Theorem kpm_terminates fuel :
  (Z.to_nat (max_moments + 2) < fuel)%nat -> greens_function_loop fuel <> OutOfFuel.
Proof. intros H. apply loop_terminates; lia. Qed.

(* the number of iterations is determined by the residuals: iteration j (from 0) uses
   10 * 4^j moments *)
Lemma loop_moments fuel nm last iters m r w it :
  (forall m0 r0, last = Some (m0, r0) -> 4 * m0 = nm) ->
  loop fuel nm last iters = Return m r w it -> 4 * m = nm * 4 ^ Z.of_nat (it - iters) /\ (iters <= it)%nat.
Proof.
revert nm last iters; induction fuel as [|f IH]; intros nm last iters Hl; simpl; [discriminate|].
assert (Fin : finish last true iters = Return m r w it \/ finish last false iters = Return m r w it ->
              4 * m = nm * 4 ^ Z.of_nat (it - iters) /\ (iters <= it)%nat).
{ destruct last as [[m0 r0]|]; simpl; [|intros [|]; discriminate].
  intros [[= <- <- <- <-]|[= <- <- <- <-]]; rewrite Nat.sub_diag; simpl;
    rewrite (Hl _ _ eq_refl); split; auto; lia. }
destruct (match last with None => true | Some (_, r0) => gtb r0 atol end); [|auto].
destruct (max_moments <? nm); [auto|].
intros H. apply IH in H; [|intros ? ? [= <- <-]; reflexivity].
destruct H as [H1 H2]. split; [|lia].
replace (it - iters)%nat with (S (it - S iters)) by lia.
rewrite Nat2Z.inj_succ, Z.pow_succ_r by lia. lia.
Qed.

End Loop.
