(* MathComp model of pymablock.linalg.ComplementProjector: the dense matrix it
   denotes, its two application methods, the three transforms, the LinearOperator
   contract of SciPy used for composites, and the dtype/shape bookkeeping.
   The caching object graph is LinAlg/Heap.v instantiated at V = 'M_(n,k). *)
From mathcomp Require Import all_ssreflect all_algebra.
From PV Require Import LinAlg.Heap.
Set Implicit Arguments. Unset Strict Implicit. Unset Printing Implicit Defensive.
Import GRing.Theory.
Local Open Scope ring_scope.

Section ConjTranspose.
Variable R : comRingType.
Variable conj : {rmorphism R -> R}.
Hypothesis conjK : involutive conj.

Definition conjm m n (A : 'M[R]_(m,n)) : 'M[R]_(m,n) := map_mx conj A.
Definition adjm m n (A : 'M[R]_(m,n)) : 'M[R]_(n,m) := map_mx conj A^T.

Lemma conjmK m n : involutive (@conjm m n).
Proof. by move=> A; apply/matrixP=> i j; rewrite !mxE conjK. Qed.
Lemma adjmK m n (A : 'M[R]_(m,n)) : adjm (adjm A) = A.
Proof. by apply/matrixP=> i j; rewrite !mxE conjK. Qed.
Lemma conjm_mul m n p (A : 'M[R]_(m,n)) (B : 'M_(n,p)) : conjm (A *m B) = conjm A *m conjm B.
Proof. exact: map_mxM. Qed.
Lemma adjm_mul m n p (A : 'M[R]_(m,n)) (B : 'M_(n,p)) : adjm (A *m B) = adjm B *m adjm A.
Proof. by rewrite /adjm trmx_mul map_mxM. Qed.
Lemma conjm_sub m n (A B : 'M[R]_(m,n)) : conjm (A - B) = conjm A - conjm B.
Proof. exact: map_mxB. Qed.
Lemma adjm_sub m n (A B : 'M[R]_(m,n)) : adjm (A - B) = adjm A - adjm B.
Proof. by rewrite /adjm linearB /= map_mxB. Qed.
Lemma conjm1 n : conjm (1%:M : 'M[R]_n) = 1%:M.
Proof. exact: map_mx1. Qed.
Lemma adjm1 n : adjm (1%:M : 'M[R]_n) = 1%:M.
Proof. by rewrite /adjm trmx1 map_mx1. Qed.
Lemma adjm_conjm m n (A : 'M[R]_(m,n)) : adjm (conjm A) = conjm (adjm A).
Proof. by apply/matrixP=> i j; rewrite !mxE. Qed.
Lemma trmx_conjm_adjm m n (A : 'M[R]_(m,n)) : A^T = conjm (adjm A).
Proof. by apply/matrixP=> i j; rewrite !mxE conjK. Qed.
Lemma adjm_tr m n (A : 'M[R]_(m,n)) : adjm A = conjm A^T.
Proof. by []. Qed.

Section Proj.
Variables n k : nat.
Notation V := (matrix_eqType R n k).

(* data of an object: (vecs, left_vecs) *)
Definition den (d : V * V) : 'M[R]_n := 1%:M - d.1 *m adjm d.2.

(* _apply:       v - vecs @ (left_vecs.conj().T @ v)      (= _matvec = _matmat)  *)
Definition apply (d : V * V) m (v : 'M[R]_(n,m)) : 'M[R]_(n,m) :=
  v - d.1 *m (adjm d.2 *m v).
(* _apply_left:  v - left_vecs @ (vecs.conj().T @ v)      (= _rmatvec = _rmatmat) *)
Definition apply_left (d : V * V) m (v : 'M[R]_(n,m)) : 'M[R]_(n,m) :=
  v - d.2 *m (adjm d.1 *m v).

Lemma apply_den d m (v : 'M_(n,m)) : apply d v = den d *m v.
Proof. by rewrite /apply /den mulmxBl mul1mx mulmxA. Qed.

(* scaled form used by the harness for left vectors L'/c with integer L':
   c * (v - R ((L'/c)^H v)) = (c - 1) v + apply (R, L') v *)
Lemma apply_scaled d m (v : 'M_(n,m)) (c : R) :
  (c - 1) *: v + apply d v = c *: v - d.1 *m (adjm d.2 *m v).
Proof. by rewrite /apply scalerBl scale1r addrA subrK. Qed.

Lemma den_adj d : adjm (den d) = 1%:M - d.2 *m adjm d.1.
Proof. by rewrite /den adjm_sub adjm1 adjm_mul adjmK. Qed.

Lemma apply_left_den d m (v : 'M_(n,m)) : apply_left d v = adjm (den d) *m v.
Proof. by rewrite den_adj /apply_left mulmxBl mul1mx mulmxA. Qed.

Definition vconj (A : V) : V := conjm A.
Lemma vconjK : involutive vconj. Proof. exact: conjmK. Qed.

Lemma den_gact f d :
  den (gact vconj f d) =
  match f with FH => adjm (den d) | FC => conjm (den d) | FT => (den d)^T end.
Proof.
case: f; rewrite /gact /=.
- by rewrite den_adj.
- by rewrite /den /vconj conjm_sub conjm1 conjm_mul adjm_conjm.
- by rewrite trmx_conjm_adjm den_adj /den /vconj conjm_sub conjm1 conjm_mul adjm_conjm.
Qed.

(* the dense transform named by an operation *)
Definition tr_op (M : 'M[R]_n) (o : op) : 'M[R]_n :=
  match o with OpT => M^T | OpH => adjm M | OpC => conjm M end.

Lemma den_act d o : den (act vconj d o) = tr_op (den d) o.
Proof. by case: o; rewrite /act den_gact. Qed.

Lemma den_word d w : den (foldl (act vconj) d w) = foldl tr_op (den d) w.
Proof. by elim: w d => //= o w IH d; rewrite IH den_act. Qed.

Definition den_at (h : heap V) (a : nat) : 'M[R]_n := den (dat (cell h a)).

Lemma links_den (h : heap V) a w : wf vconj h -> (a < next h)%N ->
  let r := run vconj h a w in
  [/\ wf vconj r.1, (r.2 < next r.1)%N,
      forall x, (x < next h)%N -> den_at r.1 x = den_at h x
    & den_at r.1 r.2 = foldl tr_op (den_at h a) w].
Proof.
move=> W lt_a; case: (run_ok vconjK w W lt_a) => W' lt' _ keep D; split=> //.
- by move=> x lt_x; rewrite /den_at keep.
- by rewrite /den_at D den_word.
Qed.

Lemma den_idem d : adjm d.2 *m d.1 = 1%:M -> den d *m den d = den d.
Proof.
move=> bi; rewrite /den mulmxBr mulmx1 mulmxBl mul1mx.
by rewrite mulmxA -[d.1 *m adjm d.2 *m d.1]mulmxA bi mulmx1 subrr subr0.
Qed.

Lemma den_herm d : d.2 = d.1 -> adjm (den d) = den d.
Proof. by move=> e; rewrite den_adj /den e. Qed.

Lemma herm_flag_den (h : heap V) a : wf vconj h -> (a < next h)%N ->
  herm (cell h a) -> adjm (den_at h a) = den_at h a.
Proof.
move=> W lt_a; case: (W a lt_a) => -> _ _ _ /eqP e.
by apply: den_herm.
Qed.

End Proj.

(* ------------------------------------------------------------------ *)
(* SciPy's LinearOperator algebra, by contract                        *)

Record linop (n m : nat) := LinOp {
  matmat  : forall p, 'M[R]_(m,p) -> 'M[R]_(n,p);
  rmatmat : forall p, 'M[R]_(n,p) -> 'M[R]_(m,p) }.

Definition denotes n m (a : linop n m) (A : 'M[R]_(n,m)) : Prop :=
  (forall p (X : 'M_(m,p)), matmat a X = A *m X) /\
  (forall p (X : 'M_(n,p)), rmatmat a X = adjm A *m X).

(* the projector as a LinearOperator: _matmat = _apply, _rmatmat = _apply_left *)
Definition of_projector n k (d : 'M[R]_(n,k) * 'M[R]_(n,k)) : linop n n :=
  LinOp (fun p => @apply n k d p) (fun p => @apply_left n k d p).
(* aslinearoperator(A) for a dense or sparse matrix (MatrixLinearOperator contract) *)
Definition of_dense n m (A : 'M[R]_(n,m)) : linop n m :=
  LinOp (fun p X => A *m X) (fun p X => adjm A *m X).
(* _ProductLinearOperator *)
Definition prod_op n m q (a : linop n m) (b : linop m q) : linop n q :=
  LinOp (fun p X => matmat a (matmat b X)) (fun p X => rmatmat b (rmatmat a X)).
(* _AdjointLinearOperator *)
Definition adj_op n m (a : linop n m) : linop m n :=
  LinOp (fun p X => rmatmat a X) (fun p X => matmat a X).
(* _TransposedLinearOperator *)
Definition tr_lop n m (a : linop n m) : linop m n :=
  LinOp (fun p X => conjm (rmatmat a (conjm X))) (fun p X => conjm (matmat a (conjm X))).
(* rdot for matrices: x @ A = (A.T.matmat(x.T)).T *)
Definition rdot n m (aT : linop m n) p (x : 'M[R]_(p,n)) : 'M[R]_(p,m) :=
  (matmat aT x^T)^T.

Lemma denotes_projector n k (d : 'M[R]_(n,k) * 'M[R]_(n,k)) :
  denotes (of_projector d) (den d).
Proof. by split=> p X /=; rewrite ?apply_den ?apply_left_den. Qed.

Lemma denotes_dense n m (A : 'M[R]_(n,m)) : denotes (of_dense A) A.
Proof. by split. Qed.

Lemma denotes_prod n m q (a : linop n m) (b : linop m q) A B :
  denotes a A -> denotes b B -> denotes (prod_op a b) (A *m B).
Proof.
move=> [a1 a2] [b1 b2]; split=> p X /=.
- by rewrite b1 a1 mulmxA.
- by rewrite a2 b2 adjm_mul mulmxA.
Qed.

Lemma denotes_adj n m (a : linop n m) A : denotes a A -> denotes (adj_op a) (adjm A).
Proof. by move=> [a1 a2]; split=> p X /=; rewrite ?adjmK. Qed.

Lemma denotes_tr n m (a : linop n m) A : denotes a A -> denotes (tr_lop a) A^T.
Proof.
move=> [a1 a2]; split=> p X /=.
- by rewrite a2 conjm_mul conjmK -trmx_conjm_adjm.
- by rewrite a1 conjm_mul conjmK /adjm trmxK.
Qed.

Lemma rdot_denotes n m (aT : linop m n) (A : 'M[R]_(n,m)) p (x : 'M_(p,n)) :
  denotes aT A^T -> rdot aT x = x *m A.
Proof. by move=> [a1 _]; rewrite /rdot a1 trmx_mul !trmxK. Qed.

(* P A P, its adjoint (both the generic wrapper and the product SciPy builds from
   the adjoint objects), its transpose and right multiplication *)
Lemma composites n k (d : 'M[R]_(n,k) * 'M[R]_(n,k)) (A : 'M[R]_n) :
  let P := of_projector d in
  let PH := of_projector (gact (@vconj n k) FH d) in
  let PAP := prod_op (prod_op P (of_dense A)) P in
  let M := den d *m A *m den d in
  [/\ denotes PAP M,
      denotes (adj_op PAP) (adjm M),
      denotes (prod_op PH (prod_op (of_dense (adjm A)) PH)) (adjm M),
      denotes (tr_lop PAP) M^T
    & forall p (x : 'M[R]_(p,n)), rdot (tr_lop PAP) x = x *m M].
Proof.
move=> P PH PAP M.
have dP : denotes P (den d) := denotes_projector d.
have dPAP : denotes PAP M.
  by apply: denotes_prod => //; apply: denotes_prod => //; apply: denotes_dense.
split=> //.
- exact: denotes_adj.
- have -> : adjm M = adjm (den d) *m (adjm A *m adjm (den d)).
    by rewrite /M !adjm_mul mulmxA.
  have dPH : denotes PH (adjm (den d)).
    by rewrite -(den_gact FH d); apply: denotes_projector.
  by apply: denotes_prod => //; apply: denotes_prod => //; apply: denotes_dense.
- exact: denotes_tr.
- by move=> p x; apply: rdot_denotes; apply: denotes_tr.
Qed.

End ConjTranspose.

(* ------------------------------------------------------------------ *)
(* dtype and shape bookkeeping of __init__                            *)

Inductive dtype := DReal | DComplex.
Definition join (a b : dtype) : dtype :=
  match a, b with DReal, DReal => DReal | _, _ => DComplex end.
(* dtype = np.result_type(self._vecs.dtype, self._left_vecs.dtype), where
   self._left_vecs is vecs itself when the Hermitian flag is set *)
Definition proj_dtype (vdt ldt : dtype) (hermitian : bool) : dtype :=
  join vdt (if hermitian then vdt else ldt).
(* shape = (vecs.shape[0], vecs.shape[0]) *)
Definition proj_shape (vshape : nat * nat) : nat * nat := (vshape.1, vshape.1).

Lemma join_comm a b : join a b = join b a. Proof. by case: a; case: b. Qed.
Lemma join_idem a : join a a = a. Proof. by case: a. Qed.

(* The transforms build their objects from the stored arrays, swapped (adjoint),
   conjugated (conjugate) or both (transpose); conjugation keeps an array's dtype and
   shape, and the Hermitian flag is the same for the derived object. *)
Definition eff_left (vdt ldt : dtype) (hm : bool) : dtype := if hm then vdt else ldt.
Definition transform_dtypes (f : fld) (vdt ldt : dtype) (hm : bool) : dtype * dtype :=
  match f with
  | FH | FT => (eff_left vdt ldt hm, vdt)
  | FC => (vdt, eff_left vdt ldt hm)
  end.

Lemma proj_dtype_transform f vdt ldt hm :
  let d := transform_dtypes f vdt ldt hm in
  proj_dtype d.1 d.2 hm = proj_dtype vdt ldt hm.
Proof. by case: f; case: hm; rewrite /proj_dtype /= ?join_idem // join_comm. Qed.

Lemma proj_shape_square vs : (proj_shape vs).1 = (proj_shape vs).2.
Proof. by []. Qed.
