(* Executable instances used by the Examples and by the correspondence harness k_formats:
   integer labels as abstract values. *)
Require Import List Bool Arith ZArith Lia.
Require Import PV.Front.Normalize.
Import ListNotations.

Definition ZVals : Vals.
Proof.
  refine (mkVals Z 0%Z (fun v => Z.eqb v 0) (fun n v => (Z.of_nat n * v)%Z)
                 (fun m v => (v / Z.of_nat m)%Z) _ _ _ _).
  - intro v. apply Z.eqb_eq.
  - intro v. change (Z.of_nat 1) with 1%Z. apply Z.mul_1_l.
  - intros a b v. rewrite Nat2Z.inj_mul. symmetry. apply Z.mul_assoc.
  - intros m v Hm. rewrite Z.mul_comm. apply Z.div_mul. lia.
Defined.
