(* Model of the input validation of pymablock.block_diagonalize.

   A call is abstracted to the record [call] of the facts the validation code looks at.
   [checks c] lists the tests IN THEIR ORDER OF EXECUTION at definition time (the body of
   block_diagonalize, including the calls of _to_scalar_BlockSeries, _unpack_blocks,
   _normalize_subspace_eigenvectors, _check_biorthonormality and operator_to_BlockSeries);
   [validate] returns the first one that fires.  [on_first_use] gives the lazily executed
   tests: the shared-eigenvalue test of solve_sylvester_diagonal at the first use of a block
   pair with a right-hand side other than the sentinel zero, the Hermiticity test of the
   Taylor coefficients of a sympy-expression input at their first evaluation, and the index
   test of the wrapper around legacy one-argument solvers.

   Outside the record (preconditions on the container, not validation classes of C20):
   a dict input has a zeroth-order key (else KeyError); indices in fully_diagonalize are
   smaller than the number of blocks (else IndexError); nested block lists are N x N. *)

Require Import List Bool Arith Lia.
Import ListNotations.

Inductive exn := ValueError | TypeError | NotImplementedError | UnboundLocalError.
Inductive stage := AtDefinition | AtFirstUse.
Inductive verdict := Accept | Reject (e : exn) (s : stage).
Inductive tri := Yes | No | Unknown.

(* type of the [hamiltonian] argument *)
Inductive hfmt := FList | FDictTuple | FDictMonomial | FSympyExpr | FBlockSeries | FUnsupported.
Inductive keyfault := KeysOk | KeysNonCommutative | KeysNotMonomial.

(* one value of a fully_diagonalize dictionary *)
Record mask := mkMask {
  m_is_ndarray : bool;
  m_symmetric : bool;          (* (m == m.T).all() *)
  m_hits_equal : bool          (* (m & equal_eigs[i]).any() *)
}.

Inductive fdform :=
| FdEmpty
| FdTuple (l : list nat)
| FdDict (l : list (nat * mask))
| FdArray (truth : option bool) (m : mask).   (* bare array / sympy object; bool(array) may be ambiguous *)

Inductive veckind := VecNumpy | VecSympy | VecOtherType.

Record eigvecs := mkEigvecs {
  ev_has_pair : bool;          (* some entry is a (right, left) tuple *)
  ev_pair_len_ok : bool;
  ev_shapes_ok : bool;
  ev_kind : veckind;           (* type of right_subspaces[0] *)
  (* _check_biorthonormality stacks ALL right vectors and ALL left vectors and compares the full
     overlap matrix L^dagger R with the identity (numpy allclose gives Yes/No, sympy Eq may be
     Unknown).  The two parts of that matrix: *)
  ev_overlap_within : tri;     (* diagonal blocks: L_i^dagger R_i = I for every subspace i *)
  ev_overlap_cross : tri;      (* off-diagonal blocks: L_i^dagger R_j = 0 for i <> j *)
  ev_complete : bool;          (* num_vectors >= dim *)
  ev_dim_matches : bool;       (* h_0.shape[0] == right_subspaces[0].shape[0] *)
  ev_all_ndarray : bool
}.

(* the stacked comparison: definitely different as soon as one part is, equal iff both are *)
Definition tri_and (a b : tri) : tri :=
  match a, b with
  | No, _ | _, No => No
  | Yes, Yes => Yes
  | _, _ => Unknown
  end.
Definition ev_overlap (ev : eigvecs) : tri := tri_and (ev_overlap_within ev) (ev_overlap_cross ev).

(* zeroth-order block (i, j) after projection and _convert_if_zero *)
(* BNonzero: a numeric array that is not allclose to 0, or a sympy object that is decidably
   non-zero (is_zero_matrix / is_zero is False); BUndecided: a sympy object whose vanishing
   sympy cannot decide (only a UserWarning, the block is then assumed to be zero) *)
Inductive h0block := BZero | BNonzero | BUndecided.

Record call := mkCall {
  c_format : hfmt;
  c_nparams : nat;
  c_symbols_missing : bool;          (* sympy expression: a declared symbol is not a free symbol *)
  c_keys : keyfault;                 (* monomial-key dict *)
  c_hermitian : bool;
  c_solver_arity : option nat;       (* custom solve_sylvester and its number of parameters *)
  c_direct_solver : bool;
  c_fd : fdform;
  c_preblocked : bool;               (* values are nested block lists / a BlockSeries with a shape *)
  c_blocks_square : bool;
  c_eigvecs : option eigvecs;
  c_indices : bool;                  (* subspace_indices given *)
  c_h0_symbolic : bool;
  c_nblocks : nat;                   (* H.shape[0] after normalisation *)
  c_h0_off : nat -> nat -> h0block;
  c_h0_diag_zero : nat -> bool;
  c_second_quant : bool;             (* H_0 contains second-quantised operators *)
  c_pair_shares : nat -> nat -> bool;     (* blocks i and j share an eigenvalue: |a-b| <= atol + 1e-5|b| (numeric) / == (sympy) *)
  c_term_herm : list nat -> tri;     (* sympy expression: is_hermitian of the Taylor coefficient *)
  c_invalid_operator : bool;         (* some non-zero diagonal H_0 block has neither __matmul__ nor __mul__ *)
  c_ragged : list nat -> bool        (* nested block lists: the grid of that order is not N x N *)
}.

(* ---------------- derived quantities ---------------- *)

Definition custom (c : call) : bool :=
  match c_solver_arity c with Some _ => true | None => false end.

Definition evb (c : call) (f : eigvecs -> bool) : bool :=
  match c_eigvecs c with Some ev => f ev | None => false end.

Definition has_eigvecs (c : call) : bool := evb c (fun _ => true).

(* use_implicit = num_vectors < dim *)
Definition implicit (c : call) : bool := evb c (fun ev => negb (ev_complete ev)).

Definition fd_truth (f : fdform) : option bool :=
  match f with
  | FdEmpty => Some false
  | FdTuple l => Some (negb (Nat.eqb (length l) 0))
  | FdDict l => Some (negb (Nat.eqb (length l) 0))
  | FdArray t _ => t
  end.

Definition is_array (f : fdform) : bool := match f with FdArray _ _ => true | _ => false end.

(* after "if H.shape[0] == 1: ..." *)
Definition fd_eff (c : call) : fdform :=
  if c_nblocks c =? 1 then
    match c_fd c with
    | FdArray _ m => FdDict [(0, m)]
    | FdEmpty => FdTuple [0]
    | f => f
    end
  else c_fd c.

Definition fd_keys (f : fdform) : list nat :=
  match f with
  | FdEmpty => [] | FdTuple l => l | FdDict l => map fst l | FdArray _ _ => []
  end.

Definition fd_masks (f : fdform) : list mask :=
  match f with FdDict l => map snd l | _ => [] end.

Definition zero_order (c : call) : list nat := repeat 0 (c_nparams c).

(* the block pairs looked at by the block-diagonality loop *)
Definition scanned (c : call) (i j : nat) : bool :=
  negb (i =? j) && negb (c_hermitian c && (j <? i)).

Definition all_pairs (n : nat) : list (nat * nat) :=
  flat_map (fun i => map (fun j => (i, j)) (seq 0 n)) (seq 0 n).

Definition is_nonzero (b : h0block) : bool :=
  match b with BNonzero => true | _ => false end.

(* "not len(fully_diagonalize)" for a tuple / dict *)
Definition fd_len0 (f : fdform) : bool :=
  match f with
  | FdEmpty => true
  | FdTuple l => length l =? 0
  | FdDict l => length l =? 0
  | FdArray _ _ => false
  end.

Definition tri_is_no (t : tri) : bool := match t with No => true | _ => false end.

Definition fmt_is (c : call) (f : hfmt) : bool :=
  match c_format c, f with
  | FList, FList | FDictTuple, FDictTuple | FDictMonomial, FDictMonomial
  | FSympyExpr, FSympyExpr | FBlockSeries, FBlockSeries | FUnsupported, FUnsupported => true
  | _, _ => false
  end.

Definition opt_is (o : option bool) (b : bool) : bool :=
  match o with Some x => Bool.eqb x b | None => false end.
Definition opt_none (o : option bool) : bool := match o with None => true | _ => false end.

(* ---------------- the definition-time tests, in order ---------------- *)

Definition checks (c : call) : list (bool * exn) :=
  let herm := c_hermitian c in
  let imp := implicit c in
  [ (* "if solve_sylvester is not None and fully_diagonalize" *)
    (custom c && opt_none (fd_truth (c_fd c)), ValueError);          (* bool(ndarray) ambiguous *)
    (custom c && opt_is (fd_truth (c_fd c)) true, NotImplementedError);
    (* _to_scalar_BlockSeries *)
    (fmt_is c FUnsupported, TypeError);
    (fmt_is c FSympyExpr && c_symbols_missing c, ValueError);
    (fmt_is c FDictMonomial && match c_keys c with KeysNonCommutative => true | _ => false end, ValueError);
    (fmt_is c FDictMonomial && match c_keys c with KeysNotMonomial => true | _ => false end, ValueError);
    (* _unpack_blocks evaluates the zeroth order: Hermiticity test of the zeroth coefficient *)
    (fmt_is c FSympyExpr && herm && tri_is_no (c_term_herm c (zero_order c)), ValueError);
    (* subspace_eigenvectors *)
    (evb c (fun ev => herm && ev_has_pair ev), ValueError);
    (evb c (fun ev => negb (ev_pair_len_ok ev)), ValueError);
    (evb c (fun ev => negb (ev_shapes_ok ev)), ValueError);
    (evb c (fun ev => match ev_kind ev with VecOtherType => false | _ => tri_is_no (ev_overlap ev) end),
     ValueError);                                                   (* _check_biorthonormality *)
    (* implicit mode *)
    (imp && c_preblocked c, ValueError);
    (imp && c_h0_symbolic c, ValueError);
    (imp && negb herm && negb (custom c) && negb (c_direct_solver c), NotImplementedError);
    (imp && evb c (fun ev => negb (ev_dim_matches ev)), ValueError);
    (imp && negb (custom c) && evb c (fun ev => negb (ev_all_ndarray ev)), TypeError);
    (imp && negb (custom c) && negb (c_direct_solver c) && evb c ev_has_pair, NotImplementedError);
    (* operator_to_BlockSeries *)
    (has_eigvecs c && c_indices c, ValueError);
    (c_preblocked c && (has_eigvecs c || c_indices c), ValueError);
    (c_preblocked c && negb (c_blocks_square c), ValueError);
    (* fully_diagonalize as a bare array with several blocks *)
    (negb (c_nblocks c =? 1) && is_array (c_fd c), ValueError);
    (* single block: the default (0,) would be substituted, not supported with a custom solver *)
    ((c_nblocks c =? 1) && fd_len0 (c_fd c) && custom c, NotImplementedError);
    (* _unpack_blocks: "operator must have an NxN block structure" when the zeroth-order grid is
       ragged (raised while the loops below read the blocks) *)
    (c_preblocked c && c_ragged c (zero_order c), ValueError);
    (* block-diagonality of H_0 (blocks sympy cannot decide only warn) *)
    (existsb (fun p => scanned c (fst p) (snd p) && is_nonzero (c_h0_off c (fst p) (snd p)))
             (all_pairs (c_nblocks c)), ValueError);
    (* "The diagonal of the unperturbed Hamiltonian may not be zero" *)
    (forallb (c_h0_diag_zero c) (seq 0 (c_nblocks c)), ValueError);
    (* "The unperturbed Hamiltonian is not a valid operator" *)
    (c_invalid_operator c, ValueError);
    (* implicit block listed in fully_diagonalize *)
    (imp && existsb (Nat.eqb (c_nblocks c - 1)) (fd_keys (fd_eff c)), ValueError);
    (* legacy one-argument solver *)
    (match c_solver_arity c with Some 1 => negb herm | _ => false end, NotImplementedError);
    (* equal_eigs reads [diagonal], which is unbound with a custom solver in explicit mode *)
    (custom c && negb imp && negb (length (fd_keys (fd_eff c)) =? 0), UnboundLocalError);
    (* masks: type, symmetry; then degenerate elimination *)
    (negb (c_second_quant c) &&
     existsb (fun m => negb (m_is_ndarray m) || (herm && negb (m_symmetric m))) (fd_masks (fd_eff c)),
     ValueError);
    (negb (c_second_quant c) && existsb m_hits_equal (fd_masks (fd_eff c)), ValueError)
  ].

Definition validate (c : call) : verdict :=
  match find (fun p : bool * exn => fst p) (checks c) with
  | Some (_, e) => Reject e AtDefinition
  | None => Accept
  end.

(* ---------------- lazily executed tests ---------------- *)

Inductive use :=
| UsePair (i j : nat)          (* solve_sylvester(Y, (i, j)) with Y not the sentinel zero *)
| UseTerm (n : list nat).      (* first evaluation of the input series at order n *)

(* which Sylvester solver block_diagonalize installs *)
Inductive solver := SCustom | SSecondQuant | SDiagonal | SDirect | SKPM.

Definition solver_of (c : call) : solver :=
  if custom c then SCustom
  else if implicit c then (if c_direct_solver c then SDirect else SKPM)
  else if c_second_quant c then SSecondQuant
  else SDiagonal.

(* the pair is handled by a solve_sylvester_diagonal closure (explicit blocks) *)
Definition diag_pair (c : call) (i j : nat) : bool :=
  match solver_of c with
  | SDiagonal => true
  | SDirect | SKPM => (i <? c_nblocks c - 1) && (j <? c_nblocks c - 1)
  | _ => false
  end.

Definition legacy (c : call) : bool :=
  match c_solver_arity c with Some 1 => true | _ => false end.

Definition on_first_use (c : call) (u : use) : verdict :=
  match u with
  | UsePair i j =>
    if legacy c && negb (((i =? 0) && (j =? 1)) || ((i =? 1) && (j =? 0)))
    then Reject ValueError AtFirstUse
    else if diag_pair c i j && negb (i =? j) && c_pair_shares c i j
    then Reject ValueError AtFirstUse
    else Accept
  | UseTerm n =>
    if fmt_is c FSympyExpr && c_hermitian c && tri_is_no (c_term_herm c n)
    then Reject ValueError AtFirstUse
    else if c_preblocked c && c_ragged c n     (* _unpack_blocks, first evaluation of that order *)
    then Reject ValueError AtFirstUse
    else Accept
  end.

(* the whole life of a call: definition, then the uses triggered while evaluating orders
   1, 2, ... (given by the schedule); result: verdict and the order at which it fell *)
Fixpoint first_lazy (c : call) (us : list use) : verdict :=
  match us with
  | [] => Accept
  | u :: r => match on_first_use c u with Accept => first_lazy c r | v => v end
  end.

Fixpoint run_schedule (c : call) (sched : list (nat * list use)) : verdict * option nat :=
  match sched with
  | [] => (Accept, None)
  | (n, us) :: r =>
    match first_lazy c us with
    | Accept => run_schedule c r
    | v => (v, Some n)
    end
  end.

Definition life (c : call) (sched : list (nat * list use)) : verdict * option nat :=
  match validate c with
  | Accept => run_schedule c sched
  | v => (v, None)
  end.

(* ---------------- boolean comparison for the harness ---------------- *)

Definition exn_eqb (a b : exn) : bool :=
  match a, b with
  | ValueError, ValueError | TypeError, TypeError | NotImplementedError, NotImplementedError
  | UnboundLocalError, UnboundLocalError => true
  | _, _ => false
  end.
Definition stage_eqb (a b : stage) : bool :=
  match a, b with AtDefinition, AtDefinition | AtFirstUse, AtFirstUse => true | _, _ => false end.
Definition verdict_eqb (a b : verdict) : bool :=
  match a, b with
  | Accept, Accept => true
  | Reject e s, Reject e' s' => exn_eqb e e' && stage_eqb s s'
  | _, _ => false
  end.
Definition life_eqb (a b : verdict * option nat) : bool :=
  verdict_eqb (fst a) (fst b) &&
  match snd a, snd b with
  | None, None => true | Some x, Some y => x =? y | _, _ => false
  end.
