(* Model of pymablock.block_diagonalization.solve_sylvester_diagonal
   (the closure [solve_sylvester(Y, index)] it returns, with its state [index_checked]).

   One function [sylv_diag] covers the dense, sparse and symbolic branches for
   explicit blocks: entry (a,b) of the result is Y_ab * (1 / (E_a - E_b)) when the
   guard holds for E_a - E_b and 0 otherwise.  The guard is |d| > atol ([far]) in the
   numeric branches (the sparse branch has the same guard since fix b1d6dbb) and
   "d is not exactly 0" in the symbolic branch ([1/0 = zoo -> 0]).
   Division is an explicit partial operation [pdiv]: dividing by a quantity that does
   not pass the safety test yields [None] (outcome [ODivTol]); the theorems say this
   never happens. *)

Require Import List Bool Arith Lia.
Require Import PV.Front.GaussQc.
Import ListNotations.

Inductive kind := Dense | Sparse | Symbolic.
Inductive exn := ValueError | TypeError | IndexError.

Section Model.
Variable F : Fld.
Notation K := (K F).
Notation k0 := (k0 F).

Definition mat := list (list K).

(* eigenvalues of one block: [np.array(0)] (0-d, used for blocks whose H_0 is the
   sentinel zero) or a 1-d array *)
Inductive eigs := EScalar0 | EVec (l : list K).

Definition eig_at (e : eigs) (a : nat) : K :=
  match e with EScalar0 => k0 | EVec l => nth a l k0 end.

(* e.reshape(-1, 1) flattened: the values that take part in the shared-eigenvalue test *)
Definition vals (e : eigs) : list K :=
  match e with EScalar0 => [k0] | EVec l => l end.

(* right-hand side: the sentinel [zero], a matrix of one of the three supported
   types, or any other Python object *)
Inductive rhs := YZero | YMat (k : kind) (M : mat) | YOther.

Inductive outcome :=
| OZero                    (* the sentinel zero *)
| OVal (V : mat)
| ORaise (e : exn)
| ODivTol                  (* model only: a division by a quantity failing the safety test *)
| OUnmodelled.             (* shape mismatch, or unsupported rhs type with vecs_implicit *)

(* ---------------- partial division ---------------- *)

Definition nonzero (d : K) : bool := negb (keqb F d k0).

Definition pdiv (safe : K -> bool) (x d : K) : option K :=
  if safe d then Some (kmul F x (kinv F d)) else None.

(* np.where(np.abs(dE) > atol, 1 / dE, 0) * Y     (numeric)
   (1 / dE).subs(zoo, 0) * Y                      (symbolic) *)
Definition entry (g : K -> bool) (y d : K) : option K :=
  if g d then pdiv g y d else Some k0.

Definition guard (k : kind) : K -> bool :=
  match k with Symbolic => nonzero | _ => far F end.

(* shared = np.equal(..) if Y is a sympy matrix else np.isclose(.., atol=atol)   (fix e4d96a1) *)
Definition cmp (k : kind) : K -> K -> bool :=
  match k with Symbolic => keqb F | _ => close F end.

(* ---------------- list helpers ---------------- *)

Fixpoint sequence {A} (l : list (option A)) : option (list A) :=
  match l with
  | [] => Some []
  | None :: _ => None
  | Some a :: r => match sequence r with Some r' => Some (a :: r') | None => None end
  end.

Fixpoint imap {A B} (f : nat -> A -> B) (i : nat) (l : list A) : list B :=
  match l with [] => [] | a :: r => f i a :: imap f (S i) r end.

Definition mget (M : mat) (a b : nat) : K := nth b (nth a M []) k0.

(* entrywise: M_ab -> op M_ab (E_a - E_b) *)
Definition by_energy (op : K -> K -> option K) (eA eB : eigs) (M : mat) : option mat :=
  sequence
    (imap (fun a row =>
             sequence (imap (fun b y => op y (ksub F (eig_at eA a) (eig_at eB b))) 0 row))
          0 M).

Definition sylv_diag (g : K -> bool) (eA eB : eigs) (Y : mat) : option mat :=
  by_energy (entry g) eA eB Y.

(* the same without the guard: what the two vecs_implicit branches do
   ([1 / (eigs_A.reshape(-1, 1) - eigs_B)], safe only if no difference is zero) *)
Definition sylv_raw (eA eB : eigs) (Y : mat) : option mat :=
  by_energy (pdiv nonzero) eA eB Y.

(* ---------------- dense matrix products (implicit branches only) ---------------- *)

Fixpoint dot (u v : list K) : K :=
  match u, v with
  | x :: u', y :: v' => kadd F (kmul F x y) (dot u' v')
  | _, _ => k0
  end.

Definition ncols (M : mat) : nat := length (hd [] M).
Definition col (j : nat) (M : mat) : list K := map (fun r => nth j r k0) M.
Definition mmul (A B : mat) : mat :=
  map (fun r => map (fun j => dot r (col j B)) (seq 0 (ncols B))) A.
Definition dagger (M : mat) : mat :=
  map (fun j => map (kconj F) (col j M)) (seq 0 (ncols M)).

(* ---------------- the solver closure ---------------- *)

Variable E : list eigs.            (* [eigs] *)
Variable vimp : option mat.        (* [vecs_implicit] *)

Definition state := list (nat * nat).      (* [index_checked] *)

Definition memp (p : nat * nat) (st : state) : bool :=
  existsb (fun q => (fst p =? fst q) && (snd p =? snd q)) st.

(* np.any(compare(eigs_A.reshape(-1, 1), eigs_B.reshape(1, -1))) *)
Definition shares (k : kind) (eA eB : eigs) : bool :=
  existsb (fun a => existsb (fun b => cmp k a b) (vals eB)) (vals eA).

Definition kind_of (Y : rhs) : kind :=
  match Y with YMat k _ => k | _ => Dense end.

Definition of_opt (o : option mat) : outcome :=
  match o with Some V => OVal V | None => ODivTol end.

(* The shapes of Y and of the eigenvalue arrays agree (0-d arrays broadcast).  What numpy
   / scipy / sympy do on a mismatch (broadcast error, IndexError, np.resize wrap-around)
   is outside the contract of the solver and not modelled. *)
Definition dim_ok (e : eigs) (n : nat) : bool :=
  match e with EScalar0 => true | EVec l => length l =? n end.
Definition shape_ok (eA eB : eigs) (M : mat) : bool :=
  dim_ok eA (length M) && forallb (fun r => dim_ok eB (length r)) M.

Definition checked (eA eB : eigs) (M : mat) (f : mat -> outcome) : outcome :=
  if shape_ok eA eB M then f M else OUnmodelled.

(* the part of the call after the shared-eigenvalue test: dispatch on vecs_implicit and on
   the type of Y, in the order of the if-chain *)
Definition dispatch (Y : rhs) (i j : nat) (eA eB : eigs) : outcome :=
  let last := length E - 1 in
  let explicit :=
    match Y with
    | YMat k M => checked eA eB M (fun M => of_opt (sylv_diag (guard k) eA eB M))
    | _ => ORaise TypeError
    end in
  match vimp, Y with
  | Some W, YMat _ M =>
    if j =? last then
      (* ((Y @ W) * (1 / dE)) @ Dagger(W) *)
      checked eA eB (mmul M W) (fun T0 =>
        match sylv_raw eA eB T0 with
        | Some T => OVal (mmul T (dagger W)) | None => ODivTol end)
    else if i =? last then
      (* W @ ((Dagger(W) @ Y) * (1 / dE)) *)
      checked eA eB (mmul (dagger W) M) (fun T0 =>
        match sylv_raw eA eB T0 with
        | Some T => OVal (mmul W T) | None => ODivTol end)
    else explicit
  | Some _, _ =>
    if (j =? last) || (i =? last) then OUnmodelled else explicit
  | None, _ => explicit
  end.

Definition solve (st : state) (Y : rhs) (i j : nat) : outcome * state :=
  match Y with
  | YZero => (OZero, st)
  | _ =>
    match nth_error E i, nth_error E j with
    | Some eA, Some eB =>
      let need := negb (i =? j) && negb (memp (i, j) st) in
      if need && shares (kind_of Y) eA eB then (ORaise ValueError, st)
      else (dispatch Y i j eA eB, if need then (i, j) :: st else st)
    | _, _ => (ORaise IndexError, st)
    end
  end.

(* a sequence of calls of the same closure *)
Fixpoint run (st : state) (reqs : list (rhs * (nat * nat))) : list outcome * state :=
  match reqs with
  | [] => ([], st)
  | (Y, (i, j)) :: r =>
    let '(o, st1) := solve st Y i j in
    let '(os, st2) := run st1 r in
    (o :: os, st2)
  end.

End Model.

Arguments EScalar0 {F}.
Arguments EVec {F} l.
Arguments YZero {F}.
Arguments YMat {F} k M.
Arguments YOther {F}.
Arguments OZero {F}.
Arguments OVal {F} V.
Arguments ORaise {F} e.
Arguments ODivTol {F}.
Arguments OUnmodelled {F}.

(* ---------------- boolean comparisons used by the harness and the Examples ---------------- *)

Section Eqb.
Variable F : Fld.

Fixpoint list_eqb {A} (e : A -> A -> bool) (l1 l2 : list A) : bool :=
  match l1, l2 with
  | [], [] => true
  | a :: r1, b :: r2 => e a b && list_eqb e r1 r2
  | _, _ => false
  end.

Definition mat_eqb (A B : mat F) : bool := list_eqb (list_eqb (keqb F)) A B.

Definition exn_eqb (a b : exn) : bool :=
  match a, b with
  | ValueError, ValueError | TypeError, TypeError | IndexError, IndexError => true
  | _, _ => false
  end.

Definition outcome_eqb (a b : outcome F) : bool :=
  match a, b with
  | OZero, OZero => true
  | OVal A, OVal B => mat_eqb A B
  | ORaise x, ORaise y => exn_eqb x y
  | ODivTol, ODivTol => true
  | OUnmodelled, OUnmodelled => true
  | _, _ => false
  end.

Definition outcomes_eqb (a b : list (outcome F)) : bool := list_eqb outcome_eqb a b.

End Eqb.
