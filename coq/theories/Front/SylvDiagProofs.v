(* Theorems about the model of solve_sylvester_diagonal (Front/SylvDiag.v). *)

Require Import List Bool Arith Lia Ring.
Require Import PV.Front.GaussQc PV.Front.SylvDiag.
Import ListNotations.

Section Proofs.
Variable F : Fld.
Notation K := (K F).
Notation k0 := (k0 F).
Notation "x + y" := (kadd F x y).
Notation "x * y" := (kmul F x y).
Notation "x - y" := (ksub F x y).
Notation "- x" := (kopp F x).

Add Ring Kring : (F_ring F).

(* ------------------------------------------------------------------ *)
(* list lemmas *)

Lemma sequence_imap {A B} (f : nat -> A -> option B) l : forall i V,
  sequence (imap f i l) = Some V ->
  length V = length l /\
  forall n dA dB, n < length l -> f (Nat.add i n) (nth n l dA) = Some (nth n V dB).
Proof.
  induction l as [|x l IH]; intros i V H; cbn in H.
  - inversion H; subst. split; [reflexivity|]. intros; cbn in *; lia.
  - destruct (f i x) eqn:Ef; [|discriminate].
    destruct (sequence (imap f (S i) l)) eqn:Es; [|discriminate].
    inversion H; subst. destruct (IH _ _ Es) as [Hl Hn].
    split; [cbn; congruence|].
    intros [|n] dA dB Hlt; cbn.
    + rewrite Nat.add_0_r. exact Ef.
    + cbn in Hlt. replace (Nat.add i (S n)) with (Nat.add (S i) n) by lia.
      apply Hn; lia.
Qed.

Lemma sequence_imap_total {A B} (f : nat -> A -> option B) l : forall i,
  (forall n a, f n a <> None) -> exists V, sequence (imap f i l) = Some V.
Proof.
  induction l as [|x l IH]; intros i Hf; cbn.
  - eexists; reflexivity.
  - destruct (f i x) eqn:Ef; [|exfalso; eapply Hf; eauto].
    destruct (IH (S i) Hf) as [V HV]. rewrite HV. eexists; reflexivity.
Qed.

Lemma sequence_imap_total_in {A B} (f : nat -> A -> option B) l : forall i,
  (forall n a, n < length l -> f (Nat.add i n) (nth n l a) <> None) ->
  exists V, sequence (imap f i l) = Some V.
Proof.
  induction l as [|x l IH]; intros i Hf; cbn.
  - eexists; reflexivity.
  - destruct (f i x) eqn:Ef.
    + destruct (IH (S i)) as [V HV].
      { intros n a Hn. replace (Nat.add (S i) n) with (Nat.add i (S n)) by lia.
        apply (Hf (S n) a). cbn; lia. }
      rewrite HV. eexists; reflexivity.
    + exfalso. apply (Hf 0 x); [cbn; lia|]. cbn. rewrite Nat.add_0_r. exact Ef.
Qed.

(* ------------------------------------------------------------------ *)
(* by_energy *)

Lemma by_energy_spec op eA eB M V :
  by_energy F op eA eB M = Some V ->
  length V = length M /\
  forall a, a < length M ->
    length (nth a V []) = length (nth a M []) /\
    forall b, b < length (nth a M []) ->
      op (mget F M a b) (eig_at F eA a - eig_at F eB b) = Some (mget F V a b).
Proof.
  unfold by_energy. intro H.
  destruct (sequence_imap _ _ _ _ H) as [Hl Hn].
  split; [exact Hl|]. intros a Ha.
  specialize (Hn a [] [] Ha). cbn in Hn.
  destruct (sequence_imap _ _ _ _ Hn) as [Hl2 Hn2].
  split; [exact Hl2|]. intros b Hb.
  specialize (Hn2 b k0 k0 Hb). cbn in Hn2. exact Hn2.
Qed.

Lemma by_energy_total op eA eB M :
  (forall y d, op y d <> None) -> exists V, by_energy F op eA eB M = Some V.
Proof.
  intro Hop. unfold by_energy. apply sequence_imap_total.
  intros n row H.
  destruct (sequence_imap_total (fun b y => op y (eig_at F eA n - eig_at F eB b)) row 0) as [V HV].
  - intros; apply Hop.
  - congruence.
Qed.

Lemma entry_total g y d : entry F g y d <> None.
Proof.
  unfold entry, pdiv. destruct (g d); discriminate.
Qed.

(* C16_diagonal_nodiv, first half: the guarded explicit branches never divide by a
   quantity failing the safety test, whatever the data *)
Theorem sylv_diag_nodiv g eA eB Y : sylv_diag F g eA eB Y <> None.
Proof.
  unfold sylv_diag. destruct (by_energy_total (entry F g) eA eB Y (entry_total g)) as [V HV].
  congruence.
Qed.

(* ------------------------------------------------------------------ *)
(* the equation *)

Lemma nonzero_spec d : nonzero F d = true <-> d <> k0.
Proof.
  unfold nonzero. rewrite negb_true_iff. split.
  - intros H E. apply (F_eqb F) in E. congruence.
  - intro H. destruct (keqb F d k0) eqn:E; [|reflexivity]. apply (F_eqb F) in E. contradiction.
Qed.

Lemma far_nz d : far F d = true -> d <> k0.
Proof. intros H E. subst. rewrite (F_far0 F) in H. discriminate. Qed.

Lemma guard_nz k d : guard F k d = true -> d <> k0.
Proof. destruct k; cbn; try apply far_nz. apply nonzero_spec. Qed.

Lemma div_mul d y : d <> k0 -> d * (y * kinv F d) = y.
Proof.
  intro H. transitivity (y * (d * kinv F d)); [ring|]. rewrite (F_inv F d H). ring.
Qed.

Theorem sylv_diag_spec g eA eB Y V :
  (forall d, g d = true -> d <> k0) ->
  sylv_diag F g eA eB Y = Some V ->
  length V = length Y /\
  forall a, a < length Y ->
    length (nth a V []) = length (nth a Y []) /\
    forall b, b < length (nth a Y []) ->
      let d := eig_at F eA a - eig_at F eB b in
      (g d = true -> d * mget F V a b = mget F Y a b) /\
      (g d = false -> mget F V a b = k0).
Proof.
  intros Hg H. destruct (by_energy_spec _ _ _ _ _ H) as [Hl Hn].
  split; [exact Hl|]. intros a Ha. destruct (Hn a Ha) as [Hl2 Hn2].
  split; [exact Hl2|]. intros b Hb d. specialize (Hn2 b Hb). fold d in Hn2.
  unfold entry, pdiv in Hn2. split; intro Hd; rewrite Hd in Hn2.
  - inversion Hn2 as [H1]. apply div_mul. apply Hg, Hd.
  - inversion Hn2; reflexivity.
Qed.

(* ------------------------------------------------------------------ *)
(* matrices as functions: H0_i V - V H0_j with H0 diagonal *)

Fixpoint fsum (n : nat) (f : nat -> K) : K :=
  match n with 0 => k0 | S m => fsum m f + f m end.
Definition fmul (n : nat) (A B : nat -> nat -> K) (a b : nat) : K :=
  fsum n (fun k => A a k * B k b).
Definition fdiag (e : nat -> K) (a b : nat) : K := if a =? b then e a else k0.

Lemma fsum_single n f c : c < n -> (forall k, k <> c -> f k = k0) -> fsum n f = f c.
Proof.
  induction n; intros Hc Hf; [lia|]. cbn.
  destruct (Nat.eq_dec c n) as [->|Hne].
  - assert (Hz : fsum n f = k0).
    { clear IHn Hc. assert (Hall : forall k, k < n -> f k = k0) by (intros; apply Hf; lia).
      clear Hf. induction n; cbn; [reflexivity|].
      rewrite IHn by (intros; apply Hall; lia). rewrite (Hall n) by lia. ring. }
    rewrite Hz. ring.
  - rewrite IHn by (auto; lia). rewrite (Hf n) by lia. ring.
Qed.

Lemma fdiag_mul_l n e V a b : a < n -> fmul n (fdiag e) V a b = e a * V a b.
Proof.
  intro Ha. unfold fmul. rewrite (fsum_single n _ a Ha).
  - unfold fdiag. rewrite Nat.eqb_refl. reflexivity.
  - intros k Hk. unfold fdiag. destruct (a =? k) eqn:E; [apply Nat.eqb_eq in E; lia|]. ring.
Qed.

Lemma fdiag_mul_r n e V a b : b < n -> fmul n V (fdiag e) a b = V a b * e b.
Proof.
  intro Hb. unfold fmul. rewrite (fsum_single n _ b Hb).
  - unfold fdiag. rewrite Nat.eqb_refl. reflexivity.
  - intros k Hk. unfold fdiag. destruct (k =? b) eqn:E; [apply Nat.eqb_eq in E; lia|]. ring.
Qed.

Theorem sylv_diag_residual g eA eB Y V nA nB :
  (forall d, g d = true -> d <> k0) ->
  sylv_diag F g eA eB Y = Some V ->
  forall a b, a < length Y -> b < length (nth a Y []) -> a < nA -> b < nB ->
    g (eig_at F eA a - eig_at F eB b) = true ->
    fmul nA (fdiag (eig_at F eA)) (mget F V) a b - fmul nB (mget F V) (fdiag (eig_at F eB)) a b
    = mget F Y a b.
Proof.
  intros Hg H a b Ha Hb HnA HnB Hd.
  destruct (sylv_diag_spec _ _ _ _ _ Hg H) as [_ Hn].
  destruct (Hn a Ha) as [_ Hn2]. destruct (Hn2 b Hb) as [H1 _].
  rewrite fdiag_mul_l, fdiag_mul_r by assumption.
  rewrite <- (H1 Hd). ring.
Qed.

(* ------------------------------------------------------------------ *)
(* V(Y†) = - V(Y)† for real energies *)

Definition real_eigs (e : eigs F) : Prop := forall a, kconj F (eig_at F e a) = eig_at F e a.

Lemma kinv_opp d : kinv F (- d) = - kinv F d.
Proof.
  destruct (keqb F d k0) eqn:E.
  - apply (F_eqb F) in E. subst. replace (- k0) with k0 by ring.
    rewrite (F_conj_inv0 F). ring.
  - assert (Hd : d <> k0) by (intro H; apply (F_eqb F) in H; congruence).
    assert (Hd' : - d <> k0).
    { intro H. apply Hd. transitivity (- - d); [ring|]. rewrite H. ring. }
    transitivity (kinv F (- d) * (d * kinv F d)); [rewrite (F_inv F d Hd); ring|].
    transitivity (- ((- d) * kinv F (- d)) * kinv F d); [ring|].
    rewrite (F_inv F _ Hd'). ring.
Qed.

Lemma conj_k0 : kconj F k0 = k0.
Proof.
  assert (H : kconj F k0 + kconj F k0 = kconj F k0).
  { rewrite <- (F_conj_add F). f_equal. ring. }
  transitivity (kconj F k0 + kconj F k0 - kconj F k0); [ring|]. rewrite H. ring.
Qed.

Lemma nonzero_opp d : nonzero F (- d) = nonzero F d.
Proof.
  destruct (nonzero F d) eqn:E.
  - apply nonzero_spec. apply nonzero_spec in E. intro H. apply E.
    transitivity (- - d); [ring|]. rewrite H. ring.
  - destruct (nonzero F (- d)) eqn:E2; [|reflexivity].
    apply nonzero_spec in E2. exfalso. apply E2.
    assert (d = k0).
    { destruct (keqb F d k0) eqn:E3; [apply (F_eqb F); exact E3|].
      unfold nonzero in E. rewrite E3 in E. discriminate. }
    subst. ring.
Qed.

Lemma guard_opp k d : guard F k (- d) = guard F k d.
Proof. destruct k; cbn; try apply (F_far_opp F). apply nonzero_opp. Qed.

Theorem sylv_diag_antiherm k eA eB Y Y' V V' :
  real_eigs eA -> real_eigs eB ->
  length Y' = length (hd [] Y) ->
  (forall a, a < length Y -> length (nth a Y []) = length Y') ->
  (forall b, b < length Y' -> length (nth b Y' []) = length Y) ->
  (forall a b, a < length Y -> b < length Y' -> mget F Y' b a = kconj F (mget F Y a b)) ->
  sylv_diag F (guard F k) eA eB Y = Some V ->
  sylv_diag F (guard F k) eB eA Y' = Some V' ->
  forall a b, a < length Y -> b < length Y' ->
    mget F V' b a = - kconj F (mget F V a b).
Proof.
  intros HrA HrB _ HrowY HrowY' Hadj HV HV' a b Ha Hb.
  destruct (by_energy_spec _ _ _ _ _ HV) as [_ Hn].
  destruct (by_energy_spec _ _ _ _ _ HV') as [_ Hn'].
  destruct (Hn a Ha) as [_ Hab]. specialize (Hab b). rewrite (HrowY a Ha) in Hab.
  specialize (Hab Hb).
  destruct (Hn' b Hb) as [_ Hba]. specialize (Hba a). rewrite (HrowY' b Hb) in Hba.
  specialize (Hba Ha).
  rewrite (Hadj a b Ha Hb) in Hba.
  set (d := eig_at F eA a - eig_at F eB b) in *.
  replace (eig_at F eB b - eig_at F eA a) with (- d) in Hba by (unfold d; ring).
  unfold entry, pdiv in Hab, Hba. rewrite guard_opp in Hba.
  destruct (guard F k d) eqn:Eg.
  - inversion Hab as [H1]. inversion Hba as [H2].
    rewrite (F_conj_mul F), (F_conj_inv F), kinv_opp.
    assert (Hd : kconj F d = d).
    { unfold d. replace (eig_at F eA a - eig_at F eB b) with (eig_at F eA a + - eig_at F eB b) by ring.
      rewrite (F_conj_add F), (F_conj_opp F), HrA, HrB. reflexivity. }
    rewrite Hd. ring.
  - inversion Hab as [H1]. inversion Hba as [H2]. rewrite conj_k0. ring.
Qed.

(* ------------------------------------------------------------------ *)
(* the closure: lazily executed shared-eigenvalue check, index_checked *)

Variable E : list (eigs F).
Variable vimp : option (mat F).

Definition no_equal (eA eB : eigs F) : Prop :=
  forall a b, In a (vals F eA) -> In b (vals F eB) -> a <> b.

(* every pair recorded in index_checked has passed the test *)
Definition Inv (st : state) : Prop :=
  forall i j eA eB, In (i, j) st -> nth_error E i = Some eA -> nth_error E j = Some eB ->
    no_equal eA eB.

Lemma cmp_refl k a : cmp F k a a = true.
Proof. destruct k; cbn; try apply (F_close_refl F). apply (F_eqb F). reflexivity. Qed.

Lemma shares_false k eA eB : shares F k eA eB = false -> no_equal eA eB.
Proof.
  unfold shares. intros H a b Ia Ib Eab. subst b.
  assert (Ht : existsb (fun a0 => existsb (fun b => cmp F k a0 b) (vals F eB)) (vals F eA) = true).
  { apply existsb_exists. exists a. split; [exact Ia|].
    apply existsb_exists. exists a. split; [exact Ib|apply cmp_refl]. }
  congruence.
Qed.

Lemma shares_true_sym k eA eB :
  (exists a, In a (vals F eA) /\ In a (vals F eB)) -> shares F k eA eB = true.
Proof.
  intros [a [Ia Ib]]. unfold shares. apply existsb_exists. exists a. split; [exact Ia|].
  apply existsb_exists. exists a. split; [exact Ib|apply cmp_refl].
Qed.

Lemma memp_In p st : memp p st = true <-> In p st.
Proof.
  unfold memp. rewrite existsb_exists. split.
  - intros [q [Iq Hq]]. apply andb_true_iff in Hq. destruct Hq as [H1 H2].
    apply Nat.eqb_eq in H1. apply Nat.eqb_eq in H2. destruct p, q; cbn in *; subst. exact Iq.
  - intro H. exists p. split; [exact H|]. rewrite !Nat.eqb_refl. reflexivity.
Qed.

Lemma Inv_nil : Inv [].
Proof. intros i j eA eB []. Qed.

Lemma solve_state st Y i j :
  snd (solve F E vimp st Y i j) = st \/
  (snd (solve F E vimp st Y i j) = (i, j) :: st /\
   exists eA eB, nth_error E i = Some eA /\ nth_error E j = Some eB /\ no_equal eA eB).
Proof.
  unfold solve. destruct Y; [left; reflexivity| |];
  (destruct (nth_error E i) as [eA|] eqn:EA; [|left; reflexivity];
   destruct (nth_error E j) as [eB|] eqn:EB; [|left; reflexivity];
   destruct (negb (i =? j) && negb (memp (i, j) st)) eqn:En; cbn [andb];
   [|left; reflexivity];
   match goal with |- context [shares F ?k eA eB] => destruct (shares F k eA eB) eqn:Es end;
   [left; reflexivity|];
   right; split; [reflexivity|]; exists eA, eB; repeat split; eauto using shares_false).
Qed.

Theorem solve_inv st Y i j : Inv st -> Inv (snd (solve F E vimp st Y i j)).
Proof.
  intro H. destruct (solve_state st Y i j) as [->|[-> [eA [eB [HA [HB Hne]]]]]]; [exact H|].
  intros i' j' eA' eB' [Heq|Hin] HA' HB'.
  - inversion Heq; subst. rewrite HA in HA'. rewrite HB in HB'.
    inversion HA'; inversion HB'; subst. exact Hne.
  - eapply H; eauto.
Qed.

(* the pair (i, j) has passed the test once the call got past it *)
Lemma eig_at_in e n a : dim_ok F e n = true -> a < n -> In (eig_at F e a) (vals F e).
Proof.
  destruct e; cbn; intros H Ha; [left; reflexivity|].
  apply Nat.eqb_eq in H. apply nth_In. lia.
Qed.

Lemma sylv_raw_total eA eB M :
  no_equal eA eB -> shape_ok F eA eB M = true -> exists T, sylv_raw F eA eB M = Some T.
Proof.
  intros Hne Hs. unfold shape_ok in Hs. apply andb_true_iff in Hs. destruct Hs as [HA HB].
  rewrite forallb_forall in HB.
  unfold sylv_raw, by_energy. apply sequence_imap_total_in.
  intros a row Ha. cbn [Nat.add].
  match goal with |- ?x <> None => destruct x eqn:Ex; [discriminate|exfalso] end.
  revert Ex.
  match goal with |- sequence (imap ?f 0 ?l) = None -> False =>
    destruct (sequence_imap_total_in f l 0) as [V HV]; [|congruence] end.
  intros b y Hb. cbn [Nat.add]. unfold pdiv.
  assert (Hrow : dim_ok F eB (length (nth a M row)) = true).
  { apply HB. apply nth_In. exact Ha. }
  assert (Hnz : nonzero F (eig_at F eA a - eig_at F eB b) = true).
  { apply nonzero_spec. intro Hz.
    apply (Hne (eig_at F eA a) (eig_at F eB b)).
    - eapply eig_at_in; eauto.
    - eapply eig_at_in; eauto.
    - transitivity (eig_at F eA a - eig_at F eB b + eig_at F eB b); [ring|]. rewrite Hz. ring. }
  rewrite Hnz. discriminate.
Qed.

Lemma checked_explicit_nodiv g eA eB M :
  checked F eA eB M (fun M => of_opt F (sylv_diag F g eA eB M)) <> ODivTol.
Proof.
  unfold checked. destruct (shape_ok F eA eB M); [|discriminate].
  destruct (sylv_diag F g eA eB M) eqn:Es; cbn; [discriminate|].
  exfalso. eapply sylv_diag_nodiv; eauto.
Qed.

Lemma checked_raw_nodiv eA eB M (f : mat F -> mat F) :
  no_equal eA eB ->
  checked F eA eB M (fun T0 => match sylv_raw F eA eB T0 with
                               | Some T => OVal (f T) | None => ODivTol end) <> ODivTol.
Proof.
  intro Hne. unfold checked. destruct (shape_ok F eA eB M) eqn:Es; [|discriminate].
  destruct (sylv_raw_total eA eB M Hne Es) as [T HT]. rewrite HT. discriminate.
Qed.

(* C16_diagonal_nodiv for the closure: a division by a quantity failing the safety test can
   only be attempted by the (unguarded) vecs_implicit branches on a diagonal index i = j,
   which block_diagonalize never requests (the implicit block cannot be fully diagonalized).
   In particular never when vecs_implicit is None. *)
Lemma dispatch_nodiv Y i j eA eB :
  (vimp <> None -> i <> j -> no_equal eA eB) ->
  dispatch F E vimp Y i j eA eB = ODivTol -> vimp <> None /\ i = j.
Proof.
  intros Hne H. unfold dispatch in H.
  destruct (Nat.eq_dec i j) as [Hij|Hij].
  - split; [|exact Hij]. intro Hv. rewrite Hv in H.
    destruct Y as [|k M|]; try discriminate.
    eapply checked_explicit_nodiv; eauto.
  - exfalso. destruct vimp as [W|].
    + assert (Hn : no_equal eA eB) by (apply Hne; [discriminate|exact Hij]).
      destruct Y as [|k M|].
      * destruct ((j =? length E - 1) || (i =? length E - 1)); discriminate.
      * destruct (j =? length E - 1); [|destruct (i =? length E - 1)].
        -- eapply checked_raw_nodiv; eauto.
        -- eapply checked_raw_nodiv; eauto.
        -- eapply checked_explicit_nodiv; eauto.
      * destruct ((j =? length E - 1) || (i =? length E - 1)); discriminate.
    + destruct Y as [|k M|]; try discriminate.
      eapply checked_explicit_nodiv; eauto.
Qed.

Theorem solve_nodiv st Y i j :
  Inv st -> fst (solve F E vimp st Y i j) = ODivTol -> vimp <> None /\ i = j.
Proof.
  intros HI H. unfold solve in H.
  destruct Y as [|k M|]; [discriminate| |];
  (destruct (nth_error E i) as [eA|] eqn:EA; [|discriminate];
   destruct (nth_error E j) as [eB|] eqn:EB; [|discriminate];
   match type of H with context [shares F ?kk eA eB] =>
     destruct (negb (i =? j) && negb (memp (i, j) st) && shares F kk eA eB) eqn:Ec end;
   [discriminate|]; cbn [fst] in H;
   apply (dispatch_nodiv _ _ _ _ _) in H; [exact H|];
   intros _ Hij;
   destruct (memp (i, j) st) eqn:Em;
   [apply memp_In in Em; eapply HI; eauto|];
   apply Nat.eqb_neq in Hij; rewrite Hij in Ec; cbn in Ec; eapply shares_false; eauto).
Qed.

(* The lazily executed check: two different blocks sharing an eigenvalue are rejected at
   every use of that pair with a non-zero right-hand side - the pair can never have been
   recorded as checked. *)
Theorem solve_rejects_shared st Y i j eA eB :
  Inv st -> i <> j -> Y <> YZero ->
  nth_error E i = Some eA -> nth_error E j = Some eB ->
  (exists a, In a (vals F eA) /\ In a (vals F eB)) ->
  solve F E vimp st Y i j = (ORaise ValueError, st).
Proof.
  intros HI Hij HY HA HB Hsh. unfold solve.
  assert (Hm : memp (i, j) st = false).
  { destruct (memp (i, j) st) eqn:Em; [|reflexivity]. apply memp_In in Em.
    destruct Hsh as [a [Ia Ib]]. exfalso. eapply (HI i j eA eB Em HA HB a a); eauto. }
  apply Nat.eqb_neq in Hij.
  destruct Y; [congruence| |]; rewrite HA, HB, Hij, Hm; cbn [negb andb];
    rewrite (shares_true_sym _ eA eB Hsh); reflexivity.
Qed.

(* any sequence of calls starting from a fresh closure *)
Lemma run_inv reqs : forall st, Inv st -> Inv (snd (run F E vimp st reqs)).
Proof.
  induction reqs as [|[Y [i j]] r IH]; intros st H; cbn; [exact H|].
  destruct (solve F E vimp st Y i j) as [o st1] eqn:Es.
  assert (H1 : Inv st1) by (replace st1 with (snd (solve F E vimp st Y i j)) by (rewrite Es; reflexivity); apply solve_inv, H).
  specialize (IH st1 H1). destruct (run F E vimp st1 r) as [os st2]. exact IH.
Qed.

Theorem run_nodiv reqs : forall st, Inv st -> vimp = None ->
  ~ In ODivTol (fst (run F E vimp st reqs)).
Proof.
  induction reqs as [|[Y [i j]] r IH]; intros st H Hv; cbn; [intros []|].
  destruct (solve F E vimp st Y i j) as [o st1] eqn:Es.
  assert (H1 : Inv st1) by (replace st1 with (snd (solve F E vimp st Y i j)) by (rewrite Es; reflexivity); apply solve_inv, H).
  specialize (IH st1 H1 Hv). destruct (run F E vimp st1 r) as [os st2]. cbn in *.
  intros [Ho|Hin]; [|auto].
  subst o. destruct (solve_nodiv st Y i j H) as [Hc _]; [rewrite Es; reflexivity|]. contradiction.
Qed.

End Proofs.
