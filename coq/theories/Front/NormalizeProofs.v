(* Theorems about the container normalisation model (Front/Normalize.v). *)

Require Import List Bool Arith Lia Sorted.
Require Import PV.Front.Normalize.
Import ListNotations.

(* ------------------------------------------------------------------ *)
(* binomial coefficients (Pascal) *)

Fixpoint choose (n k : nat) : nat :=
  match n, k with
  | _, 0 => 1
  | 0, S _ => 0
  | S n', S k' => choose n' k' + choose n' (S k')
  end.

Lemma choose_gt n : forall k, n < k -> choose n k = 0.
Proof.
  induction n; intros [|k] H; try lia; cbn; [reflexivity|].
  rewrite !IHn by lia. reflexivity.
Qed.

Lemma choose_nn n : choose n n = 1.
Proof. induction n; cbn; [reflexivity|]. rewrite IHn, choose_gt by lia. reflexivity. Qed.

Lemma choose_0 n : choose n 0 = 1.
Proof. destruct n; reflexivity. Qed.

Lemma choose_step n : forall k, S k * choose n (S k) = (n - k) * choose n k.
Proof.
  induction n; intros k.
  - cbn. lia.
  - destruct k as [|k].
    + cbn [choose]. rewrite choose_0. specialize (IHn 0). rewrite choose_0 in IHn. lia.
    + cbn [choose]. pose proof (IHn k) as H1. pose proof (IHn (S k)) as H2.
      destruct (Nat.lt_ge_cases k n) as [Hlt|Hge].
      * replace (S n - S k) with (n - k) by lia.
        replace (n - k) with (S (n - S k)) in * by lia. nia.
      * rewrite (choose_gt n (S k)) in * by lia. rewrite (choose_gt n (S (S k))) by lia.
        replace (S n - S k) with 0 by lia. lia.
Qed.

Section Proofs.
Variable W : Vals.
Notation V := (V W).

(* ------------------------------------------------------------------ *)
(* orders, lookup *)

Lemma order_eqb_spec a : forall b, order_eqb a b = true <-> a = b.
Proof.
  induction a as [|x r IH]; intros [|y s]; cbn; split; try discriminate; try reflexivity.
  - intro H. apply andb_prop in H. destruct H as [H1 H2].
    apply Nat.eqb_eq in H1. apply IH in H2. congruence.
  - intro H. inversion H; subst. rewrite Nat.eqb_refl. cbn. apply IH. reflexivity.
Qed.

Lemma order_eqb_refl a : order_eqb a a = true.
Proof. apply order_eqb_spec. reflexivity. Qed.

(* ------------------------------------------------------------------ *)
(* _list_to_dict *)

Lemma unit_vec_length k i : length (unit_vec k i) = k.
Proof. unfold unit_vec. rewrite map_length, seq_length. reflexivity. Qed.

Lemma map_seq_nth {A} (f : nat -> A) d k : forall s j, j < k -> nth j (map f (seq s k)) d = f (s + j).
Proof.
  induction k; intros s j H; [lia|]. cbn. destruct j.
  - rewrite Nat.add_0_r. reflexivity.
  - rewrite IHk by lia. f_equal. lia.
Qed.

Lemma unit_vec_nth k i j : j < k -> nth j (unit_vec k i) 0 = if j =? i then 1 else 0.
Proof. intro H. unfold unit_vec. rewrite map_seq_nth by exact H. reflexivity. Qed.

Lemma repeat_nth {A} (x d : A) k : forall j, nth j (repeat x k) d = if j <? k then x else d.
Proof.
  induction k; intros [|j]; cbn; try reflexivity.
  rewrite IHk. reflexivity.
Qed.

Lemma unit_vec_not_zero k i : i < k -> unit_vec k i <> repeat 0 k.
Proof.
  intros Hi H. apply (f_equal (fun l => nth i l 0)) in H.
  rewrite unit_vec_nth, Nat.eqb_refl, repeat_nth in H by exact Hi.
  destruct (i <? k); discriminate.
Qed.

Lemma unit_vec_inj k i j : i < k -> j < k -> unit_vec k i = unit_vec k j -> i = j.
Proof.
  intros Hi Hj H. apply (f_equal (fun l => nth i l 0)) in H.
  rewrite !unit_vec_nth, Nat.eqb_refl in H by assumption.
  destruct (i =? j) eqn:E; [apply Nat.eqb_eq in E; exact E|discriminate].
Qed.

Lemma lookup_imap_units k (ps : list V) : forall s n,
  lookup W (imap (fun i p => (unit_vec k i, p)) s ps) n =
  match find (fun i => order_eqb (unit_vec k i) n) (seq s (length ps)) with
  | Some i => nth_error ps (i - s)
  | None => None
  end.
Proof.
  induction ps as [|p r IH]; intros s n; cbn; [reflexivity|].
  destruct (order_eqb (unit_vec k s) n) eqn:E.
  - rewrite Nat.sub_diag. reflexivity.
  - rewrite IH. destruct (find _ (seq (S s) (length r))) as [i|] eqn:Ef; [|reflexivity].
    apply find_some in Ef. destruct Ef as [Hin _]. apply in_seq in Hin.
    replace (i - s) with (S (i - S s)) by lia. reflexivity.
Qed.

(* what the list [h_0; h_1; ...; h_k] denotes: h_0 at order 0, h_i at the i-th unit order *)
Theorem list_to_dict_zero h0 ps d :
  list_to_dict W (h0 :: ps) = Some d -> lookup W d (repeat 0 (length ps)) = Some h0.
Proof. intro H. inversion H; subst. cbn. rewrite order_eqb_refl. reflexivity. Qed.

Theorem list_to_dict_unit h0 ps d i :
  list_to_dict W (h0 :: ps) = Some d -> i < length ps ->
  lookup W d (unit_vec (length ps) i) = nth_error ps i.
Proof.
  intros H Hi. inversion H; subst. cbn.
  destruct (order_eqb (repeat 0 (length ps)) (unit_vec (length ps) i)) eqn:E.
  - apply order_eqb_spec in E. symmetry in E. apply unit_vec_not_zero in E; [contradiction|exact Hi].
  - rewrite lookup_imap_units.
    destruct (find _ (seq 0 (length ps))) as [j|] eqn:Ef.
    + apply find_some in Ef. destruct Ef as [Hin Hj]. apply in_seq in Hin.
      apply order_eqb_spec in Hj. apply unit_vec_inj in Hj; [|lia|exact Hi]. subst.
      rewrite Nat.sub_0_r. reflexivity.
    + exfalso. pose proof (find_none _ _ Ef i) as Hn. cbn in Hn.
      rewrite order_eqb_refl in Hn. assert (Hi2 : In i (seq 0 (length ps))) by (apply in_seq; lia).
      specialize (Hn Hi2). discriminate.
Qed.

Theorem list_to_dict_other h0 ps d n :
  list_to_dict W (h0 :: ps) = Some d ->
  n <> repeat 0 (length ps) -> (forall i, i < length ps -> n <> unit_vec (length ps) i) ->
  lookup W d n = None.
Proof.
  intros H Hz Hu. inversion H; subst. cbn.
  destruct (order_eqb (repeat 0 (length ps)) n) eqn:E; [apply order_eqb_spec in E; congruence|].
  rewrite lookup_imap_units.
  destruct (find _ (seq 0 (length ps))) as [j|] eqn:Ef; [|reflexivity].
  apply find_some in Ef. destruct Ef as [Hin Hj]. apply in_seq in Hin.
  apply order_eqb_spec in Hj. exfalso. apply (Hu j); [lia|congruence].
Qed.

(* ------------------------------------------------------------------ *)
(* monomial keys: symbols sorted by name *)

Lemma insert_u_in s l x : In x (insert_u s l) <-> x = s \/ In x l.
Proof.
  induction l as [|y r IH]; simpl.
  - intuition auto.
  - destruct (s <? y) eqn:E1.
    + simpl. intuition auto.
    + destruct (s =? y) eqn:E2.
      * apply Nat.eqb_eq in E2; subst; simpl. intuition auto.
      * simpl. rewrite IH. intuition auto.
Qed.

Lemma insert_u_sorted s l : StronglySorted lt l -> StronglySorted lt (insert_u s l).
Proof.
  induction 1 as [|y r Hs IH Hall]; [cbn; repeat constructor|].
  cbn [insert_u]. destruct (s <? y) eqn:E1.
  - apply Nat.ltb_lt in E1. constructor; [constructor; assumption|].
    constructor; [exact E1|]. rewrite Forall_forall in *. intros x Hx. specialize (Hall x Hx). lia.
  - destruct (s =? y) eqn:E2; [constructor; assumption|].
    apply Nat.ltb_ge in E1. apply Nat.eqb_neq in E2.
    constructor; [exact IH|]. rewrite Forall_forall in *. intros x Hx.
    apply insert_u_in in Hx. destruct Hx as [->|Hx]; [lia|auto].
Qed.

(* the symbol tuple is strictly increasing in the name order and contains exactly the symbols
   of the keys *)
Theorem symbols_of_spec keys :
  StronglySorted lt (symbols_of keys) /\
  forall s, In s (symbols_of keys) <-> exists m p, In m keys /\ In (s, p) m.
Proof.
  unfold symbols_of. split.
  - induction (flat_map (map fst) keys) as [|x r IH]; cbn; [constructor|apply insert_u_sorted, IH].
  - intro s.
    assert (H : In s (fold_right insert_u [] (flat_map (map fst) keys)) <-> In s (flat_map (map fst) keys)).
    { induction (flat_map (map fst) keys) as [|x r IH]; cbn; [tauto|].
      rewrite insert_u_in, IH. split; intros [->|H]; auto. }
    rewrite H, in_flat_map. split.
    + intros [m [Hm Hs]]. apply in_map_iff in Hs. destruct Hs as [[s' p] [Heq Hin]]. cbn in Heq. subst.
      exists m, p. auto.
    + intros [m [p [Hm Hin]]]. exists m. split; [exact Hm|]. apply in_map_iff. exists (s, p). auto.
Qed.

(* lookup in a dict built item by item: the last item with that key wins *)
Fixpoint last_match (items : fam W) (k : order) : option V :=
  match items with
  | [] => None
  | (k', v) :: r => match last_match r k with Some w => Some w | None => if order_eqb k' k then Some v else None end
  end.

Lemma lookup_dict_of_items items k : lookup W (dict_of_items W items) k = last_match items k.
Proof.
  induction items as [|[k' v] r IH]; cbn; [reflexivity|].
  destruct (lookup W (dict_of_items W r) k') eqn:E.
  - rewrite IH. destruct (last_match r k) eqn:El; [reflexivity|].
    destruct (order_eqb k' k) eqn:Ek; [|reflexivity].
    apply order_eqb_spec in Ek. subst. rewrite IH in E. congruence.
  - cbn. destruct (order_eqb k' k) eqn:Ek.
    + apply order_eqb_spec in Ek. subst. rewrite <- IH, E. reflexivity.
    + rewrite IH. destruct (last_match r k); reflexivity.
Qed.

(* ------------------------------------------------------------------ *)
(* the derivative / factorial chain returns the Taylor coefficient *)

Fixpoint bumpn (i a : nat) (e : order) : order :=
  match a with 0 => e | S a' => bumpn i a' (bump i e) end.

Lemma bump_length i : forall e, length (bump i e) = length e.
Proof. induction i; intros [|x r]; cbn; auto. Qed.

Lemma bump_nth i : forall e j, i < length e ->
  nth j (bump i e) 0 = if j =? i then S (nth j e 0) else nth j e 0.
Proof.
  induction i; intros [|x r] j H; cbn in *; try lia.
  - destruct j; reflexivity.
  - destruct j; [reflexivity|]. rewrite IHi by lia. reflexivity.
Qed.

Lemma bumpn_length i a : forall e, length (bumpn i a e) = length e.
Proof. induction a; intro e; cbn; [reflexivity|]. rewrite IHa, bump_length. reflexivity. Qed.

Lemma bumpn_nth i a : forall e j, i < length e ->
  nth j (bumpn i a e) 0 = if j =? i then a + nth j e 0 else nth j e 0.
Proof.
  induction a; intros e j H; cbn.
  - destruct (j =? i); reflexivity.
  - rewrite IHa by (rewrite bump_length; exact H). rewrite bump_nth by exact H.
    destruct (j =? i); lia.
Qed.

Lemma iter_axis_spec i a (Q : poly W) : forall e, i < length e ->
  iter_axis W i a Q e = nsmul W (choose (nth i e 0 + a) a) (Q (bumpn i a e)).
Proof.
  induction a; intros e Hi.
  - cbn. rewrite choose_0, (V_smul_1 W). reflexivity.
  - cbn [iter_axis bumpn]. unfold pdivn, pdiff.
    rewrite IHa by (rewrite bump_length; exact Hi).
    rewrite bump_nth, Nat.eqb_refl by exact Hi.
    rewrite <- (V_smul_mul W).
    set (x := nth i e 0).
    replace (S x * choose (S x + a) a) with (S a * choose (x + S a) (S a)).
    + rewrite (V_smul_mul W), (V_div_smul W) by lia. reflexivity.
    + pose proof (choose_step (S x + a) a) as H.
      replace (S x + a - a) with (S x) in H by lia.
      replace (x + S a) with (S x + a) by lia. exact H.
Qed.

Fixpoint addn (i : nat) (n e : order) : order :=
  match n with [] => e | a :: r => addn (S i) r (bumpn i a e) end.

Lemma deriv_from_spec (P : poly W) n : forall i e,
  length e = i + length n -> (forall j, i <= j -> nth j e 0 = 0) ->
  deriv_from W i n P e = P (addn i n e).
Proof.
  induction n as [|a r IH]; intros i e Hl Hz; cbn; [reflexivity|].
  cbn in Hl. rewrite iter_axis_spec by lia.
  rewrite (Hz i) by lia. cbn [Nat.add]. rewrite choose_nn, (V_smul_1 W).
  apply IH.
  - rewrite bumpn_length. lia.
  - intros j Hj. rewrite bumpn_nth by lia.
    destruct (j =? i) eqn:E; [apply Nat.eqb_eq in E; lia|]. apply Hz. lia.
Qed.

Lemma list_eq_nth (a b : order) :
  length a = length b -> (forall j, j < length a -> nth j a 0 = nth j b 0) -> a = b.
Proof.
  revert b. induction a as [|x r IH]; intros [|y s] Hl Hn; cbn in *; try lia; [reflexivity|].
  f_equal.
  - apply (Hn 0). lia.
  - apply IH; [lia|]. intros j Hj. apply (Hn (S j)). lia.
Qed.

Lemma addn_length n : forall i e, length (addn i n e) = length e.
Proof. induction n; intros i e; cbn; [reflexivity|]. rewrite IHn, bumpn_length. reflexivity. Qed.

Lemma addn_nth n : forall i e j, length e = i + length n ->
  nth j (addn i n e) 0 = if (i <=? j) then nth (j - i) n 0 + nth j e 0 else nth j e 0.
Proof.
  induction n as [|a r IH]; intros i e j Hl; cbn [addn length] in *.
  - destruct (i <=? j) eqn:E; [|reflexivity]. destruct (j - i); reflexivity.
  - rewrite IH by (rewrite bumpn_length; lia). rewrite bumpn_nth by lia.
    destruct (Nat.leb_spec i j) as [H1|H1]; destruct (Nat.leb_spec (S i) j) as [H2|H2];
      destruct (Nat.eqb_spec j i) as [H3|H3]; try lia.
    + replace (j - i) with (S (j - S i)) by lia. cbn [nth]. reflexivity.
    + subst. rewrite Nat.sub_diag. cbn [nth]. lia.
Qed.

Theorem taylor_coeff (P : poly W) n : taylor W P n = P n.
Proof.
  unfold taylor. rewrite deriv_from_spec.
  - f_equal. apply list_eq_nth.
    + rewrite addn_length, repeat_length. reflexivity.
    + intros j Hj. rewrite addn_nth by (rewrite repeat_length; reflexivity).
      cbn. rewrite Nat.sub_0_r, repeat_nth. destruct (j <? length n); lia.
  - rewrite repeat_length. reflexivity.
  - intros j _. rewrite repeat_nth. destruct (j <? length n); reflexivity.
Qed.

Theorem sympy_to_series_spec (P : poly W) n :
  sympy_to_series W P n = if vzerob W (P n) then None else Some (EV n (P n)).
Proof. unfold sympy_to_series. rewrite taylor_coeff. reflexivity. Qed.

(* ------------------------------------------------------------------ *)
(* an explicit symbols list is used in the user's order *)

Lemma index_of_nth (l : list nat) : NoDup l -> forall i, i < length l -> index_of (nth i l 0) l = Some i.
Proof.
  induction 1 as [|x r Hx Hnd IH]; intros i Hi; cbn in *; [lia|].
  destruct i as [|i].
  - rewrite Nat.eqb_refl. reflexivity.
  - destruct (x =? nth i r 0) eqn:E.
    + apply Nat.eqb_eq in E. exfalso. apply Hx. rewrite E. apply nth_In. lia.
    + rewrite IH by lia. reflexivity.
Qed.

Theorem explicit_symbols_preserved (given free_order : list nat) (Q : npoly W) n :
  given <> [] -> NoDup given ->
  resolve_symbols given free_order = given /\
  sympy_named_series W given free_order Q n =
    (if vzerob W (Q (powers_of given n)) then None else Some (EV n (Q (powers_of given n)))) /\
  forall i, i < length given -> powers_of given n (nth i given 0) = nth i n 0.
Proof.
  intros Hne Hnd.
  assert (Hr : resolve_symbols given free_order = given) by (destruct given; [congruence|reflexivity]).
  split; [exact Hr|split].
  - unfold sympy_named_series. rewrite Hr, sympy_to_series_spec. reflexivity.
  - intros i Hi. unfold powers_of. rewrite index_of_nth by assumption. reflexivity.
Qed.

(* symbols=None: every free symbol is perturbative, in the iteration order of the set (whatever it
   is): index i counts the i-th symbol of THAT order.  A single Symbol is the one-element list. *)
Theorem default_symbols_order (free_order : list nat) (Q : npoly W) n :
  NoDup free_order ->
  sympy_named_series W [] free_order Q n =
    (if vzerob W (Q (powers_of free_order n)) then None else Some (EV n (Q (powers_of free_order n)))) /\
  forall i, i < length free_order -> powers_of free_order n (nth i free_order 0) = nth i n 0.
Proof.
  intro Hnd. split.
  - unfold sympy_named_series. cbn [resolve_symbols]. rewrite sympy_to_series_spec. reflexivity.
  - intros i Hi. unfold powers_of. rewrite index_of_nth by assumption. reflexivity.
Qed.

(* ------------------------------------------------------------------ *)
(* what each container denotes, and the normal form *)

Definition vz (o : option V) : V := match o with Some v => v | None => vzero W end.

(* position of the single 1 in a unit order *)
Definition unit_index (k : nat) (n : order) : option nat :=
  find (fun i => order_eqb (unit_vec k i) n) (seq 0 k).

Definition den (c : container W) (n : order) : V :=
  match c with
  | CList l =>
    match l with
    | [] => vzero W
    | h0 :: ps =>
      if order_eqb n (repeat 0 (length ps)) then h0
      else match unit_index (length ps) n with
           | Some i => nth i ps (vzero W)
           | None => vzero W
           end
    end
  | CDict d => vz (lookup W d n)
  | CMono d =>
    (* the value stored under the monomial  prod_s s^(n_s), s ranging over the symbols of the
       keys in name order *)
    let symbols := symbols_of (map fst d) in
    vz (last_match (map (fun kv => (key_tuple symbols (fst kv), snd kv)) d) n)
  | CExpr _ P => P n
  | CSeries s => vz (s n)
  end.

Theorem nf_den c s n : to_scalar_series W c = Ok s -> coeff_of W (s n) = den c n.
Proof.
  destruct c as [l|d|d|k P|s0]; cbn; intro H.
  - destruct l as [|h0 ps]; [discriminate|]. cbn in H. inversion H; subst. clear H.
    cbn [lookup].
    destruct (order_eqb (repeat 0 (length ps)) n) eqn:E.
    + apply order_eqb_spec in E. subst. rewrite order_eqb_refl. reflexivity.
    + assert (E' : order_eqb n (repeat 0 (length ps)) = false).
      { destruct (order_eqb n _) eqn:E2; [|reflexivity]. apply order_eqb_spec in E2. subst.
        rewrite order_eqb_refl in E. discriminate. }
      rewrite E'. rewrite lookup_imap_units. unfold unit_index.
      destruct (find _ (seq 0 (length ps))) as [i|] eqn:Ef; [|reflexivity].
      rewrite Nat.sub_0_r. apply find_some in Ef. destruct Ef as [Hin _]. apply in_seq in Hin.
      destruct (nth_error ps i) eqn:En.
      * cbn. symmetry. apply nth_error_nth. exact En.
      * apply nth_error_None in En. lia.
  - inversion H; subst. destruct (lookup W d n); reflexivity.
  - inversion H; subst. unfold symbolic_keys_to_tuples. cbn [fst].
    rewrite lookup_dict_of_items. destruct (last_match _ n); reflexivity.
  - inversion H; subst. rewrite sympy_to_series_spec.
    destruct (vzerob W (P n)) eqn:E; [|reflexivity]. apply (V_zerob W) in E. cbn. congruence.
  - inversion H; subst. destruct (s0 n); reflexivity.
Qed.

(* all container formats that denote the same family normalise to the same series *)
Theorem formats_agree c1 c2 s1 s2 :
  to_scalar_series W c1 = Ok s1 -> to_scalar_series W c2 = Ok s2 ->
  (forall n, den c1 n = den c2 n) ->
  forall n, coeff_of W (s1 n) = coeff_of W (s2 n).
Proof. intros H1 H2 Hd n. rewrite (nf_den _ _ _ H1), (nf_den _ _ _ H2). apply Hd. Qed.

(* nested block lists: element (i, j, n) is grid_n[i][j] (sentinel zero for a zero block) *)
Theorem unpack_blocks_spec (s : order -> option (grid W)) i j n g row v :
  s n = Some g -> nth_error g i = Some row -> nth_error row j = Some v ->
  vz (unpack_blocks W s i j n) = v.
Proof.
  intros Hs Hg Hr. unfold unpack_blocks. rewrite Hs, Hg, Hr.
  destruct (vzerob W v) eqn:E; [|reflexivity]. apply (V_zerob W) in E. cbn. congruence.
Qed.

Theorem unpack_blocks_absent (s : order -> option (grid W)) i j n :
  s n = None -> unpack_blocks W s i j n = None.
Proof. intro H. unfold unpack_blocks. rewrite H. reflexivity. Qed.

End Proofs.
