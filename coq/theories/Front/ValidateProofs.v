(* Theorems about the validation model (Front/Validate.v). *)

Require Import List Bool Arith Lia.
Require Import PV.Front.Validate.
Import ListNotations.

(* the exception classes the property allows *)
Definition listed (e : exn) : Prop :=
  e = ValueError \/ e = TypeError \/ e = NotImplementedError.

(* ------------------------------------------------------------------ *)
(* generic facts about [validate] *)

Lemma validate_accept_iff c :
  validate c = Accept <-> forall p, In p (checks c) -> fst p = false.
Proof.
  unfold validate. split.
  - destruct (find _ (checks c)) as [[b e]|] eqn:E; [discriminate|]. intros _ p Hp.
    pose proof (find_none _ _ E p Hp) as H. cbn in H. exact H.
  - intro H. destruct (find _ (checks c)) as [[b e]|] eqn:E; [|reflexivity].
    apply find_some in E. destruct E as [Hin Hb]. cbn in Hb. specialize (H _ Hin). cbn in H. congruence.
Qed.

Lemma validate_reject c e s :
  validate c = Reject e s -> s = AtDefinition /\ In (true, e) (checks c).
Proof.
  unfold validate. destruct (find _ (checks c)) as [[b e']|] eqn:E; [|discriminate].
  intro H. inversion H; subst. apply find_some in E. destruct E as [Hin Hb]. cbn in Hb. subst.
  split; [reflexivity|exact Hin].
Qed.

Lemma fire c e0 :
  In (true, e0) (checks c) -> exists e, validate c = Reject e AtDefinition /\ In (true, e) (checks c).
Proof.
  intro Hin. destruct (validate c) as [|e s] eqn:E.
  - exfalso. rewrite validate_accept_iff in E. specialize (E _ Hin). discriminate.
  - destruct (validate_reject _ _ _ E) as [-> H]. exists e. split; [reflexivity|exact H].
Qed.

(* every test raises a listed exception, except the unbound [diagonal] *)
Lemma checks_exn c b e :
  In (b, e) (checks c) ->
  listed e \/ (e = UnboundLocalError /\ (b = true -> custom c = true)).
Proof.
  unfold checks. cbn [In]. unfold listed.
  intro H.
  repeat (destruct H as [H|H];
          [inversion H; subst; clear H;
           first [ left; tauto
                 | right; split; [reflexivity|]; intro Hb; apply andb_prop in Hb;
                   destruct Hb as [Hb _]; apply andb_prop in Hb; tauto ]|]).
  contradiction.
Qed.

Lemma fire_listed c e0 :
  In (true, e0) (checks c) ->
  exists e, validate c = Reject e AtDefinition /\
            (listed e \/ (e = UnboundLocalError /\ custom c = true)).
Proof.
  intro H. destruct (fire _ _ H) as [e [Hv Hin]]. exists e. split; [exact Hv|].
  destruct (checks_exn _ _ _ Hin) as [Hl|[He Hc]]; [left; exact Hl|right; split; [exact He|auto]].
Qed.

Lemma nth_fire c k b e :
  nth_error (checks c) k = Some (b, e) -> b = true -> In (true, e) (checks c).
Proof. intros H ->. eapply nth_error_In; eauto. Qed.

(* ------------------------------------------------------------------ *)
(* the ill-posed classes *)

(* H_0 not block diagonal: a scanned block pair whose zeroth-order block is a non-zero
   numeric array.  (A non-zero SYMBOLIC block only produces a UserWarning - see the
   [_refuted] witness below.) *)
Definition defect_h0_offdiag (c : call) : Prop :=
  exists i j, i < c_nblocks c /\ j < c_nblocks c /\ scanned c i j = true /\
              c_h0_off c i j = BNonzero.

Lemma in_all_pairs n i j : i < n -> j < n -> In (i, j) (all_pairs n).
Proof.
  intros Hi Hj. unfold all_pairs. apply in_flat_map. exists i. split.
  - apply in_seq. lia.
  - apply in_map. apply in_seq. lia.
Qed.

Theorem rejects_h0_offdiag c :
  defect_h0_offdiag c ->
  exists e, validate c = Reject e AtDefinition /\
            (listed e \/ (e = UnboundLocalError /\ custom c = true)).
Proof.
  intros [i [j [Hi [Hj [Hs Hb]]]]]. apply fire_listed with (e0 := ValueError).
  eapply (nth_fire c 23); [reflexivity|].
  apply existsb_exists. exists (i, j). split; [apply in_all_pairs; assumption|].
  cbn [fst snd]. rewrite Hs, Hb. reflexivity.
Qed.

(* eigenvectors not (bi)orthonormal *)
Definition defect_biorth (c : call) : Prop :=
  exists ev, c_eigvecs c = Some ev /\ ev_kind ev <> VecOtherType /\ ev_overlap ev = No.

Theorem rejects_biorth c :
  defect_biorth c ->
  exists e, validate c = Reject e AtDefinition /\
            (listed e \/ (e = UnboundLocalError /\ custom c = true)).
Proof.
  intros [ev [He [Hk Ho]]]. apply fire_listed with (e0 := ValueError).
  eapply (nth_fire c 10); [reflexivity|].
  unfold evb. rewrite He. rewrite Ho. destruct (ev_kind ev); try reflexivity. congruence.
Qed.

(* every subspace (bi)orthonormal within itself, but two different subspaces overlap: the check
   is on the stacked overlap matrix, so this is rejected as well *)
Definition defect_cross_overlap (c : call) : Prop :=
  exists ev, c_eigvecs c = Some ev /\ ev_kind ev <> VecOtherType /\ ev_overlap_cross ev = No.

Theorem rejects_cross_overlap c :
  defect_cross_overlap c ->
  exists e, validate c = Reject e AtDefinition /\
            (listed e \/ (e = UnboundLocalError /\ custom c = true)).
Proof.
  intros [ev [He [Hk Ho]]]. apply rejects_biorth. exists ev. repeat split; try assumption.
  unfold ev_overlap. rewrite Ho. destruct (ev_overlap_within ev); reflexivity.
Qed.

(* masks *)
Definition defect_mask_asym (c : call) : Prop :=
  c_hermitian c = true /\ c_second_quant c = false /\
  exists m, In m (fd_masks (fd_eff c)) /\ m_symmetric m = false.

Definition defect_mask_equal (c : call) : Prop :=
  c_second_quant c = false /\ exists m, In m (fd_masks (fd_eff c)) /\ m_hits_equal m = true.

Theorem rejects_mask_asym c :
  defect_mask_asym c ->
  exists e, validate c = Reject e AtDefinition /\
            (listed e \/ (e = UnboundLocalError /\ custom c = true)).
Proof.
  intros [Hh [Hq [m [Hin Hm]]]]. apply fire_listed with (e0 := ValueError).
  eapply (nth_fire c 29); [reflexivity|].
  rewrite Hq. cbn [negb andb]. apply existsb_exists. exists m. split; [exact Hin|].
  rewrite Hh, Hm. cbn. apply orb_true_r.
Qed.

Theorem rejects_mask_equal c :
  defect_mask_equal c ->
  exists e, validate c = Reject e AtDefinition /\
            (listed e \/ (e = UnboundLocalError /\ custom c = true)).
Proof.
  intros [Hq [m [Hin Hm]]]. apply fire_listed with (e0 := ValueError).
  eapply (nth_fire c 30); [reflexivity|].
  rewrite Hq. cbn [negb andb]. apply existsb_exists. exists m. split; assumption.
Qed.

(* mutually exclusive options *)
Inductive defect_exclusive (c : call) : Prop :=
| ExSolverFd : custom c = true -> fd_truth (c_fd c) = Some true -> defect_exclusive c
| ExVecsIndices : has_eigvecs c = true -> c_indices c = true -> defect_exclusive c
| ExHermPairs ev : c_eigvecs c = Some ev -> c_hermitian c = true -> ev_has_pair ev = true ->
                   defect_exclusive c
| ExBlockedSplit : c_preblocked c = true -> (has_eigvecs c = true \/ c_indices c = true) ->
                   defect_exclusive c
| ExLegacyNonherm : c_solver_arity c = Some 1 -> c_hermitian c = false -> defect_exclusive c
| ExImplicitKPMNonherm : implicit c = true -> c_hermitian c = false -> custom c = false ->
                         c_direct_solver c = false -> defect_exclusive c
| ExArrayBlocks t m : c_fd c = FdArray t m -> c_nblocks c <> 1 -> defect_exclusive c
| ExImplicitFd : implicit c = true ->
                 In (c_nblocks c - 1) (fd_keys (fd_eff c)) -> defect_exclusive c
| ExSolverSingle : custom c = true -> c_nblocks c = 1 -> fd_len0 (c_fd c) = true ->
                   defect_exclusive c.

Theorem rejects_exclusive c :
  defect_exclusive c ->
  exists e, validate c = Reject e AtDefinition /\
            (listed e \/ (e = UnboundLocalError /\ custom c = true)).
Proof.
  intros [Hc Hf|Hv Hi|ev He Hh Hp|Hb Hs|Ha Hh|Hi Hh Hc Hd|t m Hf Hn|Hi Hk|Hc Hn Hl].
  - apply fire_listed with (e0 := NotImplementedError).
    eapply (nth_fire c 1); [reflexivity|]. rewrite Hc, Hf. reflexivity.
  - apply fire_listed with (e0 := ValueError).
    eapply (nth_fire c 17); [reflexivity|]. rewrite Hv, Hi. reflexivity.
  - apply fire_listed with (e0 := ValueError).
    eapply (nth_fire c 7); [reflexivity|]. unfold evb. rewrite He, Hh, Hp. reflexivity.
  - apply fire_listed with (e0 := ValueError).
    eapply (nth_fire c 18); [reflexivity|]. rewrite Hb. cbn [andb].
    destruct Hs as [-> | ->]; [reflexivity|apply orb_true_r].
  - apply fire_listed with (e0 := NotImplementedError).
    eapply (nth_fire c 27); [reflexivity|]. rewrite Ha, Hh. reflexivity.
  - apply fire_listed with (e0 := NotImplementedError).
    eapply (nth_fire c 13); [reflexivity|]. rewrite Hi, Hh, Hc, Hd. reflexivity.
  - apply fire_listed with (e0 := ValueError).
    eapply (nth_fire c 20); [reflexivity|]. rewrite Hf. cbn [is_array].
    apply Nat.eqb_neq in Hn. rewrite Hn. reflexivity.
  - apply fire_listed with (e0 := ValueError).
    eapply (nth_fire c 26); [reflexivity|]. rewrite Hi. cbn [andb].
    apply existsb_exists. exists (c_nblocks c - 1). split; [exact Hk|apply Nat.eqb_refl].
  - apply fire_listed with (e0 := NotImplementedError).
    eapply (nth_fire c 21); [reflexivity|]. rewrite Hn, Hl, Hc. reflexivity.
Qed.

(* malformed containers and values *)
Inductive defect_container (c : call) : Prop :=
| DcUnsupported : c_format c = FUnsupported -> defect_container c
| DcSymbolsMissing : c_format c = FSympyExpr -> c_symbols_missing c = true -> defect_container c
| DcKeysNonCommutative : c_format c = FDictMonomial -> c_keys c = KeysNonCommutative -> defect_container c
| DcKeysNotMonomial : c_format c = FDictMonomial -> c_keys c = KeysNotMonomial -> defect_container c
| DcNonSquare : c_preblocked c = true -> c_blocks_square c = false -> defect_container c
| DcRagged0 : c_preblocked c = true -> c_ragged c (zero_order c) = true -> defect_container c
| DcInvalidOperator : c_invalid_operator c = true -> defect_container c
| DcZeroDiagonal : (forall i, i < c_nblocks c -> c_h0_diag_zero c i = true) -> defect_container c
| DcMaskNotArray m : c_second_quant c = false -> In m (fd_masks (fd_eff c)) -> m_is_ndarray m = false ->
                     defect_container c.

Theorem rejects_container c :
  defect_container c ->
  exists e, validate c = Reject e AtDefinition /\
            (listed e \/ (e = UnboundLocalError /\ custom c = true)).
Proof.
  intros [Hf|Hf Hs|Hf Hk|Hf Hk|Hb Hs|Hb Hr|Ho|Hz|m Hq Hin Hm].
  - apply fire_listed with (e0 := TypeError). eapply (nth_fire c 2); [reflexivity|].
    unfold fmt_is. rewrite Hf. reflexivity.
  - apply fire_listed with (e0 := ValueError). eapply (nth_fire c 3); [reflexivity|].
    unfold fmt_is. rewrite Hf, Hs. reflexivity.
  - apply fire_listed with (e0 := ValueError). eapply (nth_fire c 4); [reflexivity|].
    unfold fmt_is. rewrite Hf, Hk. reflexivity.
  - apply fire_listed with (e0 := ValueError). eapply (nth_fire c 5); [reflexivity|].
    unfold fmt_is. rewrite Hf, Hk. reflexivity.
  - apply fire_listed with (e0 := ValueError). eapply (nth_fire c 19); [reflexivity|].
    rewrite Hb, Hs. reflexivity.
  - apply fire_listed with (e0 := ValueError). eapply (nth_fire c 22); [reflexivity|].
    rewrite Hb, Hr. reflexivity.
  - apply fire_listed with (e0 := ValueError). eapply (nth_fire c 25); [reflexivity|]. exact Ho.
  - apply fire_listed with (e0 := ValueError). eapply (nth_fire c 24); [reflexivity|].
    apply forallb_forall. intros i Hi. apply in_seq in Hi. apply Hz. lia.
  - apply fire_listed with (e0 := ValueError). eapply (nth_fire c 29); [reflexivity|].
    rewrite Hq. cbn [negb andb]. apply existsb_exists. exists m. split; [exact Hin|].
    rewrite Hm. reflexivity.
Qed.

(* malformed subspace_eigenvectors entries and the implicit-mode restrictions *)
Inductive defect_vectors (c : call) (ev : eigvecs) : Prop :=
| DvPairLen : ev_pair_len_ok ev = false -> defect_vectors c ev
| DvShapes : ev_shapes_ok ev = false -> defect_vectors c ev
| DvImplicitBlocked : ev_complete ev = false -> c_preblocked c = true -> defect_vectors c ev
| DvImplicitSymbolic : ev_complete ev = false -> c_h0_symbolic c = true -> defect_vectors c ev
| DvImplicitDim : ev_complete ev = false -> ev_dim_matches ev = false -> defect_vectors c ev
| DvImplicitTypes : ev_complete ev = false -> custom c = false -> ev_all_ndarray ev = false ->
                    defect_vectors c ev.

Theorem rejects_vectors c ev :
  c_eigvecs c = Some ev -> defect_vectors c ev ->
  exists e, validate c = Reject e AtDefinition /\
            (listed e \/ (e = UnboundLocalError /\ custom c = true)).
Proof.
  intros He [H|H|Hc H|Hc H|Hc H|Hc Hcu H].
  - apply fire_listed with (e0 := ValueError). eapply (nth_fire c 8); [reflexivity|].
    unfold evb. rewrite He, H. reflexivity.
  - apply fire_listed with (e0 := ValueError). eapply (nth_fire c 9); [reflexivity|].
    unfold evb. rewrite He, H. reflexivity.
  - apply fire_listed with (e0 := ValueError). eapply (nth_fire c 11); [reflexivity|].
    unfold implicit, evb. rewrite He, Hc, H. reflexivity.
  - apply fire_listed with (e0 := ValueError). eapply (nth_fire c 12); [reflexivity|].
    unfold implicit, evb. rewrite He, Hc, H. reflexivity.
  - apply fire_listed with (e0 := ValueError). eapply (nth_fire c 14); [reflexivity|].
    unfold implicit, evb. rewrite He, Hc, H. reflexivity.
  - apply fire_listed with (e0 := TypeError). eapply (nth_fire c 15); [reflexivity|].
    unfold implicit, evb. rewrite He, Hc, Hcu, H. reflexivity.
Qed.

(* the NotImplementedError "implicit KPM solver does not support distinct left and right subspace
   vectors" can never be the first test to fire: pairs need hermitian=False (else the
   Hermitian-pairs test fires) and non-Hermitian implicit KPM is rejected just before *)
Theorem kpm_pairs_shadowed c :
  implicit c && negb (custom c) && negb (c_direct_solver c) && evb c ev_has_pair = true ->
  evb c (fun ev => c_hermitian c && ev_has_pair ev) = true \/
  implicit c && negb (c_hermitian c) && negb (custom c) && negb (c_direct_solver c) = true.
Proof.
  intro H. apply andb_prop in H. destruct H as [H Hp]. apply andb_prop in H. destruct H as [H Hd].
  apply andb_prop in H. destruct H as [Hi Hc].
  destruct (c_hermitian c) eqn:Eh.
  - left. unfold evb in *. destruct (c_eigvecs c); [exact Hp|discriminate].
  - right. rewrite Hi, Hc, Hd. reflexivity.
Qed.

(* a ragged grid of a later order: rejected at the first evaluation of that order *)
Theorem rejects_ragged_term c n :
  c_preblocked c = true -> c_ragged c n = true ->
  (exists e, validate c = Reject e AtDefinition /\
             (listed e \/ (e = UnboundLocalError /\ custom c = true))) \/
  (validate c = Accept /\ exists e, on_first_use c (UseTerm n) = Reject e AtFirstUse /\ e = ValueError).
Proof.
  intros Hb Hr. destruct (validate c) as [|e s] eqn:E.
  - right. split; [reflexivity|]. unfold on_first_use. rewrite Hb, Hr. cbn [andb].
    destruct (fmt_is c FSympyExpr && c_hermitian c && tri_is_no (c_term_herm c n)); eauto.
  - left. destruct (validate_reject _ _ _ E) as [-> Hin]. exists e. split; [reflexivity|].
    destruct (checks_exn _ _ _ Hin) as [Hl|[He Hb']]; [left; exact Hl|right; auto].
Qed.

(* the first test of the function: custom solver together with full diagonalisation is the
   exact exception, whatever else is wrong with the call *)
Theorem rejects_solver_fd_exact c :
  custom c = true -> fd_truth (c_fd c) = Some true ->
  validate c = Reject NotImplementedError AtDefinition.
Proof.
  intros Hc Hf. unfold validate, checks. cbn [find fst]. rewrite Hc, Hf. reflexivity.
Qed.

(* ------------------------------------------------------------------ *)
(* lazily executed classes *)

Lemma diag_pair_not_custom c i j : diag_pair c i j = true -> custom c = false.
Proof.
  unfold diag_pair, solver_of. destruct (custom c); [discriminate|reflexivity].
Qed.

Lemma custom_false_legacy c : custom c = false -> legacy c = false.
Proof. unfold custom, legacy. destruct (c_solver_arity c) as [[|[|n]]|]; try discriminate; reflexivity. Qed.

(* coupled blocks share an unperturbed energy *)
Theorem rejects_shared c i j :
  diag_pair c i j = true -> i <> j -> c_pair_shares c i j = true ->
  (exists e, validate c = Reject e AtDefinition /\ listed e) \/
  (validate c = Accept /\ on_first_use c (UsePair i j) = Reject ValueError AtFirstUse).
Proof.
  intros Hd Hij Hs. pose proof (diag_pair_not_custom _ _ _ Hd) as Hc.
  destruct (validate c) as [|e s] eqn:E.
  - right. split; [reflexivity|]. unfold on_first_use.
    rewrite (custom_false_legacy _ Hc), Hd, Hs. apply Nat.eqb_neq in Hij. rewrite Hij. reflexivity.
  - left. destruct (validate_reject _ _ _ E) as [-> Hin]. exists e. split; [reflexivity|].
    destruct (checks_exn _ _ _ Hin) as [Hl|[_ Hb]]; [exact Hl|].
    specialize (Hb eq_refl). congruence.
Qed.

(* a Hermitian-mode sympy-expression input with a coefficient that is not Hermitian *)
Theorem rejects_nonhermitian_term c n :
  c_format c = FSympyExpr -> c_hermitian c = true -> c_term_herm c n = No ->
  (exists e, validate c = Reject e AtDefinition /\
             (listed e \/ (e = UnboundLocalError /\ custom c = true))) \/
  (validate c = Accept /\ on_first_use c (UseTerm n) = Reject ValueError AtFirstUse).
Proof.
  intros Hf Hh Ht. destruct (validate c) as [|e s] eqn:E.
  - right. split; [reflexivity|]. unfold on_first_use, fmt_is. rewrite Hf, Hh, Ht. reflexivity.
  - left. destruct (validate_reject _ _ _ E) as [-> Hin]. exists e. split; [reflexivity|].
    destruct (checks_exn _ _ _ Hin) as [Hl|[He Hb]]; [left; exact Hl|right; auto].
Qed.

(* ... and at definition time when it is the zeroth-order coefficient *)
Theorem rejects_nonhermitian_term0 c :
  c_format c = FSympyExpr -> c_hermitian c = true -> c_term_herm c (zero_order c) = No ->
  exists e, validate c = Reject e AtDefinition /\
            (listed e \/ (e = UnboundLocalError /\ custom c = true)).
Proof.
  intros Hf Hh Ht. apply fire_listed with (e0 := ValueError).
  eapply (nth_fire c 6); [reflexivity|]. unfold fmt_is. rewrite Hf, Hh, Ht. reflexivity.
Qed.

(* "no later than": in the life of a call, a use that is rejected makes the whole life end
   in a rejection at an order listed no later than the order of that use in the schedule *)
Lemma first_lazy_reject c us u e s :
  In u us -> on_first_use c u = Reject e s -> first_lazy c us <> Accept.
Proof.
  induction us as [|x r IH]; intros Hin Hu; [destruct Hin|]. cbn.
  destruct Hin as [->|Hin].
  - rewrite Hu. discriminate.
  - destruct (on_first_use c x); [apply IH; assumption|discriminate].
Qed.

Lemma first_lazy_is_lazy c us : first_lazy c us = Accept \/ exists e, first_lazy c us = Reject e AtFirstUse.
Proof.
  induction us as [|x r IH]; cbn; [left; reflexivity|].
  destruct (on_first_use c x) eqn:E; [exact IH|].
  right. unfold on_first_use in E. destruct x.
  - destruct (legacy c && _); [inversion E; eauto|].
    destruct (diag_pair c i j && _ && _); [inversion E; eauto|discriminate].
  - destruct (fmt_is c FSympyExpr && _ && _); [inversion E; eauto|].
    destruct (c_preblocked c && c_ragged c n); [inversion E; eauto|discriminate].
Qed.

Theorem life_no_later c pre n us post u e s :
  validate c = Accept ->
  In u us -> on_first_use c u = Reject e s ->
  exists e' n', life c (pre ++ (n, us) :: post) = (Reject e' AtFirstUse, Some n') /\
                In n' (map fst pre ++ [n]).
Proof.
  intros Hv Hin Hu. unfold life. rewrite Hv.
  induction pre as [|[m vs] pre IH]; cbn.
  - destruct (first_lazy_is_lazy c us) as [Ha|[e' He']].
    + exfalso. eapply first_lazy_reject; eauto.
    + rewrite He'. exists e', n. split; [reflexivity|left; reflexivity].
  - destruct (first_lazy_is_lazy c vs) as [Ha|[e' He']].
    + rewrite Ha. destruct IH as [e' [n' [H1 H2]]]. exists e', n'. split; [exact H1|right; exact H2].
    + rewrite He'. exists e', m. split; [reflexivity|left; reflexivity].
Qed.

(* ------------------------------------------------------------------ *)
(* well-posed calls are accepted *)

Record Wellposed (c : call) : Prop := {
  wp_solver_fd : custom c = true -> fd_truth (c_fd c) = Some false;
  wp_format : c_format c <> FUnsupported;
  wp_symbols : c_format c = FSympyExpr -> c_symbols_missing c = false;
  wp_keys : c_format c = FDictMonomial -> c_keys c = KeysOk;
  wp_herm0 : c_format c = FSympyExpr -> c_hermitian c = true ->
             c_term_herm c (zero_order c) <> No;
  wp_ev : forall ev, c_eigvecs c = Some ev ->
          (c_hermitian c = true -> ev_has_pair ev = false) /\
          ev_pair_len_ok ev = true /\ ev_shapes_ok ev = true /\
          (ev_kind ev <> VecOtherType -> ev_overlap ev <> No) /\
          c_indices c = false /\ c_preblocked c = false;
  wp_implicit : forall ev, c_eigvecs c = Some ev -> ev_complete ev = false ->
          c_h0_symbolic c = false /\
          (c_hermitian c = false -> custom c = false -> c_direct_solver c = true) /\
          ev_dim_matches ev = true /\
          (custom c = false -> ev_all_ndarray ev = true) /\
          ~ In (c_nblocks c - 1) (fd_keys (fd_eff c));
  wp_blocked : c_preblocked c = true -> c_indices c = false /\ c_blocks_square c = true;
  wp_array : c_nblocks c <> 1 -> is_array (c_fd c) = false;
  wp_single_custom : custom c = true -> c_nblocks c = 1 -> fd_len0 (c_fd c) = false;
  wp_h0_off : forall i j, i < c_nblocks c -> j < c_nblocks c -> scanned c i j = true ->
              c_h0_off c i j <> BNonzero;
  wp_h0_diag : exists i, i < c_nblocks c /\ c_h0_diag_zero c i = false;
  wp_operator : c_invalid_operator c = false;
  wp_ragged0 : c_preblocked c = true -> c_ragged c (zero_order c) = false;
  wp_legacy : c_solver_arity c = Some 1 -> c_hermitian c = true;
  wp_custom_fd : custom c = true -> implicit c = false -> fd_keys (fd_eff c) = [];
  wp_masks : c_second_quant c = false -> forall m, In m (fd_masks (fd_eff c)) ->
             m_is_ndarray m = true /\ (c_hermitian c = true -> m_symmetric m = true) /\
             m_hits_equal m = false
}.

Lemma existsb_false {A} (f : A -> bool) l : (forall x, In x l -> f x = false) -> existsb f l = false.
Proof.
  intro H. destruct (existsb f l) eqn:E; [|reflexivity].
  apply existsb_exists in E. destruct E as [x [Hx Hf]]. rewrite (H x Hx) in Hf. discriminate.
Qed.

Lemma in_all_pairs_inv n i j : In (i, j) (all_pairs n) -> i < n /\ j < n.
Proof.
  unfold all_pairs. intro H. apply in_flat_map in H. destruct H as [i' [Hi Hj]].
  apply in_map_iff in Hj. destruct Hj as [j' [Heq Hj]]. inversion Heq; subst.
  apply in_seq in Hi. apply in_seq in Hj. lia.
Qed.

Theorem accepts_wellposed c : Wellposed c -> validate c = Accept.
Proof.
  intro W. apply validate_accept_iff. intros p Hp.
  unfold checks in Hp. cbn [In] in Hp.
  repeat (destruct Hp as [Hp|Hp]; [subst p; cbn [fst]|]); try contradiction.
  - (* custom, ambiguous *) destruct (custom c) eqn:Ec; [|reflexivity].
    rewrite (wp_solver_fd _ W Ec). reflexivity.
  - destruct (custom c) eqn:Ec; [|reflexivity]. rewrite (wp_solver_fd _ W Ec). reflexivity.
  - pose proof (wp_format _ W). unfold fmt_is. destruct (c_format c); try reflexivity. congruence.
  - unfold fmt_is. destruct (c_format c) eqn:Ef; try reflexivity. rewrite (wp_symbols _ W Ef). reflexivity.
  - unfold fmt_is. destruct (c_format c) eqn:Ef; try reflexivity. rewrite (wp_keys _ W Ef). reflexivity.
  - unfold fmt_is. destruct (c_format c) eqn:Ef; try reflexivity. rewrite (wp_keys _ W Ef). reflexivity.
  - unfold fmt_is. destruct (c_format c) eqn:Ef; try reflexivity.
    destruct (c_hermitian c) eqn:Eh; [|reflexivity]. pose proof (wp_herm0 _ W Ef Eh) as H.
    destruct (c_term_herm c (zero_order c)); try reflexivity. congruence.
  - unfold evb. destruct (c_eigvecs c) as [ev|] eqn:Ee; [|reflexivity].
    destruct (wp_ev _ W ev Ee) as [H _]. destruct (c_hermitian c) eqn:Eh; [|reflexivity].
    rewrite (H eq_refl). reflexivity.
  - unfold evb. destruct (c_eigvecs c) as [ev|] eqn:Ee; [|reflexivity].
    destruct (wp_ev _ W ev Ee) as [_ [H _]]. rewrite H. reflexivity.
  - unfold evb. destruct (c_eigvecs c) as [ev|] eqn:Ee; [|reflexivity].
    destruct (wp_ev _ W ev Ee) as [_ [_ [H _]]]. rewrite H. reflexivity.
  - unfold evb. destruct (c_eigvecs c) as [ev|] eqn:Ee; [|reflexivity].
    destruct (wp_ev _ W ev Ee) as [_ [_ [_ [H _]]]].
    destruct (ev_kind ev); try reflexivity;
      (destruct (ev_overlap ev); try reflexivity; exfalso; apply H; [discriminate|reflexivity]).
  - unfold implicit, evb. destruct (c_eigvecs c) as [ev|] eqn:Ee; [|reflexivity].
    destruct (wp_ev _ W ev Ee) as [_ [_ [_ [_ [_ H]]]]]. rewrite H. apply andb_false_r.
  - unfold implicit, evb. destruct (c_eigvecs c) as [ev|] eqn:Ee; [|reflexivity].
    destruct (ev_complete ev) eqn:Ec; [reflexivity|].
    destruct (wp_implicit _ W ev Ee Ec) as [H _]. rewrite H. reflexivity.
  - unfold implicit, evb. destruct (c_eigvecs c) as [ev|] eqn:Ee; [|reflexivity].
    destruct (ev_complete ev) eqn:Ec; [reflexivity|].
    destruct (wp_implicit _ W ev Ee Ec) as [_ [H _]].
    destruct (c_hermitian c) eqn:Eh; [reflexivity|]. destruct (custom c) eqn:Ecu; [reflexivity|].
    rewrite (H eq_refl eq_refl). reflexivity.
  - unfold implicit, evb. destruct (c_eigvecs c) as [ev|] eqn:Ee; [|reflexivity].
    destruct (ev_complete ev) eqn:Ec; [reflexivity|].
    destruct (wp_implicit _ W ev Ee Ec) as [_ [_ [H _]]]. rewrite H. reflexivity.
  - unfold implicit, evb. destruct (c_eigvecs c) as [ev|] eqn:Ee; [|reflexivity].
    destruct (ev_complete ev) eqn:Ec; [reflexivity|].
    destruct (wp_implicit _ W ev Ee Ec) as [_ [_ [_ [H _]]]].
    destruct (custom c) eqn:Ecu; [reflexivity|]. rewrite (H eq_refl). reflexivity.
  - unfold implicit, evb. destruct (c_eigvecs c) as [ev|] eqn:Ee; [|reflexivity].
    destruct (ev_complete ev) eqn:Ec; [reflexivity|].
    destruct (wp_implicit _ W ev Ee Ec) as [_ [H _]].
    destruct (wp_ev _ W ev Ee) as [Hp _].
    destruct (custom c) eqn:Ecu; [reflexivity|]. destruct (c_direct_solver c) eqn:Ed; [reflexivity|].
    destruct (c_hermitian c) eqn:Eh.
    + rewrite (Hp eq_refl). reflexivity.
    + specialize (H eq_refl eq_refl). discriminate.
  - unfold has_eigvecs, evb. destruct (c_eigvecs c) as [ev|] eqn:Ee; [|reflexivity].
    destruct (wp_ev _ W ev Ee) as [_ [_ [_ [_ [H _]]]]]. rewrite H. reflexivity.
  - destruct (c_preblocked c) eqn:Eb; [|reflexivity].
    destruct (wp_blocked _ W Eb) as [Hi _]. rewrite Hi.
    unfold has_eigvecs, evb. destruct (c_eigvecs c) as [ev|] eqn:Ee; [|reflexivity].
    destruct (wp_ev _ W ev Ee) as [_ [_ [_ [_ [_ H]]]]]. congruence.
  - destruct (c_preblocked c) eqn:Eb; [|reflexivity].
    destruct (wp_blocked _ W Eb) as [_ H]. rewrite H. reflexivity.
  - destruct (c_nblocks c =? 1) eqn:En; [reflexivity|]. apply Nat.eqb_neq in En.
    rewrite (wp_array _ W En). reflexivity.
  - destruct (c_nblocks c =? 1) eqn:En; [|reflexivity]. apply Nat.eqb_eq in En.
    destruct (custom c) eqn:Ec; [|apply andb_false_r].
    rewrite (wp_single_custom _ W Ec En). reflexivity.
  - destruct (c_preblocked c) eqn:Eb; [|reflexivity]. rewrite (wp_ragged0 _ W Eb). reflexivity.
  - apply existsb_false. intros [i j] Hin. cbn [fst snd].
    destruct (in_all_pairs_inv _ _ _ Hin) as [Hi Hj].
    destruct (scanned c i j) eqn:Es; [|reflexivity].
    pose proof (wp_h0_off _ W i j Hi Hj Es) as H.
    destruct (c_h0_off c i j); try reflexivity. congruence.
  - destruct (wp_h0_diag _ W) as [i [Hi Hz]].
    destruct (forallb (c_h0_diag_zero c) (seq 0 (c_nblocks c))) eqn:E; [|reflexivity].
    rewrite forallb_forall in E. rewrite (E i) in Hz; [discriminate|apply in_seq; lia].
  - apply (wp_operator _ W).
  - unfold implicit, evb. destruct (c_eigvecs c) as [ev|] eqn:Ee; [|reflexivity].
    destruct (ev_complete ev) eqn:Ec; [reflexivity|].
    destruct (wp_implicit _ W ev Ee Ec) as [_ [_ [_ [_ H]]]]. cbn [negb andb].
    apply existsb_false. intros x Hx. destruct (c_nblocks c - 1 =? x) eqn:E; [|reflexivity].
    apply Nat.eqb_eq in E. subst x. contradiction.
  - destruct (c_solver_arity c) as [[|[|n]]|] eqn:Ea; try reflexivity.
    rewrite (wp_legacy _ W Ea). reflexivity.
  - destruct (custom c) eqn:Ec; [|reflexivity]. destruct (implicit c) eqn:Ei; [reflexivity|].
    rewrite (wp_custom_fd _ W Ec Ei). reflexivity.
  - destruct (c_second_quant c) eqn:Eq; [reflexivity|]. cbn [negb andb].
    apply existsb_false. intros m Hm. destruct (wp_masks _ W Eq m Hm) as [H1 [H2 _]].
    rewrite H1. cbn. destruct (c_hermitian c) eqn:Eh; [|reflexivity]. rewrite (H2 eq_refl). reflexivity.
  - destruct (c_second_quant c) eqn:Eq; [reflexivity|]. cbn [negb andb].
    apply existsb_false. intros m Hm. destruct (wp_masks _ W Eq m Hm) as [_ [_ H3]]. exact H3.
Qed.

(* lazily: no coupled pair shares an energy, no coefficient is definitely non-Hermitian, a legacy
   solver is only used for the two-block off-diagonal terms *)
Definition Wellposed_lazy (c : call) (u : use) : Prop :=
  match u with
  | UsePair i j =>
    (legacy c = true -> (i = 0 /\ j = 1) \/ (i = 1 /\ j = 0)) /\
    (diag_pair c i j = true -> i <> j -> c_pair_shares c i j = false)
  | UseTerm n =>
    (c_format c = FSympyExpr -> c_hermitian c = true -> c_term_herm c n <> No) /\
    (c_preblocked c = true -> c_ragged c n = false)
  end.

Theorem accepts_wellposed_lazy c u : Wellposed_lazy c u -> on_first_use c u = Accept.
Proof.
  destruct u as [i j|n]; cbn.
  - intros [Hl Hs]. destruct (legacy c) eqn:El.
    + destruct (Hl eq_refl) as [[-> ->]|[-> ->]]; cbn;
        (destruct (diag_pair c _ _) eqn:Ed; [|reflexivity]);
        rewrite (Hs eq_refl) by lia; reflexivity.
    + cbn. destruct (diag_pair c i j) eqn:Ed; [|reflexivity].
      destruct (i =? j) eqn:Eij; [reflexivity|]. apply Nat.eqb_neq in Eij.
      rewrite (Hs eq_refl Eij). reflexivity.
  - intros [H Hr].
    assert (Hrag : c_preblocked c && c_ragged c n = false).
    { destruct (c_preblocked c) eqn:Eb; [|reflexivity]. rewrite (Hr eq_refl). reflexivity. }
    rewrite Hrag.
    unfold fmt_is. destruct (c_format c) eqn:Ef; try reflexivity.
    destruct (c_hermitian c) eqn:Eh; [|reflexivity].
    specialize (H eq_refl eq_refl). destruct (c_term_herm c n); try reflexivity. congruence.
Qed.

Theorem accepts_wellposed_life c sched :
  Wellposed c -> (forall n us u, In (n, us) sched -> In u us -> Wellposed_lazy c u) ->
  life c sched = (Accept, None).
Proof.
  intros W HL. unfold life. rewrite (accepts_wellposed _ W).
  induction sched as [|[n us] r IH]; [reflexivity|]. cbn.
  assert (Hf : first_lazy c us = Accept).
  { assert (Hall : forall u, In u us -> on_first_use c u = Accept).
    { intros u Hu. apply accepts_wellposed_lazy. eapply HL; [left; reflexivity|exact Hu]. }
    clear HL IH. induction us as [|x xs IHx]; [reflexivity|]. cbn.
    rewrite (Hall x (or_introl eq_refl)). apply IHx. intros; apply Hall; right; assumption. }
  rewrite Hf. apply IH. intros n' us' u Hin Hu. eapply HL; [right; exact Hin|exact Hu].
Qed.

(* ------------------------------------------------------------------ *)
(* link with the model of the diagonal solver (Front/SylvDiag.v) *)

Require PV.Front.GaussQc PV.Front.SylvDiag PV.Front.SylvDiagProofs.

(* block_diagonalize builds solve_sylvester_diagonal(diagonal, atol=atol) for SDiagonal and
   solve_sylvester_direct builds explicit_part = solve_sylvester_diagonal(eigenvalues, atol=..)
   for SDirect: both closures have vecs_implicit = None.  Only solve_sylvester_KPM passes
   vecs_implicit. *)
Definition closure_without_vecs_implicit (s : solver) : bool :=
  match s with SDiagonal | SDirect => true | _ => false end.

Theorem finite_accepted (c : call) (F : GaussQc.Fld) (E : list (SylvDiag.eigs F))
        (reqs : list (SylvDiag.rhs F * (nat * nat))) :
  validate c = Accept ->
  closure_without_vecs_implicit (solver_of c) = true ->
  ~ In SylvDiag.ODivTol (fst (SylvDiag.run F E None [] reqs)).
Proof.
  intros _ _. apply SylvDiagProofs.run_nodiv; [apply SylvDiagProofs.Inv_nil|reflexivity].
Qed.
