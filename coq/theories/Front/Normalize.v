(* Model of the container normalisation of pymablock.block_diagonalization:
   _to_scalar_BlockSeries (_list_to_dict, _dict_to_BlockSeries, _symbolic_keys_to_tuples,
   _sympy_to_BlockSeries for polynomial dependence), _unpack_blocks, BlockSeries passthrough.

   A Hamiltonian series is a map from order tuples ([list nat]) to values; [None] is the
   sentinel zero ("absent").  Values are abstract ([V] with a zero and a zero test); for the
   Taylor chain they carry multiplication and exact division by natural numbers.

   Out of scope (said so in Props/C14.v): non-polynomial analytic dependence on the symbols
   (relies on sympy's diff), ill-formed containers (rejected by the code, see Front/Validate.v). *)

Require Import List Bool Arith Lia.
Import ListNotations.

Record Vals : Type := mkVals {
  V : Type;
  vzero : V;
  vzerob : V -> bool;                 (* _convert_if_zero's test *)
  nsmul : nat -> V -> V;              (* n * v *)
  ndiv : nat -> V -> V;               (* v / n *)
  V_zerob : forall v, vzerob v = true <-> v = vzero;
  V_smul_1 : forall v, nsmul 1 v = v;
  V_smul_mul : forall a b v, nsmul (a * b) v = nsmul a (nsmul b v);
  V_div_smul : forall m v, m <> 0 -> ndiv m (nsmul m v) = v
}.

Section Containers.
Variable W : Vals.
Notation V := (V W).

Definition order := list nat.

Fixpoint order_eqb (a b : order) : bool :=
  match a, b with
  | [], [] => true
  | x :: r, y :: s => (x =? y) && order_eqb r s
  | _, _ => false
  end.

(* a Python dict with tuple keys, in insertion order *)
Definition fam := list (order * V).

Fixpoint lookup (d : fam) (n : order) : option V :=
  match d with
  | [] => None
  | (k, v) :: r => if order_eqb k n then Some v else lookup r n
  end.

(* Python dict construction: a later item with the same key overwrites the earlier one *)
Fixpoint dict_of_items (items : fam) : fam :=
  match items with
  | [] => []
  | (k, v) :: r =>
    let d := dict_of_items r in
    match lookup d k with Some _ => d | None => (k, v) :: d end
  end.

(* ---------------- _list_to_dict ---------------- *)

Definition unit_vec (k i : nat) : order := map (fun j => if j =? i then 1 else 0) (seq 0 k).

Fixpoint imap {A B} (f : nat -> A -> B) (i : nat) (l : list A) : list B :=
  match l with [] => [] | a :: r => f i a :: imap f (S i) r end.

(* [h_0, h_1, ..., h_k] -> {(0,..,0): h_0, e_1: h_1, ..., e_k: h_k}; None = IndexError on [] *)
Definition list_to_dict (l : list V) : option fam :=
  match l with
  | [] => None
  | h0 :: ps =>
    let k := length ps in
    Some ((repeat 0 k, h0) :: imap (fun i p => (unit_vec k i, p)) 0 ps)
  end.

(* ---------------- _symbolic_keys_to_tuples ---------------- *)

(* a symbol is its rank in the order of symbol names; a monomial key is its as_powers_dict
   (the key 1 is the empty monomial) *)
Definition monomial := list (nat * nat).

Fixpoint insert_u (s : nat) (l : list nat) : list nat :=
  match l with
  | [] => [s]
  | x :: r => if s <? x then s :: l else if s =? x then l else x :: insert_u s r
  end.

(* tuple(sorted(set.union(...), key=name)) *)
Definition symbols_of (keys : list monomial) : list nat :=
  fold_right insert_u [] (flat_map (map fst) keys).

Fixpoint power_of (m : monomial) (s : nat) : nat :=
  match m with [] => 0 | (x, p) :: r => if x =? s then p else power_of r s end.

Definition key_tuple (symbols : list nat) (m : monomial) : order :=
  map (power_of m) symbols.

Definition symbolic_keys_to_tuples (d : list (monomial * V)) : fam * list nat :=
  let symbols := symbols_of (map fst d) in
  (* new_hamiltonian[tuple(...)] = value, in iteration order: later keys overwrite *)
  (dict_of_items (map (fun kv => (key_tuple symbols (fst kv), snd kv)) d), symbols).

(* ---------------- _sympy_to_BlockSeries, polynomial dependence ---------------- *)

(* a matrix polynomial in k symbols = coefficient function on exponent tuples (finitely many
   non-zero values) *)
Definition poly := order -> V.

Fixpoint bump (i : nat) (e : order) : order :=
  match i, e with
  | _, [] => []
  | 0, x :: r => S x :: r
  | S i', x :: r => x :: bump i' r
  end.

(* operator.diff(symbols[i]) on coefficients *)
Definition pdiff (i : nat) (Q : poly) : poly :=
  fun e => nsmul W (S (nth i e 0)) (Q (bump i e)).

(* ... / order *)
Definition pdivn (m : nat) (Q : poly) : poly := fun e => ndiv W m (Q e).

(* derivative_eval unrolled: the index is reduced along its first non-zero axis, so the
   derivatives of the later axes are taken first and axis i is raised from a-1 to a by
   diff(..., symbols[i]) / a *)
Fixpoint iter_axis (i a : nat) (Q : poly) : poly :=
  match a with
  | 0 => Q
  | S a' => pdivn (S a') (pdiff i (iter_axis i a' Q))
  end.

Fixpoint deriv_from (i : nat) (n : order) (P : poly) : poly :=
  match n with
  | [] => P
  | a :: r => iter_axis i a (deriv_from (S i) r P)
  end.

(* operator_derivatives[index].subs({n: 0 for n in symbols}) *)
Definition taylor (P : poly) (n : order) : V :=
  deriv_from 0 n P (repeat 0 (length n)).

(* op_eval: the coefficient times the monomial prod(symbol ** n), or the sentinel zero *)
Inductive expr_value := EV (mono : order) (coeff : V).

Definition sympy_to_series (P : poly) (n : order) : option expr_value :=
  let c := taylor P n in
  if vzerob W c then None else Some (EV n c).

(* ---------------- which symbol belongs to which index ---------------- *)

(* _sympy_to_BlockSeries: "if not symbols: symbols = tuple(list(operator.free_symbols))" - an
   explicit [symbols] list is used AS GIVEN (no sorting); without one the iteration order of the
   set of free symbols is used (unspecified: a fact of the call).  Symbols are their ranks in the
   name order, as for monomial keys. *)
Definition resolve_symbols (given free_order : list nat) : list nat :=
  match given with [] => free_order | _ => given end.

Fixpoint index_of (s : nat) (l : list nat) : option nat :=
  match l with
  | [] => None
  | x :: r => if x =? s then Some 0 else option_map S (index_of s r)
  end.

(* the exponent of symbol s in the monomial  prod_i symbols_i ^ e_i *)
Definition powers_of (symbols : list nat) (e : order) (s : nat) : nat :=
  match index_of s symbols with Some i => nth i e 0 | None => 0 end.

(* a polynomial whose monomials are given by the exponent of every (named) symbol *)
Definition npoly := (nat -> nat) -> V.

Definition poly_in (symbols : list nat) (Q : npoly) : poly :=
  fun e => Q (powers_of symbols e).

Definition sympy_named_series (given free_order : list nat) (Q : npoly) (n : order) :
  option expr_value :=
  sympy_to_series (poly_in (resolve_symbols given free_order) Q) n.

(* ---------------- the scalar (unblocked) normal form ---------------- *)

Inductive container :=
| CList (l : list V)
| CDict (d : fam)
| CMono (d : list (monomial * V))
| CExpr (nsym : nat) (P : poly)
| CSeries (s : order -> option V).          (* an existing BlockSeries: used as is *)

Inductive nf_value := NV (v : V) | NE (e : expr_value).

Inductive result (A : Type) := Ok (a : A) | RaiseIndexError.
Arguments Ok {A} a.
Arguments RaiseIndexError {A}.

Definition to_scalar_series (c : container) : result (order -> option nf_value) :=
  match c with
  | CList l =>
    match list_to_dict l with
    | Some d => Ok (fun n => option_map NV (lookup d n))
    | None => RaiseIndexError
    end
  | CDict d => Ok (fun n => option_map NV (lookup d n))
  | CMono d => Ok (fun n => option_map NV (lookup (fst (symbolic_keys_to_tuples d)) n))
  | CExpr _ P => Ok (fun n => option_map NE (sympy_to_series P n))
  | CSeries s => Ok (fun n => option_map NV (s n))
  end.

(* the matrix an element denotes as a Taylor coefficient: absent = zero; the monomial factor
   of the sympy-expression format is the formal parameter itself *)
Definition coeff_of (o : option nf_value) : V :=
  match o with
  | None => vzero W
  | Some (NV v) => v
  | Some (NE (EV _ c)) => c
  end.

(* ---------------- _unpack_blocks ---------------- *)

(* values that are nested lists of blocks: grid[i][j] *)
Definition grid := list (list V).

Definition unpack_blocks (s : order -> option grid) (i j : nat) (n : order) : option V :=
  match s n with
  | None => None
  | Some g =>
    match nth_error g i with
    | Some row =>
      match nth_error row j with
      | Some v => if vzerob W v then None else Some v
      | None => None            (* ValueError "must have an NxN block structure" in the code *)
      end
    | None => None
    end
  end.

End Containers.

Arguments Ok {A} a.
Arguments RaiseIndexError {A}.
Arguments CList {W} l.
Arguments CDict {W} d.
Arguments CMono {W} d.
Arguments CExpr {W} nsym P.
Arguments CSeries {W} s.
Arguments EV {W} mono coeff.
Arguments NV {W} v.
Arguments NE {W} e.
