(* Model of operator_to_BlockSeries (projection onto blocks) and _subspaces_from_indices.
   Matrices are functions nat -> nat -> K with explicit dimensions; products are genuine sums. *)

Require Import List Bool Arith Lia Ring.
Require Import PV.Front.GaussQc PV.Front.SylvDiagProofs.
Import ListNotations.

Section Project.
Variable F : Fld.
Notation K := (K F).
Notation k0 := (k0 F).
Notation k1 := (k1 F).
Notation "x + y" := (kadd F x y).
Notation "x * y" := (kmul F x y).

Add Ring KringP : (F_ring F).

Definition fmat := nat -> nat -> K.

(* Dagger *)
Definition fadj (A : fmat) : fmat := fun a b => kconj F (A b a).

(* left_projectors[i] @ original @ right_projectors[j] with left_projectors[i] = Dagger(L_i):
   (Dagger(L) @ A) @ R, N the ambient dimension *)
Definition project (N : nat) (L R A : fmat) : fmat :=
  fmul F N (fmul F N (fadj L) A) R.

(* _convert_if_zero on a d1 x d2 block (exact zero test) *)
Definition fzerob (d1 d2 : nat) (M : fmat) : bool :=
  forallb (fun a => forallb (fun b => keqb F (M a b) k0) (seq 0 d2)) (seq 0 d1).

Definition convert (d1 d2 : nat) (M : fmat) : option fmat :=
  if fzerob d1 d2 M then None else Some M.

(* _subspaces_from_indices: the columns of the identity at the positions of block b *)
Definition positions (sub : list nat) (b : nat) : list nat :=
  filter (fun k => nth k sub 0 =? b) (seq 0 (length sub)).

Definition sel (N : nat) (pos : list nat) : fmat :=
  fun l c => if l =? nth c pos N then k1 else k0.

(* the blocks: ambient dimension, sizes, left and right bases *)
Record setup := mkSetup {
  s_N : nat;
  s_size : nat -> nat;
  s_L : nat -> fmat;
  s_R : nat -> fmat
}.

Definition setup_of_indices (sub : list nat) : setup :=
  mkSetup (length sub) (fun b => length (positions sub b))
          (fun b => sel (length sub) (positions sub b))
          (fun b => sel (length sub) (positions sub b)).

(* op_eval of operator_to_BlockSeries for one order; [A] is the scalar series element
   (None = sentinel zero) *)
Definition direct (S : setup) (A : option fmat) (i j : nat) : option fmat :=
  match A with
  | None => None
  | Some M => convert (s_size S i) (s_size S j) (project (s_N S) (s_L S i) (s_R S j) M)
  end.

Definition op_eval (S : setup) (hermitian : bool) (A : option fmat) (i j : nat) : option fmat :=
  if hermitian && (j <? i) then option_map fadj (direct S A j i)   (* Dagger(op[(j, i, ...)]) *)
  else direct S A i j.

(* the matrix an element denotes: the sentinel zero is the zero matrix *)
Definition oget (o : option fmat) (a b : nat) : K :=
  match o with Some M => M a b | None => k0 end.

(* ------------------------------------------------------------------ *)
(* sums *)

Lemma fsum_ext n f g : (forall k, k < n -> f k = g k) -> fsum F n f = fsum F n g.
Proof.
  induction n; intro H; cbn; [reflexivity|]. rewrite IHn by (intros; apply H; lia).
  rewrite H by lia. reflexivity.
Qed.

Lemma fsum_zero n : fsum F n (fun _ => k0) = k0.
Proof. induction n; cbn; [reflexivity|]. rewrite IHn. ring. Qed.

Lemma fsum_add n f g : fsum F n (fun k => f k + g k) = fsum F n f + fsum F n g.
Proof. induction n; cbn; [ring|]. rewrite IHn. ring. Qed.

Lemma fsum_mul_r n f c : fsum F n f * c = fsum F n (fun k => f k * c).
Proof. induction n; cbn; [ring|]. rewrite <- IHn. ring. Qed.

Lemma fsum_mul_l n f c : c * fsum F n f = fsum F n (fun k => c * f k).
Proof. induction n; cbn; [ring|]. rewrite <- IHn. ring. Qed.

Lemma fsum_swap n m (f : nat -> nat -> K) :
  fsum F n (fun a => fsum F m (fun b => f a b)) = fsum F m (fun b => fsum F n (fun a => f a b)).
Proof.
  induction n; cbn.
  - rewrite fsum_zero. reflexivity.
  - rewrite IHn, <- fsum_add. reflexivity.
Qed.

Lemma conj_0 : kconj F k0 = k0.
Proof.
  assert (H : kconj F k0 + kconj F k0 = kconj F k0).
  { rewrite <- (F_conj_add F). f_equal. ring. }
  transitivity (kconj F k0 + kconj F k0 + kopp F (kconj F k0)); [ring|]. rewrite H. ring.
Qed.

Lemma conj_fsum n f : kconj F (fsum F n f) = fsum F n (fun k => kconj F (f k)).
Proof. induction n; cbn; [apply conj_0|]. rewrite (F_conj_add F), IHn. reflexivity. Qed.

(* ------------------------------------------------------------------ *)
(* C14_projection: element (i, j, n) is L_i^dagger A_n R_j *)

Theorem project_entry N L R A a b :
  project N L R A a b =
  fsum F N (fun l => fsum F N (fun k => kconj F (L k a) * A k l) * R l b).
Proof. reflexivity. Qed.

Lemma fzerob_true d1 d2 M : fzerob d1 d2 M = true ->
  forall a b, a < d1 -> b < d2 -> M a b = k0.
Proof.
  unfold fzerob. intros H a b Ha Hb. rewrite forallb_forall in H.
  specialize (H a). rewrite forallb_forall in H.
  apply (F_eqb F). apply H; apply in_seq; lia.
Qed.

Lemma oget_convert d1 d2 M a b : a < d1 -> b < d2 -> oget (convert d1 d2 M) a b = M a b.
Proof.
  intros Ha Hb. unfold convert. destruct (fzerob d1 d2 M) eqn:E; [|reflexivity].
  cbn. symmetry. eapply fzerob_true; eauto.
Qed.

Theorem op_eval_direct S A M i j a b :
  A = Some M -> a < s_size S i -> b < s_size S j ->
  oget (direct S A i j) a b = project (s_N S) (s_L S i) (s_R S j) M a b.
Proof. intros -> Ha Hb. cbn. apply oget_convert; assumption. Qed.

Theorem op_eval_absent S h i j a b : oget (op_eval S h None i j) a b = k0.
Proof. unfold op_eval. destruct (h && (j <? i)); reflexivity. Qed.

(* with index vectors the projection is the sub-matrix rows(i) x cols(j) *)
Lemma sel_sum_l N pos (f : nat -> K) c :
  nth c pos N < N ->
  fsum F N (fun k => kconj F (sel N pos k c) * f k) = f (nth c pos N).
Proof.
  intro H. rewrite (fsum_single F N _ (nth c pos N) H).
  - unfold sel. rewrite Nat.eqb_refl, (F_conj_1 F). ring.
  - intros k Hk. unfold sel. destruct (k =? nth c pos N) eqn:E; [apply Nat.eqb_eq in E; congruence|].
    rewrite conj_0. ring.
Qed.

Lemma sel_sum_r N pos (f : nat -> K) c :
  nth c pos N < N ->
  fsum F N (fun l => f l * sel N pos l c) = f (nth c pos N).
Proof.
  intro H. rewrite (fsum_single F N _ (nth c pos N) H).
  - unfold sel. rewrite Nat.eqb_refl. ring.
  - intros k Hk. unfold sel. destruct (k =? nth c pos N) eqn:E; [apply Nat.eqb_eq in E; congruence|].
    ring.
Qed.

Theorem project_indices N rows cols A a b :
  nth a rows N < N -> nth b cols N < N ->
  project N (sel N rows) (sel N cols) A a b = A (nth a rows N) (nth b cols N).
Proof.
  intros Ha Hb. rewrite project_entry.
  rewrite (sel_sum_r N cols (fun l => fsum F N (fun k => kconj F (sel N rows k a) * A k l)) b Hb).
  apply (sel_sum_l N rows (fun k => A k (nth b cols N)) a Ha).
Qed.

Lemma positions_lt sub b c : c < length (positions sub b) ->
  nth c (positions sub b) (length sub) < length sub /\
  nth (nth c (positions sub b) (length sub)) sub 0 = b.
Proof.
  intro H. assert (Hin : In (nth c (positions sub b) (length sub)) (positions sub b))
    by (apply nth_In; exact H).
  set (p := nth c (positions sub b) (length sub)) in *.
  unfold positions in Hin.
  apply filter_In in Hin. destruct Hin as [Hs Hb]. apply in_seq in Hs. apply Nat.eqb_eq in Hb.
  split; [lia|exact Hb].
Qed.

Theorem op_eval_indices sub M i j a b :
  a < length (positions sub i) -> b < length (positions sub j) ->
  oget (direct (setup_of_indices sub) (Some M) i j) a b =
  M (nth a (positions sub i) (length sub)) (nth b (positions sub j) (length sub)).
Proof.
  intros Ha Hb. rewrite (op_eval_direct _ _ M) by (auto; assumption).
  cbn [setup_of_indices s_N s_L s_R]. apply project_indices.
  - apply positions_lt, Ha.
  - apply positions_lt, Hb.
Qed.

(* ------------------------------------------------------------------ *)
(* C14_hermitian_fill: Dagger of the upper block agrees with direct projection *)

Theorem fadj_project N R1 R2 A a b :
  (forall k l, k < N -> l < N -> A l k = kconj F (A k l)) ->
  fadj (project N R1 R2 A) a b = project N R2 R1 A a b.
Proof.
  intro HA. unfold fadj. rewrite !project_entry.
  rewrite conj_fsum.
  transitivity (fsum F N (fun l => fsum F N (fun k => kconj F (R2 l a) * A l k * R1 k b))).
  - apply fsum_ext. intros l Hl. rewrite (F_conj_mul F), conj_fsum, fsum_mul_r.
    apply fsum_ext. intros k Hk.
    rewrite (F_conj_mul F), (F_conj_conj F), <- (HA k l Hk Hl). ring.
  - rewrite fsum_swap. apply fsum_ext. intros k Hk. rewrite fsum_mul_r. reflexivity.
Qed.

Theorem hermitian_fill S M i j a b :
  (forall b, s_L S b = s_R S b) ->
  (forall k l, k < s_N S -> l < s_N S -> M l k = kconj F (M k l)) ->
  j < i -> a < s_size S i -> b < s_size S j ->
  oget (op_eval S true (Some M) i j) a b = oget (direct S (Some M) i j) a b.
Proof.
  intros HLR HA Hji Ha Hb. unfold op_eval.
  apply Nat.ltb_lt in Hji. rewrite Hji. cbn [andb].
  rewrite (op_eval_direct S (Some M) M i j a b eq_refl Ha Hb).
  cbn [direct]. rewrite !HLR. unfold convert.
  destruct (fzerob (s_size S j) (s_size S i) (project (s_N S) (s_R S j) (s_R S i) M)) eqn:E.
  - cbn. rewrite <- (fadj_project (s_N S) (s_R S j) (s_R S i) M a b HA).
    unfold fadj. rewrite (fzerob_true _ _ _ E b a Hb Ha), conj_0. reflexivity.
  - cbn. apply fadj_project. exact HA.
Qed.

End Project.
