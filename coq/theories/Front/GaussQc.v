(* Gaussian rationals over canonical rationals [Qc] (Leibniz equality, computable):
   the executable value domain of the front-end models (energies, matrix entries).
   Also the abstract interface [Fld] ("field with conjugation and tolerance tests")
   under which the theorems of Front/SylvDiag are proved. *)

Require Import QArith Qcanon Ring Field Bool Lia Lqa ZArith.

(* ------------------------------------------------------------------ *)
(* Abstract interface                                                   *)

Record Fld : Type := mkFld {
  K      : Type;
  k0     : K;
  k1     : K;
  kadd   : K -> K -> K;
  kmul   : K -> K -> K;
  ksub   : K -> K -> K;
  kopp   : K -> K;
  kinv   : K -> K;
  kconj  : K -> K;
  keqb   : K -> K -> bool;
  (* [far d]: the test |d| > atol of the numeric branches;
     [close a b]: the shared-eigenvalue test numpy.isclose(a, b, atol=atol) (the solver's
     atol, numpy's default rtol = 1e-5 relative to b) *)
  far    : K -> bool;
  close  : K -> K -> bool;
  (* laws *)
  F_ring   : ring_theory k0 k1 kadd kmul ksub kopp (@eq K);
  F_inv    : forall d, d <> k0 -> kmul d (kinv d) = k1;
  F_eqb    : forall a b, keqb a b = true <-> a = b;
  F_conj_add : forall a b, kconj (kadd a b) = kadd (kconj a) (kconj b);
  F_conj_mul : forall a b, kconj (kmul a b) = kmul (kconj a) (kconj b);
  F_conj_opp : forall a, kconj (kopp a) = kopp (kconj a);
  F_conj_inv : forall a, kconj (kinv a) = kinv (kconj a);
  F_conj_inv0 : kinv k0 = k0;
  F_conj_1 : kconj k1 = k1;
  F_conj_conj : forall a, kconj (kconj a) = a;
  F_far0   : far k0 = false;                       (* atol >= 0 *)
  F_far_opp : forall d, far (kopp d) = far d;
  F_far_conj : forall d, far (kconj d) = far d;
  F_close_refl : forall a, close a a = true
}.

(* ------------------------------------------------------------------ *)
(* The concrete instance                                                *)

Record G : Type := mkG { re : Qc; im : Qc }.

Definition g0 : G := mkG 0 0.
Definition g1 : G := mkG 1 0.
Definition gadd (a b : G) : G := mkG (re a + re b) (im a + im b).
Definition gsub (a b : G) : G := mkG (re a - re b) (im a - im b).
Definition gopp (a : G) : G := mkG (- re a) (- im a).
Definition gmul (a b : G) : G :=
  mkG (re a * re b - im a * im b) (re a * im b + im a * re b).
Definition gconj (a : G) : G := mkG (re a) (- im a).
Definition gnorm2 (a : G) : Qc := re a * re a + im a * im a.
Definition ginv (a : G) : G :=
  mkG (re a / gnorm2 a) (- im a / gnorm2 a).
Definition geqb (a b : G) : bool := Qc_eq_bool (re a) (re b) && Qc_eq_bool (im a) (im b).

Definition Qcltb (x y : Qc) : bool := match (x ?= y)%Qc with Lt => true | _ => false end.
Definition Qcleb (x y : Qc) : bool := match (x ?= y)%Qc with Gt => false | _ => true end.

(* |d| > t, decided on squares (t < 0: always true, as in numpy) *)
Definition gfar (t : Qc) (d : G) : bool :=
  if Qcltb t 0 then true else Qcltb (t * t) (gnorm2 d).

(* numpy.isclose(a, b, rtol=r, atol=A): |a - b| <= A + r |b|, decided without square
   roots (A, r >= 0):  |d| <= A  or  s <= 0  or  s^2 <= 4 A^2 |d|^2
   with s = |d|^2 + A^2 - r^2 |b|^2. *)
Definition gclose_gen (A r : Qc) (a b : G) : bool :=
  let d2 := gnorm2 (gsub a b) in
  let s := d2 + A * A - r * r * gnorm2 b in
  Qcleb d2 (A * A) || Qcleb s 0 || Qcleb (s * s) (Q2Qc 4 * (A * A) * d2).

Definition np_rtol : Qc := Q2Qc (1 # 100000).
(* the shared-eigenvalue test of solve_sylvester_diagonal since fix e4d96a1:
   np.isclose(E_a, E_b, atol=atol) with the SOLVER's atol (numpy's default rtol, relative to E_b):
   shared(a, b) := |a - b| <= atol + 1e-5 |b| *)
Definition gclose (t : Qc) : G -> G -> bool := gclose_gen t np_rtol.

(* literals used by the harnesses *)
Definition qc (a : Z) (b : positive) : Qc := Q2Qc (a # b).
Definition gq (a : Z) (b : positive) (c : Z) (d : positive) : G := mkG (qc a b) (qc c d).
Definition gz (a : Z) : G := mkG (qc a 1) 0.

(* ------------------------------------------------------------------ *)
(* Laws                                                                 *)

Lemma G_ext a b : re a = re b -> im a = im b -> a = b.
Proof. destruct a, b; simpl; intros -> ->; reflexivity. Qed.

Lemma G_ring : ring_theory g0 g1 gadd gmul gsub gopp (@eq G).
Proof.
  constructor; intros; apply G_ext; simpl; ring.
Qed.

Lemma Qc_to_Q (x y : Qc) : x = y -> (x == y)%Q.
Proof. intros ->; reflexivity. Qed.

Lemma this_add (x y : Qc) : (this (x + y)%Qc == this x + this y)%Q.
Proof. unfold Qcplus, Q2Qc; cbn [this]; apply Qred_correct. Qed.
Lemma this_mul (x y : Qc) : (this (x * y)%Qc == this x * this y)%Q.
Proof. unfold Qcmult, Q2Qc; cbn [this]; apply Qred_correct. Qed.

Lemma Qc_sumsq (a b : Qc) : a * a + b * b = 0 -> a = 0 /\ b = 0.
Proof.
  intro H. apply Qc_to_Q in H.
  rewrite this_add, !this_mul in H.
  change (this 0%Qc) with 0%Q in H.
  split; apply Qc_is_canon; change (this 0%Qc) with 0%Q; nra.
Qed.

Lemma gnorm2_zero a : gnorm2 a = 0 -> a = g0.
Proof.
  unfold gnorm2; intro H. apply Qc_sumsq in H. destruct H.
  apply G_ext; assumption.
Qed.

Lemma ginv_r a : a <> g0 -> gmul a (ginv a) = g1.
Proof.
  intro Ha.
  assert (Hn : gnorm2 a <> 0) by (intro H; apply Ha, gnorm2_zero, H).
  apply G_ext; unfold gmul, ginv; simpl; unfold gnorm2 in *; field; exact Hn.
Qed.

Lemma geqb_spec a b : geqb a b = true <-> a = b.
Proof.
  unfold geqb. rewrite andb_true_iff. split.
  - intros [H1 H2]. apply Qc_eq_bool_correct in H1. apply Qc_eq_bool_correct in H2.
    apply G_ext; assumption.
  - intros ->. split; unfold Qc_eq_bool; destruct (Qc_eq_dec _ _); congruence.
Qed.

Lemma gconj_add a b : gconj (gadd a b) = gadd (gconj a) (gconj b).
Proof. apply G_ext; simpl; ring. Qed.
Lemma gconj_mul a b : gconj (gmul a b) = gmul (gconj a) (gconj b).
Proof. apply G_ext; simpl; ring. Qed.
Lemma gconj_opp a : gconj (gopp a) = gopp (gconj a).
Proof. apply G_ext; simpl; ring. Qed.
Lemma gconj_1 : gconj g1 = g1.
Proof. apply G_ext; simpl; ring. Qed.
Lemma gconj_conj a : gconj (gconj a) = a.
Proof. apply G_ext; simpl; ring. Qed.
Lemma gnorm2_conj a : gnorm2 (gconj a) = gnorm2 a.
Proof. unfold gnorm2; simpl; ring. Qed.
Lemma gnorm2_opp a : gnorm2 (gopp a) = gnorm2 a.
Proof. unfold gnorm2; simpl; ring. Qed.
Lemma gconj_inv a : gconj (ginv a) = ginv (gconj a).
Proof.
  unfold ginv. rewrite gnorm2_conj. apply G_ext; simpl; unfold Qcdiv; ring.
Qed.
Lemma ginv_0 : ginv g0 = g0.
Proof. apply G_ext; vm_compute; apply Qc_is_canon; reflexivity. Qed.

Lemma Qccompare_sq_not_lt (t : Qc) : Qcltb (t * t) 0 = false.
Proof.
  unfold Qcltb. destruct (t * t ?= 0)%Qc eqn:E; try reflexivity.
  exfalso. rewrite <- Qclt_alt in E. unfold Qclt in E.
  rewrite this_mul in E. change (this 0%Qc) with 0%Q in E. nra.
Qed.

Lemma gfar_0 t : gfar t g0 = false \/ Qcltb t 0 = true.
Proof.
  unfold gfar. destruct (Qcltb t 0); [right; reflexivity|left].
  replace (gnorm2 g0) with (0%Qc) by (apply Qc_is_canon; reflexivity).
  apply Qccompare_sq_not_lt.
Qed.

Lemma gfar_opp t d : gfar t (gopp d) = gfar t d.
Proof. unfold gfar. rewrite gnorm2_opp. reflexivity. Qed.
Lemma gfar_conj t d : gfar t (gconj d) = gfar t d.
Proof. unfold gfar. rewrite gnorm2_conj. reflexivity. Qed.

Lemma Qcleb_0_sq (t : Qc) : Qcleb 0 (t * t) = true.
Proof.
  unfold Qcleb. destruct (0 ?= t * t)%Qc eqn:E; try reflexivity.
  exfalso. rewrite <- Qcgt_alt in E. unfold Qclt in E.
  rewrite this_mul in E. change (this 0%Qc) with 0%Q in E. nra.
Qed.

Lemma gclose_refl t a : gclose t a a = true.
Proof.
  unfold gclose, gclose_gen.
  replace (gnorm2 (gsub a a)) with (0%Qc).
  - rewrite Qcleb_0_sq. reflexivity.
  - unfold gnorm2, gsub; simpl; ring.
Qed.

(* The instance with tolerance [t] (the [atol] argument), valid for t >= 0. *)
Definition GF (t : Qc) (Ht : Qcltb t 0 = false) : Fld.
Proof.
  refine (@mkFld G g0 g1 gadd gmul gsub gopp ginv gconj geqb (gfar t) (gclose t)
            G_ring ginv_r geqb_spec gconj_add gconj_mul gconj_opp gconj_inv ginv_0
            gconj_1 gconj_conj
            _ (gfar_opp t) (gfar_conj t) (gclose_refl t)).
  destruct (gfar_0 t) as [H|H]; [exact H|congruence].
Defined.

Arguments qc a%Z b%positive.
Arguments gq a%Z b%positive c%Z d%positive.
Arguments gz a%Z.
