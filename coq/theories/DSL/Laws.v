(** DSL/Laws.v - the laws of the coefficient structure used by the soundness proofs, and
    the algebra of finite sums. *)
From Coq Require Import String List ZArith Bool Arith Setoid Morphisms RelationClasses.
From PV.DSL Require Import Values.
Import ListNotations.
Set Implicit Arguments.

Section Laws.
  Variable V : Type.
  Variable O : vops V.
  Variable eqv : V -> V -> Prop.

  Record vlaws : Prop := {
    l_equiv : Equivalence eqv;
    l_add_proper : Proper (eqv ==> eqv ==> eqv) (vadd O);
    l_neg_proper : Proper (eqv ==> eqv) (vneg O);
    l_mul_proper : Proper (eqv ==> eqv ==> eqv) (vmul O);
    l_adj_proper : Proper (eqv ==> eqv) (vadj O);
    l_div_proper : forall k, Proper (eqv ==> eqv) (fun x => vdiv O x k);
    l_add_assoc : forall a b c, eqv (vadd O (vadd O a b) c) (vadd O a (vadd O b c));
    l_add_comm : forall a b, eqv (vadd O a b) (vadd O b a);
    l_add_0_l : forall a, eqv (vadd O (v0 O) a) a;
    l_neg_0 : eqv (vneg O (v0 O)) (v0 O);
    l_neg_add : forall a b, eqv (vneg O (vadd O a b)) (vadd O (vneg O a) (vneg O b));
    l_neg_neg : forall a, eqv (vneg O (vneg O a)) a;
    l_mul_0_l : forall a, eqv (vmul O (v0 O) a) (v0 O);
    l_mul_0_r : forall a, eqv (vmul O a (v0 O)) (v0 O);
    l_mul_1_l : forall a, eqv (vmul O (v1 O) a) a;
    l_mul_1_r : forall a, eqv (vmul O a (v1 O)) a;
    l_adj_0 : eqv (vadj O (v0 O)) (v0 O);
    l_adj_add : forall a b, eqv (vadj O (vadd O a b)) (vadd O (vadj O a) (vadj O b));
    l_adj_mul : forall a b, eqv (vadj O (vmul O a b)) (vmul O (vadj O b) (vadj O a));
    l_adj_adj : forall a, eqv (vadj O (vadj O a)) a;
    l_adj_neg : forall a, eqv (vadj O (vneg O a)) (vneg O (vadj O a));
    l_adj_div : forall a k, eqv (vadj O (vdiv O a k)) (vdiv O (vadj O a) k);
    l_div_0 : forall k, eqv (vdiv O (v0 O) k) (v0 O);
    l_is0 : forall a, vis0 O a = true -> eqv a (v0 O)
  }.
End Laws.
Existing Class vlaws.

Section Sums.
  Variable V : Type.
  Variable O : vops V.
  Variable eqv : V -> V -> Prop.
  Variable L : vlaws O eqv.

  Local Infix "==" := eqv (at level 70, no associativity).
  Local Notation "a + b" := (vadd O a b).
  Local Notation "0" := (v0 O).

  Global Instance vl_equiv : Equivalence eqv := l_equiv L.
  Global Instance vl_add : Proper (eqv ==> eqv ==> eqv) (vadd O) := l_add_proper L.
  Global Instance vl_neg : Proper (eqv ==> eqv) (vneg O) := l_neg_proper L.
  Global Instance vl_mul : Proper (eqv ==> eqv ==> eqv) (vmul O) := l_mul_proper L.
  Global Instance vl_adj : Proper (eqv ==> eqv) (vadj O) := l_adj_proper L.

  Lemma add_0_r a : a + 0 == a.
  Proof. rewrite (l_add_comm L). apply (l_add_0_l L). Qed.

  Definition vsum_from (a : V) (l : list V) : V := fold_left (vadd O) l a.
  Definition vsum (l : list V) : V := vsum_from 0 l.

  Lemma vsum_from_proper a a' l : a == a' -> vsum_from a l == vsum_from a' l.
  Proof.
    revert a a'. induction l as [|x l IH]; cbn; intros a a' E; auto.
    apply IH. now rewrite E.
  Qed.

  Lemma vsum_from_add a l : vsum_from a l == a + vsum l.
  Proof.
    revert a. induction l as [|x l IH]; intros a.
    - unfold vsum, vsum_from; cbn. symmetry. apply add_0_r.
    - change (vsum_from a (x :: l)) with (vsum_from (a + x) l).
      change (vsum (x :: l)) with (vsum_from (0 + x) l).
      rewrite IH, (IH (0 + x)), (l_add_0_l L). apply (l_add_assoc L).
  Qed.

  Lemma vsum_cons x l : vsum (x :: l) == x + vsum l.
  Proof.
    change (vsum (x :: l)) with (vsum_from (0 + x) l).
    rewrite vsum_from_add. now rewrite (l_add_0_l L).
  Qed.

  Lemma vsum_nil : vsum [] == 0.
  Proof. reflexivity. Qed.

  Lemma vsum_app l1 l2 : vsum (l1 ++ l2) == vsum l1 + vsum l2.
  Proof.
    induction l1 as [|x l1 IH]; cbn [app].
    - rewrite vsum_nil. symmetry. apply (l_add_0_l L).
    - rewrite !vsum_cons, IH. symmetry. apply (l_add_assoc L).
  Qed.

  Lemma vsum_proper l l' : Forall2 eqv l l' -> vsum l == vsum l'.
  Proof.
    induction 1 as [|x y l l' E F IH].
    - reflexivity.
    - rewrite !vsum_cons. now rewrite E, IH.
  Qed.

  Lemma vsum_neg l l' : Forall2 (fun a b => b == vneg O a) l l' -> vsum l' == vneg O (vsum l).
  Proof.
    induction 1 as [|x y l l' E F IH].
    - rewrite vsum_nil. symmetry. apply (l_neg_0 L).
    - rewrite !vsum_cons, (l_neg_add L), E, IH. reflexivity.
  Qed.

  (** the sentinel arithmetic denotes the arithmetic of values *)
  Lemma den_sadd x y z : sadd O x y = Ok z -> den O z == den O x + den O y.
  Proof.
    destruct x, y; cbn; intros E; inversion E; subst; cbn;
      try (symmetry; apply (l_add_0_l L)); reflexivity.
  Qed.

  Lemma den_sneg x z : sneg O x = Ok z -> den O z == vneg O (den O x).
  Proof.
    destruct x; cbn; intros E; inversion E; subst; cbn; [symmetry; apply (l_neg_0 L) | reflexivity].
  Qed.

  Lemma den_sdagger x z : sdagger O x = Ok z -> den O z == vadj O (den O x).
  Proof.
    destruct x; cbn; intros E; inversion E; subst; cbn; [symmetry; apply (l_adj_0 L) | reflexivity].
  Qed.

  Lemma den_sdivide x k z : sdivide O x k = Ok z -> den O z == vdiv O (den O x) k.
  Proof.
    destruct x; cbn; intros E; inversion E; subst; cbn; [symmetry; apply (l_div_0 L) | reflexivity].
  Qed.

  Lemma den_ssum_from acc l z :
    ssum_from O acc l = Ok z -> den O z == vsum_from (den O acc) (map (den O) l).
  Proof.
    revert acc. induction l as [|t l IH]; cbn; intros acc E.
    - inversion E; subst. reflexivity.
    - destruct (is_zero t) eqn:Z.
      + destruct t; try discriminate. cbn.
        rewrite (IH _ E). apply vsum_from_proper. symmetry. apply add_0_r.
      + destruct (sadd O acc t) as [a| |] eqn:A; try discriminate.
        rewrite (IH _ E). apply vsum_from_proper. now apply den_sadd.
  Qed.

  Lemma den_szero_sum l z : szero_sum O l = Ok z -> den O z == vsum (map (den O) l).
  Proof. intros E. apply den_ssum_from in E. exact E. Qed.
End Sums.
