(** DSL/SpecMeta.v - the specification [interp] is a well-behaved partial function: more fuel
    never loses a value and never changes it (up to the equality of the coefficient
    structure), hence the values obtained with any two fuels agree.

    Needs the zero test [vis0] to respect the equality (it is sound by [l_is0]; here it is
    also assumed complete) and the scope functions to respect it. *)
From Coq Require Import String List ZArith Bool Arith Lia Setoid Morphisms RelationClasses.
From PV.DSL Require Import Syntax SyntaxAux Values Interp Laws.
Import ListNotations.
Set Implicit Arguments.

Section Meta.
  Variable V : Type.
  Variable O : vops V.
  Variable eqv : V -> V -> Prop.
  Variable L : vlaws O eqv.
  Variable alg : algorithm.
  Variable W : sworld V.

  Local Infix "==" := eqv (at level 70, no associativity).

  Hypothesis fn_proper : forall f l l' ix, Forall2 eqv l l' -> sw_fn W f l ix == sw_fn W f l' ix.
  Hypothesis vis0_complete : forall a, a == v0 O -> vis0 O a = true.

  Lemma vis0_proper a b : a == b -> vis0 O a = vis0 O b.
  Proof.
    pose proof (vl_equiv L) as EQ. intros E.
    destruct (vis0 O a) eqn:A, (vis0 O b) eqn:B; auto.
    - apply (l_is0 L) in A. rewrite <- B. symmetry. apply vis0_complete. now rewrite <- E.
    - apply (l_is0 L) in B. rewrite <- A. apply vis0_complete. now rewrite E.
  Qed.

  (** [o2] is at least as defined as [o1], with equal values *)
  Definition ole_opt (o1 o2 : option V) : Prop :=
    forall a, o1 = Some a -> exists b, o2 = Some b /\ b == a.

  Definition sle (s1 s2 : key -> index -> option V) : Prop :=
    forall k ix, ole_opt (s1 k ix) (s2 k ix).

  Lemma ole_opt_refl o : ole_opt o o.
  Proof. pose proof (vl_equiv L). intros a E. exists a. split; auto. reflexivity. Qed.

  Section Step.
    Variables s1 s2 : key -> index -> option V.
    Hypothesis Hs : sle s1 s2.
    Variable idx : index.

    Lemma iseries_arg_mono f s : ole_opt (iseries_arg O W s1 idx f s) (iseries_arg O W s2 idx f s).
    Proof. unfold iseries_arg. destruct (sw_access W f idx); [apply Hs | apply ole_opt_refl]. Qed.

    Lemma iexpr_mono e : ole_opt (iexpr O W s1 idx e) (iexpr O W s2 idx e).
    Proof.
      pose proof (vl_equiv L) as EQ.
      induction e using expr_ind'; intros w E; cbn [iexpr] in *.
      - now apply Hs.
      - destruct (s1 (KN s) (transp idx)) as [y|] eqn:Ey; cbn in E; [|discriminate]. inversion E; subst.
        destruct (@Hs _ _ _ Ey) as (y' & Ey' & Hy). rewrite Ey'. cbn. eexists. split; [reflexivity|]. now rewrite Hy.
      - eauto using ole_opt_refl. exists w. split; auto. reflexivity.
      - destruct (iexpr O W s1 idx e) as [y|]; cbn in E; [|discriminate]. inversion E; subst.
        destruct (IHe _ eq_refl) as (y' & Ey' & Hy). rewrite Ey'. cbn. eexists. split; [reflexivity|]. now rewrite Hy.
      - destruct (iexpr O W s1 idx e1) as [x|]; cbn in E; [|discriminate].
        destruct (iexpr O W s1 idx e2) as [y|]; cbn in E; [|discriminate]. inversion E; subst.
        destruct (IHe1 _ eq_refl) as (x' & Ex' & Hx). destruct (IHe2 _ eq_refl) as (y' & Ey' & Hy).
        rewrite Ex', Ey'. cbn. eexists. split; [reflexivity|]. now rewrite Hx, Hy.
      - destruct (iexpr O W s1 idx e1) as [x|]; cbn in E; [|discriminate].
        destruct (iexpr O W s1 idx e2) as [y|]; cbn in E; [|discriminate]. inversion E; subst.
        destruct (IHe1 _ eq_refl) as (x' & Ex' & Hx). destruct (IHe2 _ eq_refl) as (y' & Ey' & Hy).
        rewrite Ex', Ey'. cbn. eexists. split; [reflexivity|]. now rewrite Hx, Hy.
      - destruct (iexpr O W s1 idx e) as [y|]; cbn in E; [|discriminate]. inversion E; subst.
        destruct (IHe _ eq_refl) as (y' & Ey' & Hy). rewrite Ey'. cbn. eexists. split; [reflexivity|].
        apply (l_div_proper L k). exact Hy.
      - match type of E with option_map _ ?g = _ => destruct g as [vs|] eqn:G; cbn in E; [|discriminate] end.
        inversion E; subst. clear E.
        match goal with |- exists b, option_map _ ?g = _ /\ _ =>
          assert (exists vs', g = Some vs' /\ Forall2 eqv vs' vs) as (vs' & Ev & Hv) end.
        { revert vs G. induction H as [|a r Ha Hr IH]; intros vs G.
          - inversion G; subst. exists []. split; auto.
          - match type of G with obind ?g _ = _ => destruct g as [x|] eqn:Ex; cbn [obind] in G; [|discriminate] end.
            match type of G with obind ?g _ = _ => destruct g as [xs|] eqn:Gr; cbn [obind] in G; [|discriminate] end.
            inversion G; subst. destruct (IH _ eq_refl) as (xs' & Exs & Hxs).
            assert (exists x', match arg_series a with
                               | Some s => iseries_arg O W s2 idx f s
                               | None => match a with
                                         | ArgExpr e' => iexpr O W s2 idx e'
                                         | ArgSeries s => iseries_arg O W s2 idx f s
                                         end
                               end = Some x' /\ x' == x) as (x' & Ex' & Hx').
            { destruct (arg_series a) as [s|]; [now apply iseries_arg_mono|].
              destruct a as [s|e']; [now apply iseries_arg_mono | now apply Ha]. }
            rewrite Ex'. cbn [obind]. rewrite Exs. cbn [obind]. eexists. split; [reflexivity|]. constructor; auto. }
        rewrite Ev. cbn. eexists. split; [reflexivity|]. now apply fn_proper.
      - destruct (flag_value W c idx); auto.
    Qed.

    Lemma iwrapped_mono f e : ole_opt (iwrapped O W s1 idx f e) (iwrapped O W s2 idx f e).
    Proof.
      pose proof (vl_equiv L) as EQ.
      unfold iwrapped. intros w E.
      match type of E with option_map _ ?g = _ => destruct g as [x|] eqn:G; cbn in E; [|discriminate] end.
      inversion E; subst.
      assert (exists x', match e with Lit s => iseries_arg O W s2 idx f s | _ => iexpr O W s2 idx e end = Some x' /\ x' == x)
        as (x' & Ex' & Hx').
      { destruct e; try (now apply iexpr_mono). now apply iseries_arg_mono. }
      rewrite Ex'. cbn. eexists. split; [reflexivity|]. apply fn_proper. constructor; auto.
    Qed.

    Lemma ibody_mono name lines :
      forall acc acc', acc' == acc ->
        forall w, ibody O W s1 idx name lines acc = Some w ->
                  exists w', ibody O W s2 idx name lines acc' = Some w' /\ w' == w.
    Proof.
      pose proof (vl_equiv L) as EQ.
      induction lines as [|l r IH]; intros acc acc' Ha w E; cbn [ibody] in *.
      - inversion E; subst. eauto.
      - destruct l as [c e|h].
        + destruct c.
          * destruct (iexpr O W s1 idx e) as [x|] eqn:Ex; cbn in E; [|discriminate].
            destruct (iexpr_mono _ Ex) as (x' & Ex' & Hx). rewrite Ex'. cbn.
            eapply IH; [|exact E]. now rewrite Ha, Hx.
          * destruct (Nat.eqb (idx_i idx) (idx_j idx)); [|eauto].
            destruct (iwrapped O W s1 idx "diag" e) as [x|] eqn:Ex; cbn in E; [|discriminate].
            destruct (iwrapped_mono _ _ Ex) as (x' & Ex' & Hx). rewrite Ex'. cbn.
            eapply IH; [|exact E]. now rewrite Ha, Hx.
          * destruct (negb (Nat.eqb (idx_i idx) (idx_j idx))).
            -- destruct (iexpr O W s1 idx e) as [x|] eqn:Ex; cbn in E; [|discriminate].
               destruct (iexpr_mono _ Ex) as (x' & Ex' & Hx). rewrite Ex'. cbn.
               eapply IH; [|exact E]. now rewrite Ha, Hx.
            -- destruct (sw_hasoff W); [|eauto].
               destruct (iwrapped O W s1 idx "offdiag" e) as [x|] eqn:Ex; cbn in E; [|discriminate].
               destruct (iwrapped_mono _ _ Ex) as (x' & Ex' & Hx). rewrite Ex'. cbn.
               eapply IH; [|exact E]. now rewrite Ha, Hx.
        + destruct (Nat.ltb (idx_j idx) (idx_i idx)); [|eauto].
          destruct (s1 (KN name) (transp idx)) as [a|] eqn:Ea; cbn in E; [|discriminate]. inversion E; subst.
          destruct (@Hs _ _ _ Ea) as (a' & Ea' & Hx). rewrite Ea'. cbn. eexists. split; [reflexivity|].
          destruct h; now rewrite Ha, Hx.
    Qed.

    Definition contrib (r : option V) : V := match r with None => v0 O | Some t => t end.

    (** a lazily evaluated term stays defined, with an equal contribution, when its factors
        become more defined *)
    Lemma lazy_mono c (oa ob oa' ob' : option V) r :
      ole_opt oa oa' -> ole_opt ob ob' ->
      lazy_term O c (fun _ => oa) (fun _ => ob) = Some r ->
      exists r', lazy_term O c (fun _ => oa') (fun _ => ob') = Some r' /\ contrib r' == contrib r.
    Proof.
      pose proof (vl_equiv L) as EQ.
      intros Ha Hb E. unfold lazy_term in *.
      assert (Z0 : forall x, vis0 O x = true -> x == v0 O) by apply (l_is0 L).
      destruct c.
      - destruct oa as [a|].
        + destruct (Ha _ eq_refl) as (a' & -> & Haa). rewrite (vis0_proper Haa).
          destruct (vis0 O a) eqn:Za.
          * inversion E; subst. exists None. split; auto. reflexivity.
          * destruct ob as [b|]; [|discriminate]. inversion E; subst.
            destruct (Hb _ eq_refl) as (b' & -> & Hbb). eexists. split; [reflexivity|]. cbn. now rewrite Haa, Hbb.
        + destruct ob as [b|]; [|discriminate]. destruct (vis0 O b) eqn:Zb; [|discriminate].
          inversion E; subst. destruct (Hb _ eq_refl) as (b' & -> & Hbb).
          destruct oa' as [a'|].
          * destruct (vis0 O a') eqn:Za'; [exists None; split; auto; reflexivity|].
            eexists. split; [reflexivity|]. cbn. rewrite Hbb, (Z0 _ Zb). apply (l_mul_0_r L).
          * rewrite (vis0_proper Hbb), Zb. exists None. split; auto. reflexivity.
      - destruct ob as [b|].
        + destruct (Hb _ eq_refl) as (b' & -> & Hbb). rewrite (vis0_proper Hbb).
          destruct (vis0 O b) eqn:Zb.
          * inversion E; subst. exists None. split; auto. reflexivity.
          * destruct oa as [a|]; [|discriminate]. inversion E; subst.
            destruct (Ha _ eq_refl) as (a' & -> & Haa). eexists. split; [reflexivity|]. cbn. now rewrite Haa, Hbb.
        + destruct oa as [a|]; [|discriminate]. destruct (vis0 O a) eqn:Za; [|discriminate].
          inversion E; subst. destruct (Ha _ eq_refl) as (a' & -> & Haa).
          destruct ob' as [b'|].
          * destruct (vis0 O b') eqn:Zb'; [exists None; split; auto; reflexivity|].
            eexists. split; [reflexivity|]. cbn. rewrite Haa, (Z0 _ Za). apply (l_mul_0_l L).
          * rewrite (vis0_proper Haa), Za. exists None. split; auto. reflexivity.
    Qed.

    Lemma iprod_loop_mono half k1 k2 l :
      forall acc acc', acc' == acc ->
        forall w, iprod_loop O s1 idx half k1 k2 l acc = Some w ->
                  exists w', iprod_loop O s2 idx half k1 k2 l acc' = Some w' /\ w' == w.
    Proof.
      pose proof (vl_equiv L) as EQ.
      induction l as [|[mid m1] r IH]; intros acc acc' Ha w E; cbn [iprod_loop] in *.
      - inversion E; subst. eauto.
      - destruct (half && lex_gt m1 (lsub (idx_n idx) m1)); [eauto|].
        match type of E with match lazy_term O ?c (fun _ => ?oa) (fun _ => ?ob) with _ => _ end = _ =>
          destruct (lazy_term O c (fun _ => oa) (fun _ => ob)) as [r1|] eqn:E1; [|discriminate];
          destruct (@lazy_mono c oa ob (s2 k1 (idx_i idx, mid, m1)) (s2 k2 (mid, idx_j idx, lsub (idx_n idx) m1)) r1
                      (@Hs _ _) (@Hs _ _) E1) as (r2 & E2 & Hr) end.
        rewrite E2. destruct r1 as [t1|], r2 as [t2|]; cbn [contrib] in Hr.
        + destruct (half && negb (lnat_eqb m1 (lsub (idx_n idx) m1))); (eapply IH; [|exact E]); now rewrite Ha, Hr.
        + (* newly a product which is zero *)
          assert (Z : t1 == v0 O) by (now rewrite <- Hr).
          destruct (half && negb (lnat_eqb m1 (lsub (idx_n idx) m1))); (eapply IH; [|exact E]);
            rewrite Ha, Z, ?(l_adj_0 L), ?(add_0_r L); reflexivity.
        + assert (Z : t2 == v0 O) by exact Hr.
          destruct (half && negb (lnat_eqb m1 (lsub (idx_n idx) m1))); (eapply IH; [|exact E]);
            rewrite Ha, Z, ?(l_adj_0 L), ?(add_0_r L); reflexivity.
        + eapply IH; [|exact E]. exact Ha.
    Qed.
  End Step.

  Lemma rhs_mono s1 s2 idx k : sle s1 s2 -> ole_opt (rhs O alg W s1 idx k) (rhs O alg W s2 idx k).
  Proof.
    pose proof (vl_equiv L) as EQ.
    intros Hs w E. unfold rhs in *. destruct k as [s|pn k'].
    - destruct (kind_of alg (sw_inputs W) s) as [|d|p|]; try discriminate.
      + exists w. split; auto. reflexivity.
      + destruct (spec_start O W d idx); [exists w; split; auto; reflexivity|].
        eapply ibody_mono; eauto. reflexivity.
      + destruct (Nat.leb 2 (length (pfactors p))); [|discriminate].
        unfold iprod, iprod_gen in *. eapply iprod_loop_mono; eauto. reflexivity.
    - destruct (find_pdef pn (aproducts alg)); [|discriminate].
      destruct (Nat.leb 2 k' && Nat.ltb k' (length (pfactors p))); [|discriminate].
      unfold iprod, iprod_gen in *. eapply iprod_loop_mono; eauto. reflexivity.
  Qed.

  Notation spec := (interp O alg W).

  Lemma interp_step f : sle (spec f) (spec (S f)).
  Proof.
    induction f as [|f IH]; intros k ix w E.
    - discriminate.
    - cbn [interp] in *. eapply rhs_mono; eauto.
  Qed.

  (** more fuel: still defined, same value *)
  Theorem interp_mono f f' k ix w :
    f <= f' -> spec f k ix = Some w -> exists w', spec f' k ix = Some w' /\ w' == w.
  Proof.
    pose proof (vl_equiv L) as EQ.
    induction 1 as [|f' Hle IH]; intros E.
    - exists w. split; auto. reflexivity.
    - destruct (IH E) as (w1 & E1 & H1). destruct (@interp_step f' k ix w1 E1) as (w2 & E2 & H2).
      exists w2. split; auto. now rewrite H2.
  Qed.

  (** the values obtained with two fuels agree *)
  Theorem interp_coh f f' k ix w w' :
    spec f k ix = Some w -> spec f' k ix = Some w' -> w == w'.
  Proof.
    pose proof (vl_equiv L) as EQ.
    intros E E'. destruct (Nat.le_ge_cases f f') as [H|H].
    - destruct (@interp_mono f f' k ix w H E) as (w1 & E1 & H1). rewrite E' in E1. inversion E1; subst. now symmetry.
    - destruct (@interp_mono f' f k ix w' H E') as (w1 & E1 & H1). rewrite E in E1. inversion E1; subst. exact H1.
  Qed.
End Meta.
