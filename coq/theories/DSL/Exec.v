(** DSL/Exec.v - the evaluator: the run-time of pymablock/series.py (BlockSeries cache with
    the PENDING protocol, cauchy_dot_product / product_by_order) executing the generated
    [series_eval] functions (DSL/Target.v) inside the scope built by [series_computation].

    State: one cache for every (table, object, index) where the table is [series] (TTab) or
    [linear_operator_series] (TLin) and the object a dictionary entry (KN name) or the
    anonymous inner product of a product of more than two factors (KI product k); a counter of
    user-callback invocations; an event log.

    User callbacks (evaluation of an input element, scope functions marked [xw_counted], the
    [operator]) may raise: [xw_fault k] is the exception raised by the k-th invocation.

    [getitem fuel tb key idx] is [BlockSeries.__getitem__] for one integer index: fuel bounds
    the nesting depth of evaluations; [OutOfFuel] is not a Python outcome.               *)
From Coq Require Import String List ZArith Bool Arith.
From PV.DSL Require Import Syntax Values Target Compile Interp.
Import ListNotations.
Set Implicit Arguments.

Inductive entry (V : Type) :=
| Pending
| Done (v : sval V).
Arguments Pending {V}.
Arguments Done {V} v.

Inductive event :=
| EvInput (s : string) (idx : index)     (* eval of an input element was called *)
| EvFn (f : string) (idx : index)        (* a counted scope function was called *)
| EvOp (idx : index).                    (* the operator was called while computing a product at idx *)

Record state (V : Type) := {
  cache : list (ckey * entry V);         (* newest binding first *)
  calls : nat;                           (* number of user-callback invocations so far *)
  log : list event                       (* newest first *)
}.

Record xworld (V : Type) := {
  xw_nb : nat;
  xw_np : nat;                                   (* n_infinite *)
  xw_inputs : list string;
  xw_env : string -> index -> sval V;            (* what the eval of an input returns *)
  xw_uselin : nat -> nat -> bool;                (* use_linear_operator[i, j] *)
  xw_hasoff : bool;
  xw_gflag : string -> bool;
  xw_rflag : string -> nat -> bool;
  xw_access : string -> index -> bool;
  xw_fn : string -> list (sval V) -> index -> res (sval V);
  xw_counted : string -> bool;
  xw_fault : nat -> option exn
}.

Section Cache.
  Variable V : Type.

  Fixpoint lookup (c : list (ckey * entry V)) (k : ckey) : option (entry V) :=
    match c with
    | [] => None
    | (k', e) :: r => if ckey_eqb k' k then Some e else lookup r k
    end.

  Definition remove (c : list (ckey * entry V)) (k : ckey) : list (ckey * entry V) :=
    filter (fun x => negb (ckey_eqb (fst x) k)) c.

  Definition st_lookup (st : state V) (k : ckey) := lookup (cache st) k.
  Definition st_store (st : state V) (k : ckey) (e : entry V) : state V :=
    {| cache := (k, e) :: cache st; calls := calls st; log := log st |}.
  Definition st_remove (st : state V) (k : ckey) : state V :=
    {| cache := remove (cache st) k; calls := calls st; log := log st |}.
End Cache.

Fixpoint find_body (s : string) (p : tprogram) : option (list tstmt) :=
  match p with
  | [] => None
  | (n, b) :: r => if String.eqb n s then Some b else find_body s r
  end.

Section Exec.
  Variable V : Type.
  Variable O : vops V.
  Variable alg : algorithm.
  Variable prog : tprogram.
  Variable W : xworld V.

  Notation inputs := (xw_inputs W).
  Notation st := (state V).

  Definition M (A : Type) := st -> res A * st.
  Definition ret {A} (a : A) : M A := fun s => (Ok a, s).
  Definition raise {A} (e : exn) : M A := fun s => (Raise e, s).
  Definition bind {A B} (m : M A) (f : A -> M B) : M B :=
    fun s => match m s with
             | (Ok a, s') => f a s'
             | (Raise e, s') => (Raise e, s')
             | (OutOfFuel, s') => (OutOfFuel, s')
             end.
  Definition lift {A} (r : res A) : M A := fun s => (r, s).

  Notation "x <- m ;; f" := (bind m (fun x => f)) (at level 61, m at next level, right associativity).

  (** invocation of a user callback: count, log, maybe raise *)
  Definition tick (ev : event) : M unit :=
    fun s =>
      let s' := {| cache := cache s; calls := S (calls s); log := ev :: log s |} in
      match xw_fault W (calls s) with
      | Some e => (Raise e, s')
      | None => (Ok tt, s')
      end.

  Definition xflag (c : flag) (idx : index) : bool :=
    match c with
    | FlagGlobal n => xw_gflag W n
    | FlagRow n => xw_rflag W n (idx_i idx)
    end.

  Definition known (s : string) : bool :=
    match kind_of alg inputs s with KUnknown => false | _ => true end.

  Inductive handle := HSeries (s : string) | HVal (v : sval V).

  Definition getter := tbl -> key -> index -> M (sval V).

  (** start data handed to the BlockSeries of a defined series: zeroth order of every block *)
  Definition x_start_index (idx : index) : bool :=
    all_zero (idx_n idx) && Nat.eqb (length (idx_n idx)) (xw_np W)
    && Nat.ltb (idx_i idx) (xw_nb W) && Nat.ltb (idx_j idx) (xw_nb W).

  (** a full index of a series of this computation: blocks in range, one order per parameter *)
  Definition wf_index (idx : index) : bool :=
    Nat.ltb (idx_i idx) (xw_nb W) && Nat.ltb (idx_j idx) (xw_nb W)
    && Nat.eqb (length (idx_n idx)) (xw_np W).

  Definition start_sval (d : sdef) (idx : index) : option (sval V) :=
    if x_start_index idx then
      match sstart d with
      | StartZero => Some SZero
      | StartOne => if Nat.eqb (idx_i idx) (idx_j idx) then Some SOne else None
      | StartInput x => if mem_string x inputs then Some (xw_env W x idx) else None
      | NoStart | StartOther _ => None
      end
    else None.

  Section Open.
    Variable rec : getter.

    Section Body.
      Variable which : tbl.
      Variable idx : index.

      Definition deref (f : string) (h : handle) : M (sval V) :=
        match h with
        | HVal v => ret v
        | HSeries s => if xw_access W f idx then rec which (KN s) idx else ret SZero
        end.

      Fixpoint deref_all (f : string) (hs : list handle) : M (list (sval V)) :=
        match hs with
        | [] => ret []
        | h :: r => v <- deref f h ;; vs <- deref_all f r ;; ret (v :: vs)
        end.

      Definition call_fn (f : string) (hs : list handle) : M (sval V) :=
        _ <- (if xw_counted W f then tick (EvFn f idx) else ret tt) ;;
        vs <- deref_all f hs ;;
        lift (xw_fn W f vs idx).

      Fixpoint eval_texpr (result : sval V) (e : texpr) : M (sval V) :=
        match e with
        | TResult => ret result
        | TZero => ret SZero
        | TGet s tr =>
            if known s then rec which (KN s) (if tr then transp idx else idx)
            else raise KeyError
        | TDagger a => v <- eval_texpr result a ;; lift (sdagger O v)
        | TNeg a => v <- eval_texpr result a ;; lift (sneg O v)
        | TZeroSum l =>
            vs <- (fix go (l : list texpr) : M (list (sval V)) :=
                     match l with
                     | [] => ret []
                     | a :: r => v <- eval_texpr result a ;; vs <- go r ;; ret (v :: vs)
                     end) l ;;
            lift (szero_sum O vs)
        | TSafeDiv a k => v <- eval_texpr result a ;; lift (sdivide O v k)
        | TCall f args =>
            hs <- (fix go (l : list targ) : M (list handle) :=
                     match l with
                     | [] => ret []
                     | TASeries s :: r =>
                         if known s then (hs <- go r ;; ret (HSeries s :: hs)) else raise KeyError
                     | TAExpr a :: r =>
                         v <- eval_texpr result a ;; hs <- go r ;; ret (HVal v :: hs)
                     end) args ;;
            call_fn f hs
        | TIfExp c a b => if xflag c idx then eval_texpr result a else eval_texpr result b
        end.

      (** del_(s, index): zeroth-order entries are never deleted; pops BOTH tables *)
      Definition del_ (s : string) (ix : index) : M unit :=
        if all_zero (idx_n ix) then ret tt
        else if known s then
               fun stt => (Ok tt, st_remove (st_remove stt (TTab, KN s, ix)) (TLin, KN s, ix))
             else raise KeyError.

      (** returns (result, whether a [return] was executed) *)
      Fixpoint exec_simples (l : list tsimple) (result : sval V) : M (sval V * bool) :=
        match l with
        | [] => ret (result, false)
        | TAssign e :: r => v <- eval_texpr result e ;; exec_simples r v
        | TDel s tr :: r => _ <- del_ s (if tr then transp idx else idx) ;; exec_simples r result
        | TReturn :: _ => ret (result, true)
        end.

      Definition test_holds (t : ttest) : bool :=
        match t with
        | TDiag => Nat.eqb (idx_i idx) (idx_j idx)
        | TOffdiag => negb (Nat.eqb (idx_i idx) (idx_j idx))
        | TLower => Nat.ltb (idx_j idx) (idx_i idx)
        | TOffdiagFn => xw_hasoff W && Nat.eqb (idx_i idx) (idx_j idx)
        end.

      Fixpoint exec_stmts (l : list tstmt) (result : sval V) : M (sval V) :=
        match l with
        | [] => ret result
        | TS s :: r =>
            x <- exec_simples [s] result ;;
            if snd x then ret (fst x) else exec_stmts r (fst x)
        | TIf t body :: r =>
            if test_holds t then
              x <- exec_simples body result ;;
              if snd x then ret (fst x) else exec_stmts r (fst x)
            else exec_stmts r result
        end.
    End Body.

    (** the generated function of the defined series [s] *)
    Definition series_eval (s : string) (idx : index) : M (sval V) :=
      match find_body s prog with
      | Some body =>
          exec_stmts (if xw_uselin W (idx_i idx) (idx_j idx) then TLin else TTab) idx body SZero
      | None => raise KeyError
      end.

    (* ---------------------------------------------------------- product_by_order *)

    (** [item in series] :  series._data.get(item) is not zero *)
    Definition contains (tb : tbl) (k : key) (ix : index) (s : st) : bool :=
      match st_lookup s (tb, k, ix) with
      | Some (Done SZero) => false
      | _ => true
      end.

    (** the product of two non-zero values, [one] dropped; the operator is a user callback *)
    Definition mk_term (idx : index) (a b : sval V) : M (sval V) :=
      match a, b with
      | SZero, _ | _, SZero => ret SZero
      | SOne, SOne => ret SOne
      | SOne, SVal y => ret (SVal y)
      | SVal x, SOne => ret (SVal x)
      | SVal x, SVal y => _ <- tick (EvOp idx) ;; ret (SVal (vmul O x y))
      end.

    Definition accumulate (herm_pair : bool) (acc term : sval V) : M (sval V) :=
      if herm_pair then
        x <- lift (sadd O acc term) ;; d <- lift (sdagger O term) ;; lift (sadd O x d)
      else lift (sadd O acc term).

    Fixpoint pbo_loop (tb : tbl) (k1 k2 : key) (herm : bool) (idx : index)
             (l : list (nat * list nat)) (acc : sval V) : M (sval V) :=
      match l with
      | [] => ret acc
      | (mid, m1) :: r =>
          let m2 := lsub (idx_n idx) m1 in
          let i1 := (idx_i idx, mid, m1) in
          let i2 := (mid, idx_j idx, m2) in
          let next := pbo_loop tb k1 k2 herm idx r in
          if herm && lex_gt m1 m2 then next acc
          else fun s =>
            if negb (contains tb k1 i1 s) || negb (contains tb k2 i2 s) then next acc s
            else
              (if Nat.leb (cost m1) (cost m2) then
                 a <- rec tb k1 i1 ;;
                 if is_zero a then next acc else
                 b <- rec tb k2 i2 ;;
                 if is_zero b then next acc else
                 t <- mk_term idx a b ;;
                 acc' <- accumulate (herm && negb (lnat_eqb m1 m2)) acc t ;;
                 next acc'
               else
                 b <- rec tb k2 i2 ;;
                 if is_zero b then next acc else
                 a <- rec tb k1 i1 ;;
                 if is_zero a then next acc else
                 t <- mk_term idx a b ;;
                 acc' <- accumulate (herm && negb (lnat_eqb m1 m2)) acc t ;;
                 next acc') s
      end.

    Definition pbo (tb : tbl) (k1 k2 : key) (herm : bool) (idx : index) : M (sval V) :=
      pbo_loop tb k1 k2 herm idx (pbo_space (xw_nb W) (idx_n idx)) SZero.

    (* ------------------------------------------------------- the eval of each object *)

    Definition eval_of (tb : tbl) (k : key) (idx : index) : M (sval V) :=
      match k with
      | KN s =>
          match kind_of alg inputs s with
          | KInput =>
              match tb with
              | TTab => _ <- tick (EvInput s idx) ;; ret (xw_env W s idx)
              | TLin => rec TTab k idx          (* aslinearoperator(original[index]) *)
              end
          | KSeries _ =>
              match tb with
              | TTab => series_eval s idx
              | TLin => rec TTab k idx
              end
          | KProduct p =>
              let m := length (pfactors p) in
              if Nat.leb 2 m then
                if pherm p && Nat.ltb (idx_j idx) (idx_i idx) then
                  v <- rec tb k (transp idx) ;; lift (sdagger O v)
                else
                  pbo tb (first_key p m) (second_key p m)
                      (pherm p && Nat.eqb m 2 && Nat.eqb (idx_i idx) (idx_j idx)) idx
              else raise KeyError
          | KUnknown => raise KeyError
          end
      | KI pn k' =>
          match find_pdef pn (aproducts alg) with
          | Some p =>
              if Nat.leb 2 k' && Nat.ltb k' (length (pfactors p))
              then pbo tb (first_key p k') (second_key p k') false idx
              else raise KeyError
          | None => raise KeyError
          end
      end.

    (** BlockSeries.__getitem__ for one integer index *)
    Definition getitem_step (tb : tbl) (k : key) (idx : index) : M (sval V) :=
      fun s =>
        let ck := (tb, k, idx) in
        (* wrong number of orders / block index out of range: IndexError (_check_number_perturbations,
           numpy indexing of the trial array) *)
        if negb (wf_index idx) then (Raise IndexError, s) else
        match st_lookup s ck with
        | Some Pending => (Raise RuntimeError, s)        (* infinite recursion loop detected *)
        | Some (Done v) => (Ok v, s)
        | None =>
            match eval_of tb k idx (st_store s ck Pending) with
            | (Ok v, s') => (Ok v, st_store s' ck (Done v))
            | (Raise e, s') => (Raise e, st_remove s' ck) (* both except arms: pop and re-raise *)
            | (OutOfFuel, s') => (OutOfFuel, s')
            end
        end.
  End Open.

  Fixpoint getitem (fuel : nat) (tb : tbl) (k : key) (idx : index) : M (sval V) :=
    match fuel with
    | 0 => fun s => (OutOfFuel, s)
    | S f => getitem_step (getitem f) tb k idx
    end.

  (** a request of the user: series[name][idx] or linear_operator_series[name][idx] *)
  Definition request := (tbl * string * index)%type.

  Definition run (fuel : nat) (s : st) (r : request) : res (sval V) * st :=
    let '(tb, name, idx) := r in
    if known name then getitem fuel tb (KN name) idx s else (Raise KeyError, s).

  (** a schedule of requests; the observable is the list of outcomes *)
  Fixpoint run_all (fuel : nat) (s : st) (rs : list request) : list (res (sval V)) * st :=
    match rs with
    | [] => ([], s)
    | r :: rest =>
        let (o, s') := run fuel s r in
        let (os, s'') := run_all fuel s' rest in
        (o :: os, s'')
    end.

  (** a request for several elements of one series (slice / list index): the elements selected by
      numpy indexing are evaluated one after the other in row-major order of their indices, each value
      being copied into the result as soon as it is evaluated (a later deletion of the cache entry does
      not matter); the first exception aborts the request *)
  Fixpoint run_multi (fuel : nat) (s : st) (tb : tbl) (name : string) (ixs : list index)
    : res (list (sval V)) * st :=
    match ixs with
    | [] => (Ok [], s)
    | ix :: r =>
        match run fuel s (tb, name, ix) with
        | (Ok v, s1) =>
            match run_multi fuel s1 tb name r with
            | (Ok vs, s2) => (Ok (v :: vs), s2)
            | (Raise e, s2) => (Raise e, s2)
            | (OutOfFuel, s2) => (OutOfFuel, s2)
            end
        | (Raise e, s1) => (Raise e, s1)
        | (OutOfFuel, s1) => (OutOfFuel, s1)
        end
    end.

  (* ---------------------------------------------------------------- initial state *)

  Definition zero_order : list nat := repeat 0 (xw_np W).

  Definition all_blocks : list (nat * nat) :=
    flat_map (fun i => map (pair i) (seq 0 (xw_nb W))) (seq 0 (xw_nb W)).

  (** the state right after series_computation returned: start data of the defined series;
      the zeroth-order elements of every input have been evaluated (they are in the cache of
      the input).  [calls0]: callback invocations that happened before. *)
  Definition init_entries : list (ckey * entry V) :=
    flat_map (fun x =>
                match kind_of alg inputs x with
                | KSeries d =>
                    flat_map (fun b =>
                                let ix := (fst b, snd b, zero_order) in
                                match start_sval d ix with
                                | Some v => [((TTab, KN x, ix), Done v)]
                                | None => []
                                end) all_blocks
                | _ => []
                end) (map sname (aseries alg))
    ++ flat_map (fun x =>
                   match kind_of alg inputs x with
                   | KInput =>
                       map (fun b => let ix := (fst b, snd b, zero_order) in
                                     ((TTab, KN x, ix), Done (xw_env W x ix))) all_blocks
                   | _ => []
                   end) inputs.

  Definition init_state (calls0 : nat) : st :=
    {| cache := init_entries; calls := calls0; log := [] |}.
End Exec.

Arguments HSeries {V} s.
Arguments HVal {V} v.
