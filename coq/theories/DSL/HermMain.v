(** DSL/HermMain.v - the Hermitian shortcuts are valid for the shipped Hermitian algorithm.

    The only product declared [hermitian] in [main_alg] is "U'† @ U'" where U'† = W - V and
    U' = W + V with W marked hermitian and V antihermitian, all with start = 0.  By induction
    on the total order: U'†(i,k,m) is the adjoint of U'(k,i,m), hence (DSL/HermValid.v) the
    product is self-adjoint, hence W is Hermitian at the next order, and so on.

    Hypotheses on the scope: no [offdiag] (plain block diagonalization; with it the diagonal
    blocks of V are offdiag(-solve_sylvester(...)), antihermitian only for suitable solvers),
    and [diag] commutes with the adjoint on diagonal blocks. *)
From Coq Require Import String List ZArith Bool Arith Lia Setoid Morphisms RelationClasses.
From PV.DSL Require Import Syntax SyntaxAux Values Target Compile Interp Exec Laws Sound SpecMeta HermSums HermValid Main.
From PV.Gen Require Import Algorithms_gen.
Import ListNotations.
Open Scope string_scope.

Definition total (m : list nat) : nat := fold_right Nat.add 0 m.

Lemma ole_total m n : ole m n -> total m <= total n.
Proof.
  revert n. induction m as [|x m IH]; destruct n as [|y n]; cbn [ole total fold_right]; intros H; try contradiction.
  - lia.
  - destruct H as [H1 H2]. specialize (IH _ H2). unfold total in IH. lia.
Qed.

Lemma ole_total_lt m n : ole m n -> m <> n -> total m < total n.
Proof.
  revert n. induction m as [|x m IH]; destruct n as [|y n]; cbn [ole total fold_right]; intros H N; try contradiction.
  destruct H as [H1 H2]. destruct (Nat.eq_dec x y) as [->|D].
  - assert (m <> n) as Hn by congruence. specialize (IH _ H2 Hn). unfold total in IH. lia.
  - pose proof (ole_total _ _ H2) as T. unfold total in T. lia.
Qed.

Lemma all_zero_lsub n : all_zero (lsub n n) = true.
Proof. induction n as [|x n IH]; cbn; auto. now rewrite Nat.sub_diag, IH. Qed.

Lemma length_lsub n m : length m = length n -> length (lsub n m) = length n.
Proof. revert m. induction n as [|x n IH]; destruct m; cbn; try discriminate; auto. Qed.

Lemma all_zero_unique a b : length a = length b -> all_zero a = true -> all_zero b = true -> a = b.
Proof.
  revert b. induction a as [|x a IH]; destruct b as [|y b]; cbn; try discriminate; auto.
  intros Hl Ha Hb. apply andb_true_iff in Ha, Hb. destruct Ha as [Ha1 Ha2], Hb as [Hb1 Hb2].
  apply Nat.eqb_eq in Ha1, Hb1. subst. f_equal. apply IH; auto.
Qed.

Section HermMain.
  Variable V : Type.
  Variable O : vops V.
  Variable eqv : V -> V -> Prop.
  Variable L : vlaws O eqv.
  Variable W : sworld V.

  Local Infix "==" := eqv (at level 70, no associativity).
  Local Notation "a + b" := (vadd O a b).
  Local Notation vz := (v0 O).
  Local Notation "- a" := (vneg O a).
  Local Notation adj := (vadj O).
  Notation spec := (interp O main_alg W).
  Notation nb := (sw_nb W).

  Hypothesis fn_proper : forall f l l' ix, Forall2 eqv l l' -> sw_fn W f l ix == sw_fn W f l' ix.
  Hypothesis vis0_complete : forall a, a == vz -> vis0 O a = true.
  Hypothesis no_offdiag : sw_hasoff W = false.
  Hypothesis diag_adj : forall x i n, adj (sw_fn W "diag" [x] (i, i, n)) == sw_fn W "diag" [adj x] (i, i, n).

  Definition Ud := "U'†".
  Definition Up := "U'".
  Definition Pn := "U'† @ U'".

  Definition swf (ix : index) : Prop :=
    idx_i ix < nb /\ idx_j ix < nb /\ length (idx_n ix) = sw_np W.

  Lemma start_wf i j m : swf (i, j, m) -> is_start_index W (i, j, m) = all_zero m.
  Proof.
    intros (Hi & Hj & Hl). unfold is_start_index. cbn [idx_i idx_j idx_n fst snd] in *.
    apply Nat.ltb_lt in Hi, Hj. apply Nat.eqb_eq in Hl. rewrite Hi, Hj, Hl. now rewrite !andb_true_r.
  Qed.

  Lemma coh f f' k ix w w' : spec f k ix = Some w -> spec f' k ix = Some w' -> w == w'.
  Proof. apply (interp_coh L main_alg W fn_proper vis0_complete). Qed.

  (* ------------------------------------------------------------ unfolding main_alg *)

  Lemma kW : kind_of main_alg (sw_inputs W) "W" = KSeries {| sname := "W"; sstart := StartZero; sbody := [
        Marker Herm;
        Line Diagonal (DivInt (Lit "U'† @ U'") (-2)%Z);
        Line Offdiagonal (IfFlag (FlagGlobal "two_block_optimized") EZero (DivInt (Lit "U'† @ U'") (-2)%Z)) ] |}.
  Proof. reflexivity. Qed.
  Lemma kV : kind_of main_alg (sw_inputs W) "V" = KSeries {| sname := "V"; sstart := StartZero; sbody := [
        Marker AntiHerm;
        Line Offdiagonal (Neg (Call "solve_sylvester" [(ArgExpr (Sub (Sub (Adj "Yadj") (Lit "V @ H'_diag")) (Adj "V @ H'_diag")))])) ] |}.
  Proof. reflexivity. Qed.
  Lemma kUp : kind_of main_alg (sw_inputs W) Up = KSeries {| sname := "U'"; sstart := StartZero; sbody := [
        Line Default (Add (Lit "W") (Lit "V")) ] |}.
  Proof. reflexivity. Qed.
  Lemma kUd : kind_of main_alg (sw_inputs W) Ud = KSeries {| sname := "U'†"; sstart := NoStart; sbody := [
        Line Default (Sub (Lit "W") (Lit "V")) ] |}.
  Proof. reflexivity. Qed.
  Lemma kP : kind_of main_alg (sw_inputs W) Pn = KProduct {| pfactors := ["U'†"; "U'"]; pherm := true |}.
  Proof. reflexivity. Qed.

  Lemma uW0 f ix : is_start_index W ix = true -> spec (S f) (KN "W") ix = Some vz.
  Proof. intros S. cbn [interp]. unfold rhs. rewrite kW. unfold spec_start. now rewrite S. Qed.
  Lemma uV0 f ix : is_start_index W ix = true -> spec (S f) (KN "V") ix = Some vz.
  Proof. intros S. cbn [interp]. unfold rhs. rewrite kV. unfold spec_start. now rewrite S. Qed.
  Lemma uUp0 f ix : is_start_index W ix = true -> spec (S f) (KN Up) ix = Some vz.
  Proof. intros S. cbn [interp]. unfold rhs. rewrite kUp. unfold spec_start. now rewrite S. Qed.

  Lemma uWl f i j m : j < i -> is_start_index W (i, j, m) = false ->
    spec (S f) (KN "W") (i, j, m) = option_map (fun a => vz + adj a) (spec f (KN "W") (j, i, m)).
  Proof.
    intros H S. apply Nat.ltb_lt in H. cbn [interp]. unfold rhs. rewrite kW. unfold spec_start. rewrite S.
    cbn [sbody sname ibody idx_i idx_j fst snd]. rewrite H. reflexivity.
  Qed.

  Lemma uVl f i j m : j < i -> is_start_index W (i, j, m) = false ->
    spec (S f) (KN "V") (i, j, m) = option_map (fun a => vz + - adj a) (spec f (KN "V") (j, i, m)).
  Proof.
    intros H S. apply Nat.ltb_lt in H. cbn [interp]. unfold rhs. rewrite kV. unfold spec_start. rewrite S.
    cbn [sbody sname ibody idx_i idx_j fst snd]. rewrite H. reflexivity.
  Qed.

  Lemma uVd f i m : is_start_index W (i, i, m) = false -> spec (S f) (KN "V") (i, i, m) = Some vz.
  Proof.
    intros S. cbn [interp]. unfold rhs. rewrite kV. unfold spec_start. rewrite S.
    cbn [sbody sname ibody idx_i idx_j fst snd]. rewrite Nat.ltb_irrefl, Nat.eqb_refl. cbn [negb].
    now rewrite no_offdiag.
  Qed.

  Lemma uWd f i m : is_start_index W (i, i, m) = false ->
    spec (S f) (KN "W") (i, i, m) =
    option_map (fun p => vz + sw_fn W "diag" [vdiv O p (-2)%Z] (i, i, m)) (spec f (KN Pn) (i, i, m)).
  Proof.
    intros S. cbn [interp]. unfold rhs. rewrite kW. unfold spec_start. rewrite S.
    cbn [sbody sname ibody idx_i idx_j fst snd]. rewrite Nat.ltb_irrefl, Nat.eqb_refl. cbn [negb].
    rewrite no_offdiag. unfold iwrapped. cbn [iexpr]. fold Pn.
    destruct (spec f (KN Pn) (i, i, m)); reflexivity.
  Qed.

  Lemma uUd f ix :
    spec (S f) (KN Ud) ix =
    obind (spec f (KN "W") ix) (fun x => obind (spec f (KN "V") ix) (fun y => Some (vz + (x + - y)))).
  Proof.
    cbn [interp]. unfold rhs. rewrite kUd. unfold spec_start. cbn [sstart].
    destruct (is_start_index W ix);
      cbn [sbody sname ibody iexpr]; (destruct (spec f (KN "W") ix); cbn; auto; destruct (spec f (KN "V") ix); reflexivity).
  Qed.

  Lemma uUp f ix : is_start_index W ix = false ->
    spec (S f) (KN Up) ix =
    obind (spec f (KN "W") ix) (fun x => obind (spec f (KN "V") ix) (fun y => Some (vz + (x + y)))).
  Proof.
    intros S. cbn [interp]. unfold rhs. rewrite kUp. unfold spec_start. rewrite S.
    cbn [sbody sname ibody iexpr]. destruct (spec f (KN "W") ix); cbn; auto. destruct (spec f (KN "V") ix); reflexivity.
  Qed.

  Lemma uP f ix : spec (S f) (KN Pn) ix = iprod_gen O W (spec f) ix false (KN Ud) (KN Up).
  Proof. cbn [interp]. unfold rhs. rewrite kP. reflexivity. Qed.

  (* --------------------------------------------------------------- order 0 *)

  Lemma Up_zero f i j m x : swf (i, j, m) -> all_zero m = true -> spec f (KN Up) (i, j, m) = Some x -> x == vz.
  Proof.
    pose proof (vl_equiv L) as EQ.
    intros Hwf Z E. destruct f as [|f]; [discriminate|]. rewrite uUp0 in E by (now rewrite start_wf).
    inversion E; subst. reflexivity.
  Qed.

  Lemma Ud_zero f i j m x : swf (i, j, m) -> all_zero m = true -> spec f (KN Ud) (i, j, m) = Some x -> x == vz.
  Proof.
    pose proof (vl_equiv L) as EQ.
    intros Hwf Z E. destruct f as [|f]; [discriminate|]. rewrite uUd in E.
    destruct (spec f (KN "W") (i, j, m)) as [a|] eqn:Ea; cbn in E; [|discriminate].
    destruct (spec f (KN "V") (i, j, m)) as [b|] eqn:Eb; cbn in E; [|discriminate].
    inversion E; subst. destruct f as [|f]; [discriminate|].
    rewrite uW0 in Ea by (now rewrite start_wf). rewrite uV0 in Eb by (now rewrite start_wf).
    inversion Ea; inversion Eb; subst. rewrite (l_neg_0 L), !(l_add_0_l L). reflexivity.
  Qed.

  (* ------------------------------------------- the induction on the total order *)

  (** U'†(i,k,m) is the adjoint of U'(k,i,m) *)
  Definition PR (m : list nat) : Prop :=
    forall i k, i < nb -> k < nb ->
    forall f f' x y, spec f (KN Ud) (i, k, m) = Some x -> spec f' (KN Up) (k, i, m) = Some y -> x == adj y.

  Lemma partners_of n :
    length n = sw_np W ->
    (forall m, total m < total n -> length m = sw_np W -> all_zero m = false -> PR m) ->
    forall i, i < nb -> partners O eqv main_alg W (KN Ud) (KN Up) n i.
  Proof.
    intros Hl IH i Hi mid m Hmid Hm Nn Nz f f' x y Ex Ey.
    assert (H1 : total m < total n) by (now apply ole_total_lt).
    assert (H2 : length m = sw_np W) by (rewrite (@ole_length m n Hm); exact Hl).
    assert (H3 : all_zero m = false).
    { destruct (all_zero m) eqn:Z; auto. exfalso. apply Nz.
      apply all_zero_unique; auto using all_zero_lsub.
      rewrite length_lsub; auto. now apply ole_length. }
    exact (IH m H1 H2 H3 i mid Hi Hmid f f' x y Ex Ey).
  Qed.

  Lemma zero0_of n : length n = sw_np W -> forall i, i < nb -> zero0 O eqv main_alg W (KN Ud) (KN Up) n i.
  Proof.
    intros Hl i Hi mid Hmid. split.
    - intros f x E. eapply Ud_zero; eauto using all_zero_lsub.
      repeat split; cbn; auto. now rewrite length_lsub.
    - intros f y E. eapply Up_zero; eauto using all_zero_lsub.
      repeat split; cbn; auto. now rewrite length_lsub.
  Qed.

  (** the product is self-adjoint on the diagonal once the factors are partners below *)
  Lemma P_selfadj n i f p :
    length n = sw_np W -> i < nb ->
    (forall m, total m < total n -> length m = sw_np W -> all_zero m = false -> PR m) ->
    spec f (KN Pn) (i, i, n) = Some p -> p == adj p.
  Proof.
    intros Hl Hi IH E. destruct f as [|f]; [discriminate|]. rewrite uP in E.
    exact (prod_adjoint L f f (partners_of n Hl IH i Hi) (partners_of n Hl IH i Hi) (zero0_of n Hl i Hi) (zero0_of n Hl i Hi) E E).
  Qed.

  Lemma W_herm m :
    length m = sw_np W -> all_zero m = false ->
    (forall m', total m' < total m -> length m' = sw_np W -> all_zero m' = false -> PR m') ->
    forall i k, i < nb -> k < nb ->
    forall f f' a b, spec f (KN "W") (i, k, m) = Some a -> spec f' (KN "W") (k, i, m) = Some b -> a == adj b.
  Proof.
    pose proof (vl_equiv L) as EQ.
    intros Hl Z IH i k Hi Hk f f' a b Ea Eb.
    assert (S1 : is_start_index W (i, k, m) = false) by (rewrite start_wf; [auto | repeat split; auto]).
    assert (S2 : is_start_index W (k, i, m) = false) by (rewrite start_wf; [auto | repeat split; auto]).
    destruct (lt_eq_lt_dec i k) as [[Hlt|Heq]|Hgt].
    - (* i < k : W(k,i) is defined by the marker *)
      destruct f' as [|f']; [discriminate|]. rewrite uWl in Eb by auto.
      destruct (spec f' (KN "W") (i, k, m)) as [b'|] eqn:Eb'; cbn in Eb; [|discriminate]. inversion Eb; subst.
      rewrite (l_adj_add L), (l_adj_0 L), (l_adj_adj L), (l_add_0_l L). exact (@coh _ _ _ _ _ _ Ea Eb').
    - subst k.
      assert (a == b) as Hab by exact (@coh _ _ _ _ _ _ Ea Eb). rewrite <- Hab.
      destruct f as [|f]; [discriminate|]. rewrite uWd in Ea by auto.
      destruct (spec f (KN Pn) (i, i, m)) as [p|] eqn:Ep; cbn in Ea; [|discriminate]. inversion Ea; subst.
      pose proof (P_selfadj m i f p Hl Hi IH Ep) as Hp.
      rewrite (l_adj_add L), (l_adj_0 L), diag_adj. apply (l_add_proper L); [reflexivity|].
      apply fn_proper. constructor; [|constructor].
      rewrite (l_adj_div L). apply (l_div_proper L). exact Hp.
    - destruct f as [|f]; [discriminate|]. rewrite uWl in Ea by auto.
      destruct (spec f (KN "W") (k, i, m)) as [a'|] eqn:Ea'; cbn in Ea; [|discriminate]. inversion Ea; subst.
      rewrite (l_add_0_l L). apply (l_adj_proper L). exact (@coh _ _ _ _ _ _ Ea' Eb).
  Qed.

  Lemma V_antiherm m :
    length m = sw_np W -> all_zero m = false ->
    forall i k, i < nb -> k < nb ->
    forall f f' a b, spec f (KN "V") (i, k, m) = Some a -> spec f' (KN "V") (k, i, m) = Some b -> - a == adj b.
  Proof.
    pose proof (vl_equiv L) as EQ.
    intros Hl Z i k Hi Hk f f' a b Ea Eb.
    assert (S1 : is_start_index W (i, k, m) = false) by (rewrite start_wf; [auto | repeat split; auto]).
    assert (S2 : is_start_index W (k, i, m) = false) by (rewrite start_wf; [auto | repeat split; auto]).
    destruct (lt_eq_lt_dec i k) as [[Hlt|Heq]|Hgt].
    - destruct f' as [|f']; [discriminate|]. rewrite uVl in Eb by auto.
      destruct (spec f' (KN "V") (i, k, m)) as [b'|] eqn:Eb'; cbn in Eb; [|discriminate]. inversion Eb; subst.
      rewrite (l_adj_add L), (l_adj_0 L), (l_adj_neg L), (l_adj_adj L), (l_add_0_l L).
      apply (l_neg_proper L). exact (@coh _ _ _ _ _ _ Ea Eb').
    - subst k. destruct f as [|f]; [discriminate|]. destruct f' as [|f']; [discriminate|].
      rewrite uVd in Ea, Eb by auto. inversion Ea; inversion Eb; subst.
      rewrite (l_neg_0 L), (l_adj_0 L). reflexivity.
    - destruct f as [|f]; [discriminate|]. rewrite uVl in Ea by auto.
      destruct (spec f (KN "V") (k, i, m)) as [a'|] eqn:Ea'; cbn in Ea; [|discriminate]. inversion Ea; subst.
      rewrite (l_neg_add L), (l_neg_0 L), (l_neg_neg L), (l_add_0_l L).
      apply (l_adj_proper L). exact (@coh _ _ _ _ _ _ Ea' Eb).
  Qed.

  Theorem PR_all : forall t m, total m = t -> length m = sw_np W -> all_zero m = false -> PR m.
  Proof.
    pose proof (vl_equiv L) as EQ.
    induction t as [t IHt] using lt_wf_ind. intros m Ht Hl Z i k Hi Hk f f' x y Ex Ey.
    assert (IH : forall m', total m' < total m -> length m' = sw_np W -> all_zero m' = false -> PR m').
    { intros m' Hlt Hl' Z'. eapply (IHt (total m')); eauto. lia. }
    destruct f as [|f]; [discriminate|]. destruct f' as [|f']; [discriminate|].
    rewrite uUd in Ex. rewrite uUp in Ey by (rewrite start_wf; [auto | repeat split; auto]).
    destruct (spec f (KN "W") (i, k, m)) as [wa|] eqn:Wa; cbn in Ex; [|discriminate].
    destruct (spec f (KN "V") (i, k, m)) as [va|] eqn:Va; cbn in Ex; [|discriminate].
    destruct (spec f' (KN "W") (k, i, m)) as [wb|] eqn:Wb; cbn in Ey; [|discriminate].
    destruct (spec f' (KN "V") (k, i, m)) as [vb|] eqn:Vb; cbn in Ey; [|discriminate].
    inversion Ex; inversion Ey; subst.
    rewrite (l_adj_add L), (l_adj_0 L), (l_adj_add L).
    rewrite (W_herm m Hl Z IH i k Hi Hk _ _ _ _ Wa Wb), (V_antiherm m Hl Z i k Hi Hk _ _ _ _ Va Vb). reflexivity.
  Qed.

  Lemma PR_any m : length m = sw_np W -> all_zero m = false -> PR m.
  Proof. intros. eapply PR_all; eauto. Qed.

  Lemma partners_main n i : length n = sw_np W -> i < nb -> partners O eqv main_alg W (KN Ud) (KN Up) n i.
  Proof. intros Hl Hi. apply partners_of; auto. intros m _ Hm Z. now apply PR_any. Qed.

  (* ----------------------------------------------------------- definedness transfer *)

  Definition defd (k : key) (ix : index) : Prop := exists f w, spec f k ix = Some w.

  Lemma lift f F k ix w : f <= F -> spec f k ix = Some w -> exists w', spec F k ix = Some w' /\ w' == w.
  Proof. intros H E. exact (@interp_mono V O eqv L main_alg W fn_proper vis0_complete f F k ix w H E). Qed.
  Arguments lift [f] F [k ix w] _ _.

  Lemma Wdef_sym i k m : swf (i, k, m) -> defd (KN "W") (i, k, m) -> defd (KN "W") (k, i, m).
  Proof.
    intros (Hi & Hk & Hl) (f & a & E). cbn [idx_i idx_j idx_n fst snd] in *.
    assert (Wf' : swf (k, i, m)) by (repeat split; auto).
    destruct (all_zero m) eqn:Z.
    { exists 1, vz. apply uW0. now rewrite start_wf. }
    assert (S1 : is_start_index W (i, k, m) = false) by (rewrite start_wf; [auto | repeat split; auto]).
    assert (S2 : is_start_index W (k, i, m) = false) by (rewrite start_wf; auto).
    destruct (lt_eq_lt_dec i k) as [[Hlt|Heq]|Hgt].
    - exists (S f). rewrite uWl, E by auto. cbn. eauto.
    - subst. now exists f, a.
    - destruct f as [|f]; [discriminate|]. rewrite uWl in E by auto.
      destruct (spec f (KN "W") (k, i, m)) as [b|] eqn:Eb; [|discriminate]. now exists f, b.
  Qed.

  Lemma Vdef_sym i k m : swf (i, k, m) -> defd (KN "V") (i, k, m) -> defd (KN "V") (k, i, m).
  Proof.
    intros (Hi & Hk & Hl) (f & a & E). cbn [idx_i idx_j idx_n fst snd] in *.
    assert (Wf' : swf (k, i, m)) by (repeat split; auto).
    destruct (all_zero m) eqn:Z.
    { exists 1, vz. apply uV0. now rewrite start_wf. }
    assert (S1 : is_start_index W (i, k, m) = false) by (rewrite start_wf; [auto | repeat split; auto]).
    assert (S2 : is_start_index W (k, i, m) = false) by (rewrite start_wf; auto).
    destruct (lt_eq_lt_dec i k) as [[Hlt|Heq]|Hgt].
    - exists (S f). rewrite uVl, E by auto. cbn. eauto.
    - subst. now exists f, a.
    - destruct f as [|f]; [discriminate|]. rewrite uVl in E by auto.
      destruct (spec f (KN "V") (k, i, m)) as [b|] eqn:Eb; [|discriminate]. now exists f, b.
  Qed.

  Lemma WV_def_Ud i k m : defd (KN "W") (i, k, m) -> defd (KN "V") (i, k, m) -> defd (KN Ud) (i, k, m).
  Proof.
    intros (f1 & a & E1) (f2 & b & E2).
    destruct (lift (Nat.max f1 f2) (Nat.le_max_l f1 f2) E1) as (a' & E1' & _).
    destruct (lift (Nat.max f1 f2) (Nat.le_max_r f1 f2) E2) as (b' & E2' & _).
    exists (S (Nat.max f1 f2)). rewrite uUd, E1', E2'. cbn. eauto.
  Qed.

  Lemma WV_def_Up i k m : swf (i, k, m) -> defd (KN "W") (i, k, m) -> defd (KN "V") (i, k, m) -> defd (KN Up) (i, k, m).
  Proof.
    intros Hwf (f1 & a & E1) (f2 & b & E2).
    destruct (is_start_index W (i, k, m)) eqn:Hs.
    { exists 1, vz. now apply uUp0. }
    destruct (lift (Nat.max f1 f2) (Nat.le_max_l f1 f2) E1) as (a' & E1' & _).
    destruct (lift (Nat.max f1 f2) (Nat.le_max_r f1 f2) E2) as (b' & E2' & _).
    exists (S (Nat.max f1 f2)). rewrite uUp, E1', E2' by auto. cbn. eauto.
  Qed.

  Lemma Ud_def_WV i k m : defd (KN Ud) (i, k, m) -> defd (KN "W") (i, k, m) /\ defd (KN "V") (i, k, m).
  Proof.
    intros (f & x & E). destruct f as [|f]; [discriminate|]. rewrite uUd in E.
    destruct (spec f (KN "W") (i, k, m)) as [a|] eqn:Ea; cbn in E; [|discriminate].
    destruct (spec f (KN "V") (i, k, m)) as [b|] eqn:Eb; cbn in E; [|discriminate].
    split; [now exists f, a | now exists f, b].
  Qed.

  Lemma Up_def_WV i k m : swf (i, k, m) -> defd (KN Up) (i, k, m) -> defd (KN "W") (i, k, m) /\ defd (KN "V") (i, k, m).
  Proof.
    intros Hwf (f & x & E). destruct (is_start_index W (i, k, m)) eqn:Hs.
    { split; [exists 1, vz; now apply uW0 | exists 1, vz; now apply uV0]. }
    destruct f as [|f]; [discriminate|]. rewrite uUp in E by auto.
    destruct (spec f (KN "W") (i, k, m)) as [a|] eqn:Ea; cbn in E; [|discriminate].
    destruct (spec f (KN "V") (i, k, m)) as [b|] eqn:Eb; cbn in E; [|discriminate].
    split; [now exists f, a | now exists f, b].
  Qed.

  Lemma swf_transp i k m : swf (i, k, m) -> swf (k, i, m).
  Proof. intros (A & B & C). repeat split; auto. Qed.

  Lemma Up_def_Ud i k m : swf (k, i, m) -> defd (KN Up) (k, i, m) -> defd (KN Ud) (i, k, m).
  Proof.
    intros Hwf D. destruct (Up_def_WV _ _ _ Hwf D) as [DW DV].
    apply WV_def_Ud; [now apply Wdef_sym | now apply Vdef_sym].
  Qed.

  Lemma Ud_def_Up i k m : swf (i, k, m) -> defd (KN Ud) (i, k, m) -> defd (KN Up) (k, i, m).
  Proof.
    intros Hwf D. destruct (Ud_def_WV _ _ _ D) as [DW DV].
    apply WV_def_Up; [now apply swf_transp | now apply Wdef_sym | now apply Vdef_sym].
  Qed.

  (** a lazily evaluated term is defined as soon as both factors are, or one is a zero *)
  Lemma lazy_def_both c (a b : V) : lazy_term O c (fun _ => Some a) (fun _ => Some b) <> None.
  Proof. unfold lazy_term. destruct c; [destruct (vis0 O a) | destruct (vis0 O b)]; discriminate. Qed.

  Lemma lazy_def_l c (a : V) ob : vis0 O a = true -> lazy_term O c (fun _ => Some a) (fun _ => ob) <> None.
  Proof.
    intros Z. unfold lazy_term. destruct c; rewrite ?Z; try discriminate.
    destruct ob as [b|]; [destruct (vis0 O b)|]; discriminate.
  Qed.

  Lemma lazy_def_r c oa (b : V) : vis0 O b = true -> lazy_term O c (fun _ => oa) (fun _ => Some b) <> None.
  Proof.
    intros Z. unfold lazy_term. destruct c; rewrite ?Z; try discriminate.
    destruct oa as [a|]; [destruct (vis0 O a)|]; discriminate.
  Qed.

  Lemma zero_stays f F k ix w : f <= F -> spec f k ix = Some w -> w == vz ->
    exists w', spec F k ix = Some w' /\ vis0 O w' = true.
  Proof.
    pose proof (vl_equiv L) as EQ.
    intros H E Z. destruct (lift F H E) as (w' & E' & Hw). exists w'. split; auto. apply vis0_complete. now rewrite Hw.
  Qed.
  Arguments zero_stays [f F k ix w] _ _ _.

  (** if a term of P(i,j,n) is defined, the mirrored term of P(j,i,n) is defined for all large fuels *)
  Lemma mirror_term n i j mid m f :
    length n = sw_np W -> i < nb -> j < nb -> mid < nb -> ole m n ->
    tvo O (spec f) i j n (KN Ud) (KN Up) (mid, lsub n m) <> None ->
    exists F0, forall F, F0 <= F -> tvo O (spec F) j i n (KN Ud) (KN Up) (mid, m) <> None.
  Proof.
    pose proof (vl_equiv L) as EQ.
    intros Hl Hi Hj Hmid Hm T. unfold tvo in *. cbn [fst snd] in *.
    rewrite (@lsub_invol n m Hm) in T.
    assert (Lm : length m = sw_np W) by (rewrite (@ole_length m n Hm); exact Hl).
    assert (Hr : ole (lsub n m) n) by (apply splits_ok; now apply splits_complete).
    assert (Lr : length (lsub n m) = sw_np W) by (rewrite (@ole_length _ n Hr); exact Hl).
    assert (W1 : swf (i, mid, lsub n m)) by (repeat split; auto).
    assert (W2 : swf (mid, j, m)) by (repeat split; auto).
    destruct (lazy_term O _ _ _) as [r|] eqn:E; [clear T|congruence].
    apply (lazy_char L) in E.
    destruct (spec f (KN Ud) (i, mid, lsub n m)) as [a|] eqn:Ea, (spec f (KN Up) (mid, j, m)) as [b|] eqn:Eb; try tauto.
    - (* both factors defined: so are their partners *)
      destruct (Up_def_Ud j mid m W2 (ex_intro _ f (ex_intro _ b Eb))) as (f1 & x & Ex).
      destruct (Ud_def_Up i mid (lsub n m) W1 (ex_intro _ f (ex_intro _ a Ea))) as (f2 & y & Ey).
      exists (Nat.max f1 f2). intros F HF.
      assert (H1 : f1 <= F) by lia. assert (H2 : f2 <= F) by lia.
      destruct (lift F H1 Ex) as (x' & -> & _). destruct (lift F H2 Ey) as (y' & -> & _).
      apply lazy_def_both.
    - (* Ud(i,mid,n-m) is zero: so is its partner Up(mid,i,n-m) *)
      destruct E as [Za _].
      destruct (Ud_def_Up i mid (lsub n m) W1 (ex_intro _ f (ex_intro _ a Ea))) as (f2 & y & Ey).
      assert (Zy : y == vz).
      { destruct (all_zero (lsub n m)) eqn:Z.
        - exact (Up_zero f2 mid i (lsub n m) y (swf_transp _ _ _ W1) Z Ey).
        - rewrite <- (l_adj_adj L y), <- (PR_any (lsub n m) Lr Z i mid Hi Hmid _ _ _ _ Ea Ey), Za. apply (l_adj_0 L). }
      exists f2. intros F HF. destruct (zero_stays HF Ey Zy) as (y' & -> & Zv). now apply lazy_def_r.
    - destruct E as [Zb _].
      destruct (Up_def_Ud j mid m W2 (ex_intro _ f (ex_intro _ b Eb))) as (f1 & x & Ex).
      assert (Zx : x == vz).
      { destruct (all_zero m) eqn:Z.
        - exact (Ud_zero f1 j mid m x (swf_transp _ _ _ W2) Z Ex).
        - rewrite (PR_any m Lm Z j mid Hj Hmid _ _ _ _ Ex Eb), Zb. apply (l_adj_0 L). }
      exists f1. intros F HF. destruct (zero_stays HF Ex Zx) as (x' & -> & Zv). now apply lazy_def_l.
  Qed.

  Lemma all_large {A} (Q : nat -> A -> Prop) l :
    (forall a, In a l -> exists F0, forall F, F0 <= F -> Q F a) ->
    exists F0, forall F, F0 <= F -> forall a, In a l -> Q F a.
  Proof.
    induction l as [|a l IH]; intros H.
    - exists 0. intros F _ a [].
    - destruct (H a (or_introl eq_refl)) as (F1 & H1). destruct IH as (F2 & H2); [intros b Hb; apply H; now right|].
      exists (Nat.max F1 F2). intros F HF b [<-|Hb]; [apply H1; lia | apply H2; auto; lia].
  Qed.

  Lemma loop_defined sub i j n k1 k2 l :
    (forall p, In p l -> tvo O sub i j n k1 k2 p <> None) ->
    forall acc, exists w, iprod_loop O sub (i, j, n) false k1 k2 l acc = Some w.
  Proof.
    induction l as [|[mid m] r IH]; intros H acc; cbn [iprod_loop]; [eauto|].
    cbn [andb idx_i idx_j idx_n fst snd].
    change (lazy_term O _ _ _) with (tvo O sub i j n k1 k2 (mid, m)).
    destruct (tvo O sub i j n k1 k2 (mid, m)) as [[t|]|] eqn:T.
    - apply IH. intros p Hp. apply H. now right.
    - apply IH. intros p Hp. apply H. now right.
    - exfalso. apply (H (mid, m)); [now left | exact T].
  Qed.

  (** P(i,j,n) defined  =>  P(j,i,n) defined *)
  Lemma P_transp_defined i j n f w :
    swf (i, j, n) -> spec f (KN Pn) (i, j, n) = Some w -> exists f' w', spec f' (KN Pn) (j, i, n) = Some w'.
  Proof.
    intros (Hi & Hj & Hl) E. cbn [idx_i idx_j idx_n fst snd] in *.
    destruct f as [|f]; [discriminate|]. rewrite uP in E. unfold iprod_gen in E. cbn [idx_n] in E.
    destruct (loop_full L _ _ _ _ _ _ _ _ E) as [D _].
    destruct (@all_large _ (fun F p => tvo O (spec F) j i n (KN Ud) (KN Up) p <> None) (pbo_space nb n)) as (F0 & HF0).
    { intros [mid m] Hp. unfold pbo_space in Hp. apply in_flat_map in Hp. destruct Hp as (mid' & Hmid & Hp).
      apply in_map_iff in Hp. destruct Hp as (m' & Ep & Hm). inversion Ep; subst. apply in_seq in Hmid.
      apply (mirror_term n i j mid m f Hl Hi Hj ltac:(lia) (proj1 (splits_ok _ _ Hm))).
      apply D. unfold pbo_space. apply in_flat_map. exists mid. split; [apply in_seq; lia|]. apply in_map. now apply splits_refl. }
    destruct (loop_defined (spec F0) j i n (KN Ud) (KN Up) (pbo_space nb n) (HF0 F0 (le_n _)) vz) as (w' & E').
    exists (S F0), w'. rewrite uP. exact E'.
  Qed.

  (* ---------------------------------------------------- the two validity conditions *)

  Theorem main_low i j n x fu w :
    swf (i, j, n) ->
    (forall fu' w', spec fu' (KN Pn) (j, i, n) = Some w' -> x == w') ->
    spec fu (KN Pn) (i, j, n) = Some w -> adj x == w.
  Proof.
    pose proof (vl_equiv L) as EQ.
    intros Hwf Hx E. destruct (P_transp_defined i j n fu w Hwf E) as (f' & w' & E').
    rewrite (Hx _ _ E'). destruct Hwf as (Hi & Hj & Hl). cbn [idx_i idx_j idx_n fst snd] in *.
    destruct fu as [|fu]; [discriminate|]. destruct f' as [|f']; [discriminate|]. rewrite uP in E, E'.
    symmetry.
    exact (prod_adjoint L fu f' (partners_main n i Hl Hi) (partners_main n j Hl Hj) (zero0_of n Hl i Hi) (zero0_of n Hl j Hj) E E').
  Qed.

  Theorem main_diag i n fu fu' w w' :
    swf (i, i, n) ->
    iprod_gen O W (spec fu) (i, i, n) false (KN Ud) (KN Up) = Some w ->
    iprod_gen O W (spec fu') (i, i, n) true (KN Ud) (KN Up) = Some w' ->
    w' == w.
  Proof.
    intros (Hi & _ & Hl) E E'. cbn [idx_i idx_j idx_n fst snd] in *.
    exact (half_sum_valid L fu fu' (partners_main n i Hl Hi) (zero0_of n Hl i Hi) E E').
  Qed.
End HermMain.

(** the hypotheses [herm_low] / [herm_diag] of [world_ok] hold for the shipped Hermitian
    algorithm (no offdiag in the scope, diag commuting with the adjoint) *)
Section MainWorld.
  Variable V : Type.
  Variable O : vops V.
  Variable eqv : V -> V -> Prop.
  Variable L : vlaws O eqv.
  Variable W : xworld V.
  Variable sfn : string -> list V -> index -> V.

  Hypothesis inputs_plain : forall x, In x (xw_inputs W) -> has_at x = false.
  Hypothesis sfn_proper : forall f l l' ix, Forall2 eqv l l' -> eqv (sfn f l ix) (sfn f l' ix).
  Hypothesis fn_tie : forall f args ix r, xw_fn W f args ix = Ok r -> eqv (den O r) (sfn f (map (den O) args) ix).
  Hypothesis vis0_complete : forall a, eqv a (v0 O) -> vis0 O a = true.
  Hypothesis no_offdiag : xw_hasoff W = false.
  Hypothesis diag_adj : forall x i n, eqv (vadj O (sfn "diag" [x] (i, i, n))) (sfn "diag" [vadj O x] (i, i, n)).

  Lemma herm_product_main s p :
    kind_of main_alg (xw_inputs W) s = KProduct p -> pherm p = true ->
    s = Pn /\ p = {| pfactors := ["U'†"; "U'"]; pherm := true |}.
  Proof.
    intros K HP. unfold kind_of in K.
    destruct (find_pdef s (aproducts main_alg)) as [q|] eqn:F.
    2:{ destruct (find_sdef s (aseries main_alg)); [discriminate|]. destruct (mem_string s (xw_inputs W)); discriminate. }
    inversion K; subst q. clear K.
    assert (G : forall l, find_pdef s l = Some p -> In p l /\ pname p = s).
    { induction l as [|q l IH]; cbn [find_pdef]; [discriminate|].
      destruct (String.eqb (pname q) s) eqn:E.
      - intros H. inversion H; subst. split; [now left | now apply String.eqb_eq].
      - intros H. destruct (IH H). split; [now right | auto]. }
    destruct (G _ F) as [Hin Hn]. unfold main_alg in Hin. cbn [aproducts In] in Hin.
    destruct Hin as [<-|[<-|[<-|[<-|[<-|[]]]]]]; cbn in HP; try discriminate.
    split; auto.
  Qed.

  Lemma wf_swf ix : wf_index W ix = true -> swf V (SW O W sfn) ix.
  Proof.
    unfold wf_index, swf. intros H. apply andb_true_iff in H. destruct H as [H H3].
    apply andb_true_iff in H. destruct H as [H1 H2].
    apply Nat.ltb_lt in H1, H2. apply Nat.eqb_eq in H3. cbn [sw_nb sw_np SW]. auto.
  Qed.

  Theorem main_world_ok : world_ok O eqv main_alg W sfn.
  Proof.
    split; auto.
    - intros s p i j n K HP Hji Hwf x Hx fu w E.
      destruct (herm_product_main s p K HP) as [-> ->].
      exact (@main_low V O eqv L (SW O W sfn) sfn_proper vis0_complete no_offdiag diag_adj i j n x fu w (wf_swf _ Hwf) Hx E).
    - intros s p i n fu w K HP Hlen Hwf E fu' w' E'.
      destruct (herm_product_main s p K HP) as [-> ->].
      exact (@main_diag V O eqv L (SW O W sfn) sfn_proper vis0_complete no_offdiag diag_adj i n fu fu' w w' (wf_swf _ Hwf) E E').
  Qed.
End MainWorld.
