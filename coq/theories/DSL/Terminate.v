(** DSL/Terminate.v - termination of the evaluator on stratified programs.

    For a program with [stratified alg = true] (DSL/Stratified.v) every request at a full
    index ix, run with fuel >= [fuel_bound alg ix], ends with a value or a Python exception -
    never with the model-internal OutOfFuel - whatever the fault plan, from every state
    reachable from the initial one.

    Measure of a cache key (table, name, (i,j,n)):  inputs: 0/1;  otherwise
        2 + 4 * (total n * R + rank name) + 2 * [j < i] + [table = lin]
    with the rank of G0 when total n = 0 and of G+ otherwise, R > every rank.  Every nested
    request made while evaluating an element is strictly smaller (or an input).  The two
    places where this needs more than the syntax: (i) a series whose order-0 elements are start
    data is never evaluated at order 0 (start data are never deleted), (ii) the highest-order
    element of a product factor is requested only if the order-0 element of the other factor
    is not the sentinel zero - and it IS the sentinel for [zero0] names. *)
From Coq Require Import String List ZArith Bool Arith Lia.
From PV.DSL Require Import Syntax SyntaxAux Values Target Compile Interp Exec Laws Sound CompileProps Faults HermSums HermMain Stratified.
Import ListNotations.
Open Scope string_scope.
Open Scope list_scope.

Lemma total_zero n : total n = 0 <-> all_zero n = true.
Proof.
  induction n as [|x n IH]; cbn; [tauto|]. rewrite andb_true_iff, Nat.eqb_eq, <- IH. unfold total in *. lia.
Qed.

Lemma assoc_rank_le l s : assoc_rank l s <= fold_right Nat.max 0 (map snd l).
Proof.
  induction l as [|[n r] l IH]; cbn; [lia|]. destruct (String.eqb n s); lia.
Qed.


(* ------------------------------------------------------- static functions on target code *)

Fixpoint tment (t : texpr) : list (string * bool) :=
  match t with
  | TResult | TZero => []
  | TGet s tr => [(s, tr)]
  | TDagger a | TNeg a | TSafeDiv a _ => tment a
  | TZeroSum l => (fix go (l : list texpr) : list (string * bool) := match l with [] => [] | a :: r => tment a ++ go r end) l
  | TCall _ args =>
      (fix go (l : list targ) : list (string * bool) :=
         match l with
         | [] => []
         | TASeries s :: r => (s, false) :: go r
         | TAExpr a :: r => tment a ++ go r
         end) args
  | TIfExp _ a b => tment a ++ tment b
  end.

Fixpoint tzero (z : string -> bool) (t : texpr) : bool :=
  match t with
  | TResult | TZero => true
  | TGet s _ => z s
  | TDagger a | TNeg a | TSafeDiv a _ => tzero z a
  | TZeroSum l => (fix go (l : list texpr) : bool := match l with [] => true | a :: r => tzero z a && go r end) l
  | TCall _ _ => false
  | TIfExp _ a b => tzero z a && tzero z b
  end.

Section SentinelFacts.
  Variable V : Type.
  Variable O : vops V.
  Lemma sadd_no_oof (a b : sval V) : sadd O a b <> OutOfFuel.
  Proof. destruct a, b; cbn; discriminate. Qed.
  Lemma sneg_no_oof (a : sval V) : sneg O a <> OutOfFuel.
  Proof. destruct a; cbn; discriminate. Qed.
  Lemma sdagger_no_oof (a : sval V) : sdagger O a <> OutOfFuel.
  Proof. destruct a; cbn; discriminate. Qed.
  Lemma sdivide_no_oof (a : sval V) k : sdivide O a k <> OutOfFuel.
  Proof. destruct a; cbn; discriminate. Qed.
  Lemma ssum_no_oof l : forall acc : sval V, ssum_from O acc l <> OutOfFuel.
  Proof.
    induction l as [|t r IH]; intros acc; cbn; [discriminate|].
    destruct (is_zero t); auto. destruct (sadd O acc t) eqn:E; auto; try discriminate.
    exfalso. eapply sadd_no_oof; eauto.
  Qed.
  Lemma ssum_zeros l : Forall (fun v : sval V => v = SZero) l -> ssum_from O SZero l = Ok SZero.
  Proof. induction 1 as [|x l Hx Hl IH]; cbn; auto. subst. cbn. exact IH. Qed.
End SentinelFacts.

(* ------------------------------------------------------- the compiler and these functions *)

Lemma tment_zsum l : tment (TZeroSum l) = flat_map tment l.
Proof. cbn [tment]. induction l as [|a r IH]; cbn; auto; try (now rewrite IH). Qed.

Lemma tzero_zsum z l : tzero z (TZeroSum l) = forallb (tzero z) l.
Proof. cbn [tzero]. induction l as [|a r IH]; cbn; auto; try (now rewrite IH). Qed.

Lemma tment_negate t : tment (negate t) = tment t.
Proof. destruct t; reflexivity. Qed.

Lemma tzero_negate z t : tzero z (negate t) = tzero z t.
Proof. destruct t; reflexivity. Qed.

Lemma tment_flat t : flat_map tment (flat t) = tment t.
Proof. destruct t; cbn [flat flat_map]; rewrite ?app_nil_r; try reflexivity; try (symmetry; apply tment_zsum). Qed.

Lemma tzero_flat z t : forallb (tzero z) (flat t) = tzero z t.
Proof. destruct t; cbn [flat forallb]; rewrite ?andb_true_r; try reflexivity; try (symmetry; apply tzero_zsum). Qed.

Lemma flat_map_negate l : flat_map tment (map negate l) = flat_map tment l.
Proof. induction l as [|a r IH]; cbn; auto. now rewrite tment_negate, IH. Qed.

Lemma forallb_negate z l : forallb (tzero z) (map negate l) = forallb (tzero z) l.
Proof. induction l as [|a r IH]; cbn; auto. now rewrite tzero_negate, IH. Qed.

Lemma tment_cexpr dg e : forall p, In p (tment (cexpr dg e)) -> In (fst p) (map fst (uses_expr e)).
Proof.
  induction e using expr_ind'; intros p Hp; cbn [cexpr uses_expr] in *.
  - destruct Hp as [<-|[]]. now left.
  - destruct Hp as [<-|[]]. now left.
  - destruct Hp.
  - auto.
  - rewrite tment_zsum, flat_map_app, !tment_flat in Hp. rewrite map_app. apply in_or_app.
    apply in_app_or in Hp. destruct Hp; [left | right]; auto.
  - rewrite tment_zsum, flat_map_app, flat_map_negate, !tment_flat in Hp. rewrite map_app. apply in_or_app.
    apply in_app_or in Hp. destruct Hp; [left | right]; auto.
  - auto.
  - cbn [tment] in Hp. induction H as [|a r Ha Hr IH]; [destruct Hp|].
    destruct a as [s|e'].
    + cbn [arg_series] in Hp. cbn in Hp |- *. destruct Hp as [<-|Hp]; [now left | right; auto].
    + destruct (arg_series (ArgExpr e')) as [s|] eqn:As.
      * destruct e'; try discriminate. inversion As; subst. cbn in Hp |- *.
        destruct Hp as [<-|Hp]; [now left | right; auto].
      * rewrite map_app. apply in_or_app. apply in_app_or in Hp. destruct Hp as [Hp|Hp]; [left; now apply Ha | right; auto].
  - rewrite map_app. apply in_or_app. apply in_app_or in Hp. destruct Hp; [left | right]; auto.
Qed.

Lemma tzero_cexpr z dg e : zexpr z e = true -> tzero z (cexpr dg e) = true.
Proof.
  induction e using expr_ind'; intros Z; cbn [cexpr zexpr] in *.
  - exact Z.
  - exact Z.
  - reflexivity.
  - cbn [tzero]. auto.
  - apply andb_true_iff in Z. destruct Z as [Z1 Z2].
    rewrite tzero_zsum, forallb_app, !tzero_flat. now rewrite IHe1, IHe2.
  - apply andb_true_iff in Z. destruct Z as [Z1 Z2].
    rewrite tzero_zsum, forallb_app, forallb_negate, !tzero_flat. now rewrite IHe1, IHe2.
  - cbn [tzero]. auto.
  - discriminate.
  - apply andb_true_iff in Z. destruct Z as [Z1 Z2]. cbn [tzero]. now rewrite IHe1, IHe2.
Qed.

(* ------------------------------------------------------------------------ cost *)

Definition costf (a i : nat) : nat := a * ((i + 1) * (i + 1)).

Lemma fl_ge m : forall a, a <= fold_left costf m a.
Proof. induction m as [|x m IH]; intros a; cbn; [lia|]. specialize (IH (costf a x)). unfold costf in *. nia. Qed.

Lemma fl_zero m : all_zero m = true -> forall a, fold_left costf m a = a.
Proof.
  induction m as [|x m IH]; intros Z a; cbn; auto. cbn in Z. apply andb_true_iff in Z. destruct Z as [Z1 Z2].
  apply Nat.eqb_eq in Z1. subst. rewrite (IH Z2). unfold costf. lia.
Qed.

Lemma fl_big m : all_zero m = false -> forall a, 4 * a <= fold_left costf m a.
Proof.
  induction m as [|x m IH]; intros Z a; cbn in *; [discriminate|].
  destruct (Nat.eqb x 0) eqn:E.
  - apply Nat.eqb_eq in E. subst. cbn in Z. specialize (IH Z (costf a 0)). unfold costf in *. lia.
  - apply Nat.eqb_neq in E. pose proof (fl_ge m (costf a x)). unfold costf in *. nia.
Qed.

Lemma cost_zero m : all_zero m = true -> cost m = 1.
Proof. intros Z. unfold cost. now apply (fl_zero m Z 1). Qed.

Lemma cost_big m : all_zero m = false -> 4 <= cost m.
Proof. intros Z. unfold cost. exact (fl_big m Z 1). Qed.

(* ------------------------------------------------------------ zero0 is a fixpoint chain *)

Lemma zexpr_mono (z z' : string -> bool) e :
  (forall s, z s = true -> z' s = true) -> zexpr z e = true -> zexpr z' e = true.
Proof.
  intros H. induction e using expr_ind'; cbn [zexpr]; auto; try discriminate;
    intros Z; apply andb_true_iff in Z; destruct Z; apply andb_true_iff; auto.
Qed.

Lemma zero0_step_mono alg (z z' : string -> bool) s :
  (forall t, z t = true -> z' t = true) -> zero0_step alg z s = true -> zero0_step alg z' s = true.
Proof.
  intros H. unfold zero0_step. destruct (find_pdef s (aproducts alg)) as [p|].
  - rewrite !existsb_exists. intros (t & Ht & Zt). exists t. auto.
  - destruct (find_sdef s (aseries alg)) as [d|]; auto. destruct (sstart d); auto;
      rewrite !forallb_forall; intros F l Hl; specialize (F l Hl); destruct l as [c e|h]; auto; destruct c; auto;
      cbn [zline] in *; eapply zexpr_mono; eauto.
Qed.

Lemma iter_chain alg n s :
  iter n (zero0_step alg) (fun _ => false) s = true -> iter (S n) (zero0_step alg) (fun _ => false) s = true.
Proof.
  revert s. induction n as [|n IH]; intros s; [discriminate|].
  cbn [iter]. apply zero0_step_mono. exact IH.
Qed.

(** [zero0] is a post-fixpoint: what one more step over [zero0] itself gives is [zero0]'s
    own one-step unfolding over a smaller approximation *)
Lemma zero0_unfold alg s :
  zero0 alg s = true -> zero0_step alg (zero0 alg) s = true.
Proof.
  unfold zero0. set (n := length (all_names alg)). cbn [iter]. apply zero0_step_mono. apply iter_chain.
Qed.

Section Measure.
  Variable alg : algorithm.

  Definition rk (order0 : bool) (s : string) : nat := assoc_rank (auto_rank alg order0) s.

  Definition RR : nat :=
    S (Nat.max (fold_right Nat.max 0 (map snd (auto_rank alg false)))
               (fold_right Nat.max 0 (map snd (auto_rank alg true)))).

  Lemma rk_lt b s : rk b s < RR.
  Proof. unfold rk, RR. pose proof (assoc_rank_le (auto_rank alg b) s). destruct b; lia. Qed.

  Definition fuel_bound (ix : index) : nat := 4 * (S (total (idx_n ix)) * RR) + 8.
End Measure.

Section Terminate.
  Variable V : Type.
  Variable O : vops V.
  Variable alg : algorithm.
  Variable W : xworld V.

  Notation inputs := (xw_inputs W).
  Notation st := (state V).
  Notation prog := (compile alg).

  Hypothesis Hstrat : stratified alg = true.
  Hypothesis fn_no_oof : forall f args ix, xw_fn W f args ix <> OutOfFuel.
  (** a start value "X_0" names an input of the computation (otherwise there is no start datum) *)
  Hypothesis start_inputs : forall d x, In d (aseries alg) -> sstart d = StartInput x -> mem_string x inputs = true.

  Definition z0 := zero0 alg.
  (** leaves of the evaluation: inputs (one user callback) and unknown names (KeyError) *)
  Definition is_inp (s : string) : bool := match kind_of alg inputs s with KInput | KUnknown => true | _ => false end.
  Definition order0 (ix : index) : bool := Nat.eqb (total (idx_n ix)) 0.
  Definition lowb (ix : index) : nat := if Nat.ltb (idx_j ix) (idx_i ix) then 1 else 0.
  Definition tbit (tb : tbl) : nat := match tb with TTab => 0 | TLin => 1 end.

  Definition mu (tb : tbl) (k : key) (ix : index) : nat :=
    match k with
    | KI _ _ => 2
    | KN s => if is_inp s then tbit tb
              else 2 + 4 * (total (idx_n ix) * RR alg + rk alg (order0 ix) s) + 2 * lowb ix + tbit tb
    end.

  Lemma mu_bound tb k ix : mu tb k ix < fuel_bound alg ix.
  Proof.
    unfold mu, fuel_bound. destruct k as [s|]; [|lia]. destruct (is_inp s); [destruct tb; cbn; lia|].
    pose proof (rk_lt alg (order0 ix) s). unfold lowb. destruct (Nat.ltb _ _), tb; cbn [tbit]; lia.
  Qed.

  (* the four ways in which a nested request is smaller *)
  Lemma mu_input tb tb' s s' ix ix' : is_inp s' = true -> is_inp s = false -> mu tb' (KN s') ix' < mu tb (KN s) ix.
  Proof. intros H H'. unfold mu. rewrite H, H'. destruct tb'; cbn; lia. Qed.

  Lemma mu_order tb tb' s s' ix ix' :
    is_inp s = false -> total (idx_n ix') < total (idx_n ix) -> mu tb' (KN s') ix' < mu tb (KN s) ix.
  Proof.
    intros H Ht. unfold mu. rewrite H. destruct (is_inp s'); [destruct tb'; cbn; lia|].
    pose proof (rk_lt alg (order0 ix') s'). unfold lowb. destruct (Nat.ltb (idx_j ix') (idx_i ix')), tb'; cbn [tbit]; nia.
  Qed.

  Lemma mu_rank tb tb' s s' ix ix' :
    is_inp s = false -> idx_n ix' = idx_n ix -> rk alg (order0 ix) s' < rk alg (order0 ix) s ->
    mu tb' (KN s') ix' < mu tb (KN s) ix.
  Proof.
    intros H Hn Hr. unfold mu. rewrite H. destruct (is_inp s'); [destruct tb'; cbn; lia|].
    assert (order0 ix' = order0 ix) as -> by (unfold order0; now rewrite Hn). rewrite Hn.
    unfold lowb. destruct (Nat.ltb (idx_j ix') (idx_i ix')), (Nat.ltb (idx_j ix) (idx_i ix)), tb', tb; cbn [tbit]; lia.
  Qed.

  Lemma mu_lower tb tb' s ix :
    is_inp s = false -> idx_j ix < idx_i ix -> mu tb' (KN s) (transp ix) < mu tb (KN s) ix.
  Proof.
    intros H Hl. unfold mu. rewrite H. destruct ix as [[i j] n]. unfold transp, lowb, order0. cbn [idx_i idx_j idx_n fst snd] in *.
    assert (Nat.ltb j i = true) as -> by (now apply Nat.ltb_lt).
    assert (Nat.ltb i j = false) as -> by (apply Nat.ltb_ge; lia). destruct tb', tb; cbn [tbit]; lia.
  Qed.

  Lemma mu_table s ix : is_inp s = false \/ True -> mu TTab (KN s) ix < mu TLin (KN s) ix.
  Proof. intros _. unfold mu. destruct (is_inp s); cbn; lia. Qed.

  (* ------------------------------------------------------- what the certificate gives *)

  Lemma strat_parts :
    graph_ok alg false = true /\ graph_ok alg true = true /\ one_safe alg = true /\
    forallb (fun p => Nat.eqb (length (pfactors p)) 2) (aproducts alg) = true.
  Proof.
    pose proof Hstrat as H. unfold stratified in H.
    apply andb_true_iff in H. destruct H as [H H4]. apply andb_true_iff in H. destruct H as [H H3].
    apply andb_true_iff in H. destruct H as [H1 H2]. auto.
  Qed.

  Lemma find_sdef_sname x l d : find_sdef x l = Some d -> sname d = x /\ In d l.
  Proof.
    induction l as [|d' r IH]; cbn; [discriminate|].
    destruct (String.eqb (sname d') x) eqn:E.
    - intros H. inversion H; subst. split; [now apply String.eqb_eq | now left].
    - intros H. destruct (IH H). split; [auto | now right].
  Qed.

  Lemma find_pdef_pname x l p : find_pdef x l = Some p -> pname p = x /\ In p l.
  Proof.
    induction l as [|d' r IH]; cbn; [discriminate|].
    destruct (String.eqb (pname d') x) eqn:E.
    - intros H. inversion H; subst. split; [now apply String.eqb_eq | now left].
    - intros H. destruct (IH H). split; [auto | now right].
  Qed.

  Lemma in_all_names_series d : In d (aseries alg) -> mem_str (sname d) (all_names alg) = true.
  Proof.
    intros H. unfold mem_str, all_names. apply existsb_exists. exists (sname d). split; [|apply String.eqb_refl].
    apply in_or_app. left. now apply in_map.
  Qed.

  Lemma in_all_names_product p : In p (aproducts alg) -> mem_str (pname p) (all_names alg) = true.
  Proof.
    intros H. unfold mem_str, all_names. apply existsb_exists. exists (pname p). split; [|apply String.eqb_refl].
    apply in_or_app. right. now apply in_map.
  Qed.

  Lemma kind_known_in t : is_inp t = false -> mem_str t (all_names alg) = true.
  Proof.
    unfold is_inp, kind_of. destruct (find_pdef t (aproducts alg)) as [p|] eqn:F.
    - intros _. destruct (find_pdef_pname _ _ _ F) as [<- Hin]. now apply in_all_names_product.
    - destruct (find_sdef t (aseries alg)) as [d|] eqn:G.
      + intros _. destruct (find_sdef_sname _ _ _ G) as [<- Hin]. now apply in_all_names_series.
      + destruct (mem_string t inputs); discriminate.
  Qed.

  (** an edge of the graph decreases the rank *)
  Lemma edge_rank b s t :
    mem_str s (all_names alg) = true -> In t (succs alg b s) -> mem_str t (all_names alg) = true ->
    rk alg b t < rk alg b s.
  Proof.
    intros Hs Ht Hm. destruct strat_parts as (G1 & G2 & _).
    assert (G : graph_ok alg b = true) by (destruct b; auto).
    unfold graph_ok in G. rewrite forallb_forall in G.
    unfold mem_str in Hs. apply existsb_exists in Hs. destruct Hs as (s' & Hs' & E). apply String.eqb_eq in E. subst s'.
    specialize (G s Hs'). rewrite forallb_forall in G. specialize (G t Ht). rewrite Hm in G. cbn in G.
    apply Nat.ltb_lt in G. exact G.
  Qed.

  (* ----------------------------------------------------------- invariant and triples *)

  Definition wfi (ix : index) : Prop := wf_index W ix = true.

  (** the value of a [zero0] name at order 0 is the sentinel *)
  Definition ZV (k : key) (ix : index) (v : sval V) : Prop :=
    forall s, k = KN s -> z0 s = true -> wfi ix -> total (idx_n ix) = 0 -> v = SZero.

  Record SI (s : st) : Prop := {
    si_start : forall x d ix sv, kind_of alg inputs x = KSeries d -> start_sval W d ix = Some sv ->
                                 st_lookup s (TTab, KN x, ix) = Some (Done sv);
    si_zero : forall tb k ix v, st_lookup s (tb, k, ix) = Some (Done v) -> ZV k ix v
  }.

  Definition tok {A} (m : M V A) (P : A -> Prop) : Prop :=
    forall s r s', SI s -> m s = (r, s') -> r <> OutOfFuel /\ SI s' /\ forall a, r = Ok a -> P a.

  Lemma tok_ret {A} (a : A) (P : A -> Prop) : P a -> tok (ret a) P.
  Proof. intros H s r s' I E. inversion E; subst. split; [discriminate|]. split; auto. intros a' Ea. now inversion Ea; subst. Qed.

  Lemma tok_raise {A} e (P : A -> Prop) : tok (raise e) P.
  Proof. intros s r s' I E. inversion E; subst. split; [discriminate|]. split; auto. intros; discriminate. Qed.

  Lemma tok_lift {A} (r0 : res A) (P : A -> Prop) : r0 <> OutOfFuel -> (forall a, r0 = Ok a -> P a) -> tok (Exec.lift r0) P.
  Proof. intros N H s r s' I E. inversion E; subst. auto. Qed.

  Lemma tok_bind {A B} (m : M V A) (f : A -> M V B) (P : A -> Prop) (Q : B -> Prop) :
    tok m P -> (forall a, P a -> tok (f a) Q) -> tok (bind m f) Q.
  Proof.
    intros Hm Hf s r s' I E. unfold bind in E. destruct (m s) as [r1 s1] eqn:E1.
    destruct (Hm _ _ _ I E1) as (N1 & I1 & P1). destruct r1 as [a|e|].
    - exact (Hf a (P1 a eq_refl) _ _ _ I1 E).
    - inversion E; subst. split; [discriminate|]. split; auto. intros; discriminate.
    - contradiction.
  Qed.

  Lemma tok_weaken {A} (m : M V A) (P Q : A -> Prop) : tok m P -> (forall a, P a -> Q a) -> tok m Q.
  Proof. intros Hm H s r s' I E. destruct (Hm _ _ _ I E) as (N & I' & P'). auto. Qed.

  Lemma tok_tick ev : tok (tick W ev) (fun _ => True).
  Proof.
    intros s r s' I E. unfold tick in E.
    assert (I' : SI {| cache := cache s; calls := S (calls s); log := ev :: log s |}) by (destruct I; split; auto).
    destruct (xw_fault W (calls s)); inversion E; subst; (split; [discriminate|]); split; auto; intros; discriminate.
  Qed.

  Lemma start_zero_order d ix sv : start_sval W d ix = Some sv -> all_zero (idx_n ix) = true.
  Proof. unfold start_sval, x_start_index. destruct (all_zero (idx_n ix)); [auto | cbn; discriminate]. Qed.

  Lemma SI_remove (s : st) ck :
    SI s -> (forall x d sv ix, ck = (TTab, KN x, ix) -> kind_of alg inputs x = KSeries d -> start_sval W d ix = Some sv -> False) ->
    SI (st_remove s ck).
  Proof.
    intros [I1 I2] N. split.
    - intros x d ix sv K S. unfold st_lookup, st_remove. cbn [cache]. rewrite lookup_remove_neq; [eapply I1; eauto|].
      intros F. eapply N; eauto.
    - intros tb k ix v H. unfold st_lookup, st_remove in H. cbn [cache] in H. apply lookup_remove_some in H. destruct H. eauto.
  Qed.

  Lemma tok_del x ix : tok (del_ alg W x ix) (fun _ => True).
  Proof.
    intros s r s' I E. unfold del_ in E. destruct (all_zero (idx_n ix)) eqn:Z.
    { inversion E; subst. split; [discriminate|]. auto. }
    destruct (known alg W x); inversion E; subst; (split; [discriminate|]); split; auto; try (intros; discriminate).
    apply SI_remove; [apply SI_remove; auto|]; intros y d sv ix' F K S; inversion F; subst;
      apply start_zero_order in S; congruence.
  Qed.

  (* ------------------------------------------------------------------ expressions *)

  Lemma wfi_transp ix : wfi ix -> wfi (transp ix).
  Proof.
    unfold wfi, wf_index. destruct ix as [[i j] n]. cbn [transp idx_i idx_j idx_n fst snd]. intros H.
    apply andb_true_iff in H. destruct H as [H H3]. apply andb_true_iff in H. destruct H as [H1 H2]. now rewrite H1, H2, H3.
  Qed.

  Section Pass.
    Variable rec : getter V.
    Variable m0 : nat.
    Hypothesis Hrec : forall tb k ix, mu tb k ix < m0 -> tok (rec tb k ix) (ZV k ix).
    Variable which : tbl.
    Variable idx : index.

    (** the request for [fst p] at the index ([snd p]: transposed) is smaller than the current one *)
    Definition smallk (p : string * bool) : Prop :=
      forall tb', mu tb' (KN (fst p)) (if snd p then transp idx else idx) < m0.
    Definition small (p : string * bool) : Prop := known alg W (fst p) = true -> smallk p.

    Lemma deref_tok f h : (forall s, h = HSeries s -> smallk (s, false)) -> tok (deref W rec which idx f h) (fun _ => True).
    Proof.
      intros Hs. destruct h as [s|v]; cbn [deref]; [|now apply tok_ret].
      destruct (xw_access W f idx); [|now apply tok_ret].
      eapply tok_weaken; [apply Hrec, (Hs s eq_refl) | auto].
    Qed.

    Lemma deref_all_tok f hs :
      Forall (fun h => forall s, h = HSeries s -> smallk (s, false)) hs -> tok (deref_all W rec which idx f hs) (fun _ => True).
    Proof.
      induction 1 as [|h r Hh Hr IH]; cbn [deref_all]; [now apply tok_ret|].
      eapply tok_bind; [now apply deref_tok|]. intros v _. eapply tok_bind; [exact IH|]. intros vs _. now apply tok_ret.
    Qed.

    Lemma call_fn_tok f hs :
      Forall (fun h => forall s, h = HSeries s -> smallk (s, false)) hs -> tok (call_fn W rec which idx f hs) (fun _ => True).
    Proof.
      intros H. unfold call_fn. eapply tok_bind with (P := fun _ => True).
      { destruct (xw_counted W f); [apply tok_tick | now apply tok_ret]. }
      intros _ _. eapply tok_bind; [now apply deref_all_tok|]. intros vs _.
      apply tok_lift; [apply fn_no_oof | auto].
    Qed.

    Definition zpost (t : texpr) (result v : sval V) : Prop :=
      tzero z0 t = true -> wfi idx -> total (idx_n idx) = 0 -> result = SZero -> v = SZero.

    Lemma eval_texpr_tok t :
      (forall p, In p (tment t) -> small p) ->
      forall result, tok (eval_texpr O alg W rec which idx result t) (zpost t result).
    Proof.
      induction t using texpr_ind'; intros Hs result; cbn [eval_texpr].
      - apply tok_ret. intros _ _ _ E. exact E.
      - apply tok_ret. intros _ _ _ _. reflexivity.
      - destruct (known alg W s) eqn:K; [|apply tok_raise].
        assert (Sm : smallk (s, tr)) by (apply Hs; [now left | exact K]).
        eapply tok_weaken; [apply Hrec, Sm|].
        intros v Hv Z Wf T _. cbn [tzero] in Z. apply (Hv s eq_refl Z).
        + destruct tr; [now apply wfi_transp | exact Wf].
        + destruct tr; [destruct idx as [[i j] n]|]; exact T.
      - eapply tok_bind; [apply IHt; exact Hs|]. intros v Hv.
        apply tok_lift; [apply sdagger_no_oof|]. intros z Ez Z Wf T R. cbn [tzero] in Z.
        rewrite (Hv Z Wf T R) in Ez. cbn in Ez. now inversion Ez.
      - eapply tok_bind; [apply IHt; exact Hs|]. intros v Hv.
        apply tok_lift; [apply sneg_no_oof|]. intros z Ez Z Wf T R. cbn [tzero] in Z.
        rewrite (Hv Z Wf T R) in Ez. cbn in Ez. now inversion Ez.
      - (* _zero_sum *)
        eapply tok_bind with
          (P := fun vs => (fix go (l : list texpr) : bool := match l with [] => true | a :: r => tzero z0 a && go r end) l = true ->
                          wfi idx -> total (idx_n idx) = 0 -> result = SZero -> Forall (fun v => v = SZero) vs).
        + cbn [tment] in Hs. induction H as [|a r Ha Hr IH].
          * apply tok_ret. auto.
          * eapply tok_bind; [apply Ha; intros s Hin; apply Hs, in_or_app; now left|]. intros v Hv.
            eapply tok_bind; [apply IH; intros s Hin; apply Hs, in_or_app; now right|]. intros vs Hvs.
            apply tok_ret. intros Z Wf T R. apply andb_true_iff in Z. destruct Z as [Z1 Z2].
            constructor; [exact (Hv Z1 Wf T R) | exact (Hvs Z2 Wf T R)].
        + intros vs Hvs. apply tok_lift; [apply ssum_no_oof|]. intros z Ez Z Wf T R. cbn [tzero] in Z.
          unfold szero_sum in Ez. rewrite (@ssum_zeros _ O _ (Hvs Z Wf T R)) in Ez. now inversion Ez.
      - eapply tok_bind; [apply IHt; exact Hs|]. intros v Hv.
        apply tok_lift; [apply sdivide_no_oof|]. intros z Ez Z Wf T R. cbn [tzero] in Z.
        rewrite (Hv Z Wf T R) in Ez. cbn in Ez. now inversion Ez.
      - (* call *)
        eapply tok_bind with (P := fun hs => Forall (fun h => forall s, h = HSeries s -> smallk (s, false)) hs).
        + cbn [tment] in Hs. induction H as [|a r Ha Hr IH].
          * apply tok_ret. constructor.
          * destruct a as [s|a].
            -- destruct (known alg W s) eqn:K; [|apply tok_raise].
               eapply tok_bind; [apply IH; intros s' Hin; apply Hs; now right|]. intros hs Hhs.
               apply tok_ret. constructor; auto. intros s' E. inversion E; subst. apply (Hs (s', false)); [now left | exact K].
            -- cbn [targP] in Ha.
               eapply tok_bind; [apply Ha; intros s Hin; apply Hs, in_or_app; now left|]. intros v _.
               eapply tok_bind; [apply IH; intros s Hin; apply Hs, in_or_app; now right|]. intros hs Hhs.
               apply tok_ret. constructor; auto. intros s' E. discriminate.
        + intros hs Hhs. eapply tok_weaken; [now apply call_fn_tok|]. intros v _ Z. cbn [tzero] in Z. discriminate.
      - cbn [tment] in Hs. destruct (xflag W c idx).
        + eapply tok_weaken; [apply IHt1; intros s Hin; apply Hs, in_or_app; now left|].
          intros v Hv Z Wf T R. cbn [tzero] in Z. apply andb_true_iff in Z. destruct Z. auto.
        + eapply tok_weaken; [apply IHt2; intros s Hin; apply Hs, in_or_app; now right|].
          intros v Hv Z Wf T R. cbn [tzero] in Z. apply andb_true_iff in Z. destruct Z. auto.
    Qed.

    (* ------------------------------------------------------------------ statements *)

    Definition only_dels (ds : list tsimple) : Prop := Forall (fun d => exists x tr, d = TDel x tr) ds.

    Lemma dels_only td et : only_dels (dels td et).
    Proof. unfold only_dels, dels. apply Forall_forall. intros d H. apply in_map_iff in H. destruct H as (x & <- & _). eauto. Qed.

    Lemma simples_dels_tok ds tail result (Q : sval V * bool -> Prop) :
      only_dels ds -> tok (exec_simples O alg W rec which idx tail result) Q ->
      tok (exec_simples O alg W rec which idx (ds ++ tail) result) Q.
    Proof.
      intros H Ht. induction H as [|d r (x & tr & ->) Hr IH]; cbn [app]; auto.
      cbn [exec_simples]. eapply tok_bind; [apply tok_del|]. intros _ _. exact IH.
    Qed.

    Lemma simples_assign_tok t td et result (P : sval V -> Prop) tail (b : bool) :
      (tail = [] /\ b = false \/ tail = [TReturn] /\ b = true) ->
      tok (eval_texpr O alg W rec which idx result t) P ->
      tok (exec_simples O alg W rec which idx (TAssign t :: dels td et ++ tail) result) (fun x => P (fst x) /\ snd x = b).
    Proof.
      intros Htail Ht. cbn [exec_simples]. eapply tok_bind; [exact Ht|]. intros v Hv.
      apply simples_dels_tok; [apply dels_only|].
      destruct Htail as [[-> ->]|[-> ->]]; cbn [exec_simples]; apply tok_ret; auto.
    Qed.

    Lemma stmts_dels_tok ds more result (Q : sval V -> Prop) :
      only_dels ds -> tok (exec_stmts O alg W rec which idx more result) Q ->
      tok (exec_stmts O alg W rec which idx (map TS ds ++ more) result) Q.
    Proof.
      intros H Hm. induction H as [|d r (x & tr & ->) Hr IH]; cbn [app map]; auto.
      cbn [exec_stmts exec_simples].
      eapply tok_bind with (P := fun y => y = (result, false)).
      - eapply tok_bind; [apply tok_del|]. intros _ _. now apply tok_ret.
      - intros y ->. cbn [snd fst]. exact IH.
    Qed.

    Lemma stmts_assign_tok t more result (P Q : sval V -> Prop) :
      tok (eval_texpr O alg W rec which idx result t) P ->
      (forall v, P v -> tok (exec_stmts O alg W rec which idx more v) Q) ->
      tok (exec_stmts O alg W rec which idx (TS (TAssign t) :: more) result) Q.
    Proof.
      intros Ht Hm. cbn [exec_stmts exec_simples].
      eapply tok_bind with (P := fun x => P (fst x) /\ snd x = false).
      - eapply tok_bind; [exact Ht|]. intros v Hv. apply tok_ret. auto.
      - intros [v b] [Hv Hb]. cbn [fst snd] in *. subst b. now apply Hm.
    Qed.

    Lemma stmts_if_tok t body more result (P Q : sval V -> Prop) (b : bool) :
      test_holds W idx t = true ->
      tok (exec_simples O alg W rec which idx body result) (fun x => P (fst x) /\ snd x = b) ->
      (forall v, P v -> if b then Q v else tok (exec_stmts O alg W rec which idx more v) Q) ->
      tok (exec_stmts O alg W rec which idx (TIf t body :: more) result) Q.
    Proof.
      intros Ht Hb Hm. cbn [exec_stmts]. rewrite Ht.
      eapply tok_bind; [exact Hb|]. intros [v b'] [Hv Hb']. cbn [fst snd] in *. subst b'.
      specialize (Hm v Hv). destruct b; [now apply tok_ret | exact Hm].
    Qed.

    Lemma stmts_if_skip_tok t body more result (Q : sval V -> Prop) :
      test_holds W idx t = false -> tok (exec_stmts O alg W rec which idx more result) Q ->
      tok (exec_stmts O alg W rec which idx (TIf t body :: more) result) Q.
    Proof. intros Ht Hm. cbn [exec_stmts]. now rewrite Ht. Qed.

    Definition lines_post (name : string) (lines : list line) (result v : sval V) : Prop :=
      z0 name = true -> forallb (zline z0) lines = true -> wfi idx -> total (idx_n idx) = 0 -> result = SZero -> v = SZero.

    Lemma small_of_names (names : list string) t :
      (forall s tr, In s names -> small (s, tr)) ->
      (forall p, In p (tment t) -> In (fst p) names) ->
      forall p, In p (tment t) -> small p.
    Proof. intros H1 H2 [s tr] Hp. apply H1. exact (H2 _ Hp). Qed.

    Lemma tment_ctop e p : In p (tment (ctop false e)) -> In (fst p) (map fst (uses_expr e)).
    Proof.
      unfold ctop. rewrite tment_zsum. cbn [flat_map tment app]. rewrite tment_flat. apply tment_cexpr.
    Qed.

    Lemma tment_wrap dg f e p :
      In p (tment (TZeroSum [TResult; TCall f [cwrap_arg dg e]])) -> In (fst p) (map fst (uses_expr e)).
    Proof.
      rewrite tment_zsum. cbn [flat_map tment app]. rewrite app_nil_r.
      destruct e; cbn [cwrap_arg]; try (rewrite app_nil_r; apply tment_cexpr).
      intros [<-|[]]. now left.
    Qed.

    Lemma lines_tok name td lines :
      (forall l, In l lines -> forall s tr, In s (line_mentions l) -> small (s, tr)) ->
      (idx_j idx < idx_i idx -> small (name, true)) ->
      forall result,
        tok (exec_stmts O alg W rec which idx (flat_map (cline name td) lines) result) (lines_post name lines result).
    Proof.
      intros Hm Hself. induction lines as [|l r IH]; intros result; cbn [flat_map].
      - cbn [exec_stmts]. apply tok_ret. intros _ _ _ _ E. exact E.
      - assert (Hm' : forall l0, In l0 r -> forall s tr, In s (line_mentions l0) -> small (s, tr)).
        { intros l0 Hl0. apply Hm. now right. }
        specialize (IH Hm').
        assert (Hl : forall s tr, In s (line_mentions l) -> small (s, tr)) by (apply Hm; now left).
        destruct l as [c e|h].
        + cbn [line_mentions] in Hl. destruct c; cbn [cline].
          * (* default *)
            cbn [map app].
            eapply stmts_assign_tok; [apply eval_texpr_tok; apply (small_of_names _ _ Hl); apply tment_ctop|].
            intros v Hv. apply stmts_dels_tok; [apply dels_only|].
            eapply tok_weaken; [apply IH|]. intros v' Hv' Zn Z Wf T R. cbn [forallb zline] in Z.
            apply andb_true_iff in Z. destruct Z as [Z1 Z2]. apply (Hv' Zn Z2 Wf T).
            apply (Hv); auto. unfold ctop. rewrite tzero_zsum. cbn [forallb tzero]. rewrite tzero_flat. now apply tzero_cexpr.
          * cbn [app]. destruct (test_holds W idx TDiag) eqn:D.
            -- eapply stmts_if_tok with (b := false); [exact D | |].
               ++ rewrite <- (app_nil_r (dels td ETDiag)). apply simples_assign_tok; auto.
                  apply eval_texpr_tok. apply (small_of_names _ _ Hl). apply tment_wrap.
               ++ intros v _. eapply tok_weaken; [apply IH|]. intros v' _ _ Z. cbn [forallb zline] in Z. discriminate.
            -- apply stmts_if_skip_tok; [exact D|].
               eapply tok_weaken; [apply IH|]. intros v' _ _ Z. cbn [forallb zline] in Z. discriminate.
          * cbn [app].
            assert (REST : forall res0, tok (exec_stmts O alg W rec which idx
                       (TIf TOffdiagFn (TAssign (TZeroSum [TResult; TCall "offdiag" [cwrap_arg false e]]) :: dels td ETOffdiag)
                        :: flat_map (cline name td) r) res0) (lines_post name (Line Offdiagonal e :: r) result)).
            { intros res0. destruct (test_holds W idx TOffdiagFn) eqn:D2.
              - eapply stmts_if_tok with (b := false); [exact D2 | |].
                + rewrite <- (app_nil_r (dels td ETOffdiag)). apply simples_assign_tok; auto.
                  apply eval_texpr_tok. apply (small_of_names _ _ Hl). apply tment_wrap.
                + intros v _. eapply tok_weaken; [apply IH|]. intros v' _ _ Z. cbn [forallb zline] in Z. discriminate.
              - apply stmts_if_skip_tok; [exact D2|].
                eapply tok_weaken; [apply IH|]. intros v' _ _ Z. cbn [forallb zline] in Z. discriminate. }
            destruct (test_holds W idx TOffdiag) eqn:D.
            -- eapply stmts_if_tok with (b := false); [exact D | |].
               ++ rewrite <- (app_nil_r (dels td ETOffdiag)). apply simples_assign_tok; auto.
                  apply eval_texpr_tok. apply (small_of_names _ _ Hl). apply tment_ctop.
               ++ intros v _. apply REST.
            -- apply stmts_if_skip_tok; [exact D|]. apply REST.
        + (* marker *)
          cbn [cline app]. destruct (test_holds W idx TLower) eqn:Lw.
          * eapply stmts_if_tok with (b := true); [exact Lw | |].
            -- apply simples_assign_tok; auto. apply eval_texpr_tok.
               intros p Hp. assert (p = (name, true)) as ->.
               { rewrite tment_zsum in Hp. cbn [flat_map tment app] in Hp. destruct h; cbn [tment app] in Hp; destruct Hp as [<-|[]]; auto. }
               apply Hself. cbn [test_holds] in Lw. now apply Nat.ltb_lt.
            -- intros v Hv Zn Z Wf T R. apply Hv; auto.
               rewrite tzero_zsum. cbn [forallb]. destruct h; cbn [tzero]; now rewrite Zn.
          * apply stmts_if_skip_tok; [exact Lw|].
            eapply tok_weaken; [apply IH|]. intros v' Hv' Zn Z Wf T R. cbn [forallb zline] in Z. auto.
    Qed.

    (* -------------------------------------------------------------------- products *)

    Lemma tok_branch {A} (b : st -> bool) (m1 m2 : M V A) (P : A -> Prop) :
      tok m1 P -> tok m2 P -> tok (fun s => if b s then m1 s else m2 s) P.
    Proof. intros H1 H2 s r s' I E. destruct (b s); eauto. Qed.

    Lemma mk_term_tok ix a b : tok (mk_term O W ix a b) (fun _ => True).
    Proof.
      destruct a, b; cbn [mk_term]; try (now apply tok_ret).
      eapply tok_bind; [apply tok_tick|]. intros _ _. now apply tok_ret.
    Qed.

    Lemma accumulate_tok hp acc t : tok (accumulate O hp acc t) (fun _ => True).
    Proof.
      unfold accumulate. destruct hp.
      - eapply tok_bind with (P := fun _ => True); [apply tok_lift; [apply sadd_no_oof | auto]|]. intros x _.
        eapply tok_bind with (P := fun _ => True); [apply tok_lift; [apply sdagger_no_oof | auto]|]. intros d _.
        apply tok_lift; [apply sadd_no_oof | auto].
      - apply tok_lift; [apply sadd_no_oof | auto].
    Qed.

    (** what is known about one term (mid, m1) of the loop *)
    Definition term_ok (tb : tbl) (k1 k2 : key) (p : nat * list nat) : Prop :=
      let m2 := lsub (idx_n idx) (snd p) in
      let i1 := (idx_i idx, fst p, snd p) in
      let i2 := (fst p, idx_j idx, m2) in
      (Nat.leb (cost (snd p)) (cost m2) = true ->
         mu tb k1 i1 < m0 /\ (forall v, ZV k1 i1 v -> is_zero v = false -> mu tb k2 i2 < m0)) /\
      (Nat.leb (cost (snd p)) (cost m2) = false ->
         mu tb k2 i2 < m0 /\ (forall v, ZV k2 i2 v -> is_zero v = false -> mu tb k1 i1 < m0)).

    (** one of the two factors is the sentinel zero *)
    Definition term_zero (k1 k2 : key) (p : nat * list nat) : Prop :=
      let m2 := lsub (idx_n idx) (snd p) in
      (forall v, ZV k1 (idx_i idx, fst p, snd p) v -> is_zero v = true) \/
      (forall v, ZV k2 (fst p, idx_j idx, m2) v -> is_zero v = true).

    Lemma pbo_loop_tok tb k1 k2 herm l :
      Forall (term_ok tb k1 k2) l ->
      forall acc, tok (pbo_loop O W rec tb k1 k2 herm idx l acc)
                      (fun v => Forall (term_zero k1 k2) l -> v = acc).
    Proof.
      induction 1 as [|[mid m1] r [T1 T2] Hr IH]; intros acc; cbn [pbo_loop].
      - apply tok_ret. auto.
      - cbn [fst snd] in T1, T2.
        set (m2 := lsub (idx_n idx) m1) in *.
        set (i1 := (idx_i idx, mid, m1)) in *. set (i2 := (mid, idx_j idx, m2)) in *.
        assert (NEXT : tok (pbo_loop O W rec tb k1 k2 herm idx r acc)
                           (fun v => Forall (term_zero k1 k2) ((mid, m1) :: r) -> v = acc)).
        { eapply tok_weaken; [apply IH|]. intros v Hv F. inversion F; subst. auto. }
        destruct (herm && lex_gt m1 m2); [exact NEXT|].
        apply tok_branch; [exact NEXT|].
        assert (FULL : forall a b, is_zero a = false -> is_zero b = false -> ZV k1 i1 a -> ZV k2 i2 b ->
                  tok (bind (mk_term O W idx a b) (fun t =>
                         bind (accumulate O (herm && negb (lnat_eqb m1 m2)) acc t) (fun acc' =>
                           pbo_loop O W rec tb k1 k2 herm idx r acc')))
                      (fun v => Forall (term_zero k1 k2) ((mid, m1) :: r) -> v = acc)).
        { intros a b Za Zb Ha Hb.
          eapply tok_bind; [apply mk_term_tok|]. intros t _.
          eapply tok_bind; [apply accumulate_tok|]. intros acc' _.
          eapply tok_weaken; [apply IH|]. intros v _ F. inversion F as [|? ? TZ _]; subst.
          exfalso. destruct TZ as [TZ|TZ]; cbn [fst snd] in TZ.
          - specialize (TZ a Ha). congruence.
          - specialize (TZ b Hb). congruence. }
        destruct (Nat.leb (cost m1) (cost m2)) eqn:C.
        + destruct (T1 eq_refl) as [S1 S2].
          eapply tok_bind; [apply Hrec, S1|]. intros a Ha.
          destruct (is_zero a) eqn:Za; [exact NEXT|].
          eapply tok_bind; [apply Hrec, (S2 a Ha Za)|]. intros b Hb.
          destruct (is_zero b) eqn:Zb; [exact NEXT|].
          now apply FULL.
        + destruct (T2 eq_refl) as [S1 S2].
          eapply tok_bind; [apply Hrec, S1|]. intros b Hb.
          destruct (is_zero b) eqn:Zb; [exact NEXT|].
          eapply tok_bind; [apply Hrec, (S2 b Hb Zb)|]. intros a Ha.
          destruct (is_zero a) eqn:Za; [exact NEXT|].
          now apply FULL.
    Qed.
  End Pass.

  (* ------------------------------------------------------------- the eval of each object *)

  Lemma z0_leaf s : is_inp s = true -> z0 s = false.
  Proof.
    unfold is_inp, kind_of, z0. intros H. destruct (zero0 alg s) eqn:Z; auto.
    apply zero0_unfold in Z. unfold zero0_step in Z.
    destruct (find_pdef s (aproducts alg)); [discriminate|]. destruct (find_sdef s (aseries alg)); [discriminate|]. discriminate.
  Qed.

  Lemma ole_total_eq m n : ole m n -> total m = total n -> m = n.
  Proof.
    intros H E. destruct (list_eq_dec Nat.eq_dec m n) as [->|N]; auto. pose proof (ole_total_lt m n H N). lia.
  Qed.

  Lemma wfi_parts i j n : wfi (i, j, n) -> i < xw_nb W /\ j < xw_nb W /\ length n = xw_np W.
  Proof.
    unfold wfi, wf_index. cbn [idx_i idx_j idx_n fst snd]. intros H.
    apply andb_true_iff in H. destruct H as [H H3]. apply andb_true_iff in H. destruct H as [H1 H2].
    apply Nat.ltb_lt in H1, H2. apply Nat.eqb_eq in H3. auto.
  Qed.

  Lemma wfi_make i j n : i < xw_nb W -> j < xw_nb W -> length n = xw_np W -> wfi (i, j, n).
  Proof.
    intros H1 H2 H3. unfold wfi, wf_index. cbn [idx_i idx_j idx_n fst snd].
    apply Nat.ltb_lt in H1, H2. apply Nat.eqb_eq in H3. now rewrite H1, H2, H3.
  Qed.

  Lemma start_exists d i j n :
    In d (aseries alg) -> full_start d = true -> wfi (i, j, n) -> total n = 0 -> exists sv, start_sval W d (i, j, n) = Some sv.
  Proof.
    intros Hd Hf Hwf T. destruct (wfi_parts _ _ _ Hwf) as (Hi & Hj & Hl).
    unfold start_sval, x_start_index. cbn [idx_i idx_j idx_n fst snd].
    apply total_zero in T. apply Nat.ltb_lt in Hi, Hj. apply Nat.eqb_eq in Hl. rewrite T, Hi, Hj, Hl. cbn.
    unfold full_start in Hf. destruct (sstart d) eqn:S; try discriminate; eauto.
    rewrite (start_inputs d s Hd S). eauto.
  Qed.

  Lemma eval_of_tok rec tb k ix :
    (forall tb' k' ix', mu tb' k' ix' < mu tb k ix -> tok (rec tb' k' ix') (ZV k' ix')) ->
    wfi ix ->
    (forall x d, tb = TTab -> k = KN x -> kind_of alg inputs x = KSeries d -> start_sval W d ix = None) ->
    tok (eval_of O alg prog W rec tb k ix) (ZV k ix).
  Proof.
    intros Hrec Hwf Hst. destruct strat_parts as (_ & _ & _ & H2f).
    destruct k as [x|pn k']; cbn [eval_of].
    2:{ destruct (find_pdef pn (aproducts alg)) as [p|] eqn:F; [|apply tok_raise].
        destruct (find_pdef_pname _ _ _ F) as [_ Hin]. rewrite forallb_forall in H2f. specialize (H2f p Hin).
        apply Nat.eqb_eq in H2f. rewrite H2f.
        destruct (Nat.leb 2 k' && Nat.ltb k' 2) eqn:B; [|apply tok_raise].
        apply andb_true_iff in B. destruct B as [B1 B2]. apply Nat.leb_le in B1. apply Nat.ltb_lt in B2. lia. }
    destruct ix as [[i j] n].
    destruct (kind_of alg inputs x) as [|d|p|] eqn:K.
    - (* input *)
      assert (Lf : is_inp x = true) by (unfold is_inp; now rewrite K).
      destruct tb.
      + eapply tok_bind; [apply tok_tick|]. intros _ _. apply tok_ret.
        intros s E Z. inversion E; subst. rewrite (z0_leaf _ Lf) in Z. discriminate.
      + eapply tok_weaken; [apply Hrec|auto]. unfold mu. rewrite Lf. cbn. lia.
    - (* defined series *)
      assert (NL : is_inp x = false) by (unfold is_inp; now rewrite K).
      destruct tb.
      2:{ eapply tok_weaken; [apply Hrec|auto]. now apply mu_table; left. }
      unfold kind_of in K. destruct (find_pdef x (aproducts alg)) eqn:FP; [discriminate|].
      destruct (find_sdef x (aseries alg)) as [d'|] eqn:F; [|destruct (mem_string x inputs); discriminate].
      inversion K; subst d'. destruct (find_sdef_sname _ _ _ F) as [Hn Hd].
      assert (K' : kind_of alg inputs x = KSeries d) by (unfold kind_of; now rewrite FP, F).
      clear K. pose proof (Hst x d eq_refl eq_refl K') as Hnone.
      unfold series_eval, compile. rewrite (@find_body_compile x (aseries alg) (cseries alg) d F). unfold cseries.
      (* the body is not evaluated where the start data are *)
      assert (NS : order0 (i, j, n) && full_start d = false).
      { destruct (order0 (i, j, n)) eqn:Oz; auto. destruct (full_start d) eqn:Fs; auto. exfalso.
        unfold order0 in Oz. apply Nat.eqb_eq in Oz. cbn [idx_n snd] in Oz.
        destruct (start_exists d i j n Hd Fs Hwf Oz) as (sv & E). congruence. }
      eapply tok_weaken.
      + apply (lines_tok rec (mu TTab (KN x) (i, j, n)) Hrec).
        * intros l Hl s tr Hs Kn tb'. cbn [fst snd].
          destruct (is_inp s) eqn:Ls; [now apply mu_input|].
          apply mu_rank; auto; [destruct tr; reflexivity|].
          apply edge_rank; [rewrite <- Hn; now apply in_all_names_series | | now apply kind_known_in].
          unfold succs. rewrite FP, F, NS. unfold mentions. apply in_flat_map. eauto.
        * intros Hl Kn tb'. cbn [fst snd]. rewrite Hn. now apply mu_lower.
      + intros v Hv s E Z Wf T. inversion E; subst s. rewrite Hn in Hv.
        apply (Hv Z); auto.
        pose proof (zero0_unfold alg x Z) as U. unfold zero0_step in U. rewrite FP, F in U. destruct (sstart d) eqn:Sd; try discriminate; try exact U.
        exfalso. destruct (start_exists d i j n Hd ltac:(unfold full_start; now rewrite Sd) Wf T) as (sv & E'). congruence.
    - (* product *)
      assert (NL : is_inp x = false) by (unfold is_inp; now rewrite K).
      unfold kind_of in K. destruct (find_pdef x (aproducts alg)) as [p'|] eqn:F.
      2:{ destruct (find_sdef x (aseries alg)); [discriminate|]. destruct (mem_string x inputs); discriminate. }
      inversion K; subst p'. clear K. destruct (find_pdef_pname _ _ _ F) as [Hn Hin].
      rewrite forallb_forall in H2f. pose proof (H2f p Hin) as L2. apply Nat.eqb_eq in L2. rewrite L2. cbn [Nat.leb].
      destruct (pfactors p) as [|a [|b [|c r]]] eqn:Fs; try discriminate. clear L2.
      assert (InP : mem_str x (all_names alg) = true) by (rewrite <- Hn; now apply in_all_names_product).
      assert (SUCC : forall o, succs alg o x = (if o then [a] else if z0 b then [] else [a]) ++ (if z0 a then [] else [b])).
      { intros o. unfold succs. rewrite F, Fs. reflexivity. }
      destruct (wfi_parts _ _ _ Hwf) as (Hi & Hj & Hl).
      destruct (pherm p && Nat.ltb (idx_j (i, j, n)) (idx_i (i, j, n))) eqn:HL.
      + apply andb_true_iff in HL. destruct HL as [_ HL]. apply Nat.ltb_lt in HL.
        eapply tok_bind; [apply Hrec; now apply mu_lower|]. intros v Hv.
        apply tok_lift; [apply sdagger_no_oof|]. intros z Ez s E Z Wf T. inversion E; subst s.
        rewrite (Hv x eq_refl Z (wfi_transp _ Wf) T) in Ez. cbn in Ez. now inversion Ez.
      + unfold first_key, second_key. rewrite Fs. cbn [Nat.eqb nth Nat.sub].
        unfold pbo. cbn [idx_n snd].
        eapply tok_weaken.
        * apply (pbo_loop_tok rec (mu tb (KN x) (i, j, n)) Hrec (i, j, n)).
          apply Forall_forall. intros [mid m1] Hp. unfold pbo_space in Hp. apply in_flat_map in Hp.
          destruct Hp as (mid' & Hmid & Hp). apply in_map_iff in Hp. destruct Hp as (m' & Ep & Hm). inversion Ep; subst mid' m'.
          apply in_seq in Hmid. destruct (splits_ok _ _ Hm) as [O1 O2].
          assert (Z2 : all_zero (lsub n n) = true) by apply all_zero_lsub.
          unfold term_ok. cbn [fst snd idx_i idx_j idx_n].
          (* facts on orders *)
          assert (T1 : total m1 < total n \/ m1 = n) by (destruct (list_eq_dec Nat.eq_dec m1 n); [now right | left; now apply ole_total_lt]).
          assert (T2 : total (lsub n m1) < total n \/ lsub n m1 = n)
            by (destruct (list_eq_dec Nat.eq_dec (lsub n m1) n); [now right | left; now apply ole_total_lt]).
          assert (Wf1 : wfi (i, mid, m1)) by (apply wfi_make; [auto | lia | rewrite (ole_length m1 n O1); auto]).
          assert (Wf2 : wfi (mid, j, lsub n m1)) by (apply wfi_make; [lia | auto | rewrite (ole_length _ n O2); auto]).
          assert (EDGE : forall t, In t (succs alg (order0 (i, j, n)) x) -> is_inp t = false ->
                           forall tb' ix', idx_n ix' = n -> mu tb' (KN t) ix' < mu tb (KN x) (i, j, n)).
          { intros t Ht Lt tb' ix' En. apply mu_rank; auto. apply edge_rank; auto. now apply kind_known_in. }
          split; intros C.
          -- split.
             ++ destruct (is_inp a) eqn:La; [now apply mu_input|].
                destruct T1 as [T1|T1]; [now apply mu_order|]. subst m1.
                (* the first factor at the full order, looked at first: only at order 0 *)
                assert (Oz : all_zero n = true).
                { destruct (all_zero n) eqn:A; auto. pose proof (cost_big n A). rewrite (cost_zero _ Z2) in C.
                  apply Nat.leb_le in C. lia. }
                apply EDGE; auto. rewrite SUCC. unfold order0. cbn [idx_n snd].
                apply total_zero in Oz. rewrite Oz. cbn. now left.
             ++ intros v Hv Zv. destruct (is_inp b) eqn:Lb; [now apply mu_input|].
                destruct T2 as [T2|T2]; [now apply mu_order|].
                assert (m1 = lsub n n) as -> by (rewrite <- (lsub_invol n m1 O1), T2; reflexivity).
                assert (Za : z0 a = false).
                { destruct (z0 a) eqn:A; auto. rewrite (Hv a eq_refl A Wf1 (proj2 (total_zero _) Z2)) in Zv. discriminate. }
                apply EDGE; auto. rewrite SUCC, Za. apply in_or_app. right. now left.
          -- split.
             ++ destruct (is_inp b) eqn:Lb; [now apply mu_input|].
                destruct T2 as [T2|T2]; [now apply mu_order|].
                assert (m1 = lsub n n) as E1 by (rewrite <- (lsub_invol n m1 O1), T2; reflexivity).
                exfalso. rewrite E1, (cost_zero _ Z2) in C. apply Nat.leb_gt in C.
                assert (1 <= cost (lsub n (lsub n n))) by (unfold cost; apply (fl_ge _ 1)). lia.
             ++ intros v Hv Zv. destruct (is_inp a) eqn:La; [now apply mu_input|].
                destruct T1 as [T1|T1]; [now apply mu_order|]. subst m1.
                assert (Zb : z0 b = false).
                { destruct (z0 b) eqn:A; auto. rewrite (Hv b eq_refl A Wf2 (proj2 (total_zero _) Z2)) in Zv. discriminate. }
                assert (Nz : all_zero n = false).
                { destruct (all_zero n) eqn:A; auto. exfalso. rewrite (cost_zero _ A), (cost_zero _ Z2) in C. discriminate. }
                apply EDGE; auto. rewrite SUCC, Zb. unfold order0. cbn [idx_n snd].
                assert (Nat.eqb (total n) 0 = false) as -> by (apply Nat.eqb_neq; intros E0; apply total_zero in E0; congruence).
                apply in_or_app. left. now left.
        * intros v Hv s E Z Wf T. inversion E; subst s. apply Hv.
          pose proof (zero0_unfold alg x Z) as U. unfold zero0_step in U. rewrite F, Fs in U. cbn [existsb] in U.
          fold z0 in U. rewrite orb_false_r in U.
          apply Forall_forall. intros [mid m1] Hp. unfold pbo_space in Hp. apply in_flat_map in Hp.
          destruct Hp as (mid' & Hmid & Hp). apply in_map_iff in Hp. destruct Hp as (m' & Ep & Hm). inversion Ep; subst mid' m'.
          apply in_seq in Hmid. destruct (splits_ok _ _ Hm) as [O1 O2].
          cbn [idx_n snd] in T.
          assert (T1 : total m1 = 0) by (pose proof (ole_total _ _ O1); lia).
          assert (T2 : total (lsub n m1) = 0) by (pose proof (ole_total _ _ O2); lia).
          assert (Wf1 : wfi (i, mid, m1)) by (apply wfi_make; [auto | lia | rewrite (ole_length m1 n O1); auto]).
          assert (Wf2 : wfi (mid, j, lsub n m1)) by (apply wfi_make; [lia | auto | rewrite (ole_length _ n O2); auto]).
          unfold term_zero. cbn [fst snd idx_i idx_j idx_n].
          apply orb_true_iff in U. destruct U as [U|U]; [left | right]; intros v0 Hv0.
          -- now rewrite (Hv0 a eq_refl U Wf1 T1).
          -- now rewrite (Hv0 b eq_refl U Wf2 T2).
    - apply tok_raise.
  Qed.

  (* --------------------------------------------------------------------- __getitem__ *)

  Definition not_start_key (ck : ckey) : Prop :=
    forall x d sv ix, ck = (TTab, KN x, ix) -> kind_of alg inputs x = KSeries d -> start_sval W d ix = Some sv -> False.

  Lemma miss_not_start_key (s : st) ck : SI s -> st_lookup s ck = None -> not_start_key ck.
  Proof. intros I N x d sv ix -> K S. rewrite (si_start s I x d ix sv K S) in N. discriminate. Qed.

  Lemma SI_store (s : st) tb k ix e :
    SI s -> not_start_key (tb, k, ix) -> (forall v, e = Done v -> ZV k ix v) -> SI (st_store s (tb, k, ix) e).
  Proof.
    intros [I1 I2] NS Hz. split.
    - intros x d ix' sv K S. unfold st_lookup, st_store. cbn [cache]. rewrite lookup_cons_neq; [eapply I1; eauto|].
      intros F. eapply NS; eauto.
    - intros tb' k' ix' v H. unfold st_lookup, st_store in H. cbn [cache] in H.
      destruct (ckey_eqb (tb, k, ix) (tb', k', ix')) eqn:E.
      + apply ckey_eqb_eq in E. inversion E; subst. rewrite lookup_cons_eq in H. inversion H; subst. now apply Hz.
      + apply ckey_eqb_neq in E. rewrite lookup_cons_neq in H by exact E. eauto.
  Qed.

  Lemma getitem_step_tok rec tb k ix :
    (forall tb' k' ix', mu tb' k' ix' < mu tb k ix -> tok (rec tb' k' ix') (ZV k' ix')) ->
    tok (getitem_step O alg prog W rec tb k ix) (ZV k ix).
  Proof.
    intros Hrec s r s' I E. unfold getitem_step in E.
    destruct (wf_index W ix) eqn:Hwf; cbn [negb] in E.
    2:{ inversion E; subst. split; [discriminate|]. split; auto. intros; discriminate. }
    destruct (st_lookup s (tb, k, ix)) as [[|v]|] eqn:Lk.
    - inversion E; subst. split; [discriminate|]. split; auto. intros; discriminate.
    - inversion E; subst. split; [discriminate|]. split; auto. intros a Ea. inversion Ea; subst. eapply si_zero; eauto.
    - pose proof (miss_not_start_key s _ I Lk) as NS.
      assert (I1 : SI (st_store s (tb, k, ix) Pending)) by (apply SI_store; auto; intros v F; discriminate).
      assert (Hst : forall x d, tb = TTab -> k = KN x -> kind_of alg inputs x = KSeries d -> start_sval W d ix = None).
      { intros x d -> -> K. destruct (start_sval W d ix) as [sv|] eqn:S; auto. exfalso. exact (NS x d sv ix eq_refl K S). }
      destruct (eval_of O alg prog W rec tb k ix (st_store s (tb, k, ix) Pending)) as [r1 s2] eqn:E1.
      destruct (eval_of_tok rec tb k ix Hrec Hwf Hst _ _ _ I1 E1) as (N1 & I2 & P2).
      destruct r1 as [v|e|]; inversion E; subst.
      + split; [discriminate|]. split.
        * apply SI_store; auto. intros v' F. inversion F; subst. auto.
        * intros a Ea. inversion Ea; subst. auto.
      + split; [discriminate|]. split; [|intros; discriminate].
        apply SI_remove; [exact I2 | exact NS].
      + contradiction.
  Qed.

  Theorem getitem_tok : forall f tb k ix, mu tb k ix < f -> tok (getitem O alg prog W f tb k ix) (ZV k ix).
  Proof.
    induction f as [|f IH]; intros tb k ix H; [lia|]. cbn [getitem].
    apply getitem_step_tok. intros tb' k' ix' H'. apply IH. lia.
  Qed.

  (** every request with enough fuel ends with a value or an exception *)
  Theorem run_no_oof fuel (s : st) tb name ix r s' :
    SI s -> fuel_bound alg ix <= fuel -> run O alg prog W fuel s (tb, name, ix) = (r, s') ->
    r <> OutOfFuel /\ SI s'.
  Proof.
    intros I Hf E. unfold run in E. destruct (known alg W name).
    - pose proof (mu_bound tb (KN name) ix) as B.
      destruct (getitem_tok fuel tb (KN name) ix ltac:(lia) _ _ _ I E) as (N & I' & _). auto.
    - inversion E; subst. split; [discriminate | auto].
  Qed.

  Theorem run_all_no_oof fuel rs : forall (s : st) os s',
    SI s -> Forall (fun r => fuel_bound alg (snd r) <= fuel) rs ->
    run_all O alg prog W fuel s rs = (os, s') ->
    Forall (fun o => o <> OutOfFuel) os /\ SI s'.
  Proof.
    induction rs as [|[[tb name] ix] rest IH]; intros s os s' I Hf E; cbn [run_all] in E.
    - inversion E; subst. auto.
    - destruct (run O alg prog W fuel s (tb, name, ix)) as [o s1] eqn:E1.
      destruct (run_all O alg prog W fuel s1 rest) as [os' s2] eqn:E2.
      inversion E; subst. inversion Hf; subst. cbn [snd] in *.
      destruct (run_no_oof fuel s tb name ix o s1 I H1 E1) as [N1 I1].
      destruct (IH _ _ _ I1 H2 E2) as [N2 I2]. auto.
  Qed.

  (** the initial state satisfies the invariant *)
  Theorem init_SI calls0 : SI (init_state alg W calls0).
  Proof.
    split.
    - intros x d ix sv K S.
      exact (inv_start (init_inv (trivial_laws O) alg W (tsfn O) calls0) x ix K S).
    - intros tb k ix v H. unfold st_lookup, init_state in H. cbn [cache] in H.
      apply lookup_in, init_entries_good in H.
      destruct H as (v' & x & ix' & E & [(d & K & S)|(K & ->)]); inversion E; subst.
      + intros s Es Z Wf T. inversion Es; subst s.
        pose proof (zero0_unfold alg x Z) as U. unfold zero0_step in U. unfold kind_of in K.
        destruct (find_pdef x (aproducts alg)); [discriminate|].
        destruct (find_sdef x (aseries alg)) as [d'|]; [|destruct (mem_string x inputs); discriminate].
        inversion K; subst d'. unfold start_sval in S. destruct (x_start_index W ix'); [|discriminate].
        destruct (sstart d); try discriminate. now inversion S.
      + intros s Es Z. inversion Es; subst s. rewrite z0_leaf in Z; [discriminate|]. unfold is_inp. now rewrite K.
  Qed.
End Terminate.
