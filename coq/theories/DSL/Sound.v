(** DSL/Sound.v - soundness of the evaluator (DSL/Exec.v) running ANY target program built
    from source lines by [cline] (in particular [compile alg]) with respect to the
    specification (DSL/Interp.v).

    Invariant ([Inv stack s]):
      I1  every [Done v] entry of either table denotes the interp value of that element
          (for every fuel at which interp is defined);
      I2  every [Pending] entry belongs to the current evaluation stack;
      I3  the start data of the defined series are present (they are never deleted: [del_]
          skips the zeroth order);
      I4  (fault-free worlds) the input-evaluation events of the log are pairwise distinct
          and the corresponding cache entries of the inputs are present.
    [ext n s s']: what a computation serving a request at multi-order [n] may do to the
    state: append events of order <= n to the log, increase the call counter, and never
    remove or change an evaluated input element.                                          *)
From Coq Require Import String List ZArith Bool Arith Lia Setoid Morphisms RelationClasses.
From PV.DSL Require Import Syntax SyntaxAux Values Target Compile Interp Exec Laws TSem.
Import ListNotations.
Set Implicit Arguments.

(* ------------------------------------------------------------------ cache lemmas *)
Section CacheLemmas.
  Variable V : Type.
  Implicit Types c : list (ckey * entry V).

  Lemma lookup_cons_eq c k e : lookup ((k, e) :: c) k = Some e.
  Proof. cbn. now rewrite ckey_eqb_refl. Qed.

  Lemma lookup_cons_neq c k k' e : k <> k' -> lookup ((k, e) :: c) k' = lookup c k'.
  Proof. intros N. cbn. apply ckey_eqb_neq in N. now rewrite N. Qed.

  Lemma lookup_remove_eq c k : lookup (remove c k) k = None.
  Proof.
    induction c as [|[k' e] r IH]; cbn; auto.
    destruct (ckey_eqb k' k) eqn:E; cbn; auto. now rewrite E.
  Qed.

  Lemma lookup_remove_neq c k k' : k <> k' -> lookup (remove c k) k' = lookup c k'.
  Proof.
    intros N. induction c as [|[k0 e] r IH]; cbn; auto.
    destruct (ckey_eqb k0 k) eqn:E; cbn.
    - apply ckey_eqb_eq in E. subst k0. apply ckey_eqb_neq in N. now rewrite N.
    - destruct (ckey_eqb k0 k'); auto.
  Qed.

  Lemma lookup_remove_some c k k' e : lookup (remove c k) k' = Some e -> k <> k' /\ lookup c k' = Some e.
  Proof.
    intros H. destruct (ckey_eqb k k') eqn:E.
    - apply ckey_eqb_eq in E. subst. now rewrite lookup_remove_eq in H.
    - apply ckey_eqb_neq in E. split; auto. now rewrite lookup_remove_neq in H.
  Qed.
End CacheLemmas.

Fixpoint ole (a b : list nat) : Prop :=
  match a, b with
  | [], [] => True
  | x :: a', y :: b' => x <= y /\ ole a' b'
  | _, _ => False
  end.

Lemma ole_refl a : ole a a.
Proof. induction a; cbn; auto. Qed.

Lemma ole_trans a b c : ole a b -> ole b c -> ole a c.
Proof.
  revert b c. induction a as [|x a IH]; destruct b as [|y b], c as [|z c]; cbn; try tauto.
  intros [H1 H2] [H3 H4]. split; [lia | eauto].
Qed.

Definition ev_idx (e : event) : index :=
  match e with EvInput _ i | EvFn _ i | EvOp i => i end.
Definition ev_le (n : list nat) (e : event) : Prop := ole (idx_n (ev_idx e)) n.

Fixpoint input_evs (l : list event) : list (string * index) :=
  match l with
  | [] => []
  | EvInput s i :: r => (s, i) :: input_evs r
  | _ :: r => input_evs r
  end.

Lemma input_evs_app l1 l2 : input_evs (l1 ++ l2) = input_evs l1 ++ input_evs l2.
Proof. induction l1 as [|[]]; cbn; auto. now rewrite IHl1. Qed.

Lemma in_input_evs s i l : In (s, i) (input_evs l) <-> In (EvInput s i) l.
Proof.
  induction l as [|e l IH]; cbn; [tauto|].
  destruct e; cbn; rewrite IH.
  - split; intros [H|H]; auto; inversion H; auto.
  - split; [auto | intros [H|H]; [discriminate | auto]].
  - split; [auto | intros [H|H]; [discriminate | auto]].
Qed.

Section Sound.
  Variable V : Type.
  Variable O : vops V.
  Variable eqv : V -> V -> Prop.
  Variable L : vlaws O eqv.
  Variable alg : algorithm.
  Variable prog : tprogram.
  Variable W : xworld V.
  Variable sfn : string -> list V -> index -> V.

  Local Infix "==" := eqv (at level 70, no associativity).

  (** the specification world that corresponds to the evaluator's world *)
  Definition SW : sworld V :=
    {| sw_nb := xw_nb W; sw_np := xw_np W; sw_inputs := xw_inputs W;
       sw_env := fun s i => den O (xw_env W s i);
       sw_hasoff := xw_hasoff W; sw_gflag := xw_gflag W; sw_rflag := xw_rflag W;
       sw_access := xw_access W; sw_fn := sfn |}.

  (** the scope functions of the evaluator compute the specification's functions *)
  Hypothesis sfn_proper : forall f l l' ix, Forall2 eqv l l' -> sfn f l ix == sfn f l' ix.
  Hypothesis fn_tie : forall f args ix r,
      xw_fn W f args ix = Ok r -> den O r == sfn f (map (den O) args) ix.

  Notation inputs := (xw_inputs W).
  Notation spec := (interp O alg SW).
  Notation st := (state V).

  Definition agrees (v : sval V) (k : key) (ix : index) : Prop :=
    forall f w, spec f k ix = Some w -> den O v == w.

  Definition NF : Prop := forall k, xw_fault W k = None.

  Definition is_input (x : string) : Prop := kind_of alg inputs x = KInput.

  Record Inv (stack : list ckey) (s : st) : Prop := {
    inv_done : forall tb k ix v, st_lookup s (tb, k, ix) = Some (Done v) -> agrees v k ix;
    inv_pend : forall ck, st_lookup s ck = Some Pending -> In ck stack;
    inv_start : forall x d ix sv,
        kind_of alg inputs x = KSeries d -> start_sval W d ix = Some sv ->
        st_lookup s (TTab, KN x, ix) = Some (Done sv);
    inv_once : NF -> NoDup (input_evs (log s)) /\
                     forall x ix, In (EvInput x ix) (log s) ->
                                  is_input x /\ st_lookup s (TTab, KN x, ix) <> None
  }.

  Definition ext (n : list nat) (s s' : st) : Prop :=
    (exists l, log s' = l ++ log s /\ Forall (ev_le n) l) /\
    calls s <= calls s' /\
    (forall x ix v, is_input x -> st_lookup s (TTab, KN x, ix) = Some (Done v) ->
                    st_lookup s' (TTab, KN x, ix) = Some (Done v)).

  Lemma ext_refl n s : ext n s s.
  Proof. unfold ext. split; [exists []; split; auto | split; auto]. Qed.

  Lemma ext_trans n s1 s2 s3 : ext n s1 s2 -> ext n s2 s3 -> ext n s1 s3.
  Proof.
    intros ((l1 & E1 & F1) & C1 & P1) ((l2 & E2 & F2) & C2 & P2). repeat split.
    - exists (l2 ++ l1). rewrite E2, E1, app_assoc. split; auto. apply Forall_app. auto.
    - lia.
    - auto.
  Qed.

  Lemma ev_le_mono n n' e : ole n n' -> ev_le n e -> ev_le n' e.
  Proof. unfold ev_le. intros. eapply ole_trans; eauto. Qed.

  Lemma ext_mono n n' s s' : ole n n' -> ext n s s' -> ext n' s s'.
  Proof.
    intros H ((l & E & F) & C & P). repeat split; auto.
    exists l. split; auto. eapply Forall_impl; [|exact F]. intros e. now apply ev_le_mono.
  Qed.

  (** specification of a computation serving a request at multi-order [n] *)
  Definition mok {A} (n : list nat) (m : M V A) (P : A -> Prop) : Prop :=
    forall stack s r s', Inv stack s -> m s = (r, s') -> r <> OutOfFuel ->
      Inv stack s' /\ ext n s s' /\ forall a, r = Ok a -> P a.

  Lemma mok_ret {A} n (a : A) (P : A -> Prop) : P a -> mok n (ret a) P.
  Proof.
    intros H stack s r s' I E _. inversion E; subst.
    split; [exact I | split; [apply ext_refl|]]. intros a' Ea. inversion Ea; subst; auto.
  Qed.

  Lemma mok_raise {A} n e (P : A -> Prop) : mok n (raise e) P.
  Proof.
    intros stack s r s' I E _. inversion E; subst.
    split; [exact I | split; [apply ext_refl|]]. intros a' Ea. discriminate.
  Qed.

  Lemma mok_lift {A} n (r0 : res A) (P : A -> Prop) : (forall a, r0 = Ok a -> P a) -> mok n (lift r0) P.
  Proof.
    intros H stack s r s' I E _. inversion E; subst.
    split; [exact I | split; [apply ext_refl | exact H]].
  Qed.

  Lemma mok_bind {A B} n (m : M V A) (f : A -> M V B) (P : A -> Prop) (Q : B -> Prop) :
    mok n m P -> (forall a, P a -> mok n (f a) Q) -> mok n (bind m f) Q.
  Proof.
    intros Hm Hf stack s r s' I E NO. unfold bind in E.
    destruct (m s) as [r1 s1] eqn:E1. destruct r1 as [a|e|].
    - destruct (Hm _ _ _ _ I E1) as (I1 & X1 & P1); [discriminate|].
      destruct (Hf a (P1 a eq_refl) _ _ _ _ I1 E NO) as (I2 & X2 & P2).
      split; [exact I2 | split; [eapply ext_trans; eauto | exact P2]].
    - inversion E; subst. destruct (Hm _ _ _ _ I E1) as (I1 & X1 & P1); [discriminate|].
      split; [exact I1 | split; [exact X1 | intros a Ea; discriminate]].
    - inversion E; subst. contradiction.
  Qed.

  Lemma mok_weaken {A} n (m : M V A) (P Q : A -> Prop) :
    mok n m P -> (forall a, P a -> Q a) -> mok n m Q.
  Proof.
    intros Hm H stack s r s' I E NO. destruct (Hm _ _ _ _ I E NO) as (I1 & X1 & P1).
    split; [exact I1 | split; [exact X1 | auto]].
  Qed.

  Lemma mok_mono {A} n n' (m : M V A) (P : A -> Prop) : ole n n' -> mok n m P -> mok n' m P.
  Proof.
    intros H Hm stack s r s' I E NO. destruct (Hm _ _ _ _ I E NO) as (I1 & X1 & P1).
    split; [exact I1 | split; [eapply ext_mono; eauto | exact P1]].
  Qed.

  (** a computation that inspects the state to choose between two computations *)
  Lemma mok_branch {A} n (b : st -> bool) (m1 m2 : M V A) (P : A -> Prop) :
    mok n m1 P -> mok n m2 P -> mok n (fun s => if b s then m1 s else m2 s) P.
  Proof.
    intros H1 H2 stack s r s' I E NO. destruct (b s); eauto.
  Qed.

  (* ------------------------------------------------------------------ primitives *)

  Lemma mok_tick n ev :
    ev_le n ev -> (forall x ix, ev <> EvInput x ix) -> mok n (tick W ev) (fun _ => True).
  Proof.
    intros Hle Hni stack s r s' I E _. unfold tick in E.
    assert (I' : Inv stack {| cache := cache s; calls := S (calls s); log := ev :: log s |}).
    { destruct I as [I1 I2 I3 I4]. split; auto.
      intros nf. destruct (I4 nf) as [ND HI]. cbn [log].
      assert (input_evs (ev :: log s) = input_evs (log s)) as Eq.
      { destruct ev; cbn; auto. exfalso. eapply Hni; eauto. }
      rewrite Eq. split; auto. intros x ix [H|H]; [exfalso; eapply Hni; eauto | now apply HI]. }
    assert (X : ext n s {| cache := cache s; calls := S (calls s); log := ev :: log s |}).
    { split; [exists [ev]; split; auto | split; [cbn; lia | auto]]. }
    destruct (xw_fault W (calls s)); inversion E; subst; split; auto.
  Qed.

  Lemma idx_n_transp ix : idx_n (transp ix) = idx_n ix.
  Proof. destruct ix as [[i j] n]. reflexivity. Qed.

  Lemma start_sval_zero d ix sv : start_sval W d ix = Some sv -> all_zero (idx_n ix) = true.
  Proof.
    unfold start_sval, x_start_index. destruct (all_zero (idx_n ix)); [auto | cbn; discriminate].
  Qed.

  Lemma mok_del n x ix' :
    ~ is_input x -> mok n (del_ alg W x ix') (fun _ => True).
  Proof.
    intros Hni stack s r s' I E _. unfold del_ in E.
    destruct (all_zero (idx_n ix')) eqn:Z.
    { inversion E; subst. split; [exact I | split; [apply ext_refl | auto]]. }
    destruct (known alg W x).
    2:{ inversion E; subst. split; [exact I | split; [apply ext_refl | intros; discriminate]]. }
    inversion E; subst. clear E.
    assert (LK : forall ck e, st_lookup (st_remove (st_remove s (TTab, KN x, ix')) (TLin, KN x, ix')) ck = Some e ->
                             ck <> (TTab, KN x, ix') /\ ck <> (TLin, KN x, ix') /\ st_lookup s ck = Some e).
    { intros ck e H. unfold st_lookup, st_remove in *. cbn [cache] in *.
      apply lookup_remove_some in H. destruct H as [N1 H].
      apply lookup_remove_some in H. destruct H as [N2 H]. auto. }
    assert (LK2 : forall ck, ck <> (TTab, KN x, ix') -> ck <> (TLin, KN x, ix') ->
                   st_lookup (st_remove (st_remove s (TTab, KN x, ix')) (TLin, KN x, ix')) ck = st_lookup s ck).
    { intros ck N1 N2. unfold st_lookup, st_remove. cbn [cache].
      rewrite lookup_remove_neq by congruence. now rewrite lookup_remove_neq by congruence. }
    destruct I as [I1 I2 I3 I4]. split; [split|split].
    - intros tb k ix0 v H. apply LK in H. eapply I1; apply H.
    - intros ck H. apply LK in H. apply I2, H.
    - intros y d ix0 sv K S. rewrite LK2; eauto.
      + intros F. inversion F; subst. apply start_sval_zero in S. congruence.
      + intros F. discriminate.
    - intros nf. destruct (I4 nf) as [ND HI]. cbn [log st_remove]. split; auto.
      intros y ix0 H. destruct (HI _ _ H) as [Hy Hl]. split; auto.
      rewrite LK2; auto; intros F; inversion F; subst; contradiction.
    - split; [exists []; split; auto|]. split; [cbn; lia|].
      intros y ix0 v Hy H. rewrite LK2; auto; intros F; inversion F; subst; contradiction.
    - auto.
  Qed.

  (* ------------------------------------------------------- expressions of the target *)

  Definition td_ok (td : list (string * bool * etype)) : Prop :=
    Forall (fun x => ~ is_input (fst (fst x))) td.

  (** the target program consists of bodies built by [cline] whose deletions never name an
      input (true of [compile alg], see DSL/CompileProps.v) *)
  Hypothesis Hprog : forall x d, kind_of alg inputs x = KSeries d ->
      exists td, td_ok td /\ find_body x prog = Some (flat_map (cline (sname d) td) (sbody d)).

  (** validity of the Hermitian shortcuts, in the sense of the specification: for a product
      declared [hermitian], (low) a lower-triangle element is the adjoint of (anything equal
      to) the transposed one, (diag) on diagonal blocks of a two-factor product the half-sum of
      product_by_order equals the full sum.  DSL/HermValid.v derives both from "the second
      factor is the adjoint series of the first". *)
  Hypothesis Hlow : forall s p i j n,
      kind_of alg inputs s = KProduct p -> pherm p = true -> j < i -> wf_index W (i, j, n) = true ->
      forall x : V, (forall fu' w', spec fu' (KN s) (j, i, n) = Some w' -> x == w') ->
      forall fu w, spec fu (KN s) (i, j, n) = Some w -> vadj O x == w.
  Hypothesis Hdiag : forall s p i n fu w,
      kind_of alg inputs s = KProduct p -> pherm p = true -> length (pfactors p) = 2 ->
      wf_index W (i, i, n) = true ->
      iprod_gen O SW (spec fu) (i, i, n) false (first_key p 2) (second_key p 2) = Some w ->
      forall fu' w', iprod_gen O SW (spec fu') (i, i, n) true (first_key p 2) (second_key p 2) = Some w' ->
                     w' == w.

  Definition getter_ok (g : getter V) : Prop :=
    forall tb k ix, mok (idx_n ix) (g tb k ix) (fun v => agrees v k ix).

  Section WithRec.
    Variable rec : getter V.
    Hypothesis Hrec : getter_ok rec.

    Section Body.
    Variable which : tbl.
    Variable idx : index.
    Notation n := (idx_n idx).

    Definition hden (fu : nat) (f : string) (h : handle V) : option V :=
      match h with
      | HVal v => Some (den O v)
      | HSeries s => iseries_arg O SW (spec fu) idx f s
      end.

    Fixpoint hden_all (fu : nat) (f : string) (hs : list (handle V)) : option (list V) :=
      match hs with
      | [] => Some []
      | h :: r => obind (hden fu f h) (fun x => obind (hden_all fu f r) (fun xs => Some (x :: xs)))
      end.

    Lemma deref_ok f h :
      mok n (deref W rec which idx f h) (fun v => forall fu w, hden fu f h = Some w -> den O v == w).
    Proof.
      pose proof (vl_equiv L) as EQ.
      destruct h as [s|v]; cbn [deref].
      - destruct (xw_access W f idx) eqn:A.
        + eapply mok_weaken; [apply Hrec|]. intros v Hv fu w E. cbn [hden] in E.
          unfold iseries_arg in E. cbn [sw_access SW] in E. rewrite A in E. now apply (Hv fu).
        + apply mok_ret. intros fu w E. cbn [hden] in E. unfold iseries_arg in E.
          cbn [sw_access SW] in E. rewrite A in E. inversion E; subst. reflexivity.
      - apply mok_ret. intros fu w E. cbn in E. inversion E; subst. reflexivity.
    Qed.

    Lemma deref_all_ok f hs :
      mok n (deref_all W rec which idx f hs)
          (fun vs => forall fu ws, hden_all fu f hs = Some ws -> Forall2 eqv (map (den O) vs) ws).
    Proof.
      induction hs as [|h r IH]; cbn [deref_all].
      - apply mok_ret. intros fu ws E. inversion E; subst. constructor.
      - eapply mok_bind; [apply deref_ok|]. intros v Hv.
        eapply mok_bind; [apply IH|]. intros vs Hvs.
        apply mok_ret. intros fu ws E. cbn [hden_all] in E.
        destruct (hden fu f h) as [x|] eqn:Ex; cbn in E; [|discriminate].
        destruct (hden_all fu f r) as [xs|] eqn:Exs; cbn in E; [|discriminate].
        inversion E; subst. cbn. constructor; eauto.
    Qed.

    Lemma call_fn_ok f hs :
      mok n (call_fn W rec which idx f hs)
          (fun v => forall fu ws, hden_all fu f hs = Some ws -> den O v == sfn f ws idx).
    Proof.
      pose proof (vl_equiv L) as EQ.
      unfold call_fn.
      eapply mok_bind with (P := fun _ => True).
      { destruct (xw_counted W f).
        - apply mok_tick; [apply ole_refl | intros; discriminate].
        - now apply mok_ret. }
      intros _ _. eapply mok_bind; [apply deref_all_ok|]. intros vs Hvs.
      apply mok_lift. intros r Er fu ws E.
      rewrite (fn_tie _ _ _ Er). apply sfn_proper. eauto.
    Qed.

    Definition texpr_post (racc : V) (t : texpr) (v : sval V) : Prop :=
      forall fu w, tden O SW (spec fu) idx racc t = Some w -> den O v == w.

    Lemma eval_texpr_ok t :
      forall result racc, den O result == racc ->
        mok n (eval_texpr O alg W rec which idx result t) (texpr_post racc t).
    Proof.
      pose proof (vl_equiv L) as EQ.
      induction t using texpr_ind'; intros result racc HR; cbn [eval_texpr].
      - apply mok_ret. intros fu w E. cbn in E. inversion E; subst. exact HR.
      - apply mok_ret. intros fu w E. cbn in E. inversion E; subst. reflexivity.
      - destruct (known alg W s); [|apply mok_raise].
        eapply mok_weaken.
        + eapply mok_mono; [|apply Hrec]. destruct tr; [rewrite idx_n_transp|]; apply ole_refl.
        + intros v Hv fu w E. cbn in E. now apply (Hv fu).
      - eapply mok_bind; [apply IHt; eauto|]. intros v Hv. apply mok_lift. intros z Ez fu w E.
        cbn [tden] in E. destruct (tden O SW (spec fu) idx racc t) as [y|] eqn:Ey; cbn in E; [|discriminate].
        inversion E; subst. rewrite (den_sdagger L _ Ez). now rewrite (Hv fu y Ey).
      - eapply mok_bind; [apply IHt; eauto|]. intros v Hv. apply mok_lift. intros z Ez fu w E.
        cbn [tden] in E. destruct (tden O SW (spec fu) idx racc t) as [y|] eqn:Ey; cbn in E; [|discriminate].
        inversion E; subst. rewrite (den_sneg L _ Ez). now rewrite (Hv fu y Ey).
      - (* _zero_sum *)
        eapply mok_bind with
          (P := fun vs => forall fu ws, tden_list O SW (spec fu) idx racc l = Some ws -> Forall2 eqv (map (den O) vs) ws).
        + induction H as [|a r Ha Hr IH].
          * apply mok_ret. intros fu ws E. inversion E; subst. constructor.
          * eapply mok_bind; [apply Ha; eauto|]. intros v Hv.
            eapply mok_bind; [apply IH|]. intros vs Hvs. apply mok_ret. intros fu ws E.
            cbn [tden_list] in E.
            destruct (tden O SW (spec fu) idx racc a) as [x|] eqn:Ex; cbn in E; [|discriminate].
            destruct (tden_list O SW (spec fu) idx racc r) as [xs|] eqn:Exs; cbn in E; [|discriminate].
            inversion E; subst. cbn. constructor; [apply (Hv fu); auto | eauto].
        + intros vs Hvs. apply mok_lift. intros z Ez fu w E. rewrite tden_zsum in E.
          destruct (tden_list O SW (spec fu) idx racc l) as [ws|] eqn:Ews; cbn in E; [|discriminate].
          inversion E; subst. rewrite (den_szero_sum L _ Ez). apply (vsum_proper L). eauto.
      - eapply mok_bind; [apply IHt; eauto|]. intros v Hv. apply mok_lift. intros z Ez fu w E.
        cbn [tden] in E. destruct (tden O SW (spec fu) idx racc t) as [y|] eqn:Ey; cbn in E; [|discriminate].
        inversion E; subst. rewrite (den_sdivide L _ _ Ez). apply (l_div_proper L k). now apply (Hv fu).
      - (* call *)
        eapply mok_bind with
          (P := fun hs => forall fu ws, tden_args O SW (spec fu) idx racc f args = Some ws ->
                            exists ws', hden_all fu f hs = Some ws' /\ Forall2 eqv ws' ws).
        + induction H as [|a r Ha Hr IH].
          * apply mok_ret. intros fu ws E. inversion E; subst. exists []. split; auto.
          * destruct a as [s|a].
            -- destruct (known alg W s); [|apply mok_raise].
               eapply mok_bind; [apply IH|]. intros hs Hhs. apply mok_ret. intros fu ws E.
               cbn [tden_args tden_arg] in E.
               destruct (iseries_arg O SW (spec fu) idx f s) as [x|] eqn:Ex; cbn in E; [|discriminate].
               destruct (tden_args O SW (spec fu) idx racc f r) as [xs|] eqn:Exs; cbn in E; [|discriminate].
               inversion E; subst. destruct (Hhs _ _ Exs) as (xs' & E' & F').
               exists (x :: xs'). cbn [hden_all hden]. rewrite Ex. cbn. rewrite E'. cbn. split; auto.
               constructor; auto. reflexivity.
            -- cbn [targP] in Ha. eapply mok_bind; [apply Ha; eauto|]. intros v Hv.
               eapply mok_bind; [apply IH|]. intros hs Hhs. apply mok_ret. intros fu ws E.
               cbn [tden_args tden_arg] in E.
               destruct (tden O SW (spec fu) idx racc a) as [x|] eqn:Ex; cbn in E; [|discriminate].
               destruct (tden_args O SW (spec fu) idx racc f r) as [xs|] eqn:Exs; cbn in E; [|discriminate].
               inversion E; subst. destruct (Hhs _ _ Exs) as (xs' & E' & F').
               exists (den O v :: xs'). cbn [hden_all hden]. cbn. rewrite E'. cbn. split; auto.
               constructor; auto. now apply (Hv fu).
        + intros hs Hhs. eapply mok_weaken; [apply call_fn_ok|]. intros v Hv fu w E.
          rewrite tden_call in E.
          destruct (tden_args O SW (spec fu) idx racc f args) as [ws|] eqn:Ews; cbn in E; [|discriminate].
          inversion E; subst. destruct (Hhs _ _ Ews) as (ws' & E' & F').
          rewrite (Hv _ _ E'). cbn [sw_fn SW]. now apply sfn_proper.
      - destruct (xflag W c idx) eqn:F.
        + eapply mok_weaken; [apply IHt1; eauto|]. intros v Hv fu w E. cbn [tden] in E.
          replace (flag_value SW c idx) with (xflag W c idx) in E by (destruct c; reflexivity).
          rewrite F in E. now apply (Hv fu).
        + eapply mok_weaken; [apply IHt2; eauto|]. intros v Hv fu w E. cbn [tden] in E.
          replace (flag_value SW c idx) with (xflag W c idx) in E by (destruct c; reflexivity).
          rewrite F in E. now apply (Hv fu).
    Qed.

    (* ------------------------------------------------------------ statements *)

    Lemma td_ok_dels td et : td_ok td -> Forall (fun s => match s with TDel x _ => ~ is_input x | _ => True end) (dels td et).
    Proof.
      unfold dels, td_ok. intros H. induction td as [|x r IH]; cbn; auto.
      inversion H; subst. destruct (etype_eqb (snd x) et); cbn; auto.
    Qed.

    Lemma simples_dels_ok ds tail result (Q : sval V * bool -> Prop) :
      Forall (fun s => match s with TDel x _ => ~ is_input x | _ => False end) ds ->
      mok n (exec_simples O alg W rec which idx tail result) Q ->
      mok n (exec_simples O alg W rec which idx (ds ++ tail) result) Q.
    Proof.
      intros H Ht. induction H as [|d r Hd Hr IH]; cbn [app]; auto.
      destruct d; try contradiction. cbn [exec_simples].
      eapply mok_bind; [apply mok_del; exact Hd|]. intros _ _. exact IH.
    Qed.

    Lemma dels_are_dels td et : td_ok td ->
      Forall (fun s => match s with TDel x _ => ~ is_input x | _ => False end) (dels td et).
    Proof.
      unfold dels, td_ok. intros H. induction td as [|x r IH]; cbn; auto.
      inversion H; subst. destruct (etype_eqb (snd x) et); cbn; auto.
    Qed.

    (** [result = e ; del_... ] inside an [if] *)
    Lemma simples_assign_ok t td et result (P : sval V -> Prop) tail (b : bool) :
      td_ok td ->
      (tail = [] /\ b = false \/ tail = [TReturn] /\ b = true) ->
      mok n (eval_texpr O alg W rec which idx result t) P ->
      mok n (exec_simples O alg W rec which idx (TAssign t :: dels td et ++ tail) result)
          (fun x => P (fst x) /\ snd x = b).
    Proof.
      intros Htd Htail Ht. cbn [exec_simples].
      eapply mok_bind; [exact Ht|]. intros v Hv.
      apply simples_dels_ok; [now apply dels_are_dels|].
      destruct Htail as [[-> ->]|[-> ->]]; cbn [exec_simples]; apply mok_ret; auto.
    Qed.

    Lemma stmts_dels_ok ds more result (Q : sval V -> Prop) :
      Forall (fun s => match s with TDel x _ => ~ is_input x | _ => False end) ds ->
      mok n (exec_stmts O alg W rec which idx more result) Q ->
      mok n (exec_stmts O alg W rec which idx (map TS ds ++ more) result) Q.
    Proof.
      intros H Hm. induction H as [|d r Hd Hr IH]; cbn [app map]; auto.
      destruct d; try contradiction. cbn [exec_stmts exec_simples].
      eapply mok_bind with (P := fun x => x = (result, false)).
      - eapply mok_bind; [apply mok_del; exact Hd|]. intros _ _. now apply mok_ret.
      - intros x ->. cbn [snd fst]. exact IH.
    Qed.

    Lemma stmts_assign_ok t more result (P Q : sval V -> Prop) :
      mok n (eval_texpr O alg W rec which idx result t) P ->
      (forall v, P v -> mok n (exec_stmts O alg W rec which idx more v) Q) ->
      mok n (exec_stmts O alg W rec which idx (TS (TAssign t) :: more) result) Q.
    Proof.
      intros Ht Hm. cbn [exec_stmts exec_simples].
      eapply mok_bind with (P := fun x => P (fst x) /\ snd x = false).
      - eapply mok_bind; [exact Ht|]. intros v Hv. apply mok_ret. auto.
      - intros [v b] [Hv Hb]. cbn [fst snd] in *. subst b. now apply Hm.
    Qed.

    Lemma stmts_if_ok t body more result (P Q : sval V -> Prop) (b : bool) :
      test_holds W idx t = true ->
      mok n (exec_simples O alg W rec which idx body result) (fun x => P (fst x) /\ snd x = b) ->
      (forall v, P v -> if b then Q v else mok n (exec_stmts O alg W rec which idx more v) Q) ->
      mok n (exec_stmts O alg W rec which idx (TIf t body :: more) result) Q.
    Proof.
      intros Ht Hb Hm. cbn [exec_stmts]. rewrite Ht.
      eapply mok_bind; [exact Hb|]. intros [v b'] [Hv Hb']. cbn [fst snd] in *. subst b'.
      specialize (Hm v Hv). destruct b; [now apply mok_ret | exact Hm].
    Qed.

    Lemma stmts_if_skip t body more result (Q : sval V -> Prop) :
      test_holds W idx t = false ->
      mok n (exec_stmts O alg W rec which idx more result) Q ->
      mok n (exec_stmts O alg W rec which idx (TIf t body :: more) result) Q.
    Proof. intros Ht Hm. cbn [exec_stmts]. now rewrite Ht. Qed.

    Definition body_post (name : string) (lines : list line) (result v : sval V) : Prop :=
      forall fu racc w, den O result == racc ->
        ibody O SW (spec fu) idx name lines racc = Some w -> den O v == w.

    Lemma lines_ok name td lines :
      td_ok td ->
      forall result,
        mok n (exec_stmts O alg W rec which idx (flat_map (cline name td) lines) result)
            (body_post name lines result).
    Proof.
      pose proof (vl_equiv L) as EQ.
      intros Htd. induction lines as [|l r IH]; intros result; cbn [flat_map].
      - cbn [exec_stmts]. apply mok_ret. intros fu racc w HR E. cbn in E. inversion E; subst. exact HR.
      - destruct l as [c e|h].
        + destruct c; cbn [cline].
          * (* default *)
            cbn [map app]. try rewrite <- app_comm_cons.
            eapply stmts_assign_ok; [apply eval_texpr_ok; reflexivity|].
            intros v Hv. apply stmts_dels_ok; [now apply dels_are_dels|].
            eapply mok_weaken; [apply IH|]. intros v' Hv' fu racc w HR E. cbn [ibody] in E.
            destruct (iexpr O SW (spec fu) idx e) as [x|] eqn:Ex; cbn in E; [|discriminate].
            apply (Hv' fu (vadd O racc x) w); [|exact E].
            destruct (ctop_sound L SW (spec fu) idx sfn_proper (den O result) e Ex) as (y & Ey & Hy).
            rewrite (Hv fu y Ey), Hy, HR. reflexivity.
          * (* diagonal *)
            cbn [app]. destruct (Nat.eqb (idx_i idx) (idx_j idx)) eqn:D.
            -- eapply stmts_if_ok with (b := false) (P := texpr_post (den O result) _).
               ++ exact D.
               ++ rewrite <- (app_nil_r (dels td ETDiag)).
                  apply simples_assign_ok; auto. apply eval_texpr_ok. reflexivity.
               ++ intros v Hv. eapply mok_weaken; [apply IH|]. intros v' Hv' fu racc w HR E.
                  cbn [ibody] in E. rewrite D in E.
                  destruct (iwrapped O SW (spec fu) idx "diag" e) as [x|] eqn:Ex; cbn in E; [|discriminate].
                  apply (Hv' fu (vadd O racc x) w); [|exact E].
                  apply Nat.eqb_eq in D.
                  destruct (cwrap_sound L SW (spec fu) idx sfn_proper (den O result) (dg := true) "diag" e (fun _ => D) Ex) as (y & Ey & Hy).
                  rewrite (Hv fu y Ey), Hy, HR. reflexivity.
            -- apply stmts_if_skip; [exact D|].
               eapply mok_weaken; [apply IH|]. intros v' Hv' fu racc w HR E.
               cbn [ibody] in E. rewrite D in E. eauto.
          * (* offdiagonal *)
            cbn [app]. destruct (Nat.eqb (idx_i idx) (idx_j idx)) eqn:D.
            -- apply stmts_if_skip; [cbn; now rewrite D|].
               destruct (xw_hasoff W) eqn:HO.
               ++ eapply stmts_if_ok with (b := false) (P := texpr_post (den O result) _).
                  ** cbn. now rewrite HO, D.
                  ** rewrite <- (app_nil_r (dels td ETOffdiag)).
                     apply simples_assign_ok; auto. apply eval_texpr_ok. reflexivity.
                  ** intros v Hv. eapply mok_weaken; [apply IH|]. intros v' Hv' fu racc w HR E.
                     cbn [ibody] in E. rewrite D in E. cbn [negb] in E. cbn [sw_hasoff SW] in E. rewrite HO in E.
                     destruct (iwrapped O SW (spec fu) idx "offdiag" e) as [x|] eqn:Ex; cbn in E; [|discriminate].
                     apply (Hv' fu (vadd O racc x) w); [|exact E].
                     destruct (cwrap_sound L SW (spec fu) idx sfn_proper (den O result) (dg := false) "offdiag" e ltac:(discriminate) Ex) as (y & Ey & Hy).
                     rewrite (Hv fu y Ey), Hy, HR. reflexivity.
               ++ apply stmts_if_skip; [cbn; now rewrite HO|].
                  eapply mok_weaken; [apply IH|]. intros v' Hv' fu racc w HR E.
                  cbn [ibody] in E. rewrite D in E. cbn [negb] in E. cbn [sw_hasoff SW] in E. rewrite HO in E. eauto.
            -- eapply stmts_if_ok with (b := false) (P := texpr_post (den O result) _).
               ++ cbn. now rewrite D.
               ++ rewrite <- (app_nil_r (dels td ETOffdiag)).
                  apply simples_assign_ok; auto. apply eval_texpr_ok. reflexivity.
               ++ intros v Hv. apply stmts_if_skip; [cbn; rewrite D; now destruct (xw_hasoff W)|].
                  eapply mok_weaken; [apply IH|]. intros v' Hv' fu racc w HR E.
                  cbn [ibody] in E. rewrite D in E. cbn [negb] in E.
                  destruct (iexpr O SW (spec fu) idx e) as [x|] eqn:Ex; cbn in E; [|discriminate].
                  apply (Hv' fu (vadd O racc x) w); [|exact E].
                  destruct (ctop_sound L SW (spec fu) idx sfn_proper (den O result) e Ex) as (y & Ey & Hy).
                  rewrite (Hv fu y Ey), Hy, HR. reflexivity.
        + (* marker *)
          cbn [cline app]. destruct (Nat.ltb (idx_j idx) (idx_i idx)) eqn:Lw.
          * eapply stmts_if_ok with (b := true) (P := texpr_post (den O result) _).
            -- exact Lw.
            -- apply simples_assign_ok; auto. apply eval_texpr_ok. reflexivity.
            -- intros v Hv fu racc w HR E. cbn [ibody] in E. rewrite Lw in E.
               destruct (spec fu (KN name) (transp idx)) as [a|] eqn:Ea; cbn in E; [|discriminate].
               inversion E; subst.
               destruct (cmarker_sound L SW (spec fu) idx (den O result) name h Ea) as (y & Ey & Hy).
               rewrite <- HR, <- Hy. apply (Hv fu). destruct h; exact Ey.
          * apply stmts_if_skip; [exact Lw|].
            eapply mok_weaken; [apply IH|]. intros v' Hv' fu racc w HR E.
            cbn [ibody] in E. rewrite Lw in E. eauto.
    Qed.
    End Body.

    (* ------------------------------------------------------------------ products *)

    Local Notation "a + b" := (vadd O a b).
    Local Notation "a * b" := (vmul O a b).
    Local Notation vz := (v0 O).

    Definition contrib (r : option V) : V := match r with None => vz | Some t => t end.

    Lemma lazy_term_char c (fa fb : unit -> option V) r :
      lazy_term O c fa fb = Some r ->
      match fa tt, fb tt with
      | Some a, Some b => contrib r == a * b
      | Some a, None => a == vz /\ contrib r == vz
      | None, Some b => b == vz /\ contrib r == vz
      | None, None => False
      end.
    Proof.
      pose proof (vl_equiv L) as EQ.
      unfold lazy_term. destruct c.
      - destruct (fa tt) as [a|]; [destruct (vis0 O a) eqn:Z|].
        + intros E. inversion E; subst. apply (l_is0 L) in Z.
          destruct (fb tt); cbn; [rewrite Z; symmetry; apply (l_mul_0_l L) | split; [auto|reflexivity]].
        + destruct (fb tt); intros E; inversion E; subst. cbn. reflexivity.
        + destruct (fb tt) as [b|]; [|discriminate]. destruct (vis0 O b) eqn:Z; [|discriminate].
          intros E. inversion E; subst. apply (l_is0 L) in Z. split; [auto | reflexivity].
      - destruct (fb tt) as [b|]; [destruct (vis0 O b) eqn:Z|].
        + intros E. inversion E; subst. apply (l_is0 L) in Z.
          destruct (fa tt); cbn; [rewrite Z; symmetry; apply (l_mul_0_r L) | split; [auto|reflexivity]].
        + destruct (fa tt); intros E; inversion E; subst. cbn. reflexivity.
        + destruct (fa tt) as [a|]; [|discriminate]. destruct (vis0 O a) eqn:Z; [|discriminate].
          intros E. inversion E; subst. apply (l_is0 L) in Z. split; [auto | reflexivity].
    Qed.

    Definition racc_next (hp : bool) (racc : V) (r : option V) : V :=
      match r with
      | None => racc
      | Some t => if hp then (racc + t) + vadj O t else racc + t
      end.

    Lemma racc_next_zero hp racc r : contrib r == vz -> racc_next hp racc r == racc.
    Proof.
      pose proof (vl_equiv L) as EQ.
      destruct r as [t|]; cbn; intros Z; [|reflexivity].
      destruct hp; rewrite Z, ?(l_adj_0 L), ?(add_0_r L); reflexivity.
    Qed.

    Lemma racc_next_val (hp : bool) racc r x a :
      x == contrib r -> a == racc ->
      (if hp then (a + x) + vadj O x else a + x) == racc_next hp racc r.
    Proof.
      pose proof (vl_equiv L) as EQ.
      intros Hx Ha. destruct r as [t|]; cbn in *.
      - destruct hp; rewrite Hx, Ha; reflexivity.
      - destruct hp; rewrite Hx, Ha, ?(l_adj_0 L), ?(add_0_r L); reflexivity.
    Qed.

    Lemma mk_term_ok n idx a b :
      ole (idx_n idx) n -> is_zero a = false -> is_zero b = false ->
      mok n (mk_term O W idx a b) (fun t => den O t == den O a * den O b).
    Proof.
      pose proof (vl_equiv L) as EQ.
      intros Hn Za Zb. destruct a, b; try discriminate; cbn [mk_term].
      - apply mok_ret. cbn. symmetry. apply (l_mul_1_l L).
      - apply mok_ret. cbn. symmetry. apply (l_mul_1_l L).
      - apply mok_ret. cbn. symmetry. apply (l_mul_1_r L).
      - eapply mok_bind with (P := fun _ => True).
        + apply mok_tick; [exact Hn | intros; discriminate].
        + intros _ _. apply mok_ret. reflexivity.
    Qed.

    Lemma accumulate_ok n hp acc t :
      mok n (accumulate O hp acc t)
          (fun a => a = a /\ den O a == if hp then (den O acc + den O t) + vadj O (den O t) else den O acc + den O t).
    Proof.
      pose proof (vl_equiv L) as EQ.
      unfold accumulate. destruct hp.
      - eapply mok_bind; [apply mok_lift; intros x Ex; exact (den_sadd L _ _ Ex)|]. intros x Hx.
        eapply mok_bind; [apply mok_lift; intros d Ed; exact (den_sdagger L _ Ed)|]. intros d Hd.
        apply mok_lift. intros z Ez. split; auto. rewrite (den_sadd L _ _ Ez), Hx, Hd. reflexivity.
      - apply mok_lift. intros z Ez. split; auto. exact (den_sadd L _ _ Ez).
    Qed.

    Definition pair_ok (n : list nat) (p : nat * list nat) : Prop :=
      ole (snd p) n /\ ole (lsub n (snd p)) n.

    Definition loop_post (half : bool) (idx : index) (k1 k2 : key) (l : list (nat * list nat))
               (acc v : sval V) : Prop :=
      forall fu racc w, den O acc == racc ->
        iprod_loop O (spec fu) idx half k1 k2 l racc = Some w -> den O v == w.

    Lemma pbo_loop_ok tb k1 k2 half idx l :
      Forall (pair_ok (idx_n idx)) l ->
      forall acc,
        mok (idx_n idx) (pbo_loop O W rec tb k1 k2 half idx l acc) (loop_post half idx k1 k2 l acc).
    Proof.
      pose proof (vl_equiv L) as EQ.
      intros Hl. induction Hl as [|[mid m1] r [Hm1 Hm2] Hr IH]; intros acc; cbn [pbo_loop].
      - apply mok_ret. intros fu racc w HR E. cbn in E. inversion E; subst. exact HR.
      - cbn [snd] in Hm1, Hm2.
        set (m2 := lsub (idx_n idx) m1) in *.
        set (i1 := (idx_i idx, mid, m1)). set (i2 := (mid, idx_j idx, m2)).
        destruct (half && lex_gt m1 m2) eqn:LX.
        { eapply mok_weaken; [apply IH|]. intros v Hv fu racc w HR E. cbn [iprod_loop] in E.
          fold m2 in E. rewrite LX in E. eauto. }
        (* what the specification does with this term *)
        assert (SPEC : forall fu racc w,
                   iprod_loop O (spec fu) idx half k1 k2 ((mid, m1) :: r) racc = Some w ->
                   exists r', lazy_term O (Nat.leb (cost m1) (cost m2)) (fun _ => spec fu k1 i1) (fun _ => spec fu k2 i2) = Some r'
                              /\ iprod_loop O (spec fu) idx half k1 k2 r
                                   (racc_next (half && negb (lnat_eqb m1 m2)) racc r') = Some w).
        { intros fu racc w E. cbn [iprod_loop] in E. fold m2 i1 i2 in E. rewrite LX in E.
          destruct (lazy_term O (Nat.leb (cost m1) (cost m2)) (fun _ => spec fu k1 i1) (fun _ => spec fu k2 i2)) as [r'|]; [|discriminate].
          exists r'. split; auto. destruct r' as [t|]; cbn [racc_next]; auto.
          destruct (half && negb (lnat_eqb m1 m2)); auto. }
        (* skipping the term is sound when one factor is known to be zero *)
        assert (SKIP : (agrees SZero k1 i1 \/ agrees SZero k2 i2) ->
                       forall v, loop_post half idx k1 k2 r acc v -> loop_post half idx k1 k2 ((mid, m1) :: r) acc v).
        { intros K v Hv fu racc w HR E. destruct (SPEC _ _ _ E) as (r' & Er & El).
          apply (Hv fu (racc_next (half && negb (lnat_eqb m1 m2)) racc r') w); [|exact El]. rewrite racc_next_zero; auto.
          apply lazy_term_char in Er. cbn beta in Er.
          destruct (spec fu k1 i1) as [a'|] eqn:Ea, (spec fu k2 i2) as [b'|] eqn:Eb; try tauto.
          destruct K as [K|K].
          - rewrite Er, <- (K _ _ Ea). cbn. apply (l_mul_0_l L).
          - rewrite Er, <- (K _ _ Eb). cbn. apply (l_mul_0_r L). }
        (* computing the term *)
        assert (FULL : forall a b, agrees a k1 i1 -> agrees b k2 i2 -> is_zero a = false -> is_zero b = false ->
                   mok (idx_n idx)
                       (bind (mk_term O W idx a b) (fun t =>
                          bind (accumulate O (half && negb (lnat_eqb m1 m2)) acc t) (fun acc' =>
                            pbo_loop O W rec tb k1 k2 half idx r acc')))
                       (loop_post half idx k1 k2 ((mid, m1) :: r) acc)).
        { intros a b Ha Hb Za Zb.
          eapply mok_bind; [apply mk_term_ok; auto using ole_refl|]. intros t Ht.
          eapply mok_bind; [apply accumulate_ok|]. intros acc' [_ Hacc].
          eapply mok_weaken; [apply IH|]. intros v Hv fu racc w HR E.
          destruct (SPEC _ _ _ E) as (r' & Er & El).
          apply (Hv fu (racc_next (half && negb (lnat_eqb m1 m2)) racc r') w); [|exact El]. rewrite Hacc. apply racc_next_val; auto.
          apply lazy_term_char in Er. cbn beta in Er. rewrite Ht.
          destruct (spec fu k1 i1) as [a'|] eqn:Ea, (spec fu k2 i2) as [b'|] eqn:Eb; try tauto.
          - rewrite Er, (Ha _ _ Ea), (Hb _ _ Eb). reflexivity.
          - destruct Er as [Z1 Z2]. rewrite Z2, (Ha _ _ Ea), Z1. apply (l_mul_0_l L).
          - destruct Er as [Z1 Z2]. rewrite Z2, (Hb _ _ Eb), Z1. apply (l_mul_0_r L). }
        assert (SKIPA : forall a, agrees a k1 i1 -> is_zero a = true -> agrees SZero k1 i1).
        { intros a Ha Z. destruct a; try discriminate. exact Ha. }
        assert (SKIPB : forall b, agrees b k2 i2 -> is_zero b = true -> agrees SZero k2 i2).
        { intros b Hb Z. destruct b; try discriminate. exact Hb. }
        assert (N1 : ole (idx_n i1) (idx_n idx)) by exact Hm1.
        assert (N2 : ole (idx_n i2) (idx_n idx)) by exact Hm2.
        intros stack s r0 s' I E NO.
        destruct (negb (contains tb k1 i1 s) || negb (contains tb k2 i2 s)) eqn:C.
        + (* pre-skip: an evaluated factor is the sentinel zero *)
          assert (K : agrees SZero k1 i1 \/ agrees SZero k2 i2).
          { apply orb_true_iff in C. destruct C as [C|C]; [left|right];
              unfold contains in C; apply negb_true_iff in C.
            - match type of C with context [st_lookup s ?kk] => destruct (st_lookup s kk) as [[|[| |]]|] eqn:Lk end; try discriminate C.
              eapply (inv_done I); eauto.
            - match type of C with context [st_lookup s ?kk] => destruct (st_lookup s kk) as [[|[| |]]|] eqn:Lk end; try discriminate C.
              eapply (inv_done I); eauto. }
          assert (MW : mok (idx_n idx) (pbo_loop O W rec tb k1 k2 half idx r acc) (loop_post half idx k1 k2 ((mid, m1) :: r) acc))
            by (eapply mok_weaken; [apply IH | apply SKIP; exact K]).
          eapply MW; eauto.
        + clear C. revert stack s r0 s' I E NO.
          change (mok (idx_n idx)
                    (if Nat.leb (cost m1) (cost m2)
                     then bind (rec tb k1 i1) (fun a => if is_zero a then pbo_loop O W rec tb k1 k2 half idx r acc else
                            bind (rec tb k2 i2) (fun b => if is_zero b then pbo_loop O W rec tb k1 k2 half idx r acc else
                              bind (mk_term O W idx a b) (fun t =>
                                bind (accumulate O (half && negb (lnat_eqb m1 m2)) acc t) (fun acc' =>
                                  pbo_loop O W rec tb k1 k2 half idx r acc'))))
                     else bind (rec tb k2 i2) (fun b => if is_zero b then pbo_loop O W rec tb k1 k2 half idx r acc else
                            bind (rec tb k1 i1) (fun a => if is_zero a then pbo_loop O W rec tb k1 k2 half idx r acc else
                              bind (mk_term O W idx a b) (fun t =>
                                bind (accumulate O (half && negb (lnat_eqb m1 m2)) acc t) (fun acc' =>
                                  pbo_loop O W rec tb k1 k2 half idx r acc')))))
                    (loop_post half idx k1 k2 ((mid, m1) :: r) acc)).
          destruct (Nat.leb (cost m1) (cost m2)).
          * eapply mok_bind; [eapply mok_mono; [exact N1 | apply Hrec]|]. intros a Ha.
            destruct (is_zero a) eqn:Za.
            { eapply mok_weaken; [apply IH|]. apply SKIP. left. eapply SKIPA; [exact Ha | exact Za]. }
            eapply mok_bind; [eapply mok_mono; [exact N2 | apply Hrec]|]. intros b Hb.
            destruct (is_zero b) eqn:Zb.
            { eapply mok_weaken; [apply IH|]. apply SKIP. right. eapply SKIPB; [exact Hb | exact Zb]. }
            now apply FULL.
          * eapply mok_bind; [eapply mok_mono; [exact N2 | apply Hrec]|]. intros b Hb.
            destruct (is_zero b) eqn:Zb.
            { eapply mok_weaken; [apply IH|]. apply SKIP. right. eapply SKIPB; [exact Hb | exact Zb]. }
            eapply mok_bind; [eapply mok_mono; [exact N1 | apply Hrec]|]. intros a Ha.
            destruct (is_zero a) eqn:Za.
            { eapply mok_weaken; [apply IH|]. apply SKIP. left. eapply SKIPA; [exact Ha | exact Za]. }
            now apply FULL.
    Qed.

    (* -------------------------------------------------------------- eval of each object *)

    Lemma splits_ok n m : In m (splits n) -> ole m n /\ ole (lsub n m) n.
    Proof.
      revert m. induction n as [|x r IH]; cbn [splits]; intros m H.
      - destruct H as [<-|[]]. cbn. auto.
      - apply in_flat_map in H. destruct H as (a & Ha & Hm). apply in_map_iff in Hm.
        destruct Hm as (m' & <- & Hm'). apply in_seq in Ha. destruct (IH _ Hm') as [H1 H2].
        cbn. repeat split; auto; lia.
    Qed.

    Lemma pbo_space_ok nb n : Forall (pair_ok n) (pbo_space nb n).
    Proof.
      apply Forall_forall. intros [mid m] H. unfold pbo_space in H.
      apply in_flat_map in H. destruct H as (mid' & _ & H). apply in_map_iff in H.
      destruct H as (m' & E & Hm). inversion E; subst. unfold pair_ok. cbn [snd]. now apply splits_ok.
    Qed.

    Lemma half_defined sub idx k1 k2 l racc racc' w :
      iprod_loop O sub idx false k1 k2 l racc = Some w ->
      exists w', iprod_loop O sub idx true k1 k2 l racc' = Some w'.
    Proof.
      revert racc racc'. induction l as [|[mid m1] r IH]; intros racc racc' E; cbn [iprod_loop] in *.
      - eauto.
      - cbn [andb] in E.
        destruct (true && lex_gt m1 (lsub (idx_n idx) m1)).
        + destruct (lazy_term O _ _ _) as [[t|]|]; try discriminate; eauto.
        + destruct (lazy_term O _ _ _) as [[t|]|]; try discriminate; [|eauto].
          destruct (true && negb (lnat_eqb m1 (lsub (idx_n idx) m1))); eauto.
    Qed.

    Lemma spec_start_none d idx : start_sval W d idx = None -> spec_start O SW d idx = None.
    Proof.
      unfold start_sval, spec_start.
      change (is_start_index SW idx) with (x_start_index W idx).
      destruct (x_start_index W idx); auto. cbn [sw_inputs SW].
      destruct (sstart d); auto; try discriminate.
      - destruct (Nat.eqb (idx_i idx) (idx_j idx)); auto; discriminate.
      - destruct (mem_string s inputs); auto; discriminate.
    Qed.

    Lemma pbo_ok tb k1 k2 half idx :
      mok (idx_n idx) (pbo O W rec tb k1 k2 half idx)
          (fun v => forall fu w, iprod_gen O SW (spec fu) idx half k1 k2 = Some w -> den O v == w).
    Proof.
      pose proof (vl_equiv L) as EQ.
      unfold pbo. eapply mok_weaken; [apply pbo_loop_ok, pbo_space_ok|].
      intros v Hv fu w E. unfold iprod_gen in E. cbn [sw_nb SW] in E.
      apply (Hv fu (v0 O) w); [reflexivity | exact E].
    Qed.

    Lemma eval_of_ok tb k idx :
      wf_index W idx = true ->
      (forall x d, tb = TTab -> k = KN x -> kind_of alg inputs x = KSeries d -> start_sval W d idx = None) ->
      (forall x, tb = TTab -> k = KN x -> kind_of alg inputs x <> KInput) ->
      mok (idx_n idx) (eval_of O alg prog W rec tb k idx) (fun v => agrees v k idx).
    Proof.
      pose proof (vl_equiv L) as EQ.
      intros Hwf Hst Hni. destruct k as [x|pn k']; cbn [eval_of].
      - destruct (kind_of alg inputs x) as [|d|p|] eqn:K.
        + destruct tb; [exfalso; eapply Hni; eauto | apply Hrec].
        + destruct tb; [|apply Hrec].
          unfold series_eval. destruct (@Hprog _ _ K) as (td & Htd & Fb). rewrite Fb.
          eapply mok_weaken; [apply lines_ok; exact Htd|].
          intros v Hv f w E. destruct f as [|fu]; [discriminate|]. cbn [interp] in E.
          unfold rhs in E. cbn [sw_inputs SW] in E. rewrite K in E.
          rewrite (spec_start_none _ _ (Hst _ _ eq_refl eq_refl K)) in E.
          apply (Hv fu (v0 O) w); [reflexivity | exact E].
        + destruct (Nat.leb 2 (length (pfactors p))) eqn:M; [|apply mok_raise].
          destruct (pherm p && Nat.ltb (idx_j idx) (idx_i idx)) eqn:HL.
          * apply andb_true_iff in HL. destruct HL as [HP HL]. apply Nat.ltb_lt in HL.
            eapply mok_bind.
            { eapply mok_mono; [|apply Hrec]. rewrite idx_n_transp. apply ole_refl. }
            intros v Hv. apply mok_lift. intros z Ez f w E.
            destruct idx as [[i j] n]. cbn [idx_i idx_j] in HL.
            rewrite (den_sdagger L _ Ez).
            eapply (@Hlow x p i j n K HP HL Hwf (den O v)); [|exact E].
            intros fu' w' E'. exact (Hv _ _ E').
          * destruct (pherm p && Nat.eqb (length (pfactors p)) 2 && Nat.eqb (idx_i idx) (idx_j idx)) eqn:HD.
            -- apply andb_true_iff in HD. destruct HD as [HD HI]. apply andb_true_iff in HD.
               destruct HD as [HP H2]. apply Nat.eqb_eq in H2. apply Nat.eqb_eq in HI.
               eapply mok_weaken; [apply pbo_ok|]. intros v Hv f w E.
               destruct f as [|fu]; [discriminate|]. cbn [interp] in E.
               unfold rhs in E. cbn [sw_inputs SW] in E. rewrite K, M in E. unfold iprod in E.
               destruct idx as [[i j] n]. cbn [idx_i idx_j fst snd] in HI. cbn in HI. subst j. rewrite H2 in *.
               assert (exists w', iprod_gen O SW (spec fu) (i, i, n) true (first_key p 2) (second_key p 2) = Some w') as (w' & E').
               { unfold iprod_gen in *. eapply half_defined; eauto. }
               rewrite (Hv _ _ E'). eapply Hdiag; eauto.
            -- eapply mok_weaken; [apply pbo_ok|]. intros v Hv f w E.
               destruct f as [|fu]; [discriminate|]. cbn [interp] in E.
               unfold rhs in E. cbn [sw_inputs SW] in E. rewrite K, M in E. unfold iprod in E. eauto.
        + apply mok_raise.
      - destruct (find_pdef pn (aproducts alg)) as [p|] eqn:F; [|apply mok_raise].
        destruct (Nat.leb 2 k' && Nat.ltb k' (length (pfactors p))) eqn:B; [|apply mok_raise].
        eapply mok_weaken; [apply pbo_ok|]. intros v Hv f w E.
        destruct f as [|fu]; [discriminate|]. cbn [interp] in E. unfold rhs in E. rewrite F, B in E.
        unfold iprod in E. eauto.
    Qed.
  End WithRec.

  (* ------------------------------------------------------------- __getitem__ *)

  Lemma st_lookup_store_eq (s : st) ck e : st_lookup (st_store s ck e) ck = Some e.
  Proof. unfold st_lookup, st_store. cbn [cache]. apply lookup_cons_eq. Qed.

  Lemma st_lookup_store_neq (s : st) ck ck' e : ck <> ck' -> st_lookup (st_store s ck e) ck' = st_lookup s ck'.
  Proof. unfold st_lookup, st_store. cbn [cache]. apply lookup_cons_neq. Qed.

  Lemma st_lookup_remove_some (s : st) ck ck' e :
    st_lookup (st_remove s ck) ck' = Some e -> ck <> ck' /\ st_lookup s ck' = Some e.
  Proof. unfold st_lookup, st_remove. cbn [cache]. apply lookup_remove_some. Qed.

  Lemma st_lookup_remove_neq (s : st) ck ck' : ck <> ck' -> st_lookup (st_remove s ck) ck' = st_lookup s ck'.
  Proof. unfold st_lookup, st_remove. cbn [cache]. apply lookup_remove_neq. Qed.

  Lemma ckey_dec (a b : ckey) : a = b \/ a <> b.
  Proof. destruct (ckey_eqb a b) eqn:E; [left; now apply ckey_eqb_eq | right; now apply ckey_eqb_neq]. Qed.

  Definition not_start (ck : ckey) : Prop :=
    forall x d ix sv, ck = (TTab, KN x, ix) -> kind_of alg inputs x = KSeries d ->
                      start_sval W d ix = Some sv -> False.

  Lemma miss_not_start stack (s : st) ck : Inv stack s -> st_lookup s ck = None -> not_start ck.
  Proof.
    intros I N x d ix sv -> K S. rewrite (inv_start I _ _ K S) in N. discriminate.
  Qed.

  (** pushing a frame *)
  Lemma Inv_push stack (s : st) ck :
    Inv stack s -> st_lookup s ck = None -> Inv (ck :: stack) (st_store s ck Pending).
  Proof.
    intros I N. pose proof (@miss_not_start _ _ _ I N) as NS. destruct I as [I1 I2 I3 I4]. split.
    - intros tb k ix v H. destruct (ckey_dec ck (tb, k, ix)) as [E0|D].
      + subst ck. rewrite st_lookup_store_eq in H. discriminate.
      + rewrite st_lookup_store_neq in H by auto. eauto.
    - intros ck' H. destruct (ckey_dec ck ck') as [<-|D]; [now left|].
      rewrite st_lookup_store_neq in H by auto. right. auto.
    - intros x d ix sv K S. destruct (ckey_dec ck (TTab, KN x, ix)) as [->|D].
      + exfalso. eapply NS; eauto.
      + rewrite st_lookup_store_neq by auto. eauto.
    - intros nf. destruct (I4 nf) as [ND HI]. cbn [log st_store]. split; auto.
      intros x ix H. destruct (HI _ _ H) as [Hx Hl]. split; auto.
      destruct (ckey_dec ck (TTab, KN x, ix)) as [<-|D].
      + rewrite st_lookup_store_eq. discriminate.
      + now rewrite st_lookup_store_neq by auto.
  Qed.

  (** popping it with a value *)
  Lemma Inv_pop_done stack (s : st) tb k ix v :
    Inv ((tb, k, ix) :: stack) s -> not_start (tb, k, ix) -> agrees v k ix ->
    Inv stack (st_store s (tb, k, ix) (Done v)).
  Proof.
    intros [I1 I2 I3 I4] NS A. set (ck := (tb, k, ix)) in *. split.
    - intros tb' k' ix' v' H. destruct (ckey_dec ck (tb', k', ix')) as [D|D].
      + rewrite <- D in H. rewrite st_lookup_store_eq in H. inversion H; subst. inversion D; subst. exact A.
      + rewrite st_lookup_store_neq in H by auto. eauto.
    - intros ck' H. destruct (ckey_dec ck ck') as [<-|D].
      + rewrite st_lookup_store_eq in H. discriminate.
      + rewrite st_lookup_store_neq in H by auto. destruct (I2 _ H) as [E|E]; [congruence | exact E].
    - intros x d ix' sv K S. destruct (ckey_dec ck (TTab, KN x, ix')) as [D|D].
      + exfalso. eapply NS; eauto.
      + rewrite st_lookup_store_neq by auto. eauto.
    - intros nf. destruct (I4 nf) as [ND HI]. cbn [log st_store]. split; auto.
      intros x ix' H. destruct (HI _ _ H) as [Hx Hl]. split; auto.
      destruct (ckey_dec ck (TTab, KN x, ix')) as [<-|D].
      + rewrite st_lookup_store_eq. discriminate.
      + now rewrite st_lookup_store_neq by auto.
  Qed.

  (** popping it with an exception *)
  Lemma Inv_pop_raise stack (s : st) ck :
    Inv (ck :: stack) s -> not_start ck ->
    (NF -> forall x ix, In (EvInput x ix) (log s) -> ck <> (TTab, KN x, ix)) ->
    Inv stack (st_remove s ck).
  Proof.
    intros [I1 I2 I3 I4] NS NE. split.
    - intros tb' k' ix' v' H. apply st_lookup_remove_some in H. destruct H. eauto.
    - intros ck' H. apply st_lookup_remove_some in H. destruct H as [D H].
      destruct (I2 _ H) as [E|E]; [congruence | exact E].
    - intros x d ix' sv K S. rewrite st_lookup_remove_neq; [eauto|].
      intros D. eapply NS; eauto.
    - intros nf. destruct (I4 nf) as [ND HI]. cbn [log st_remove]. split; auto.
      intros x ix' H. destruct (HI _ _ H) as [Hx Hl]. split; auto.
      rewrite st_lookup_remove_neq; [auto|]. now apply NE.
  Qed.

  Lemma ext_frame n (s s2 s' : st) ck :
    st_lookup s ck = None -> ext n (st_store s ck Pending) s2 ->
    (exists e, s' = st_store s2 ck e) \/ s' = st_remove s2 ck ->
    ext n s s'.
  Proof.
    intros N ((l & El & Fl) & C & P) Hs'.
    assert (log s' = log s2 /\ calls s' = calls s2 /\
            forall ck', ck' <> ck -> st_lookup s' ck' = st_lookup s2 ck') as (E1 & E2 & E3).
    { destruct Hs' as [[e ->]| ->]; cbn [log calls st_store st_remove]; repeat split; auto; intros ck' D.
      - apply st_lookup_store_neq. congruence.
      - apply st_lookup_remove_neq. congruence. }
    split; [exists l; rewrite E1, El; split; auto|]. split; [rewrite E2; cbn in C; exact C|].
    intros x ix v Hx H. assert (D : (TTab, KN x, ix) <> ck) by (intros F; rewrite F, N in H; discriminate).
    rewrite E3 by exact D. apply P; auto. rewrite st_lookup_store_neq by congruence. exact H.
  Qed.

  Lemma getitem_step_ok rec : getter_ok rec -> getter_ok (getitem_step O alg prog W rec).
  Proof.
    pose proof (vl_equiv L) as EQ.
    intros Hrec tb k ix stack s r s' I E NO. unfold getitem_step in E.
    destruct (wf_index W ix) eqn:Hwf; cbn [negb] in E.
    2:{ inversion E; subst. split; [exact I | split; [apply ext_refl | intros; discriminate]]. }
    destruct (st_lookup s (tb, k, ix)) as [[|v]|] eqn:Lk.
    - inversion E; subst. split; [exact I | split; [apply ext_refl | intros; discriminate]].
    - inversion E; subst. split; [exact I | split; [apply ext_refl|]].
      intros a Ea. inversion Ea; subst. eapply (inv_done I); eauto.
    - pose proof (@Inv_push _ _ _ I Lk) as I1. pose proof (@miss_not_start _ _ _ I Lk) as NS.
      set (ck := (tb, k, ix)) in *. set (s1 := st_store s ck Pending) in *.
      (* is this the evaluation of an input element by the user's eval? *)
      assert (CASES : (exists x, tb = TTab /\ k = KN x /\ is_input x) \/
                      (forall x, tb = TTab -> k = KN x -> kind_of alg inputs x <> KInput)).
      { destruct tb; [|right; intros; discriminate]. destruct k as [x|]; [|right; intros; discriminate].
        destruct (kind_of alg inputs x) eqn:K; try (right; intros y _ Ey; inversion Ey; subst; rewrite K; discriminate).
        left. eauto. }
      destruct CASES as [(x & -> & -> & Hx)|Hni].
      + (* input element: user callback *)
        cbn [eval_of] in E. unfold is_input in Hx. rewrite Hx in E. unfold bind, tick, ret in E.
        set (s2 := {| cache := cache s1; calls := S (calls s1); log := EvInput x ix :: log s1 |}) in *.
        assert (X12 : ext (idx_n ix) s1 s2).
        { split; [exists [EvInput x ix]; split; auto; constructor; auto; apply ole_refl|].
          split; [cbn; lia | auto]. }
        assert (I2 : (NF -> xw_fault W (calls s1) = None) -> Inv (ck :: stack) s2).
        { intros Hnf. destruct I1 as [J1 J2 J3 J4]. split; auto.
          intros nf. destruct (J4 nf) as [ND HI]. cbn [log s2].
          cbn [input_evs]. split.
          - constructor; auto. intros Hin. apply in_input_evs in Hin.
            destruct (inv_once I nf) as [_ HI0]. destruct (HI0 _ _ Hin) as [_ Hl]. contradiction.
          - intros y iy [Hy|Hy].
            + inversion Hy; subst. split; [exact Hx|]. unfold s1. fold ck.
              unfold st_lookup in *. cbn [cache s2]. change (lookup (cache s1) ck <> None).
              unfold s1. rewrite (st_lookup_store_eq s ck Pending : lookup (cache (st_store s ck Pending)) ck = _). discriminate.
            + apply HI. exact Hy. }
        destruct (xw_fault W (calls s1)) as [e|] eqn:F.
        * inversion E; subst. clear E. split; [|split; [|intros; discriminate]].
          -- apply Inv_pop_raise; auto.
             ++ destruct I1 as [J1 J2 J3 J4]. split; auto. intros nf. rewrite nf in F. discriminate.
             ++ intros nf. rewrite nf in F. discriminate.
          -- eapply ext_frame; [exact Lk | exact X12 | right; reflexivity].
        * inversion E; subst. clear E. split; [|split].
          -- apply Inv_pop_done; auto.
             intros f w Ef. destruct f as [|fu]; [discriminate|]. cbn [interp] in Ef. unfold rhs in Ef.
             cbn [sw_inputs SW] in Ef. rewrite Hx in Ef. inversion Ef; subst. reflexivity.
          -- eapply ext_frame; [exact Lk | exact X12 | left; eauto].
          -- intros a Ea. inversion Ea; subst.
             intros f w Ef. destruct f as [|fu]; [discriminate|]. cbn [interp] in Ef. unfold rhs in Ef.
             cbn [sw_inputs SW] in Ef. rewrite Hx in Ef. inversion Ef; subst. reflexivity.
      + (* every other object *)
        destruct (eval_of O alg prog W rec tb k ix s1) as [r1 s2] eqn:E1.
        assert (Hst : forall x d, tb = TTab -> k = KN x -> kind_of alg inputs x = KSeries d -> start_sval W d ix = None).
        { intros x d -> -> K. destruct (start_sval W d ix) as [sv|] eqn:S; auto. exfalso. exact (NS x d ix sv eq_refl K S). }
        pose proof (@eval_of_ok rec Hrec tb k ix Hwf Hst Hni) as OK.
        destruct r1 as [v|e|].
        * inversion E; subst. clear E.
          destruct (OK _ _ _ _ I1 E1) as (I2 & X2 & P2); [discriminate|].
          split; [|split].
          -- apply Inv_pop_done; auto.
          -- eapply ext_frame; [exact Lk | exact X2 | left; eauto].
          -- intros a Ea. inversion Ea; subst. auto.
        * inversion E; subst. clear E.
          destruct (OK _ _ _ _ I1 E1) as (I2 & X2 & P2); [discriminate|].
          split; [|split; [|intros; discriminate]].
          -- apply Inv_pop_raise; auto.
             intros nf y iy Hy D. destruct (inv_once I2 nf) as [_ HI]. destruct (HI _ _ Hy) as [Hyi _].
             inversion D; subst. eapply Hni; eauto.
          -- eapply ext_frame; [exact Lk | exact X2 | right; reflexivity].
        * inversion E; subst. contradiction.
  Qed.

  Theorem getitem_ok fuel : getter_ok (getitem O alg prog W fuel).
  Proof.
    induction fuel as [|f IH]; cbn [getitem].
    - intros tb k ix stack s r s' I E NO. inversion E; subst. contradiction.
    - now apply getitem_step_ok.
  Qed.

  (* ------------------------------------------------------------- requests of the user *)

  Theorem run_ok fuel (s : st) tb name ix r s' :
    Inv [] s -> run O alg prog W fuel s (tb, name, ix) = (r, s') -> r <> OutOfFuel ->
    Inv [] s' /\ ext (idx_n ix) s s' /\ forall v, r = Ok v -> agrees v (KN name) ix.
  Proof.
    intros I E NO. unfold run in E. destruct (known alg W name).
    - eapply getitem_ok; eauto.
    - inversion E; subst. split; [exact I | split; [apply ext_refl | intros; discriminate]].
  Qed.

  Definition req_name (r : request) : string := snd (fst r).
  Definition req_idx (r : request) : index := snd r.

  Theorem run_all_ok fuel rs : forall (s : st) os s',
    Inv [] s -> run_all O alg prog W fuel s rs = (os, s') -> Forall (fun o => o <> OutOfFuel) os ->
    Inv [] s' /\
    Forall2 (fun r o => forall v, o = Ok v -> agrees v (KN (req_name r)) (req_idx r)) rs os.
  Proof.
    induction rs as [|[[tb name] ix] rest IH]; intros s os s' I E NO; cbn [run_all] in E.
    - inversion E; subst. split; auto.
    - destruct (run O alg prog W fuel s (tb, name, ix)) as [o s1] eqn:E1.
      destruct (run_all O alg prog W fuel s1 rest) as [os' s2] eqn:E2.
      inversion E; subst. inversion NO; subst.
      destruct (@run_ok fuel s tb name ix o s1 I E1) as (I1 & _ & P1); auto.
      destruct (IH _ _ _ I1 E2) as (I2 & F2); auto.
  Qed.

  (** no in-flight marker survives a request, whatever its outcome *)
  Lemma Inv_no_pending (s : st) : Inv [] s -> forall ck, st_lookup s ck <> Some Pending.
  Proof. intros I ck H. exact (@inv_pend _ _ I _ H). Qed.

  (* ------------------------------------------------------------------ initial state *)

  Lemma lookup_in (c : list (ckey * entry V)) k e : lookup c k = Some e -> In (k, e) c.
  Proof.
    induction c as [|[k' e'] r IH]; cbn; [discriminate|].
    destruct (ckey_eqb k' k) eqn:E.
    - apply ckey_eqb_eq in E. subst. intros H. inversion H; subst. now left.
    - intros H. right. auto.
  Qed.

  Lemma in_lookup (c : list (ckey * entry V)) k e : In (k, e) c -> exists e', lookup c k = Some e'.
  Proof.
    induction c as [|[k' e'] r IH]; cbn; [tauto|].
    intros [H|H].
    - inversion H; subst. rewrite ckey_eqb_refl. eauto.
    - destruct (ckey_eqb k' k); eauto.
  Qed.

  Lemma spec_start_some d ix v : start_sval W d ix = Some v -> spec_start O SW d ix = Some (den O v).
  Proof.
    unfold start_sval, spec_start.
    change (is_start_index SW ix) with (x_start_index W ix).
    destruct (x_start_index W ix); [|discriminate]. cbn [sw_inputs SW sw_env].
    destruct (sstart d); try discriminate.
    - intros E. inversion E; subst. reflexivity.
    - destruct (Nat.eqb (idx_i ix) (idx_j ix)); [|discriminate]. intros E. inversion E; subst. reflexivity.
    - destruct (mem_string s inputs); [|discriminate]. intros E. inversion E; subst. reflexivity.
  Qed.

  Definition init_good (b : ckey * entry V) : Prop :=
    exists v x ix, b = ((TTab, KN x, ix), Done v) /\
      ((exists d, kind_of alg inputs x = KSeries d /\ start_sval W d ix = Some v) \/
       (kind_of alg inputs x = KInput /\ v = xw_env W x ix)).

  Lemma init_entries_good b : In b (init_entries alg W) -> init_good b.
  Proof.
    unfold init_entries. intros H. apply in_app_or in H. destruct H as [H|H].
    - apply in_flat_map in H. destruct H as (x & _ & H).
      destruct (kind_of alg inputs x) as [|d| |] eqn:K; try contradiction.
      apply in_flat_map in H. destruct H as (bl & _ & H).
      destruct (start_sval W d (fst bl, snd bl, zero_order W)) as [v|] eqn:S; [|contradiction].
      destruct H as [<-|[]]. exists v, x, (fst bl, snd bl, zero_order W). split; auto. left. eauto.
    - apply in_flat_map in H. destruct H as (x & _ & H).
      destruct (kind_of alg inputs x) eqn:K; try contradiction.
      apply in_map_iff in H. destruct H as (bl & <- & _).
      exists (xw_env W x (fst bl, snd bl, zero_order W)), x, (fst bl, snd bl, zero_order W). split; auto.
  Qed.

  Lemma find_sdef_in x l d : find_sdef x l = Some d -> In x (map sname l).
  Proof.
    induction l as [|d' r IH]; cbn; [discriminate|].
    destruct (String.eqb (sname d') x) eqn:E; [apply String.eqb_eq in E; auto | auto].
  Qed.

  Lemma all_zero_repeat n : all_zero n = true -> n = repeat 0 (length n).
  Proof.
    induction n as [|x r IH]; cbn; auto. intros H. apply andb_true_iff in H. destruct H as [H1 H2].
    apply Nat.eqb_eq in H1. subst. f_equal. auto.
  Qed.

  Lemma start_index_shape ix :
    x_start_index W ix = true ->
    ix = (idx_i ix, idx_j ix, zero_order W) /\ In (idx_i ix, idx_j ix) (all_blocks W).
  Proof.
    unfold x_start_index. intros H. repeat (apply andb_true_iff in H; destruct H as [H ?]).
    apply Nat.eqb_eq in H2. apply Nat.ltb_lt in H1, H0. apply all_zero_repeat in H.
    destruct ix as [[i j] n]. unfold idx_i, idx_j, idx_n in *. cbn [fst snd] in *. split.
    - unfold zero_order. rewrite <- H2. now rewrite <- H.
    - unfold all_blocks. apply in_flat_map. exists i. split; [apply in_seq; lia|].
      apply in_map. apply in_seq. lia.
  Qed.

  Theorem init_inv calls0 : Inv [] (init_state alg W calls0).
  Proof.
    pose proof (vl_equiv L) as EQ.
    split; unfold st_lookup, init_state; cbn [cache log].
    - intros tb k ix v H. apply lookup_in, init_entries_good in H.
      destruct H as (v' & x & ix' & E & [(d & K & S)|(K & ->)]); inversion E; subst.
      + intros f w Ef. destruct f as [|fu]; [discriminate|]. cbn [interp] in Ef. unfold rhs in Ef.
        cbn [sw_inputs SW] in Ef. rewrite K, (spec_start_some _ _ S) in Ef. inversion Ef; subst. reflexivity.
      + intros f w Ef. destruct f as [|fu]; [discriminate|]. cbn [interp] in Ef. unfold rhs in Ef.
        cbn [sw_inputs SW] in Ef. rewrite K in Ef. inversion Ef; subst. reflexivity.
    - intros ck H. apply lookup_in, init_entries_good in H.
      destruct H as (v' & x & ix' & E & _). inversion E.
    - intros x d ix sv K S.
      assert (Hin : In ((TTab, KN x, ix), Done sv) (init_entries alg W)).
      { unfold init_entries. apply in_or_app. left. apply in_flat_map. exists x. split.
        - unfold kind_of in K. destruct (find_pdef x (aproducts alg)); [discriminate|].
          destruct (find_sdef x (aseries alg)) eqn:F; [eapply find_sdef_in; eauto|].
          destruct (mem_string x inputs); discriminate.
        - rewrite K. assert (SI : x_start_index W ix = true).
          { unfold start_sval in S. destruct (x_start_index W ix); [auto | discriminate]. }
          destruct (start_index_shape _ SI) as [Eix Hb].
          apply in_flat_map. exists (idx_i ix, idx_j ix). split; auto. cbn [fst snd].
          rewrite <- Eix, S. now left. }
      destruct (in_lookup _ _ _ Hin) as (e' & Le). rewrite Le.
      apply lookup_in, init_entries_good in Le.
      destruct Le as (v' & x' & ix' & E & [(d' & K' & S')|(K' & _)]); inversion E; subst.
      + rewrite K in K'. inversion K'; subst. rewrite S in S'. inversion S'; subst. reflexivity.
      + rewrite K in K'. discriminate.
    - intros _. split; [constructor | intros x ix []].
  Qed.
End Sound.
