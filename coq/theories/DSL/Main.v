(** DSL/Main.v - the theorems about [compile alg] run by the evaluator from the initial
    state, in the form used by Props/C09..C12. *)
From Coq Require Import String List ZArith Bool Arith Lia Setoid Morphisms RelationClasses.
From PV.DSL Require Import Syntax SyntaxAux Values Target Compile Interp Exec Laws TSem Sound CompileProps.
Import ListNotations.
Set Implicit Arguments.

Section Main.
  Variable V : Type.
  Variable O : vops V.
  Variable eqv : V -> V -> Prop.
  Variable L : vlaws O eqv.
  Variable alg : algorithm.
  Variable W : xworld V.
  Variable sfn : string -> list V -> index -> V.

  Notation spec := (interp O alg (SW O W sfn)).

  (** validity of the Hermitian shortcuts in the sense of the specification (vacuous when no
      product is declared hermitian) *)
  Definition herm_low : Prop :=
    forall s p i j n,
      kind_of alg (xw_inputs W) s = KProduct p -> pherm p = true -> j < i -> wf_index W (i, j, n) = true ->
      forall x : V, (forall fu' w', spec fu' (KN s) (j, i, n) = Some w' -> eqv x w') ->
      forall fu w, spec fu (KN s) (i, j, n) = Some w -> eqv (vadj O x) w.

  Definition herm_diag : Prop :=
    forall s p i n fu w,
      kind_of alg (xw_inputs W) s = KProduct p -> pherm p = true -> length (pfactors p) = 2 ->
      wf_index W (i, i, n) = true ->
      iprod_gen O (SW O W sfn) (spec fu) (i, i, n) false (first_key p 2) (second_key p 2) = Some w ->
      forall fu' w', iprod_gen O (SW O W sfn) (spec fu') (i, i, n) true (first_key p 2) (second_key p 2) = Some w' ->
                     eqv w' w.

  Record world_ok : Prop := {
    wo_plain : forall x, In x (xw_inputs W) -> has_at x = false;
    wo_proper : forall f l l' ix, Forall2 eqv l l' -> eqv (sfn f l ix) (sfn f l' ix);
    wo_tie : forall f args ix r, xw_fn W f args ix = Ok r -> eqv (den O r) (sfn f (map (den O) args) ix);
    wo_low : herm_low;
    wo_diag : herm_diag
  }.

  Hypothesis WO : world_ok.

  Definition denotes (v : sval V) (name : string) (ix : index) : Prop :=
    forall f w, spec f (KN name) ix = Some w -> eqv (den O v) w.

  Definition no_pending (s : state V) : Prop := forall ck, st_lookup s ck <> Some Pending.

  Lemma Hprog_compile :
    forall x d, kind_of alg (xw_inputs W) x = KSeries d ->
      exists td, td_ok alg W td /\ find_body x (compile alg) = Some (flat_map (cline (sname d) td) (sbody d)).
  Proof.
    intros x d K. destruct (@compile_bodies alg (xw_inputs W) (wo_plain WO) x d K) as (td & Htd & Fb).
    exists td. split; auto.
  Qed.

  Definition reachable_inv (s : state V) : Prop := Inv O eqv alg W sfn [] s.

  Lemma init_reachable calls0 : reachable_inv (init_state alg W calls0).
  Proof. apply init_inv. exact L. Qed.

  (** one request from any state satisfying the invariant *)
  Theorem request_sound fuel s tb name ix r s' :
    reachable_inv s -> run O alg (compile alg) W fuel s (tb, name, ix) = (r, s') -> r <> OutOfFuel ->
    reachable_inv s' /\ no_pending s' /\ ext alg W (idx_n ix) s s' /\
    forall v, r = Ok v -> denotes v name ix.
  Proof.
    intros I E NO.
    destruct (run_ok L (compile alg) (wo_proper WO) (wo_tie WO) Hprog_compile (wo_low WO) (wo_diag WO)
                     fuel tb name ix I E NO) as (I' & X & P).
    split; [exact I'|]. split; [exact (Inv_no_pending I')|]. split; [exact X | exact P].
  Qed.

  (** a multi-element request (slice, list index): every value of the returned array denotes the interp
      value of its element - also when the cache entry of an earlier element of the same request has
      been deleted while a later one was evaluated *)
  Theorem multi_request_sound fuel tb name ixs : forall s vs s',
    reachable_inv s -> run_multi O alg (compile alg) W fuel s tb name ixs = (Ok vs, s') ->
    reachable_inv s' /\ no_pending s' /\ Forall2 (fun ix v => denotes v name ix) ixs vs.
  Proof.
    induction ixs as [|ix r IH]; intros s vs s' I E; cbn [run_multi] in E.
    - inversion E; subst. split; [exact I|]. split; [exact (Inv_no_pending I) | constructor].
    - destruct (run O alg (compile alg) W fuel s (tb, name, ix)) as [[v| |] s1] eqn:E1; try discriminate.
      destruct (run_multi O alg (compile alg) W fuel s1 tb name r) as [[vs'| |] s2] eqn:E2; try discriminate.
      inversion E; subst.
      destruct (@request_sound fuel s tb name ix (Ok v) s1 I E1 ltac:(discriminate)) as (I1 & _ & _ & P1).
      destruct (IH _ _ _ I1 E2) as (I2 & N2 & F2).
      split; [exact I2|]. split; [exact N2|]. constructor; auto.
  Qed.

  (** a whole schedule from the initial state *)
  Theorem schedule_sound fuel calls0 rs os s' :
    run_all O alg (compile alg) W fuel (init_state alg W calls0) rs = (os, s') ->
    Forall (fun o => o <> OutOfFuel) os ->
    reachable_inv s' /\ no_pending s' /\
    Forall2 (fun r o => forall v, o = Ok v -> denotes v (req_name r) (req_idx r)) rs os.
  Proof.
    intros E NO.
    destruct (run_all_ok L (compile alg) (wo_proper WO) (wo_tie WO) Hprog_compile (wo_low WO) (wo_diag WO)
                         fuel rs (init_reachable calls0) E NO) as (I' & F).
    split; [exact I'|]. split; [exact (Inv_no_pending I') | exact F].
  Qed.

  Lemma Forall2_nth {A B} (R : A -> B -> Prop) l1 l2 i a b :
    Forall2 R l1 l2 -> nth_error l1 i = Some a -> nth_error l2 i = Some b -> R a b.
  Proof.
    intros F. revert i. induction F; intros [|i]; cbn; try discriminate.
    - intros E1 E2. inversion E1; inversion E2; subst. auto.
    - apply IHF.
  Qed.

  (** a value returned anywhere in a schedule denotes the interp value *)
  Corollary schedule_value fuel calls0 rs os s' i tb name ix v :
    run_all O alg (compile alg) W fuel (init_state alg W calls0) rs = (os, s') ->
    Forall (fun o => o <> OutOfFuel) os ->
    nth_error rs i = Some (tb, name, ix) -> nth_error os i = Some (Ok v) ->
    denotes v name ix.
  Proof.
    intros E NO Er Eo. destruct (@schedule_sound fuel calls0 rs os s' E NO) as (_ & _ & F).
    exact (Forall2_nth _ F Er Eo v eq_refl).
  Qed.

  (** the events logged while serving a request at multi-order n have orders <= n *)
  Theorem request_causal fuel s tb name ix r s' :
    reachable_inv s -> run O alg (compile alg) W fuel s (tb, name, ix) = (r, s') -> r <> OutOfFuel ->
    exists l, log s' = l ++ log s /\ Forall (ev_le (idx_n ix)) l.
  Proof.
    intros I E NO. destruct (@request_sound fuel s tb name ix r s' I E NO) as (_ & _ & X & _). apply X.
  Qed.

  (** evaluated input elements are never removed or changed *)
  Theorem request_keeps_inputs fuel s tb name ix r s' x ix' v :
    reachable_inv s -> run O alg (compile alg) W fuel s (tb, name, ix) = (r, s') -> r <> OutOfFuel ->
    kind_of alg (xw_inputs W) x = KInput ->
    st_lookup s (TTab, KN x, ix') = Some (Done v) -> st_lookup s' (TTab, KN x, ix') = Some (Done v).
  Proof.
    intros I E NO K H. destruct (@request_sound fuel s tb name ix r s' I E NO) as (_ & _ & X & _).
    destruct X as (_ & _ & P). now apply P.
  Qed.

  (** fault-free worlds: every input element is evaluated at most once *)
  Theorem inputs_once s :
    reachable_inv s -> (forall k, xw_fault W k = None) -> NoDup (input_evs (log s)).
  Proof. intros I nf. exact (proj1 (inv_once I nf)). Qed.
End Main.

(** reaching one's own in-flight marker raises RuntimeError (no divergence, nothing returned) *)
Theorem recursion_detected V (O : vops V) alg prog (W : xworld V) rec tb k ix (s : state V) :
  wf_index W ix = true ->
  st_lookup s (tb, k, ix) = Some Pending ->
  getitem_step O alg prog W rec tb k ix s = (Raise RuntimeError, s).
Proof. intros Hwf H. unfold getitem_step. rewrite Hwf, H. reflexivity. Qed.

(** a value is returned only from a [Done] entry or from the completed evaluation that is
    stored as [Done]: the marker itself is never a result *)
Theorem returned_is_stored V (O : vops V) alg prog (W : xworld V) rec tb k ix (s s' : state V) v :
  getitem_step O alg prog W rec tb k ix s = (Ok v, s') ->
  st_lookup s' (tb, k, ix) = Some (Done v).
Proof.
  unfold getitem_step. intros E.
  destruct (wf_index W ix); cbn [negb] in E; [|discriminate].
  destruct (st_lookup s (tb, k, ix)) as [[|v0]|] eqn:Lk.
  - discriminate.
  - inversion E; subst. exact Lk.
  - destruct (eval_of O alg prog W rec tb k ix (st_store s (tb, k, ix) Pending)) as [[a|e|] s2]; inversion E; subst.
    unfold st_lookup, st_store. cbn [cache]. apply lookup_cons_eq.
Qed.
