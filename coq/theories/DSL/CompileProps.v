(** DSL/CompileProps.v - facts about the compiler model used by the soundness theorems:
    the body found for a defined series is the compilation of its lines, and a [del_] never
    names an input series (inputs are black-listed in [_find_delete_candidates]). *)
From Coq Require Import String List ZArith Bool Arith Lia.
From PV.DSL Require Import Syntax SyntaxAux Values Target Compile Interp Exec.
Import ListNotations.
Set Implicit Arguments.

Lemma mem_str_in s l : mem_str s l = true <-> In s l.
Proof.
  unfold mem_str. rewrite existsb_exists. split.
  - intros (x & Hx & E). apply String.eqb_eq in E. now subst.
  - intros H. exists s. split; auto. apply String.eqb_refl.
Qed.

Lemma find_body_compile x l (f : sdef -> list tstmt) d :
  find_sdef x l = Some d -> find_body x (map (fun d => (sname d, f d)) l) = Some (f d).
Proof.
  induction l as [|d' r IH]; cbn; [discriminate|].
  destruct (String.eqb (sname d') x); [intros E; inversion E; subst; reflexivity | auto].
Qed.

Lemma find_sdef_name x l d : find_sdef x l = Some d -> sname d = x.
Proof.
  induction l as [|d' r IH]; cbn; [discriminate|].
  destruct (String.eqb (sname d') x) eqn:E; [intros H; inversion H; subst; now apply String.eqb_eq | auto].
Qed.

Lemma find_sdef_none x l : find_sdef x l = None -> ~ In x (map sname l).
Proof.
  induction l as [|d' r IH]; cbn; [tauto|].
  destruct (String.eqb (sname d') x) eqn:E; [discriminate|].
  intros H [F|F]; [subst; rewrite String.eqb_refl in E; discriminate | now apply IH].
Qed.

Section Blacklist.
  Variable alg : algorithm.

  Definition used_names : list string := map (fun u => fst (fst u)) (flat_map series_uses (aseries alg)).

  (** every recorded access is to a used term outside the black-list *)
  Definition acc_ok (a : access) : Prop :=
    In (fst (fst a)) used_names /\ mem_str (fst (fst a)) (delete_blacklist alg) = false.

  Lemma scan_uses_ok origin us :
    forall remaining indices last acc,
      Forall (fun u => In (fst (fst u)) used_names) us ->
      Forall acc_ok acc ->
      Forall acc_ok (scan_uses origin (delete_blacklist alg) us remaining indices last acc).
  Proof.
    induction us as [|[[term adjoint] et] r IH]; intros remaining indices last acc Hu Ha; cbn [scan_uses]; auto.
    inversion Hu; subst. apply IH; auto.
    destruct (mem_str term (delete_blacklist alg)) eqn:B; auto.
    match goal with |- Forall _ (fold_left _ ?l _) => generalize l end.
    intros l. revert acc Ha. induction l as [|ij l IHl]; intros acc Ha; cbn [fold_left]; auto.
    apply IHl. constructor; auto. split; cbn; auto.
  Qed.

  Lemma all_accesses_ok : Forall acc_ok (all_accesses alg).
  Proof.
    unfold all_accesses.
    assert (G : forall l acc, (forall d, In d l -> In d (aseries alg)) -> Forall acc_ok acc ->
                Forall acc_ok (fold_left (fun acc d =>
                   scan_uses (sname d) (delete_blacklist alg) (series_uses d)
                             [(0, 0); (0, 1); (1, 0); (1, 1)] [] None acc) l acc)).
    { induction l as [|d l IH]; intros acc Hl Ha; cbn [fold_left]; auto.
      apply IH; [intros; apply Hl; now right|]. apply scan_uses_ok; auto.
      apply Forall_forall. intros u Hu. unfold used_names. apply in_map_iff. exists u. split; auto.
      apply in_flat_map. exists d. split; auto. apply Hl. now left. }
    apply G; auto.
  Qed.

  Lemma in_dedup_del x l : In x (dedup_del l) -> In x l.
  Proof.
    induction l as [|y r IH]; cbn; auto. destruct (existsb (del_eqb y) r); cbn; intros H; auto.
    destruct H; auto.
  Qed.

  Lemma to_delete_ok origin x :
    In x (to_delete alg origin) ->
    In (fst (fst x)) used_names /\ mem_str (fst (fst x)) (delete_blacklist alg) = false.
  Proof.
    unfold to_delete. intros H. apply in_dedup_del in H. apply in_map_iff in H.
    destruct H as (a & <- & Ha). apply filter_In in Ha. destruct Ha as [Ha _].
    pose proof all_accesses_ok as F. rewrite Forall_forall in F. exact (F _ Ha).
  Qed.

  (** names of inputs contain no "@" (a name with "@" denotes a product) *)
  Variable inputs : list string.
  Hypothesis inputs_plain : forall x, In x inputs -> has_at x = false.

  Theorem to_delete_not_input origin x :
    In x (to_delete alg origin) -> kind_of alg inputs (fst (fst x)) <> KInput.
  Proof.
    intros H K. destruct (to_delete_ok _ _ H) as [Hu Hb].
    set (t := fst (fst x)) in *. unfold kind_of in K.
    destruct (find_pdef t (aproducts alg)); [discriminate|].
    destruct (find_sdef t (aseries alg)) eqn:F; [discriminate|].
    destruct (mem_string t inputs) eqn:M; [|discriminate].
    assert (Hin : In t inputs).
    { unfold mem_string in M. apply existsb_exists in M. destruct M as (y & Hy & E).
      apply String.eqb_eq in E. now subst. }
    assert (In t (delete_blacklist alg)) as Hbl.
    { unfold delete_blacklist. apply in_or_app. right. apply in_or_app. left.
      unfold syntactic_inputs. apply filter_In. split; [exact Hu|].
      rewrite (inputs_plain _ Hin). cbn.
      destruct (mem_str t (computed_names alg)) eqn:C; auto.
      apply mem_str_in in C. exfalso. eapply find_sdef_none; eauto. }
    apply mem_str_in in Hbl. congruence.
  Qed.

  (** the hypothesis [Hprog] of DSL/Sound.v holds for [compile alg] *)
  Theorem compile_bodies x d :
    kind_of alg inputs x = KSeries d ->
    exists td, Forall (fun y => kind_of alg inputs (fst (fst y)) <> KInput) td /\
               find_body x (compile alg) = Some (flat_map (cline (sname d) td) (sbody d)).
  Proof.
    intros K. unfold kind_of in K. destruct (find_pdef x (aproducts alg)); [discriminate|].
    destruct (find_sdef x (aseries alg)) as [d'|] eqn:F; [|destruct (mem_string x inputs); discriminate].
    inversion K; subst d'. exists (to_delete alg (sname d)). split.
    - apply Forall_forall. intros y Hy. eapply to_delete_not_input; eauto.
    - unfold compile. rewrite (@find_body_compile x (aseries alg) (cseries alg) d F). reflexivity.
  Qed.

  (** C10: the generated code never pops an element of an input series *)
  Theorem compile_never_deletes_inputs name body s tr :
    In (name, body) (compile alg) ->
    (In (TS (TDel s tr)) body \/ exists t b, In (TIf t b) body /\ In (TDel s tr) b) ->
    kind_of alg inputs s <> KInput.
  Proof.
    intros Hc Hd. unfold compile in Hc. apply in_map_iff in Hc. destruct Hc as (d & E & Hd0).
    inversion E; subst. clear E.
    assert (Hdel : forall et, forall y, In y (dels (to_delete alg (sname d)) et) ->
                     exists x, In x (to_delete alg (sname d)) /\ y = TDel (fst (fst x)) (snd (fst x))).
    { intros et y Hy. unfold dels in Hy. apply in_map_iff in Hy. destruct Hy as (x & <- & Hx).
      apply filter_In in Hx. exists x. split; [apply Hx | reflexivity]. }
    assert (Hfin : forall et, In (TDel s tr) (dels (to_delete alg (sname d)) et) -> kind_of alg inputs s <> KInput).
    { intros et Hy. destruct (Hdel _ _ Hy) as (x & Hx & E). inversion E; subst.
      eapply to_delete_not_input; eauto. }
    unfold cseries in Hd.
    destruct Hd as [Hd|(t & b & Hb & Hd)].
    - apply in_flat_map in Hd. destruct Hd as (l & _ & Hl).
      destruct l as [c e|h]; cbn [cline] in Hl.
      + destruct c; cbn in Hl.
        * destruct Hl as [Hl|Hl]; [discriminate|]. apply in_map_iff in Hl.
          destruct Hl as (y & E & Hy). inversion E; subst. eapply Hfin; eauto.
        * destruct Hl as [Hl|[]]. discriminate.
        * destruct Hl as [Hl|[Hl|[]]]; discriminate.
      + destruct Hl as [Hl|[]]. discriminate.
    - apply in_flat_map in Hb. destruct Hb as (l & _ & Hl).
      destruct l as [c e|h]; cbn [cline] in Hl.
      + destruct c; cbn in Hl.
        * destruct Hl as [Hl|Hl]; [discriminate|]. apply in_map_iff in Hl.
          destruct Hl as (y & E & Hy). discriminate.
        * destruct Hl as [Hl|[]]. inversion Hl; subst. destruct Hd as [Hd|Hd]; [discriminate|]. eapply Hfin; eauto.
        * destruct Hl as [Hl|[Hl|[]]]; inversion Hl; subst; (destruct Hd as [Hd|Hd]; [discriminate|]); eapply Hfin; eauto.
      + destruct Hl as [Hl|[]]. inversion Hl; subst. destruct Hd as [Hd|Hd]; [discriminate|].
        apply in_app_or in Hd. destruct Hd as [Hd|[Hd|[]]]; [eapply Hfin; eauto | discriminate].
  Qed.
End Blacklist.
