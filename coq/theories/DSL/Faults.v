(** DSL/Faults.v - exception safety (C11) and the value-free consequences of the invariant
    (C12: causality, exactly-once) which hold for EVERY program: they are obtained by
    instantiating the soundness proof with the trivial equality on values. *)
From Coq Require Import String List ZArith Bool Arith Lia Setoid Morphisms RelationClasses.
From PV.DSL Require Import Syntax SyntaxAux Values Target Compile Interp Exec Laws TSem Sound CompileProps Main.
Import ListNotations.
Set Implicit Arguments.

(** the same world with another fault plan *)
Definition with_faults V (W : xworld V) (fp : nat -> option exn) : xworld V :=
  {| xw_nb := xw_nb W; xw_np := xw_np W; xw_inputs := xw_inputs W; xw_env := xw_env W;
     xw_uselin := xw_uselin W; xw_hasoff := xw_hasoff W; xw_gflag := xw_gflag W;
     xw_rflag := xw_rflag W; xw_access := xw_access W; xw_fn := xw_fn W;
     xw_counted := xw_counted W; xw_fault := fp |}.

Lemma world_ok_faults V (O : vops V) eqv alg (W : xworld V) sfn fp :
  world_ok O eqv alg W sfn -> world_ok O eqv alg (with_faults W fp) sfn.
Proof. intros [A B C D E]. split; assumption. Qed.

Lemma init_state_faults V alg (W : xworld V) fp c : init_state alg (with_faults W fp) c = init_state alg W c.
Proof. reflexivity. Qed.

Section Trivial.
  Variable V : Type.
  Variable O : vops V.

  Definition teq : V -> V -> Prop := fun _ _ => True.

  Lemma trivial_laws : vlaws O teq.
  Proof. split; unfold teq; try (repeat intro; exact I). split; repeat intro; exact I. Qed.

  Definition tsfn : string -> list V -> index -> V := fun _ _ _ => v0 O.

  Lemma trivial_world_ok alg (W : xworld V) :
    (forall x, In x (xw_inputs W) -> has_at x = false) -> world_ok O teq alg W tsfn.
  Proof. intros H. split; unfold herm_low, herm_diag, teq; auto. Qed.
End Trivial.
