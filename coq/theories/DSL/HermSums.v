(** DSL/HermSums.v - the combinatorics behind the Hermitian shortcut of product_by_order: the
    reflection m |-> n - m of the multi-order splittings, and the identity
      sum over m <= n - m of (g m + adj (g m), or g m when m = n - m)  =  sum over all m of g m
    when adj (g m) = g (n - m). *)
From Coq Require Import String List ZArith Bool Arith Lia Setoid Morphisms RelationClasses Permutation.
From PV.DSL Require Import Syntax Values Interp Laws Sound.
Import ListNotations.
Set Implicit Arguments.

(* ------------------------------------------------------------------ splittings *)

Lemma ole_length a b : ole a b -> length a = length b.
Proof. revert b. induction a as [|x a IH]; destruct b; cbn; try tauto. intros [_ H]. f_equal. auto. Qed.

Lemma lsub_invol n m : ole m n -> lsub n (lsub n m) = m.
Proof.
  revert m. induction n as [|x n IH]; destruct m as [|y m]; cbn; try tauto.
  intros [H1 H2]. f_equal; [lia | auto].
Qed.

Lemma splits_complete n m : ole m n -> In m (splits n).
Proof.
  revert m. induction n as [|x n IH]; destruct m as [|y m]; cbn [ole splits]; try tauto.
  - intros _. now left.
  - intros [H1 H2]. apply in_flat_map. exists y. split; [apply in_seq; lia|]. apply in_map. auto.
Qed.

Lemma splits_refl n m : In m (splits n) -> In (lsub n m) (splits n).
Proof. intros H. apply splits_complete. now apply splits_ok. Qed.

Lemma NoDup_app_intro {A} (l1 l2 : list A) :
  NoDup l1 -> NoDup l2 -> (forall x, In x l1 -> In x l2 -> False) -> NoDup (l1 ++ l2).
Proof.
  induction 1 as [|x l1 Hx H1 IH]; cbn; auto. intros H2 Hd. constructor.
  - intros H. apply in_app_or in H. destruct H; [contradiction | eapply Hd; cbn; eauto].
  - apply IH; auto. intros y Hy. apply Hd. now right.
Qed.

Lemma NoDup_splits n : NoDup (splits n).
Proof.
  induction n as [|x n IH]; cbn [splits]; [repeat constructor; auto|].
  assert (G : forall l, NoDup l -> NoDup (flat_map (fun a => map (cons a) (splits n)) l)).
  { induction 1 as [|a l Ha Hl IHl]; cbn; [constructor|].
    apply NoDup_app_intro.
    - apply FinFun.Injective_map_NoDup; auto. intros u v E. now inversion E.
    - exact IHl.
    - intros y Hy Hy'. apply in_map_iff in Hy. destruct Hy as (u & <- & _).
      apply in_flat_map in Hy'. destruct Hy' as (b & Hb & Hy'). apply in_map_iff in Hy'.
      destruct Hy' as (v & E & _). inversion E; subst. contradiction. }
  apply G, seq_NoDup.
Qed.

Lemma lex_gt_irrefl a : lex_gt a a = false.
Proof. induction a as [|x a IH]; cbn [lex_gt]; auto. now rewrite Nat.ltb_irrefl. Qed.

Lemma lex_gt_asym a b : lex_gt a b = true -> lex_gt b a = false.
Proof.
  revert b. induction a as [|x a IH]; destruct b as [|y b]; cbn [lex_gt]; try discriminate; auto.
  destruct (Nat.ltb y x) eqn:E1, (Nat.ltb x y) eqn:E2; auto; try discriminate.
  apply Nat.ltb_lt in E1, E2. lia.
Qed.

Lemma lex_total a b : length a = length b -> lex_gt a b = false -> lex_gt b a = false -> a = b.
Proof.
  revert b. induction a as [|x a IH]; destruct b as [|y b]; cbn [lex_gt length]; try discriminate; auto.
  intros Hl. destruct (Nat.ltb y x) eqn:E1, (Nat.ltb x y) eqn:E2; try discriminate.
  apply Nat.ltb_ge in E1, E2. intros H1 H2. f_equal; [lia | apply IH; auto].
Qed.

Lemma lnat_eqb_false a b : lnat_eqb a b = false <-> a <> b.
Proof.
  split.
  - intros E F. apply lnat_eqb_eq in F. congruence.
  - intros N. destruct (lnat_eqb a b) eqn:E; auto. apply lnat_eqb_eq in E. contradiction.
Qed.

(* ------------------------------------------------------------------------ sums *)

Section Sums.
  Variable V : Type.
  Variable O : vops V.
  Variable eqv : V -> V -> Prop.
  Variable L : vlaws O eqv.

  Local Infix "==" := eqv (at level 70, no associativity).
  Local Notation "a + b" := (vadd O a b).
  Local Notation vz := (v0 O).
  Local Notation sum := (vsum O).

  Lemma vsum_perm l l' : Permutation l l' -> sum l == sum l'.
  Proof.
    pose proof (vl_equiv L) as EQ.
    induction 1 as [|x l l' P IH|x y l|l l' l'' P1 IH1 P2 IH2].
    - reflexivity.
    - rewrite !(vsum_cons L). now rewrite IH.
    - rewrite !(vsum_cons L). rewrite <- !(l_add_assoc L). now rewrite (l_add_comm L y x).
    - now rewrite IH1.
  Qed.

  Lemma vsum_ext {A} (f g : A -> V) l : (forall x, In x l -> f x == g x) -> sum (map f l) == sum (map g l).
  Proof.
    pose proof (vl_equiv L) as EQ.
    induction l as [|x l IH]; intros H; cbn [map]; [reflexivity|].
    rewrite !(vsum_cons L). rewrite (H x (or_introl eq_refl)), IH; [reflexivity|]. intros y Hy. apply H. now right.
  Qed.

  Lemma vsum_add {A} (f g : A -> V) l : sum (map (fun x => f x + g x) l) == sum (map f l) + sum (map g l).
  Proof.
    pose proof (vl_equiv L) as EQ.
    induction l as [|x l IH]; cbn [map].
    - rewrite (vsum_nil L). symmetry. apply (l_add_0_l L).
    - rewrite !(vsum_cons L), IH. rewrite !(l_add_assoc L). apply (l_add_proper L); [reflexivity|].
      rewrite <- !(l_add_assoc L). now rewrite (l_add_comm L (g x)).
  Qed.

  Lemma vsum_zero {A} (f : A -> V) l : (forall x, In x l -> f x == vz) -> sum (map f l) == vz.
  Proof.
    pose proof (vl_equiv L) as EQ.
    induction l as [|x l IH]; intros H; cbn [map]; [reflexivity|].
    rewrite (vsum_cons L), (H x (or_introl eq_refl)), IH, (l_add_0_l L); [reflexivity|]. intros y Hy. apply H. now right.
  Qed.

  Lemma vsum_adj {A} (f : A -> V) l : vadj O (sum (map f l)) == sum (map (fun x => vadj O (f x)) l).
  Proof.
    pose proof (vl_equiv L) as EQ.
    induction l as [|x l IH]; cbn [map].
    - rewrite (vsum_nil L). apply (l_adj_0 L).
    - rewrite !(vsum_cons L), (l_adj_add L), IH. reflexivity.
  Qed.

  Lemma vsum_filter {A} (f : A -> V) (p : A -> bool) l :
    sum (map f l) == sum (map f (filter p l)) + sum (map f (filter (fun x => negb (p x)) l)).
  Proof.
    pose proof (vl_equiv L) as EQ.
    induction l as [|x l IH]; cbn [map filter].
    - rewrite (vsum_nil L). symmetry. apply (l_add_0_l L).
    - destruct (p x); cbn [negb map]; rewrite !(vsum_cons L), IH.
      + symmetry. apply (l_add_assoc L).
      + rewrite <- !(l_add_assoc L). apply (l_add_proper L); [|reflexivity]. apply (l_add_comm L).
  Qed.

  Lemma vsum_flat_map {A B} (f : B -> V) (F : A -> list B) l :
    sum (map f (flat_map F l)) == sum (map (fun a => sum (map f (F a))) l).
  Proof.
    pose proof (vl_equiv L) as EQ.
    induction l as [|a l IH]; cbn [flat_map map]; [reflexivity|].
    rewrite map_app, (vsum_app L), (vsum_cons L), IH. reflexivity.
  Qed.

  Lemma NoDup_map_on {A B} (f : A -> B) l :
    (forall x y, In x l -> In y l -> f x = f y -> x = y) -> NoDup l -> NoDup (map f l).
  Proof.
    induction l as [|x l IH]; intros Hinj Hnd; cbn; [constructor|].
    inversion Hnd; subst. constructor.
    - intros H. apply in_map_iff in H. destruct H as (y & E & Hy).
      assert (y = x) by (apply Hinj; cbn; auto). subst. contradiction.
    - apply IH; auto. intros u v Hu Hv. apply Hinj; cbn; auto.
  Qed.

  (* -------------------------------------------------------------- reflection *)
  Variable n : list nat.
  Notation refl := (lsub n).
  Notation Ls := (splits n).

  Lemma refl_perm : Permutation (map refl Ls) Ls.
  Proof.
    apply NoDup_Permutation.
    - apply NoDup_map_on; [|apply NoDup_splits].
      intros x y Hx Hy E. rewrite <- (@lsub_invol n x), <- (@lsub_invol n y); try (now apply splits_ok).
      now rewrite E.
    - apply NoDup_splits.
    - intros x. split.
      + intros H. apply in_map_iff in H. destruct H as (m & <- & Hm). now apply splits_refl.
      + intros H. apply in_map_iff. exists (refl x). split; [apply lsub_invol; now apply splits_ok | now apply splits_refl].
  Qed.

  Lemma refl_sum (g : list nat -> V) : sum (map (fun m => g (refl m)) Ls) == sum (map g Ls).
  Proof.
    rewrite <- (map_map refl g). apply vsum_perm. apply Permutation_map. apply refl_perm.
  Qed.

  Definition half_term (g : list nat -> V) (m : list nat) : V :=
    if lex_gt m (refl m) then vz
    else if lnat_eqb m (refl m) then g m else (g m + vadj O (g m)).

  Theorem half_full (g : list nat -> V) :
    (forall m, In m Ls -> vadj O (g m) == g (refl m)) ->
    sum (map (half_term g) Ls) == sum (map g Ls).
  Proof.
    pose proof (vl_equiv L) as EQ.
    intros Hg.
    set (gt := fun m => lex_gt m (refl m)).
    set (lt := fun m => lex_gt (refl m) m).
    (* the terms with m > n - m, reflected, are the terms with m < n - m *)
    assert (P : Permutation (map refl (filter lt Ls)) (filter gt Ls)).
    { apply NoDup_Permutation.
      - apply NoDup_map_on; [|apply NoDup_filter, NoDup_splits].
        intros x y Hx Hy E. apply filter_In in Hx, Hy. destruct Hx as [Hx _], Hy as [Hy _].
        rewrite <- (@lsub_invol n x), <- (@lsub_invol n y); try (now apply splits_ok).
        now rewrite E.
      - apply NoDup_filter, NoDup_splits.
      - intros x. split.
        + intros H. apply in_map_iff in H. destruct H as (m & <- & Hm). apply filter_In in Hm. destruct Hm as [Hm Hl].
          apply filter_In. split; [now apply splits_refl|]. unfold gt, lt in *.
          rewrite lsub_invol by (now apply splits_ok). exact Hl.
        + intros H. apply filter_In in H. destruct H as [Hx Hg']. apply in_map_iff. exists (refl x).
          split; [apply lsub_invol; now apply splits_ok|]. apply filter_In. split; [now apply splits_refl|].
          unfold gt, lt in *. rewrite lsub_invol by (now apply splits_ok). exact Hg'. }
    rewrite (vsum_filter g gt Ls).
    rewrite (vsum_filter (half_term g) gt Ls).
    rewrite (vsum_zero (half_term g) (filter gt Ls)), (l_add_0_l L).
    2:{ intros m Hm. apply filter_In in Hm. destruct Hm as [_ Hm]. unfold half_term. fold (gt m). now rewrite Hm. }
    rewrite (vsum_filter g lt (filter (fun x => negb (gt x)) Ls)).
    rewrite (vsum_filter (half_term g) lt (filter (fun x => negb (gt x)) Ls)).
    (* the part m = n - m is the same on both sides *)
    assert (E1 : sum (map (half_term g) (filter (fun x => negb (lt x)) (filter (fun x => negb (gt x)) Ls)))
                 == sum (map g (filter (fun x => negb (lt x)) (filter (fun x => negb (gt x)) Ls)))).
    { apply vsum_ext. intros m Hm. apply filter_In in Hm. destruct Hm as [Hm Hl]. apply filter_In in Hm.
      destruct Hm as [Hm Hg']. unfold half_term. fold (gt m). apply negb_true_iff in Hl, Hg'. rewrite Hg'.
      assert (m = refl m) as E.
      { apply lex_total; auto. destruct (splits_ok _ _ Hm) as [A B]. apply ole_length in A, B. congruence. }
      rewrite <- E. assert (lnat_eqb m m = true) as -> by (now apply lnat_eqb_eq). reflexivity. }
    (* the part m < n - m carries its reflection *)
    assert (F : filter lt (filter (fun x => negb (gt x)) Ls) = filter lt Ls).
    { unfold lt, gt. clear. induction (splits n) as [|m l IH]; cbn [filter]; auto.
      destruct (lex_gt m (lsub n m)) eqn:G; cbn [negb filter].
      - rewrite IH. destruct (lex_gt (lsub n m) m) eqn:G'; auto. apply lex_gt_asym in G. congruence.
      - now rewrite IH. }
    assert (E2 : sum (map (half_term g) (filter lt (filter (fun x => negb (gt x)) Ls)))
                 == sum (map g (filter lt Ls)) + sum (map g (filter gt Ls))).
    { rewrite F. rewrite <- (vsum_perm (Permutation_map g P)). rewrite map_map.
      rewrite <- vsum_add. apply vsum_ext. intros m Hm. apply filter_In in Hm. destruct Hm as [Hm Hl].
      unfold half_term. unfold lt in Hl. rewrite (lex_gt_asym _ _ Hl).
      assert (lnat_eqb m (refl m) = false) as ->.
      { apply lnat_eqb_false. intros E. rewrite <- E in Hl. now rewrite lex_gt_irrefl in Hl. }
      now rewrite (Hg m Hm). }
    rewrite E1, E2, F.
    rewrite <- !(l_add_assoc L). apply (l_add_proper L); [|reflexivity]. apply (l_add_comm L).
  Qed.
End Sums.
