(** DSL/HarnessLib.v - concrete instance used by the correspondence harnesses
    (tools/harness/k_seriescomp.py, k_schedules.py, k_faults.py, k_calllog.py) and by the
    non-vacuity examples: values are 2x2 matrices of rationals (kept reduced), the adjoint is
    the transpose, and a small fixed library of scope functions mirrored in Python
    (tools/harness/proggen.py, SCOPE_FUNCTIONS). *)
From Coq Require Import String List ZArith QArith Qreduction Bool Arith.
From PV.DSL Require Import Syntax Values Target Compile Interp Exec.
Import ListNotations.
Open Scope string_scope.

Record m2 := M2 { m00 : Q; m01 : Q; m10 : Q; m11 : Q }.

Definition qr (q : Q) : Q := Qred q.
Definition m2_zero := M2 0 0 0 0.
Definition m2_one := M2 1 0 0 1.
Definition m2_add (a b : m2) :=
  M2 (qr (m00 a + m00 b)) (qr (m01 a + m01 b)) (qr (m10 a + m10 b)) (qr (m11 a + m11 b)).
Definition m2_neg (a : m2) := M2 (qr (- m00 a)) (qr (- m01 a)) (qr (- m10 a)) (qr (- m11 a)).
Definition m2_mul (a b : m2) :=
  M2 (qr (m00 a * m00 b + m01 a * m10 b)) (qr (m00 a * m01 b + m01 a * m11 b))
     (qr (m10 a * m00 b + m11 a * m10 b)) (qr (m10 a * m01 b + m11 a * m11 b)).
Definition m2_adj (a : m2) := M2 (m00 a) (m10 a) (m01 a) (m11 a).
Definition m2_div (a : m2) (k : Z) :=
  let q := inject_Z k in
  M2 (qr (m00 a / q)) (qr (m01 a / q)) (qr (m10 a / q)) (qr (m11 a / q)).
Definition m2_scale (c : Z) (a : m2) :=
  let q := inject_Z c in
  M2 (qr (q * m00 a)) (qr (q * m01 a)) (qr (q * m10 a)) (qr (q * m11 a)).
Definition m2_eqb (a b : m2) : bool :=
  Qeq_bool (m00 a) (m00 b) && Qeq_bool (m01 a) (m01 b) && Qeq_bool (m10 a) (m10 b) && Qeq_bool (m11 a) (m11 b).

Definition m2_ops : vops m2 :=
  {| v0 := m2_zero; v1 := m2_one; vadd := m2_add; vneg := m2_neg; vmul := m2_mul;
     vadj := m2_adj; vdiv := m2_div; vis0 := fun a => m2_eqb a m2_zero |}.

(** integer matrix literal *)
Definition mz (a b c d : Z) : m2 := M2 (inject_Z a) (inject_Z b) (inject_Z c) (inject_Z d).
(** rational matrix literal: numerators and one common positive denominator *)
Definition mq (a b c d : Z) (den : positive) : m2 :=
  M2 (qr (a # den)) (qr (b # den)) (qr (c # den)) (qr (d # den)).

(* ---------------------------------------------------------------- scope functions *)

(** the fixed matrix used by "f_lmul": depends on the row index *)
Definition kmat (i : nat) : m2 := mz 1 (Z.of_nat i + 1) 0 1.

(** Python (tools/harness/proggen.py):
      diag_id(x, index)    : x = x[index] if series;  return x                 (default diag)
      f_scale(x, index)    : x[index] if series; zero -> zero; one -> TypeError; 3 * x
      f_lmul(x, index)     : likewise;  K(index[0]) @ x
      g_mul(x, y, index)   : both dereferenced; zero if either is zero; one -> TypeError; x @ y
      h_cond(x, index)     : if index[0] == 1: return zero  (series NOT dereferenced);  x
      offdiag              : same as h_cond with the test index[0] == 0
      diag (custom)        : f_lmul-like with K(index[0]+1)                                  *)
Definition lib_fn (f : string) (args : list (sval m2)) (idx : index) : res (sval m2) :=
  if String.eqb f "diag" then
    match args with [x] => Ok x | _ => Raise TypeError end
  else if String.eqb f "f_scale" then
    match args with
    | [SZero] => Ok SZero
    | [SVal x] => Ok (SVal (m2_scale 3 x))
    | _ => Raise TypeError
    end
  else if String.eqb f "f_lmul" then
    match args with
    | [SZero] => Ok SZero
    | [SVal x] => Ok (SVal (m2_mul (kmat (idx_i idx)) x))
    | _ => Raise TypeError
    end
  else if String.eqb f "diag_custom" then
    match args with
    | [SZero] => Ok SZero
    | [SVal x] => Ok (SVal (m2_mul (kmat (S (idx_i idx))) x))
    | _ => Raise TypeError
    end
  else if String.eqb f "g_mul" then
    match args with
    | [SZero; SZero] | [SZero; SVal _] | [SVal _; SZero] => Ok SZero
    | [SVal x; SVal y] => Ok (SVal (m2_mul x y))
    | _ => Raise TypeError
    end
  else if String.eqb f "h_cond" then
    match args with [x] => if Nat.eqb (idx_i idx) 1 then Ok SZero else Ok x | _ => Raise TypeError end
  else if String.eqb f "offdiag" then
    match args with [x] => if Nat.eqb (idx_i idx) 0 then Ok SZero else Ok x | _ => Raise TypeError end
  else Raise KeyError.

Definition lib_access (f : string) (idx : index) : bool :=
  if String.eqb f "h_cond" then negb (Nat.eqb (idx_i idx) 1)
  else if String.eqb f "offdiag" then negb (Nat.eqb (idx_i idx) 0)
  else true.

(** the same functions on values (specification side) *)
Definition lib_sfn (f : string) (args : list m2) (idx : index) : m2 :=
  if String.eqb f "diag" then nth 0 args m2_zero
  else if String.eqb f "f_scale" then m2_scale 3 (nth 0 args m2_zero)
  else if String.eqb f "f_lmul" then m2_mul (kmat (idx_i idx)) (nth 0 args m2_zero)
  else if String.eqb f "diag_custom" then m2_mul (kmat (S (idx_i idx))) (nth 0 args m2_zero)
  else if String.eqb f "g_mul" then m2_mul (nth 0 args m2_zero) (nth 1 args m2_zero)
  else if String.eqb f "h_cond" then if Nat.eqb (idx_i idx) 1 then m2_zero else nth 0 args m2_zero
  else if String.eqb f "offdiag" then if Nat.eqb (idx_i idx) 0 then m2_zero else nth 0 args m2_zero
  else m2_zero.

(* ----------------------------------------------------------------------- worlds *)

(** input elements: (name, index, value); absent elements are the sentinel zero *)
Definition envtab := list (string * index * sval m2).

Fixpoint env_lookup (t : envtab) (s : string) (idx : index) : sval m2 :=
  match t with
  | [] => SZero
  | (n, i, v) :: r => if String.eqb n s && index_eqb i idx then v else env_lookup r s idx
  end.

Fixpoint assoc_nat {A} (d : A) (l : list (nat * A)) (k : nat) : A :=
  match l with
  | [] => d
  | (n, a) :: r => if Nat.eqb n k then a else assoc_nat d r k
  end.

Record wcfg := {
  c_nb : nat;
  c_np : nat;
  c_inputs : list string;
  c_env : envtab;
  c_uselin : list (nat * nat);            (* blocks with use_linear_operator = True *)
  c_hasoff : bool;
  c_diag_custom : bool;                   (* the scope overrides diag *)
  c_gflags : list string;                 (* global flags that are True *)
  c_rflags : list (string * list nat);    (* row flags: rows where True *)
  c_counted : list string;                (* scope functions counted as user callbacks *)
  c_faults : list (nat * exn)             (* callback invocation number -> exception *)
}.

Definition rename_diag (c : wcfg) (f : string) : string :=
  if c_diag_custom c && String.eqb f "diag" then "diag_custom" else f.

Definition mk_xworld (c : wcfg) : xworld m2 :=
  {| xw_nb := c_nb c; xw_np := c_np c; xw_inputs := c_inputs c;
     xw_env := env_lookup (c_env c);
     xw_uselin := fun i j => existsb (fun b => Nat.eqb (fst b) i && Nat.eqb (snd b) j) (c_uselin c);
     xw_hasoff := c_hasoff c;
     xw_gflag := fun n => mem_string n (c_gflags c);
     xw_rflag := fun n i => existsb (fun x => String.eqb (fst x) n && existsb (Nat.eqb i) (snd x)) (c_rflags c);
     xw_access := fun f => lib_access (rename_diag c f);
     xw_fn := fun f => lib_fn (rename_diag c f);
     xw_counted := fun f => mem_string f (c_counted c);
     xw_fault := fun k => assoc_nat None (map (fun x => (fst x, Some (snd x))) (c_faults c)) k |}.

Definition mk_sworld (c : wcfg) : sworld m2 :=
  {| sw_nb := c_nb c; sw_np := c_np c; sw_inputs := c_inputs c;
     sw_env := fun s i => den m2_ops (env_lookup (c_env c) s i);
     sw_hasoff := c_hasoff c;
     sw_gflag := fun n => mem_string n (c_gflags c);
     sw_rflag := fun n i => existsb (fun x => String.eqb (fst x) n && existsb (Nat.eqb i) (snd x)) (c_rflags c);
     sw_access := fun f => lib_access (rename_diag c f);
     sw_fn := fun f => lib_sfn (rename_diag c f) |}.

(* -------------------------------------------------------------------- observations *)

Inductive obs :=
| OZero | OOne | OVal (m : m2) | OExn (e : exn) | OFuel.

Definition obs_of (r : res (sval m2)) : obs :=
  match r with
  | Ok SZero => OZero
  | Ok SOne => OOne
  | Ok (SVal m) => OVal m
  | Raise e => OExn e
  | OutOfFuel => OFuel
  end.

Definition obs_eqb (a b : obs) : bool :=
  match a, b with
  | OZero, OZero | OOne, OOne => true
  | OVal x, OVal y => m2_eqb x y
  | OExn e, OExn f => exn_eqb e f
  | _, _ => false
  end.

Fixpoint obs_list_eqb (a b : list obs) : bool :=
  match a, b with
  | [], [] => true
  | x :: a', y :: b' => obs_eqb x y && obs_list_eqb a' b'
  | _, _ => false
  end.

(** run a schedule on the compiled program from the initial state *)
Definition run_schedule (fuel : nat) (alg : algorithm) (c : wcfg) (calls0 : nat) (rs : list request)
  : list obs * state m2 :=
  let W := mk_xworld c in
  let (os, st) := run_all m2_ops alg (compile alg) W fuel (init_state alg W calls0) rs in
  (map obs_of os, st).

Definition check_schedule (fuel : nat) (alg : algorithm) (c : wcfg) (calls0 : nat) (rs : list request)
           (expected : list obs) : bool :=
  obs_list_eqb (fst (run_schedule fuel alg c calls0 rs)) expected.

(** value semantics: a value denotes the same as what the specification gives *)
Definition spec_obs (fuel : nat) (alg : algorithm) (c : wcfg) (name : string) (idx : index) : option m2 :=
  interp m2_ops alg (mk_sworld c) fuel (KN name) idx.

Definition obs_den_eqb (o : obs) (w : option m2) : bool :=
  match o, w with
  | OZero, Some m => m2_eqb m2_zero m
  | OOne, Some m => m2_eqb m2_one m
  | OVal x, Some m => m2_eqb x m
  | _, _ => false
  end.

Definition pending_left (st : state m2) : bool :=
  existsb (fun x => match lookup (cache st) (fst x) with Some Pending => true | _ => false end) (cache st).

Fixpoint input_events (l : list event) : list (string * index) :=
  match l with
  | [] => []
  | EvInput s i :: r => (s, i) :: input_events r
  | _ :: r => input_events r
  end.

(** comparison of input-evaluation logs as multisets *)
Definition ev_in (e : string * index) (l : list (string * index)) : bool :=
  existsb (fun x => String.eqb (fst x) (fst e) && index_eqb (snd x) (snd e)) l.
Definition evs_match (a b : list (string * index)) : bool :=
  Nat.eqb (length a) (length b) && forallb (fun e => ev_in e b) a && forallb (fun e => ev_in e a) b.

Definition check_log (fuel : nat) (alg : algorithm) (c : wcfg) (calls0 : nat) (rs : list request)
           (expected : list (string * index)) : bool :=
  evs_match (input_events (log (snd (run_schedule fuel alg c calls0 rs)))) expected.

(** observations, absence of in-flight markers and the number of callback invocations *)
Definition check_faulty (fuel : nat) (alg : algorithm) (c : wcfg) (calls0 : nat) (rs : list request)
           (expected : list obs) (ncalls : nat) : bool :=
  let (os, st) := run_schedule fuel alg c calls0 rs in
  obs_list_eqb os expected && negb (pending_left st) && Nat.eqb (calls st) ncalls.

(** multi-element requests (slices, list indices): the element indices in evaluation order *)
Definition mrequest := (tbl * string * list index)%type.

Inductive mobs := MVals (l : list obs) | MExn (e : exn) | MFuel.

Definition mobs_eqb (a b : mobs) : bool :=
  match a, b with
  | MVals x, MVals y => obs_list_eqb x y
  | MExn e, MExn f => exn_eqb e f
  | _, _ => false
  end.

Fixpoint run_mschedule (fuel : nat) (alg : algorithm) (W : xworld m2) (st : state m2) (rs : list mrequest)
  : list mobs * state m2 :=
  match rs with
  | [] => ([], st)
  | (tb, name, ixs) :: rest =>
      let '(r, st1) := run_multi m2_ops alg (compile alg) W fuel st tb name ixs in
      let o := match r with
               | Ok vs => MVals (map (fun v => obs_of (Ok v)) vs)
               | Raise e => MExn e
               | OutOfFuel => MFuel
               end in
      let '(os, st2) := run_mschedule fuel alg W st1 rest in
      (o :: os, st2)
  end.

Fixpoint mobs_list_eqb (a b : list mobs) : bool :=
  match a, b with
  | [], [] => true
  | x :: a', y :: b' => mobs_eqb x y && mobs_list_eqb a' b'
  | _, _ => false
  end.

Definition check_mschedule (fuel : nat) (alg : algorithm) (c : wcfg) (calls0 : nat) (rs : list mrequest)
           (expected : list mobs) : bool :=
  let W := mk_xworld c in
  mobs_list_eqb (fst (run_mschedule fuel alg W (init_state alg W calls0) rs)) expected.
