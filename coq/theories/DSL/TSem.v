(** DSL/TSem.v - the mathematical meaning of generated code (target expressions), without
    caches or sentinels, and the proof that [cexpr] (the composition of the four expression
    transformers of algorithm_parsing.py) preserves the meaning of source expressions:
    flattening of sums, negation of subtracted arguments with cancellation of double
    negation, [_safe_divide], series arguments, un-transposed adjoints on diagonal lines. *)
From Coq Require Import String List ZArith Bool Arith Setoid Morphisms RelationClasses.
From PV.DSL Require Import Syntax SyntaxAux Values Target Compile Interp Laws.
Import ListNotations.
Set Implicit Arguments.

Section TSem.
  Variable V : Type.
  Variable O : vops V.
  Variable eqv : V -> V -> Prop.
  Variable L : vlaws O eqv.
  Variable alg : algorithm.
  Variable W : sworld V.
  Variable sub : key -> index -> option V.
  Variable idx : index.

  Local Infix "==" := eqv (at level 70, no associativity).

  Fixpoint tden (racc : V) (t : texpr) : option V :=
    match t with
    | TResult => Some racc
    | TZero => Some (v0 O)
    | TGet s tr => sub (KN s) (if tr then transp idx else idx)
    | TDagger a => option_map (vadj O) (tden racc a)
    | TNeg a => option_map (vneg O) (tden racc a)
    | TZeroSum l =>
        option_map (vsum O)
          ((fix go (l : list texpr) : option (list V) :=
              match l with
              | [] => Some []
              | a :: r => obind (tden racc a) (fun x => obind (go r) (fun xs => Some (x :: xs)))
              end) l)
    | TSafeDiv a k => option_map (fun x => vdiv O x k) (tden racc a)
    | TCall f args =>
        option_map (fun vs => sw_fn W f vs idx)
          ((fix go (l : list targ) : option (list V) :=
              match l with
              | [] => Some []
              | TASeries s :: r =>
                  obind (iseries_arg O W sub idx f s) (fun x => obind (go r) (fun xs => Some (x :: xs)))
              | TAExpr a :: r =>
                  obind (tden racc a) (fun x => obind (go r) (fun xs => Some (x :: xs)))
              end) args)
    | TIfExp c a b => if flag_value W c idx then tden racc a else tden racc b
    end.

  Fixpoint tden_list (racc : V) (l : list texpr) : option (list V) :=
    match l with
    | [] => Some []
    | a :: r => obind (tden racc a) (fun x => obind (tden_list racc r) (fun xs => Some (x :: xs)))
    end.

  Definition tden_arg (racc : V) (f : string) (a : targ) : option V :=
    match a with
    | TASeries s => iseries_arg O W sub idx f s
    | TAExpr e => tden racc e
    end.

  Fixpoint tden_args (racc : V) (f : string) (l : list targ) : option (list V) :=
    match l with
    | [] => Some []
    | a :: r => obind (tden_arg racc f a) (fun x => obind (tden_args racc f r) (fun xs => Some (x :: xs)))
    end.

  Lemma tden_zsum racc l : tden racc (TZeroSum l) = option_map (vsum O) (tden_list racc l).
  Proof.
    cbn [tden]. f_equal. induction l as [|a r IH]; cbn; auto. now rewrite IH.
  Qed.

  Lemma tden_call racc f args :
    tden racc (TCall f args) = option_map (fun vs => sw_fn W f vs idx) (tden_args racc f args).
  Proof.
    cbn [tden]. f_equal. induction args as [|a r IH]; cbn; auto.
    destruct a; cbn; now rewrite IH.
  Qed.

  Lemma tden_list_app racc l1 l2 ws1 ws2 :
    tden_list racc l1 = Some ws1 -> tden_list racc l2 = Some ws2 ->
    tden_list racc (l1 ++ l2) = Some (ws1 ++ ws2).
  Proof.
    revert ws1. induction l1 as [|a r IH]; cbn; intros ws1 E1 E2.
    - inversion E1; subst. exact E2.
    - destruct (tden racc a) as [x|]; cbn in *; [|discriminate].
      destruct (tden_list racc r) as [xs|]; cbn in *; [|discriminate].
      inversion E1; subst. now rewrite (IH xs eq_refl E2).
  Qed.

  Lemma flat_sound racc t w :
    tden racc t = Some w -> exists ws, tden_list racc (flat t) = Some ws /\ vsum O ws == w.
  Proof.
    pose proof (vl_equiv L) as EQ.
    intros E.
    assert (G : flat t = [t] -> exists ws, tden_list racc (flat t) = Some ws /\ vsum O ws == w).
    { intros F. rewrite F. exists [w]. cbn [tden_list]. rewrite E. cbn [obind]. split; [reflexivity|].
      rewrite (vsum_cons L), (vsum_nil L). apply (add_0_r L). }
    destruct t; try (apply G; reflexivity).
    rewrite tden_zsum in E. cbn [flat].
    destruct (tden_list racc l) as [ws|]; cbn in E; [|discriminate].
    inversion E; subst. exists ws. split; auto. reflexivity.
  Qed.

  Lemma negate_sound racc t w :
    tden racc t = Some w -> exists w', tden racc (negate t) = Some w' /\ w' == vneg O w.
  Proof.
    pose proof (vl_equiv L) as EQ.
    intros E.
    assert (G : negate t = TNeg t -> exists w', tden racc (negate t) = Some w' /\ w' == vneg O w).
    { intros F. rewrite F. exists (vneg O w). cbn [tden]. rewrite E. cbn. split; reflexivity. }
    destruct t; try (apply G; reflexivity).
    cbn [negate]. cbn [tden] in E.
    destruct (tden racc t) as [y|]; cbn in E; [|discriminate]. inversion E; subst.
    exists y. split; auto. symmetry. apply (l_neg_neg L).
  Qed.

  Lemma negate_list_sound racc l ws :
    tden_list racc l = Some ws ->
    exists ws', tden_list racc (map negate l) = Some ws' /\ Forall2 (fun a b => b == vneg O a) ws ws'.
  Proof.
    revert ws. induction l as [|a r IH]; cbn; intros ws E.
    - inversion E; subst. exists []. split; auto.
    - destruct (tden racc a) as [x|] eqn:Ea; cbn in E; [|discriminate].
      destruct (tden_list racc r) as [xs|] eqn:Er; cbn in E; [|discriminate].
      inversion E; subst.
      destruct (negate_sound _ _ Ea) as (x' & Ex & Hx).
      destruct (IH _ eq_refl) as (xs' & Exs & Hxs).
      exists (x' :: xs'). rewrite Ex, Exs. cbn. split; auto.
  Qed.

  (** [dg]: the expression is compiled for a [diagonal] line, which is executed only on
      diagonal blocks *)
  Hypothesis sfn_proper :
    forall f l l' ix, Forall2 eqv l l' -> sw_fn W f l ix == sw_fn W f l' ix.

  Lemma cexpr_sound racc dg e :
    (dg = true -> idx_i idx = idx_j idx) ->
    forall w, iexpr O W sub idx e = Some w ->
    exists w', tden racc (cexpr dg e) = Some w' /\ w' == w.
  Proof.
    pose proof (vl_equiv L) as EQ.
    intros Hdg. induction e using expr_ind'; intros w E; cbn [iexpr cexpr] in *.
    - exists w. cbn. split; [exact E | reflexivity].
    - destruct (sub (KN s) (transp idx)) as [y|] eqn:Es; cbn in E; [|discriminate].
      inversion E; subst. exists (vadj O y). cbn [tden]. split; [|reflexivity].
      destruct dg; cbn.
      + assert (transp idx = idx) as T.
        { destruct idx as [[i j] n]. unfold transp; cbn. specialize (Hdg eq_refl). cbn in Hdg. now subst. }
        rewrite T in Es. now rewrite Es.
      + now rewrite Es.
    - inversion E; subst. exists (v0 O). cbn. split; [auto | reflexivity].
    - destruct (iexpr O W sub idx e) as [y|]; cbn in E; [|discriminate]. inversion E; subst.
      destruct (IHe _ eq_refl) as (y' & Ey & Hy). exists (vneg O y'). cbn [tden]. rewrite Ey. cbn.
      split; auto. now rewrite Hy.
    - destruct (iexpr O W sub idx e1) as [x|]; cbn in E; [|discriminate].
      destruct (iexpr O W sub idx e2) as [y|]; cbn in E; [|discriminate]. inversion E; subst.
      destruct (IHe1 _ eq_refl) as (x' & Ex & Hx). destruct (IHe2 _ eq_refl) as (y' & Ey & Hy).
      destruct (flat_sound _ _ Ex) as (wx & Fx & Sx). destruct (flat_sound _ _ Ey) as (wy & Fy & Sy).
      rewrite tden_zsum, (tden_list_app _ _ _ Fx Fy). cbn.
      eexists. split; [reflexivity|]. rewrite (vsum_app L), Sx, Sy, Hx, Hy. reflexivity.
    - destruct (iexpr O W sub idx e1) as [x|]; cbn in E; [|discriminate].
      destruct (iexpr O W sub idx e2) as [y|]; cbn in E; [|discriminate]. inversion E; subst.
      destruct (IHe1 _ eq_refl) as (x' & Ex & Hx). destruct (IHe2 _ eq_refl) as (y' & Ey & Hy).
      destruct (flat_sound _ _ Ex) as (wx & Fx & Sx). destruct (flat_sound _ _ Ey) as (wy & Fy & Sy).
      destruct (negate_list_sound _ _ Fy) as (wy' & Fy' & Ny).
      rewrite tden_zsum, (tden_list_app _ _ _ Fx Fy'). cbn.
      eexists. split; [reflexivity|]. rewrite (vsum_app L), (vsum_neg L Ny), Sx, Sy, Hx, Hy. reflexivity.
    - destruct (iexpr O W sub idx e) as [y|]; cbn in E; [|discriminate]. inversion E; subst.
      destruct (IHe _ eq_refl) as (y' & Ey & Hy). exists (vdiv O y' k). cbn [tden]. rewrite Ey. cbn.
      split; auto. apply (l_div_proper L k). exact Hy.
    - (* Call *)
      rewrite tden_call.
      match type of E with option_map _ ?g = _ => destruct g as [vs|] eqn:G; cbn in E; [|discriminate] end.
      inversion E; subst. clear E.
      match goal with |- context [tden_args racc f ?l] =>
        assert (exists vs', tden_args racc f l = Some vs' /\ Forall2 eqv vs' vs) as (vs' & Ev & Hv) end.
      { revert vs G. induction H as [|a r Ha Hr IH]; intros vs G.
        - inversion G; subst. exists []. cbn. split; auto.
        - match type of G with obind ?g _ = _ => destruct g as [x|] eqn:Ex; cbn [obind] in G; [|discriminate] end.
          match type of G with obind ?g _ = _ => destruct g as [xs|] eqn:Gr; cbn [obind] in G; [|discriminate] end.
          inversion G; subst. destruct (IH _ eq_refl) as (xs' & Exs & Hxs).
          cbn [tden_args].
          destruct (arg_series a) as [s|] eqn:As.
          + exists (x :: xs'). cbn [tden_arg]. rewrite Ex. cbn [obind]. rewrite Exs. cbn [obind].
            split; auto. constructor; auto. reflexivity.
          + destruct a as [s|e]; [discriminate|]. cbn [argP] in Ha.
            destruct (Ha _ Ex) as (x' & Ex' & Hx').
            exists (x' :: xs'). cbn [tden_arg]. rewrite Ex'. cbn [obind]. rewrite Exs. cbn [obind].
            split; auto. }
      rewrite Ev. cbn. eexists. split; [reflexivity|]. now apply sfn_proper.
    - destruct (flag_value W c idx) eqn:F; cbn [tden]; rewrite F; auto.
  Qed.

  Local Notation "a + b" := (vadd O a b).

  (** [result = _zero_sum(result, <line>)] adds the value of the line *)
  Lemma ctop_sound r0 e x :
    iexpr O W sub idx e = Some x ->
    exists w, tden r0 (ctop false e) = Some w /\ w == r0 + x.
  Proof.
    pose proof (vl_equiv L) as EQ.
    intros E. destruct (@cexpr_sound r0 false e ltac:(discriminate) _ E) as (x' & Ex & Hx).
    destruct (flat_sound _ _ Ex) as (ws & Fw & Sw).
    unfold ctop. rewrite tden_zsum. cbn [tden_list tden obind]. rewrite Fw. cbn [obind option_map].
    eexists. split; [reflexivity|]. rewrite (vsum_cons L), Sw, Hx. reflexivity.
  Qed.

  Lemma cwrap_sound r0 dg f e x :
    (dg = true -> idx_i idx = idx_j idx) ->
    iwrapped O W sub idx f e = Some x ->
    exists w, tden r0 (TZeroSum [TResult; TCall f [cwrap_arg dg e]]) = Some w /\ w == r0 + x.
  Proof.
    pose proof (vl_equiv L) as EQ.
    intros Hdg E. unfold iwrapped in E.
    assert (exists y, tden_arg r0 f (cwrap_arg dg e) = Some y /\ sw_fn W f [y] idx == x) as (y & Ey & Hy).
    { destruct e; cbn [cwrap_arg tden_arg];
        try (match type of E with option_map _ ?g = _ => destruct g as [z|] eqn:G; cbn in E; [|discriminate] end;
             inversion E; subst;
             destruct (@cexpr_sound r0 dg _ Hdg _ G) as (z' & Ez & Hz);
             exists z'; split; [exact Ez | apply sfn_proper; constructor; auto]).
      destruct (iseries_arg O W sub idx f s) as [z|] eqn:G; cbn in E; [|discriminate].
      inversion E; subst. exists z. split; auto. reflexivity. }
    rewrite tden_zsum. cbn [tden_list]. rewrite tden_call. change (tden r0 TResult) with (Some r0).
    cbn [tden_args obind]. rewrite Ey. cbn [obind option_map]. eexists. split; [reflexivity|].
    rewrite (vsum_cons L), (vsum_cons L), (vsum_nil L), (add_0_r L), Hy. reflexivity.
  Qed.

  Lemma cmarker_sound r0 name h a :
    sub (KN name) (transp idx) = Some a ->
    exists w,
      tden r0 (TZeroSum [TResult; match h with Herm => TDagger (TGet name true) | AntiHerm => TNeg (TDagger (TGet name true)) end]) = Some w
      /\ w == r0 + match h with Herm => vadj O a | AntiHerm => vneg O (vadj O a) end.
  Proof.
    pose proof (vl_equiv L) as EQ.
    intros E. rewrite tden_zsum. cbn [tden_list obind]. cbn [tden].
    destruct h; cbn [tden]; rewrite E; cbn [obind option_map]; eexists; (split; [reflexivity|]);
      rewrite (vsum_cons L), (vsum_cons L), (vsum_nil L), (add_0_r L); reflexivity.
  Qed.
End TSem.
