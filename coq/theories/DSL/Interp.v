(** DSL/Interp.v - THE SPECIFICATION: a direct, unoptimised, index-level interpretation of
    a program of the series mini-language.

    No cache, no deletion, no Hermitian shortcut, no sentinel, no table.  Values are
    elements of an abstract coefficient structure [V] with operations [vops V].

      interp fuel key (i, j, n) : option V          (None = not enough fuel / undefined name)

    - an input [X] denotes the given element [sw_env X (i,j,n)];
    - a defined series: at order 0 the start datum if there is one (start = 0: 0 for every
      block; start = 1: 1 on the DIAGONAL blocks only, off-diagonal order-0 blocks are
      computed by the body; start = "X_0": the order-0 element of the input X; any other
      start string: nothing), otherwise the sum, in order, of the lines whose condition
      holds at (i,j):  a hermitian/antihermitian marker means "for i > j the value is
      (what was accumulated so far) +- adj of the (j,i) element, and stop";
    - ["s"] is the element of s at (i,j,n), ["s".adj] the adjoint of the element at (j,i,n);
    - a scope function receives its evaluated arguments and the index; a series argument
      f("s") is the element of s at the index if the function dereferences it there
      ([sw_access f idx]; e.g. block_diagonalize's [offdiag] does not look at the series on
      rows it does not act on) and 0 otherwise; a [diagonal] line is wrapped by the scope
      function [diag], the diagonal-block copy of an [offdiagonal] line by [offdiag] (when
      the scope has one); a bare string literal in these positions is a series argument;
    - a product name denotes the Cauchy product of its factors, the full sum over the
      intermediate block and over all splittings of the multi-order; more than two factors
      associate to the left: (A @ B) @ C.  The product is non-strict in exactly one way: a
      term one of whose factors IS (mathematically) zero is 0 even if the other factor is
      undefined ("0 times anything is 0"; [vis0] is a sound test for zero of the coefficient
      structure).  This is what makes recurrences such as  W = -(U'† @ U')/2 , U' = W + V
      well founded (the only same-order occurrence of W on the right is multiplied by the
      zeroth order of U', which is 0).                                        *)
From Coq Require Import String List ZArith Bool Arith.
From PV.DSL Require Import Syntax SyntaxAux Values.
Import ListNotations.
Set Implicit Arguments.

(* ----------------------------------------------------------------- static structure *)

Definition mem_string (s : string) (l : list string) : bool := existsb (String.eqb s) l.

Inductive kind :=
| KInput
| KSeries (d : sdef)
| KProduct (p : pdef)
| KUnknown.

(** name resolution in the dictionaries of series_computation: products are inserted last,
    defined series overwrite inputs *)
Definition kind_of (alg : algorithm) (inputs : list string) (s : string) : kind :=
  match find_pdef s (aproducts alg) with
  | Some p => KProduct p
  | None =>
      match find_sdef s (aseries alg) with
      | Some d => KSeries d
      | None => if mem_string s inputs then KInput else KUnknown
      end
  end.

(** all tuples (m_1..m_k) with m_i <= n_i, in the order of
    itertools.product(range(n_1+1), ..., range(n_k+1)) *)
Fixpoint splits (n : list nat) : list (list nat) :=
  match n with
  | [] => [[]]
  | x :: r => flat_map (fun a => map (cons a) (splits r)) (seq 0 (S x))
  end.

Fixpoint lsub (n m : list nat) : list nat :=
  match n, m with
  | x :: n', y :: m' => (x - y) :: lsub n' m'
  | _, _ => []
  end.

(** tuple comparison  a > b  (lexicographic) *)
Fixpoint lex_gt (a b : list nat) : bool :=
  match a, b with
  | x :: a', y :: b' => if Nat.ltb y x then true else if Nat.ltb x y then false else lex_gt a' b'
  | _ :: _, [] => true
  | _, _ => false
  end.

(** cost(orders) = prod (i + 1)^2 *)
Definition cost (m : list nat) : nat := fold_left (fun a i => a * ((i + 1) * (i + 1))) m 1.

(** the iteration space of product_by_order: (middle, orders_1st) *)
Definition pbo_space (nb : nat) (n : list nat) : list (nat * list nat) :=
  flat_map (fun mid => map (pair mid) (splits n)) (seq 0 nb).

(** factors of the product of the first [k] factors of [p] (k >= 2) *)
Definition first_key (p : pdef) (k : nat) : key :=
  if Nat.eqb k 2 then KN (nth 0 (pfactors p) EmptyString) else KI (pname p) (k - 1).
Definition second_key (p : pdef) (k : nat) : key := KN (nth (k - 1) (pfactors p) EmptyString).

(* ------------------------------------------------------------------------- the world *)

Record sworld (V : Type) := {
  sw_nb : nat;                                  (* number of blocks: shape = (nb, nb) *)
  sw_np : nat;                                  (* number of perturbation parameters (n_infinite) *)
  sw_inputs : list string;                      (* names of the input series *)
  sw_env : string -> index -> V;                (* elements of the inputs *)
  sw_hasoff : bool;                             (* the scope provides [offdiag] *)
  sw_gflag : string -> bool;                    (* global flags, e.g. two_block_optimized *)
  sw_rflag : string -> nat -> bool;             (* row flags, e.g. commuting_blocks[index[0]] *)
  sw_access : string -> index -> bool;          (* f dereferences its series arguments at idx *)
  sw_fn : string -> list V -> index -> V        (* scope functions *)
}.

Definition obind {A B} (x : option A) (f : A -> option B) : option B :=
  match x with Some a => f a | None => None end.

Section Interp.
  Variable V : Type.
  Variable O : vops V.
  Variable alg : algorithm.
  Variable W : sworld V.

  Notation inputs := (sw_inputs W).

  Definition flag_value (c : flag) (idx : index) : bool :=
    match c with
    | FlagGlobal n => sw_gflag W n
    | FlagRow n => sw_rflag W n (idx_i idx)
    end.

  (** start data exist for the blocks of the series at the zeroth order *)
  Definition is_start_index (idx : index) : bool :=
    all_zero (idx_n idx) && Nat.eqb (length (idx_n idx)) (sw_np W)
    && Nat.ltb (idx_i idx) (sw_nb W) && Nat.ltb (idx_j idx) (sw_nb W).

  (** start datum of a defined series, as a value *)
  Definition spec_start (d : sdef) (idx : index) : option V :=
    if is_start_index idx then
      match sstart d with
      | StartZero => Some (v0 O)
      | StartOne => if Nat.eqb (idx_i idx) (idx_j idx) then Some (v1 O) else None
      | StartInput x => if mem_string x inputs then Some (sw_env W x idx) else None
      | NoStart | StartOther _ => None
      end
    else None.

  Section Rhs.
    (** values of all elements, one level down *)
    Variable sub : key -> index -> option V.
    Variable idx : index.

    Definition iseries_arg (f s : string) : option V :=
      if sw_access W f idx then sub (KN s) idx else Some (v0 O).

    Fixpoint iexpr (e : expr) : option V :=
      match e with
      | Lit s => sub (KN s) idx
      | Adj s => option_map (vadj O) (sub (KN s) (transp idx))
      | EZero => Some (v0 O)
      | Neg a => option_map (vneg O) (iexpr a)
      | Add a b => obind (iexpr a) (fun x => obind (iexpr b) (fun y => Some (vadd O x y)))
      | Sub a b => obind (iexpr a) (fun x => obind (iexpr b) (fun y => Some (vadd O x (vneg O y))))
      | DivInt a k => option_map (fun x => vdiv O x k) (iexpr a)
      | Call f args =>
          option_map (fun vs => sw_fn W f vs idx)
            ((fix go (l : list arg) : option (list V) :=
                match l with
                | [] => Some []
                | a :: r =>
                    obind (match arg_series a with
                           | Some s => iseries_arg f s
                           | None => match a with
                                     | ArgExpr e' => iexpr e'
                                     | ArgSeries s => iseries_arg f s
                                     end
                           end)
                          (fun x => obind (go r) (fun xs => Some (x :: xs)))
                end) args)
      | IfFlag c a b => if flag_value c idx then iexpr a else iexpr b
      end.

    (** a line wrapped by diag / offdiag *)
    Definition iwrapped (f : string) (e : expr) : option V :=
      option_map (fun x => sw_fn W f [x] idx)
                 (match e with Lit s => iseries_arg f s | _ => iexpr e end).

    Fixpoint ibody (name : string) (lines : list line) (acc : V) : option V :=
      match lines with
      | [] => Some acc
      | Marker h :: r =>
          if Nat.ltb (idx_j idx) (idx_i idx) then
            option_map (fun a => vadd O acc (match h with Herm => vadj O a | AntiHerm => vneg O (vadj O a) end))
                       (sub (KN name) (transp idx))
          else ibody name r acc
      | Line Default e :: r => obind (iexpr e) (fun x => ibody name r (vadd O acc x))
      | Line Diagonal e :: r =>
          if Nat.eqb (idx_i idx) (idx_j idx)
          then obind (iwrapped "diag" e) (fun x => ibody name r (vadd O acc x))
          else ibody name r acc
      | Line Offdiagonal e :: r =>
          if negb (Nat.eqb (idx_i idx) (idx_j idx))
          then obind (iexpr e) (fun x => ibody name r (vadd O acc x))
          else if sw_hasoff W
               then obind (iwrapped "offdiag" e) (fun x => ibody name r (vadd O acc x))
               else ibody name r acc
      end.

    (** One term a * b of a Cauchy product, non-strict: [Some None] = the term is 0 because one
        factor is 0 (the other one is not needed), [Some (Some t)] = the product, [None] =
        undefined.  The two factors are given as thunks; [first_a] says which one is looked at
        first - semantically irrelevant (the definition is symmetric up to 0*x = x*0 = 0);
        looking first at the factor of lower order keeps the definition executable on
        recurrences. *)
    Definition lazy_term (first_a : bool) (fa fb : unit -> option V) : option (option V) :=
      if first_a then
        match fa tt with
        | Some a =>
            if vis0 O a then Some None
            else match fb tt with Some b => Some (Some (vmul O a b)) | None => None end
        | None =>
            match fb tt with
            | Some b => if vis0 O b then Some None else None
            | None => None
            end
        end
      else
        match fb tt with
        | Some b =>
            if vis0 O b then Some None
            else match fa tt with Some a => Some (Some (vmul O a b)) | None => None end
        | None =>
            match fa tt with
            | Some a => if vis0 O a then Some None else None
            | None => None
            end
        end.

    (** Cauchy product of the series [k1] and [k2] at [idx].
        [half = false] : THE SPECIFICATION, the full sum.
        [half = true]  : the half-sum of product_by_order(hermitian=True) on a diagonal block
        (terms with orders_1st > orders_2nd dropped, the others counted with their adjoint);
        not part of the specification - used to state when the shortcut is valid. *)
    Fixpoint iprod_loop (half : bool) (k1 k2 : key) (l : list (nat * list nat)) (acc : V) : option V :=
      match l with
      | [] => Some acc
      | (mid, m1) :: r =>
          let m2 := lsub (idx_n idx) m1 in
          let i1 := (idx_i idx, mid, m1) in
          let i2 := (mid, idx_j idx, m2) in
          if half && lex_gt m1 m2 then iprod_loop half k1 k2 r acc
          else
            match lazy_term (Nat.leb (cost m1) (cost m2)) (fun _ => sub k1 i1) (fun _ => sub k2 i2) with
            | None => None
            | Some None => iprod_loop half k1 k2 r acc
            | Some (Some t) =>
                if half && negb (lnat_eqb m1 m2)
                then iprod_loop half k1 k2 r (vadd O (vadd O acc t) (vadj O t))
                else iprod_loop half k1 k2 r (vadd O acc t)
            end
      end.

    Definition iprod_gen (half : bool) (k1 k2 : key) : option V :=
      iprod_loop half k1 k2 (pbo_space (sw_nb W) (idx_n idx)) (v0 O).

    Definition iprod (k1 k2 : key) : option V := iprod_gen false k1 k2.

    Definition rhs (k : key) : option V :=
      match k with
      | KN s =>
          match kind_of alg inputs s with
          | KInput => Some (sw_env W s idx)
          | KSeries d =>
              match spec_start d idx with
              | Some v => Some v
              | None => ibody (sname d) (sbody d) (v0 O)
              end
          | KProduct p =>
              let m := length (pfactors p) in
              if Nat.leb 2 m then iprod (first_key p m) (second_key p m) else None
          | KUnknown => None
          end
      | KI pn k' =>
          match find_pdef pn (aproducts alg) with
          | Some p =>
              if Nat.leb 2 k' && Nat.ltb k' (length (pfactors p))
              then iprod (first_key p k') (second_key p k') else None
          | None => None
          end
      end.
  End Rhs.

  Fixpoint interp (fuel : nat) (k : key) (idx : index) : option V :=
    match fuel with
    | 0 => None
    | S f => rhs (interp f) idx k
    end.
End Interp.
