(** DSL/Values.v - indices, keys, exception classes, results, sentinel values and the
    Python-level arithmetic on them as used by the generated code of
    pymablock/algorithm_parsing.py and by series.py (product_by_order).

    Self-contained (standard library only).  *)
From Coq Require Import String List ZArith Bool Arith Lia.
Import ListNotations.
Set Implicit Arguments.

(** A full integer index (i, j, orders) of a BlockSeries with two finite dimensions. *)
Definition index := (nat * nat * list nat)%type.

Definition idx_i (x : index) : nat := fst (fst x).
Definition idx_j (x : index) : nat := snd (fst x).
Definition idx_n (x : index) : list nat := snd x.

(** (index[1], index[0], *index[2:]) *)
Definition transp (x : index) : index := (idx_j x, idx_i x, idx_n x).

Fixpoint lnat_eqb (a b : list nat) : bool :=
  match a, b with
  | [], [] => true
  | x :: a', y :: b' => Nat.eqb x y && lnat_eqb a' b'
  | _, _ => false
  end.

Lemma lnat_eqb_eq a b : lnat_eqb a b = true <-> a = b.
Proof.
  revert b; induction a as [|x a IH]; destruct b as [|y b]; cbn; try (split; congruence).
  rewrite andb_true_iff, Nat.eqb_eq, IH. split; [intros [-> ->]; reflexivity | intros E; inversion E; auto].
Qed.

Definition index_eqb (a b : index) : bool :=
  Nat.eqb (idx_i a) (idx_i b) && Nat.eqb (idx_j a) (idx_j b) && lnat_eqb (idx_n a) (idx_n b).

Lemma index_eqb_eq a b : index_eqb a b = true <-> a = b.
Proof.
  destruct a as [[i j] n], b as [[i' j'] n']; unfold index_eqb; cbn.
  rewrite !andb_true_iff, !Nat.eqb_eq, lnat_eqb_eq.
  split; [intros [[-> ->] ->]; reflexivity | intros E; inversion E; auto].
Qed.

Fixpoint all_zero (n : list nat) : bool :=
  match n with [] => true | x :: r => Nat.eqb x 0 && all_zero r end.

(** The objects that own a cache: a named entry of the dictionary [series] (or of
    [linear_operator_series]), or the anonymous inner product of the first [k] factors of the
    declared product [p] (cauchy_dot_product of more than two factors nests to the left). *)
Inductive key :=
| KN (s : string)
| KI (p : string) (k : nat).

Definition key_eqb (a b : key) : bool :=
  match a, b with
  | KN s, KN t => String.eqb s t
  | KI p k, KI q l => String.eqb p q && Nat.eqb k l
  | _, _ => false
  end.

Lemma key_eqb_eq a b : key_eqb a b = true <-> a = b.
Proof.
  destruct a, b; cbn; try (split; congruence).
  - rewrite String.eqb_eq. split; congruence.
  - rewrite andb_true_iff, String.eqb_eq, Nat.eqb_eq. split; [intros [-> ->]; auto | intros E; inversion E; auto].
Qed.

(** The two dictionaries of series_computation. *)
Inductive tbl := TTab | TLin.
Definition tbl_eqb (a b : tbl) : bool :=
  match a, b with TTab, TTab | TLin, TLin => true | _, _ => false end.
Lemma tbl_eqb_eq a b : tbl_eqb a b = true <-> a = b.
Proof. destruct a, b; cbn; split; congruence. Qed.

Definition ckey := (tbl * key * index)%type.
Definition ckey_eqb (a b : ckey) : bool :=
  tbl_eqb (fst (fst a)) (fst (fst b)) && key_eqb (snd (fst a)) (snd (fst b)) && index_eqb (snd a) (snd b).
Lemma ckey_eqb_eq a b : ckey_eqb a b = true <-> a = b.
Proof.
  destruct a as [[t k] i], b as [[t' k'] i']; unfold ckey_eqb; cbn.
  rewrite !andb_true_iff, tbl_eqb_eq, key_eqb_eq, index_eqb_eq.
  split; [intros [[-> ->] ->]; auto | intros E; inversion E; auto].
Qed.
Lemma ckey_eqb_refl a : ckey_eqb a a = true.
Proof. now apply ckey_eqb_eq. Qed.
Lemma ckey_eqb_neq a b : ckey_eqb a b = false <-> a <> b.
Proof.
  split.
  - intros E F. apply ckey_eqb_eq in F. congruence.
  - intros N. destruct (ckey_eqb a b) eqn:E; auto. apply ckey_eqb_eq in E. contradiction.
Qed.

(** Exception classes that can reach the caller. [UserExn c]: class raised by a user
    callback (0 = Exception, 1 = KeyboardInterrupt-like BaseException, ...); a user
    RuntimeError is [RuntimeError]. *)
Inductive exn :=
| RuntimeError
| TypeError
| KeyError
| SympifyError
| IndexError
| UserExn (c : nat).

Definition exn_eqb (a b : exn) : bool :=
  match a, b with
  | RuntimeError, RuntimeError | TypeError, TypeError | KeyError, KeyError
  | SympifyError, SympifyError | IndexError, IndexError => true
  | UserExn c, UserExn d => Nat.eqb c d
  | _, _ => false
  end.

Inductive res (A : Type) :=
| Ok (a : A)
| Raise (e : exn)
| OutOfFuel.
Arguments Ok {A} a.
Arguments Raise {A} e.
Arguments OutOfFuel {A}.

(** Stored values: the sentinels [zero], [one] of series.py or any other object. *)
Inductive sval (V : Type) :=
| SZero
| SOne
| SVal (v : V).
Arguments SZero {V}.
Arguments SOne {V}.
Arguments SVal {V} v.

Definition is_zero {V} (x : sval V) : bool := match x with SZero => true | _ => false end.

(** Operations of the coefficient structure. *)
Record vops (V : Type) := {
  v0 : V;
  v1 : V;
  vadd : V -> V -> V;
  vneg : V -> V;
  vmul : V -> V -> V;          (* the [operator] *)
  vadj : V -> V;               (* Dagger *)
  vdiv : V -> Z -> V;          (* division by an integer literal *)
  vis0 : V -> bool             (* a (sound) test for the mathematical zero; used ONLY by the
                                  specification of products, never by the evaluator *)
}.

Section SOps.
  Variable V : Type.
  Variable O : vops V.

  Definition den (x : sval V) : V :=
    match x with SZero => v0 O | SOne => v1 O | SVal v => v end.

  (** [x + y] *)
  Definition sadd (x y : sval V) : res (sval V) :=
    match x, y with
    | SZero, _ => Ok y                           (* Zero.__add__ returns other *)
    | SVal a, SVal b => Ok (SVal (vadd O a b))
    | _, _ => Raise TypeError
    end.

  (** [-x] *)
  Definition sneg (x : sval V) : res (sval V) :=
    match x with
    | SZero => Ok SZero
    | SVal a => Ok (SVal (vneg O a))
    | SOne => Raise TypeError
    end.

  (** [Dagger(x)] *)
  Definition sdagger (x : sval V) : res (sval V) :=
    match x with
    | SZero => Ok SZero
    | SVal a => Ok (SVal (vadj O a))
    | SOne => Raise SympifyError
    end.

  (** [_safe_divide(x, k)] : x / k, on TypeError x * (1 / k) *)
  Definition sdivide (x : sval V) (k : Z) : res (sval V) :=
    match x with
    | SZero => Ok SZero                          (* zero / k raises TypeError; zero * (1/k) is zero *)
    | SVal a => Ok (SVal (vdiv O a k))
    | SOne => Raise TypeError
    end.

  (** [sum((t for t in terms if t is not zero), start=zero)] *)
  Fixpoint ssum_from (acc : sval V) (l : list (sval V)) : res (sval V) :=
    match l with
    | [] => Ok acc
    | t :: r =>
        if is_zero t then ssum_from acc r
        else match sadd acc t with
             | Ok a => ssum_from a r
             | Raise e => Raise e
             | OutOfFuel => OutOfFuel
             end
    end.
  Definition szero_sum (l : list (sval V)) : res (sval V) := ssum_from SZero l.
End SOps.
