(** DSL/HermValid.v - when the Hermitian shortcuts of cauchy_dot_product(hermitian=True) are
    valid, in the sense of the specification.

    General lemma: let P = K1 @ K2 be a two-factor product such that, at every multi-order m
    strictly inside 0 < m < n, the element (k,i,m) of K2 is the adjoint partner of the
    element (i,k,m) of K1 (whenever both are defined), and the order-0 elements of both
    factors are 0.  Then at order n
      - P(i,j,n) is the adjoint of P(j,i,n)                         ([prod_adjoint]),
      - on a diagonal block the half-sum equals the full sum          ([half_sum_valid]).
    Everything is stated for arbitrary fuels (the two sides may be evaluated with different
    fuels). *)
From Coq Require Import String List ZArith Bool Arith Lia Setoid Morphisms RelationClasses Permutation.
From PV.DSL Require Import Syntax Values Interp Laws Sound HermSums.
Import ListNotations.
Set Implicit Arguments.

Section General.
  Variable V : Type.
  Variable O : vops V.
  Variable eqv : V -> V -> Prop.
  Variable L : vlaws O eqv.

  Local Infix "==" := eqv (at level 70, no associativity).
  Local Notation "a + b" := (vadd O a b).
  Local Notation "a * b" := (vmul O a b).
  Local Notation vz := (v0 O).
  Local Notation sum := (vsum O).

  Definition contrib (r : option V) : V := match r with None => vz | Some t => t end.

  Lemma lazy_char c (oa ob : option V) r :
    lazy_term O c (fun _ => oa) (fun _ => ob) = Some r ->
    match oa, ob with
    | Some a, Some b => contrib r == a * b
    | Some a, None => a == vz /\ contrib r == vz
    | None, Some b => b == vz /\ contrib r == vz
    | None, None => False
    end.
  Proof.
    pose proof (vl_equiv L) as EQ.
    unfold lazy_term. destruct c.
    - destruct oa as [a|]; [destruct (vis0 O a) eqn:Z|].
      + intros E. inversion E; subst. apply (l_is0 L) in Z.
        destruct ob; cbn; [rewrite Z; symmetry; apply (l_mul_0_l L) | split; [auto|reflexivity]].
      + destruct ob; intros E; inversion E; subst. cbn. reflexivity.
      + destruct ob as [b|]; [|discriminate]. destruct (vis0 O b) eqn:Z; [|discriminate].
        intros E. inversion E; subst. apply (l_is0 L) in Z. split; [auto | reflexivity].
    - destruct ob as [b|]; [destruct (vis0 O b) eqn:Z|].
      + intros E. inversion E; subst. apply (l_is0 L) in Z.
        destruct oa; cbn; [rewrite Z; symmetry; apply (l_mul_0_r L) | split; [auto|reflexivity]].
      + destruct oa; intros E; inversion E; subst. cbn. reflexivity.
      + destruct oa as [a|]; [|discriminate]. destruct (vis0 O a) eqn:Z; [|discriminate].
        intros E. inversion E; subst. apply (l_is0 L) in Z. split; [auto | reflexivity].
  Qed.

  (** a term one of whose factors is 0 (if defined) contributes 0 *)
  Lemma lazy_zero_r c oa ob r :
    lazy_term O c (fun _ => oa) (fun _ => ob) = Some r -> (forall y, ob = Some y -> y == vz) -> contrib r == vz.
  Proof.
    pose proof (vl_equiv L) as EQ.
    intros E Z. apply lazy_char in E. destruct oa as [a|], ob as [b|]; try tauto.
    rewrite E, (Z b eq_refl). apply (l_mul_0_r L).
  Qed.

  Lemma lazy_zero_l c oa ob r :
    lazy_term O c (fun _ => oa) (fun _ => ob) = Some r -> (forall x, oa = Some x -> x == vz) -> contrib r == vz.
  Proof.
    pose proof (vl_equiv L) as EQ.
    intros E Z. apply lazy_char in E. destruct oa as [a|], ob as [b|]; try tauto.
    rewrite E, (Z a eq_refl). apply (l_mul_0_l L).
  Qed.

  (** the adjoint of a term is the mirrored term, when the factors are adjoint partners *)
  Lemma lazy_reflect c1 c2 (a1 b1 a2 b2 : option V) r1 r2 :
    lazy_term O c1 (fun _ => a1) (fun _ => b1) = Some r1 ->
    lazy_term O c2 (fun _ => a2) (fun _ => b2) = Some r2 ->
    (forall x y, a1 = Some x -> b2 = Some y -> x == vadj O y) ->
    (forall x y, a2 = Some x -> b1 = Some y -> x == vadj O y) ->
    vadj O (contrib r1) == contrib r2.
  Proof.
    pose proof (vl_equiv L) as EQ.
    intros E1 E2 C1 C2. apply lazy_char in E1, E2.
    assert (A0 : vadj O vz == vz) by apply (l_adj_0 L).
    destruct a1 as [x1|], b1 as [y1|]; try tauto.
    - destruct a2 as [x2|], b2 as [y2|]; try tauto.
      + rewrite E1, E2, (l_adj_mul L), (C1 _ _ eq_refl eq_refl), (C2 _ _ eq_refl eq_refl), (l_adj_adj L). reflexivity.
      + destruct E2 as [Z2 ->]. rewrite E1, (l_adj_mul L), <- (C2 _ _ eq_refl eq_refl), Z2. apply (l_mul_0_l L).
      + destruct E2 as [Z2 ->]. rewrite E1, (C1 _ _ eq_refl eq_refl), Z2, A0, (l_mul_0_l L). exact A0.
    - destruct E1 as [Z1 ->]. rewrite A0. symmetry.
      destruct a2 as [x2|], b2 as [y2|]; try tauto; try apply E2.
      rewrite E2. assert (y2 == vz) as ->.
      { rewrite <- (l_adj_adj L y2), <- (C1 _ _ eq_refl eq_refl), Z1. exact A0. }
      apply (l_mul_0_r L).
    - destruct E1 as [Z1 ->]. rewrite A0. symmetry.
      destruct a2 as [x2|], b2 as [y2|]; try tauto; try apply E2.
      rewrite E2, (C2 _ _ eq_refl eq_refl), Z1, A0. apply (l_mul_0_l L).
  Qed.

  (* ------------------------------------------------- loops as sums of term values *)
  Section Loop.
    Variable sub : key -> index -> option V.
    Variables (i j : nat) (n : list nat) (k1 k2 : key).

    Definition tvo (p : nat * list nat) : option (option V) :=
      lazy_term O (Nat.leb (cost (snd p)) (cost (lsub n (snd p))))
                (fun _ => sub k1 (i, fst p, snd p)) (fun _ => sub k2 (fst p, j, lsub n (snd p))).

    Definition tv (p : nat * list nat) : V := match tvo p with Some r => contrib r | None => vz end.

    Lemma loop_full l : forall acc w,
      iprod_loop O sub (i, j, n) false k1 k2 l acc = Some w ->
      (forall p, In p l -> tvo p <> None) /\ w == acc + sum (map tv l).
    Proof.
      pose proof (vl_equiv L) as EQ.
      induction l as [|[mid m] r IH]; intros acc w E; cbn [iprod_loop] in E.
      - inversion E; subst. split; [intros p []|]. rewrite (vsum_nil L). symmetry. apply (add_0_r L).
      - cbn [andb idx_i idx_j idx_n fst snd] in E.
        change (lazy_term O _ _ _) with (tvo (mid, m)) in E.
        destruct (tvo (mid, m)) as [[t|]|] eqn:T; [| |discriminate]; destruct (IH _ _ E) as [D S].
        + split; [intros p [<-|Hp]; [congruence | auto]|].
          cbn [map]. rewrite (vsum_cons L), S. unfold tv at 2. rewrite T. cbn [contrib]. apply (l_add_assoc L).
        + split; [intros p [<-|Hp]; [congruence | auto]|].
          cbn [map]. rewrite (vsum_cons L), S. unfold tv at 2. rewrite T. cbn [contrib]. now rewrite (l_add_0_l L).
    Qed.

    Definition hterm (p : nat * list nat) : V := half_term O n (fun m => tv (fst p, m)) (snd p).

    Lemma loop_half l : forall acc w,
      iprod_loop O sub (i, j, n) true k1 k2 l acc = Some w ->
      (forall p, In p l -> lex_gt (snd p) (lsub n (snd p)) = false -> tvo p <> None) /\
      w == acc + sum (map hterm l).
    Proof.
      pose proof (vl_equiv L) as EQ.
      induction l as [|[mid m] r IH]; intros acc w E; cbn [iprod_loop] in E.
      - inversion E; subst. split; [intros p []|]. rewrite (vsum_nil L). symmetry. apply (add_0_r L).
      - cbn [andb idx_i idx_j idx_n fst snd] in E.
        change (lazy_term O _ _ _) with (tvo (mid, m)) in E.
        cbn [map]. rewrite (vsum_cons L). unfold hterm at 1, half_term. cbn [fst snd].
        destruct (lex_gt m (lsub n m)) eqn:G.
        + destruct (IH _ _ E) as [D S]. split; [intros p [<-|Hp]; [cbn; congruence | auto]|].
          now rewrite S, (l_add_0_l L).
        + destruct (tvo (mid, m)) as [[t|]|] eqn:T; [| |discriminate].
          * assert (Tv : tv (mid, m) = t) by (unfold tv; now rewrite T).
            destruct (lnat_eqb m (lsub n m)) eqn:Q; cbn [negb] in E; destruct (IH _ _ E) as [D S];
              (split; [intros p [<-|Hp]; [congruence | auto]|]); rewrite S, Tv.
            -- apply (l_add_assoc L).
            -- rewrite !(l_add_assoc L). reflexivity.
          * assert (Tv : tv (mid, m) = vz) by (unfold tv; now rewrite T).
            destruct (IH _ _ E) as [D S]. split; [intros p [<-|Hp]; [congruence | auto]|].
            rewrite S, Tv. destruct (lnat_eqb m (lsub n m)); rewrite ?(l_adj_0 L), !(l_add_0_l L); reflexivity.
    Qed.
  End Loop.

  (* ----------------------------------------------------------- the general theorems *)
  Section Product.
    Variable alg : algorithm.
    Variable W : sworld V.
    Variables k1 k2 : key.
    Variable n : list nat.
    Notation spec := (interp O alg W).
    Notation nb := (sw_nb W).
    Notation zeros := (lsub n n).

    (** adjoint partners strictly inside the cone, for the block row [i] *)
    Definition partners (i : nat) : Prop :=
      forall mid m, mid < nb -> ole m n -> m <> n -> m <> zeros ->
        forall f f' x y, spec f k1 (i, mid, m) = Some x -> spec f' k2 (mid, i, m) = Some y -> x == vadj O y.

    (** order-0 elements of both factors are 0 *)
    Definition zero0 (i : nat) : Prop :=
      forall mid, mid < nb ->
        (forall f x, spec f k1 (i, mid, zeros) = Some x -> x == vz) /\
        (forall f y, spec f k2 (mid, i, zeros) = Some y -> y == vz).

    Lemma ole_zeros m : ole m n -> lsub n m = n -> m = zeros.
    Proof. intros H E. rewrite <- (@lsub_invol n m H). now rewrite E. Qed.

    (** term-wise reflection between P(j,i,n) [fuel f] and P(i,j,n) [fuel f'] *)
    Lemma term_reflect i j f f' mid m r r' :
      partners i -> partners j -> zero0 i -> zero0 j -> mid < nb -> ole m n ->
      tvo (spec f) j i n k1 k2 (mid, m) = Some r ->
      tvo (spec f') i j n k1 k2 (mid, lsub n m) = Some r' ->
      vadj O (contrib r) == contrib r'.
    Proof.
      pose proof (vl_equiv L) as EQ.
      intros Pi Pj Zi Zj Hmid Hm E E'. unfold tvo in E, E'. cbn [fst snd] in E, E'.
      rewrite (@lsub_invol n m Hm) in E'.
      assert (Hr : ole (lsub n m) n) by (apply splits_ok; now apply splits_complete).
      destruct (list_eq_dec Nat.eq_dec m n) as [En|Nn].
      { (* m = n: the second factor of the first term and the first factor of the mirror are of order 0 *)
        subst m. rewrite (@lazy_zero_r _ _ _ _ E), (@lazy_zero_l _ _ _ _ E'); [apply (l_adj_0 L)| |].
        - intros x Hx. eapply (proj1 (Zi mid Hmid)); eauto.
        - intros y Hy. eapply (proj2 (Zi mid Hmid)); eauto. }
      destruct (list_eq_dec Nat.eq_dec m zeros) as [Ez|Nz].
      { assert (lsub n m = n) as Er by (rewrite Ez; apply lsub_invol, ole_refl).
        rewrite (@lazy_zero_l _ _ _ _ E), (@lazy_zero_r _ _ _ _ E'); [apply (l_adj_0 L)| |].
        - intros y Hy. rewrite Ez in Hy. eapply (proj2 (Zj mid Hmid)); eauto.
        - intros x Hx. rewrite Ez in Hx. eapply (proj1 (Zj mid Hmid)); eauto. }
      eapply (@lazy_reflect _ _ _ _ _ _ _ _ E E').
      - intros x y Hx Hy. eapply (Pj mid m); eauto.
      - intros x y Hx Hy. eapply (Pi mid (lsub n m)); eauto.
        + intros F. apply Nz. now apply ole_zeros.
        + intros F. apply Nn. rewrite <- (@lsub_invol n m Hm), F. apply lsub_invol, ole_refl.
    Qed.

    (** P(i,j,n) is the adjoint of P(j,i,n) *)
    Theorem prod_adjoint i j f f' w w' :
      partners i -> partners j -> zero0 i -> zero0 j ->
      iprod_gen O W (spec f) (i, j, n) false k1 k2 = Some w ->
      iprod_gen O W (spec f') (j, i, n) false k1 k2 = Some w' ->
      w == vadj O w'.
    Proof.
      pose proof (vl_equiv L) as EQ.
      intros Pi Pj Zi Zj E E'. unfold iprod_gen in E, E'. cbn [idx_n] in E, E'.
      destruct (loop_full _ _ _ _ _ _ _ _ E) as [D S]. destruct (loop_full _ _ _ _ _ _ _ _ E') as [D' S'].
      rewrite S, S', !(l_add_0_l L), (vsum_adj L).
      unfold pbo_space. rewrite !(vsum_flat_map L). apply (vsum_ext L). intros mid Hmid. apply in_seq in Hmid.
      rewrite !map_map. cbn beta.
      rewrite <- (refl_sum L n (fun m => tv (spec f) i j n k1 k2 (mid, m))).
      apply (vsum_ext L). intros m Hm. symmetry.
      assert (In (mid, m) (pbo_space nb n)) as I1.
      { unfold pbo_space. apply in_flat_map. exists mid. split; [apply in_seq; lia | now apply in_map]. }
      assert (In (mid, lsub n m) (pbo_space nb n)) as I2.
      { unfold pbo_space. apply in_flat_map. exists mid. split; [apply in_seq; lia | apply in_map; now apply splits_refl]. }
      unfold tv. destruct (tvo (spec f') j i n k1 k2 (mid, m)) as [r|] eqn:T'; [|exfalso; exact (D' (mid, m) I1 T')].
      destruct (tvo (spec f) i j n k1 k2 (mid, lsub n m)) as [r'|] eqn:T; [|exfalso; exact (D (mid, lsub n m) I2 T)].
      assert (Hlt : mid < nb) by lia.
      exact (@term_reflect i j f' f mid m r r' Pi Pj Zi Zj Hlt (proj1 (splits_ok _ _ Hm)) T' T).
    Qed.

    (** on a diagonal block the half-sum of product_by_order equals the full sum *)
    Theorem half_sum_valid i f f' w w' :
      partners i -> zero0 i ->
      iprod_gen O W (spec f) (i, i, n) false k1 k2 = Some w ->
      iprod_gen O W (spec f') (i, i, n) true k1 k2 = Some w' ->
      w' == w.
    Proof.
      pose proof (vl_equiv L) as EQ.
      intros Pi Zi E E'. unfold iprod_gen in E, E'. cbn [idx_n] in E, E'.
      destruct (loop_full _ _ _ _ _ _ _ _ E) as [D S]. destruct (loop_half _ _ _ _ _ _ _ _ E') as [D' S'].
      rewrite S, S', !(l_add_0_l L).
      unfold pbo_space. rewrite !(vsum_flat_map L). apply (vsum_ext L). intros mid Hmid. apply in_seq in Hmid.
      rewrite !map_map. cbn beta.
      assert (IN : forall m, In m (splits n) -> In (mid, m) (pbo_space nb n)).
      { intros m Hm. unfold pbo_space. apply in_flat_map. exists mid. split; [apply in_seq; lia | now apply in_map]. }
      (* reflection of the terms of the full sum (one fuel) *)
      assert (R : forall m, In m (splits n) ->
                    vadj O (tv (spec f) i i n k1 k2 (mid, m)) == tv (spec f) i i n k1 k2 (mid, lsub n m)).
      { intros m Hm. unfold tv.
        destruct (tvo (spec f) i i n k1 k2 (mid, m)) as [r|] eqn:T; [|exfalso; exact (D (mid, m) (IN m Hm) T)].
        destruct (tvo (spec f) i i n k1 k2 (mid, lsub n m)) as [r'|] eqn:T'; [|exfalso; exact (D (mid, lsub n m) (IN _ (splits_refl _ _ Hm)) T')].
        assert (Hlt : mid < nb) by lia.
        exact (@term_reflect i i f f mid m r r' Pi Pi Zi Zi Hlt (proj1 (splits_ok _ _ Hm)) T T'). }
      rewrite <- (half_full L n (fun m => tv (spec f) i i n k1 k2 (mid, m)) R).
      apply (vsum_ext L). intros m Hm. unfold hterm, half_term. cbn [fst snd].
      destruct (lex_gt m (lsub n m)) eqn:G; [reflexivity|].
      (* a term of the half-sum (fuel f') equals the same term of the full sum (fuel f) *)
      assert (C : tv (spec f') i i n k1 k2 (mid, m) == tv (spec f) i i n k1 k2 (mid, m)).
      { rewrite <- (l_adj_adj L (tv (spec f') i i n k1 k2 (mid, m))).
        assert (X : vadj O (tv (spec f') i i n k1 k2 (mid, m)) == tv (spec f) i i n k1 k2 (mid, lsub n m)).
        { unfold tv.
          destruct (tvo (spec f') i i n k1 k2 (mid, m)) as [r|] eqn:T; [|exfalso; exact (D' (mid, m) (IN m Hm) G T)].
          destruct (tvo (spec f) i i n k1 k2 (mid, lsub n m)) as [r'|] eqn:T'; [|exfalso; exact (D (mid, lsub n m) (IN _ (splits_refl _ _ Hm)) T')].
          assert (Hlt : mid < nb) by lia.
          exact (@term_reflect i i f' f mid m r r' Pi Pi Zi Zi Hlt (proj1 (splits_ok _ _ Hm)) T T'). }
        rewrite X, (R _ (splits_refl _ _ Hm)). rewrite lsub_invol by (now apply splits_ok). reflexivity. }
      destruct (lnat_eqb m (lsub n m)); now rewrite C.
    Qed.
  End Product.
End General.
