(** Whole-series ("symbolic") meaning of a program of the mini-language in a [BlockAlg].

    [solution alg gflag rflag fenv sol] says that the valuation [sol : name -> T] of all
    series, products and inputs satisfies every definition of [alg], where each definition is
    read as ONE equation between elements of the algebra (a series of block matrices):

    - a string literal is the named series, [.adj] its adjoint, a product name the product of
      the factors (for a product declared hermitian: the half-sum on the diagonal blocks, the
      true product on the upper blocks and the adjoint of the upper blocks on the lower ones -
      this is what cauchy_dot_product(hermitian=True) computes);
    - a [diagonal] line contributes [Sel v] (the scope function diag on the diagonal blocks),
      an [offdiagonal] line [v - Sel v] (off-diagonal blocks, and the scope function offdiag
      on the diagonal blocks), an unconditional line [v];
    - a hermitian / antihermitian marker replaces the lower blocks by (minus) the adjoint of
      the upper blocks of the series itself; value lines written before the marker still
      contribute to the lower blocks, as in the generated code;
    - start = 0 removes the order-zero coefficient, start = 1 puts the identity there on the
      diagonal blocks, start = "X_0" the order-zero coefficient of the input X.

    The generated term Gen.Algorithms_gen.main_alg is interpreted by this function, so an
    edit of algorithms.py changes the equations every theorem in Alg/ has to work with. *)
Require Import Ncring Ncring_tac Setoid Morphisms ZArith String List.
From PV.Base Require Import Classes AlgLemmas.
From PV.DSL Require Import Syntax.
Import ListNotations.
Set Implicit Arguments.

Section Sem.
Context {T : Type} `{Rg : Ring T} {BA : BlockAlg T}.

Variable gflag : string -> bool.           (* global flags, e.g. two_block_optimized *)
Variable rflag : string -> T -> T.         (* row flags: projector on the rows where the flag holds *)
Variable fenv : string -> list T -> T.     (* scope functions other than diag / offdiag *)
Variable sol : string -> T.                (* valuation of every name *)

Fixpoint den (e : expr) : T :=
  match e with
  | Lit s => sol s
  | Adj s => adj (sol s)
  | EZero => 0
  | Neg a => - den a
  | Add a b => den a + den b
  | Sub a b => den a - den b
  | DivInt a k => divz (den a) k
  | Call f args =>
      fenv f (map (fun a => match a with ArgSeries s => sol s | ArgExpr a' => den a' end) args)
  | IfFlag (FlagGlobal n) a b => if gflag n then den a else den b
  | IfFlag (FlagRow n) a b => rflag n (den a) + (den b - rflag n (den b))
  end.

Definition line_den (c : cond) (e : expr) : T :=
  match c with
  | Default => den e
  | Diagonal => Sel (den e)
  | Offdiagonal => Rp (den e)
  end.

(* sum of the value lines of a body *)
Fixpoint lines_den (b : list line) : T :=
  match b with
  | [] => 0
  | Line c e :: r => line_den c e + lines_den r
  | Marker _ :: r => lines_den r
  end.

(* value lines before the first marker, the marker, and the lines after it *)
Fixpoint split_marker (b : list line) : list line * option (herm * list line) :=
  match b with
  | [] => ([], None)
  | Marker h :: r => ([], Some (h, r))
  | l :: r => let '(pre, m) := split_marker r in (l :: pre, m)
  end.

Definition body_den (s : string) (b : list line) : T :=
  match split_marker b with
  | (pre, None) => lines_den pre
  | (pre, Some (h, post)) =>
      let all := lines_den pre + lines_den post in
      Dg all + Up all + Lo (lines_den pre)
      + match h with Herm => adj (Up (sol s)) | AntiHerm => - adj (Up (sol s)) end
  end.

Definition with_start (st : start) (rhs : T) : T :=
  match st with
  | NoStart | StartOther _ => rhs
  | StartZero => Pos rhs
  | StartOne => 1 + (rhs - Dg (Zc rhs))
  | StartInput x => Zc (sol x) + Pos rhs
  end.

Definition sdef_holds (d : sdef) : Prop :=
  sol (sname d) == with_start (sstart d) (body_den (sname d) (sbody d)).

Fixpoint prod_den (fs : list string) (acc : T) : T :=
  match fs with
  | [] => acc
  | f :: r => prod_den r (acc * sol f)
  end.

Definition product_den (p : pdef) : T :=
  match pfactors p with
  | [] => 1
  | f :: r =>
      let full := prod_den r (sol f) in
      if pherm p then
        match r with
        | [g] => hsum (sol f) (sol g) + Up full + adj (Up full)
        | _ => Dg full + Up full + adj (Up full)
        end
      else full
  end.

Definition pdef_holds (p : pdef) : Prop := sol (pname p) == product_den p.

Definition solution (alg : algorithm) : Prop :=
  Forall sdef_holds (aseries alg) /\ Forall pdef_holds (aproducts alg).

Lemma solution_series alg : solution alg ->
  forall n d, find_sdef n (aseries alg) = Some d -> sdef_holds d.
Proof.
  intros [Hs _]. induction Hs as [|d0 l Hd Hl IH]; cbn [find_sdef]; intros n d E.
  - discriminate.
  - destruct (String.eqb (sname d0) n). inversion E; subst; exact Hd. eapply IH; exact E.
Qed.
Lemma solution_product alg : solution alg ->
  forall n p, find_pdef n (aproducts alg) = Some p -> pdef_holds p.
Proof.
  intros [_ Hs]. induction Hs as [|d0 l Hd Hl IH]; cbn [find_pdef]; intros n d E.
  - discriminate.
  - destruct (String.eqb (pname d0) n). inversion E; subst; exact Hd. eapply IH; exact E.
Qed.

End Sem.
