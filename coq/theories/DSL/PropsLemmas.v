(** DSL/PropsLemmas.v - the proofs of the statements of Props/C10..C12 (the Props files only
    restate them and apply these lemmas). *)
From Coq Require Import String List ZArith Bool Arith.
From PV.DSL Require Import Syntax Values Target Compile Interp Exec Laws Sound CompileProps Main Faults Causal HermMain Stratified Terminate Examples.
From PV.Gen Require Import Algorithms_gen.
Import ListNotations.
Open Scope string_scope.
Open Scope list_scope.

Lemma L_C10_history :
  forall (V : Type) (O : vops V) (eqv : V -> V -> Prop), vlaws O eqv ->
  forall (alg : algorithm) (W : xworld V) (sfn : string -> list V -> index -> V),
  world_ok O eqv alg W sfn ->
  forall fuel1 fuel2 c1 c2 rs1 rs2 os1 os2 s1 s2 i1 i2 tb1 tb2 name ix v1 v2,
    run_all O alg (compile alg) W fuel1 (init_state alg W c1) rs1 = (os1, s1) ->
    run_all O alg (compile alg) W fuel2 (init_state alg W c2) rs2 = (os2, s2) ->
    Forall (fun o => o <> OutOfFuel) os1 -> Forall (fun o => o <> OutOfFuel) os2 ->
    nth_error rs1 i1 = Some (tb1, name, ix) -> nth_error os1 i1 = Some (Ok v1) ->
    nth_error rs2 i2 = Some (tb2, name, ix) -> nth_error os2 i2 = Some (Ok v2) ->
    forall f w, interp O alg (SW O W sfn) f (KN name) ix = Some w ->
      eqv (den O v1) w /\ eqv (den O v2) w.
Proof.
  intros V O eqv L alg W sfn WO fuel1 fuel2 c1 c2 rs1 rs2 os1 os2 s1 s2 i1 i2 tb1 tb2 name ix v1 v2
         E1 E2 N1 N2 R1 O1 R2 O2 f w Ef.
  split.
  - exact (@schedule_value V O eqv L alg W sfn WO fuel1 c1 rs1 os1 s1 i1 tb1 name ix v1 E1 N1 R1 O1 f w Ef).
  - exact (@schedule_value V O eqv L alg W sfn WO fuel2 c2 rs2 os2 s2 i2 tb2 name ix v2 E2 N2 R2 O2 f w Ef).
Qed.

Lemma L_C10_inputs_untouched :
  forall (alg : algorithm) (inputs : list string),
  (forall x, In x inputs -> has_at x = false) ->
  (forall name body s tr,
     In (name, body) (compile alg) ->
     (In (TS (TDel s tr)) body \/ exists t b, In (TIf t b) body /\ In (TDel s tr) b) ->
     kind_of alg inputs s <> KInput)
  /\
  (forall (V : Type) (O : vops V) (eqv : V -> V -> Prop), vlaws O eqv ->
   forall (W : xworld V) (sfn : string -> list V -> index -> V),
   xw_inputs W = inputs -> world_ok O eqv alg W sfn ->
   forall fuel s tb name ix r s' x ix' v,
     reachable_inv O eqv alg W sfn s ->
     run O alg (compile alg) W fuel s (tb, name, ix) = (r, s') -> r <> OutOfFuel ->
     kind_of alg (xw_inputs W) x = KInput ->
     st_lookup s (TTab, KN x, ix') = Some (Done v) -> st_lookup s' (TTab, KN x, ix') = Some (Done v)).
Proof.
  intros alg inputs Hp. split.
  - intros name body s tr. now apply compile_never_deletes_inputs.
  - intros V O eqv L W sfn _ WO fuel s tb name ix r s' x ix' v. now apply request_keeps_inputs.
Qed.

Lemma L_C11_exn_safe :
  forall (V : Type) (O : vops V) (eqv : V -> V -> Prop), vlaws O eqv ->
  forall (alg : algorithm) (W : xworld V) (sfn : string -> list V -> index -> V),
  world_ok O eqv alg W sfn ->
  (* any fault plan: it is indexed by the global count of callback invocations, so it also
     describes the faults that hit the later requests *)
  forall (fp : nat -> option exn) fuel c rs os s1,
    (* any schedule with any outcomes *)
    run_all O alg (compile alg) (with_faults W fp) fuel (init_state alg W c) rs = (os, s1) ->
    Forall (fun o => o <> OutOfFuel) os ->
    (* leaves no in-flight marker behind *)
    no_pending s1 /\
    (* and every later request *)
    forall fuel' tb name ix r s2,
      run O alg (compile alg) (with_faults W fp) fuel' s1 (tb, name, ix) = (r, s2) -> r <> OutOfFuel ->
      no_pending s2 /\
      forall v, r = Ok v ->
        (* returns the value of the direct interpretation, which is also what an undisturbed
           fresh computation returns *)
        forall f w, interp O alg (SW O W sfn) f (KN name) ix = Some w ->
          eqv (den O v) w /\
          forall fuel0 c0 tb0 v0 s0,
            run O alg (compile alg) (with_faults W (fun _ => None)) fuel0 (init_state alg W c0) (tb0, name, ix) = (Ok v0, s0) ->
            eqv (den O v0) w.
Proof.
  intros V O eqv L alg W sfn WO fp fuel c rs os s1 E NO.
  pose proof (world_ok_faults fp WO) as WO1.
  destruct (@schedule_sound V O eqv L alg (with_faults W fp) sfn WO1 fuel c rs os s1 E NO) as (I1 & NP1 & _).
  split; [exact NP1|].
  intros fuel' tb name ix r s2 E2 NO2.
  destruct (@request_sound V O eqv L alg (with_faults W fp) sfn WO1 fuel' s1 tb name ix r s2 I1 E2 NO2) as (_ & NP2 & _ & P2).
  split; [exact NP2|]. intros v -> f w Ef. split; [exact (P2 v eq_refl f w Ef)|].
  intros fuel0 c0 tb0 v0 s0 E0.
  pose proof (world_ok_faults (fun _ => None) WO) as WO0.
  destruct (@request_sound V O eqv L alg (with_faults W (fun _ => None)) sfn WO0 fuel0 _ tb0 name ix _ s0
              (init_reachable L alg (with_faults W (fun _ => None)) sfn c0) E0 ltac:(discriminate)) as (_ & _ & _ & P0).
  exact (P0 v0 eq_refl f w Ef).
Qed.

Lemma L_C12_causal :
  forall (V : Type) (O : vops V) (alg : algorithm) (W : xworld V),
  (forall x, In x (xw_inputs W) -> has_at x = false) ->
  forall fuel c rs os s1,
    run_all O alg (compile alg) W fuel (init_state alg W c) rs = (os, s1) ->
    Forall (fun o => o <> OutOfFuel) os ->
    forall fuel' tb name ix r s2,
      run O alg (compile alg) W fuel' s1 (tb, name, ix) = (r, s2) -> r <> OutOfFuel ->
      exists l, log s2 = l ++ log s1 /\
                forall e, In e l -> ole (idx_n (ev_idx e)) (idx_n ix).
Proof.
  intros V O alg W Hp fuel c rs os s1 E NO fuel' tb name ix r s2 E2 NO2.
  pose proof (trivial_laws O) as L. pose proof (trivial_world_ok O alg W Hp) as WO.
  destruct (@schedule_sound V O (@teq V) L alg W (tsfn O) WO fuel c rs os s1 E NO) as (I1 & _ & _).
  destruct (@request_causal V O (@teq V) L alg W (tsfn O) WO fuel' s1 tb name ix r s2 I1 E2 NO2) as (l & El & Fl).
  exists l. split; auto. intros e He. rewrite Forall_forall in Fl. exact (Fl e He).
Qed.

Lemma L_C12_once :
  forall (V : Type) (O : vops V) (alg : algorithm) (W : xworld V),
  (forall x, In x (xw_inputs W) -> has_at x = false) ->
  (forall k, xw_fault W k = None) ->
  forall fuel c rs os s1,
    run_all O alg (compile alg) W fuel (init_state alg W c) rs = (os, s1) ->
    Forall (fun o => o <> OutOfFuel) os ->
    NoDup (input_evs (log s1)).
Proof.
  intros V O alg W Hp nf fuel c rs os s1 E NO.
  pose proof (trivial_laws O) as L. pose proof (trivial_world_ok O alg W Hp) as WO.
  destruct (@schedule_sound V O (@teq V) L alg W (tsfn O) WO fuel c rs os s1 E NO) as (I1 & _ & _).
  exact (inputs_once I1 nf).
Qed.

Lemma L_C09_sound_main :
  forall (V : Type) (O : vops V) (eqv : V -> V -> Prop), vlaws O eqv ->
  forall (W : xworld V) (sfn : string -> list V -> index -> V),
  (forall x, In x (xw_inputs W) -> has_at x = false) ->
  (forall f l l' ix, Forall2 eqv l l' -> eqv (sfn f l ix) (sfn f l' ix)) ->
  (forall f args ix r, xw_fn W f args ix = Ok r -> eqv (den O r) (sfn f (map (den O) args) ix)) ->
  (forall a, eqv a (v0 O) -> vis0 O a = true) ->
  xw_hasoff W = false ->
  (forall x i n, eqv (vadj O (sfn "diag" [x] (i, i, n))) (sfn "diag" [vadj O x] (i, i, n))) ->
  forall fuel calls0 rs os s' i tb name ix v,
    run_all O main_alg (compile main_alg) W fuel (init_state main_alg W calls0) rs = (os, s') ->
    Forall (fun o => o <> OutOfFuel) os ->
    nth_error rs i = Some (tb, name, ix) -> nth_error os i = Some (Ok v) ->
    forall f w, interp O main_alg (SW O W sfn) f (KN name) ix = Some w -> eqv (den O v) w.
Proof.
  intros V O eqv L W sfn H1 H2 H3 H4 H5 H6.
  exact (schedule_value L (@main_world_ok V O eqv L W sfn H1 H2 H3 H4 H5 H6)).
Qed.

(* ------------------------------------------------------------------ termination *)

Definition fuel_ok (alg : algorithm) (fuel : nat) (rs : list request) : Prop :=
  Forall (fun r => fuel_bound alg (snd r) <= fuel) rs.

Definition start_inputs_ok V (alg : algorithm) (W : xworld V) : Prop :=
  forall d x, In d (aseries alg) -> sstart d = StartInput x -> mem_string x (xw_inputs W) = true.

Definition fn_total V (W : xworld V) : Prop := forall f args ix, xw_fn W f args ix <> OutOfFuel.
Arguments fn_total {V} W.
Arguments start_inputs_ok {V} alg W.

Lemma L_C09_terminates :
  forall (V : Type) (O : vops V) (alg : algorithm) (W : xworld V),
  stratified alg = true -> fn_total W -> start_inputs_ok alg W ->
  forall fuel c rs os s',
    fuel_ok alg fuel rs ->
    run_all O alg (compile alg) W fuel (init_state alg W c) rs = (os, s') ->
    Forall (fun o => o <> OutOfFuel) os.
Proof.
  intros V O alg W Hs Hf Hi fuel c rs os s' Hb E.
  exact (proj1 (run_all_no_oof V O alg W Hs Hf Hi fuel rs _ os s' (init_SI V O alg W c) Hb E)).
Qed.

Lemma main_start_inputs V (W : xworld V) : mem_string "H" (xw_inputs W) = true -> start_inputs_ok main_alg W.
Proof.
  intros HH d x Hd S. unfold main_alg in Hd. cbn [aseries In] in Hd.
  repeat (destruct Hd as [<-|Hd]; [cbn in S; try discriminate; inversion S; subst; exact HH|]). destruct Hd.
Qed.

Lemma nh_start_inputs V (W : xworld V) : mem_string "H" (xw_inputs W) = true -> start_inputs_ok nonhermitian_alg W.
Proof.
  intros HH d x Hd S. unfold nonhermitian_alg in Hd. cbn [aseries In] in Hd.
  repeat (destruct Hd as [<-|Hd]; [cbn in S; try discriminate; inversion S; subst; exact HH|]). destruct Hd.
Qed.

Lemma L_C09_terminates_main :
  forall (V : Type) (O : vops V) (W : xworld V),
  fn_total W -> mem_string "H" (xw_inputs W) = true ->
  forall fuel c rs os s',
    fuel_ok main_alg fuel rs ->
    run_all O main_alg (compile main_alg) W fuel (init_state main_alg W c) rs = (os, s') ->
    Forall (fun o => o <> OutOfFuel) os.
Proof.
  intros V O W Hf HH. exact (L_C09_terminates V O main_alg W main_stratified Hf (main_start_inputs V W HH)).
Qed.

Lemma L_C09_terminates_nh :
  forall (V : Type) (O : vops V) (W : xworld V),
  fn_total W -> mem_string "H" (xw_inputs W) = true ->
  forall fuel c rs os s',
    fuel_ok nonhermitian_alg fuel rs ->
    run_all O nonhermitian_alg (compile nonhermitian_alg) W fuel (init_state nonhermitian_alg W c) rs = (os, s') ->
    Forall (fun o => o <> OutOfFuel) os.
Proof.
  intros V O W Hf HH. exact (L_C09_terminates V O nonhermitian_alg W nonhermitian_stratified Hf (nh_start_inputs V W HH)).
Qed.

(** soundness of the shipped algorithms without the premise "no outcome is OutOfFuel" *)
Lemma L_C09_sound_main_total :
  forall (V : Type) (O : vops V) (eqv : V -> V -> Prop), vlaws O eqv ->
  forall (W : xworld V) (sfn : string -> list V -> index -> V),
  (forall x, In x (xw_inputs W) -> has_at x = false) ->
  (forall f l l' ix, Forall2 eqv l l' -> eqv (sfn f l ix) (sfn f l' ix)) ->
  (forall f args ix r, xw_fn W f args ix = Ok r -> eqv (den O r) (sfn f (map (den O) args) ix)) ->
  (forall a, eqv a (v0 O) -> vis0 O a = true) ->
  xw_hasoff W = false ->
  (forall x i n, eqv (vadj O (sfn "diag" [x] (i, i, n))) (sfn "diag" [vadj O x] (i, i, n))) ->
  fn_total W -> mem_string "H" (xw_inputs W) = true ->
  forall fuel calls0 rs os s' i tb name ix v,
    fuel_ok main_alg fuel rs ->
    run_all O main_alg (compile main_alg) W fuel (init_state main_alg W calls0) rs = (os, s') ->
    nth_error rs i = Some (tb, name, ix) -> nth_error os i = Some (Ok v) ->
    forall f w, interp O main_alg (SW O W sfn) f (KN name) ix = Some w -> eqv (den O v) w.
Proof.
  intros V O eqv L W sfn H1 H2 H3 H4 H5 H6 Hf HH fuel calls0 rs os s' i tb name ix v Hb E.
  exact (L_C09_sound_main V O eqv L W sfn H1 H2 H3 H4 H5 H6 fuel calls0 rs os s' i tb name ix v E
           (L_C09_terminates_main V O W Hf HH fuel calls0 rs os s' Hb E)).
Qed.

Lemma L_C09_sound_nh_total :
  forall (V : Type) (O : vops V) (eqv : V -> V -> Prop), vlaws O eqv ->
  forall (W : xworld V) (sfn : string -> list V -> index -> V),
  (forall x, In x (xw_inputs W) -> has_at x = false) ->
  (forall f l l' ix, Forall2 eqv l l' -> eqv (sfn f l ix) (sfn f l' ix)) ->
  (forall f args ix r, xw_fn W f args ix = Ok r -> eqv (den O r) (sfn f (map (den O) args) ix)) ->
  fn_total W -> mem_string "H" (xw_inputs W) = true ->
  forall fuel calls0 rs os s' i tb name ix v,
    fuel_ok nonhermitian_alg fuel rs ->
    run_all O nonhermitian_alg (compile nonhermitian_alg) W fuel (init_state nonhermitian_alg W calls0) rs = (os, s') ->
    nth_error rs i = Some (tb, name, ix) -> nth_error os i = Some (Ok v) ->
    forall f w, interp O nonhermitian_alg (SW O W sfn) f (KN name) ix = Some w -> eqv (den O v) w.
Proof.
  intros V O eqv L W sfn H1 H2 H3 Hf HH fuel calls0 rs os s' i tb name ix v Hb E.
  destruct (@no_herm_valid V O eqv nonhermitian_alg W sfn eq_refl) as [A B].
  assert (WO : world_ok O eqv nonhermitian_alg W sfn) by (split; auto).
  exact (@schedule_value V O eqv L nonhermitian_alg W sfn WO fuel calls0 rs os s' i tb name ix v E
           (L_C09_terminates_nh V O W Hf HH fuel calls0 rs os s' Hb E)).
Qed.

(** after any faults, later requests still terminate (with a value or an exception) *)
Lemma L_C11_later_requests_terminate :
  forall (V : Type) (O : vops V) (alg : algorithm) (W : xworld V),
  stratified alg = true -> fn_total W -> start_inputs_ok alg W ->
  forall (fp : nat -> option exn) fuel c rs os s1,
    fuel_ok alg fuel rs ->
    run_all O alg (compile alg) (with_faults W fp) fuel (init_state alg W c) rs = (os, s1) ->
    Forall (fun o => o <> OutOfFuel) os /\
    forall fuel' tb name ix r s2,
      fuel_bound alg ix <= fuel' ->
      run O alg (compile alg) (with_faults W fp) fuel' s1 (tb, name, ix) = (r, s2) ->
      r <> OutOfFuel.
Proof.
  intros V O alg W Hs Hf Hi fp fuel c rs os s1 Hb E.
  destruct (run_all_no_oof V O alg (with_faults W fp) Hs Hf Hi fuel rs _ os s1 (init_SI V O alg (with_faults W fp) c) Hb E) as [N I].
  split; [exact N|]. intros fuel' tb name ix r s2 Hb' E'.
  exact (proj1 (run_no_oof V O alg (with_faults W fp) Hs Hf Hi fuel' s1 tb name ix r s2 I Hb' E')).
Qed.

Lemma L_C09_sound_slices :
  forall (V : Type) (O : vops V) (eqv : V -> V -> Prop), vlaws O eqv ->
  forall (alg : algorithm) (W : xworld V) (sfn : string -> list V -> index -> V),
  world_ok O eqv alg W sfn ->
  forall fuel calls0 rs os s1 fuel' tb name ixs vs s2,
    run_all O alg (compile alg) W fuel (init_state alg W calls0) rs = (os, s1) ->
    Forall (fun o => o <> OutOfFuel) os ->
    run_multi O alg (compile alg) W fuel' s1 tb name ixs = (Ok vs, s2) ->
    Forall2 (fun ix v => forall f w, interp O alg (SW O W sfn) f (KN name) ix = Some w -> eqv (den O v) w) ixs vs.
Proof.
  intros V O eqv L alg W sfn WO fuel calls0 rs os s1 fuel' tb name ixs vs s2 E NO E2.
  destruct (@schedule_sound V O eqv L alg W sfn WO fuel calls0 rs os s1 E NO) as (I1 & _ & _).
  exact (proj2 (proj2 (@multi_request_sound V O eqv L alg W sfn WO fuel' tb name ixs s1 vs s2 I1 E2))).
Qed.
